import ElaVerif.Model.Reward
import ElaVerif.Lemmas.Reward
import ElaVerif.Lemmas.FloatModel
import ElaVerif.Lemmas.ConsensusMode
import ElaVerif.Gen.C11
/-!
# C11 — issuance follows the schedule

Model: `ElaVerif/Model/Reward.lean`.
* schedule: `blockReward p h` (GetBlockReward / newRewardPerBlock, `uint32` factor arithmetic,
  the float expression reduced to `base >>> halvings`, see the model header; the driver also
  evaluates the float expression itself and both are compared with the real function on every run);
* coinbase of a DPoS-v2 block: `coinbaseV2Check cr dp …` (checkCoinbaseTransactionContext, first
  branch) and `assignV2 cr dp …` (AssignCoinbaseTxRewards, first branch), for **arbitrary** share
  functions `cr dp` (Go: `Fixed64(math.Ceil(float64(total) * 0.3 | 0.35))`).

The accuracy of the float shares is proved over an abstract rounding operator satisfying the
standard model (`Lemmas/FloatModel.lean`): `C11_share30_within_one_sela`, `C11_share35_within_one_sela`
(totals below 2^50), and with it the exact-integer coinbase total (`C11_coinbase_total_exact_std`).
-/
namespace ElaVerif.C11
open ElaVerif.Fixed64 ElaVerif.Reward

/-! ### schedule -/

/-- the subsidy is never negative (the pre-schedule constant is a configuration value) -/
theorem C11_nonneg (p : Params) (h : Nat) (r : Int) (hold : 0 ≤ p.oldReward)
    (hr : blockReward p h = some r) : 0 ≤ r := by
  unfold blockReward at hr
  split at hr
  · cases hr; exact hold
  · split at hr
    · cases hr
    · cases hr; exact Int.natCast_nonneg _

example : blockReward Gen.C11.mainnet 2000000 = some 152207001 := by decide

/-- GetBlockReward panics (integer divide by zero) only for a zero halving interval -/
theorem C11_no_panic (p : Params) (h : Nat) (hI : p.halvingInterval ≠ 0) :
    (blockReward p h).isSome = true := by
  unfold blockReward factor
  by_cases a : h < p.newIssuanceHeight
  · simp [a]
  · by_cases b : h < p.halvingHeight <;> simp [a, b, hI]

/-- **Once the new schedule applies the subsidy never increases with height**
    (all `uint32` heights; a halving interval of at least 2 blocks keeps `factor` from wrapping). -/
theorem C11_monotone (p : Params) (h1 h2 : Nat) (r1 r2 : Int)
    (hI : 2 ≤ p.halvingInterval) (hnew : p.newIssuanceHeight ≤ h1) (hle : h1 ≤ h2) (hu : h2 < u32)
    (e1 : blockReward p h1 = some r1) (e2 : blockReward p h2 = some r2) : r2 ≤ r1 := by
  obtain ⟨f1, f2, hf1, hf2, h1r, h2r, hff⟩ := rewards_as_shifts p h1 h2 r1 r2 hI hnew hle hu e1 e2
  subst h1r; subst h2r
  exact Int.ofNat_le.mpr (shiftRight_anti p.base hff)

example : blockReward Gen.C11.mainnet 1051199 = some 304414003 ∧
          blockReward Gen.C11.mainnet 1051200 = some 152207001 ∧
          blockReward Gen.C11.mainnet 2102400 = some 76103500 := by decide

/-- closed form after the first halving: `⌊base / 2^(1 + (h − H)/I)⌋` -/
theorem C11_halving_closed_form (p : Params) (h : Nat)
    (hI : 2 ≤ p.halvingInterval) (hnew : p.newIssuanceHeight ≤ h) (hh : p.halvingHeight ≤ h) (hu : h < u32) :
    blockReward p h = some (Int.ofNat (p.base / 2 ^ (1 + (h - p.halvingHeight) / p.halvingInterval))) := by
  rw [reward_new p h hnew, factor_halving p h hI hh hu]
  simp only []
  have hq : (h - p.halvingHeight) / p.halvingInterval ≤ (h - p.halvingHeight) / 2 :=
    Nat.div_le_div_left hI (by omega)
  generalize (h - p.halvingHeight) / p.halvingInterval = q at *
  rw [halvings_small (2 + q) (by omega) (by unfold u32 at *; omega)]
  rw [Nat.shiftRight_eq_div_pow]
  have : 2 + q - 1 = 1 + q := by omega
  rw [this]

/-- at the switch to the new schedule the subsidy does not go up, and it never exceeds `base` -/
theorem C11_boundary (p : Params) (h : Nat) (r : Int) (hb : (p.base : Int) ≤ p.oldReward)
    (hr : blockReward p h = some r) : r ≤ p.oldReward := by
  unfold blockReward at hr
  split at hr
  · cases hr; exact Int.le_refl _
  · split at hr
    · cases hr
    · cases hr
      rename_i f _
      have : p.base >>> halvings f ≤ p.base := Nat.shiftRight_le _ _
      simp only [Int.ofNat_eq_natCast]
      omega

/-- the subsidy eventually is zero: after 29 halvings nothing is issued any more (mainnet numbers) -/
theorem C11_issuance_ends :
    blockReward Gen.C11.mainnet (1051200 + 27 * 1051200) = some 1 ∧
    blockReward Gen.C11.mainnet (1051200 + 28 * 1051200) = some 0 ∧
    blockReward Gen.C11.mainnet 4294967295 = some 0 := by decide

/-! ### coinbase of a DPoS-v2 block -/

def crAddrOf (powMode : Bool) : Addr := if powMode then .destroy else .crAssets
def dposAddrOf (powMode : Bool) : Addr := if powMode then .destroy else .stakeReward

/-- **Every accepted coinbase has exactly three outputs: the CR share at the fixed CR address,
    the remainder to the miner, the DPoS amount at the fixed DPoS address — and conversely**
    (so a coinbase with any other count, split, total or address is always rejected). -/
theorem C11_coinbase_exact (cr dp : Fixed64 → Fixed64) (powMode : Bool)
    (fees reward dposReward : Fixed64) (outs : List Out) :
    coinbaseV2Check cr dp powMode fees reward dposReward outs = .ok ↔
      ∃ minerAddr, outs =
        [⟨cr (fees + reward), crAddrOf powMode⟩,
         ⟨(fees + reward) - cr (fees + reward) - dp (fees + reward), minerAddr⟩,
         ⟨dposReward, dposAddrOf powMode⟩] :=
  coinbase_ok_iff cr dp powMode fees reward dposReward outs

/-- when the block's two fee sums agree (`dposReward` = the DPoS share of the same total) the three
    outputs add up to exactly subsidy + fees — as 64-bit values, for every share function -/
theorem C11_coinbase_total (cr dp : Fixed64 → Fixed64) (powMode : Bool)
    (fees reward : Fixed64) (outs : List Out)
    (h : coinbaseV2Check cr dp powMode fees reward (dp (fees + reward)) outs = .ok) :
    sumW (outs.map (·.value)) = fees + reward := by
  obtain ⟨m, rfl⟩ := (C11_coinbase_exact cr dp powMode fees reward _ outs).mp h
  simp only [List.map, sumW, sumFrom]
  exact three_way_split _ _ _

/-- and as exact integers, whenever the two shares are non-negative and together at most the total -/
theorem C11_coinbase_total_exact (cr dp : Fixed64 → Fixed64) (powMode : Bool)
    (fees reward : Fixed64) (outs : List Out)
    (h : coinbaseV2Check cr dp powMode fees reward (dp (fees + reward)) outs = .ok)
    (hcr : 0 ≤ toInt (cr (fees + reward))) (hdp : 0 ≤ toInt (dp (fees + reward)))
    (hsum : toInt (cr (fees + reward)) + toInt (dp (fees + reward)) ≤ toInt (fees + reward)) :
    sumZ (outs.map (·.value)) = toInt (fees + reward) ∧ ∀ o ∈ outs, 0 ≤ toInt o.value := by
  obtain ⟨m, rfl⟩ := (C11_coinbase_exact cr dp powMode fees reward _ outs).mp h
  have hm := miner_exact (fees + reward) (cr (fees + reward)) (dp (fees + reward)) hcr hdp hsum
  constructor
  · simp only [List.map, sumZ]; omega
  · intro o ho
    simp only [List.mem_cons, List.mem_nil_iff, or_false] at ho
    rcases ho with rfl | rfl | rfl <;> simp only [] <;> omega

/-- non-vacuity (30/35/35 of 1000 sela in DPoS mode) -/
example : coinbaseV2Check (fun _ => 300) (fun _ => 350) false 0 1000 350
    [⟨300, .crAssets⟩, ⟨350, .other 7⟩, ⟨350, .stakeReward⟩] = .ok := by decide

/-- the block builder's coinbase passes the validator's check whenever the DPoS share is positive -/
theorem C11_construct_accepted (cr dp : Fixed64 → Fixed64) (powMode : Bool)
    (fees reward : Fixed64) (minerAddr : Addr) (hpos : lt 0 (dp (fees + reward)) = true) :
    coinbaseV2Check cr dp powMode fees reward (dp (fees + reward))
      (assignV2 cr dp powMode (fees + reward) .crAssets minerAddr) = .ok := by
  rw [C11_coinbase_exact]
  refine ⟨minerAddr, ?_⟩
  unfold assignV2 crAddrOf dposAddrOf
  simp only [hpos, if_true]
  cases powMode <;> rfl

/-- … and is rejected (`count`) when the DPoS share is not positive: the builder then leaves the third
    output out while the check insists on three.  (Reached on mainnet numbers only once the subsidy
    is 0 and a block carries no fee; replayed on the real code by the `asg` stream.) -/
theorem C11_construct_rejected_without_dpos_share (cr dp : Fixed64 → Fixed64) (powMode : Bool)
    (fees reward : Fixed64) (minerAddr : Addr) (hpos : lt 0 (dp (fees + reward)) = false) :
    coinbaseV2Check cr dp powMode fees reward (dp (fees + reward))
      (assignV2 cr dp powMode (fees + reward) .crAssets minerAddr) = .err .count := by
  unfold assignV2
  simp only [hpos]
  simp [coinbaseV2Check]

/-! ### the oldest rule, heights [0, PublicDPOSHeight)  (compared with the real block builder and
    validator on a real node by the `gen` stream) -/

/-- an accepted coinbase of that era pays exactly subsidy + fees (64-bit total) -/
theorem C11_legacy_total (fees reward : Fixed64) (outs : List Out) :
    coinbaseLegacyCheck fees reward outs = true ↔ sumW (outs.map (·.value)) = fees + reward := by
  unfold coinbaseLegacyCheck
  simp only [beq_iff_eq]
  rw [BitVec.sub_eq_iff_eq_add, BitVec.add_comm]

/-- the block builder's coinbase of that era passes the check, whatever the two truncated shares are -/
theorem C11_legacy_construct_accepted (tr30 tr35 : Fixed64 → Fixed64) (fees reward : Fixed64)
    (crAddr minerAddr fndAddr : Addr) :
    coinbaseLegacyCheck fees reward (assignLegacy tr30 tr35 (fees + reward) crAddr minerAddr fndAddr) = true := by
  rw [C11_legacy_total]
  simp only [assignLegacy, List.map, sumW, sumFrom]
  exact legacy_split _ _ _

/-! ### the float shares under the standard model of rounding -/

open ElaVerif.FloatModel in
/-- `Fixed64(math.Ceil(float64(t)*0.3))` is `⌈3t/10⌉` or one more, for every rounding operator
    satisfying the standard model and every total `0 ≤ t < 2^50` sela (11.2 million ELA) -/
theorem C11_share30_within_one_sela (fl : ℚ → ℚ) (h : StdModel fl) (t : ℤ) (h0 : 0 ≤ t) (h1 : t < 2 ^ 50) :
    (3 * t + 9) / 10 ≤ ceilShare fl c30 t ∧ ceilShare fl c30 t ≤ (3 * t + 9) / 10 + 1 := by
  have := share30_bounds fl h t h0 h1
  omega

open ElaVerif.FloatModel in
/-- `Fixed64(math.Ceil(float64(t)*0.35))` is within one sela of `⌈35t/100⌉` — either side: the
    binary64 value of `0.35` is slightly below 35 % -/
theorem C11_share35_within_one_sela (fl : ℚ → ℚ) (h : StdModel fl) (t : ℤ) (h0 : 0 ≤ t) (h1 : t < 2 ^ 50) :
    (35 * t + 99) / 100 - 1 ≤ ceilShare fl c35 t ∧ ceilShare fl c35 t ≤ (35 * t + 99) / 100 + 1 := by
  have := share35_bounds fl h t h0 h1
  omega

/-- the share functions of the coinbase model, computed the float way -/
def crStd (fl : ℚ → ℚ) : Fixed64 → Fixed64 := fun x => ofInt (FloatModel.ceilShare fl FloatModel.c30 (toInt x))
def dpStd (fl : ℚ → ℚ) : Fixed64 → Fixed64 := fun x => ofInt (FloatModel.ceilShare fl FloatModel.c35 (toInt x))

open ElaVerif.FloatModel in
/-- **With float shares an accepted DPoS-v2 coinbase pays exactly subsidy + fees, as exact
    integers, and no output is negative** — for totals from 6 sela up to 2^50 sela.
    (Below 6 sela the two rounded-up shares exceed the total and the miner's part is negative.) -/
theorem C11_coinbase_total_exact_std (fl : ℚ → ℚ) (h : StdModel fl) (powMode : Bool)
    (fees reward : Fixed64) (outs : List Out)
    (h6 : 6 ≤ toInt (fees + reward)) (h50 : toInt (fees + reward) < 2 ^ 50)
    (hok : coinbaseV2Check (crStd fl) (dpStd fl) powMode fees reward (dpStd fl (fees + reward)) outs = .ok) :
    sumZ (outs.map (·.value)) = toInt (fees + reward) ∧ ∀ o ∈ outs, 0 ≤ toInt o.value := by
  have b30 := share30_bounds fl h (toInt (fees + reward)) (by omega) h50
  have b35 := share35_bounds fl h (toInt (fees + reward)) (by omega) h50
  have e30 : toInt (crStd fl (fees + reward)) = ceilShare fl c30 (toInt (fees + reward)) := by
    unfold crStd; rw [Fixed64.toInt_ofInt]; exact bmod_exact _ (by omega) (by omega)
  have e35 : toInt (dpStd fl (fees + reward)) = ceilShare fl c35 (toInt (fees + reward)) := by
    unfold dpStd; rw [Fixed64.toInt_ofInt]; exact bmod_exact _ (by omega) (by omega)
  exact C11_coinbase_total_exact (crStd fl) (dpStd fl) powMode fees reward outs hok
    (by rw [e30]; omega) (by rw [e35]; omega) (by rw [e30, e35]; omega)

/-! ### where the POW-mode flag of the coinbase rule comes from (compared with a real dpos State
    that connects and rolls back blocks, stream `rvt`) -/

open ElaVerif.ConsensusMode in
/-- **A reorganisation restores the consensus mode**: disconnecting the blocks connected since some
    point puts the mode (and with it the addresses the coinbase rule requires) back to what it was at
    that point — in particular a disconnected RevertToPOW block leaves the chain in DPoS consensus. -/
theorem C11_mode_restored_by_rollback (s : St) (bs : List Blk) (hv : Valid s bs) :
    rollback bs.length (connectAll s bs) = s :=
  rollback_connectAll s bs hv

open ElaVerif.ConsensusMode in
/-- the mode is POW exactly when a RevertToPOW block is among the connected blocks (starting in
    DPoS consensus with nothing connected, valid histories) -/
theorem C11_mode_is_pow_iff (bs : List Blk) (hv : Valid ⟨false, []⟩ bs) :
    (connectAll ⟨false, []⟩ bs).pow = true ↔ Blk.revertToPow ∈ bs := by
  suffices h : ∀ (s : St), Valid s bs → ((connectAll s bs).pow = true ↔ (s.pow = true ∨ Blk.revertToPow ∈ bs)) by
    have := h ⟨false, []⟩ hv
    simpa using this
  clear hv
  intro s
  induction bs generalizing s with
  | nil => intro _; simp [connectAll]
  | cons b bs ih =>
    intro hv
    cases b with
    | plain =>
      have := ih (connect s .plain) hv
      simp only [connectAll]
      rw [this]
      simp [connect]
    | revertToPow =>
      have := ih (connect s .revertToPow) hv.2
      simp only [connectAll]
      rw [this]
      simp [connect]

example : ElaVerif.ConsensusMode.rollback 1 (ElaVerif.ConsensusMode.connectAll ⟨false, []⟩ [.plain, .revertToPow]) =
    ⟨false, [.plain]⟩ := by decide

/-! ### the block-level wrapper (checkTxsContext; compared with the real function by the `blk` stream) -/

/-- from `CheckRewardHeight` on, a block is accepted only if its coinbase passes the check … -/
theorem C11_enforced_from_check_height (crh h : Nat) (res : CbRes) (hh : crh ≤ h) :
    blockVerdict crh h res = res := by
  unfold blockVerdict
  cases res <;> simp only []
  have : ¬ h < crh := by omega
  simp [this]

/-- … and below it a failing coinbase check does not reject the block (the error is overwritten;
    replayed on a regnet node by builder b-chain: a coinbase paying 252 sela too much is connected).
    The DPoS-v2 rule is unaffected on the built-in networks because DPoS v2 starts above
    `CheckRewardHeight` there (`C11_gen_check_height`). -/
theorem C11_swallowed_below_check_height (crh h : Nat) (e : CbErr) (hh : h < crh) :
    blockVerdict crh h (.err e) = .ok := by
  simp [blockVerdict, hh]

/-! ### T-gen -/

/-- every built-in network preset points the DPoS share at the stake-REWARD address (not the stake
    pool), the CR share at the CR assets address and POW-mode shares at the destroy address -/
theorem C11_gen_addresses :
    Gen.C11.netAddrs.map (·.net) = ["mainnet", "testnet", "regnet"] ∧
    (∀ n ∈ Gen.C11.netAddrs,
      n.dposV2Reward = "STAKEREWARDXXXXXXXXXXXXXXXXXFD5SHU" ∧ n.dposV2Reward ≠ n.stakePool ∧
      n.crAssets = "CRASSETSXXXXXXXXXXXXXXXXXXXX2qDX5J" ∧ n.destroy = "ELANULLXXXXXXXXXXXXXXXXXXXXXYvs3rr") ∧
    Gen.C11.stakeRewardAddress = "STAKEREWARDXXXXXXXXXXXXXXXXXFD5SHU" ∧
    Gen.C11.stakePoolAddress = "STAKEPooLXXXXXXXXXXXXXXXXXXXpP1PQ2" := by
  decide +kernel

/-- the constants `c30`, `c35` of the float model are the binary64 values the Go compiler gives
    the literals `0.3`, `0.35` (sign 0, exponent 0x3FD = 2^-2, 52-bit mantissa); `0.25` is 2^-2 -/
theorem C11_gen_float_constants :
    Gen.C11.bits030 / 2 ^ 52 = 0x3FD ∧ Gen.C11.bits035 / 2 ^ 52 = 0x3FD ∧ Gen.C11.bits025 = 0x3FD * 2 ^ 52 ∧
    FloatModel.c30 = ((2 ^ 52 + Gen.C11.bits030 % 2 ^ 52 : ℕ) : ℚ) / 2 ^ 54 ∧
    FloatModel.c35 = ((2 ^ 52 + Gen.C11.bits035 % 2 ^ 52 : ℕ) : ℚ) / 2 ^ 54 := by
  refine ⟨by decide, by decide, by decide, ?_, ?_⟩
  · unfold FloatModel.c30 Gen.C11.bits030; norm_num
  · unfold FloatModel.c35 Gen.C11.bits035; norm_num

/-- `CheckRewardHeight ≤ DPoSV2StartHeight` on mainnet, testnet and regnet, and the error handling
    of checkTxsContext is the modelled one -/
theorem C11_gen_check_height :
    (∀ p ∈ Gen.C11.checkRewardHeights, p.1 ≤ p.2) ∧
    Gen.C11.coinbaseErrorHandling =
      "if block.Height < b.chainParams.CheckRewardHeight { if err = block.Serialize(buf); err != nil { return err } } else { if e := block.Serialize(buf); e != nil { return e } }" := by
  decide +kernel



/-- the schedule parameters of the three built-in networks satisfy what the theorems assume
    (interval ≥ 2, non-negative old subsidy, new subsidy below the old one), all share
    `base = 304414003 = ⌊8·10¹³ / 262800⌋`, and the source expressions are the modelled ones -/
theorem C11_gen_schedule :
    (∀ p ∈ [Gen.C11.mainnet, Gen.C11.testnet, Gen.C11.regnet],
      2 ≤ p.halvingInterval ∧ 0 ≤ p.oldReward ∧ (p.base : Int) ≤ p.oldReward ∧
      p.base = 304414003 ∧ p.base = 80000000000000 / 262800 ∧ p.newIssuanceHeight ≤ p.halvingHeight) ∧
    Gen.C11.afterBurnIssuance * 4 / 100 = 80000000000000 ∧
    Gen.C11.newRewardExpr =
      "return common.Fixed64(float64(newInflationPerYear) / float64(generatedBlocksPerYear) / math.Pow(2, float64(factor-1)))" := by
  decide

/-- the coinbase rule uses the constants 0.3 / 0.35 / three outputs, the builder the same 0.3 / 0.35;
    checkTxsContext feeds the check with Σ GetTxFee and with GetBlockDPOSReward (Σ tx.Fee()) -/
theorem C11_gen_coinbase :
    Gen.C11.coinbaseCheckNumbers.take 6 = ["1", "0.3", "0.35", "0", "1", "3"] ∧
    Gen.C11.assignNumbers.take 3 = ["1", "0.3", "0.35"] ∧
    Gen.C11.checkTxsContextCalls = ["GetTxFee", "b.GetBlockDPOSReward", "b.checkCoinbaseTransactionContext"] ∧
    Gen.C11.dposRewardExpr =
      "{ totalTxFx := Fixed64(0) for _, tx := range block.Transactions { totalTxFx += tx.Fee() } return Fixed64(math.Ceil(float64(totalTxFx+ b.chainParams.GetBlockReward(block.Height)) * 0.35)) }" := by
  decide +kernel

end ElaVerif.C11
