import ElaVerif.Model.ViewSched
import ElaVerif.Lemmas.ViewSched
import ElaVerif.Gen.C26
/-!
# C26 — the view-change schedule does not depend on how often it is evaluated

Model: `ElaVerif/Model/ViewSched.lean` (dpos/manager/view.go).  Helper lemmas:
`ElaVerif/Lemmas/ViewSched.lean`.

Result in short: the pre-`ChangeViewV1Height` schedule (`ChangeView`, V0) composes for every
polling schedule; the V1 schedule (`ChangeViewV1`) does **not** (`C26_V1_compose_false`, replayed
on the real code by `corpus/C26/v1_first_view.ops`): it composes exactly as long as no
intermediate evaluation lands in a view whose "first view" length differs from its "loop"
length, i.e. as long as intermediate offsets stay below the arbiter count
(`C26_V1_compose_partial`, `C26_V1_compose_below_n`).  One-shot evaluation is monotone in time
for both (`C26_V0_monotone`, `C26_V1_monotone`).
-/
namespace ElaVerif.C26
open ElaVerif.ViewSched

/-! ## tie to the source text -/

/-- T-gen: the constants and the four `offsetSeconds` formulas of `calculateOffsetTimeV1` are the
    ones modelled by `lenFirst` (second entry, with `1+`) and `lenLoop` (fourth entry). -/
theorem C26_gen_formulas :
    Gen.C26.changeViewAddStep = "uint32(3)" ∧ Gen.C26.changeViewMulStep = "uint32(20)" ∧
    Gen.C26.v1OffsetSeconds =
      ["5 * time.Second",
       "time.Duration(5+(1+currentOffset-arbitersCount)*ChangeViewAddStep* uint32(math.Pow(float64(ChangeViewMulStep), float64(currentOffset/arbitersCount)))) * time.Second",
       "5 * time.Second",
       "time.Duration(5+(currentOffset-arbitersCount)*ChangeViewAddStep* uint32(math.Pow(float64(ChangeViewMulStep), float64(currentOffset/arbitersCount)))) * time.Second"] :=
  ⟨rfl, rfl, rfl⟩

/-- `pow20u32` is `uint32(math.Pow(20,k))` on amd64: exact and below 2^63 up to k = 14, at least
    2^63 from k = 15 on (conversion yields 0x8000000000000000, low 32 bits zero). -/
theorem C26_pow_regimes : (20 : Nat) ^ 14 < 2 ^ 63 ∧ 2 ^ 63 ≤ (20 : Nat) ^ 15 ∧
    pow20u32 7 = 1280000000 ∧ pow20u32 8 = 4125163520 ∧ pow20u32 15 = 0 := by decide

/-! ## V1 -/

/-- `calculateOffsetTimeV1` terminates without panic for every non-zero arbiter count, every
    current offset (also in the `uint32` overflow regime of `20^k`) and every duration: every view
    lasts at least one second. -/
theorem C26_V1_total (n cur : Nat) (d : Int) (hn : n ≠ 0) : ∃ o r, offsetV1 n cur d = .ok o r := by
  obtain ⟨o, r, h, _⟩ := offsetV1_spec hn cur d
  exact ⟨o, r, h⟩

/-- with zero arbiters the real function panics (integer division by zero). -/
theorem C26_V1_zero_panics (cur : Nat) (d : Int) : offsetV1 0 cur d = .panic := by
  simp [offsetV1]

/-- One-shot V1 evaluation is non-decreasing in time (below the `uint32` wrap of the offset
    itself, which needs 2^32 views). -/
theorem C26_V1_monotone (n cur : Nat) (d d' : Int) (hn : n ≠ 0) (h : d ≤ d')
    (hw : cur + fuelFor d' < 2 ^ 32) (o o' : Nat) (r r' : Int)
    (h1 : offsetV1 n cur d = .ok o r) (h2 : offsetV1 n cur d' = .ok o' r') : o ≤ o' := by
  have hw1 : cur + fuelFor d < 2 ^ 32 := by have := fuelFor_mono h; omega
  obtain ⟨a, b, e1, w1⟩ := offsetV1_spec' hn cur d hw1
  obtain ⟨a', b', e2, w2⟩ := offsetV1_spec' hn cur d' hw
  rw [e1] at h1; rw [e2] at h2
  injection h1 with ha _; injection h2 with ha' _
  subst ha; subst ha'
  exact w1.mono h w2

example : offsetV1 12 11 (5 * sec) = .ok 12 0 ∧ offsetV1 12 11 (10 * sec) = .ok 13 0 ∧
    11 + fuelFor (10 * sec) < 2 ^ 32 := by decide

/-- **Full statement, false for V1**: "evaluating `ChangeViewV1` at an intermediate time and then
    at `t2` gives the same view offset and start time as evaluating once at `t2`".
    Witness: 12 arbiters, current offset 11, view started at 0; evaluated once at 10 s the offset
    is 13 (view 11 lasts 5 s, view 12 is charged with the *loop* formula 5+(12−12)·60 = 5 s);
    evaluated at 5 s and again at 10 s the offset is still 12, because the second evaluation
    charges view 12 with the *first-view* formula 5+(1+12−12)·60 = 65 s. -/
theorem C26_V1_compose_false :
    ¬ ∀ (n me : Nat) (s : VState) (t1 t2 : Int), n ≠ 0 → s.start ≤ t1 → t1 ≤ t2 →
        s.off + fuelFor (t2 - s.start) < 2 ^ 32 →
        (changeViewV1 n me s t1).bind (fun s1 => changeViewV1 n me s1 t2) = changeViewV1 n me s t2 := by
  intro h
  have := h 12 0 ⟨11, 0, false⟩ (5 * sec) (10 * sec) (by decide) (by decide) (by decide) (by decide)
  revert this
  decide

/-- what the two arbiters of the witness see. -/
example : changeViewV1 12 0 ⟨11, 0, false⟩ (10 * sec) = some ⟨13, 10 * sec, false⟩ ∧
    (changeViewV1 12 0 ⟨11, 0, false⟩ (5 * sec)).bind (fun s1 => changeViewV1 12 0 s1 (10 * sec))
      = some ⟨12, 5 * sec, true⟩ := by decide

/-- **Partial V1 composition.**  If the intermediate evaluation at `t1` either did not change the
    offset, or moved to a view `j` whose first-view length equals its loop length, then
    evaluating again at `t2 ≥ t1` gives exactly the state of a single evaluation at `t2`
    (offset, start time and on-duty flag).  What is missing for the full statement is precisely
    the case `lenFirst n j ≠ lenLoop n j`, which `C26_V1_compose_false` shows to fail. -/
theorem C26_V1_compose_partial (n me : Nat) (s s1 : VState) (t1 t2 : Int) (hn : n ≠ 0)
    (h12 : t1 ≤ t2) (hw : s.off + fuelFor (t2 - s.start) < 2 ^ 32)
    (h1 : changeViewV1 n me s t1 = some s1)
    (guard : s1.off = s.off ∨ lenFirst n s1.off = lenLoop n s1.off) :
    changeViewV1 n me s1 t2 = changeViewV1 n me s t2 := by
  have hd2 : 0 ≤ t2 - t1 := by omega
  have hle : t1 - s.start ≤ t2 - s.start := by omega
  have hw1 : s.off + fuelFor (t1 - s.start) < 2 ^ 32 := by have := fuelFor_mono hle; omega
  obtain ⟨j, r, e1, w1⟩ := offsetV1_spec' hn s.off (t1 - s.start) hw1
  obtain ⟨o, q, e2, w2⟩ := offsetV1_spec' hn s.off (t2 - s.start) hw
  unfold changeViewV1 at h1
  rw [e1] at h1
  simp only at h1
  by_cases hj : j = s.off
  · rw [if_pos hj] at h1
    injection h1 with h1; subst h1; rfl
  · rw [if_neg hj] at h1
    injection h1 with h1
    subst h1
    simp only at guard ⊢
    have hlen : lenFirst n j = lenLoop n j := by
      rcases guard with g | g
      · exact absurd g hj
      · exact g
    have hL : ∀ c, sec ≤ LL n c := by
      intro c; have := lenLoop_pos hn c; unfold LL sec; omega
    have hF : sec ≤ (lenFirst n s.off : Int) * sec := by
      have := lenFirst_pos hn s.off; unfold sec; omega
    have hge := w1.ge
    have hcons := w1.consumed hL hF
    simp only at hge hcons
    have hjgt : s.off < j := by omega
    obtain ⟨hr0, hcon⟩ : 0 ≤ r ∧ r + ((j - s.off : Nat) : Int) * 1000000000 ≤ t1 - s.start := by
      rcases hcons with h | h
      · exact absurd h hj
      · exact h
    -- the one-shot walk, split at t1
    have e : t2 - s.start = (t1 - s.start) + (t2 - t1) := by omega
    rw [e] at w2
    have hcomp := w1.compose hd2 w2
    have w3 : Walk (· + 1) (LL n) j (r + (t2 - t1)) ((lenFirst n j : Int) * sec) (o, q) := by
      rcases hcomp with ⟨h, _, _⟩ | h
      · exact absurd h hj
      · have : LL n j = (lenFirst n j : Int) * sec := by unfold LL; rw [hlen]
        rw [this] at h; exact h
    -- the second evaluation
    have hw2 : j + fuelFor (r + (t2 - t1)) < 2 ^ 32 := by
      have hD : r + (t2 - t1) + ((j - s.off : Nat) : Int) * 1000000000 ≤ t2 - s.start := by omega
      unfold fuelFor sec at hw ⊢
      have : (r + (t2 - t1)) / 1000000000 + ((j - s.off : Nat) : Int) ≤ (t2 - s.start) / 1000000000 := by
        omega
      omega
    obtain ⟨o', q', e3, w3'⟩ := offsetV1_spec' hn j (r + (t2 - t1)) hw2
    have hdet := w3.det w3'
    injection hdet with ho hq
    subst ho; subst hq
    have earg : t2 - (t1 - r) = r + (t2 - t1) := by omega
    unfold changeViewV1
    simp only
    rw [earg, e3, e2]
    simp only
    have hge3 := w3.ge
    simp only at hge3
    by_cases hoj : o = j
    · -- second evaluation did not move: remainder is r + (t2 - t1)
      obtain ⟨hq, _⟩ := hge3.2 hoj
      subst hoj
      have hne : ¬ (o = s.off) := by omega
      have hpos : o > 0 := by omega
      simp only [hne, hpos, if_true, if_false]
      congr 2
      omega
    · have hne : ¬ (o = s.off) := by omega
      have hpos : o > 0 := by omega
      simp only [hoj, hne, hpos, if_true, if_false]

/-- In particular V1 composes while intermediate offsets stay below the arbiter count
    (all views last 5 s there). -/
theorem C26_V1_compose_below_n (n me : Nat) (s s1 : VState) (t1 t2 : Int) (hn : n ≠ 0)
    (h12 : t1 ≤ t2) (hw : s.off + fuelFor (t2 - s.start) < 2 ^ 32)
    (h1 : changeViewV1 n me s t1 = some s1) (hlt : s1.off < n) :
    changeViewV1 n me s1 t2 = changeViewV1 n me s t2 :=
  C26_V1_compose_partial n me s s1 t1 t2 hn h12 hw h1 (Or.inr (lenFirst_eq_lenLoop_of_lt hlt))

/-- **V1, any polling schedule below the arbiter count**: if at every intermediate polling time
    the view offset is still below the arbiter count, polling at those times and finally at `T`
    gives the state of one evaluation at `T`.  (The final offset may be anything.) -/
theorem C26_V1_schedule_below_n (n me : Nat) (hn : n ≠ 0) :
    ∀ (ts : List Int) (s : VState) (T : Int), List.Pairwise (· ≤ ·) (ts ++ [T]) →
      s.off + fuelFor (T - s.start) < 2 ^ 32 →
      (∀ t ∈ ts, ∀ s', changeViewV1 n me s t = some s' → s'.off < n) →
      pollAll (changeViewV1 n me) s (ts ++ [T]) = changeViewV1 n me s T := by
  intro ts
  induction ts with
  | nil =>
    intro s T _ _ _
    simp only [List.nil_append, pollAll]
    cases changeViewV1 n me s T <;> rfl
  | cons t rest ih =>
    intro s T hp hw hg
    rw [List.cons_append, List.pairwise_cons] at hp
    obtain ⟨hall, hp'⟩ := hp
    have htT : t ≤ T := hall T (by simp)
    obtain ⟨s1, e1⟩ := changeViewV1_some (me := me) hn s t
    have hlt : s1.off < n := hg t (List.mem_cons_self ..) s1 e1
    have hw1 := changeViewV1_nowrap hn htT hw e1
    have hg1 : ∀ t' ∈ rest, ∀ s', changeViewV1 n me s1 t' = some s' → s'.off < n := by
      intro t' ht' s' hs'
      have htt' : t ≤ t' := hall t' (by simp [ht'])
      have ht'T : t' ≤ T := by
        have := List.pairwise_append.1 hp'
        exact this.2.2 t' ht' T (by simp)
      have hwt' : s.off + fuelFor (t' - s.start) < 2 ^ 32 := by
        have := fuelFor_mono (show t' - s.start ≤ T - s.start by omega); omega
      rw [C26_V1_compose_below_n n me s s1 t t' hn htt' hwt' e1 hlt] at hs'
      exact hg t' (by simp [ht']) s' hs'
    simp only [List.cons_append, pollAll, e1]
    rw [ih s1 T hp' hw1 hg1]
    exact C26_V1_compose_below_n n me s s1 t T hn htT hw e1 hlt

/-- non-vacuity: 12 arbiters, offset 3, evaluated at 12 s (→ offset 5 < 12) and at 31 s. -/
example : changeViewV1 12 0 ⟨3, 0, false⟩ (12 * sec) = some ⟨5, 10 * sec, false⟩ ∧
    changeViewV1 12 0 ⟨5, 10 * sec, false⟩ (31 * sec) = changeViewV1 12 0 ⟨3, 0, false⟩ (31 * sec) ∧
    changeViewV1 12 0 ⟨3, 0, false⟩ (31 * sec) = some ⟨9, 30 * sec, false⟩ := by decide

/-! ## V0 (`ChangeView`, before `ChangeViewV1Height`) -/

/-- One-shot V0 evaluation is non-decreasing in time. -/
theorem C26_V0_monotone (tol d d' : Int) (ht : 0 < tol) (hd : 0 ≤ d) (h : d ≤ d')
    (hq : d' / tol < 2 ^ 32) (o o' : Nat) (r r' : Int)
    (h1 : offsetV0 tol d = .ok o r) (h2 : offsetV0 tol d' = .ok o' r') : o ≤ o' := by
  have hle : d / tol ≤ d' / tol := Int.ediv_le_ediv ht h
  have h0 : 0 ≤ d / tol := Int.ediv_nonneg hd (by omega)
  rw [offsetV0_nonneg ht hd (by omega)] at h1
  rw [offsetV0_nonneg ht (by omega) hq] at h2
  injection h1 with h1 _; injection h2 with h2 _
  omega

/-- **V0 composes**: evaluating `ChangeView` at an intermediate time `t1` and again at `t2`
    yields exactly the state (offset, start time, on-duty flag) of a single evaluation at `t2`
    (positive tolerance, times not before the view start, offset increment below 2^32). -/
theorem C26_V0_compose (tol : Int) (n me : Nat) (s : VState) (t1 t2 : Int) (ht : 0 < tol)
    (h01 : s.start ≤ t1) (h12 : t1 ≤ t2) (hq : (t2 - s.start) / tol < 2 ^ 32) :
    (changeViewV0 tol n me s t1).bind (fun s1 => changeViewV0 tol n me s1 t2)
      = changeViewV0 tol n me s t2 := by
  have hd1 : 0 ≤ t1 - s.start := by omega
  have hD : 0 ≤ t2 - s.start := by omega
  have hle : (t1 - s.start) / tol ≤ (t2 - s.start) / tol := Int.ediv_le_ediv ht (by omega)
  have hq1 : (t1 - s.start) / tol < 2 ^ 32 := by omega
  obtain ⟨k1, k2⟩ := v0_split (t1 - s.start) (t2 - t1) ht
  have eD : t1 - s.start + (t2 - t1) = t2 - s.start := by omega
  rw [eD] at k1 k2
  have hr1a : 0 ≤ (t1 - s.start) % tol := Int.emod_nonneg _ (by omega)
  have hd2 : 0 ≤ t2 - t1 + (t1 - s.start) % tol := by omega
  have hqa : 0 ≤ (t1 - s.start) / tol := Int.ediv_nonneg hd1 (by omega)
  have hqb : 0 ≤ (t2 - t1 + (t1 - s.start) % tol) / tol := Int.ediv_nonneg hd2 (by omega)
  have hq2 : (t2 - t1 + (t1 - s.start) % tol) / tol < 2 ^ 32 := by omega
  unfold changeViewV0
  rw [offsetV0_nonneg ht hd1 hq1, offsetV0_nonneg ht hD hq]
  simp only [Option.bind]
  have earg : t2 - (t1 - (t1 - s.start) % tol) = t2 - t1 + (t1 - s.start) % tol := by omega
  rw [earg, offsetV0_nonneg ht hd2 hq2]
  simp only
  rw [k1, k2]
  generalize (t1 - s.start) / tol = a at *
  generalize (t2 - t1 + (t1 - s.start) % tol) / tol = b at *
  obtain ⟨x, rfl⟩ := Int.eq_ofNat_of_zero_le hqa
  obtain ⟨y, rfl⟩ := Int.eq_ofNat_of_zero_le hqb
  have hxy : ((x : Int) + (y : Int)).toNat = x + y := by omega
  simp only [Int.toNat_natCast, hxy]
  have eoff : ((s.off + x) % 2 ^ 32 + y) % 2 ^ 32 = (s.off + (x + y)) % 2 ^ 32 := by omega
  rw [eoff]
  congr 2
  by_cases hy : y > 0
  · have : x + y > 0 := by omega
    simp only [hy, this, if_true]
  · have hy0 : y = 0 := by omega
    subst hy0
    by_cases hx : x > 0
    · simp [hx]
    · have hx0 : x = 0 := by omega
      subst hx0; simp

/-- **V0, any polling schedule**: evaluating `ChangeView` at any sorted list of intermediate
    times `ts` (all within the view) and finally at `T` gives the state of one evaluation at `T`. -/
theorem C26_V0_schedule (tol : Int) (n me : Nat) (ht : 0 < tol) :
    ∀ (ts : List Int) (s : VState) (T : Int), List.Pairwise (· ≤ ·) (ts ++ [T]) →
      (∀ t ∈ ts, s.start ≤ t) → s.start ≤ T → (T - s.start) / tol < 2 ^ 32 →
      pollAll (changeViewV0 tol n me) s (ts ++ [T]) = changeViewV0 tol n me s T := by
  intro ts
  induction ts with
  | nil =>
    intro s T _ _ _ _
    simp only [List.nil_append, pollAll]
    cases changeViewV0 tol n me s T <;> rfl
  | cons t rest ih =>
    intro s T hp hts hT hq
    rw [List.cons_append, List.pairwise_cons] at hp
    obtain ⟨hall, hp'⟩ := hp
    have h0 : s.start ≤ t := hts t (List.mem_cons_self ..)
    have htT : t ≤ T := hall T (by simp)
    have hq1 : (t - s.start) / tol < 2 ^ 32 := by
      have := Int.ediv_le_ediv ht (show t - s.start ≤ T - s.start by omega); omega
    obtain ⟨s1, e1, hs1, hs1t⟩ := changeViewV0_some n me s ht h0 hq1
    have hq' : (T - s1.start) / tol < 2 ^ 32 := by
      have := Int.ediv_le_ediv ht (show T - s1.start ≤ T - s.start by omega); omega
    have hrest : ∀ t' ∈ rest, s1.start ≤ t' := by
      intro t' ht'
      have := hall t' (by simp [ht'])
      omega
    have key := C26_V0_compose tol n me s t T ht h0 htT hq
    rw [e1] at key
    simp only [List.cons_append, pollAll, e1]
    rw [ih s1 T hp' hrest (by omega) hq']
    exact key

/-- non-vacuity: tolerance 5 s, evaluated at 12 s and 31 s. -/
example : changeViewV0 (5 * sec) 12 1 ⟨3, 0, false⟩ (12 * sec) = some ⟨5, 10 * sec, false⟩ ∧
    changeViewV0 (5 * sec) 12 1 ⟨3, 0, false⟩ (31 * sec) = some ⟨9, 30 * sec, false⟩ ∧
    (0 : Int) < 5 * sec ∧ (31 * sec - 0) / (5 * sec) < 2 ^ 32 := by decide

/-! ## the `TryChangeView*` guards -/

/-- `TryChangeView` is `ChangeView` except exactly on the boundary `now = start + tolerance`
    (where the guard `now.After(...)` is still false but the offset computation already yields 1). -/
theorem C26_try_V0 (tol : Int) (n me : Nat) (s : VState) (now : Int) (ht : 0 < tol)
    (hoff : s.off < 2 ^ 32) (h0 : s.start ≤ now) (hb : now - s.start ≠ tol) :
    tryChangeViewV0 tol n me s now = changeViewV0 tol n me s now := by
  unfold tryChangeViewV0
  split
  · rfl
  · rename_i hg
    have hd : 0 ≤ now - s.start := by omega
    have hlt : now - s.start < tol := by omega
    have hq : (now - s.start) / tol = 0 := Int.ediv_eq_zero_of_lt hd hlt
    have hr : (now - s.start) % tol = now - s.start := Int.emod_eq_of_lt hd hlt
    unfold changeViewV0
    rw [offsetV0_nonneg ht hd (by omega), hq, hr]
    cases s with
    | mk off start duty =>
      simp only at hoff ⊢
      have e1 : (off + (0 : Int).toNat) % 2 ^ 32 = off := by
        simp; omega
      have e2 : now - (now - start) = start := by omega
      rw [e1, e2]
      simp

/-- `TryChangeViewV1` is `ChangeViewV1` whenever the guard tolerance does not exceed the length
    of the current view (on mainnet both are 5 s below the `uint32` overflow regime), again
    except on the boundary instant. -/
theorem C26_try_V1 (tol : Int) (n me : Nat) (s : VState) (now : Int) (hn : n ≠ 0)
    (hb : now - s.start ≤ tol → now - s.start < (lenFirst n s.off : Int) * sec) :
    tryChangeViewV1 tol n me s now = changeViewV1 n me s now := by
  unfold tryChangeViewV1
  split
  · rfl
  · rename_i hg
    have hlt := hb (by omega)
    unfold changeViewV1 offsetV1
    rw [if_neg hn]
    have hf : fuelFor (now - s.start) = (fuelFor (now - s.start) - 1) + 1 := by unfold fuelFor; omega
    rw [hf]
    unfold walkO
    rw [if_neg (by omega)]
    simp

example : (10 * sec - 0 ≤ 5 * sec → 10 * sec - 0 < (lenFirst 12 11 : Int) * sec) := by decide

/-! ## `Consensus`: both entry points use the same schedule at every height -/

/-- The polling entry point `Consensus.TryChangeView` (running consensus) is the tolerance guard in
    front of exactly the schedule `Consensus.ChangeView` uses — for every block height, in
    particular at `ChangeViewV1Height` itself. -/
theorem C26_consensus_entry_points (forkH height : Nat) (tol : Int) (n me : Nat) (s : VState) (now : Int) :
    consTryChangeView forkH height true tol n me s now =
      if now > s.start + tol then consChangeView forkH height tol n me s now else some s := by
  unfold consTryChangeView consChangeView tryChangeViewV0 tryChangeViewV1
  by_cases h : height < forkH <;> simp [h]

/-- a consensus that is not running never moves its view. -/
theorem C26_consensus_not_running (forkH height : Nat) (tol : Int) (n me : Nat) (s : VState) (now : Int) :
    consTryChangeView forkH height false tol n me s now = some s := by
  simp [consTryChangeView]

/-- `DPOSManager`: the timer entry point moves the view exactly as `Consensus.TryChangeView` does,
    and everything the manager adds on top (ResetView broadcast, forwarding of ResetView messages)
    is switched off by the same height test that selects the V1 schedule — at
    `ChangeViewV1Height` itself included. -/
theorem C26_manager_height_gate (forkH height : Nat) (running : Bool) (tol : Int) (n me : Nat)
    (s : VState) (now : Int) :
    (mgrOnChangeView forkH height running tol n me s now).map (·.1) =
        consTryChangeView forkH height running tol n me s now ∧
    (forkH ≤ height →
      (∀ s' b, mgrOnChangeView forkH height running tol n me s now = some (s', b) → b = false) ∧
      mgrForwardsResetView forkH height n me = false) := by
  constructor
  · unfold mgrOnChangeView
    cases consTryChangeView forkH height running tol n me s now <;> rfl
  · intro h
    have hlt : ¬ (height < forkH) := by omega
    constructor
    · intro s' b hb
      unfold mgrOnChangeView at hb
      cases hc : consTryChangeView forkH height running tol n me s now with
      | none => rw [hc] at hb; cases hb
      | some x =>
        rw [hc] at hb
        simp only [Option.some.injEq, Prod.mk.injEq] at hb
        rw [← hb.2]; simp [hlt]
    · simp [mgrForwardsResetView, hlt]

/-- at the fork height itself the V1 schedule is in force (3 arbiters, 50 s: offset 4, not 10). -/
example : consChangeView 1000 1000 (5 * sec) 3 0 ⟨0, 0, false⟩ (50 * sec) = some ⟨4, 20 * sec, false⟩ ∧
    consTryChangeView 1000 1000 true (5 * sec) 3 0 ⟨0, 0, false⟩ (50 * sec) = some ⟨4, 20 * sec, false⟩ ∧
    consChangeView 1000 999 (5 * sec) 3 0 ⟨0, 0, false⟩ (50 * sec) = some ⟨10, 50 * sec, false⟩ := by decide

end ElaVerif.C26
