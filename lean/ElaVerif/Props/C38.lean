import ElaVerif.Model.Reach
import ElaVerif.Model.Entropy
import ElaVerif.Gen.C38
/-!
# C38 — secret key material comes from a secure random source

A *program*-quantified property: it is decided on the regenerated reference graph of the
whole module (`Gen.C38`, see `extract/exg/graph.go` for what a node and an edge are).

* producers (reviewed rule): every function, literal, variable and field of the packages
  `crypto`, `crypto/ecies`, `account`, `dpos/account`, and every function of
  `cmd/wallet/account.go` (the wallet's account commands);
* weak sources: every object of `math/rand`, `math/rand/v2`, `golang.org/x/exp/rand`
  (package-level functions, `rand.New`, `rand.NewSource`, the `Rand` type — hence also every
  time-seeded generator built from them).

The extractor proposes a closed set `reach`; Lean checks the certificate (`decide +kernel` on the
generated tables) and `Reach.not_reachable_of_cert` (proved for all graphs) concludes.
-/
namespace ElaVerif.C38
open ElaVerif.Reach

def weakPkg (p : String) : Bool :=
  p == "math/rand" || p == "math/rand/v2" || p == "golang.org/x/exp/rand"

def producerPkg (p : String) : Bool :=
  p == "crypto" || p == "crypto/ecies" || p == "account" || p == "dpos/account"

/-- bit masks (over indices into `Gen.C38.pkgs`) of the weak / producer packages -/
def weakPkgMask : Nat := maskOf weakPkg Gen.C38.pkgs 0
def producerPkgMask : Nat := maskOf producerPkg Gen.C38.pkgs 0

/-- package index of a node -/
def pkgOf (i : Nat) : Nat := tblGet Gen.C38.nodePkgTbl i

def isWeakNode (i : Nat) : Bool := mem weakPkgMask (pkgOf i)
def isProducerNode (i : Nat) : Bool := mem producerPkgMask (pkgOf i)

/-- the graph the certificate is about -/
def edges : List Edge := edgesOf Gen.C38.fuel Gen.C38.adjChunks

/-- one pass over all nodes: producers are inside the candidate set, weak nodes outside -/
def nodeCheck (i : Nat) : Bool :=
  (!isProducerNode i || mem Gen.C38.reach i) && (!isWeakNode i || !mem Gen.C38.reach i)

/-- certificate, part 1: the candidate set is closed under every edge of the graph -/
theorem C38_cert_closed : closedChunks Gen.C38.reach Gen.C38.fuel Gen.C38.adjChunks = true := by
  decide +kernel

/-- certificate, part 2: every node of a producer package is in the candidate set and no node of
    a weak package is -/
theorem C38_cert_nodes : allBelow nodeCheck Gen.C38.nodeCount = true := by
  decide +kernel

/-- certificate, part 3: the wallet's account commands are in the candidate set -/
theorem C38_cert_wallet : Gen.C38.walletAccountFns.all (mem Gen.C38.reach) = true := by
  decide +kernel

/-- the tables are complete and not vacuous: the adjacency words decode to exactly the number of
    edges the extractor counted (no truncation by `fuel`), all four producer packages and at
    least one weak package occur, there are weak-source nodes in the graph (so avoiding them
    means something), many producer nodes, and the wallet's account commands were found -/
theorem C38_gen_nonvacuous :
    countChunks Gen.C38.fuel Gen.C38.adjChunks = Gen.C38.edgeCount ∧
    countBelow (mem producerPkgMask) Gen.C38.pkgs.length = 4 ∧
    countBelow (mem weakPkgMask) Gen.C38.pkgs.length ≥ 1 ∧
    countBelow isWeakNode Gen.C38.nodeCount ≥ 5 ∧
    countBelow isProducerNode Gen.C38.nodeCount ≥ 100 ∧
    Gen.C38.walletAccountFns.length ≥ 10 := by
  decide +kernel

/-- **C38**: no secret producer reaches (refers to, directly or through any chain of calls,
    function values, interface implementations, fields or package variables) any object of a
    seedable pseudo-random package. -/
theorem C38_no_weak_source (s b : Nat) (hs : s < Gen.C38.nodeCount) (hb : b < Gen.C38.nodeCount)
    (hsp : isProducerNode s = true) (hbw : isWeakNode b = true) :
    ¬ Reachable edges s b := by
  have h1 := allBelow_spec C38_cert_nodes s hs
  have h2 := allBelow_spec C38_cert_nodes b hb
  simp only [nodeCheck, hsp, hbw, Bool.not_true, Bool.false_or, Bool.and_eq_true,
    Bool.not_eq_eq_eq_not] at h1 h2
  exact not_reachable_of_cert C38_cert_closed h1.1 (by simpa using h2.2)

/-- the same for the wallet's account commands -/
theorem C38_wallet_no_weak_source (s b : Nat) (hs : s ∈ Gen.C38.walletAccountFns)
    (hb : b < Gen.C38.nodeCount) (hbw : isWeakNode b = true) :
    ¬ Reachable edges s b := by
  have h1 := List.all_eq_true.1 C38_cert_wallet s hs
  have h2 := allBelow_spec C38_cert_nodes b hb
  simp only [nodeCheck, hbw, Bool.not_true, Bool.false_or, Bool.and_eq_true,
    Bool.not_eq_eq_eq_not] at h2
  exact not_reachable_of_cert C38_cert_closed h1 (by simpa using h2.2)

/-! ## why the source matters (model of the witness streams) -/

open ElaVerif.Entropy in
/-- A producer that reads the OS source never repeats its random input, whatever anybody does to
    the process-global generator in between (for any entropy stream without repetitions). -/
theorem C38_secure_source_fresh (ent : Nat → Nat) (hinj : ∀ a b, ent a = ent b → a = b)
    (next : Nat → Nat × Nat) (s : Nat) (w : World) :
    freshAfterReseed .os ent next s w = true := by
  simp only [freshAfterReseed, draw, osDraw, reseed, bne_iff_ne, ne_eq]
  intro h
  have := hinj _ _ h
  omega

example : Entropy.freshAfterReseed .os id (fun x => (x, x + 1)) 42 ⟨0, 0⟩ = true := by decide

open ElaVerif.Entropy in
/-- **Witness** (the defect fixed by the `fix:` commit): a producer that reads the seedable
    generator repeats its random input after `rand.Seed` with the same seed — for every
    generator, seed and world.  On the old code this was `crypto.randomBytes` (Schnorr nonce
    input); the `nonce` ops replay it on the real code. -/
theorem C38_seedable_source_repeats (ent : Nat → Nat) (next : Nat → Nat × Nat) (s : Nat) (w : World) :
    freshAfterReseed .seedable ent next s w = false := by
  simp [freshAfterReseed, draw, prngDraw, reseed]

open ElaVerif.Entropy in
/-- **Positive characterisation** (model of the `entropy` ops): what a producer on the OS source
    produces is a function of the entropy stream and of the read position only — the state of the
    seedable generator (and anything derived from the clock that seeds it) has no influence. -/
theorem C38_os_secret_function_of_stream (ent : Nat → Nat) (next next' : Nat → Nat × Nat) (w w' : World)
    (h : w.taken = w'.taken) :
    (draw .os ent next w).1 = (draw .os ent next' w').1 := by
  simp [draw, osDraw, h]

open ElaVerif.Entropy in
/-- … and every use consumes the stream: the read position advances, so a later use cannot be
    served from what an earlier one read. -/
theorem C38_os_use_consumes (ent : Nat → Nat) (next : Nat → Nat × Nat) (w : World) :
    (draw .os ent next w).2.taken = w.taken + 1 := rfl

open ElaVerif.Entropy in
/-- a producer on a seedable generator does **not** have this property: same stream, same read
    position, different generator state ⇒ different secret (witness) -/
theorem C38_seedable_not_function_of_stream :
    ∃ (ent : Nat → Nat) (next : Nat → Nat × Nat) (w w' : World), w.taken = w'.taken ∧
      (draw .seedable ent next w).1 ≠ (draw .seedable ent next w').1 :=
  ⟨id, fun x => (x, x + 1), ⟨1, 0⟩, ⟨2, 0⟩, rfl, by decide⟩

end ElaVerif.C38
