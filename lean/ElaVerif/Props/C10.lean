import ElaVerif.Model.AuxPow
import ElaVerif.Lemmas.AuxPow
/-!
# C10 — a merged-mining proof commits to exactly this block

Model: `ElaVerif.AuxPow.check` (= `auxpow.AuxPow.Check` after the `fix:` commits that removed
its panics and the negative-index acceptance), `branchRoot` (= `GetMerkleRoot`),
`expectedIndex` (= `GetExpectedIndex`).  The marker / root search is done on the **hex string**
of the coinbase script, exactly as the Go code does, so positions are nibble positions.

The node hash `H` is a parameter; collision freedom is the explicit hypothesis `Injective2 H`
(instantiated below by a length-prefixed pairing on byte strings).
-/
namespace ElaVerif.C10
open ElaVerif.Merkle ElaVerif.AuxPow

/-- the aux root `Check` computes for block hash `hash` (for a non-negative index). -/
def auxRootOf (H : Bytes → Bytes → Bytes) (ap : AP) (hash : Bytes) : Bytes :=
  branchFold H hash.reverse ap.auxBranch ap.auxIdx

/-- What an accepted proof commits to, at nibble level: `i` is the position of the marker
    in the hex string of the script. -/
structure Committed (H : Bytes → Bytes → Bytes) (ap : AP) (hash : Bytes) (chainID : Int)
    (script : Bytes) (i : Nat) : Prop where
  parIdx_nonneg : 0 ≤ ap.parIdx
  auxIdx_nonneg : 0 ≤ ap.auxIdx
  /-- the parent coinbase hashes up to the parent header's merkle root -/
  parent : branchFold H ap.cbHash ap.parBranch ap.parIdx = ap.parRoot
  script_eq : ap.script = some script
  /-- `i` is the first occurrence of the marker … -/
  first : indexOf marker (toNibbles script) = some i
  /-- … and there is none from `i+2` on -/
  noLater : indexOf marker ((toNibbles script).drop (i + 2)) = none
  /-- the reversed aux root of *this* block hash follows the marker immediately (and this is
      its first occurrence) -/
  rootAt : indexOf (toNibbles (auxRootOf H ap hash).reverse) (toNibbles script) = some (i + 8)
  height : ap.auxBranch.length < 32
  size : le32 script ((i + 8 + (toNibbles (auxRootOf H ap hash).reverse).length) / 2)
          = some (2 ^ ap.auxBranch.length)
  slot : ∃ nonce, le32 script ((i + 8 + (toNibbles (auxRootOf H ap hash).reverse).length) / 2 + 4) = some nonce ∧
          ap.auxIdx = expectedIndex nonce chainID ap.auxBranch.length

theorem expectedIndex_nonneg_imp (nonce : Nat) (chainID : Int) (h : Nat)
    (hh : 0 ≤ expectedIndex nonce chainID h) : h < 32 := by
  unfold expectedIndex at hh
  by_cases hc : (h : Int) < 0 ∨ (h : Int) ≥ 32
  · simp only [hc, if_true] at hh; omega
  · omega

/-- `Check` never panics: the two little-endian reads are in bounds. -/
theorem C10_no_panic (H : Bytes → Bytes → Bytes) (ap : AP) (hash : Bytes) (chainID : Int) :
    check H ap hash chainID ≠ .panic := by
  unfold check
  split
  · simp
  · split
    · simp
    · split
      · simp
      · rename_i script _
        simp only []
        split
        · rename_i hi ri _ _
          split
          · simp
          · split
            · simp
            · split
              · simp
              · rename_i hlen
                have hl := toNibbles_length script
                split
                · rename_i hnone
                  obtain ⟨v, hv⟩ := le32_some script ((ri + (toNibbles (branchRoot H zeroHash hash.reverse ap.auxBranch ap.auxIdx).reverse).length) / 2) (by omega)
                  rw [hv] at hnone; cases hnone
                · split
                  · simp
                  · split
                    · simp
                    · rename_i hlen2
                      split
                      · rename_i hnone
                        obtain ⟨v, hv⟩ := le32_some script ((ri + (toNibbles (branchRoot H zeroHash hash.reverse ap.auxBranch ap.auxIdx).reverse).length) / 2 + 4) (by omega)
                        rw [hv] at hnone; cases hnone
                      · split <;> simp
        · simp

/-- **Commitment.**  An accepted proof satisfies `Committed` for the (unique) marker position. -/
theorem C10_commit (H : Bytes → Bytes → Bytes) (ap : AP) (hash : Bytes) (chainID : Int)
    (hacc : check H ap hash chainID = .accept) :
    ∃ script i, Committed H ap hash chainID script i := by
  unfold check at hacc
  split at hacc
  · cases hacc
  · rename_i hidx
    have hp : 0 ≤ ap.parIdx := by omega
    have ha : 0 ≤ ap.auxIdx := by omega
    have hp1 : ap.parIdx ≠ -1 := by omega
    have ha1 : ap.auxIdx ≠ -1 := by omega
    simp only [branchRoot, hp1, ha1, if_false] at hacc
    split at hacc
    · cases hacc
    · rename_i hpar
      split at hacc
      · cases hacc
      · rename_i script hscript
        split at hacc
        · rename_i hi ri hhi hri
          split at hacc
          · cases hacc
          · rename_i hlater
            split at hacc
            · cases hacc
            · rename_i hadj
              split at hacc
              · cases hacc
              · split at hacc
                · cases hacc
                · rename_i size hsize
                  split at hacc
                  · cases hacc
                  · rename_i hsz
                    split at hacc
                    · cases hacc
                    · split at hacc
                      · cases hacc
                      · rename_i nonce hnonce
                        split at hacc
                        · cases hacc
                        · rename_i hslot
                          have hadj' : ri = hi + 8 := by
                            have : hi + marker.length = ri := by
                              exact Decidable.of_not_not hadj
                            simp only [marker, List.length_cons, List.length_nil] at this
                            omega
                          subst hadj'
                          have hslot' : ap.auxIdx = expectedIndex nonce chainID ap.auxBranch.length :=
                            Decidable.of_not_not hslot
                          have hh : ap.auxBranch.length < 32 :=
                            expectedIndex_nonneg_imp nonce chainID _ (hslot' ▸ ha)
                          have hsz' : size = 2 ^ ap.auxBranch.length % 2 ^ 32 := Decidable.of_not_not hsz
                          have hpow : 2 ^ ap.auxBranch.length % 2 ^ 32 = 2 ^ ap.auxBranch.length :=
                            Nat.mod_eq_of_lt (Nat.pow_lt_pow_right (by omega) hh)
                          refine ⟨script, hi, ⟨hp, ha, Decidable.of_not_not hpar, hscript, hhi, ?_, hri, hh, ?_, nonce, hnonce, hslot'⟩⟩
                          · cases hl : indexOf marker (List.drop (hi + 2) (toNibbles script)) with
                            | none => rfl
                            | some k => simp [hl] at hlater
                          · unfold auxRootOf; rw [hsize, hsz', hpow]
        · cases hacc

/-- **Exactly one marker** (in the hex string): every occurrence of `fabe6d6d` in the hex form of
    the script of an accepted proof is at the committed position. -/
theorem C10_unique_marker {H : Bytes → Bytes → Bytes} {ap : AP} {hash : Bytes} {chainID : Int}
    {script : Bytes} {i : Nat} (hc : Committed H ap hash chainID script i)
    (j : Nat) (hj : marker <+: (toNibbles script).drop j) : j = i := by
  obtain ⟨hat, hbefore⟩ := indexOf_some _ _ hc.first
  have hafter := indexOf_none (by simp [marker]) _ hc.noLater
  by_cases h1 : j < i
  · exact absurd hj (hbefore j h1)
  · by_cases h2 : j = i
    · exact h2
    · by_cases h3 : j = i + 1
      · subst h3
        have := marker_no_overlap_one _ hat
        rw [List.drop_drop] at this
        exact absurd hj this
      · have := hafter (j - (i + 2))
        rw [List.drop_drop] at this
        have e : i + 2 + (j - (i + 2)) = j := by omega
        rw [e] at this
        exact absurd hj this

/-- the bytes-level marker -/
def markerBytes : Bytes := [0xfa, 0xbe, 0x6d, 0x6d]

theorem marker_eq : marker = toNibbles markerBytes := by decide

/-- **Byte-level statement, partial**: when the marker position is even (byte aligned) the script
    *bytes* contain the marker at byte `i/2`, immediately followed by the reversed aux root of this
    block hash; `size` and `nonce` are the eight bytes after it (see `Committed.size/slot`). -/
theorem C10_commit_bytes_partial {H : Bytes → Bytes → Bytes} {ap : AP} {hash : Bytes} {chainID : Int}
    {script : Bytes} {i : Nat} (hc : Committed H ap hash chainID script i) (heven : i % 2 = 0) :
    markerBytes ++ (auxRootOf H ap hash).reverse <+: script.drop (i / 2) := by
  obtain ⟨hat, _⟩ := indexOf_some _ _ hc.first
  obtain ⟨hroot, _⟩ := indexOf_some _ _ hc.rootAt
  have e1 : i = 2 * (i / 2) := by omega
  have e2 : i + 8 = 2 * (i / 2 + 4) := by omega
  rw [e1, toNibbles_drop, marker_eq] at hat
  rw [e2, toNibbles_drop] at hroot
  have p1 := prefix_of_toNibbles_prefix _ _ hat
  have p2 := prefix_of_toNibbles_prefix _ _ hroot
  obtain ⟨t, ht⟩ := p1
  have : script.drop (i / 2 + 4) = t := by
    have := congrArg (List.drop 4) ht
    simp only [markerBytes, List.drop_append, List.length_cons, List.length_nil] at this
    rw [List.drop_drop] at this
    simpa using this.symm
  rw [this] at p2
  obtain ⟨u, hu⟩ := p2
  exact ⟨u, by rw [← ht, ← hu, List.append_assoc]⟩

/-- **Binding.**  Under a collision-free node hash one proof cannot be accepted for two block
    hashes (the aux roots have equal length, as all `Uint256` do). -/
theorem C10_binds_hash {H : Bytes → Bytes → Bytes} (hinj : Injective2 H) (ap : AP)
    (h h' : Bytes) (c c' : Int)
    (hlen : (auxRootOf H ap h).length = (auxRootOf H ap h').length)
    (a1 : check H ap h c = .accept) (a2 : check H ap h' c' = .accept) : h = h' := by
  obtain ⟨s1, i1, c1⟩ := C10_commit H ap h c a1
  obtain ⟨s2, i2, c2⟩ := C10_commit H ap h' c' a2
  have hs : s1 = s2 := by
    have := c1.script_eq.symm.trans c2.script_eq
    exact Option.some.inj this
  subst hs
  have hi : i1 = i2 := Option.some.inj (c1.first.symm.trans c2.first)
  subst hi
  obtain ⟨r1, _⟩ := indexOf_some _ _ c1.rootAt
  obtain ⟨r2, _⟩ := indexOf_some _ _ c2.rootAt
  have := prefix_eq_of_length r1 r2 (by rw [toNibbles_length, toNibbles_length, List.length_reverse, List.length_reverse, hlen])
  have := toNibbles_inj _ _ this
  have := List.reverse_inj.mp this
  have := branchFold_inj hinj _ _ _ _ this
  exact List.reverse_inj.mp this

/-! ## non-vacuity and witnesses -/

/-- a collision-free pairing on byte strings: `len(a)` in unary, a zero, then `a ++ b`. -/
def pairH (a b : Bytes) : Bytes := List.replicate a.length 1 ++ [0] ++ a ++ b

theorem replicate_one_prefix : ∀ (n m : Nat) (x y : Bytes),
    List.replicate n (1 : UInt8) ++ 0 :: x = List.replicate m 1 ++ 0 :: y → n = m ∧ x = y
  | 0, 0, _, _, h => by simpa using h
  | 0, m + 1, _, _, h => by simp [List.replicate_succ] at h
  | n + 1, 0, _, _, h => by simp [List.replicate_succ] at h
  | n + 1, m + 1, x, y, h => by
      simp only [List.replicate_succ, List.cons_append, List.cons.injEq, true_and] at h
      have := replicate_one_prefix n m x y h
      exact ⟨by omega, this.2⟩

theorem pairH_injective : Injective2 pairH := by
  intro a b c d h
  unfold pairH at h
  simp only [List.append_assoc, List.singleton_append] at h
  obtain ⟨hl, hr⟩ := replicate_one_prefix _ _ _ _ h
  have := List.append_inj hr hl
  exact this

/-- an aligned proof (aux height 1, slot 0 for nonce 0 / chain id 0): marker, reversed root,
    size 2, nonce 0.  The hypotheses of the theorems above are satisfiable. -/
def exHash : Bytes := [0x11, 0x22]
def exBranch : List Bytes := [[0x33]]
def exRoot : Bytes := pairH exHash.reverse [0x33]   -- slot 0: the sibling is on the right
def exScript : Bytes := [0x01] ++ markerBytes ++ exRoot.reverse ++ [2, 0, 0, 0] ++ [0, 0, 0, 0] ++ [0x07]
def exAP : AP := ⟨[0xaa], [[0xbb]], 0, pairH [0xaa] [0xbb], exBranch, 0, some exScript⟩

example : expectedIndex 0 0 1 = 0 := by decide
example : check pairH exAP exHash 0 = .accept := by decide
example : check pairH exAP [0x11, 0x23] 0 = .reject := by decide

def exHash0 : Bytes := [0x11, 0x22]
def exScript0 : Bytes := markerBytes ++ exHash0 ++ [1, 0, 0, 0] ++ [0, 0, 0, 0]

/-! ## the verdict is a function of the serialised proof (objects with a cache cell)

`AuxPow` values are mutable Go objects that are decoded into, checked, and decoded into again.
The real `BtcTx.Hash()` recomputes the hash from the fields every time.  The model below gives the
object an explicit memo cell for the coinbase hash, so that "no state survives a `Deserialize`" is
a statement that can fail: it holds when decoding clears the cell (or when there is none, as in
the code), and fails — witness below — when a memo survives. -/

/-- the decoded fields; the coinbase is kept as bytes and hashed by `hashTx` -/
structure Fields where
  cbTx : Bytes
  parBranch : List Bytes
  parIdx : Int
  parRoot : Bytes
  auxBranch : List Bytes
  auxIdx : Int
  script : Option Bytes

/-- an `AuxPow` object: fields + the memo cell a caching `Hash()` would keep -/
structure Obj where
  f : Fields
  memo : Option Bytes

def Fields.toAP (hashTx : Bytes → Bytes) (f : Fields) : AP :=
  ⟨hashTx f.cbTx, f.parBranch, f.parIdx, f.parRoot, f.auxBranch, f.auxIdx, f.script⟩

/-- `ap.Check(hash, chainID)` on an object: uses the memo when there is one, and leaves one behind -/
def checkObj (H : Bytes → Bytes → Bytes) (hashTx : Bytes → Bytes) (o : Obj) (hash : Bytes) (chainID : Int) :
    Verdict × Obj :=
  let cb := o.memo.getD (hashTx o.f.cbTx)
  (check H ⟨cb, o.f.parBranch, o.f.parIdx, o.f.parRoot, o.f.auxBranch, o.f.auxIdx, o.f.script⟩ hash chainID,
   { o with memo := some cb })

/-- `ap.Deserialize(w)` into an existing object; `clears` = the decoder resets the memo cell -/
def decodeInto {W : Type} (decode : W → Option Fields) (clears : Bool) (o : Obj) (w : W) : Option Obj :=
  (decode w).map fun f => ⟨f, if clears then none else o.memo⟩

/-- **The verdict is a function of the serialised proof**: whatever the object went through before
    (any fields, any memo, any number of earlier checks), after a decode that clears the cell — in
    particular for the real code, which has no cell — `Check` answers what the model `check` answers
    on the decoded fields. -/
theorem C10_verdict_function_of_wire {W : Type} (H : Bytes → Bytes → Bytes) (hashTx : Bytes → Bytes)
    (decode : W → Option Fields) (o : Obj) (w : W) (f : Fields) (hd : decode w = some f)
    (hash : Bytes) (chainID : Int) :
    ∃ o', decodeInto decode true o w = some o' ∧
      (checkObj H hashTx o' hash chainID).1 = check H (f.toAP hashTx) hash chainID := by
  refine ⟨⟨f, none⟩, by simp [decodeInto, hd], ?_⟩
  simp [checkObj, Fields.toAP]

/-- checking twice gives the same verdict (the memo a check leaves behind is the true hash) -/
theorem C10_check_idempotent (H : Bytes → Bytes → Bytes) (hashTx : Bytes → Bytes) (f : Fields)
    (hash hash' : Bytes) (c c' : Int) :
    (checkObj H hashTx (checkObj H hashTx ⟨f, none⟩ hash c).2 hash' c').1 =
      check H (f.toAP hashTx) hash' c' := by
  simp [checkObj, Fields.toAP]

/-- With a memo that survives decoding the statement is false: proof A is checked, forged proof B
    (A's parent branch, another coinbase) is decoded into the same object and accepted, although
    `check` rejects B's fields. -/
def seqA : Fields := ⟨[0xaa], [], 0, [0xaa], [], 0, some exScript0⟩
def seqB : Fields := ⟨[0xbb], [], 0, [0xaa], [], 0, some exScript0⟩

theorem C10_surviving_memo_false :
    ¬ (∀ (o : Obj) (w : Bool) (f : Fields), (fun b => some (if b then seqB else seqA)) w = some f →
        ∀ o', decodeInto (fun b => some (if b then seqB else seqA)) false o w = some o' →
          (checkObj pairH id o' exHash0 0).1 = check pairH (f.toAP id) exHash0 0) := by
  intro h
  have := h (checkObj pairH id ⟨seqA, none⟩ exHash0 0).2 true seqB rfl _ rfl
  exact absurd this (by decide)

/-- **Full byte-level statement is false** (known finding `C10-misaligned-marker`): for *every*
    node hash there is an accepted proof whose script bytes contain no `fa be 6d 6d` at all —
    the marker, the root and `size` start at an odd nibble of the hex string.  The witness is
    replayed on the real `AuxPow.Check` from `corpus/C10/misaligned.ops`. -/
def misHash : Bytes := List.replicate 31 0x5a ++ [0x50]
def misScript : Bytes :=
  [0x0f, 0xab, 0xe6, 0xd6, 0xd5] ++ List.replicate 30 0xa5 ++ [0xa5, 0x01, 0, 0, 0, 0, 0, 0, 0]
def misAP : AP := ⟨[0xcc], [], 0, [0xcc], [], 0, some misScript⟩

theorem C10_commit_bytes_false :
    ¬ (∀ (H : Bytes → Bytes → Bytes) (ap : AP) (hash : Bytes) (chainID : Int) (script : Bytes),
        check H ap hash chainID = .accept → ap.script = some script →
        ∃ k, markerBytes <+: script.drop k) := by
  intro h
  obtain ⟨k, hk⟩ := h pairH misAP misHash 1224 misScript (by decide) rfl
  have hk' : markerBytes.isPrefixOf (misScript.drop k) = true := List.isPrefixOf_iff_prefix.mpr hk
  have hlt : k < 45 := by
    by_cases hlt : k < 45
    · exact hlt
    · have : misScript.drop k = [] := List.drop_eq_nil_of_le (by simp [misScript]; omega)
      rw [this] at hk'
      simp [markerBytes] at hk'
  have : ∀ k < 45, markerBytes.isPrefixOf (misScript.drop k) = false := by decide
  rw [this k hlt] at hk'
  cases hk'

/-- the misaligned witness is accepted whatever the node hash is (no hashing is involved). -/
theorem C10_misaligned_witness (H : Bytes → Bytes → Bytes) : check H misAP misHash 1224 = .accept := by
  have : check H misAP misHash 1224 = check pairH misAP misHash 1224 := by
    simp only [check, branchRoot, misAP, branchFold]
  rw [this]; decide

/-- and its marker position in the hex string is odd. -/
example : indexOf marker (toNibbles misScript) = some 1 := by decide

end ElaVerif.C10
