import ElaVerif.Model.History
import ElaVerif.Model.Sites
import ElaVerif.Lemmas.History
import ElaVerif.Lemmas.Sites
import ElaVerif.Gen.C22
/-!
# C22 — CR committee state after a rollback equals the state built directly (**partial**)

Same machinery as C21, pointed at `cr/state` (97 `History.Append` sites on six `utils.History`
objects).  Proved: the generic theorem (re-stated here for the committee's histories) and the
kernel-decided classification of the regenerated site table.  Not done: the real-Committee
rollback-vs-direct-build run (no harness for C22); with an *empty* reviewed callee table every site
that makes a statement call is an assumption.
-/
namespace ElaVerif.C22
open ElaVerif.History ElaVerif.Sites

/-- indices into `Gen.C22.nsites` (sorted by file, line) of the sites that are not syntactically
    well paired — the assumption list:
    0 Committee.updateVotingCandidatesState#0 (committee.go:387) · 3 Committee.checkAndSetMemberToInactive#0 (:507) ·
    22 Committee.processCRCAppropriation#0 (:1096) · 24 Committee.activateProducer#0 (:1223) ·
    48 Committee.inactiveMembersByWithdrawKeys#0 (committeeaction.go:139) ·
    66 ProposalManager.terminatedProposal#0 (proposalmanager.go:330) · 67,68 transferRegisteredState#0,#1 (:359,:373) ·
    74 dealProposal#4 (:442) · 75,77 transferCRAgreedState#0,#2 (:466,:491) · 80 registerProposal#0 (:661) ·
    85 proposalTracking#0 (:841) · 87 State.updateCR#0 (state.go:312) · 88 State.unregisterCR#0 (:326) ·
    89,90 State.returnDeposit#0,#1 (:371,:379) · since captures must read the restored location:
    23 Committee.processCRCRealWithdraw#0 (committee.go:1111) · 43 Committee.processCurrentMembersDepositInfo#0 (:1721) ·
    65 ProposalManager.abortProposal#0 (proposalmanager.go:311) · 70 dealProposal#0 (:403) · 84 proposalWithdraw#0 (:777) -/
def expectedUnclassified : List Nat := [0, 3, 22, 23, 24, 43, 48, 65, 66, 67, 68, 70, 74, 75, 77, 80, 84, 85, 87, 88, 89, 90]

/-- T-gen, total over the source: every `History.Append` site of cr/state is syntactically well
    paired (no reviewed callee pairs at all) except exactly the listed ones. -/
theorem C22_gen_unclassified : nunclassified [] Gen.C22.nsites = expectedUnclassified := by
  decide +kernel

theorem C22_gen_literals : Gen.C22.nsites.all (fun s => s.lit) = true := by decide +kernel

/-- T-gen: fields undone by a delta in one site and absolutely in another
    (`CRCCommitteeUsedAmount`, `Votes`, `DepositInfo[]`): candidates for C20's same-height mixture. -/
theorem C22_gen_mixed : nmixedFields Gen.C22.nsites =
    [[67, 82, 67, 67, 111, 109, 109, 105, 116, 116, 101, 101, 85, 115, 101, 100, 65, 109, 111, 117, 110, 116],
     [86, 111, 116, 101, 115],
     [68, 101, 112, 111, 115, 105, 116, 73, 110, 102, 111, 91, 93]] := by decide +kernel

/-- T-gen: fingerprints (FNV-1a mod 1000000007) of the printed source of the execute / rollback
    closures of every `History.Append` site, in table order.
    **Scope, stated plainly:** this lemma is a tripwire, not a semantic check.  It fires on ANY edit
    inside a closure — a changed guard, a dropped or altered restore, but equally a pure rename or a
    reformatting that changes the printed text.  When it fires and the real-state harness finds no
    rollback≠direct history, `./check` reports `VIOLATION … no-failing-input-found`, which is the
    documented outcome for a (possibly harmless) rewrite: the edited site has to be reviewed and the
    expected list regenerated.  Finding a concrete failing history is the job of the harness
    (harness/cmd/c22), which replays corpus witnesses for the known change shapes first. -/
theorem C22_gen_closure_sigs : Gen.C22.nsites.map (·.sig) =
    [9962180, 750813433, 770316216, 645575512, 127602202, 445475324, 626413445, 900529068, 185961846, 810918193, 461168208, 794486634, 846387776, 404197383, 439951667, 597376763, 597376763, 634656143, 411050541, 132473555, 741084286, 822250875, 663867978, 570988615, 908153797, 608066761, 235357756, 297613589, 32725566, 107649028, 752979975, 842765571, 752979975, 198779052, 5243692, 165741592, 943467143, 5243692, 165741592, 446419633, 5243692, 165741592, 417197946, 626848284, 164273645, 201563087, 865888620, 532379009, 675769889, 822129809, 651535244, 264430981, 429636841, 348966836, 834228343, 345458624, 822250875, 473779557, 889055389, 413387590, 127566156, 1998080, 506730759, 615620509, 351975496, 247987263, 175385429, 347994189, 868712553, 554893124, 145703125, 437001470, 109001591, 244621206, 727979913, 171572981, 554893124, 608339328, 42436511, 372252055, 847388018, 544550613, 461121496, 919829998, 542626833, 841783865, 348822083, 775730230, 912981382, 712928288, 944127136, 257628850, 494881186, 839671127, 836597081, 439762360, 870424425] := by decide +kernel

/-- pairs of history objects whose changes inside one height depend on each other (the later one reads
    or absolutely restores what the earlier one wrote): ((name in ProcessBlock, name in RollbackTo) …).
    E.g. `manager before committee`: `updateProposals` hands budget back with a relative
    `CRCCommitteeUsedAmount -=` in manager.history, the committee change then captures and absolutely
    restores that field in committeeHistory. -/
def dependentHistories : List ((Txt × Txt) × (Txt × Txt)) :=
  [(([99,46,102,105,114,115,116,72,105,115,116,111,114,121], [99,46,102,105,114,115,116,72,105,115,116,111,114,121]), ([99,46,115,116,97,116,101,46,72,105,115,116,111,114,121], [99,46,115,116,97,116,101])) /- first before state -/,
   (([99,46,115,116,97,116,101,46,72,105,115,116,111,114,121], [99,46,115,116,97,116,101]), ([99,46,109,97,110,97,103,101,114,46,104,105,115,116,111,114,121], [99,46,109,97,110,97,103,101,114,46,104,105,115,116,111,114,121])) /- state before manager -/,
   (([99,46,115,116,97,116,101,46,72,105,115,116,111,114,121], [99,46,115,116,97,116,101]), ([99,46,99,111,109,109,105,116,116,101,101,72,105,115,116,111,114,121], [99,46,99,111,109,109,105,116,116,101,101,72,105,115,116,111,114,121])) /- state before committee -/,
   (([99,46,109,97,110,97,103,101,114,46,104,105,115,116,111,114,121], [99,46,109,97,110,97,103,101,114,46,104,105,115,116,111,114,121]), ([99,46,99,111,109,109,105,116,116,101,101,72,105,115,116,111,114,121], [99,46,99,111,109,109,105,116,116,101,101,72,105,115,116,111,114,121])) /- manager before committee -/,
   (([99,46,99,111,109,109,105,116,116,101,101,72,105,115,116,111,114,121], [99,46,99,111,109,109,105,116,116,101,101,72,105,115,116,111,114,121]), ([99,46,97,112,112,114,111,112,114,105,97,116,105,111,110,72,105,115,116,111,114,121], [99,46,97,112,112,114,111,112,114,105,97,116,105,111,110,72,105,115,116,111,114,121])) /- committee before approp -/]

/-- T-gen: `Committee.ProcessBlock` commits the dependent histories in the listed order and
    `Committee.RollbackTo` rolls them back, inside one height, in the opposite order (swapping two
    `RollbackTo` calls of the per-height loop breaks this lemma). -/
theorem C22_gen_history_order :
    orderRespects Gen.C22.commitOrder Gen.C22.rollbackOrder dependentHistories = true := by decide +kernel

/-- reviewed allow-list: (function, field) pairs that assign a field of the snapshot structs OUTSIDE every
    `History.Append` closure in code reachable from Committee.ProcessBlock (calls followed by name inside
    the package, only along calls that are themselves outside closures).  Each entry is a write that a
    rollback does not undo; the comments say which are confirmed findings. -/
def allowedOutsideWrites : List (Txt × Txt) :=
  [([67,111,109,109,105,116,116,101,101,46,112,114,111,99,101,115,115,67,117,114,114,101,110,116,67,97,110,100,105,100,97,116,101,115], [72,105,115,116,111,114,121,67,97,110,100,105,100,97,116,101,115]) /- Committee.processCurrentCandidates .HistoryCandidates — HistoryCandidates[session] = make(...) before the Append that fills it: an empty inner map survives a rollback of the committee change (not seen as a leaf difference when the map stays empty-vs-absent… it is: reviewed, harmless only if the session key is re-created) -/,
   ([83,116,97,116,101,46,112,114,111,99,101,115,115,68,101,112,111,115,105,116], [68,101,112,111,115,105,116,79,117,116,112,117,116,115]) /- State.processDeposit .DepositOutputs — known finding C22-deposit-outputs-outside-history -/,
   ([83,116,97,116,101,46,114,101,103,105,115,116,101,114,67,82], [68,101,112,111,115,105,116,79,117,116,112,117,116,115]) /- State.registerCR .DepositOutputs — known finding C22-deposit-outputs-outside-history -/]

/-- T-gen `NoWritesOutside`: the regenerated list of outside-closure writes to snapshot fields is exactly the
    reviewed list — a new direct write to snapshot state in the block-processing path breaks this lemma. -/
theorem C22_gen_no_writes_outside : Gen.C22.outsideWrites = allowedOutsideWrites := by decide +kernel

/-- **Generic theorem**, as C21: a history representing `chain` whose blocks are made of well-paired
    site instances capturing the pre-block state rolls back (within capacity) to exactly the direct
    build.  The committee uses six such histories side by side; the theorem applies to each. -/
theorem C22_generic {L V : Type} [DecidableEq L] {cap : Nat} {H : History (L → V)} {s : L → V}
    {chain : List (HeightChanges (L → V))} {s0 : L → V}
    (g : Good cap H s chain s0) (h : Nat) (hlt : h < H.height)
    (hd : depth h chain ≤ H.changes.length)
    (hsites : ∀ pre b post, chain = pre ++ b :: post →
        ∃ scs : List (SiteChange L V), b = ⟨b.height, scs.map (SiteChange.toChange (run pre s0))⟩) :
    (rollbackTo H s h).2 = run (upTo h chain) s0 ∧
    Good cap (rollbackTo H s h).1 (rollbackTo H s h).2 (upTo h chain) s0 := by
  have hinv : InvAbove h chain s0 := by
    intro pre b post e _
    obtain ⟨scs, hb⟩ := hsites pre b post e
    rw [hb]; exact sites_block_inv _ _ scs
  obtain ⟨g', _, _⟩ := rollbackTo_good g h hlt hd hinv
  exact ⟨g'.state, g'⟩

example : ∃ sc : SiteChange Nat Nat, sc.W = [0] ∧ sc.exec (fun _ => 1) 0 = 7 :=
  ⟨⟨[0], fun s l => if l = 0 then 7 else s l, by intro s l hl; simp at hl; simp [hl]⟩, rfl, rfl⟩

end ElaVerif.C22
