import ElaVerif.Lemmas.P2PFrame
import ElaVerif.Gen.C35
import ElaVerif.Model.P2PMsg
import ElaVerif.Lemmas.Bloom
import ElaVerif.Lemmas.P2PCodec
/-!
# C35 — P2P framing rejects anything but well-formed, authentic messages

Property theorems only (helper lemmas: `ElaVerif/Lemmas/P2PFrame.lean`; model:
`ElaVerif/Model/P2PFrame.lean`).  Every theorem is for an arbitrary checksum function
`H` (SHA-256d in the code), an arbitrary command table (the regenerated tables of the three
stacks are instances, see the `C35_gen_*` lemmas) and an arbitrary per-command codec `decode`.
-/
namespace ElaVerif.C35
open ElaVerif.P2PFrame

deriving instance DecidableEq for Except

/-- a command as the node uses them: at most 11 bytes (so the 12-byte field keeps a NUL), no NUL inside -/
def CmdOK (cmd : Bytes) : Prop := cmd.length ≤ 11 ∧ (0 : UInt8) ∉ cmd

/-- the reader refused the stream -/
def Rejected (o : Out α) : Prop := ∃ e, o.res = .error e

theorem parseFields_some {m4 c12 l4 k4 : Bytes} (h : c12.contains 0 = true) :
    parseFields m4 c12 l4 k4 = some ⟨readLe32 m4, c12, readLe32 l4, k4⟩ := by
  unfold parseFields; rw [if_pos h]

theorem parseFields_none {m4 c12 l4 k4 : Bytes} (h : ¬ c12.contains 0 = true) :
    parseFields m4 c12 l4 k4 = none := by
  unfold parseFields; rw [if_neg h]

structure WFHeader (h : Header) : Prop where
  magic : h.magic < 2 ^ 32
  cmdLen : h.cmd.length = 12
  cmdNul : h.cmd.contains 0 = true
  length : h.length < 2 ^ 32
  cksum : h.checksum.length = 4

/-! ## header codec -/

/-- `Deserialize (Serialize h) = h` for every header whose command field holds a NUL. -/
theorem C35_header_roundtrip (h : Header) (wf : WFHeader h) : Header.deserialize h.serialize = some h := by
  unfold Header.serialize
  rw [deserialize_fields (le32_length _) wf.cmdLen (le32_length _) wf.cksum]
  unfold parseFields
  rw [if_pos wf.cmdNul, readLe32_le32 wf.magic, readLe32_le32 wf.length]

example : WFHeader ⟨2017001, [112, 105, 110, 103, 0, 0, 0, 0, 0, 0, 0, 0], 8, [1, 2, 3, 4]⟩ :=
  ⟨by decide, by decide, by decide, by decide, by decide⟩

/-- the decoder is canonical: 24 bytes that decode re-encode to themselves (and the result is well formed). -/
theorem C35_header_canonical (buf : Bytes) (hlen : buf.length = 24) (h : Header)
    (hd : Header.deserialize buf = some h) : h.serialize = buf ∧ WFHeader h := by
  have e0 : buf = buf.take 4 ++ (buf.drop 4).take 12 ++ (buf.drop 16).take 4 ++ (buf.drop 20).take 4 := by
    have a1 := (List.take_append_drop 4 buf).symm
    have a2 := (List.take_append_drop 12 (buf.drop 4)).symm
    have a3 := (List.take_append_drop 4 (buf.drop 16)).symm
    have d1 : (buf.drop 4).drop 12 = buf.drop 16 := by rw [List.drop_drop]
    have d2 : (buf.drop 16).drop 4 = buf.drop 20 := by rw [List.drop_drop]
    have d3 : (buf.drop 20).take 4 = buf.drop 20 := List.take_of_length_le (by simp [hlen])
    rw [d1] at a2; rw [d2] at a3
    rw [d3]
    calc buf = buf.take 4 ++ buf.drop 4 := a1
      _ = buf.take 4 ++ ((buf.drop 4).take 12 ++ buf.drop 16) := by rw [← a2]
      _ = buf.take 4 ++ ((buf.drop 4).take 12 ++ ((buf.drop 16).take 4 ++ buf.drop 20)) := by rw [← a3]
      _ = _ := by simp only [List.append_assoc]
  have l1 : (buf.take 4).length = 4 := by simp [hlen]
  have l2 : ((buf.drop 4).take 12).length = 12 := by simp [hlen]
  have l3 : ((buf.drop 16).take 4).length = 4 := by simp [hlen]
  have l4 : ((buf.drop 20).take 4).length = 4 := by simp [hlen]
  unfold Header.deserialize parseFields at hd
  split at hd
  · rename_i hnul
    cases hd
    refine ⟨?_, ⟨readLe32_lt l1, l2, hnul, readLe32_lt l3, l4⟩⟩
    unfold Header.serialize
    simp only []
    have r1 : le32 (readLe32 (buf.take 4)) = buf.take 4 :=
      readLe32_inj (le32_length _) l1 (readLe32_le32 (readLe32_lt l1))
    have r3 : le32 (readLe32 ((buf.drop 16).take 4)) = (buf.drop 16).take 4 :=
      readLe32_inj (le32_length _) l3 (readLe32_le32 (readLe32_lt l3))
    rw [r1, r3]
    exact e0.symm
  · cases hd

/-! ## what the reader does, case by case -/

/-- once 24 bytes are there and decode to `hdr` with the right magic, the rest is `readBody`. -/
theorem readMessage_header (H : Bytes → Bytes) (table : List (Bytes × Nat)) (decode : Bytes → Bytes → Option α)
    (magic : Nat) (s : Bytes) (hdr : Header) (hlen : 24 ≤ s.length)
    (hd : Header.deserialize (s.take 24) = some hdr) (hm : hdr.magic = magic) :
    readMessage H table decode magic s = readBody H table decode hdr (s.drop 24) := by
  unfold readMessage
  rw [if_neg (by simp only [headerSize]; omega)]
  simp only [headerSize, hd]
  rw [if_neg (by simp [hm])]

/-- wrong network: rejected, nothing allocated, only the header consumed. -/
theorem C35_reject_magic (H : Bytes → Bytes) (table : List (Bytes × Nat)) (decode : Bytes → Bytes → Option α)
    (magic : Nat) (s : Bytes) (hdr : Header) (hlen : 24 ≤ s.length)
    (hd : Header.deserialize (s.take 24) = some hdr) (hm : hdr.magic ≠ magic) :
    readMessage H table decode magic s = ⟨.error .unmatchedMagic, 0, 24⟩ := by
  unfold readMessage
  rw [if_neg (by simp only [headerSize]; omega)]
  simp only [headerSize, hd]
  rw [if_pos hm]

/-- command field without a NUL: rejected before anything else is looked at; an unknown command:
    rejected, nothing allocated. -/
theorem C35_reject_cmd (H : Bytes → Bytes) (table : List (Bytes × Nat)) (decode : Bytes → Bytes → Option α)
    (magic : Nat) (s : Bytes) (hlen : 24 ≤ s.length) :
    (((s.drop 4).take 12).contains 0 = false →
        readMessage H table decode magic s = ⟨.error .invalidHeader, 0, 24⟩) ∧
    (∀ hdr, Header.deserialize (s.take 24) = some hdr → hdr.magic = magic → lookup table hdr.getCMD = none →
        readMessage H table decode magic s = ⟨.error .unhandled, 0, 24⟩) := by
  constructor
  · intro hn
    unfold readMessage
    rw [if_neg (by simp only [headerSize]; omega)]
    have : Header.deserialize (s.take headerSize) = none := by
      unfold Header.deserialize parseFields
      have e : ((s.take headerSize).drop 4).take 12 = (s.drop 4).take 12 := by
        rw [List.drop_take, List.take_take]; simp [headerSize]
      rw [e, hn]; simp
    rw [this]; rfl
  · intro hdr hd hm hl
    rw [readMessage_header H table decode magic s hdr hlen hd hm]
    unfold readBody
    rw [hl]; rfl

/-- declared length above the command's maximum: rejected **before** the payload buffer is made. -/
theorem C35_reject_len (H : Bytes → Bytes) (table : List (Bytes × Nat)) (decode : Bytes → Bytes → Option α)
    (magic : Nat) (s : Bytes) (hdr : Header) (max : Nat) (hlen : 24 ≤ s.length)
    (hd : Header.deserialize (s.take 24) = some hdr) (hm : hdr.magic = magic)
    (hl : lookup table hdr.getCMD = some max) (hbig : max < hdr.length) :
    readMessage H table decode magic s = ⟨.error .sizeExceeded, 0, 24⟩ := by
  rw [readMessage_header H table decode magic s hdr hlen hd hm]
  unfold readBody
  rw [hl]
  simp only []
  rw [if_pos hbig]; rfl

/-- checksum that is not the first four bytes of `H payload`: rejected. -/
theorem C35_reject_checksum (H : Bytes → Bytes) (table : List (Bytes × Nat)) (decode : Bytes → Bytes → Option α)
    (magic : Nat) (s : Bytes) (hdr : Header) (max : Nat) (hlen : 24 ≤ s.length)
    (hd : Header.deserialize (s.take 24) = some hdr) (hm : hdr.magic = magic)
    (hl : lookup table hdr.getCMD = some max) (hle : hdr.length ≤ max) (hthere : hdr.length ≤ (s.drop 24).length)
    (hck : (H ((s.drop 24).take hdr.length)).take 4 ≠ hdr.checksum) :
    readMessage H table decode magic s = ⟨.error .invalidPayload, hdr.length, 24 + hdr.length⟩ := by
  rw [readMessage_header H table decode magic s hdr hlen hd hm]
  unfold readBody
  rw [hl]
  simp only []
  rw [if_neg (by omega), if_neg (by omega), if_pos hck]; rfl

/-- **A read succeeds only if everything matches**: 24 header bytes with a NUL-terminated command
    of the table, the magic of this network, a declared length within the command's maximum and
    within what the stream delivers, the checksum of exactly those payload bytes, and a payload the
    command's codec accepts.  Allocation = declared length, consumption = 24 + declared length. -/
theorem C35_read_ok (H : Bytes → Bytes) (table : List (Bytes × Nat)) (decode : Bytes → Bytes → Option α)
    (magic : Nat) (s : Bytes) (c : Bytes) (m : α) (a n : Nat)
    (h : readMessage H table decode magic s = ⟨.ok (c, m), a, n⟩) :
    ∃ hdr, 24 ≤ s.length ∧ Header.deserialize (s.take 24) = some hdr ∧ WFHeader hdr ∧ hdr.magic = magic ∧
      c = hdr.getCMD ∧ (∃ max, lookup table c = some max ∧ hdr.length ≤ max) ∧
      hdr.length ≤ (s.drop 24).length ∧ (H ((s.drop 24).take hdr.length)).take 4 = hdr.checksum ∧
      decode c ((s.drop 24).take hdr.length) = some m ∧ a = hdr.length ∧ n = 24 + hdr.length := by
  unfold readMessage at h
  split at h
  · cases h
  · rename_i hlen
    simp only [headerSize] at hlen h
    split at h
    · cases h
    · rename_i hdr hd
      split at h
      · cases h
      · rename_i hm
        have hb := readBody_ok H table decode hdr (s.drop 24) h
        have hwf := (C35_header_canonical (s.take 24) (by simp; omega) hdr hd).2
        exact ⟨hdr, by omega, hd, hwf, Classical.not_not.mp hm, hb⟩

/-- **Allocation never exceeds the declared limit**, whatever the stream: the reader allocates
    nothing, or the command is known, the declared length is within its `MaxLength` and exactly
    that many bytes are allocated. -/
theorem C35_alloc (H : Bytes → Bytes) (table : List (Bytes × Nat)) (decode : Bytes → Bytes → Option α)
    (magic : Nat) (s : Bytes) :
    (readMessage H table decode magic s).alloc = 0 ∨
      ∃ hdr max, Header.deserialize (s.take 24) = some hdr ∧ (hdr.getCMD, max) ∈ table ∧
        (readMessage H table decode magic s).alloc = hdr.length ∧ hdr.length ≤ max := by
  unfold readMessage
  split
  · left; rfl
  · simp only [headerSize]
    split
    · left; rfl
    · rename_i hdr hd
      split
      · left; rfl
      · rcases readBody_alloc H table decode hdr (s.drop 24) with h0 | ⟨max, hl, hle, ha⟩
        · left; exact h0
        · right; exact ⟨hdr, max, hd, lookup_mem hl, ha, hle⟩

/-! ## write then read -/

/-- **A message written by the node is read back as an equal message.**  If `WriteMessage` (with
    the per-type guard) puts `frame` on the wire for a message of command `cmd` whose `Serialize`
    gave `payload`, then a reader whose switch knows `cmd` with the same `MaxLength` returns exactly
    (`cmd`, `decode cmd payload`), allocates `len payload` and leaves the following bytes untouched. -/
theorem C35_write_read (H : Bytes → Bytes) (table : List (Bytes × Nat)) (decode : Bytes → Bytes → Option α)
    (magic max : Nat) (cmd payload rest frame : Bytes) (m : α)
    (hH : ∀ b, 4 ≤ (H b).length) (hmagic : magic < 2 ^ 32) (hcmd : CmdOK cmd)
    (hlook : lookup table cmd = some max) (hdec : decode cmd payload = some m)
    (hw : writeMessage H magic cmd max payload = .ok frame) :
    readMessage H table decode magic (frame ++ rest) = ⟨.ok (cmd, m), payload.length, 24 + payload.length⟩ := by
  unfold writeMessage at hw
  split at hw
  · cases hw
  · rename_i hbig
    split at hw
    · cases hw
    · rename_i hmax
      unfold buildHeader at hw
      have hc12 : cmd.length ≤ cmdSize := by have := hcmd.1; simp only [cmdSize]; omega
      rw [if_pos hc12] at hw
      simp only [] at hw
      cases hw
      have hlen32 : payload.length < 2 ^ 32 := by
        simp [payloadTooBig, maxMessagePayload] at hbig; omega
      have hmod : payload.length % 2 ^ 32 = payload.length := Nat.mod_eq_of_lt hlen32
      have hk : ((H payload).take 4).length = 4 := by have := hH payload; simp; omega
      have hcl : (cmd ++ List.replicate (cmdSize - cmd.length) (0 : UInt8)).length = 12 := by
        simp only [List.length_append, List.length_replicate, cmdSize] at hc12 ⊢; omega
      have hnul : (cmd ++ List.replicate (cmdSize - cmd.length) (0 : UInt8)).contains 0 = true := by
        have : 0 < cmdSize - cmd.length := by have := hcmd.1; simp only [cmdSize]; omega
        obtain ⟨k, hk'⟩ := Nat.exists_eq_succ_of_ne_zero (Nat.pos_iff_ne_zero.mp this)
        rw [hk']; simp [List.replicate_succ]
      unfold Header.serialize
      simp only [hmod]
      rw [List.append_assoc (_ ++ _ ++ _ ++ _) payload rest]
      rw [readMessage_fields H table decode magic (payload ++ rest) (le32_length _) hcl (le32_length _) hk]
      unfold parseFields
      rw [if_pos hnul, readLe32_le32 hmagic, readLe32_le32 hlen32]
      simp only []
      rw [if_neg (by simp)]
      unfold readBody
      have hget : Header.getCMD ⟨magic, cmd ++ List.replicate (cmdSize - cmd.length) 0, payload.length, (H payload).take 4⟩ = cmd := by
        unfold Header.getCMD; exact trimZeros_pad hcmd.2 _
      rw [hget, hlook]
      simp only []
      rw [if_neg (by omega), if_neg (by simp)]
      have ht : (payload ++ rest).take payload.length = payload := take_app rfl
      rw [ht]
      rw [if_neg (by simp), hdec]
      rfl

example : CmdOK [112, 105, 110, 103] := ⟨by decide, by decide⟩

/-- Before the `fix:` commit `WriteMessage` had no per-type check, and the statement above was
    false for it: a 9-byte `ping` is written and then refused by the reader (`sizeExceeded`).
    Replayed on the real code with real messages (`corpus/C35/write_exceeds_type_limit.ops`:
    `version` with a 47-byte `NodeVersion`, `filterload` with a 36000-byte filter). -/
theorem C35_write_read_unguarded_false :
    ¬ ∀ (H : Bytes → Bytes) (table : List (Bytes × Nat)) (decode : Bytes → Bytes → Option Bytes)
        (magic max : Nat) (cmd payload frame : Bytes) (m : Bytes),
        (∀ b, 4 ≤ (H b).length) → magic < 2 ^ 32 → CmdOK cmd → lookup table cmd = some max →
        decode cmd payload = some m → writeMessageUnguarded H magic cmd payload = .ok frame →
        (readMessage H table decode magic frame).res = .ok (cmd, m) := by
  intro h
  have key := h (fun _ => [0, 0, 0, 0]) [([112, 105, 110, 103], 8)] (fun _ p => some p) 7 8
    [112, 105, 110, 103] [1, 2, 3, 4, 5, 6, 7, 8, 9] _ [1, 2, 3, 4, 5, 6, 7, 8, 9]
    (by intro _; decide) (by decide) ⟨by decide, by decide⟩ (by decide) rfl rfl
  have hres : (readMessage (fun _ => [0, 0, 0, 0]) [([112, 105, 110, 103], 8)] (fun _ p => some p) 7
      ((⟨7, [112, 105, 110, 103] ++ List.replicate (cmdSize - [112, 105, 110, 103].length) 0,
          [1, 2, 3, 4, 5, 6, 7, 8, 9].length % 2 ^ 32,
          List.take 4 ((fun _ => [0, 0, 0, 0]) [1, 2, 3, 4, 5, 6, 7, 8, 9])⟩ : Header).serialize ++
        [1, 2, 3, 4, 5, 6, 7, 8, 9])).res = (.error .sizeExceeded : Except Err (Bytes × Bytes)) := by
    decide
  have e := key.symm.trans hres
  cases e

/-- the frame a successful `writeMessage` produces is 24 header bytes followed by the payload -/
theorem writeMessage_length (H : Bytes → Bytes) (magic max : Nat) (cmd payload frame : Bytes)
    (hH : ∀ b, 4 ≤ (H b).length) (hw : writeMessage H magic cmd max payload = .ok frame) :
    frame.length = 24 + payload.length := by
  unfold writeMessage at hw
  split at hw
  · cases hw
  · split at hw
    · cases hw
    · by_cases hc : cmd.length ≤ cmdSize
      · simp only [buildHeader, if_pos hc] at hw
        cases hw
        have := hH payload
        simp only [Header.serialize, List.length_append, le32_length, List.length_replicate, List.length_take, cmdSize] at hc ⊢
        omega
      · simp only [buildHeader, if_neg hc] at hw
        cases hw

/-- what the reader is expected to return for a list of written messages -/
def expected (decode : Bytes → Bytes → Option α) (msgs : List (Bytes × Nat × Bytes)) : List (Bytes × α) :=
  msgs.filterMap fun x => (decode x.1 x.2.2).map fun m => (x.1, m)

/-- **Sessions**: any sequence of messages written one after the other on a connection is read
    back, in order, as exactly those messages — the reader consumes each frame completely and
    nothing of the next one, so framing never loses synchronisation on well-formed traffic. -/
theorem C35_stream (H : Bytes → Bytes) (table : List (Bytes × Nat)) (decode : Bytes → Bytes → Option α)
    (magic : Nat) (hH : ∀ b, 4 ≤ (H b).length) (hmagic : magic < 2 ^ 32) :
    ∀ (msgs : List (Bytes × Nat × Bytes)) (wire : Bytes),
      (∀ x ∈ msgs, CmdOK x.1 ∧ lookup table x.1 = some x.2.1 ∧ (decode x.1 x.2.2).isSome) →
      writeStream H magic msgs = some wire →
      readStream H table decode magic msgs.length wire = (expected decode msgs, none) ∧
        (expected decode msgs).length = msgs.length := by
  intro msgs
  induction msgs with
  | nil =>
    intro wire _ _
    exact ⟨rfl, rfl⟩
  | cons x rest ih =>
    intro wire hok hw
    obtain ⟨cmd, max, payload⟩ := x
    have hx := hok (cmd, max, payload) (by simp)
    obtain ⟨m, hdec⟩ := Option.isSome_iff_exists.mp hx.2.2
    unfold writeStream at hw
    split at hw
    · rename_i f fs hf hfs
      cases hw
      have hread := C35_write_read H table decode magic max cmd payload fs f m hH hmagic hx.1 hx.2.1 hdec hf
      have hlen := writeMessage_length H magic max cmd payload f hH hf
      have hne : (f ++ fs).isEmpty = false := by
        cases f with
        | nil => simp at hlen; omega
        | cons _ _ => rfl
      have hdrop : (f ++ fs).drop (24 + payload.length) = fs := drop_app hlen
      obtain ⟨ih1, ih2⟩ := ih fs (fun z hz => hok z (by simp [hz])) hfs
      constructor
      · simp only [List.length_cons, readStream, hne, hread]
        rw [hdrop, ih1]
        simp [expected, hdec]
      · simp only [expected, List.filterMap_cons, hdec, Option.map_some, List.length_cons]
        simp only [expected] at ih2
        rw [ih2]
    · cases hw

example : (readStream (fun _ => [0, 0, 0, 0]) [([112, 105, 110, 103], 8)] (fun _ p => some p) 7 2
    ((writeStream (fun _ => [0, 0, 0, 0]) 7 [([112, 105, 110, 103], 8, [1]), ([112, 105, 110, 103], 8, [2, 3])]).getD [])).1 =
    [([112, 105, 110, 103], [1]), ([112, 105, 110, 103], [2, 3])] := by decide

/-! ## corruption

The valid frame for (`magic`, `cmd`, `payload`) is
`le32 magic ++ pad cmd ++ le32 (len payload) ++ take 4 (H payload) ++ payload`.  Each theorem
replaces **one field** by an arbitrary different value of the same length (a single flipped byte
is a special case, `C35_single_byte`) and reads the result followed by arbitrary `rest`. -/

def pad (cmd : Bytes) : Bytes := cmd ++ List.replicate (12 - cmd.length) 0

theorem pad_length {cmd : Bytes} (h : CmdOK cmd) : (pad cmd).length = 12 := by
  have := h.1; simp only [pad, List.length_append, List.length_replicate]; omega

theorem pad_nul {cmd : Bytes} (h : CmdOK cmd) : (pad cmd).contains 0 = true := by
  have : 0 < 12 - cmd.length := by have := h.1; omega
  obtain ⟨k, hk⟩ := Nat.exists_eq_succ_of_ne_zero (Nat.pos_iff_ne_zero.mp this)
  simp only [pad]; rw [hk]; simp [List.replicate_succ]

theorem pad_trim {cmd : Bytes} (h : CmdOK cmd) : trimZeros (pad cmd) = cmd := trimZeros_pad h.2 _

/-- magic bytes changed ⇒ rejected, nothing allocated. -/
theorem C35_corrupt_magic (H : Bytes → Bytes) (table : List (Bytes × Nat)) (decode : Bytes → Bytes → Option α)
    (magic : Nat) (m4' c12 l4 k4 tail : Bytes) (hc : c12.length = 12) (hl : l4.length = 4) (hk : k4.length = 4)
    (hm : m4'.length = 4) (hne : m4' ≠ le32 magic) :
    Rejected (readMessage H table decode magic (m4' ++ c12 ++ l4 ++ k4 ++ tail)) ∧
      (readMessage H table decode magic (m4' ++ c12 ++ l4 ++ k4 ++ tail)).alloc = 0 := by
  rw [readMessage_fields H table decode magic tail hm hc hl hk]
  by_cases hn : c12.contains 0 = true
  · rw [parseFields_some hn]
    simp only []
    have : readLe32 m4' ≠ magic := by
      intro he
      apply hne
      have hlt : magic < 2 ^ 32 := by rw [← he]; exact readLe32_lt hm
      exact readLe32_inj hm (le32_length _) (by rw [readLe32_le32 hlt]; exact he)
    rw [if_pos this]
    exact ⟨⟨_, rfl⟩, rfl⟩
  · rw [parseFields_none hn]
    exact ⟨⟨_, rfl⟩, rfl⟩

/-- checksum bytes changed ⇒ rejected. -/
theorem C35_corrupt_checksum (H : Bytes → Bytes) (table : List (Bytes × Nat)) (decode : Bytes → Bytes → Option α)
    (magic : Nat) (cmd payload rest k4' : Bytes) (hcmd : CmdOK cmd) (hlen : payload.length < 2 ^ 32)
    (hk : k4'.length = 4) (hne : k4' ≠ (H payload).take 4) :
    Rejected (readMessage H table decode magic
      (le32 magic ++ pad cmd ++ le32 payload.length ++ k4' ++ (payload ++ rest))) := by
  rw [readMessage_fields H table decode magic _ (le32_length _) (pad_length hcmd) (le32_length _) hk]
  rw [parseFields_some (pad_nul hcmd)]
  simp only []
  split
  · exact ⟨_, rfl⟩
  · unfold readBody
    split
    · exact ⟨_, rfl⟩
    · simp only [readLe32_le32 hlen]
      split
      · exact ⟨_, rfl⟩
      · split
        · exact ⟨_, rfl⟩
        · have ht : (payload ++ rest).take payload.length = payload := take_app rfl
          rw [ht]
          rw [if_pos (fun h => hne h.symm)]
          exact ⟨_, rfl⟩

/-- payload bytes changed ⇒ rejected, unless the two payloads collide on the 4-byte checksum. -/
theorem C35_corrupt_payload (H : Bytes → Bytes) (table : List (Bytes × Nat)) (decode : Bytes → Bytes → Option α)
    (magic : Nat) (cmd payload p' rest : Bytes) (hcmd : CmdOK cmd) (hlen : payload.length < 2 ^ 32)
    (hH : ∀ b, 4 ≤ (H b).length) (hpl : p'.length = payload.length) (_hne : p' ≠ payload) :
    Rejected (readMessage H table decode magic
      (le32 magic ++ pad cmd ++ le32 payload.length ++ (H payload).take 4 ++ (p' ++ rest))) ∨
    (H p').take 4 = (H payload).take 4 := by
  have hk : ((H payload).take 4).length = 4 := by have := hH payload; simp; omega
  rw [readMessage_fields H table decode magic _ (le32_length _) (pad_length hcmd) (le32_length _) hk]
  rw [parseFields_some (pad_nul hcmd)]
  simp only []
  split
  · left; exact ⟨_, rfl⟩
  · unfold readBody
    split
    · left; exact ⟨_, rfl⟩
    · simp only [readLe32_le32 hlen]
      split
      · left; exact ⟨_, rfl⟩
      · split
        · left; exact ⟨_, rfl⟩
        · have ht : (p' ++ rest).take payload.length = p' := take_app hpl
          rw [ht]
          split
          · left; exact ⟨_, rfl⟩
          · rename_i hck
            right; exact Classical.not_not.mp hck

/-- length bytes changed ⇒ rejected, unless some *other* byte string collides with the payload on
    the 4-byte checksum (the reader then takes a longer or shorter slice of the stream as payload). -/
theorem C35_corrupt_length (H : Bytes → Bytes) (table : List (Bytes × Nat)) (decode : Bytes → Bytes → Option α)
    (magic : Nat) (cmd payload rest l4' : Bytes) (hcmd : CmdOK cmd) (hlen : payload.length < 2 ^ 32)
    (hH : ∀ b, 4 ≤ (H b).length) (hl : l4'.length = 4) (hne : l4' ≠ le32 payload.length) :
    Rejected (readMessage H table decode magic
      (le32 magic ++ pad cmd ++ l4' ++ (H payload).take 4 ++ (payload ++ rest))) ∨
    ∃ p', p' ≠ payload ∧ (H p').take 4 = (H payload).take 4 := by
  have hk : ((H payload).take 4).length = 4 := by have := hH payload; simp; omega
  have hdiff : readLe32 l4' ≠ payload.length := by
    intro he
    apply hne
    exact readLe32_inj hl (le32_length _) (by rw [readLe32_le32 hlen]; exact he)
  rw [readMessage_fields H table decode magic _ (le32_length _) (pad_length hcmd) hl hk]
  rw [parseFields_some (pad_nul hcmd)]
  simp only []
  split
  · left; exact ⟨_, rfl⟩
  · unfold readBody
    split
    · left; exact ⟨_, rfl⟩
    · split
      · left; exact ⟨_, rfl⟩
      · split
        · left; exact ⟨_, rfl⟩
        · rename_i hshort
          simp only []
          split
          · left; exact ⟨_, rfl⟩
          · rename_i hck
            right
            refine ⟨(payload ++ rest).take (readLe32 l4'), ?_, Classical.not_not.mp hck⟩
            intro he
            have hs : ¬ (payload ++ rest).length < readLe32 l4' := hshort
            have := congrArg List.length he
            rw [List.length_take] at this
            omega

/-- command bytes changed ⇒ rejected, or read as a **different** command of the table.  (The frame
    checksum does not cover the header, so this second case exists: `C35_corrupt_reject_false`.) -/
theorem C35_corrupt_cmd (H : Bytes → Bytes) (table : List (Bytes × Nat)) (decode : Bytes → Bytes → Option α)
    (magic : Nat) (cmd c12' l4 k4 tail : Bytes) (hcmd : CmdOK cmd) (hl : l4.length = 4) (hk : k4.length = 4)
    (hc : c12'.length = 12) (hne : c12' ≠ pad cmd) :
    Rejected (readMessage H table decode magic (le32 magic ++ c12' ++ l4 ++ k4 ++ tail)) ∨
    ∃ c m a n, readMessage H table decode magic (le32 magic ++ c12' ++ l4 ++ k4 ++ tail) = ⟨.ok (c, m), a, n⟩ ∧
      c ≠ cmd ∧ ∃ max, (c, max) ∈ table := by
  rw [readMessage_fields H table decode magic tail (le32_length _) hc hl hk]
  by_cases hn : c12'.contains 0 = true
  · rw [parseFields_some hn]
    simp only []
    split
    · left; exact ⟨_, rfl⟩
    · cases hrb : readBody H table decode ⟨readLe32 (le32 magic), c12', readLe32 l4, k4⟩ tail with
      | mk res a n =>
        cases res with
        | error e => left; exact ⟨e, rfl⟩
        | ok cm =>
          obtain ⟨c, m⟩ := cm
          right
          have hb := readBody_ok H table decode _ tail hrb
          refine ⟨c, m, a, n, rfl, ?_, ?_⟩
          · intro hcc
            apply hne
            apply trimZeros_inj (by rw [hc, pad_length hcmd])
            rw [pad_trim hcmd, ← hcc, hb.1]; rfl
          · obtain ⟨max, hl', _⟩ := hb.2.1
            exact ⟨max, lookup_mem hl'⟩
  · rw [parseFields_none hn]
    left; exact ⟨_, rfl⟩

/-- "Every corruption of the header is rejected" is **false**: `ping` with its fifth header byte
    changed from 'i' to 'o' is a valid `pong` (the same holds for `req_con`/`res_con` on the DPoS
    stack).  Replayed on the real code: `corpus/C35/ping_pong.ops`. -/
theorem C35_corrupt_reject_false :
    ¬ ∀ (H : Bytes → Bytes) (table : List (Bytes × Nat)) (decode : Bytes → Bytes → Option Bytes)
        (magic : Nat) (cmd c12' l4 k4 tail : Bytes), CmdOK cmd → l4.length = 4 → k4.length = 4 →
        c12'.length = 12 → c12' ≠ pad cmd →
        Rejected (readMessage H table decode magic (le32 magic ++ c12' ++ l4 ++ k4 ++ tail)) := by
  intro h
  have := h (fun _ => [0, 0, 0, 0]) [([112, 105, 110, 103], 8), ([112, 111, 110, 103], 8)] (fun _ p => some p) 7
    [112, 105, 110, 103] [112, 111, 110, 103, 0, 0, 0, 0, 0, 0, 0, 0] [8, 0, 0, 0] [0, 0, 0, 0]
    [1, 2, 3, 4, 5, 6, 7, 8] ⟨by decide, by decide⟩ rfl rfl rfl (by decide)
  obtain ⟨e, he⟩ := this
  have hok : (readMessage (fun _ => [0, 0, 0, 0]) [([112, 105, 110, 103], 8), ([112, 111, 110, 103], 8)]
      (fun _ p => some p) 7
      (le32 7 ++ [112, 111, 110, 103, 0, 0, 0, 0, 0, 0, 0, 0] ++ [8, 0, 0, 0] ++ [0, 0, 0, 0] ++
        [1, 2, 3, 4, 5, 6, 7, 8])).res =
      (.ok ([112, 111, 110, 103], [1, 2, 3, 4, 5, 6, 7, 8]) : Except Err (Bytes × Bytes)) := by
    decide
  have e' := he.symm.trans hok
  cases e'

/-- **Any single corrupted byte of a valid frame** (header or payload), whatever follows on the
    stream: the read is rejected, or the byte was in the command field and the frame is now a
    different known command, or two different byte strings collide on the 4-byte checksum
    (explicit hypothesis-as-disjunct; for SHA-256d no such pair is known for a given payload). -/
theorem C35_single_byte_partial (H : Bytes → Bytes) (table : List (Bytes × Nat)) (decode : Bytes → Bytes → Option α)
    (magic : Nat) (cmd payload rest : Bytes) (i : Nat) (b : UInt8)
    (hcmd : CmdOK cmd) (hlen : payload.length < 2 ^ 32) (hH : ∀ x, 4 ≤ (H x).length)
    (hi : i < (le32 magic ++ pad cmd ++ le32 payload.length ++ (H payload).take 4 ++ payload).length)
    (hb : (le32 magic ++ pad cmd ++ le32 payload.length ++ (H payload).take 4 ++ payload)[i]? ≠ some b) :
    let s' := (le32 magic ++ pad cmd ++ le32 payload.length ++ (H payload).take 4 ++ payload).set i b ++ rest
    Rejected (readMessage H table decode magic s') ∨
    (4 ≤ i ∧ i < 16 ∧ ∃ c m a n, readMessage H table decode magic s' = ⟨.ok (c, m), a, n⟩ ∧
        c ≠ cmd ∧ ∃ max, (c, max) ∈ table) ∨
    (∃ p', p' ≠ payload ∧ (H p').take 4 = (H payload).take 4) := by
  intro s'
  have hk : ((H payload).take 4).length = 4 := by have := hH payload; simp; omega
  have hp := pad_length hcmd
  have hs := set5 (le32 magic) (pad cmd) (le32 payload.length) ((H payload).take 4) payload i b
  have hg := get5 (le32 magic) (pad cmd) (le32 payload.length) ((H payload).take 4) payload i
  simp only [le32_length, hp, hk] at hs hg
  simp only [List.length_append, le32_length, hp, hk] at hi
  by_cases h1 : i < 4
  · -- magic
    rw [if_pos h1] at hs hg
    have hne := set_ne (by simpa [le32_length] using h1) (hg ▸ hb)
    left
    show Rejected (readMessage H table decode magic (_ ++ rest))
    rw [hs, List.append_assoc (_ ++ _ ++ _ ++ _) payload rest]
    exact (C35_corrupt_magic H table decode magic _ _ _ _ _ hp (le32_length _) hk (by simp [le32_length]) hne).1
  · rw [if_neg h1] at hs hg
    by_cases h2 : i < 4 + 12
    · -- command
      rw [if_pos h2] at hs hg
      have hne := set_ne (by rw [hp]; omega) (hg ▸ hb)
      show Rejected (readMessage H table decode magic (_ ++ rest)) ∨ (_ ∧ _ ∧ ∃ c m a n, readMessage H table decode magic (_ ++ rest) = _ ∧ _) ∨ _
      rw [hs, List.append_assoc (_ ++ _ ++ _ ++ _) payload rest]
      rcases C35_corrupt_cmd H table decode magic cmd _ _ _ (payload ++ rest) hcmd (le32_length _) hk
          (by simp [hp]) hne with hr | hr
      · left; exact hr
      · right; left; exact ⟨by omega, by omega, hr⟩
    · rw [if_neg h2] at hs hg
      by_cases h3 : i < 4 + 12 + 4
      · -- length
        rw [if_pos h3] at hs hg
        have hne := set_ne (by rw [le32_length]; omega) (hg ▸ hb)
        show Rejected (readMessage H table decode magic (_ ++ rest)) ∨ _ ∨ _
        rw [hs, List.append_assoc (_ ++ _ ++ _ ++ _) payload rest]
        rcases C35_corrupt_length H table decode magic cmd payload rest _ hcmd hlen hH
            (by simp [le32_length]) hne with hr | hr
        · left; exact hr
        · right; right; exact hr
      · rw [if_neg h3] at hs hg
        by_cases h4 : i < 4 + 12 + 4 + 4
        · -- checksum
          rw [if_pos h4] at hs hg
          have hne := set_ne (by rw [hk]; omega) (hg ▸ hb)
          left
          show Rejected (readMessage H table decode magic (_ ++ rest))
          rw [hs, List.append_assoc (_ ++ _ ++ _ ++ _) _ rest]
          exact C35_corrupt_checksum H table decode magic cmd payload rest _ hcmd hlen (by simp [hk]) hne
        · -- payload
          rw [if_neg h4] at hs hg
          have hne := set_ne (by omega) (hg ▸ hb)
          show Rejected (readMessage H table decode magic (_ ++ rest)) ∨ _ ∨ _
          rw [hs, List.append_assoc (_ ++ _ ++ _ ++ _) _ rest]
          rcases C35_corrupt_payload H table decode magic cmd payload _ rest hcmd hlen hH (by simp) hne with hr | hr
          · left; exact hr
          · right; right; exact ⟨_, hne, hr⟩

/-! ## the regenerated command tables (T-gen) -/

def tableOf (es : List Gen.C35.Entry) : List (Bytes × Nat) := es.map fun e => (e.caseBytes, e.max)

/-- the switches a main-net peer / a DPoS peer / `checkAddr` run a header through (base switch first) -/
def elanetStack : List Gen.C35.Entry := Gen.C35.p2pPeer ++ Gen.C35.elanetServer
def dposStack : List Gen.C35.Entry := Gen.C35.dposPeer ++ Gen.C35.dposNetwork

/-- what the proofs need of one switch entry: the case constant is the command the constructed
    message reports, it fits the 12-byte field with a terminating NUL, and it contains no NUL. -/
def entryOK (e : Gen.C35.Entry) : Bool :=
  e.caseCmd == e.typeCmd && decide (1 ≤ e.caseBytes.length) && decide (e.caseBytes.length ≤ 11) &&
    !e.caseBytes.contains 0

def noDup : List String → Bool
  | [] => true
  | x :: xs => !xs.contains x && noDup xs

/-- T-gen: every command of every switch is well formed and each stack has no duplicate command. -/
theorem C35_gen_commands_ok :
    (elanetStack.all entryOK && dposStack.all entryOK && Gen.C35.checkAddr.all entryOK &&
      noDup (elanetStack.map (·.caseCmd)) && noDup (dposStack.map (·.caseCmd))) = true := by
  decide

/-- T-gen: the command → MaxLength tables, pinned.  A changed limit, a new or a dropped command
    shows up here. -/
theorem C35_gen_tables :
    elanetStack.map (fun e => (e.caseCmd, e.max)) =
      [("version", 82), ("verack", 0), ("getaddr", 0), ("addr", 42008), ("ping", 8), ("pong", 8),
       ("mempool", 0), ("tx", 8000000), ("block", 18000000), ("inv", 1800004), ("notfound", 1800004),
       ("getdata", 1800004), ("getblocks", 16036), ("filteradd", 523), ("filterclear", 0),
       ("filterload", 36012), ("txfilter", 50004), ("reject", 524288), ("daddr", 387)] ∧
    dposStack.map (fun e => (e.caseCmd, e.max)) =
      [("version", 128), ("verack", 64), ("addr", 255), ("ping", 8), ("pong", 8),
       ("block", 18000000), ("tx", 8000000), ("acc_vote", 297), ("proposal", 168), ("rej_vote", 297),
       ("inv", 32), ("getblock", 32), ("get_blc", 8), ("res_blc", 80000000), ("req_con", 4),
       ("res_con", 80000000), ("req_pro", 32), ("ill_pro", 1000000), ("ill_vote", 1000000),
       ("side_ill", 8000000), ("ina_ars", 145), ("rev_to_dpos", 512), ("reset_view", 100)] ∧
    Gen.C35.checkAddr.map (fun e => (e.caseCmd, e.max)) = [("version", 82)] := by
  decide

/-- T-gen: framing constants, and the order of the guards: the length check comes before
    `make([]byte, hdr.Length)`, the checksum before `Deserialize`; `ReadMessage` checks the header
    and the magic before it calls `createMessage`. -/
theorem C35_gen_structure :
    Gen.C35.headerSize = headerSize ∧ Gen.C35.cmdSize = cmdSize ∧ Gen.C35.cmdOffset = 4 ∧
    Gen.C35.checksumSize = 4 ∧ Gen.C35.maxMessagePayload = maxMessagePayload ∧
    Gen.C35.checkAndCreateMessage.take 4 =
      ["if hdr.Length > message.MaxLength()", "return nil, p2p.ErrMsgSizeExceeded",
       "call make([]byte, hdr.Length)", "call io.ReadFull(r, payload[:])"] ∧
    Gen.C35.checkAndCreateTxMessage.take 4 =
      ["if hdr.Length > txMessage.MaxLength()", "return nil, p2p.ErrMsgSizeExceeded",
       "call make([]byte, hdr.Length)", "call io.ReadFull(r, payload[:])"] ∧
    (Gen.C35.checkAndCreateMessage.drop 6).take 4 =
      ["if-init err := hdr.Verify(payload)", "if err != nil", "call hdr.Verify(payload)",
       "return nil, p2p.ErrInvalidPayload"] ∧
    Gen.C35.readMessage.drop 2 =
      ["if-init _, err := io.ReadFull(r, headerBytes[:])", "if err != nil", "return nil, err",
       "if-init err := hdr.Deserialize(headerBytes[:])", "if err != nil", "return nil, ErrInvalidHeader",
       "if hdr.Magic != magic", "return nil, ErrUnmatchedMagic", "return createMessage(hdr, r)"] := by
  decide

/-- T-gen: the limits inside the modelled main-net decoders (`Model/P2PMsg.lean`, used by the driver
    instead of an oracle value for 15 commands) are the ones the packages define. -/
theorem C35_gen_codec_consts :
    Gen.C35.crProposalVersion = P2PMsg.crProposalVersion ∧ Gen.C35.maxInvPerMsg = P2PMsg.maxInvPerMsg ∧
    Gen.C35.maxBlockLocatorsPerMsg = P2PMsg.maxBlockLocatorsPerMsg ∧ Gen.C35.maxAddrPerMsg = P2PMsg.maxAddrPerMsg ∧
    Gen.C35.maxFilterAddDataSize = P2PMsg.maxFilterAddDataSize ∧
    Gen.C35.maxTxFilterLoadDataSize = P2PMsg.maxTxFilterLoadDataSize ∧
    Gen.C35.maxVarStringLength = P2PMsg.maxVarStringLength := by
  decide

/-- The finding behind the `WriteMessage` fix, as a theorem about the codec: `FilterLoad.Serialize`
    accepts a 36000-byte filter (its own limit), and the bytes it produces are 36013 long — one more
    than the `MaxLength` (36012, regenerated) the reader enforces for `filterload`.  No choice of
    the optional tx-type list helps: the count byte alone is the excess. -/
theorem C35_filterload_exceeds_max (bits : Bloom.Bytes) (hf tw : UInt32) (flags : UInt8)
    (hlen : bits.length = Bloom.maxFilterLoadFilterSize) :
    (Bloom.encodeFilterLoad ⟨bits, hf, tw, []⟩ flags).length = 36013 ∧
    (Gen.C35.elanetServer.filter (fun e => e.caseCmd == "filterload")).map (·.max) = [36012] := by
  constructor
  · rw [Bloom.encodeFilterLoad_length, Bloom.writeVarUint_length, Bloom.writeVarUint_length]
    simp only [hlen, Bloom.maxFilterLoadFilterSize, List.length_nil]
    simp
  · decide

/-! ## messages, not only frames -/

def cmdStr (c : Bytes) : String := String.ofList (c.map fun b => Char.ofNat b.toNat)

/-- the decoder a stack runs on the payload of a command: the modelled codec of `Model/P2PCodec.lean`
    where there is one; a command without a model keeps its raw payload -/
def codecDecode (stack : String) : Bytes → Bytes → Option P2PCodec.Msg :=
  fun c p => match P2PCodec.layoutOfStr stack (cmdStr c) with
    | some l => P2PCodec.decodeMsg l p
    | none => some (.raw p)

/-- **A message written by the node is read back as an equal message — the message, not just its
    bytes.**  For every command whose codec is modelled (main net: all 19; DPoS: 18 of 23) and every
    well-formed message value `m` of its layout: if `WriteMessage` sends `Serialize m`, the reader's
    `Deserialize` yields exactly `m`.  Combines the frame theorem with the codec round trips
    (wire schemas of C04, the transaction/block envelope, `filterload` of C39, `version`). -/
theorem C35_message_roundtrip (H : Bytes → Bytes) (table : List (Bytes × Nat)) (stack : String)
    (magic max : Nat) (cmd rest frame : Bytes) (l : P2PCodec.Layout) (m : P2PCodec.Msg)
    (hH : ∀ b, 4 ≤ (H b).length) (hmagic : magic < 2 ^ 32) (hcmd : CmdOK cmd)
    (hlook : lookup table cmd = some max) (hl : P2PCodec.layoutOfStr stack (cmdStr cmd) = some l)
    (hwf : P2PCodec.wfMsg l m = true)
    (hw : writeMessage H magic cmd max (P2PCodec.encodeMsg l m) = .ok frame) :
    readMessage H table (codecDecode stack) magic (frame ++ rest) =
      ⟨.ok (cmd, m), (P2PCodec.encodeMsg l m).length, 24 + (P2PCodec.encodeMsg l m).length⟩ := by
  apply C35_write_read H table (codecDecode stack) magic max cmd _ rest frame m hH hmagic hcmd hlook _ hw
  simp only [codecDecode, hl]
  exact P2PCodec.decodeMsg_encodeMsg l m hwf

/-- T-gen: which commands of the regenerated switches have a modelled codec.  Main net: every
    command.  DPoS: everything except `version` (layout depends on a process-global payload version),
    `res_blc`, `res_con` (consensus status snapshots) and `ill_vote` — these keep the frame-level
    theorem with the codec as a parameter. -/
theorem C35_gen_codec_coverage :
    (elanetStack.filter fun e => (P2PCodec.layoutOfStr "elanet" e.caseCmd).isNone).map (·.caseCmd) = [] ∧
    (dposStack.filter fun e => (P2PCodec.layoutOfStr "dpos" e.caseCmd).isNone).map (·.caseCmd) =
      ["version", "res_blc", "res_con", "ill_vote"] ∧
    (Gen.C35.checkAddr.filter fun e => (P2PCodec.layoutOfStr "checkaddr" e.caseCmd).isNone).map (·.caseCmd) = [] ∧
    -- what the node writes without ever reading it: `merkleblock` (read by SPV peers); its codec is modelled too
    Gen.C35.writeOnly.map (fun e => (e.caseCmd, e.max, (P2PCodec.layoutOfStr "spv" e.caseCmd).isSome)) =
      [("merkleblock", 9000000, true)] ∧
    Gen.C35.maxTxPerBlock = P2PCodec.maxTxPerBlock := by
  decide

/-! ## what an honest writer can make a reader allocate -/

/-- `WriteMessage` never puts more than 32 MiB (and never more than the type's `MaxLength`) behind
    a header … -/
theorem C35_writer_cap (H : Bytes → Bytes) (magic max : Nat) (cmd payload frame : Bytes)
    (hw : writeMessage H magic cmd max payload = .ok frame) :
    payload.length ≤ maxMessagePayload ∧ payload.length ≤ max := by
  unfold writeMessage at hw
  split at hw
  · cases hw
  · rename_i hbig
    split at hw
    · cases hw
    · rename_i hmax
      simp [payloadTooBig] at hbig
      exact ⟨hbig, by omega⟩

/-- … so although the DPoS switch *declares* 80 000 000 bytes for `res_blc` / `res_con` (regenerated
    fact), a frame produced by any node running this writer makes the reader allocate at most
    32 MiB = 33 554 432 bytes: the 80 MB can only be requested by a peer that does not run this code.
    (The reader's own bound stays `C35_gen_alloc_bound`.) -/
theorem C35_honest_alloc (H : Bytes → Bytes) (table : List (Bytes × Nat)) (decode : Bytes → Bytes → Option α)
    (magic max : Nat) (cmd payload rest frame : Bytes) (m : α)
    (hH : ∀ b, 4 ≤ (H b).length) (hmagic : magic < 2 ^ 32) (hcmd : CmdOK cmd)
    (hlook : lookup table cmd = some max) (hdec : decode cmd payload = some m)
    (hw : writeMessage H magic cmd max payload = .ok frame) :
    (readMessage H table decode magic (frame ++ rest)).alloc ≤ 33554432 ∧
    (dposStack.filter fun e => e.max > 33554432).map (fun e => (e.caseCmd, e.max)) =
      [("res_blc", 80000000), ("res_con", 80000000)] ∧
    (elanetStack.filter fun e => e.max > 33554432) = [] := by
  have hr := C35_write_read H table decode magic max cmd payload rest frame m hH hmagic hcmd hlook hdec hw
  have hc := (C35_writer_cap H magic max cmd payload frame hw).1
  refine ⟨?_, by decide, by decide⟩
  rw [hr]
  simpa [maxMessagePayload] using hc

/-! ## the read loop: an error ends the session -/

/-- the read loop on written traffic followed by anything: the written messages are delivered and
    the loop continues on the tail with the remaining fuel -/
theorem C35_stream_then (H : Bytes → Bytes) (table : List (Bytes × Nat)) (decode : Bytes → Bytes → Option α)
    (magic : Nat) (hH : ∀ b, 4 ≤ (H b).length) (hmagic : magic < 2 ^ 32) :
    ∀ (msgs : List (Bytes × Nat × Bytes)) (wire tail : Bytes) (k : Nat),
      (∀ x ∈ msgs, CmdOK x.1 ∧ lookup table x.1 = some x.2.1 ∧ (decode x.1 x.2.2).isSome) →
      writeStream H magic msgs = some wire →
      readStream H table decode magic (msgs.length + k) (wire ++ tail) =
        (expected decode msgs ++ (readStream H table decode magic k tail).1,
         (readStream H table decode magic k tail).2) := by
  intro msgs
  induction msgs with
  | nil =>
    intro wire tail k _ hw
    simp only [writeStream] at hw
    cases hw
    simp [expected]
  | cons x rest ih =>
    intro wire tail k hok hw
    obtain ⟨cmd, max, payload⟩ := x
    have hx := hok (cmd, max, payload) (by simp)
    obtain ⟨m, hdec⟩ := Option.isSome_iff_exists.mp hx.2.2
    unfold writeStream at hw
    split at hw
    · rename_i f fs hf hfs
      cases hw
      have hread := C35_write_read H table decode magic max cmd payload (fs ++ tail) f m hH hmagic hx.1 hx.2.1 hdec hf
      have hlen := writeMessage_length H magic max cmd payload f hH hf
      have hne : (f ++ (fs ++ tail)).isEmpty = false := by
        cases f with
        | nil => simp at hlen; omega
        | cons _ _ => rfl
      have hdrop : (f ++ (fs ++ tail)).drop (24 + payload.length) = fs ++ tail := drop_app hlen
      have ih1 := ih fs tail k (fun z hz => hok z (by simp [hz])) hfs
      rw [List.append_assoc]
      rw [List.length_cons, show rest.length + 1 + k = (rest.length + k) + 1 by omega]
      simp only [readStream, hne, hread]
      rw [hdrop, ih1]
      simp [expected, hdec]
    · cases hw

/-- **Any framing error ends the session** (`inHandler`: `break out`, then `Disconnect`): after the
    well-formed traffic, a frame the reader rejects — oversize declaration, unknown command, bad
    checksum, … — stops the loop with that error, and nothing that follows on the connection is
    looked at, whatever it is.  There is no "skip and resynchronise". -/
theorem C35_error_ends_session (H : Bytes → Bytes) (table : List (Bytes × Nat)) (decode : Bytes → Bytes → Option α)
    (magic : Nat) (hH : ∀ b, 4 ≤ (H b).length) (hmagic : magic < 2 ^ 32)
    (msgs : List (Bytes × Nat × Bytes)) (wire bad : Bytes) (k : Nat) (e : Err)
    (hok : ∀ x ∈ msgs, CmdOK x.1 ∧ lookup table x.1 = some x.2.1 ∧ (decode x.1 x.2.2).isSome)
    (hw : writeStream H magic msgs = some wire) (hne : bad ≠ [])
    (hbad : (readMessage H table decode magic bad).res = .error e) :
    readStream H table decode magic (msgs.length + (k + 1)) (wire ++ bad) = (expected decode msgs, some e) := by
  rw [C35_stream_then H table decode magic hH hmagic msgs wire bad (k + 1) hok hw]
  have hb : bad.isEmpty = false := by cases bad with | nil => exact absurd rfl hne | cons _ _ => rfl
  simp [readStream, hb, hbad]

/-- T-gen: the two read loops end on *every* read error: the error branch of `inHandler` (main net
    and DPoS peers) finishes with `break out`, and the function disconnects after the loop. -/
theorem C35_gen_read_loop :
    Gen.C35.inHandlerErrEnds = ["break out", "break out"] ∧
    Gen.C35.inHandlerAfterLoop.all (fun l => l.contains "p.Disconnect()") = true ∧
    Gen.C35.inHandlerAfterLoop.length = 2 := by
  decide

/-- the largest `MaxLength` of a table -/
def tableMax : List (Bytes × Nat) → Nat
  | [] => 0
  | (_, m) :: rest => Nat.max m (tableMax rest)

theorem le_tableMax {table : List (Bytes × Nat)} {c : Bytes} {m : Nat} (h : (c, m) ∈ table) : m ≤ tableMax table := by
  induction table with
  | nil => cases h
  | cons e rest ih =>
    obtain ⟨c', m'⟩ := e
    simp only [tableMax]
    rcases List.mem_cons.mp h with he | he
    · cases he; exact Nat.le_max_left _ _
    · exact Nat.le_trans (ih he) (Nat.le_max_right _ _)

/-- no stream makes the reader allocate more than the largest `MaxLength` of its stack … -/
theorem C35_alloc_le_max (H : Bytes → Bytes) (table : List (Bytes × Nat)) (decode : Bytes → Bytes → Option α)
    (magic : Nat) (s : Bytes) : (readMessage H table decode magic s).alloc ≤ tableMax table := by
  rcases C35_alloc H table decode magic s with h | ⟨hdr, max, _, hmem, ha, hle⟩
  · rw [h]; exact Nat.zero_le _
  · rw [ha]; exact Nat.le_trans hle (le_tableMax hmem)

/-- … which on the regenerated tables is 18 000 000 bytes for a main-net peer and 80 000 000 for a
    DPoS peer (`res_blc` / `res_con`; more than the 32 MiB `WriteMessage` will ever send). -/
theorem C35_gen_alloc_bound (H : Bytes → Bytes) (decode : Bytes → Bytes → Option α) (magic : Nat) (s : Bytes) :
    (readMessage H (tableOf elanetStack) decode magic s).alloc ≤ 18000000 ∧
    (readMessage H (tableOf dposStack) decode magic s).alloc ≤ 80000000 ∧
    (readMessage H (tableOf Gen.C35.checkAddr) decode magic s).alloc ≤ 82 := by
  have e1 : tableMax (tableOf elanetStack) = 18000000 := by decide
  have e2 : tableMax (tableOf dposStack) = 80000000 := by decide
  have e3 : tableMax (tableOf Gen.C35.checkAddr) = 82 := by decide
  exact ⟨e1 ▸ C35_alloc_le_max H _ decode magic s, e2 ▸ C35_alloc_le_max H _ decode magic s,
    e3 ▸ C35_alloc_le_max H _ decode magic s⟩

/-- every regenerated command satisfies the hypothesis `CmdOK` of the theorems above -/
theorem C35_gen_cmdok (e : Gen.C35.Entry) (h : e ∈ elanetStack ++ dposStack ++ Gen.C35.checkAddr) :
    CmdOK e.caseBytes := by
  have hall : (elanetStack ++ dposStack ++ Gen.C35.checkAddr).all entryOK = true := by decide
  have := List.all_eq_true.mp hall e h
  simp only [entryOK, Bool.and_eq_true, decide_eq_true_eq, Bool.not_eq_true', beq_iff_eq] at this
  refine ⟨this.1.2, ?_⟩
  intro hm
  have hc : e.caseBytes.contains 0 = true := by simpa using hm
  rw [this.2] at hc
  cases hc

end ElaVerif.C35
