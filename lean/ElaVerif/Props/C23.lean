import ElaVerif.Model.Wire
import ElaVerif.Lemmas.Wire
import ElaVerif.Lemmas.WireTokens
import ElaVerif.Gen.C23
import ElaVerif.Model.CheckpointDriver
import ElaVerif.Lemmas.WalletCont
/-!
# C23 — saved state checkpoints are lossless

Property theorems only.  A checkpoint is a schema with maps (a map is written as a count followed
by its (key, value) pairs in Go's iteration order, so a schema sees it as a list of pairs).
The schema of each checkpoint type is not written by hand: it is *derived* (`WireTokens.ofToks`)
from the read-token stream of the type's `Deserialize`, regenerated from the Go source on every
run with every callee inlined; the theorems below hold for every schema, hence for whatever the
source currently says.

The "restore then continue = straight run" half: proved for the wallet coin checkpoint driven by a
model of the checkpoint manager's save / promote / restore protocol (`C23_wallet_restore_continue`,
model tied to the real `checkpoint.Manager` on real files by the `wcont` ops); for the consensus-state
checkpoints `C23_restore_partial` states it for an abstract step function only (any deterministic
`step` over the serialized state) — the tie of `step` to the node's block processing is the subject
of C21/C22, not established here.
-/
namespace ElaVerif.C23
open ElaVerif.Bytes ElaVerif.Wire ElaVerif.WireTokens

/-- Serialize-then-deserialize of any well-formed value of any schema reproduces it exactly
    (instance of the generic round trip; maps are lists of pairs in the order written). -/
theorem C23_roundtrip (ty : Ty) (v : Val) (rest : Bytes) (h : wf ty v = true) :
    decode ty (encode ty v ++ rest) = some (v, rest) :=
  decode_encode ty v rest h

/-- in particular for the schema denoted by any reader token stream -/
theorem C23_roundtrip_derived (ts : List Tok) (v : Val) (h : wf (ofToks ts) v = true) :
    decode (ofToks ts) (encode (ofToks ts) v) = some (v, []) := by
  have := decode_encode (ofToks ts) v [] h
  simpa [decode] using this

/-- association-list lookup (what reading the pairs into a Go map amounts to) -/
def lookup (k : Bytes) : List (Bytes × Bytes) → Option Bytes
  | [] => none
  | (k', v) :: rest => if k' = k then some v else lookup k rest

/-- Map iteration order is irrelevant: two pair lists with distinct keys that are permutations of
    each other denote the same map. -/
theorem C23_map_order_irrelevant (k : Bytes) (l₁ l₂ : List (Bytes × Bytes)) (hp : l₁.Perm l₂)
    (hd : (l₁.map Prod.fst).Nodup) : lookup k l₁ = lookup k l₂ := by
  induction hp with
  | nil => rfl
  | cons x _ ih =>
    obtain ⟨k', v⟩ := x
    simp only [List.map_cons, List.nodup_cons] at hd
    simp only [lookup, ih hd.2]
  | swap x y l =>
    obtain ⟨k1, v1⟩ := x
    obtain ⟨k2, v2⟩ := y
    simp only [List.map_cons, List.nodup_cons, List.mem_cons, not_or] at hd
    simp only [lookup]
    by_cases h1 : k1 = k <;> by_cases h2 : k2 = k <;> simp [h1, h2]
    exact absurd (h2.trans h1.symm) (fun h => hd.1.1 h)
  | trans p1 _ ih1 ih2 =>
    have hd2 := (p1.map Prod.fst).nodup_iff.1 hd
    exact (ih1 hd).trans (ih2 hd2)

/-- non-vacuity: a two-entry map read in either order -/
example : lookup [2] [([1], [10]), ([2], [20])] = lookup [2] [([2], [20]), ([1], [10])] := by decide

/-- `n`-fold application of a step function -/
def iter {α : Type} (f : α → α) : Nat → α → α
  | 0, a => a
  | n + 1, a => iter f n (f a)

/-- Restore then continue equals the straight run, for any deterministic `step` working on the
    state a checkpoint denotes: if the checkpoint bytes decode back to the state that was saved,
    running `n` more steps from the restored state gives what the uninterrupted run gives.
    PARTIAL: `step` is abstract; that block processing is a function of the checkpointed state
    alone (no state outside the checkpoint) is not proved here. -/
theorem C23_restore_partial (ty : Ty) (step : Val → Val) (s : Val) (h : wf ty s = true) (n : Nat) :
    (decode ty (encode ty s)).map (fun p => iter step n p.1) = some (iter step n s) := by
  have := decode_encode ty s [] h
  simp only [List.append_nil] at this
  simp [decode, this]

/-! ## mempool checkpoint: the snapshot written to disk is NOT lossless (known finding) -/

open ElaVerif.CheckpointDriver in
/-- Full statement: the object `Snapshot()` returns — what the checkpoint manager serializes into the
    mempool checkpoint file — holds the transactions of the pool.  FALSE of the code: `Deserialize`
    hands the transactions to the pool (where they are duplicates) and never fills the new
    checkpoint's own list.  Witness: a pool with one transaction. -/
theorem C23_mempool_snapshot_lossless_false :
    ¬ ∀ live : PoolCkpt, (snapshot live).txnList = live.txnList := by
  intro h
  have := h ⟨1, ["tx"]⟩
  revert this; decide

open ElaVerif.CheckpointDriver in
/-- what holds instead: the snapshot keeps the height and an empty transaction list, and the pool
    itself is left unchanged by taking it -/
theorem C23_mempool_snapshot_partial (live : PoolCkpt) :
    (snapshot live).height = live.height ∧ (snapshot live).txnList = [] := by
  simp [snapshot, deserializeInto]

/-! ## wallet coin checkpoint -/

open ElaVerif.CheckpointDriver ElaVerif.WireSchemas in
/-- The coin schema selects the output layout by the coin's own version byte exactly as
    `Output.Deserialize(r, txVersion)` does: the old layout below `TxVersion09`, type byte and output
    payload from 9 on — for every value of the byte. -/
theorem C23_wallet_coin_version (v : Nat) (bs : Bytes) :
    (match decodeCases coinCases v bs with | some x => x | none => decodeA (output true) bs) =
      decodeA (output (decide (9 ≤ v))) bs := by
  by_cases h : 9 ≤ v
  · have h0 : ∀ k, k < 9 → (k = v) = False := fun k hk => by simp; omega
    simp [coinCases, decodeCases, h, h0]
  · have : v = 0 ∨ v = 1 ∨ v = 2 ∨ v = 3 ∨ v = 4 ∨ v = 5 ∨ v = 6 ∨ v = 7 ∨ v = 8 := by omega
    rcases this with h | h | h | h | h | h | h | h | h <;> subst h <;> simp [coinCases, decodeCases]

open ElaVerif.CheckpointDriver ElaVerif.WireSchemas in
/-- Tie of the hand-written coin layout to the source: at every version 0…10 the regenerated reader
    AND writer streams of `wallet.Coin` (guards evaluated at that version) are the tokens of
    `[version byte, output as of that version, height]`; all guard constants are below 10, so
    (`tokens_const`) the streams above 10 are those at 10. -/
theorem C23_gen_wallet_coin :
    (match findStream Gen.C23.walletParts "wallet.Coin" with
     | some s =>
       guardsBelow 10 s.de && guardsBelow 10 s.ser &&
       allVersions.all (fun v =>
         let want := erase (toks (.struct [.fixed 1, output (decide (9 ≤ v)), .fixed 4]))
         decide (erase (flat v (s.de.length + 1) s.de) = want) &&
         decide (erase (flat v (s.ser.length + 1) s.ser) = want))
     | none => false) = true := by decide +kernel

open ElaVerif.CheckpointDriver in
/-- The checkpoint's own stream is `height, 32-bit count, { OutPoint, <the wallet.Coin stream> }, owned
    coins` on both sides — the outer shape of `walletTy`. -/
theorem C23_gen_wallet_outer :
    (match findStream Gen.C23.streams "wallet.CoinsCheckPoint", findStream Gen.C23.walletParts "wallet.Coin" with
     | some s, some c =>
       decide (s.de = [.raw 4, .raw 4, .loop, .raw 32, .raw 2] ++ c.de ++ [.close, .dyn "ownedcoins"]) &&
       decide (s.ser = [.raw 4, .raw 4, .loop, .raw 32, .raw 2] ++ c.ser ++ [.close, .dyn "ownedcoins"])
     | _, _ => false) = true := by decide +kernel

open ElaVerif.CheckpointDriver in
/-- The owned-coins map: the reader's stream has a fully decodable derived schema (32-bit count of
    { owner string, OutPoint, prev OutPoint, next OutPoint }); the writer writes the same fields — its two
    `nil` branches (a nil link is written as the zero OutPoint) each write one OutPoint. -/
theorem C23_gen_wallet_owned :
    (match findStream Gen.C23.walletParts "wallet.OwnedCoins" with
     | some s =>
       !hasFail (ofToks s.de) &&
       decide (s.de = [.raw 4, .loop, .vb 16777216, .raw 32, .raw 2, .raw 32, .raw 2, .raw 32, .raw 2, .close]) &&
       decide (s.ser = [.raw 4, .loop, .vb 0, .raw 32, .raw 2,
                        .other "if cl.prev == nil", .raw 32, .raw 2, .raw 32, .raw 2,
                        .other "if cl.next == nil", .raw 32, .raw 2, .raw 32, .raw 2, .close])
     | none => false) = true := by decide +kernel

open ElaVerif.CheckpointDriver in
/-- the wallet checkpoint schema is allocation-bounded (nothing is pre-sized by a count read from the
    file), so the C02 allocation bound applies to it; its only rejecting layout is the unknown output type -/
theorem C23_wallet_schema : bounded walletTy = true ∧ hasFail ownedCoinsTy = false := by
  constructor <;> decide +kernel

open ElaVerif.CheckpointDriver in
/-- instance of the round trip for the wallet checkpoint -/
theorem C23_wallet_roundtrip (v : Val) (rest : Bytes) (h : wf walletTy v = true) :
    decode walletTy (encode walletTy v ++ rest) = some (v, rest) :=
  decode_encode walletTy v rest h

/-! ## restore-then-continue through the checkpoint manager (wallet coin checkpoint) -/

open ElaVerif.WalletCont in
/-- Restore then continue equals the straight run, for the model of the checkpoint manager's
    save / promote / restore protocol (`mstep`: skip blocks the checkpoint covers, save every 720 blocks,
    promote the previous save to the default file one period later; `restart`: a fresh checkpoint loads
    the default file) driving the wallet coin checkpoint (`applyBlock`): for every block sequence with
    increasing positive heights and every interruption point `k`, the process that is stopped after `k`
    blocks, restarted from whatever the data directory holds and fed the sequence again ends in the state
    of the process that was never stopped — and that state is all blocks applied in order.
    The model is tied to `core/checkpoint` + `wallet` by the `wcont` ops, which run the real Manager on
    real files. -/
theorem C23_wallet_restore_continue (bs : List Block) (k : Nat)
    (hs : bs.Pairwise (fun a b => a.h < b.h)) (hpos : ∀ b ∈ bs, 0 < b.h) :
    (interrupted bs k).live = (run .fresh bs).live ∧
    (run .fresh bs).live = bs.foldl applyBlock .init :=
  ⟨restore_then_continue bs k hs hpos, straight_live bs hs hpos⟩

open ElaVerif.WalletCont in
/-- every `wcont` op of the stream is an instance (blocks `1 … N`) -/
theorem C23_wallet_restore_continue_ops (n k : Nat) (es : List (Nat × WTx)) :
    (interrupted (blocksOf n es) k).live = (run .fresh (blocksOf n es)).live :=
  wcont_ops_agree n k es

open ElaVerif.WalletCont in
/-- non-vacuity: a coin created at height 700; interrupted after the block at height 1500 the new process
    starts from the default file holding height 720 (promoted at 1440) and still ends with the coin -/
theorem C23_wallet_restore_continue_witness :
    let tx : WTx := ⟨[1], [], [some [0x1f, 1]]⟩
    let bs : List Block := [⟨700, [tx]⟩, ⟨720, []⟩, ⟨1440, []⟩, ⟨1500, []⟩, ⟨2160, []⟩]
    ((run .fresh (bs.take 4)).dflt.map (·.1) = some 720) ∧
    (interrupted bs 4).live.coins = [⟨([1], 0), [0x1f, 1]⟩] := by decide +kernel

/-! ## regenerated facts -/

/-- no checkpoint reader sizes a slice or a map by a count read from the file (regenerated list of the
    `make` calls whose size argument is not a literal: empty after the `fix:` commits) -/
theorem C23_gen_sized_makes : Gen.C23.sizedMakes = [] := by decide

/-- Writer and reader mirror each other, token for token, for every checkpoint type — each stream
    is the full flattening of `Serialize` / `Deserialize` with every helper and every nested type's
    method inlined (580 tokens for the DPoS `StateKeyFrame`). -/
theorem C23_gen_mirror : Gen.C23.streams.all mirrors = true := by decide +kernel

theorem C23_gen_stream_names :
    Gen.C23.streams.map (·.name) =
      ["cr.Checkpoint", "cr.KeyFrame", "cr.ProposalKeyFrame", "cr.StateKeyFrame", "dpos.CheckPoint",
       "dpos.RewardData", "dpos.StateKeyFrame", "mempool.txPoolCheckpoint", "wallet.CoinsCheckPoint"] := by
  decide

/-- the six types whose streams contain no dynamic dispatch have a fully decodable derived schema -/
theorem C23_gen_derived :
    (Gen.C23.streams.filter (fun s => !hasFail (ofToks s.de))).map (·.name) =
      ["cr.Checkpoint", "cr.KeyFrame", "cr.ProposalKeyFrame", "cr.StateKeyFrame", "dpos.RewardData",
       "dpos.StateKeyFrame"] := by decide +kernel

/-- the DPoS `CheckPoint` is decodable except inside its `ArbiterMember` lists / maps (an interface
    dispatched on a type byte), the mempool checkpoint except inside its transaction map; the wallet
    checkpoint's own stream has the owned-coins object outside any list — it is decoded with the
    hand-tied `walletTy` instead (wallet section above) -/
theorem C23_gen_partial :
    (Gen.C23.streams.filter (fun s => hasFail (ofToks s.de) && !hasFailOutsideList (ofToks s.de))).map (·.name) =
      ["dpos.CheckPoint", "mempool.txPoolCheckpoint"] := by decide +kernel

def without (xs ex : List String) : List String := xs.filter (fun x => !ex.contains x)

/-- fields that are deliberately not saved: back pointers, the lock, the mempool's live structures
    (`Deserialize` feeds the transactions back into the pool instead of `txnList`) -/
def notSaved : List (String × List String) :=
  [("dpos.CheckPoint", ["arbitrators"]), ("cr.Checkpoint", ["committee"]),
   ("mempool.txPoolCheckpoint", ["initConflictManager", "txPool", "txnList"]),
   ("wallet.CoinsCheckPoint", [""])]

def excluded (n : String) : List String :=
  match notSaved.find? (·.1 = n) with | some p => p.2 | none => []

/-- Field coverage: every field of every checkpoint struct (and of the structs they nest) is
    mentioned by `Serialize` and by `Deserialize`, except the listed non-state fields. -/
theorem C23_gen_fields :
    Gen.C23.fieldTable.all (fun (n, fs, ser, de) =>
      decide (without fs (excluded n) = without ser (excluded n)) &&
      decide (without fs (excluded n) = without de (excluded n))) = true := by decide

theorem C23_gen_field_counts :
    Gen.C23.fieldTable.map (fun (n, fs, _, _) => (n, fs.length)) =
      [("dpos.CheckPoint", 23), ("dpos.StateKeyFrame", 42), ("dpos.RewardData", 2), ("cr.Checkpoint", 5),
       ("cr.KeyFrame", 22), ("cr.StateKeyFrame", 14), ("cr.ProposalKeyFrame", 13), ("cr.CRMember", 12),
       ("cr.ProposalState", 16), ("cr.DepositInfo", 3), ("dpos.Producer", 23),
       ("mempool.txPoolCheckpoint", 5), ("wallet.CoinsCheckPoint", 4)] := by decide

/-- The restore layer of the DPoS checkpoint loses nothing (regenerated): `Arbiters.recoverFromCheckPoints`
    (run by `OnInit` after `Manager.Restore` has deserialized the file) reads, and `initFromArbitrators` (run by
    `Snapshot` / `NewCheckpoint`) writes, every field of `CheckPoint` except the checkpoint's own height, the
    back pointer, and `CurrentOnDutyCRCArbitersMap` (a field that is serialized but never set or used: the
    arbiters have no counterpart).  The `ckpt dpos.CheckPoint` ops run both directions on the real code. -/
theorem C23_gen_restore_layer :
    without Gen.C23.restoreLayer.1 ["Height", "arbitrators", "CurrentOnDutyCRCArbitersMap"] = Gen.C23.restoreLayer.2.1 ∧
    Gen.C23.restoreLayer.2.1 = Gen.C23.restoreLayer.2.2 := by decide

open ElaVerif.WalletCont in
/-- The file a restart loads is the state AT its label: when a process is stopped after any `k` blocks, the
    default checkpoint file labelled `h` holds the wallet state after the blocks up to height `h` — the
    manager hands the asynchronous writer a snapshot taken at the save height, never the live object that
    later blocks keep changing.  (The `wcont` ops check this on the real Manager with a registered checkpoint
    that lets the next block in whenever the writer is given the live object.) -/
theorem C23_wallet_default_file_state (bs : List Block) (k : Nat)
    (hs : bs.Pairwise (fun a b => a.h < b.h)) (hpos : ∀ b ∈ bs, 0 < b.h)
    (h : Nat) (s : WSt) (hd : (run .fresh (bs.take k)).dflt = some (h, s)) :
    s = (bs.filter (fun b => decide (b.h ≤ h))).foldl applyBlock .init :=
  default_file_state bs k hs hpos h s hd

end ElaVerif.C23
