import ElaVerif.Model.BlockStore
import ElaVerif.Model.Ffldb
/-
  Model of a crash during an ffldb commit (database/ffldb/db.go
  writePendingAndCommit, blockio.go writeBlock/writeData, dbcache.go
  commitTx/flush/commitTreaps, reconcile.go) as a small-step machine.

  * durable state = the block files (`BlockStore.Files`) and leveldb (`Ffldb.DB.ldb`);
    volatile state = the write-back cache (`ckeys`/`cremoves`), the in-memory write cursor and
    the transaction being committed;
  * a commit is a sequence of micro steps — per block: optional rollover, then the four
    `writeData` calls (network, block length, block, checksum), each of which may be torn;
    then the write-cursor row; then `commitTx` (merge into the cache, or flush + write-through,
    each leveldb batch being one atomic step — trusted);
  * the crash points are the ones compiled into the code with build tag `verif`; a crash
    keeps the files and leveldb and loses everything volatile; `reopen` = `openDB` + `reconcileDB`.
  Core Lean only.
-/
namespace ElaVerif.Crash
open ElaVerif.BlockStore (Files Loc writeFile fileAt scan truncateTo record le32 be32 rdLe32 u32 readAt rdBe32)
open ElaVerif.Ffldb (DB Tx bucketizedKey metaID blockIdxID writeLocKey)
open ElaVerif.OrdMap (find)

abbrev Bytes := List UInt8

structure Arm where
  point : String
  skip : Nat
  torn : Nat
  deriving Repr, Inhabited

/-- the flat-file side: by construction nothing here can touch leveldb -/
structure FS where
  net : Nat := 0
  max : Nat := 67108864
  files : Files := []
  curFile : Nat := 0
  curOff : Nat := 0
  arm : Option Arm := none
  deriving Repr, Inhabited

structure St where
  fs : FS := {}
  db : DB := {}
  deriving Repr, Inhabited

def serLoc (l : Loc) : Bytes := le32 l.file ++ le32 l.off ++ le32 l.len
def deserLoc (b : Bytes) : Loc := ⟨rdLe32 b, rdLe32 (b.drop 4), rdLe32 (b.drop 8)⟩
def writeRow (crc : Bytes → Nat) (f o : Nat) : Bytes :=
  let b := le32 f ++ le32 o
  b ++ le32 (crc b)

/-- outcome of reaching a crash point: `true` = the process dies here -/
def hit (s : FS) (name : String) : FS × Bool :=
  match s.arm with
  | none => (s, false)
  | some a =>
    if a.point != name then (s, false)
    else if a.skip > 0 then ({ s with arm := some { a with skip := a.skip - 1 } }, false)
    else ({ s with arm := none }, true)

/-- `writeData(data, field)`: crash point before, possibly torn write, crash point after -/
def writeData (s : FS) (data : Bytes) (field : String) : FS × Bool :=
  let (s, dead) := hit s ("writeData.before." ++ field)
  if dead then (s, true) else
  let (s, data) :=
    match s.arm with
    | some a =>
      if a.point == "writeData.torn." ++ field then
        if a.skip > 0 then ({ s with arm := some { a with skip := a.skip - 1 } }, data)
        else ({ s with arm := some { point := "writeData.after." ++ field, skip := 0, torn := a.torn } }, data.take a.torn)
      else (s, data)
    | none => (s, data)
  let s := { s with files := writeFile s.files s.curFile s.curOff data, curOff := u32 (s.curOff + data.length) }
  hit s ("writeData.after." ++ field)

/-- `writeBlock` in micro steps; returns the location when it completes -/
def writeBlock (crc : Bytes → Nat) (s : FS) (d : Bytes) : FS × Option Loc :=
  let fullLen := u32 (u32 d.length + 12)
  let final := u32 (s.curOff + fullLen)
  let (s, dead) :=
    if final < s.curOff ∨ final > s.max then
      hit { s with curFile := u32 (s.curFile + 1), curOff := 0 } "writeBlock.rollover"
    else (s, false)
  if dead then (s, none) else
  -- `openWriteFile` (O_CREATE) when the current file is not open: the file exists from here on
  let s := match fileAt s.files s.curFile with
    | some _ => s
    | none => { s with files := ElaVerif.BlockStore.setFile s.files s.curFile (some []) }
  let orig := s.curOff
  let body := le32 s.net ++ le32 (u32 d.length) ++ d
  let (s, dead) := writeData s (le32 s.net) "network"
  if dead then (s, none) else
  let (s, dead) := writeData s (le32 (u32 d.length)) "block length"
  if dead then (s, none) else
  let (s, dead) := writeData s d "block"
  if dead then (s, none) else
  let (s, dead) := writeData s (be32 (crc body)) "checksum"
  if dead then (s, none) else
  (s, some ⟨s.curFile, orig, fullLen⟩)

/-- `commitTreaps` = one leveldb batch, with the crash point between its puts and deletes
    (a crash there discards the batch: leveldb atomicity, trusted) -/
def ldbBatch (s : St) (puts removes : ElaVerif.OrdMap.Map) : St × Bool :=
  let (fs, dead) := hit s.fs "commitTreaps.mid"
  if dead then ({ s with fs := fs }, true) else
  ({ fs := fs, db := { s.db with ldb := ElaVerif.Ffldb.applyTo s.db.ldb puts removes } }, false)

/-- `dbCache.flush` -/
def flush (s : St) : St × Bool :=
  let (fs, dead) := hit s.fs "flush.afterSync"
  let s := { s with fs := fs }
  if dead then (s, true) else
  if s.db.ckeys.isEmpty && s.db.cremoves.isEmpty then (s, false) else
  let (s, dead) := ldbBatch s s.db.ckeys s.db.cremoves
  if dead then (s, true) else
  let (fs, dead) := hit s.fs "flush.afterCommit"
  let s := { s with fs := fs }
  if dead then (s, true) else
  ({ s with db := { s.db with ckeys := [], cremoves := [] } }, false)

/-- `dbCache.commitTx` -/
def commitTx (s : St) (t : Tx) : St × Bool :=
  if s.db.needsFlush t then
    let (s, dead) := flush s
    if dead then (s, true) else
    let (fs, dead) := hit s.fs "commitTx.afterFlush"
    let s := { s with fs := fs }
    if dead then (s, true) else
    let (s, dead) := ldbBatch s t.pkeys t.premoves
    if dead then (s, true) else
    let (fs, dead) := hit s.fs "commitTx.afterWrite"
    ({ s with fs := fs }, dead)
  else
    ({ s with db := s.db.commitTx t }, false)

def hash32 (h : Bytes) : Bytes := (h ++ List.replicate 32 0).take 32

/-- the loop over the pending blocks -/
def writeBlocks (crc : Bytes → Nat) : FS → Tx → List (Bytes × Bytes) → FS × Tx × Bool
  | s, t, [] => (s, t, false)
  | s, t, (h, d) :: rest =>
    match writeBlock crc s d with
    | (s, none) => (s, t, true)
    | (s, some loc) => writeBlocks crc s (t.putKey (bucketizedKey blockIdxID (hash32 h)) (serLoc loc)) rest

/-- the transaction as `writePendingAndCommit` hands it to the cache -/
def finalTx (crc : Bytes → Nat) (t : Tx) (fs : FS) : Tx :=
  t.putKey (bucketizedKey metaID writeLocKey) (writeRow crc fs.curFile fs.curOff)

/-- the user's metadata operations of the transaction: `some v` = Put, `none` = Delete -/
def applyKvs (t : Tx) (kvs : List (Bytes × Option Bytes)) : Tx :=
  kvs.foldl (fun t e => match e.2 with
    | some v => t.putKey (bucketizedKey metaID e.1) v
    | none => t.deleteKey (bucketizedKey metaID e.1)) t

/-- a whole transaction: metadata puts, block stores, `Commit`.  `true` = died on the way. -/
def commit (crc : Bytes → Nat) (s : St) (blocks : List (Bytes × Bytes)) (kvs : List (Bytes × Option Bytes)) : St × Bool :=
  let t : Tx := applyKvs { writable := true, snap := s.db.snapshot } kvs
  let (fs, t, dead) := writeBlocks crc s.fs t blocks
  if dead then ({ s with fs := fs }, true) else
  let (fs, dead) := hit fs "commit.afterBlocks"
  if dead then ({ s with fs := fs }, true) else
  let t := finalTx crc t fs
  let (fs, dead) := hit fs "commit.beforeCache"
  if dead then ({ s with fs := fs }, true) else
  commitTx { s with fs := fs } t

/-- the process dies: files and leveldb stay, everything volatile is gone -/
def crash (s : St) : St :=
  { fs := { s.fs with arm := none }, db := { s.db with ckeys := [], cremoves := [] } }

/-- the delete loop of `handleRollback`: files `wf+n`, …, `wf+1` are removed, newest first,
    with a crash point after each -/
def rollbackDelete (wf : Nat) : Nat → FS → FS × Bool
  | 0, fs => (fs, false)
  | n + 1, fs =>
    let fs := { fs with files := ElaVerif.BlockStore.setFile fs.files (wf + n + 1) none }
    let (fs, dead) := hit fs "rollback.afterDelete"
    if dead then (fs, true) else rollbackDelete wf n fs

/-- `handleRollback(wf, wo)` as `reconcileDB` runs it when the files are ahead of the persisted
    cursor (`sf` = last file found by the scan), in micro steps with its crash points:
    delete the newer files, open-or-create file `wf`, truncate it to `wo`. -/
def rollback (fs : FS) (wf wo sf : Nat) : FS × Bool :=
  let (fs, dead) := rollbackDelete wf (sf - wf) fs
  if dead then (fs, true) else
  let fs := match fileAt fs.files wf with
    | some _ => fs
    | none => { fs with files := ElaVerif.BlockStore.setFile fs.files wf (some []) }
  let (fs, dead) := hit fs "rollback.beforeTruncate"
  if dead then (fs, true) else
  let f := (fileAt fs.files wf).getD []
  let fs := { fs with files := ElaVerif.BlockStore.setFile fs.files wf (some ((f ++ List.replicate (wo - f.length) 0).take wo)),
                      curFile := wf, curOff := wo }
  hit fs "rollback.afterTruncate"

/-- `openDB` + `reconcileDB`: `none` = ErrCorruption; the flag says the process died at a crash
    point inside the reconciliation (the armed point travels in `s.fs.arm`) -/
def reopenArmed (s : St) : Option (St × Bool) :=
  let s := { s with db := s.db.flush }       -- no-op after a crash; the clean-close flush otherwise
  let row := (find (bucketizedKey metaID writeLocKey) s.db.ldb).getD []
  let (wf, wo) := (rdLe32 row, rdLe32 (row.drop 4))
  let (sf, so) := scan s.fs.files 0 (0, 0)
  if sf > wf ∨ (sf = wf ∧ so > wo) then
    let (fs, dead) := rollback s.fs wf wo sf
    some ({ s with fs := fs }, dead)
  else if sf < wf ∨ (sf = wf ∧ so < wo) then none
  else some ({ s with fs := { s.fs with curFile := sf, curOff := so } }, false)

/-- reopening with no crash point armed -/
def reopen (s : St) : Option St :=
  (reopenArmed { s with fs := { s.fs with arm := none } }).map (·.1)

/-- `FetchBlock` through the block index in the metadata -/
def fetch (crc : Bytes → Nat) (s : St) (h : Bytes) : Option Bytes :=
  match find (bucketizedKey blockIdxID (hash32 h)) s.db.view with
  | none => none
  | some row =>
    let loc := deserLoc row
    match fileAt s.fs.files loc.file with
    | none => none
    | some f =>
      match readAt f loc.off loc.len with
      | none => none
      | some data =>
        let n := data.length
        if rdBe32 (data.drop (n - 4)) ≠ crc (data.take (n - 4)) then none
        else if rdLe32 data ≠ s.fs.net then none
        else some ((data.take (n - 4)).drop 8)

def getMeta (s : St) (k : Bytes) : Option Bytes := find (bucketizedKey metaID k) s.db.view

end ElaVerif.Crash
