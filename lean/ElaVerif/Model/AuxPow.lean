import ElaVerif.Model.Merkle
/-
  `auxpow.AuxPow.Check` and `auxpow.GetExpectedIndex` (auxpow/auxpow.go).  Core Lean only.

  The Go code searches the merged-mining marker and the aux root in the **hex string** of the
  parent coinbase script, so the model works on nibble lists: every index below is a nibble
  index.  Hashes are byte lists; the node hash `H` is a parameter.
-/
namespace ElaVerif.AuxPow
open ElaVerif.Merkle

abbrev Bytes := List UInt8

/-- `hex.EncodeToString` as a list of nibble values. -/
def toNibbles : Bytes → List Nat
  | [] => []
  | b :: bs => b.toNat / 16 :: b.toNat % 16 :: toNibbles bs

/-- hex string of `pchMergedMiningHeader = {0xfa, 0xbe, 'm', 'm'}`: "fabe6d6d". -/
def marker : List Nat := [0xf, 0xa, 0xb, 0xe, 0x6, 0xd, 0x6, 0xd]

/-- `strings.Index(hay, needle)`; `none` = -1. -/
def indexOf (needle : List Nat) : List Nat → Option Nat
  | [] => if needle.isEmpty then some 0 else none
  | b :: t => if needle.isPrefixOf (b :: t) then some 0 else (indexOf needle t).map (· + 1)

/-- `binary.LittleEndian.Uint32(script[off:off+4])`; `none` = slice bounds panic. -/
def le32 (script : Bytes) (off : Nat) : Option Nat :=
  match script.drop off with
  | a :: b :: c :: d :: _ => some (a.toNat + 256 * b.toNat + 65536 * c.toNat + 16777216 * d.toNat)
  | _ => none

/-- `GetExpectedIndex(nonce, chainID, h)` on `uint32`; `-1` for a height outside `0..31`
    (`1 << uint32(h)` would be the `uint32` zero and the modulo would divide by zero). -/
def expectedIndex (nonce : Nat) (chainID : Int) (h : Int) : Int :=
  let r := (nonce * 1103515245 + 12345) % 2 ^ 32
  let r := (r + (chainID % 2 ^ 32).toNat) % 2 ^ 32
  let r := (r * 1103515245 + 12345) % 2 ^ 32
  if h < 0 ∨ h ≥ 32 then -1 else ((r % 2 ^ h.toNat : Nat) : Int)

/-- the fields of `AuxPow` that `Check` reads. -/
structure AP where
  cbHash : Bytes            -- ParCoinbaseTx.Hash()
  parBranch : List Bytes    -- ParCoinBaseMerkle
  parIdx : Int              -- ParMerkleIndex
  parRoot : Bytes           -- ParBlockHeader.MerkleRoot
  auxBranch : List Bytes    -- AuxMerkleBranch
  auxIdx : Int              -- AuxMerkleIndex
  script : Option Bytes     -- ParCoinbaseTx.TxIn[0].SignatureScript; `none` = no TxIn (index panic)

inductive Verdict where
  | accept | reject | panic
  deriving DecidableEq, Repr

def zeroHash : Bytes := List.replicate 32 0

/-- `AuxPow.Check(hashAuxBlock, chainID)`.  `.panic` stands for a slice-bounds panic of the two
    `binary.LittleEndian.Uint32(script[a:b])` reads; `C10_no_panic` proves it unreachable. -/
def check (H : Bytes → Bytes → Bytes) (ap : AP) (hash : Bytes) (chainID : Int) : Verdict :=
  if ap.parIdx < 0 ∨ ap.auxIdx < 0 then .reject else
  if branchRoot H zeroHash ap.cbHash ap.parBranch ap.parIdx ≠ ap.parRoot then .reject else
  let auxRoot := branchRoot H zeroHash hash.reverse ap.auxBranch ap.auxIdx
  match ap.script with
  | none => .reject                      -- len(ap.ParCoinbaseTx.TxIn) == 0
  | some script =>
    let s := toNibbles script
    let rootStr := toNibbles auxRoot.reverse
    match indexOf marker s, indexOf rootStr s with
    | some hi, some ri =>
      if (indexOf marker (s.drop (hi + 2))).isSome then .reject
      else if hi + marker.length ≠ ri then .reject
      else
        let ri := ri + rootStr.length
        if (s.length : Int) - ri < 8 then .reject
        else match le32 script (ri / 2) with
          | none => .panic
          | some size =>
            let h := ap.auxBranch.length
            if size ≠ 2 ^ h % 2 ^ 32 then .reject
            else if script.length < ri / 2 + 8 then .reject
            else match le32 script (ri / 2 + 4) with
              | none => .panic
              | some nonce =>
                if ap.auxIdx ≠ expectedIndex nonce chainID h then .reject else .accept
    | _, _ => .reject

end ElaVerif.AuxPow
