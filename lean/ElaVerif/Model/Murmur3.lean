/-
  MurmurHash3 (x86_32) on byte lists, core Lean only, executable.
  Mirrors /repo/elanet/bloom/murmurhash3.go line by line (uint32 arithmetic wraps).
  It is here only so that the C39 driver produces the same filter bytes as the Go
  code; it is validated by comparison on every run (op `murmur`), not proved equal
  to a specification, and no C39 theorem depends on its internals: the theorems
  take the hash as a parameter `murmur : UInt32 → List UInt8 → UInt32`.
-/
namespace ElaVerif.Murmur3

def c1 : UInt32 := 0xcc9e2d51
def c2 : UInt32 := 0x1b873593
def nConst : UInt32 := 0xe6546b64

@[inline] def rotl (x : UInt32) (r : UInt32) : UInt32 := (x <<< r) ||| (x >>> (32 - r))

/-- `k *= c1; k = rotl(k, 15); k *= c2` -/
@[inline] def mixK (k : UInt32) : UInt32 := rotl (k * c1) 15 * c2

/-- `binary.LittleEndian.Uint32` -/
@[inline] def le32 (a b c d : UInt8) : UInt32 :=
  a.toUInt32 ||| (b.toUInt32 <<< 8) ||| (c.toUInt32 <<< 16) ||| (d.toUInt32 <<< 24)

/-- the block loop followed by the tail `switch dataLen & 3` -/
def body : List UInt8 → UInt32 → UInt32
  | a :: b :: c :: d :: rest, h =>
      let h := h ^^^ mixK (le32 a b c d)
      let h := rotl h 13
      body rest (h * 5 + nConst)
  | [a, b, c], h => h ^^^ mixK ((c.toUInt32 <<< 16) ^^^ (b.toUInt32 <<< 8) ^^^ a.toUInt32)
  | [a, b], h => h ^^^ mixK ((b.toUInt32 <<< 8) ^^^ a.toUInt32)
  | [a], h => h ^^^ mixK a.toUInt32
  | [], h => h

def fmix (h : UInt32) : UInt32 :=
  let h := h ^^^ (h >>> 16)
  let h := h * 0x85ebca6b
  let h := h ^^^ (h >>> 13)
  let h := h * 0xc2b2ae35
  h ^^^ (h >>> 16)

/-- `MurmurHash3(seed, data)`; `dataLen := uint32(len(data))`. -/
def murmur3 (seed : UInt32) (data : List UInt8) : UInt32 :=
  fmix (body data seed ^^^ UInt32.ofNat data.length)

end ElaVerif.Murmur3
