/-
  Model of dpos/manager/view.go: calculateOffsetTimeV0, calculateOffsetTimeV1,
  ChangeView, ChangeViewV1, TryChangeView, TryChangeViewV1.

  Times and durations are `Int` nanoseconds (`time.Duration` is an `int64`; the
  harness keeps all times within a few years so `Time.Sub` never saturates).
  View offsets and arbiter counts are `uint32`s, kept as `Nat`s below 2^32 with
  the wrap-around written out.  Core Lean only.
-/
namespace ElaVerif.ViewSched

/-- `time.Second` in nanoseconds. -/
def sec : Int := 1000000000

/-- result of an offset computation. `panic` = Go run-time panic (division by
    zero); `nofuel` = the model ran out of fuel (proved unreachable, see
    `C26_V1_total`; the Go loop has no bound). -/
inductive Out
  | ok (offset : Nat) (rem : Int)
  | panic
  | nofuel
  deriving DecidableEq, Repr

/-! ### V0 -/

/-- `uint32(x)` for an `int64` `x`. -/
def toU32 (x : Int) : Nat := (x % 2 ^ 32).toNat

/-- `calculateOffsetTimeV0`: Go's `/` and `%` on `int64` truncate towards zero;
    a zero `signTolerance` panics. -/
def offsetV0 (tol d : Int) : Out :=
  if tol = 0 then .panic else .ok (toU32 (Int.tdiv d tol)) (Int.tmod d tol)

/-! ### V1 -/

/-- The `for duration >= offsetSeconds` loop, generic in the successor on view
    numbers and in the length `L` of every view entered by the loop.
    `len` is the length of the view currently being charged. -/
def walkO (nxt : Nat → Nat) (L : Nat → Int) : Nat → Nat → Int → Int → Option (Nat × Int)
  | 0, _, _, _ => none
  | f + 1, cur, d, len =>
    if len ≤ d then walkO nxt L f (nxt cur) (d - len) (L (nxt cur)) else some (cur, d)

/-- `uint32(math.Pow(20, k))` on amd64: exact below 2^63 and then cut to the low
    32 bits; from 20^15 on (> 2^63, including +Inf) the conversion yields
    0x8000000000000000 whose low 32 bits are zero. -/
def pow20u32 (k : Nat) : Nat := if k < 15 then 20 ^ k % 2 ^ 32 else 0

/-- seconds charged for the view the evaluation *starts* in (`uint32` arithmetic). -/
def lenFirst (n cur : Nat) : Nat :=
  if cur < n then 5 else (5 + (1 + cur - n) * 3 * pow20u32 (cur / n)) % 2 ^ 32

/-- seconds charged for every view the loop *enters*. -/
def lenLoop (n cur : Nat) : Nat :=
  if cur < n then 5 else (5 + (cur - n) * 3 * pow20u32 (cur / n)) % 2 ^ 32

/-- `currentOffset++` on a `uint32`. -/
def succ32 (c : Nat) : Nat := (c + 1) % 2 ^ 32

/-- every view lasts at least one second (see `lenLoop_pos`), so this many
    iterations always suffice. -/
def fuelFor (d : Int) : Nat := (d / sec).toNat + 2

/-- `calculateOffsetTimeV1 currentViewOffset (now - startTime) arbitersCount`. -/
def offsetV1 (n cur : Nat) (d : Int) : Out :=
  if n = 0 then .panic   -- `currentOffset / arbitersCount` (0 < 0 is false, so the else branch runs)
  else match walkO succ32 (fun c => (lenLoop n c : Int) * sec) (fuelFor d) cur d ((lenFirst n cur : Int) * sec) with
    | some (o, r) => .ok o r
    | none => .nofuel

/-! ### the view state machine -/

/-- consensus view offset, view start time, the on-duty flag of the observing arbiter. -/
structure VState where
  off : Nat
  start : Int
  duty : Bool
  deriving DecidableEq, Repr

/-- `GetNextOnDutyArbitrator(offset) == publicKey` for arbiter number `me` among `n`
    arbiters taking turns by `offset mod n` (this is how the harness numbers the arbiters). -/
def dutyOf (n me off : Nat) : Bool := n ≠ 0 && off % n == me

/-- `view.ChangeView` (pre-`ChangeViewV1Height`). `none` = panic. -/
def changeViewV0 (tol : Int) (n me : Nat) (s : VState) (now : Int) : Option VState :=
  match offsetV0 tol (now - s.start) with
  | .ok o r =>
    let off' := (s.off + o) % 2 ^ 32
    some ⟨off', now - r, if o > 0 then dutyOf n me off' else s.duty⟩
  | _ => none

/-- `view.ChangeViewV1`. -/
def changeViewV1 (n me : Nat) (s : VState) (now : Int) : Option VState :=
  match offsetV1 n s.off (now - s.start) with
  | .ok o r =>
    if o = s.off then some s
    else some ⟨o, now - r, if o > 0 then dutyOf n me o else s.duty⟩
  | _ => none

/-- `view.TryChangeView`: only `if now.After(viewStartTime.Add(signTolerance))`. -/
def tryChangeViewV0 (tol : Int) (n me : Nat) (s : VState) (now : Int) : Option VState :=
  if now > s.start + tol then changeViewV0 tol n me s now else some s

/-- `view.TryChangeViewV1`. -/
def tryChangeViewV1 (tol : Int) (n me : Nat) (s : VState) (now : Int) : Option VState :=
  if now > s.start + tol then changeViewV1 n me s now else some s

/-! ### the layer above: `Consensus` (dpos/manager/consensus.go) picks the schedule by height -/

/-- `Consensus.ChangeView`: V0 below `ChangeViewV1Height`, V1 from it on. -/
def consChangeView (forkH height : Nat) (tol : Int) (n me : Nat) (s : VState) (now : Int) : Option VState :=
  if height < forkH then changeViewV0 tol n me s now else changeViewV1 n me s now

/-- `Consensus.TryChangeView`: nothing unless the consensus is running, then the `Try*` variant of
    the schedule selected by the same height test. -/
def consTryChangeView (forkH height : Nat) (running : Bool) (tol : Int) (n me : Nat) (s : VState) (now : Int) :
    Option VState :=
  if running then
    if height < forkH then tryChangeViewV0 tol n me s now else tryChangeViewV1 tol n me s now
  else some s

/-- `maxViewOffset` of dpos/manager/dposmanager.go. -/
def maxViewOffset : Nat := 100

/-- `DPOSManager.OnChangeView` (the view timer): `Consensus.TryChangeView`, and — before
    `ChangeViewV1Height` only — a `ResetView` broadcast when the offset has reached `maxViewOffset`.
    Returns the new state and whether a `ResetView` message is broadcast. -/
def mgrOnChangeView (forkH height : Nat) (running : Bool) (tol : Int) (n me : Nat) (s : VState) (now : Int) :
    Option (VState × Bool) :=
  match consTryChangeView forkH height running tol n me s now with
  | some s' => some (s', decide (height < forkH) && decide (maxViewOffset ≤ s'.off))
  | none => none

/-- `DPOSManager.OnResponseResetViewReceived` forwards the message to the dispatcher only before
    `ChangeViewV1Height` and only on a current arbiter (arbiters are the keys `0..n-1`). -/
def mgrForwardsResetView (forkH height n me : Nat) : Bool := decide (height < forkH) && decide (me < n)

/-- a polling schedule: evaluate at each of the given times in turn. -/
def pollAll (step : VState → Int → Option VState) : VState → List Int → Option VState
  | s, [] => some s
  | s, t :: ts => match step s t with
    | some s' => pollAll step s' ts
    | none => none

end ElaVerif.ViewSched
