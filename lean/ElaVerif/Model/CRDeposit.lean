/-
  C28, CR side — account machine mirroring the deposit bookkeeping of CR candidates in
  cr/state/state.go (`registerCR`, `processDeposit`, `unregisterCR`, `returnDeposit`) and
  committee.go (`updateVotingCandidatesState`, `updateCandidatesDepositCoin`), and the context
  checks of UnregisterCR / ReturnCRDepositCoin.  Same two-phase block processing as the producer
  side (decisions on the pre-block account `a0`, queued updates in order).  Core Lean only.
-/
import ElaVerif.Model.Deposit
namespace ElaVerif.CRDeposit
open ElaVerif.Deposit (AMap get upd mapKV Params activateDuration)

inductive CState | pending | active | canceled | returned
  deriving DecidableEq, Repr

structure CRAcct where
  total   : Int      -- DepositInfo.TotalAmount
  deposit : Int      -- DepositInfo.DepositAmount
  penalty : Int      -- DepositInfo.Penalty
  st      : CState   -- Candidate.State
  regH    : Nat
  cancelH : Nat
  votes   : Int := 0      -- Candidate.Votes
  gone    : Bool := false -- the candidate record was moved out of State.Candidates when the voting period ended
  deriving DecidableEq, Repr

def CRAcct.available (a : CRAcct) : Int := a.total - a.deposit - a.penalty

inductive CRTx
  | reg (o : Nat) (amount : Int)                  -- RegisterCR (environment)
  | dep (o : Nat) (v : Int)                       -- output to the candidate's deposit address
  | cancel (o : Nat)                              -- UnregisterCR
  | ret (o : Nat) (inp tinp change out : Int)     -- ReturnCRDepositCoin
  | vote (o : Nat) (v : Int)                      -- CRC vote output naming the candidate (environment)
  deriving DecidableEq, Repr

def check (s0 : AMap CRAcct) : CRTx → Option String
  | .reg _ _ => none
  | .dep _ _ => none
  | .vote _ _ => none
  | .cancel o => match get o s0 with
    | none => some "nocr"
    | some a => if a.gone then some "nocr" else if a.st ≠ .pending ∧ a.st ≠ .active then some "state" else none
  | .ret o inp _ change out => match get o s0 with
    | none => some "nocr"
    | some a => if inp - change > a.available ∨ out ≥ a.available then some "overspend" else none

def step (P : Params) (h : Nat) (a0 : CRAcct) : CRTx → CRAcct → CRAcct
  | .dep _ v, a => { a with total := a.total + v }
  | .cancel _, a => { a with st := .canceled, cancelH := h }
  | .vote _ v, a => if a0.gone then a else { a with votes := a.votes + v }
  | .ret _ _ tinp change _, a =>
    { a with total := a.total - tinp + change,
             st := if ¬ a0.gone ∧ a0.st = .canceled ∧ h - a0.cancelH > P.lockup ∧
                      a0.total - tinp + change - a0.penalty - a0.deposit ≤ P.minFee then .returned else a.st }
  | _, a => a

def applyTx (P : Params) (h : Nat) (s0 s : AMap CRAcct) : CRTx → AMap CRAcct
  | .reg o amount => match get o s with
    | some a =>
      -- registering again after the record left the candidate map: DepositInfo is kept, a new lock is added
      if a.gone then upd o (fun a => { a with total := a.total + amount, deposit := a.deposit + P.minDeposit,
                                              st := .pending, regH := h, cancelH := 0, votes := 0, gone := false }) s
      else s
    | none => (o, { total := amount, deposit := P.minDeposit, penalty := 0, st := .pending, regH := h, cancelH := 0 }) :: s
  | tx@(.dep o _) | tx@(.cancel o) | tx@(.ret o _ _ _ _) | tx@(.vote o _) => match get o s0 with
    | none => s
    | some a0 => upd o (step P h a0 tx) s

def endAcct (P : Params) (h : Nat) (a0 a : CRAcct) : CRAcct :=
  let a1 := if ¬ a0.gone ∧ a0.st = .pending ∧ h - a0.regH + 1 ≥ activateDuration then { a with st := .active } else a
  if ¬ a0.gone ∧ a0.st = .canceled ∧ h - a0.cancelH = P.lockup then { a1 with deposit := a1.deposit - P.minDeposit } else a1

def applyTxs (P : Params) (h : Nat) (s0 : AMap CRAcct) (txs : List CRTx) : AMap CRAcct :=
  mapKV (fun k a => match get k s0 with | some a0 => endAcct P h a0 a | none => a) (txs.foldl (applyTx P h s0) s0)

/-! ## end of the voting period (`tryEndVoting` → `updateNextCommitteeMembers` → `processNextMembers`,
    `processCurrentCandidates`); runs after the block's changes are committed -/

def insDesc (x : Nat × CRAcct) : List (Nat × CRAcct) → List (Nat × CRAcct)
  | [] => [x]
  | y :: t => if x.2.votes > y.2.votes then x :: y :: t else y :: insDesc x t

/-- `(accounts, LastVotingStartHeight)` after the block at height `h`; `E` = VotingPeriod, `M` = MemberCount. -/
def election (P : Params) (E M h lastVS : Nat) (s : AMap CRAcct) : AMap CRAcct × Nat :=
  if h ≠ lastVS + E then (s, lastVS) else
  let act := s.filter (fun kv => ¬ kv.2.gone ∧ kv.2.st = .active)
  if (act.filter (fun kv => kv.2.votes > 0)).length < M then (s, h) else
  let members := ((act.foldr insDesc []).take M).map (·.1)
  (mapKV (fun k a =>
      if a.gone then a else
      let keep := k ∈ members ∨ (a.st = .canceled ∧ h - a.cancelH ≥ P.lockup) ∨ a.st = .returned
      { a with deposit := if keep then a.deposit else a.deposit - P.minDeposit, gone := true }) s, lastVS)

end ElaVerif.CRDeposit
