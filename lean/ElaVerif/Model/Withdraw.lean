/-
  C33 — executable model of the side-chain withdrawal context check
  (`core/transaction/withdrawfromsidechaintransaction.go`: `SpecialContextCheck`,
  `checkWithdrawFromSideChainTransactionV0/V1/V2`, `checkCrossChainArbitrators`,
  `checkSchnorrWithdrawFromSidechain`).

  Core Lean only.  Public keys are abstract: arbiter node keys are natural numbers; for the Schnorr
  path a key `a` stands for the curve point `a·G`, so the aggregate key of a signer list is the
  *sum* of their numbers (an abelian group; `0` is the empty sum, which the code turns into the
  curve point with x = 0).  Program codes arrive parsed (`ParseCrossChainScriptV1`, `IsSchnorr`).
-/
namespace ElaVerif.Withdraw

structure Cfg where
  schnorrStart : Nat      -- SchnorrStartHeight
  crClaimStart : Nat      -- CRConfiguration.CRClaimDPOSNodeStartHeight
  dposCrossChain : Nat    -- DPoSConfiguration.DPOSNodeCrossChainHeight
  restriction : Nat       -- CrossChainUTXORestrictionHeight
  memberCount : Nat       -- CRConfiguration.MemberCount
  normalCount : Nat       -- DPoSConfiguration.NormalArbitratorsCount
  crAgreement : Nat       -- CRConfiguration.CRAgreementCount
deriving Repr

structure Arb where
  key : Nat
  normal : Bool
deriving Repr, DecidableEq

structure Ledger where
  arbitrators : List Arb   -- Arbitrators.GetArbitrators()
  crc : List Arb           -- Arbitrators.GetCRCArbiters()
  cross : List Arb         -- Arbitrators.GetCrossChainArbiters()
  crossCount : Nat         -- GetCrossChainArbitersCount()
  crossMajority : Nat      -- GetCrossChainArbitersMajorityCount()
  withdrawn : List Nat     -- side-chain tx hashes recorded on the active chain (Tx3 index)
deriving Repr

/-- one program of the transaction, parsed -/
structure Prog where
  parseOK : Bool           -- ParseCrossChainScriptV1 succeeds
  m : Int
  n : Int
  keys : List Nat          -- public keys of the multisig script
  schnorr : Bool           -- contract.IsSchnorr(code)
  schnorrKey : Nat         -- the key inside a Schnorr redeem script
deriving Repr

structure Tx where
  pver : Nat
  payloadHashes : List Nat -- payload.SideChainTransactionHashes (V0)
  outputHashes : List Nat  -- hashes in withdraw outputs (V1, V2)
  signers : List Nat       -- payload.Signers (uint8)
  refsCross : List Bool    -- per referenced output: program hash has the cross-chain prefix
  progs : List Prog
deriving Repr

inductive Err
  | onlySchnorr | dupHash | inputs | script | total | sign | multisig | arbiters | count
  | signersCount | signerIndex | dupSigner | badKey | mismatch | notSchnorr
deriving Repr, DecidableEq

def normalCount (l : List Arb) : Nat := (l.filter (·.normal)).length

/-- `checkCrossChainArbitrators`: every normal cross-chain arbiter's key occurs in the script, and
    the script has as many keys as there are (distinct) normal arbiters. -/
def checkArbitrators (cross : List Arb) (keys : List Nat) : Option Err :=
  let normals := cross.filter (·.normal)
  if normals.any (fun a => !keys.contains a.key) then some .arbiters
  else if normals.length ≠ keys.length ∨ normals.length ≠ (normals.map (·.key)).eraseDups.length then some .count
  else none

/-- the arbiter-set test of V1 (and of V0 from `CRClaimDPOSNodeStartHeight` on) -/
def checkSetNew (c : Cfg) (l : Ledger) (height : Nat) (p : Prog) : Option Err :=
  let arbs := if height ≥ c.dposCrossChain then l.arbitrators else l.crc
  let minCount := if height ≥ c.dposCrossChain then c.normalCount + 1 else c.crAgreement
  if p.n ≠ (normalCount arbs : Int) then some .total
  else if p.m < (minCount : Int) then some .sign
  else none

def checkProgV0 (c : Cfg) (l : Ledger) (height : Nat) (p : Prog) : Option Err :=
  if !p.parseOK then some .script else
  match (if height ≥ c.crClaimStart then checkSetNew c l height p
         else if p.m < 1 ∨ p.m > p.n ∨ p.n ≠ (l.crossCount : Int) ∨ p.m ≤ (l.crossMajority : Int)
           then some .multisig else none) with
  | some e => some e
  | none => checkArbitrators l.cross p.keys

def checkProgV1 (c : Cfg) (l : Ledger) (height : Nat) (p : Prog) : Option Err :=
  if !p.parseOK then some .script else
  match checkSetNew c l height p with
  | some e => some e
  | none => checkArbitrators l.cross p.keys

def firstErr {α : Type} (f : α → Option Err) : List α → Option Err
  | [] => none
  | x :: xs => match f x with
    | some e => some e
    | none => firstErr f xs

def checkV0 (c : Cfg) (l : Ledger) (height : Nat) (t : Tx) : Option Err :=
  if t.payloadHashes.any (l.withdrawn.contains ·) then some .dupHash
  else if t.refsCross.any (! ·) then some .inputs
  else firstErr (checkProgV0 c l height) t.progs

def checkV1 (c : Cfg) (l : Ledger) (height : Nat) (t : Tx) : Option Err :=
  if t.outputHashes.any (l.withdrawn.contains ·) then some .dupHash
  else if t.refsCross.any (! ·) then some .inputs
  else firstErr (checkProgV1 c l height) t.progs

/-- the walk over the signer indexes of `checkSchnorrWithdrawFromSidechain`: the aggregate key, or the
    first error.  `seen` = indexes met so far (only consulted when `validate`). -/
def aggregate (cross : List Arb) (validate : Bool) : List Nat → List Nat → Nat → Except Err Nat
  | [], _, acc => .ok acc
  | i :: rest, seen, acc =>
    match cross[i]? with
    | none => .error .signerIndex
    | some a =>
      if validate && seen.contains i then .error .dupSigner
      else aggregate cross validate rest (i :: seen) (acc + a.key)

def checkSchnorr (l : Ledger) (validate : Bool) (t : Tx) : Option Err :=
  match aggregate l.cross validate t.signers [] 0 with
  | .error e => some e
  | .ok sum =>
    -- an empty signer list aggregates to the point at infinity; `Marshal`/`DecodePoint` turn it into
    -- the curve point with x = 0 without an error, so key 0 is just another key here
    firstErr (fun p => if p.schnorr then (if p.schnorrKey ≠ sum then some .mismatch else none)
                       else some .notSchnorr) t.progs

/-- the signer-count threshold of V2 for the height -/
def threshold (c : Cfg) (height : Nat) : Nat :=
  if height ≤ c.crClaimStart then c.memberCount * 2 / 3 + 1
  else if height < c.dposCrossChain then c.memberCount * 2 / 3
  else c.memberCount * 2 / 3 + 1

def checkV2 (c : Cfg) (l : Ledger) (height : Nat) (t : Tx) : Option Err :=
  if t.signers.length < threshold c height then some .signersCount
  else if t.refsCross.any (! ·) then some .inputs
  else checkSchnorr l (decide (height ≥ c.restriction)) t

/-- `SpecialContextCheck` -/
def specialCheck (c : Cfg) (l : Ledger) (height : Nat) (t : Tx) : Option Err :=
  if height > c.schnorrStart ∧ t.pver ≠ 2 then some .onlySchnorr
  else if t.pver = 0 then checkV0 c l height t
  else if t.pver = 1 then checkV1 c l height t
  else if t.pver = 2 then checkV2 c l height t
  else none

/-- the side-chain hashes a withdrawal records on the chain (`GetSaveProcessor`) -/
def recorded (t : Tx) : List Nat :=
  if t.pver = 0 then t.payloadHashes else if t.pver = 1 ∨ t.pver = 2 then t.outputHashes else []

/-- `CheckTransactionPayload`: duplicates inside the payload hash list (only) are refused -/
def payloadCheck (t : Tx) : Bool := decide t.payloadHashes.Nodup

/-- `CheckDuplicateTx` (block sanity), withdrawal part: duplicates among the *payload* hash lists of the
    block's withdrawals are refused -/
def blockCheck (txs : List Tx) : Bool := decide (txs.flatMap (·.payloadHashes)).Nodup

/-! ### the mempool slot `SidechainTxHashes` (mempool/conflictfunc.go: hashArraySidechainTransactionHashes) -/

/-- the slot's key function: payload hashes for V0 (and unknown versions), withdraw-output hashes for
    V1 and V2 -/
def poolKeys (t : Tx) : List Nat := if t.pver = 1 ∨ t.pver = 2 then t.outputHashes else t.payloadHashes

/-- `VerifyTx` then `AppendTx` on that slot: (indexed keys, accepted transactions, newest first) -/
def poolAdd (st : List Nat × List Tx) (t : Tx) : List Nat × List Tx :=
  if (poolKeys t).any (st.1.contains ·) then st else (poolKeys t ++ st.1, t :: st.2)

/-! ### the Tx3 index along a history of connected / disconnected blocks -/

/-- connecting a block: the save processor of every withdrawal records *all* its hashes -/
def saveBlock (wd : List Nat) (txs : List Tx) : List Nat := txs.foldl (fun wd t => recorded t ++ wd) wd

/-- disconnecting it: the rollback processors delete them -/
def rollbackBlock (wd : List Nat) (txs : List Tx) : List Nat :=
  txs.foldl (fun wd t => wd.filter (fun x => !(recorded t).contains x)) wd

inductive HStep
  | save (txs : List Tx)
  | rollback

/-- (index, stack of connected blocks) after a history; rolling back with nothing connected is a no-op -/
def runHist : List Nat × List (List Tx) → List HStep → List Nat × List (List Tx)
  | st, [] => st
  | (wd, stack), .save txs :: rest => runHist (saveBlock wd txs, txs :: stack) rest
  | (wd, []), .rollback :: rest => runHist (wd, []) rest
  | (wd, b :: stack), .rollback :: rest => runHist (rollbackBlock wd b, stack) rest

/-! ## the two inputs of the V0/V1 quorum that come from elsewhere -/

/-- `Arbiters.GetCrossChainArbitersMajorityCount` of the real dpos state: `int(float64(count) * 2 / 3)` -/
def realMajority (count : Nat) : Nat := count * 2 / 3

/-- the matching loop of `crypto.VerifyMultisigSignatures`: a signature is `some k` (it verifies under key `k`
    and no other) or `none` (verifies under no key); a signature matching no script key is skipped, a second
    signature matching an already counted key is an error -/
def matchSigs (keys : List Nat) : List (Option Nat) → List Nat → Option (List Nat)
  | [], v => some v
  | none :: r, v => matchSigs keys r v
  | some k :: r, v =>
    if keys.contains k then (if v.contains k then none else matchSigs keys r (k :: v)) else matchSigs keys r v

/-- `crypto.VerifyMultisigSignatures m n keys signatures`: the counted signers on success -/
def verifyMultisig (m n : Nat) (keys : List Nat) (sigs : List (Option Nat)) : Option (List Nat) :=
  if keys.length ≠ n then none
  else if sigs.length < m then none
  else if sigs.length > n then none
  else match matchSigs keys sigs [] with
    | none => none
    | some v => if v.length < m then none else some v

end ElaVerif.Withdraw
