import ElaVerif.Model.Merkle
/-
  Partial merkle trees of elanet/bloom (and its copy elanet/filter):
    * `build`     = MBlock.TraverseAndBuild (+ CalcHash, CalcTreeWidth), recursive
    * `packFlags` = the flag packing loop of NewMerkleBlock
    * `extract`   = the textbook recursive parser (specification; not in the Go code)
    * `machine`   = the stack machine of CheckMerkleBlock / merkleNodes.getNodes, generic in the
                    representation of tree positions (`PosOps`); `goOps` is the Go arithmetic on
                    `uint32` position numbers, `treeOps` uses (height, index) pairs
    * `branchOf`  = merkleNodes.GetMerkleBranch (calcTxIndex, calcBranchRoute, calcNodeIndex)
  Core Lean only.  The node hash `H` is a parameter.
-/
namespace ElaVerif.PMT
open ElaVerif.Merkle

variable {α : Type}

/-- `CalcTreeWidth(height)` for `n` transactions. -/
def width (n h : Nat) : Nat := (n + 2 ^ h - 1) >>> h

/-- `for CalcTreeWidth(height) > 1 { height++ }` (fuel: `n` rounds are more than enough). -/
def heightLoop (n : Nat) : Nat → Nat → Nat
  | 0, h => h
  | fuel + 1, h => if width n h > 1 then heightLoop n fuel (h + 1) else h

def treeHeight (n : Nat) : Nat := heightLoop n n 0

/-- `CalcHash(height, pos)`; `none` = `AllHashes[pos]` out of range (Go panic). -/
def calcHash (H : α → α → α) (txs : List α) : Nat → Nat → Option α
  | 0, pos => txs[pos]?
  | h + 1, pos =>
    match calcHash H txs h (2 * pos) with
    | none => none
    | some l =>
      if 2 * pos + 1 < width txs.length h then
        match calcHash H txs h (2 * pos + 1) with
        | none => none
        | some r => some (H l r)
      else some (H l l)

/-- `for i := pos<<height; i < (pos+1)<<height && i < NumTx; i++ { isParent |= MatchedBits[i] }` -/
def isParent (matched : List Bool) (h pos : Nat) : Bool :=
  ((matched.drop (pos <<< h)).take (2 ^ h)).any id

/-- `TraverseAndBuild(height, pos)`: the bits and hashes it appends (hash `none` = CalcHash panic). -/
def build (H : α → α → α) (txs : List α) (matched : List Bool) : Nat → Nat → List Bool × List (Option α)
  | 0, pos => ([isParent matched 0 pos], [calcHash H txs 0 pos])
  | h + 1, pos =>
    if !isParent matched (h + 1) pos then ([false], [calcHash H txs (h + 1) pos])
    else
      let l := build H txs matched h (2 * pos)
      if 2 * pos + 1 < width txs.length h then
        let r := build H txs matched h (2 * pos + 1)
        (true :: (l.1 ++ r.1), l.2 ++ r.2)
      else (true :: l.1, l.2)

/-- `Flags[i/8] |= Bits[i] << (i % 8)`: eight bits per byte, least significant first. -/
def packByte : List Bool → Nat
  | [] => 0
  | b :: bs => (if b then 1 else 0) + 2 * packByte bs

def packFlags : Nat → List Bool → List UInt8
  | 0, _ => []
  | _, [] => []
  | fuel + 1, bs => UInt8.ofNat (packByte (bs.take 8)) :: packFlags fuel (bs.drop 8)

def unpackByte (b : UInt8) : List Bool :=
  (List.range 8).map fun i => (b.toNat >>> i) % 2 = 1

/-- the flag bytes as the bit sequence the parsers consume -/
def unpackFlags (bs : List UInt8) : List Bool := bs.flatMap unpackByte

/-! ### parser results -/

inductive PErr where
  | noTx | noFlags | noHashes | noBits | dup | leftNil | invalidLeaf | rootMismatch | fuel
  | txNotFound | nodeMissing | tooMany
  deriving DecidableEq, Repr

inductive PRes (β : Type) where
  | ok (v : β)
  | err (e : PErr)
  | panic
  deriving DecidableEq, Repr

/-! ### the recursive specification parser -/

structure Sub (α : Type) where
  hash : α
  ids : List α          -- matched transaction ids, in order
  nodes : List ((Nat × Nat) × α)   -- every node whose hash became known: ((height, index), hash)
  bits : List Bool      -- unconsumed flag bits
  hashes : List α       -- unconsumed hashes

/-- parse the subtree rooted at (height, pos).  Input checks in the order of the Go loop:
    a hash and a bit must be available before *every* node, even one that only descends. -/
def extract [DecidableEq α] (H : α → α → α) (n : Nat) :
    Nat → Nat → List Bool → List α → Except PErr (Sub α)
  | 0, pos, bits, hashes =>
    match hashes, bits with
    | [], _ => .error .noHashes
    | _ :: _, [] => .error .noBits
    | x :: hs, b :: bs => .ok ⟨x, if b then [x] else [], [((0, pos), x)], bs, hs⟩
  | h + 1, pos, bits, hashes =>
    match hashes, bits with
    | [], _ => .error .noHashes
    | _ :: _, [] => .error .noBits
    | x :: hs, false :: bs => .ok ⟨x, [], [((h + 1, pos), x)], bs, hs⟩
    | x :: hs, true :: bs =>
      match extract H n h (2 * pos) bs (x :: hs) with
      | .error e => .error e
      | .ok l =>
        if 2 * pos + 1 < width n h then
          match extract H n h (2 * pos + 1) l.bits l.hashes with
          | .error e => .error e
          | .ok r =>
            if l.hash = r.hash then .error .dup
            else .ok ⟨H l.hash r.hash, l.ids ++ r.ids,
                      l.nodes ++ r.nodes ++ [((h + 1, pos), H l.hash r.hash)], r.bits, r.hashes⟩
        else .ok ⟨H l.hash l.hash, l.ids, l.nodes ++ [((h + 1, pos), H l.hash l.hash)], l.bits, l.hashes⟩

/-- specification of `CheckMerkleBlock`: parse from the top, compare with the header root. -/
def extractTop [DecidableEq α] (H : α → α → α) (maxTx n : Nat) (root : α) (bits : List Bool) (hashes : List α) :
    PRes (List α × List ((Nat × Nat) × α)) :=
  if n = 0 then .err .noTx else
  if n > maxTx then .err .tooMany else
  if bits.isEmpty then .err .noFlags else
  match extract H n (treeHeight n) 0 bits hashes with
  | .error e => .err e
  | .ok s => if s.hash = root then .ok (s.ids, s.nodes) else .err .rootMismatch

/-! ### the stack machine -/

/-- how the machine moves in the tree -/
structure PosOps (P : Type) where
  root : P
  upper : P → Bool      -- `pos&msb != 0`
  right : P → Bool      -- `pos&1 != 0`
  sib : P → P           -- `pos | 1`
  up : P → P            -- `pos>>1 | msb`
  down : P → P          -- `(pos ^ msb) << 1`
  dead : P → Bool       -- `inDeadZone(pos, numTx)`
  leafOut : P → Bool    -- `pos >= numTx`

structure St (P α : Type) where
  stack : List (P × Option α)     -- head = tip `s[len-1]`
  pos : P
  bits : List Bool
  hashes : List α
  ids : List α                    -- `r` of CheckMerkleBlock
  nodes : List (P × α)            -- `r` of getNodes (insertion order)

inductive Step (P α : Type) where
  | next (s : St P α)
  | done (r : PRes (List α × List (P × α)))

/-- "no stack ops to perform, so make new node from message hashes" -/
def pushStep {P : Type} (ops : PosOps P) (st : St P α) : Step P α :=
  match st.hashes, st.bits with
  | [], _ => .done (.err .noHashes)
  | _ :: _, [] => .done (.err .noBits)
  | x :: hs, b :: bs =>
    if ops.upper st.pos then
      if !b then
        .next { st with stack := (st.pos, some x) :: st.stack, hashes := hs, bits := bs,
                        pos := if ops.right st.pos then ops.up st.pos else ops.sib st.pos,
                        nodes := st.nodes ++ [(st.pos, x)] }
      else
        .next { st with stack := (st.pos, none) :: st.stack, bits := bs, pos := ops.down st.pos }
    else
      if ops.leafOut st.pos then .done (.err .invalidLeaf)
      else
        .next { st with stack := (st.pos, some x) :: st.stack, hashes := hs, bits := bs,
                        ids := if b then st.ids ++ [x] else st.ids,
                        pos := if !ops.right st.pos then ops.sib st.pos else st.pos,
                        nodes := st.nodes ++ [(st.pos, x)] }

/-- one iteration of `for { … }` in CheckMerkleBlock / getNodes -/
def step {P : Type} [DecidableEq α] (ops : PosOps P) (H : α → α → α) (root : α) (st : St P α) : Step P α :=
  match st.stack with
  | [(_, some h)] =>       -- tip == 0 && s[0].h != nil
    if h = root then .done (.ok (st.ids, st.nodes)) else .done (.err .rootMismatch)
  | _ =>
    if ops.dead st.pos then
      match st.stack with
      | [] => .done .panic                          -- s[tip] with tip = -1
      | (_, none) :: _ => .done (.err .leftNil)     -- MakeMerkleParent(nil, nil)
      | [(_, some _)] => .done .panic               -- s[tip-1] with tip = 0 (not reachable: first case)
      | (_, some h) :: (p1, _) :: rest =>
        .next { st with stack := (p1, some (H h h)) :: rest, pos := ops.sib p1,
                        nodes := st.nodes ++ [(p1, H h h)] }
    else
      match st.stack with
      | (_, some b) :: (_, some a) :: (p2, _) :: rest =>   -- tip > 1, two filled on top
        if a = b then .done (.err .dup)
        else .next { st with stack := (p2, some (H a b)) :: rest, pos := ops.sib p2,
                             nodes := st.nodes ++ [(p2, H a b)] }
      | _ => pushStep ops st

def run {P : Type} [DecidableEq α] (ops : PosOps P) (H : α → α → α) (root : α) :
    Nat → St P α → PRes (List α × List (P × α))
  | 0, _ => .err .fuel
  | fuel + 1, st =>
    match step ops H root st with
    | .done r => r
    | .next st' => run ops H root fuel st'

/-- `CheckMerkleBlock` / `getNodes` from the top; `maxTx` is `pact.MaxTxPerBlock`. -/
def machine {P : Type} [DecidableEq α] (ops : PosOps P) (H : α → α → α) (maxTx n : Nat) (root : α)
    (bits : List Bool) (hashes : List α) (fuel : Nat) : PRes (List α × List (P × α)) :=
  if n = 0 then .err .noTx else
  if n > maxTx then .err .tooMany else
  if bits.isEmpty then .err .noFlags else
  run ops H root fuel ⟨[], ops.root, bits, hashes, [], []⟩

/-! ### positions as the Go code numbers them -/

/-- `treeDepth(n)`: smallest `e` with `2^e ≥ n`. -/
def depthLoop (n : Nat) : Nat → Nat → Nat
  | 0, e => e
  | fuel + 1, e => if 2 ^ e < n then depthLoop n fuel (e + 1) else e

def treeDepth (n : Nat) : Nat := depthLoop n n 0

def nextPow2 (n : Nat) : Nat := 2 ^ treeDepth n

/-- `inDeadZone(pos, size)` -/
def deadLoop (msb pos : Nat) : Nat → Nat → Nat → Bool
  | 0, _, last => pos > last
  | fuel + 1, h, last => if pos ≥ h then deadLoop msb pos fuel (h >>> 1 ||| msb) (last >>> 1 ||| msb) else pos > last

def inDeadZone (pos size : Nat) : Bool :=
  let msb := nextPow2 size
  if pos > (msb <<< 1) - 2 then true else deadLoop msb pos (treeDepth size + 2) msb (size - 1)

def goOps (n : Nat) : PosOps Nat :=
  let msb := nextPow2 n
  { root := (msb <<< 1) - 2
    upper := fun p => p &&& msb ≠ 0
    right := fun p => p &&& 1 ≠ 0
    sib := fun p => p ||| 1
    up := fun p => p >>> 1 ||| msb
    down := fun p => (p ^^^ msb) <<< 1
    dead := fun p => inDeadZone p n
    leafOut := fun p => p ≥ n }

/-- positions as (height, index) pairs -/
def treeOps (n : Nat) : PosOps (Nat × Nat) :=
  { root := (treeHeight n, 0)
    upper := fun p => p.1 ≠ 0
    right := fun p => p.2 % 2 = 1
    sib := fun p => (p.1, if p.2 % 2 = 0 then p.2 + 1 else p.2)
    up := fun p => (p.1 + 1, p.2 / 2)
    down := fun p => (p.1 - 1, 2 * p.2)
    dead := fun p => !decide (p.2 < width n p.1)
    leafOut := fun p => p.2 ≥ n }

/-! ### merkle branch of one transaction (`merkleNodes.GetMerkleBranch`) -/

/-- `calcNodeIndex(height, pos)` -/
def subLoop (i : Nat) : Nat → Nat → Nat
  | 0, m => m
  | k + 1, m => subLoop (i + 1) k (m - 2 ^ i)

def nodeIndex (n height pos : Nat) : Nat :=
  subLoop 1 (treeDepth n - height) ((nextPow2 n <<< 1) - 2) + pos

/-- `calcTxIndex`: a node at position `≤ width(0)` whose hash is the txid;
    `none` = "tx index not found". -/
def txIndex [DecidableEq α] (n : Nat) (nodes : List (Nat × α)) (txid : α) : Option Nat :=
  (nodes.find? (fun e => !(e.1 > width n 0) && e.2 = txid)).map (·.1)

/-- `calcBranchRoute` -/
def route (n ti : Nat) : Nat → Nat → List Nat
  | 0, _ => []
  | k + 1, height =>
    let idx := ti >>> height
    let r :=
      if idx = width n height - 1 ∧ idx % 2 = 0 then nodeIndex n height idx
      else if idx % 2 = 0 then nodeIndex n height (idx + 1)
      else nodeIndex n height (idx - 1)
    r :: route n ti k (height + 1)

/-- the loop building `MerkleBranch`; `none` = a route node is not part of the merkle block -/
def collect (nodes : List (Nat × α)) : List Nat → Nat → Option (List α × Nat)
  | [], _ => some ([], 0)
  | index :: rest, i =>
    match (nodes.reverse.find? (fun e => e.1 = index)), collect nodes rest (i + 1) with
    | some e, some (bs, ix) => some (e.2 :: bs, (if index % 2 = 0 then 2 ^ i else 0) + ix)
    | _, _ => none

/-- `GetTxMerkleBranch(msg, txID)` -/
def branchOf [DecidableEq α] (H : α → α → α) (maxTx n : Nat) (root : α) (bits : List Bool) (hashes : List α)
    (txid : α) (fuel : Nat) : PRes (List α × Nat) :=
  match machine (goOps n) H maxTx n root bits hashes fuel with
  | .err e => .err e
  | .panic => .panic
  | .ok (_, nodes) =>
    match txIndex n nodes txid with
    | none => .err .txNotFound
    | some ti =>
      match collect nodes (route n ti (treeDepth n) 0) 0 with
      | some r => .ok r
      | none => .err .nodeMissing

end ElaVerif.PMT
