import ElaVerif.Model.Crc32c
/-
  Model of the flat-file block store of ffldb (database/ffldb/blockio.go:
  writeBlock / readBlock / readBlockRegion / scanBlockFiles, and the block part
  of database/ffldb/db.go: StoreBlock / HasBlock / FetchBlock / FetchBlockRegion /
  writePendingAndCommit, database/ffldb/reconcile.go: reconcileDB).

  * a block file is a byte list; the directory is a list of optional files
    (`none` = the file does not exist) indexed by file number;
  * record layout `<network LE32><block length LE32><block><crc32c BE32>`;
  * locations are (file, offset, record length) — the *record* length, i.e.
    block length + 12, exactly as `writeBlock` returns it;
  * the block index and the persisted write cursor are an association list and
    a pair (the metadata store itself is C16's subject);
  * `uint32` arithmetic of the offsets is kept (mod 2^32).
  The checksum function is a parameter of every definition used in theorems.
  Core Lean only.
-/
namespace ElaVerif.BlockStore

abbrev Bytes := List UInt8

def le32 (n : Nat) : Bytes :=
  [UInt8.ofNat (n % 256), UInt8.ofNat (n / 256 % 256), UInt8.ofNat (n / 65536 % 256), UInt8.ofNat (n / 16777216 % 256)]

def be32 (n : Nat) : Bytes := (le32 n).reverse

def rd8 (b : Bytes) (i : Nat) : Nat := (b.getD i 0).toNat
def rdLe32 (b : Bytes) : Nat := rd8 b 0 + 256 * rd8 b 1 + 65536 * rd8 b 2 + 16777216 * rd8 b 3
def rdBe32 (b : Bytes) : Nat := rd8 b 3 + 256 * rd8 b 2 + 65536 * rd8 b 1 + 16777216 * rd8 b 0

def u32 (n : Nat) : Nat := n % 4294967296

structure Loc where
  file : Nat
  off : Nat
  len : Nat
  deriving DecidableEq, Repr, Inhabited

abbrev Files := List (Option Bytes)

def fileAt (fs : Files) (i : Nat) : Option Bytes := (fs[i]?).join

/-- `WriteAt(data, off)` on a file (extends with zeros when writing past the end). -/
def writeAt (f : Bytes) (off : Nat) (d : Bytes) : Bytes :=
  (f ++ List.replicate (off - f.length) 0).take off ++ d ++ f.drop (off + d.length)

def setFile : Files → Nat → Option Bytes → Files
  | [], 0, x => [x]
  | [], n + 1, x => none :: setFile [] n x
  | _ :: fs, 0, x => x :: fs
  | f :: fs, n + 1, x => f :: setFile fs n x

/-- open the file read/write creating it if needed, then `WriteAt`. -/
def writeFile (fs : Files) (i off : Nat) (d : Bytes) : Files :=
  setFile fs i (some (writeAt ((fileAt fs i).getD []) off d))

/-- `ReadAt(buf[0:n], off)`: a short read is an error; an empty read never is. -/
def readAt (f : Bytes) (off n : Nat) : Option Bytes :=
  if n = 0 then some []
  else if off + n ≤ f.length then some ((f.drop off).take n) else none

inductive Err | notFound | exists_ | region | corrupt | driver | txClosed | notWritable
  deriving DecidableEq, Repr

/-- the bytes `writeBlock` appends for a block. -/
def record (crc : Bytes → Nat) (net : Nat) (d : Bytes) : Bytes :=
  let body := le32 net ++ le32 (u32 d.length) ++ d
  body ++ be32 (crc body)

structure Store where
  net : Nat := 0
  max : Nat := 67108864
  files : Files := []
  curFile : Nat := 0
  curOff : Nat := 0
  index : List (Bytes × Loc) := []
  writeLoc : Nat × Nat := (0, 0)
  pending : Option (List (Bytes × Bytes)) := none
  deriving Repr, Inhabited

/-- `blockStore.writeBlock`. -/
def writeBlock (crc : Bytes → Nat) (s : Store) (d : Bytes) : Store × Loc :=
  let fullLen := u32 (u32 d.length + 12)
  let final := u32 (s.curOff + fullLen)
  let s := if final < s.curOff ∨ final > s.max then { s with curFile := u32 (s.curFile + 1), curOff := 0 } else s
  let rec_ := record crc s.net d
  ({ s with files := writeFile s.files s.curFile s.curOff rec_, curOff := u32 (s.curOff + rec_.length) },
   ⟨s.curFile, s.curOff, fullLen⟩)

def lookup (h : Bytes) : List (Bytes × Loc) → Option Loc
  | [] => none
  | (k, l) :: t => if k = h then some l else lookup h t

def lookupP (h : Bytes) : List (Bytes × Bytes) → Option Bytes
  | [] => none
  | (k, d) :: t => if k = h then some d else lookupP h t

/-- `blockStore.readBlock`. -/
def readBlock (crc : Bytes → Nat) (s : Store) (loc : Loc) : Except Err Bytes :=
  match fileAt s.files loc.file with
  | none => .error .driver
  | some f =>
    match readAt f loc.off loc.len with
    | none => .error .driver
    | some data =>
      let n := data.length
      if rdBe32 (data.drop (n - 4)) ≠ crc (data.take (n - 4)) then .error .corrupt
      else if rdLe32 data ≠ s.net then .error .driver
      else .ok ((data.take (n - 4)).drop 8)

/-- `blockStore.readBlockRegion`. -/
def readRegion (s : Store) (loc : Loc) (off n : Nat) : Except Err Bytes :=
  match fileAt s.files loc.file with
  | none => .error .driver
  | some f =>
    match readAt f (u32 (loc.off + 8 + off)) n with
    | none => .error .driver
    | some d => .ok d

def hasBlock (s : Store) (h : Bytes) : Bool :=
  ((s.pending.bind (lookupP h)).isSome) || (lookup h s.index).isSome

/-- `Tx.StoreBlock` -/
def storeBlock (s : Store) (h d : Bytes) : Store × Except Err Unit :=
  match s.pending with
  | none => (s, .error .notWritable)
  | some p =>
    if hasBlock s h then (s, .error .exists_)
    else ({ s with pending := some (p ++ [(h, d)]) }, .ok ())

/-- `Tx.FetchBlock` -/
def fetchBlock (crc : Bytes → Nat) (s : Store) (h : Bytes) : Except Err Bytes :=
  match s.pending.bind (lookupP h) with
  | some d => .ok d
  | none =>
    match lookup h s.index with
    | none => .error .notFound
    | some loc => readBlock crc s loc

/-- size of a record minus its 12 bytes of framing: the length of the block itself. -/
def rawLen (loc : Loc) : Nat := loc.len - 12

/-- `Tx.FetchBlockRegion` -/
def fetchRegion (s : Store) (h : Bytes) (off n : Nat) : Except Err Bytes :=
  let end_ := u32 (off + n)
  match s.pending.bind (lookupP h) with
  | some d =>
    if end_ < off ∨ end_ > u32 d.length then .error .region
    else .ok ((d.drop off).take n)
  | none =>
    match lookup h s.index with
    | none => .error .notFound
    | some loc =>
      if end_ < off ∨ end_ > rawLen loc then .error .region
      else readRegion s loc off n

/-- the loop of `writePendingAndCommit` over the pending blocks. -/
def commitBlocks (crc : Bytes → Nat) (s : Store) : List (Bytes × Bytes) → Store
  | [] => s
  | (h, d) :: rest =>
    let (s', loc) := writeBlock crc s d
    commitBlocks crc { s' with index := (h, loc) :: s'.index } rest

/-- `Tx.Commit` (no I/O failure): write the blocks, index them, persist the write cursor. -/
def commit (crc : Bytes → Nat) (s : Store) : Store :=
  match s.pending with
  | none => s
  | some p =>
    let s' := commitBlocks crc { s with pending := none } p
    { s' with writeLoc := (s'.curFile, s'.curOff) }

def rollback (s : Store) : Store := { s with pending := none }

/-- `scanBlockFiles`: walk 0,1,2,… until a file is missing. -/
def scan : Files → Nat → Nat × Nat → Nat × Nat
  | [], _, acc => acc
  | none :: _, _, acc => acc
  | some f :: rest, i, _ => scan rest (i + 1) (i, u32 f.length)

/-- `handleRollback(file, off)` as used by `reconcileDB`: delete the files after `file` up to
    the scanned last file `hi`, then open-or-create `file` and truncate it to `off`. -/
def truncateTo (fs : Files) (file off hi : Nat) : Files :=
  let kept := fs.mapIdx fun i f => if file < i ∧ i ≤ hi then none else f
  let f := (fileAt kept file).getD []
  setFile kept file (some ((f ++ List.replicate (off - f.length) 0).take off))

/-- the block file `writeBlock` directs a block to (the current one, or the next after a rollover) -/
def rollTarget (s : Store) (d : Bytes) : Nat :=
  let fullLen := u32 (u32 d.length + 12)
  let final := u32 (s.curOff + fullLen)
  if final < s.curOff ∨ final > s.max then u32 (s.curFile + 1) else s.curFile

/-- the loop of `writePendingAndCommit` when every write to block file `n` fails (the harness
    makes that file a link to `/dev/full`): `true` = a block was directed to file `n`,
    `writeBlock` returned the I/O error -/
def blocksUntil (crc : Bytes → Nat) (n : Nat) (s : Store) : List (Bytes × Bytes) → Store × Bool
  | [] => (s, false)
  | (h, d) :: rest =>
    if rollTarget s d = n then (s, true)
    else
      let (s', loc) := writeBlock crc s d
      blocksUntil crc n { s' with index := (h, loc) :: s'.index } rest

/-- `Tx.Commit` with a failing block file `n` (> the current file): on the error
    `writePendingAndCommit` runs `handleRollback(old file, old offset)` — the newer files
    (including the link) are deleted, the old file is opened or created and truncated back,
    the cursor returns, nothing of the transaction stays; `true` = the commit failed -/
def commitObstructed (crc : Bytes → Nat) (s : Store) (n : Nat) : Store × Bool :=
  match s.pending with
  | none => (s, false)
  | some p =>
    let s0 := { s with pending := none }
    let (s', failed) := blocksUntil crc n s0 p
    if failed then ({ s0 with files := truncateTo s'.files s.curFile s.curOff n }, true)
    else ({ s' with writeLoc := (s'.curFile, s'.curOff) }, false)

/-- close + `openDB` + `reconcileDB`: `none` = the database refuses to open (ErrCorruption). -/
def reopen (s : Store) : Option Store :=
  let (sf, so) := scan s.files 0 (0, 0)
  let (wf, wo) := s.writeLoc
  let s := { s with pending := none, curFile := sf, curOff := so }
  if sf > wf ∨ (sf = wf ∧ so > wo) then
    some { s with files := truncateTo s.files wf wo sf, curFile := wf, curOff := wo }
  else if sf < wf ∨ (sf = wf ∧ so < wo) then none
  else some s

end ElaVerif.BlockStore
