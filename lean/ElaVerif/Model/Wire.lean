import ElaVerif.Model.Bytes
/-
  Wire schemas (core Lean only).

  A `Ty` describes the byte layout written by a Go `Serialize` method and read
  back by the matching `Deserialize` built from the primitives of
  common/serialize.go.  `encode` is the writer, `decodeA` the reader together
  with an *allocation meter*: the number of bytes the Go decoder asks the
  allocator for while reading (`make([]byte, count)` inside `ReadVarBytes`,
  `make([]T, count)` for a pre-sized slice — charged *before* any element is
  read, exactly like the Go code does —, and a per-element charge for slices
  grown by `append`).  The model is total: there is no partial operation, a Go
  panic in these decoders can only come from a count-sized `make`, which is what
  the meter exposes.
-/
namespace ElaVerif.Wire
open ElaVerif.Bytes

inductive Ty where
  /-- `k`-byte little-endian unsigned integer (`ReadUint8/16/32/64`, `ReadBytes(r,1)`, `ReadElement`) -/
  | uint (k : Nat)
  /-- one byte; the reader maps every non-zero byte to `true` (`ReadElement(*bool)`) -/
  | bool
  /-- one byte; the reader maps exactly `1` to `true` (`DPOSProposalVote.Accept`) -/
  | bool1
  /-- `n` raw bytes (`Uint256`, `Uint168`, `io.ReadFull` into an array) -/
  | fixed (n : Nat)
  /-- `ReadVarUint` -/
  | varUint
  /-- `ReadVarBytes(r, max, _)`, also `ReadVarString` with `max = MaxVarStringLength` -/
  | varBytes (max : Nat)
  /-- the trailing byte of `Header`: the writer emits `0x01`, the reader skips one byte if there is one -/
  | pad1
  /-- a reader that always fails (unknown type byte) -/
  | fail
  | struct (fs : List Ty)
  /-- count (`cw = 0`: var-uint, otherwise `cw`-byte LE) then the elements.  `lim`: the reader
      rejects larger counts.  `pre`: bytes per counted element allocated before the first element
      is read (`make([]T, count)`, 0 for append-only readers).  `ovh`: bytes charged per element
      actually read (slice growth, boxed element). -/
  | list (cw : Nat) (lim : Option Nat) (pre ovh : Nat) (e : Ty)
  /-- var-uint count then the elements, read by `for i := 0; i < int(count); i++` (CRCProposal budgets
      and custom-ID lists): a count of 2^63 or more is a negative `int`, the loop body never runs and the
      reader goes on with an empty list.  Append-only, `ovh` as for `list`. -/
  | listI (ovh : Nat) (e : Ty)
  /-- a `tw`-byte LE discriminant selecting the layout of what follows (`dflt` when not listed) -/
  | tagged (tw : Nat) (cases : List (Nat × Ty)) (dflt : Ty)

inductive Val where
  | num (n : Nat)
  | bool (b : Bool)
  | bytes (bs : Bytes)
  | unit
  | struct (vs : List Val)
  | list (vs : List Val)
  | tag (t : Nat) (v : Val)

/-- result of a metered decode -/
structure R (α : Type) where
  alloc : Nat
  res : Option (α × Bytes)

def R.fail {α} (a : Nat := 0) : R α := ⟨a, none⟩
def R.ok {α} (a : Nat) (v : α) (rest : Bytes) : R α := ⟨a, some (v, rest)⟩
def R.map {α β} (f : α → β) (r : R α) : R β :=
  ⟨r.alloc, match r.res with | some (v, rest) => some (f v, rest) | none => none⟩
def R.charge {α} (a : Nat) (r : R α) : R α := ⟨a + r.alloc, r.res⟩
def R.ofOpt {α β} (f : α → β) : Option (α × Bytes) → R β
  | some (v, rest) => R.ok 0 (f v) rest
  | none => R.fail

/-- bytes charged for reading an `n`-byte var-bytes / var-string: `make([]byte, n)` rounded up to a
    size class (at most one eighth more for small objects, to the next 8 KiB page for large ones; a
    tiny object takes a 16-byte block), and — for `ReadVarString` — the copy made by `string(buf)`.
    The meter charges the string cost for every var-bytes field (an upper bound for byte slices). -/
def bufCost (n : Nat) : Nat := if n = 0 then 0 else 2 * n + n / 2 + 32

def encCount (cw n : Nat) : Bytes := if cw = 0 then encVarUint n else leEnc cw n
def decCount (cw : Nat) (bs : Bytes) : Option (Nat × Bytes) :=
  if cw = 0 then decVarUint bs else readLE cw bs

def overLimit : Option Nat → Nat → Bool
  | none, _ => false
  | some l, n => decide (l < n)

/-- `for i := 0; i < n; i++ { elem, err := read(r); if err != nil { return err }; xs = append(xs, elem) }` -/
def repeatDec {α : Type} (f : Bytes → R α) (ovh : Nat) : Nat → Bytes → R (List α)
  | 0, bs => R.ok 0 [] bs
  | n + 1, bs =>
    let r1 := f bs
    match r1.res with
    | none => R.fail r1.alloc
    | some (v, rest) =>
      let r2 := repeatDec f ovh n rest
      ⟨r1.alloc + ovh + r2.alloc,
       match r2.res with | some (vs, rest') => some (v :: vs, rest') | none => none⟩

/-- `for _, v := range xs { v.Serialize(w) }` -/
def encodeAllWith (f : Val → Bytes) : List Val → Bytes
  | [] => []
  | v :: vs => f v ++ encodeAllWith f vs

def allWith (f : Val → Bool) : List Val → Bool
  | [] => true
  | v :: vs => f v && allWith f vs

mutual
  def encode : Ty → Val → Bytes
    | .uint k, .num n => leEnc k n
    | .bool, .bool b => [if b then 1 else 0]
    | .bool1, .bool b => [if b then 1 else 0]
    | .fixed _, .bytes bs => bs
    | .varUint, .num n => encVarUint n
    | .varBytes _, .bytes bs => encVarUint bs.length ++ bs
    | .pad1, _ => [1]
    | .struct fs, .struct vs => encodeFields fs vs
    | .list cw _ _ _ e, .list vs => encCount cw vs.length ++ encodeAllWith (encode e) vs
    | .listI _ e, .list vs => encVarUint vs.length ++ encodeAllWith (encode e) vs
    | .tagged tw cs d, .tag t v =>
      leEnc tw t ++ (match encodeCases cs t v with | some b => b | none => encode d v)
    | _, _ => []
  def encodeFields : List Ty → List Val → Bytes
    | t :: ts, v :: vs => encode t v ++ encodeFields ts vs
    | _, _ => []
  def encodeCases : List (Nat × Ty) → Nat → Val → Option Bytes
    | [], _, _ => none
    | (k, ty) :: cs, t, v => if k = t then some (encode ty v) else encodeCases cs t v
end

mutual
  def decodeA : Ty → Bytes → R Val
    | .uint k, bs => R.ofOpt .num (readLE k bs)
    | .bool, bs => R.ofOpt (fun n => .bool (n != 0)) (readLE 1 bs)
    | .bool1, bs => R.ofOpt (fun n => .bool (n == 1)) (readLE 1 bs)
    | .fixed n, bs => R.ofOpt .bytes (take? n bs)
    | .varUint, bs => R.ofOpt .num (decVarUint bs)
    | .varBytes max, bs =>
      match decVarUint bs with
      | none => R.fail
      | some (n, r) =>
        if max < n then R.fail
        else match take? n r with
          | some (a, r') => R.ok (bufCost n) (.bytes a) r'
          | none => R.fail (bufCost n)
    | .pad1, bs => R.ok 0 .unit (bs.drop 1)
    | .fail, _ => R.fail
    | .struct fs, bs => (decodeFields fs bs).map .struct
    | .list cw lim pre ovh e, bs =>
      match decCount cw bs with
      | none => R.fail
      | some (n, r) =>
        if overLimit lim n then R.fail
        else ((repeatDec (decodeA e) ovh n r).map .list).charge (pre * n)
    | .listI ovh e, bs =>
      match decVarUint bs with
      | none => R.fail
      | some (n, r) =>
        if 2 ^ 63 ≤ n then R.ok 0 (.list []) r
        else (repeatDec (decodeA e) ovh n r).map .list
    | .tagged tw cs d, bs =>
      match readLE tw bs with
      | none => R.fail
      | some (t, r) =>
        (match decodeCases cs t r with | some x => x | none => decodeA d r).map (.tag t)
  def decodeFields : List Ty → Bytes → R (List Val)
    | [], bs => R.ok 0 [] bs
    | t :: ts, bs =>
      let r1 := decodeA t bs
      match r1.res with
      | none => R.fail r1.alloc
      | some (v, rest) =>
        let r2 := decodeFields ts rest
        ⟨r1.alloc + r2.alloc,
         match r2.res with | some (vs, rest') => some (v :: vs, rest') | none => none⟩
  def decodeCases : List (Nat × Ty) → Nat → Bytes → Option (R Val)
    | [], _, _ => none
    | (k, ty) :: cs, t, bs => if k = t then some (decodeA ty bs) else decodeCases cs t bs
end

/-- the plain decoder -/
def decode (ty : Ty) (bs : Bytes) : Option (Val × Bytes) := (decodeA ty bs).res

/- well-formed value of a schema (what a Go value of the corresponding type can hold, plus
    the limits the reader enforces) -/
mutual
  def wf : Ty → Val → Bool
    | .uint k, .num n => decide (n < 256 ^ k)
    | .bool, .bool _ => true
    | .bool1, .bool _ => true
    | .fixed n, .bytes bs => decide (bs.length = n)
    | .varUint, .num n => decide (n < 2 ^ 64)
    | .varBytes max, .bytes bs => decide (bs.length ≤ max) && decide (bs.length < 2 ^ 64)
    | .pad1, .unit => true
    | .struct fs, .struct vs => wfFields fs vs
    | .list cw lim _ _ e, .list vs =>
      !(overLimit lim vs.length) && decide (vs.length < (if cw = 0 then 2 ^ 64 else 256 ^ cw)) && allWith (wf e) vs
    | .listI _ e, .list vs => decide (vs.length < 2 ^ 63) && allWith (wf e) vs
    | .tagged tw cs d, .tag t v =>
      decide (t < 256 ^ tw) && (match wfCases cs t v with | some b => b | none => wf d v)
    | _, _ => false
  def wfFields : List Ty → List Val → Bool
    | [], [] => true
    | t :: ts, v :: vs => wf t v && wfFields ts vs
    | _, _ => false
  def wfCases : List (Nat × Ty) → Nat → Val → Option Bool
    | [], _, _ => none
    | (k, ty) :: cs, t, v => if k = t then some (wf ty v) else wfCases cs t v
end

/- schemas whose reader accepts exactly one byte string per value -/
mutual
  def canon : Ty → Bool
    | .bool => false
    | .bool1 => false
    | .listI _ _ => false
    | .pad1 => false
    | .struct fs => canonFields fs
    | .list _ _ _ _ e => canon e
    | .tagged _ cs d => canonCases cs && canon d
    | _ => true
  def canonFields : List Ty → Bool
    | [] => true
    | t :: ts => canon t && canonFields ts
  def canonCases : List (Nat × Ty) → Bool
    | [] => true
    | (_, ty) :: cs => canon ty && canonCases cs
end

/- least number of bytes a successful read of the schema consumes -/
mutual
  def minSize : Ty → Nat
    | .uint k => k
    | .bool => 1
    | .bool1 => 1
    | .fixed n => n
    | .varUint => 1
    | .varBytes _ => 1
    | .pad1 => 0
    | .fail => 1
    | .struct fs => minSizeFields fs
    | .list cw _ _ _ _ => if cw = 0 then 1 else cw
    | .listI _ _ => 1
    | .tagged tw cs d => tw + min (minSizeCases cs) (minSize d)
  def minSizeFields : List Ty → Nat
    | [] => 0
    | t :: ts => minSize t + minSizeFields ts
  def minSizeCases : List (Nat × Ty) → Nat
    | [] => 2 ^ 64
    | (_, ty) :: cs => min (minSize ty) (minSizeCases cs)
end

/- allocation per consumed byte (the `K` of the bound) -/
mutual
  def dens : Ty → Nat
    | .varBytes _ => 36
    | .struct fs => densFields fs
    | .list _ _ pre ovh e => pre + ovh + dens e
    | .listI ovh e => ovh + dens e
    | .tagged _ cs d => max (densCases cs) (dens d)
    | _ => 0
  def densFields : List Ty → Nat
    | [] => 0
    | t :: ts => max (dens t) (densFields ts)
  def densCases : List (Nat × Ty) → Nat
    | [] => 0
    | (_, ty) :: cs => max (dens ty) (densCases cs)
end

/- what a *failing* read may have allocated beyond `dens · |input|` (the `C` of the bound):
    one var-bytes buffer of up to `max` bytes that the input did not fill, one pre-sized slice. -/
mutual
  def slack : Ty → Nat
    | .varBytes max => bufCost max
    | .struct fs => slackFields fs
    | .list _ lim pre _ e => pre * (lim.getD 0) + slack e
    | .listI _ e => slack e
    | .tagged _ cs d => max (slackCases cs) (slack d)
    | _ => 0
  def slackFields : List Ty → Nat
    | [] => 0
    | t :: ts => max (slack t) (slackFields ts)
  def slackCases : List (Nat × Ty) → Nat
    | [] => 0
    | (_, ty) :: cs => max (slack ty) (slackCases cs)
end

/- the reader's allocation is controlled by the input: every list has elements of at least one
    byte, and a list that is pre-sized from the wire count has a count limit. -/
mutual
  def bounded : Ty → Bool
    | .struct fs => boundedFields fs
    | .list _ lim pre _ e => decide (1 ≤ minSize e) && (pre == 0 || lim.isSome) && bounded e
    | .listI _ e => decide (1 ≤ minSize e) && bounded e
    | .tagged _ cs d => boundedCases cs && bounded d
    | _ => true
  def boundedFields : List Ty → Bool
    | [] => true
    | t :: ts => bounded t && boundedFields ts
  def boundedCases : List (Nat × Ty) → Bool
    | [] => true
    | (_, ty) :: cs => bounded ty && boundedCases cs
end

end ElaVerif.Wire
