/-
  Merkle root as computed by `crypto/merkletree.go` (ComputeRoot / NewMerkleTree /
  levelUp) and the transaction-list part of `BlockChain.CheckBlockSanity`
  (blockchain/blockvalidator.go).  Core Lean only.

  The node hash is a parameter `H : α → α → α` (Go: `ComputeParent`, double
  SHA-256 of the 64-byte concatenation).  The driver instantiates `α` with
  byte lists and `H` with `sha256d (l ++ r)`.
-/
namespace ElaVerif.Merkle

variable {α : Type}

/-- `levelUp`: pairs are hashed; an odd last node is hashed **with itself**. -/
def levelUp (H : α → α → α) : List α → List α
  | [] => []
  | [a] => [H a a]
  | a :: b :: rest => H a b :: levelUp H rest

/-- `for len(nodes) > 1 { nodes = levelUp(nodes) }` with explicit fuel. -/
def treeLoop (H : α → α → α) : Nat → List α → List α
  | 0, nodes => nodes
  | fuel + 1, nodes => if nodes.length > 1 then treeLoop H fuel (levelUp H nodes) else nodes

inductive Res (α : Type) where
  | ok (root : α)
  | err        -- "NewMerkleTree input no item error."
  | panic      -- nodes[0] on an empty slice (proved unreachable)
  deriving Repr, DecidableEq

/-- `NewMerkleTree(hashes).Root.Hash` (fuel = number of leaves; every round at least halves). -/
def newTreeRoot (H : α → α → α) (hashes : List α) : Res α :=
  if hashes.length = 0 then .err else
  match treeLoop H hashes.length hashes with
  | r :: _ => .ok r
  | [] => .panic

/-- `crypto.ComputeRoot`. -/
def computeRoot (H : α → α → α) (hashes : List α) : Res α :=
  if hashes.length = 0 then .err
  else match hashes with
    | [h] => .ok h
    | _ => newTreeRoot H hashes

/-! ### transaction part of `CheckBlockSanity` -/

/-- What the sanity check looks at in one transaction.  `sane` is the verdict of
    `CheckTransactionSanity` (outside this property), `inputs` the refer keys. -/
structure Tx (α κ : Type) where
  id : α
  coinbase : Bool
  sane : Bool
  inputs : List κ

inductive SanityErr where
  | noTx | firstNotCoinbase | secondCoinbase | dupTx | txSanity | dupInput | dupSpecial | rootFail | badRoot
  deriving Repr, DecidableEq

/-- `for _, input := range txn.Inputs()`: duplicate refer key ⇒ `none`. -/
def inputLoop {κ : Type} [DecidableEq κ] : List κ → List κ → Option (List κ)
  | [], seen => some seen
  | k :: ks, seen => if k ∈ seen then none else inputLoop ks (k :: seen)

/-- the `for _, txn := range block.Transactions` loop: duplicate id, tx sanity, duplicate inputs. -/
def txLoop {κ : Type} [DecidableEq α] [DecidableEq κ] :
    List (Tx α κ) → List α → List κ → Except SanityErr (List α)
  | [], seenIds, _ => .ok seenIds.reverse
  | t :: rest, seenIds, seenIn =>
    if t.id ∈ seenIds then .error .dupTx
    else if !t.sane then .error .txSanity
    else
      match inputLoop t.inputs seenIn with
      | none => .error .dupInput
      | some seenIn' => txLoop rest (t.id :: seenIds) seenIn'

/-- Transaction-list part of `CheckBlockSanity` (everything after the size checks),
    `special = false` iff `CheckDuplicateTx` fails. -/
def blockSanityTx {κ : Type} [DecidableEq α] [DecidableEq κ] (H : α → α → α)
    (hdrRoot : α) (txs : List (Tx α κ)) (special : Bool) : Option SanityErr :=
  match txs with
  | [] => some .noTx
  | first :: others =>
    if !first.coinbase then some .firstNotCoinbase
    else if others.any (·.coinbase) then some .secondCoinbase
    else match txLoop txs [] [] with
      | .error e => some e
      | .ok ids =>
        if !special then some .dupSpecial
        else match computeRoot H ids with
          | .ok r => if r = hdrRoot then none else some .badRoot
          | _ => some .rootFail

/-! ### the size clauses of `CheckBlockSanity` -/

/-- `pact.MaxTxPerBlock`, `pact.MaxBlockHeaderSize`, `pact.MaxBlockContextSize` -/
structure Limits where
  maxTx : Nat
  maxHdr : Nat
  maxCtx : Nat

inductive SizeErr where
  | noTx | tooMany | hdrBig | blkBig
  deriving Repr, DecidableEq

/-- "at least one transaction", "not more than MaxTxPerBlock", header size, block size — in this order -/
def sizeChecks (L : Limits) (numTx hdrSize blkSize : Nat) : Option SizeErr :=
  if numTx = 0 then some .noTx
  else if numTx > L.maxTx then some .tooMany
  else if hdrSize > L.maxHdr then some .hdrBig
  else if blkSize > L.maxCtx + L.maxHdr then some .blkBig
  else none

/-! ### `CheckDuplicateTx`: unique payload keys per block -/

/-- what `CheckDuplicateTx` looks at in one transaction; `ok = false`: the payload has another Go type
    than the transaction type announces (failed type assertion) -/
inductive SpTx where
  | sponsor
  | withdraw (ok : Bool) (hashes : List String)
  | regProducer (ok : Bool) (owner node : String)
  | updProducer (ok : Bool) (owner node : String)
  | cancelProducer (ok : Bool) (owner : String)
  | regCR (ok : Bool) (cid : String)
  | updCR (ok : Bool) (cid : String)
  | unregCR (ok : Bool) (cid : String)
  | other
  deriving Repr, DecidableEq

inductive DupErr where
  | dupSponsor | dupSide | badRegProducer | badUpdProducer | badCancelProducer | dupProducer | dupNode
  | badRegCR | badUpdCR | badUnregCR | dupCR
  | panic      -- unchecked type assertion of the WithdrawFromSideChain payload
  deriving Repr, DecidableEq

structure DupSt where
  sponsors : Nat := 0
  sides : List String := []
  owners : List String := []
  nodes : List String := []
  crs : List String := []

def checkDuplicateTx : List SpTx → DupSt → Option DupErr
  | [], _ => none
  | t :: rest, st =>
    match t with
    | .sponsor =>
      if st.sponsors + 1 > 1 then some .dupSponsor
      else checkDuplicateTx rest { st with sponsors := st.sponsors + 1 }
    | .withdraw ok hashes =>
      if !ok then some .panic else
      match inputLoop hashes st.sides with
      | none => some .dupSide
      | some sides => checkDuplicateTx rest { st with sides := sides }
    | .regProducer ok owner node =>
      if !ok then some .badRegProducer
      else if owner ∈ st.owners then some .dupProducer
      else if node ∈ st.nodes then some .dupNode
      else checkDuplicateTx rest { st with owners := owner :: st.owners, nodes := node :: st.nodes }
    | .updProducer ok owner node =>
      if !ok then some .badUpdProducer
      else if owner ∈ st.owners then some .dupProducer
      else if node ∈ st.nodes then some .dupNode
      else checkDuplicateTx rest { st with owners := owner :: st.owners, nodes := node :: st.nodes }
    | .cancelProducer ok owner =>
      if !ok then some .badCancelProducer
      else if owner ∈ st.owners then some .dupProducer
      else checkDuplicateTx rest { st with owners := owner :: st.owners }
    | .regCR ok cid =>
      if !ok then some .badRegCR
      else if cid ∈ st.crs then some .dupCR
      else checkDuplicateTx rest { st with crs := cid :: st.crs }
    | .updCR ok cid =>
      if !ok then some .badUpdCR
      else if cid ∈ st.crs then some .dupCR
      else checkDuplicateTx rest { st with crs := cid :: st.crs }
    | .unregCR ok cid =>
      if !ok then some .badUnregCR
      else if cid ∈ st.crs then some .dupCR
      else checkDuplicateTx rest { st with crs := cid :: st.crs }
    | .other => checkDuplicateTx rest st

/-! ### merkle branch evaluation (`auxpow.GetMerkleRoot`, used by C08 and C10) -/

/-- the loop of `GetMerkleRoot`: `index & 1` selects the side, `index >>= 1` (Go `int`,
    arithmetic shift; modelled on `Int` with floor semantics). -/
def branchFold (H : α → α → α) : α → List α → Int → α
  | h, [], _ => h
  | h, it :: rest, idx => branchFold H (if idx % 2 = 1 then H it h else H h it) rest (idx >>> 1)

/-- `auxpow.GetMerkleRoot(hash, branch, index)`; `zero` is `common.Uint256{}`. -/
def branchRoot (H : α → α → α) (zero : α) (hash : α) (branch : List α) (index : Int) : α :=
  if index = -1 then zero else branchFold H hash branch index

end ElaVerif.Merkle
