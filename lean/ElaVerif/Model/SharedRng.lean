/-
  C24 — random candidate selection next to concurrent users of the process-global generator
  (core Lean only).

  Mirrors dpos/state/arbitrators.go : getCandidateIndexAtRandom (both the old variant — seed and
  draw on the process-global math/rand generator — and the current one — a generator private to
  the call), and the sorted-producer order used before it.

  The generator is abstract (`Gen`): `seed` builds a state from a 64-bit seed, `intn` draws a
  number below `n` and advances the state.  math/rand's algorithm is not modelled; its first
  draw for a given seed travels in the op line (computed by Go on a fresh private source).
-/
namespace ElaVerif.SharedRng

structure Gen (σ : Type) where
  seed : Int → σ
  intn : σ → Nat → Nat × σ

/-- what another goroutine may do to the process-global generator -/
inductive EnvOp
  | draw (n : Nat)     -- rand.Intn(n), rand.Int(), rand.Uint64(), … : advances the shared state
  | reseed (s : Int)   -- rand.Seed(s)
  deriving DecidableEq, Repr

def envStep {σ : Type} (G : Gen σ) : EnvOp → σ → σ
  | .draw n, g => (G.intn g n).2
  | .reseed s, _ => G.seed s

/-- the environment's actions, in schedule order, on the shared state -/
def runEnv {σ : Type} (G : Gen σ) (sched : List EnvOp) (g : σ) : σ :=
  sched.foldl (fun g op => envStep G op g) g

inductive Kind
  | global   -- rand.Seed(s); …; rand.Intn(n)          (old code)
  | «local»  -- r := rand.New(rand.NewSource(s)); …; r.Intn(n)   (current code)
  deriving DecidableEq, Repr

/-- The selection thread `[seed s; ⟨environment runs `sched`⟩; draw n]`.
    Returns the drawn value and the shared state afterwards. -/
def select {σ : Type} (G : Gen σ) (kind : Kind) (s : Int) (n : Nat) (sched : List EnvOp) (g0 : σ) : Nat × σ :=
  match kind with
  | .global =>
      let g1 := G.seed s              -- overwrites the shared state
      let g2 := runEnv G sched g1     -- the others act on the same state
      G.intn g2 n
  | .local =>
      let p := G.seed s               -- private state
      let g2 := runEnv G sched g0     -- the others act on the shared state only
      ((G.intn p n).1, g2)

inductive Err | noBlock | notEnough
  deriving DecidableEq, Repr

/-- `count`/`candidatesCount` of getCandidateIndexAtRandom (Go `int` arithmetic, no overflow at these sizes) -/
def candidatesCount (voted unclaimed normal candidates : Int) : Option Int :=
  let count := voted - unclaimed - (normal - 1)
  if count < 1 then none else some (min count (candidates + 1))

/-- `getCandidateIndexAtRandom`: `seed?` is `none` when the previous block is not found -/
def candidateIndex {σ : Type} (G : Gen σ) (kind : Kind) (seed? : Option Int)
    (voted unclaimed normal candidates : Int) (sched : List EnvOp) (g0 : σ) : Except Err Nat :=
  match seed? with
  | none => .error .noBlock
  | some s =>
    match candidatesCount voted unclaimed normal candidates with
    | none => .error .notEnough
    | some c => .ok (select G kind s c.toNat sched g0).1

/-! ### `getSortedProducersWithRandom`: the random candidate takes the last normal seat -/

/-- element `i` moved to position `pos ≤ i`, everything else in order
    (`append(l[:pos], l[i], l[pos:i]..., l[i+1:]...)`) -/
def moveTo {α : Type} (l : List α) (pos i : Nat) : List α :=
  match l[i]? with
  | some x => l.take pos ++ [x] ++ (l.drop pos).take (i - pos) ++ l.drop (i + 1)
  | none => l

/-- `LastRandomCandidateHeight` / `LastRandomCandidateOwner` -/
structure LastRandom where
  height : Nat
  owner : List Nat
  deriving DecidableEq, Repr

/-- `getSortedProducersWithRandom` on the sorted owner keys (all producers active, heights at or
    above `NoCRCDPOSNodeHeight`).  Within `period` blocks of the last draw the previous candidate
    keeps the seat if it still ranks behind the normal seats; otherwise a new candidate is drawn
    (`height - last.height` is a `uint32` subtraction). -/
def withRandom {σ : Type} (G : Gen σ) (kind : Kind) (seed? : Option Int) (owners : List (List Nat))
    (unclaimed normal cands : Int) (period height : Nat) (last : LastRandom)
    (sched : List EnvOp) (g0 : σ) : Except Err (List (List Nat) × LastRandom) :=
  let seat := (unclaimed + normal - 1).toNat
  let keep : Option Nat :=
    if last.height ≠ 0 ∧ (height + 4294967296 - last.height) % 4294967296 < period then
      match owners.findIdx? (· == last.owner) with
      | some i => if (i : Int) < unclaimed + normal - 1 then none else some i
      | none => none
    else none
  match keep with
  | some i => .ok (moveTo owners seat i, last)
  | none =>
    match candidateIndex G kind seed? owners.length unclaimed normal cands sched g0 with
    | .error e => .error e
    | .ok idx => .ok (moveTo owners seat (seat + idx), ⟨height, owners.getD (seat + idx) []⟩)

/-! ### the DPoS v2 selection (`getRandomDposV2Producers`) -/

/-- the selection loop: `c` times draw an index below the current length and move that key to the
    output; the keys left over follow in their order.  (`acc` is the output so far, reversed.) -/
def pickLoop {σ α : Type} (G : Gen σ) : Nat → σ → List α → List α → List α × σ
  | 0, g, keys, acc => (acc.reverse ++ keys, g)
  | c + 1, g, keys, acc =>
    let r := G.intn g keys.length
    match keys[r.1]? with
    | some k => pickLoop G c r.2 (keys.eraseIdx r.1) (k :: acc)
    | none => (acc.reverse ++ keys, r.2)     -- not reachable: `Intn(n) < n`

/-- `getRandomDposV2Producers` after the candidate keys are collected: if there are more keys than
    seats, `count` of them are drawn; the environment acts at the hook point between seeding and
    the first draw. -/
def randomV2 {σ α : Type} (G : Gen σ) (kind : Kind) (s : Int) (keys : List α) (count : Nat)
    (sched : List EnvOp) (g0 : σ) : List α :=
  if keys.length > count then
    match kind with
    | .local => (pickLoop G count (G.seed s) keys []).1
    | .global => (pickLoop G count (runEnv G sched (G.seed s)) keys []).1
  else keys

/-! ### CR node-owner keys across a committee change (`dpos/state.State.handleEvents`, claim-node) -/

/-- `CurrentCRNodeOwnerKeys` / `NextCRNodeOwnerKeys`: node key ↦ owner key of the council member -/
structure NodeKeys where
  current : List (Nat × Nat)
  next : List (Nat × Nat)
  deriving DecidableEq, Repr

/-- the DPoS state's handler of `ETCRCChangeCommittee`: the next term's keys become current -/
def onCommitteeChange (s : NodeKeys) : NodeKeys := ⟨s.next, []⟩

/-- a current-term `CRCouncilMemberClaimNode`: the member's node key is replaced by `node` -/
def onClaim (s : NodeKeys) (node owner : Nat) : NodeKeys :=
  ⟨(node, owner) :: s.current.filter (fun p => p.2 != owner), s.next⟩

def ownerOf (s : NodeKeys) (node : Nat) : Option Nat := (s.current.find? (fun p => p.1 == node)).map (·.2)

/-- chain order — committee change in block H, claim in block H+1 — which synchronous delivery of
    the event guarantees -/
def syncRun (s : NodeKeys) (node owner : Nat) : NodeKeys := onClaim (onCommitteeChange s) node owner

/-- the handler of the committee change runs after the claim of the next block was processed
    (possible only if the notification is delivered on another goroutine) -/
def lateRun (s : NodeKeys) (node owner : Nat) : NodeKeys := onCommitteeChange (onClaim s node owner)

/-! ### order in which the checkpoint manager notifies its listeners -/

/-- insertion into a list sorted by priority (strictly smaller first) -/
def insertByPrio (x : String × Nat) : List (String × Nat) → List (String × Nat)
  | [] => [x]
  | y :: ys => if x.2 < y.2 then x :: y :: ys else y :: insertByPrio x ys

/-- `getOrderedCheckpoints`: the registered checkpoints (a Go map: any order) sorted by
    `Priority()`; `none` when two priorities tie — then `sort.Slice` leaves the order to the map
    iteration and the notification order is not a function of the registered set. -/
def checkpointOrder (cps : List (String × Nat)) : Option (List String) :=
  if (cps.map (·.2)).Nodup then some ((cps.foldr insertByPrio []).map (·.1)) else none

/-! ### order of the voted producers -/

/-- a producer as the sort sees it: votes and node public key (bytes compared lexicographically) -/
structure Producer where
  votes : Int
  key : List Nat
  deriving DecidableEq, Repr

def keyLt : List Nat → List Nat → Bool
  | [], [] => false
  | [], _ :: _ => true
  | _ :: _, [] => false
  | a :: as, b :: bs => if a < b then true else if b < a then false else keyLt as bs

/-! #### order of the council members (`Committee.GetAllMembersCopy`) -/

/-- `Uint168.Compare` is "less": the bytes are compared from the last one down -/
def didLt (a b : List Nat) : Bool := keyLt a.reverse b.reverse

/-- the `less` function of getSortedProducers: more votes first, ties by smaller node key -/
def before (p q : Producer) : Bool :=
  if p.votes == q.votes then keyLt p.key q.key else decide (p.votes > q.votes)

end ElaVerif.SharedRng
