import ElaVerif.Model.Fixed64
/-
  Reward — block subsidy schedule (common/config/config.go: GetBlockReward,
  newRewardPerBlock) and the DPoS-v2 coinbase rule
  (blockchain/blockvalidator.go: checkCoinbaseTransactionContext, first branch;
  pow/service.go: AssignCoinbaseTxRewards, first branch).

  Schedule.  Go computes
      Fixed64( float64(newInflationPerYear) / float64(blocksPerYear) / math.Pow(2, float64(factor-1)) )
  The quotient Q of the first division is one fixed float64; dividing a float64 by a
  power of two is exact (no rounding) as long as the result stays normal, and the
  conversion truncates, so the result is ⌊Q / 2^k⌋ = ⌊Q⌋ >> k.  `base` below is ⌊Q⌋ (regenerated
  from the code: the reward at factor 1).  For k ≥ 1024 `math.Pow` is +Inf and the quotient 0,
  which ⌊Q⌋ >> k also is.  The driver additionally evaluates the float expression with Lean's
  hardware `Float` (bit-compatible with Go for / and *), see Driver/C11.lean.
  `factor` is `uint32` arithmetic in Go and is modelled with its wrap.

  Coinbase rule.  The two float expressions `Fixed64(math.Ceil(float64(total) * 0.3))` and
  `… * 0.35` are parameters `cr dp : Fixed64 → Fixed64` of the model (the driver instantiates
  them with hardware floats); every theorem holds for arbitrary `cr`, `dp`.

  Core Lean only.
-/
namespace ElaVerif.Reward
open ElaVerif.Fixed64

structure Params where
  newIssuanceHeight : Nat   -- NewELAIssuanceHeight
  halvingHeight : Nat       -- HalvingRewardHeight
  halvingInterval : Nat     -- HalvingRewardInterval
  oldReward : Int           -- PowConfiguration.RewardPerBlock
  base : Nat                -- ⌊float64(newInflationPerYear) / float64(blocksPerYear)⌋
  deriving DecidableEq, Repr

def u32 : Nat := 4294967296

/-- `factor` of newRewardPerBlock (uint32 arithmetic); `none` = integer divide by zero panic -/
def factor (p : Params) (h : Nat) : Option Nat :=
  if h < p.halvingHeight then some 1
  else if p.halvingInterval = 0 then none
  else some ((2 + (h - p.halvingHeight) / p.halvingInterval) % u32)

/-- exponent handed to math.Pow: `factor-1` in uint32 -/
def halvings (f : Nat) : Nat := (f + u32 - 1) % u32

/-- GetBlockReward -/
def blockReward (p : Params) (h : Nat) : Option Int :=
  if h < p.newIssuanceHeight then some p.oldReward
  else match factor p h with
    | none => none
    | some f => some (Int.ofNat (p.base >>> halvings f))

/-! ### coinbase of a DPoS-v2 block -/

inductive Addr | crAssets | destroy | stakeReward | other (n : Nat)
  deriving DecidableEq, Repr

structure Out where
  value : Fixed64
  addr : Addr
  deriving DecidableEq, Repr

inductive CbErr
  | crValue | minerValue | count | dposValue | dposAddr | crAddr
  deriving DecidableEq, Repr

inductive CbRes
  | ok
  | err (e : CbErr)
  | panic            -- index out of range on Outputs()[0] / [1]
  | legacy           -- not the DPoS-v2 branch
  deriving DecidableEq, Repr

/-- `activeHeight != math.MaxUint32 && blockHeight > activeHeight+1` (uint32) -/
def isV2 (active h : Nat) : Bool := active != u32 - 1 && h > (active + 1) % u32

/-- checkCoinbaseTransactionContext, DPoS-v2 branch.  `total = totalTxFee + GetBlockReward(h)`,
    `dposReward` = what GetBlockDPOSReward computed (from Σ tx.Fee()). -/
def coinbaseV2Check (cr dp : Fixed64 → Fixed64) (powMode : Bool)
    (fees reward dposReward : Fixed64) (outs : List Out) : CbRes :=
  let total := fees + reward
  let rewardCR := cr total
  let rewardDpos := dp total
  let rewardMiner := total - rewardCR - rewardDpos
  match outs with
  | [] => .panic
  | o0 :: rest =>
    if o0.value != rewardCR then .err .crValue else
    match rest with
    | [] => .panic
    | o1 :: rest2 =>
      if o1.value != rewardMiner then .err .minerValue else
      match rest2 with
      | [o2] =>
        if o2.value != dposReward then .err .dposValue
        else if powMode then
          if o2.addr != .destroy then .err .dposAddr
          else if o0.addr != .destroy then .err .crAddr
          else .ok
        else
          if o0.addr != .crAssets then .err .crAddr
          else if o2.addr != .stakeReward then .err .dposAddr
          else .ok
      | _ => .err .count

def coinbaseCheck (cr dp : Fixed64 → Fixed64) (active h : Nat) (powMode : Bool)
    (fees reward dposReward : Fixed64) (outs : List Out) : CbRes :=
  if isV2 active h then coinbaseV2Check cr dp powMode fees reward dposReward outs else .legacy

/-- checkTxsContext around the coinbase check: when the check fails for a block below
    `CheckRewardHeight`, `err` is overwritten by the (nil) result of `block.Serialize` — the failure
    is logged and the block goes through.  From `CheckRewardHeight` on the error is returned. -/
def blockVerdict (checkRewardHeight h : Nat) (res : CbRes) : CbRes :=
  match res with
  | .err e => if h < checkRewardHeight then .ok else .err e
  | r => r

/-- AssignCoinbaseTxRewards, DPoS-v2 branch, applied to the two-output coinbase of
    CreateCoinbaseTx (`[CR address, miner address]`). -/
def assignV2 (cr dp : Fixed64 → Fixed64) (powMode : Bool) (total : Fixed64)
    (crAddr minerAddr : Addr) : List Out :=
  let rewardCR := cr total
  let rewardDpos := dp total
  let rewardMiner := total - rewardCR - rewardDpos
  let a0 := if powMode then Addr.destroy else crAddr
  let dposAddr := if powMode then Addr.destroy else Addr.stakeReward
  let two := [Out.mk rewardCR a0, Out.mk rewardMiner minerAddr]
  if lt 0 rewardDpos then two ++ [Out.mk rewardDpos dposAddr] else two

/-! ### the oldest coinbase rule, heights [0, PublicDPOSHeight) -/

/-- AssignCoinbaseTxRewards, last branch: CR part `Fixed64(float64(total)*0.3)`, miner part
    `Fixed64(float64(total)*0.35)` (truncating conversions, parameters `tr30 tr35`), the rest to the
    foundation address as a third output -/
def assignLegacy (tr30 tr35 : Fixed64 → Fixed64) (total : Fixed64) (crAddr minerAddr fndAddr : Addr) : List Out :=
  let rewardCR := tr30 total
  let rewardMiner := tr35 total
  [Out.mk rewardCR crAddr, Out.mk rewardMiner minerAddr, Out.mk (total - rewardCR - rewardMiner) fndAddr]

/-- checkCoinbaseTransactionContext, last branch: `Σ outputs − totalTxFee == GetBlockReward(h)` -/
def coinbaseLegacyCheck (fees reward : Fixed64) (outs : List Out) : Bool :=
  sumW (outs.map (·.value)) - fees == reward

end ElaVerif.Reward
