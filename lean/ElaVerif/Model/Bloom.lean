/-
  Executable model of /repo/elanet/bloom/filter.go (core Lean only).

  * `Filter` = the fields of `msg.FilterLoad` the filter code reads
    (`Filter []byte`, `HashFuncs`, `Tweak`, `TxTypes`).  A `bloom.Filter` whose
    `msg` is nil is not modelled: the node never calls `Unload`, `TxFilter.Load`
    always installs a non-nil message.
  * Every function is parametric in the hash `mm : UInt32 → List UInt8 → UInt32`
    (`MurmurHash3` in the code, `ElaVerif.Murmur3.murmur3` in the driver).
  * A Go run-time panic (integer divide by zero in `hash`, index out of range on
    `Filter[idx>>3]`) is the explicit value `none`.
  * uint32 arithmetic wraps exactly as in Go (`UInt32`).
-/
namespace ElaVerif.Bloom

abbrev Bytes := List UInt8
abbrev Murmur := UInt32 → Bytes → UInt32

structure Filter where
  bits : Bytes          -- msg.Filter
  hashFuncs : UInt32    -- msg.HashFuncs
  tweak : UInt32        -- msg.Tweak
  txTypes : List UInt8  -- msg.TxTypes
deriving DecidableEq, Repr

/-- `uint32(len(bf.msg.Filter)) << 3` -/
def modulus (len : Nat) : UInt32 := UInt32.ofNat len <<< 3

/-- `Filter.hash`: `MurmurHash3(hashNum*0xfba4c795+tweak, data) % (uint32(len) << 3)`;
    `none` = integer divide by zero. -/
def hash (mm : Murmur) (len : Nat) (tweak i : UInt32) (d : Bytes) : Option UInt32 :=
  if modulus len = 0 then none else some (mm (i * 0xfba4c795 + tweak) d % modulus len)

/-- `1 << (idx & 7)` as a byte -/
def mask (idx : UInt32) : UInt8 := 1 <<< (idx &&& 7).toUInt8

/-- `Filter[idx>>3] & (1<<(idx&7)) != 0`; `none` = index out of range. -/
def testBit (bits : Bytes) (idx : UInt32) : Option Bool :=
  match bits[(idx >>> 3).toNat]? with
  | none => none
  | some b => some (b &&& mask idx != 0)

/-- `Filter[idx>>3] |= 1 << (7 & idx)`; `none` = index out of range. -/
def setBit (bits : Bytes) (idx : UInt32) : Option Bytes :=
  match bits[(idx >>> 3).toNat]? with
  | none => none
  | some b => some (bits.set (idx >>> 3).toNat (b ||| mask idx))

/-- the loop of `matches`: `n` iterations left, loop variable `i`. -/
def matchesLoop (mm : Murmur) (tweak : UInt32) (d : Bytes) (bits : Bytes) : Nat → UInt32 → Option Bool
  | 0, _ => some true
  | n + 1, i =>
    match hash mm bits.length tweak i d with
    | none => none
    | some idx =>
      match testBit bits idx with
      | none => none
      | some false => some false
      | some true => matchesLoop mm tweak d bits n (i + 1)

/-- `Filter.matches` (after the `fix:` guard: a filter without bits matches everything). -/
def «matches» (mm : Murmur) (f : Filter) (d : Bytes) : Option Bool :=
  if f.bits.length = 0 then some true
  else matchesLoop mm f.tweak d f.bits f.hashFuncs.toNat 0

/-- `matches` as it was before the guard (kept for the negation witness). -/
def matchesUnguarded (mm : Murmur) (f : Filter) (d : Bytes) : Option Bool :=
  matchesLoop mm f.tweak d f.bits f.hashFuncs.toNat 0

/-- the loop of `add`. -/
def addLoop (mm : Murmur) (tweak : UInt32) (d : Bytes) : Bytes → Nat → UInt32 → Option Bytes
  | bits, 0, _ => some bits
  | bits, n + 1, i =>
    match hash mm bits.length tweak i d with
    | none => none
    | some idx =>
      match setBit bits idx with
      | none => none
      | some bits' => addLoop mm tweak d bits' n (i + 1)

/-- `Filter.add` (after the `fix:` guard: adding to a filter without bits is a no-op). -/
def add (mm : Murmur) (f : Filter) (d : Bytes) : Option Filter :=
  if f.bits.length = 0 then some f
  else match addLoop mm f.tweak d f.bits f.hashFuncs.toNat 0 with
    | none => none
    | some bits' => some { f with bits := bits' }

def addUnguarded (mm : Murmur) (f : Filter) (d : Bytes) : Option Filter :=
  match addLoop mm f.tweak d f.bits f.hashFuncs.toNat 0 with
  | none => none
  | some bits' => some { f with bits := bits' }

/-- adding a list of elements one after the other (`filteradd` messages). -/
def addAll (mm : Murmur) : Filter → List Bytes → Option Filter
  | f, [] => some f
  | f, d :: ds => match add mm f d with
    | none => none
    | some f' => addAll mm f' ds

/-- `Filter.Reload(msg)`: the object's filter is replaced; nothing of the previous filter (in
    particular no size derived from it) takes part in later operations. -/
def reload (_current new : Filter) : Filter := new

/-! ### outpoints -/

/-- `OutPoint.Bytes()`: 32-byte tx id followed by the little-endian uint16 index. -/
def opBytes (txid : Bytes) (index : Nat) : Bytes :=
  txid ++ [UInt8.ofNat (index % 256), UInt8.ofNat (index / 256 % 256)]

structure OutPoint where
  txid : Bytes
  index : Nat     -- uint16
deriving DecidableEq, Repr

def OutPoint.bytes (op : OutPoint) : Bytes := opBytes op.txid op.index

def addOutPoint (mm : Murmur) (f : Filter) (op : OutPoint) : Option Filter := add mm f op.bytes
def matchesOutPoint (mm : Murmur) (f : Filter) (op : OutPoint) : Option Bool := «matches» mm f op.bytes

/-! ### transactions -/

/-- what `matchTxAndUpdate` reads of a transaction -/
structure Tx where
  hash : Bytes            -- txn.Hash()
  txType : UInt8          -- txn.TxType()
  outputs : List Bytes    -- ProgramHash of every output, in order
  inputs : List OutPoint  -- Previous of every input, in order
deriving DecidableEq, Repr

/-- side-chain SPV branch: `for _, txOut := range outputs { if matches(ph) { return true } }` -/
def anyOutput (mm : Murmur) (f : Filter) : List Bytes → Option Bool
  | [] => some false
  | ph :: rest => match «matches» mm f ph with
    | none => none
    | some true => some true
    | some false => anyOutput mm f rest

/-- the output loop: `if !matches(ph) {continue}; matched = true; addOutPoint(NewOutPoint(hash, uint16(i)))` -/
def outLoop (mm : Murmur) (h : Bytes) : List Bytes → Nat → Bool → Filter → Option (Bool × Filter)
  | [], _, m, f => some (m, f)
  | ph :: rest, i, m, f =>
    match «matches» mm f ph with
    | none => none
    | some false => outLoop mm h rest (i + 1) m f
    | some true =>
      match add mm f (opBytes h (i % 65536)) with
      | none => none
      | some f' => outLoop mm h rest (i + 1) true f'

/-- the input loop -/
def anyInput (mm : Murmur) (f : Filter) : List OutPoint → Option Bool
  | [] => some false
  | op :: rest => match matchesOutPoint mm f op with
    | none => none
    | some true => some true
    | some false => anyInput mm f rest

/-- `Filter.matchTxAndUpdate`; result = (return value, filter afterwards). -/
def matchTxAndUpdate (mm : Murmur) (f : Filter) (tx : Tx) : Option (Bool × Filter) :=
  match «matches» mm f tx.hash with
  | none => none
  | some matched =>
    if f.tweak = 0xffffffff then
      -- side chain SPV filter
      if f.txTypes.length ≠ 0 ∧ f.txTypes.contains tx.txType then some (true, f)
      else if f.bits.length ≠ 0 then
        match anyOutput mm f tx.outputs with
        | none => none
        | some r => some (r, f)
      else some (false, f)
    else
      match outLoop mm tx.hash tx.outputs 0 matched f with
      | none => none
      | some (true, f') => some (true, f')
      | some (false, f') =>
        match anyInput mm f' tx.inputs with
        | none => none
        | some r => some (r, f')

/-! ### `filterload` from the wire: `msg.FilterLoad.Deserialize` + `bloom.LoadFilter` (= `TxFilter.Load`) -/

def maxFilterLoadFilterSize : Nat := 36000
def maxFilterLoadHashFuncs : Nat := 50

/-- little-endian number of the first `n` bytes; `none` = `io.ReadFull` error (too few bytes). -/
def readLE : Nat → Bytes → Option (Nat × Bytes)
  | 0, r => some (0, r)
  | _ + 1, [] => none
  | n + 1, b :: r => match readLE n r with
    | none => none
    | some (v, r') => some (b.toNat + 256 * v, r')

inductive VarErr
  | eof      -- io.EOF: not a single byte could be read by the failing read
  | other    -- io.ErrUnexpectedEOF or a non-canonical encoding
deriving DecidableEq, Repr

/-- the wider read of `ReadVarUint`: `n` bytes, at least `min` -/
def readVarWide (n min : Nat) (r : Bytes) : Except VarErr (Nat × Bytes) :=
  match readLE n r with
  | none => if r.isEmpty then .error .eof else .error .other
  | some (v, r') => if v < min then .error .other else .ok (v, r')

/-- `common.ReadVarUint` (canonical encodings only) -/
def readVarUint : Bytes → Except VarErr (Nat × Bytes)
  | [] => .error .eof
  | d :: r =>
    if d = 0xff then readVarWide 8 0x100000000 r
    else if d = 0xfe then readVarWide 4 0x10000 r
    else if d = 0xfd then readVarWide 2 0xfd r
    else .ok (d.toNat, r)

/-- `FilterLoad.Deserialize`; `none` = an error is returned (the peer is disconnected). -/
def loadFilter (b : Bytes) : Option Filter :=
  match readVarUint b with
  | .error _ => none
  | .ok (count, r) =>
    if count > maxFilterLoadFilterSize then none
    else if r.length < count then none
    else
      let bits := r.take count
      match readLE 4 (r.drop count) with
      | none => none
      | some (hf, r1) =>
        match readLE 4 r1 with
        | none => none
        | some (tw, r2) =>
          if hf > maxFilterLoadHashFuncs then none
          else match r2 with
            | [] => none                      -- Flags
            | _flags :: r3 =>
              match readVarUint r3 with
              | .error .eof => some ⟨bits, UInt32.ofNat hf, UInt32.ofNat tw, []⟩   -- `if err == io.EOF { return nil }`
              | .error .other => none
              | .ok (n, r4) => some ⟨bits, UInt32.ofNat hf, UInt32.ofNat tw, r4.take n⟩  -- loop stops silently at the end

/-! ### the encoder side: `FilterLoad.Serialize` -/

/-- `n` as `k` little-endian bytes -/
def leBytes : Nat → Nat → Bytes
  | 0, _ => []
  | k + 1, n => UInt8.ofNat (n % 256) :: leBytes k (n / 256)

/-- `common.WriteVarUint` -/
def writeVarUint (n : Nat) : Bytes :=
  if n < 0xfd then [UInt8.ofNat n]
  else if n ≤ 0xffff then 0xfd :: leBytes 2 n
  else if n ≤ 0xffffffff then 0xfe :: leBytes 4 n
  else 0xff :: leBytes 8 n

/-- `FilterLoad.Serialize` (after its own size checks passed) -/
def encodeFilterLoad (f : Filter) (flags : UInt8) : Bytes :=
  writeVarUint f.bits.length ++ f.bits ++ leBytes 4 f.hashFuncs.toNat ++ leBytes 4 f.tweak.toNat ++ [flags] ++
    writeVarUint f.txTypes.length ++ f.txTypes

/-- `FilterLoad.Serialize` with its two size checks; `none` = an error is returned -/
def serializeFilterLoad (f : Filter) (flags : UInt8) : Option Bytes :=
  if f.bits.length > maxFilterLoadFilterSize then none
  else if f.hashFuncs.toNat > maxFilterLoadHashFuncs then none
  else some (encodeFilterLoad f flags)

end ElaVerif.Bloom
