/-
  C34 — executable model of the transaction pool (`mempool/txpool.go`,
  `txfeeorderedlist.go`, `conflictmanager.go`, `conflictslot.go`, `conflictfunc.go`).

  Core Lean only.  Transactions are abstract: an id (standing for the hash), type, payload
  version, serialized size, fee (as set by the context check), number of outputs, proposal
  budgets and a list of named fields from which the key functions of `conflictfunc.go`
  read.  The context-check / sanity-check verdicts are inputs of the operations.
-/
namespace ElaVerif.Pool

abbrev Key := String

structure Tx where
  id : Nat
  ty : Nat
  pver : Nat
  size : Nat
  fee : Int
  nout : Nat
  budgets : List Int
  fields : List (String × List String)
deriving Repr, DecidableEq

def Tx.get (t : Tx) (f : String) : List String := (t.fields.lookup f).getD []

/-! ## tx types (core/types/common/transaction.go) -/
def tyCoinBase := 0x00
def tyTransferAsset := 0x02
def tySideChainPow := 0x05
def tyCancelProducer := 0x0a
def tyUpdateProducer := 0x0b
def tyUpdateVersion := 0x13
def tyNextTurnDPOSInfo := 0x14
def tyUnregisterCR := 0x22
def tyUpdateCR := 0x23
def tyCRCProposal := 0x25
def tyCRCAppropriation := 0x28
def tyCRAssetsRectify := 0x2b
def tyRecordSponsor := 0x66
def allType := 0xff

/-! ## CRC proposal types (core/types/payload/crcproposal.go) -/
def ptSecretaryGeneral := 0x0400
def ptChangeProposalOwner := 0x0401
def ptCloseProposal := 0x0402
def ptRegisterSideChain := 0x0410
def ptReserveCustomID := 0x0500
def ptReceiveCustomID := 0x0501
def ptChangeCustomIDFee := 0x0502

/-! ## key functions (conflictfunc.go) -/
inductive KeyFn
  | strProducerInfoOwnerPublicKey | strCancelProducerOwnerPublicKey | strRegisterCRPublicKey
  | strCancelKey | strActivateKey | strProducerInfoNodePublicKey | strActivateProducerNodePublicKey
  | strCRManagementPublicKey | strDPoSOwnerNodePublicKeys | strCRManagementDID
  | strProducerInfoNickname | addrCRInfoCRCID | addrUnregisterCRCID | strCRInfoNickname
  | strTxProgramCode | strChangeCustomIDFee | strReserveCustomID
  | hashCloseProposalTargetProposalHash | hashChangeProposalOwnerTargetProposalHash
  | hashCRCProposalDraftHash | hashCRCProposalDID | strArrayCRCProposalCustomID
  | hashCRCProposalRegisterSideChainName | hashCRCProposalRegisterSideChainMagicNumber
  | hashCRCProposalRegisterSideChainGenesisHash | hashCRCProposalWithdrawProposalHash
  | hashCRCProposalTrackingProposalHash | strProposalReviewKey | strCRCAppropriation
  | strSecretaryGeneral | hashArrayCRCProposalRealWithdrawTransactionHashes
  | hashArrayDPoSV2ClaimRewardRealWithdrawTransactionHashes
  | strStake | strVoting | strReturnVotes | strCreateNFT | programHashDposV2ClaimReward
  | strVotesRealWithdrawTX | hashRevertToDPOS | hashSpecialTxHash
  | hashNextTurnDPOSInfoTxPayloadHash | hashCustomIDProposalResultTxPayloadHash
  | hashArraySidechainTransactionHashes | hashArraySidechainReturnDepositTransactionHashes
  | hashArrayNFTDestroyFromSideChainHash | strArrayTxReferences | hashCreateNFTID | strCreateNFTID
deriving Repr, DecidableEq

open KeyFn in
def KeyFn.name : KeyFn → String
  | strProducerInfoOwnerPublicKey => "strProducerInfoOwnerPublicKey"
  | strCancelProducerOwnerPublicKey => "strCancelProducerOwnerPublicKey"
  | strRegisterCRPublicKey => "strRegisterCRPublicKey"
  | strCancelKey => "strCancelKey"
  | strActivateKey => "strActivateKey"
  | strProducerInfoNodePublicKey => "strProducerInfoNodePublicKey"
  | strActivateProducerNodePublicKey => "strActivateProducerNodePublicKey"
  | strCRManagementPublicKey => "strCRManagementPublicKey"
  | strDPoSOwnerNodePublicKeys => "strDPoSOwnerNodePublicKeys"
  | strCRManagementDID => "strCRManagementDID"
  | strProducerInfoNickname => "strProducerInfoNickname"
  | addrCRInfoCRCID => "addrCRInfoCRCID"
  | addrUnregisterCRCID => "addrUnregisterCRCID"
  | strCRInfoNickname => "strCRInfoNickname"
  | strTxProgramCode => "strTxProgramCode"
  | strChangeCustomIDFee => "strChangeCustomIDFee"
  | strReserveCustomID => "strReserveCustomID"
  | hashCloseProposalTargetProposalHash => "hashCloseProposalTargetProposalHash"
  | hashChangeProposalOwnerTargetProposalHash => "hashChangeProposalOwnerTargetProposalHash"
  | hashCRCProposalDraftHash => "hashCRCProposalDraftHash"
  | hashCRCProposalDID => "hashCRCProposalDID"
  | strArrayCRCProposalCustomID => "strArrayCRCProposalCustomID"
  | hashCRCProposalRegisterSideChainName => "hashCRCProposalRegisterSideChainName"
  | hashCRCProposalRegisterSideChainMagicNumber => "hashCRCProposalRegisterSideChainMagicNumber"
  | hashCRCProposalRegisterSideChainGenesisHash => "hashCRCProposalRegisterSideChainGenesisHash"
  | hashCRCProposalWithdrawProposalHash => "hashCRCProposalWithdrawProposalHash"
  | hashCRCProposalTrackingProposalHash => "hashCRCProposalTrackingProposalHash"
  | strProposalReviewKey => "strProposalReviewKey"
  | strCRCAppropriation => "strCRCAppropriation"
  | strSecretaryGeneral => "strSecretaryGeneral"
  | hashArrayCRCProposalRealWithdrawTransactionHashes => "hashArrayCRCProposalRealWithdrawTransactionHashes"
  | hashArrayDPoSV2ClaimRewardRealWithdrawTransactionHashes => "hashArrayDPoSV2ClaimRewardRealWithdrawTransactionHashes"
  | strStake => "strStake"
  | strVoting => "strVoting"
  | strReturnVotes => "strReturnVotes"
  | strCreateNFT => "strCreateNFT"
  | programHashDposV2ClaimReward => "programHashDposV2ClaimReward"
  | strVotesRealWithdrawTX => "strVotesRealWithdrawTX"
  | hashRevertToDPOS => "hashRevertToDPOS"
  | hashSpecialTxHash => "hashSpecialTxHash"
  | hashNextTurnDPOSInfoTxPayloadHash => "hashNextTurnDPOSInfoTxPayloadHash"
  | hashCustomIDProposalResultTxPayloadHash => "hashCustomIDProposalResultTxPayloadHash"
  | hashArraySidechainTransactionHashes => "hashArraySidechainTransactionHashes"
  | hashArraySidechainReturnDepositTransactionHashes => "hashArraySidechainReturnDepositTransactionHashes"
  | hashArrayNFTDestroyFromSideChainHash => "hashArrayNFTDestroyFromSideChainHash"
  | strArrayTxReferences => "strArrayTxReferences"
  | hashCreateNFTID => "hashCreateNFTID"
  | strCreateNFTID => "strCreateNFTID"

/-- proposal type of a CRCProposal payload (field `ptype`, decimal). -/
def Tx.ptype (t : Tx) : Nat := ((t.get "ptype").head?.bind String.toNat?).getD 0

/-- first value of a field (a key function returning one key); absent field = no key
    (Go: the function returns a nil key). -/
def Tx.one (t : Tx) (f : String) : List Key := (t.get f).take 1

/-- The keys a key function extracts from a transaction.  `.error` = the Go function
    returns an error (state-dependent failures — `strCancelKey` without a registered producer,
    `strArrayTxReferences` with an unknown referenced transaction — are carried by the
    field `keyerr`, a list of function names failing for this transaction).
    String constants are the Go constants with spaces replaced by `_`. -/
def evalKey (fn : KeyFn) (t : Tx) : Except Unit (List Key) :=
  if (t.get "keyerr").contains fn.name then .error () else
  .ok <| match fn with
  | .strProducerInfoOwnerPublicKey => t.one "own"
  | .strCancelProducerOwnerPublicKey => t.one "own"
  | .strRegisterCRPublicKey => t.one "crpk"
  | .strCancelKey => t.one "cnode"
  | .strActivateKey => t.one "node"
  | .strProducerInfoNodePublicKey => t.one "node"
  | .strActivateProducerNodePublicKey => t.one "node"
  | .strCRManagementPublicKey => t.one "node"
  | .strDPoSOwnerNodePublicKeys =>
      t.one "own" ++ (if t.one "node" ≠ t.one "own" then t.one "node" else [])
  | .strCRManagementDID => t.one "did"
  | .strProducerInfoNickname => t.one "nick"
  | .addrCRInfoCRCID => t.one "cid"
  | .addrUnregisterCRCID => t.one "cid"
  | .strCRInfoNickname => t.one "nick"
  | .strTxProgramCode => t.one "code"
  | .strChangeCustomIDFee => if t.ptype = ptChangeCustomIDFee then ["Change_the_fee_of_custom_ID"] else []
  | .strReserveCustomID => if t.ptype = ptReserveCustomID then ["Reserve_custom_ID"] else []
  | .hashCloseProposalTargetProposalHash => if t.ptype = ptCloseProposal then t.one "target" else []
  | .hashChangeProposalOwnerTargetProposalHash =>
      if t.ptype = ptChangeProposalOwner then t.one "target" else []
  | .hashCRCProposalDraftHash => t.one "draft"
  | .hashCRCProposalDID => t.one "did"
  | .strArrayCRCProposalCustomID => if t.ptype = ptReceiveCustomID then t.get "custom" else []
  | .hashCRCProposalRegisterSideChainName => if t.ptype = ptRegisterSideChain then t.one "scname" else []
  | .hashCRCProposalRegisterSideChainMagicNumber =>
      if t.ptype = ptRegisterSideChain then t.one "magic" else []
  | .hashCRCProposalRegisterSideChainGenesisHash =>
      if t.ptype = ptRegisterSideChain then t.one "genesis" else []
  | .hashCRCProposalWithdrawProposalHash => t.one "prop"
  | .hashCRCProposalTrackingProposalHash => t.one "prop"
  | .strProposalReviewKey =>
      match t.one "did", t.one "prop" with
      | [d], [p] => [d ++ "+" ++ p]
      | _, _ => []
  | .strCRCAppropriation => ["CRC_Appropriation"]
  | .strSecretaryGeneral => if t.ptype = ptSecretaryGeneral then ["Secretary_General"] else []
  | .hashArrayCRCProposalRealWithdrawTransactionHashes => t.get "rwhash"
  | .hashArrayDPoSV2ClaimRewardRealWithdrawTransactionHashes => t.get "rwhash"
  | .strStake => t.one "stake"
  | .strVoting => t.one "stake"
  | .strReturnVotes => t.one "stake"
  | .strCreateNFT => t.one "stake"
  | .programHashDposV2ClaimReward => t.one "stake"
  | .strVotesRealWithdrawTX => ["VotesRealWithdraw"]
  | .hashRevertToDPOS => ["RevertToDPOS"]
  | .hashSpecialTxHash => t.one "phash"
  | .hashNextTurnDPOSInfoTxPayloadHash => t.one "phash"
  | .hashCustomIDProposalResultTxPayloadHash => ["customIDProposalResult"]
  | .hashArraySidechainTransactionHashes => t.get "schash"
  | .hashArraySidechainReturnDepositTransactionHashes => t.get "rdhash"
  | .hashArrayNFTDestroyFromSideChainHash => t.get "nftid"
  | .strArrayTxReferences => t.get "in"
  | .hashCreateNFTID => t.one "refkey"
  | .strCreateNFTID => t.one "stakeaddr"

/-! ## the slot table (conflictmanager.go: newConflictManager) -/
structure SlotDef where
  name : String
  kt : String
  fns : List (Nat × KeyFn)

open KeyFn in
def table : List SlotDef := [
  ⟨"DPoSOwnerPublicKey", "str", [(9, strProducerInfoOwnerPublicKey), (11, strProducerInfoOwnerPublicKey), (10, strCancelProducerOwnerPublicKey), (33, strRegisterCRPublicKey)]⟩,
  ⟨"DPoSActivateCancel", "str", [(10, strCancelKey), (13, strActivateKey)]⟩,
  ⟨"DPoSNodePublicKey", "str", [(9, strProducerInfoNodePublicKey), (11, strProducerInfoNodePublicKey), (13, strActivateProducerNodePublicKey), (33, strRegisterCRPublicKey), (49, strCRManagementPublicKey)]⟩,
  ⟨"DPoSOwnerNodePublicKeys", "strArray", [(9, strDPoSOwnerNodePublicKeys), (11, strDPoSOwnerNodePublicKeys)]⟩,
  ⟨"CRCouncilMemberNodePublicKey", "str", [(49, strCRManagementPublicKey)]⟩,
  ⟨"CRCouncilMemberDID", "programHash", [(49, strCRManagementDID)]⟩,
  ⟨"DPoSNickname", "str", [(9, strProducerInfoNickname), (11, strProducerInfoNickname)]⟩,
  ⟨"CrDID", "programHash", [(33, addrCRInfoCRCID), (35, addrCRInfoCRCID), (34, addrUnregisterCRCID)]⟩,
  ⟨"CrNickname", "str", [(33, strCRInfoNickname), (35, strCRInfoNickname)]⟩,
  ⟨"ProgramCode", "str", [(12, strTxProgramCode), (36, strTxProgramCode)]⟩,
  ⟨"ChangeCustomIDFee", "str", [(37, strChangeCustomIDFee)]⟩,
  ⟨"ReserveCustomID", "str", [(37, strReserveCustomID)]⟩,
  ⟨"CloseProposalTargetProposalHash", "hash", [(37, hashCloseProposalTargetProposalHash)]⟩,
  ⟨"ChangeProposalOwnerTargetProposalHash", "hash", [(37, hashChangeProposalOwnerTargetProposalHash)]⟩,
  ⟨"CRCProposalDraftHash", "hash", [(37, hashCRCProposalDraftHash)]⟩,
  ⟨"CRCProposalDID", "programHash", [(37, hashCRCProposalDID)]⟩,
  ⟨"CRCProposalCustomID", "strArray", [(37, strArrayCRCProposalCustomID)]⟩,
  ⟨"CRCProposalRegisterSideChainName", "str", [(37, hashCRCProposalRegisterSideChainName)]⟩,
  ⟨"CRCProposalRegisterSideChainMagicNumber", "str", [(37, hashCRCProposalRegisterSideChainMagicNumber)]⟩,
  ⟨"CRCProposalRegisterSideChainGenesisHash", "hash", [(37, hashCRCProposalRegisterSideChainGenesisHash)]⟩,
  ⟨"CRCProposalHash", "hash", [(41, hashCRCProposalWithdrawProposalHash)]⟩,
  ⟨"CRCProposalTrackingHash", "hash", [(39, hashCRCProposalTrackingProposalHash)]⟩,
  ⟨"CRCProposalReviewKey", "str", [(38, strProposalReviewKey)]⟩,
  ⟨"CRCAppropriationKey", "str", [(40, strCRCAppropriation)]⟩,
  ⟨"CRCSecretaryGeneral", "str", [(37, strSecretaryGeneral)]⟩,
  ⟨"CRCProposalRealWithdrawKey", "hashArray", [(42, hashArrayCRCProposalRealWithdrawTransactionHashes)]⟩,
  ⟨"DposV2ClaimRewardRealWithdrawKey", "hashArray", [(97, hashArrayDPoSV2ClaimRewardRealWithdrawTransactionHashes)]⟩,
  ⟨"ExchangeVotes", "programHash", [(98, strStake), (99, strVoting), (100, strReturnVotes), (113, strCreateNFT)]⟩,
  ⟨"DposV2ClaimReward", "programHash", [(96, programHashDposV2ClaimReward)]⟩,
  ⟨"VotesRealWithdraw", "str", [(101, strVotesRealWithdrawTX)]⟩,
  ⟨"RevertToDPOSHash", "str", [(66, hashRevertToDPOS)]⟩,
  ⟨"SpecialTxHash", "hash", [(14, hashSpecialTxHash), (15, hashSpecialTxHash), (16, hashSpecialTxHash), (17, hashSpecialTxHash), (18, hashSpecialTxHash), (20, hashNextTurnDPOSInfoTxPayloadHash)]⟩,
  ⟨"CustomIDProposalResult", "str", [(21, hashCustomIDProposalResultTxPayloadHash)]⟩,
  ⟨"SidechainTxHashes", "hashArray", [(7, hashArraySidechainTransactionHashes)]⟩,
  ⟨"SidechainReturnDepositTxHashes", "hashArray", [(81, hashArraySidechainReturnDepositTransactionHashes)]⟩,
  ⟨"NFTDestroyFromSideChainHash", "hashArray", [(114, hashArrayNFTDestroyFromSideChainHash)]⟩,
  ⟨"TxInputsReferKeys", "strArray", [(255, strArrayTxReferences)]⟩,
  ⟨"createnft", "hash", [(113, hashCreateNFTID)]⟩,
  ⟨"createnftstakeaddr", "str", [(113, strCreateNFTID)]⟩
]

/-- the table in the shape the extractor prints it -/
def tableRendered : List (String × String × List (Nat × String)) :=
  table.map fun s => (s.name, s.kt, s.fns.map fun p => (p.1, p.2.name))

/-- indexes of the slots the pool code addresses by name -/
def slotOwner := 0         -- slotDPoSOwnerPublicKey
def slotNode := 2          -- slotDPoSNodePublicKey
def slotCRDID := 7         -- slotCRDID
def slotInputs := 36       -- slotTxInputsReferKeys

/-- conflictSlot.getKeyFromTx: the function for the tx type, else the one for `allType`. -/
def SlotDef.fn (s : SlotDef) (t : Tx) : Option KeyFn :=
  match s.fns.lookup t.ty with
  | some f => some f
  | none => s.fns.lookup allType

def slotKeys (s : SlotDef) (t : Tx) : Except Unit (List Key) :=
  match s.fn t with
  | none => .ok []
  | some f => evalKey f t

abbrev SKey := Nat × Key

/-- Walk over the slots in table order (as `VerifyTx`/`AppendTx`/`removeTx` do): the
    (slot, key) pairs of all slots before the first slot whose key function fails, and that
    slot's index. -/
def keysGo : List SlotDef → Nat → Tx → List SKey × Option Nat
  | [], _, _ => ([], none)
  | sd :: rest, i, t =>
    match slotKeys sd t with
    | .error _ => ([], some i)
    | .ok ks =>
      let r := keysGo rest (i + 1) t
      (ks.map (fun k => (i, k)) ++ r.1, r.2)

def keysOf (t : Tx) : List SKey := (keysGo table 0 t).1
def keyErr (t : Tx) : Option Nat := (keysGo table 0 t).2

/-! ## fee ordered list (txfeeorderedlist.go) -/

/-- the fee rate is kept as the pair it is computed from; `lt` compares two rates
    (`float64(fee)/float64(size)` with `<` in the implementation). -/
abbrev Rate := Int × Nat

structure FeeItem where
  id : Nat
  rate : Rate
  size : Nat
deriving Repr

def Tx.rate (t : Tx) : Rate := (t.fee, t.size)

section
variable (lt : Rate → Rate → Bool)

/-- `sort.Search(len, func(i) { list[i].FeeRate < r })` on a list that is ordered by
    non-increasing rate: the first index whose rate is below `r`. -/
def searchIdx (l : List FeeItem) (r : Rate) : Nat := l.findIdx (fun it => lt it.rate r)

/-- `totalSize+size > maxSize` in uint64 -/
def overSize (total max size : Nat) : Bool := (total + size) % 2 ^ 64 > max

/-- uint64 subtraction -/
def sub64 (a b : Nat) : Nat := (a + 2 ^ 64 - b % 2 ^ 64) % 2 ^ 64

/-- the pop-back loop of `AddTx`; the last component is `true` when the loop indexes an empty
    list (a Go panic: index out of range), with the state reached at that point. -/
def evict (max : Nat) : Nat → List FeeItem → Nat → List Nat → List FeeItem × Nat × List Nat × Bool
  | 0, l, total, popped => (l, total, popped, true)
  | fuel + 1, l, total, popped =>
    match l.getLast? with
    | none => (l, total, popped, true)
    | some it =>
      let l' := l.dropLast
      let total' := sub64 total it.size
      if total' > max then evict max fuel l' total' (popped ++ [it.id])
      else (l', total', popped ++ [it.id], false)

inductive AddRes
  | ok | illegalSize | excluded | panic
deriving Repr, DecidableEq

structure FeeList where
  list : List FeeItem
  total : Nat
  max : Nat

/-- `txFeeOrderedList.AddTx`: result, new list, and the hashes handed to `onPopBack` in order. -/
def feeAdd (fl : FeeList) (id : Nat) (r : Rate) (size : Nat) : AddRes × FeeList × List Nat :=
  if size = 0 then (.illegalSize, fl, []) else
  let over := overSize fl.total fl.max size
  let excluded := over && (match fl.list.getLast? with
    | some last => lt r last.rate
    | none => false)
  if excluded then (.excluded, fl, []) else
  let idx := searchIdx lt fl.list r
  let l1 := fl.list.take idx ++ [⟨id, r, size⟩] ++ fl.list.drop idx
  let t1 := (fl.total + size) % 2 ^ 64
  if over then
    match evict fl.max (l1.length + 1) l1 t1 [] with
    | (l2, t2, popped, true) => (.panic, ⟨l2, t2, fl.max⟩, popped)
    | (l2, t2, popped, false) => (.ok, ⟨l2, t2, fl.max⟩, popped)
  else (.ok, ⟨l1, t1, fl.max⟩, [])

/-- `for i := given; i >= 0; i-- { if list[i].Hash == hash return i }` -/
def scanDown (l : List FeeItem) (id : Nat) : Nat → Option Nat
  | 0 => if (l[0]?.map (·.id)) = some id then some 0 else none
  | i + 1 => if (l[i + 1]?.map (·.id)) = some id then some (i + 1) else scanDown l id i

def locate (l : List FeeItem) (given : Nat) (id : Nat) : Option Nat :=
  if l.isEmpty then none
  else scanDown l id (if given = l.length then given - 1 else given)

/-- `txFeeOrderedList.RemoveTx(hash, txSize, feeRate)` -/
def feeRemove (fl : FeeList) (id : Nat) (size : Nat) (r : Rate) : Bool × FeeList :=
  match locate fl.list (searchIdx lt fl.list r) id with
  | none => (false, fl)
  | some i => (true, ⟨fl.list.eraseIdx i, sub64 fl.total size, fl.max⟩)

/-! ## the pool (txpool.go) -/

structure Pool where
  txs : List Tx                    -- txnList (a map keyed by hash)
  fl : FeeList                     -- txFees
  slots : List (SKey × Nat)        -- all conflict slots: (slot, key) ↦ owner hash
  used : Int                       -- proposalsUsedAmount

def Pool.empty (max : Nat) : Pool := ⟨[], ⟨[], 0, max⟩, [], 0⟩

def Pool.has (p : Pool) (id : Nat) : Bool := p.txs.any (·.id == id)
def Pool.find (p : Pool) (id : Nat) : Option Tx := p.txs.find? (·.id == id)

def slotErase (slots : List (SKey × Nat)) (k : SKey) : List (SKey × Nat) :=
  slots.filter (fun e => e.1 ≠ k)
/-- Go map assignment -/
def slotSet (slots : List (SKey × Nat)) (k : SKey) (id : Nat) : List (SKey × Nat) :=
  (k, id) :: slotErase slots k

/-- `conflictManager.removeTx` (stops at the first slot whose key function fails) -/
def removeKeys (slots : List (SKey × Nat)) (t : Tx) : List (SKey × Nat) :=
  (keysOf t).foldl slotErase slots

/-- `conflictManager.removeTxOwned`: of the keys of `t`, only the entries held by `t` itself go -/
def removeOwned (slots : List (SKey × Nat)) (t : Tx) : List (SKey × Nat) :=
  slots.filter (fun e => !((keysOf t).contains e.1 && e.2 == t.id))

/-- `conflictManager.AppendTx` (same walk) -/
def appendKeys (slots : List (SKey × Nat)) (t : Tx) : List (SKey × Nat) :=
  (keysOf t).foldl (fun s k => slotSet s k t.id) slots

inductive VerifyErr
  | dup (slot : Nat) | keyerr (slot : Nat)
deriving Repr, DecidableEq

/-- `conflictManager.VerifyTx` -/
def verify (slots : List (SKey × Nat)) (t : Tx) : Option VerifyErr :=
  match (keysOf t).find? (fun k => (slots.lookup k).isSome) with
  | some k => some (.dup k.1)
  | none => match keyErr t with
    | some i => some (.keyerr i)
    | none => none

def Tx.budget (t : Tx) : Int := if t.ty = tyCRCProposal then t.budgets.foldl (· + ·) 0 else 0

/-- `doRemoveTransaction` -/
def doRemove (p : Pool) (t : Tx) : Pool :=
  if p.has t.id then
    { txs := p.txs.filter (fun x => x.id != t.id)
      used := p.used - t.budget
      fl := (feeRemove lt p.fl t.id t.size t.rate).2
      slots := removeKeys p.slots t }
  else p

/-- `removeTransaction` -/
def removeTransaction (p : Pool) (t : Tx) : Pool := doRemove lt p t

/-- `onPopBack` -/
def onPopBack (p : Pool) (id : Nat) : Pool :=
  match p.find id with
  | none => p
  | some t =>
    let slots := removeKeys p.slots t
    if (keyErr t).isSome then { p with slots := slots }
    else { p with slots := slots, txs := p.txs.filter (fun x => x.id != id), used := p.used - t.budget }

inductive AppendRes
  | ok | recordSponsor | duplicate | coinbase | sanity | context
  | conflict (e : VerifyErr) | overCapacity | appendKeyErr (slot : Nat) | feeErr (r : AddRes)
deriving Repr, DecidableEq

/-- `doAddTransaction` -/
def doAdd (p : Pool) (t : Tx) : AddRes × Pool :=
  match feeAdd lt p.fl t.id t.rate t.size with
  | (.ok, fl', popped) =>
    let p1 := popped.foldl onPopBack { p with fl := fl' }
    (.ok, { p1 with txs := p1.txs ++ [t], used := p1.used + t.budget })
  | (r, fl', _) => (r, { p with fl := fl' })

/-- `removeCRAppropriationConflictTransactions` -/
def removeCRAppropriationConflicts (p : Pool) : Pool :=
  (p.txs.filter (·.ty == tyCRAssetsRectify)).foldl (doRemove lt) p

/-- `replaceDuplicateSideChainPowTx` -/
def replaceDuplicateSideChainPow (p : Pool) (t : Tx) : Pool :=
  (p.txs.filter (fun v => v.ty == tySideChainPow && v.get "powgen" == t.get "powgen")).foldl
    (removeTransaction lt) p

/-- the part of `appendToTxPool` after the chain checks: `verifyTransactionWithTxnPool`,
    the capacity check, `AppendTx`, `doAddTransaction` -/
def addVerified (p : Pool) (t : Tx) : AppendRes × Pool :=
  let p := if t.ty = tySideChainPow then replaceDuplicateSideChainPow lt p t else p
  match verify p.slots t with
  | some e => (.conflict e, p)
  | none =>
  if overSize p.fl.total p.fl.max t.size then (.overCapacity, p) else
  let p := { p with slots := appendKeys p.slots t }
  match keyErr t with
  | some i => (.appendKeyErr i, p)
  | none =>
  match doAdd lt p t with
  | (.ok, p') => (.ok, p')
  | (r, p') => (.feeErr r, { p' with slots := removeKeys p'.slots t })

/-- `appendToTxPool`, with the verdicts of `CheckTransactionSanity` / `CheckTransactionContext`
    as inputs.  The third component is `proposalsUsedAmount` as passed to the context check. -/
def append (p : Pool) (t : Tx) (sanityOK ctxOK : Bool) : AppendRes × Pool × Option Int :=
  if t.ty = tyRecordSponsor then (.recordSponsor, p, none) else
  let p := if t.ty = tyCRCAppropriation then removeCRAppropriationConflicts lt p else p
  if p.has t.id then (.duplicate, p, none) else
  if t.ty = tyCoinBase then (.coinbase, p, none) else
  if !sanityOK then (.sanity, p, none) else
  if !ctxOK then (.context, p, some p.used) else
  let r := addVerified lt p t
  (r.1, r.2, some p.used)

def isNewSideChainPow (t : Tx) : Bool := t.ty == tySideChainPow && (t.get "in").isEmpty

/-- one block transaction in `cleanTransactions` -/
def cleanOne (p : Pool) (b : Tx) : Pool :=
  if b.ty = tyCoinBase then p else
  if isNewSideChainPow b || b.ty == tyUpdateVersion || b.ty == tyNextTurnDPOSInfo then
    (if p.has b.id then doRemove lt p b else p)
  else
  -- UTXOCache.GetTxReference(blockTx) fails ⇒ continue
  if (b.get "keyerr").contains KeyFn.strArrayTxReferences.name then p else
  let p := (b.get "in").foldl (fun p k =>
      match p.slots.lookup (slotInputs, k) with
      | some owner => (match p.find owner with
          | some t => doRemove lt p t
          | none => p)
      | none => p) p
  -- a still pooled copy of the block transaction is dropped; then only the index entries the block
  -- transaction itself holds are cleared (entries of other pooled transactions sharing a key stay)
  let p := match p.find b.id with
    | some t => doRemove lt p t
    | none => p
  { p with slots := removeOwned p.slots b }

/-- `cleanSideChainPowTx`: pool SideChainPow transactions whose signature does not verify
    against the on-duty arbiter (field `powok` ≠ 1) are removed. -/
def cleanPow (p : Pool) : Pool :=
  (p.txs.filter (fun t => t.ty == tySideChainPow && t.get "powok" != ["1"])).foldl (doRemove lt) p

/-- `cleanVoteAndUpdateProducer(owner)` -/
def cleanProducer (p : Pool) (owner : Key) : Pool :=
  p.txs.foldl (fun p t =>
    -- a Go map range does not produce entries deleted earlier in the loop
    if !p.has t.id then p else
    if t.ty = tyTransferAsset then
      (if (t.get "votep").contains owner then removeTransaction lt p t else p)
    else if t.ty = tyUpdateProducer ∧ t.one "own" = [owner] then
      let p := removeTransaction lt p t
      let s := slotErase p.slots (slotOwner, owner)
      let s := (t.one "node").foldl (fun s k => slotErase s (slotNode, k)) s
      { p with slots := s }
    else p) p

/-- `cleanVoteAndUpdateCR(cid)` -/
def cleanCR (p : Pool) (cid : Key) : Pool :=
  p.txs.foldl (fun p t =>
    if !p.has t.id then p else
    if t.ty = tyTransferAsset then
      (if (t.get "votecr").contains cid then removeTransaction lt p t else p)
    else if t.ty = tyUpdateCR ∧ t.one "cid" = [cid] then
      let p := removeTransaction lt p t
      { p with slots := slotErase p.slots (slotCRDID, cid) }
    else p) p

/-- `cleanCanceledProducerAndCR` -/
def cleanCanceled (p : Pool) (block : List Tx) : Pool :=
  block.foldl (fun p b =>
    let p := if b.ty = tyCancelProducer then (b.one "own").foldl (cleanProducer lt) p else p
    if b.ty = tyUnregisterCR then (b.one "cid").foldl (cleanCR lt) p else p) p

/-- `CleanSubmittedTransactions(block)` -/
def cleanSubmitted (p : Pool) (block : List Tx) : Pool :=
  cleanCanceled lt (cleanPow lt (block.foldl (cleanOne lt) p)) block

/-- `CheckAndCleanAllTransactions`, the context check rejecting exactly the ids in `rej`. -/
def checkAndClean (p : Pool) (rej : List Nat) : Pool :=
  (p.txs.filter (fun t => rej.contains t.id)).foldl (doRemove lt) p

/-- the node's post-block cleanup -/
def postBlock (p : Pool) (block : List Tx) (rej : List Nat) : Pool :=
  checkAndClean lt (cleanSubmitted lt p block) rej

/-- refer key of output `i` of transaction `id` (token form used by the harness) -/
def referKey (id i : Nat) : Key := "t" ++ toString id ++ ":" ++ toString i

/-- `RemoveTransaction(txn)`: drop pool transactions spending an output of `txn` -/
def removeSpenders (p : Pool) (t : Tx) : Pool :=
  (List.range t.nout).foldl (fun p i =>
    match p.slots.lookup (slotInputs, referKey t.id i) with
    | some owner => (match p.find owner with
        | some x => removeTransaction lt p x
        | none => p)
    | none => p) p

end

end ElaVerif.Pool
