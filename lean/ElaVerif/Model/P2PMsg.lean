/-
  Accept/reject models of the fixed-layout main-net message decoders in /repo/p2p/msg
  (core Lean only): does `Message.Deserialize(payload)` return nil?  Used by the C35 driver
  in place of the `dflag` oracle value for these commands.  Trailing bytes are ignored by all of
  these decoders (they read from a buffer and never ask for EOF).  Value-level round trips are
  the subject of C04; here only acceptance matters, because that is what framing reports.
-/
import ElaVerif.Model.Bloom
namespace ElaVerif.P2PMsg
open ElaVerif.Bloom (readLE readVarUint loadFilter)

abbrev Bytes := List UInt8

def crProposalVersion : Nat := 80000
def maxInvPerMsg : Nat := 50000
def maxBlockLocatorsPerMsg : Nat := 500
def maxAddrPerMsg : Nat := 1000
def maxFilterAddDataSize : Nat := 520
def maxTxFilterLoadDataSize : Nat := 50000
def maxVarStringLength : Nat := 16777216

/-- at least `n` more bytes -/
def skip (n : Nat) (b : Bytes) : Option Bytes := if b.length < n then none else some (b.drop n)

/-- `common.ReadVarBytes(r, max, _)` -/
def readVarBytes (max : Nat) (b : Bytes) : Option Bytes :=
  match readVarUint b with
  | .error _ => none
  | .ok (count, r) => if count > max then none else skip count r

/-- `u32 count ≤ limit`, then `count` records of `size` bytes -/
def countedU32 (limit size : Nat) (b : Bytes) : Option Bytes :=
  match readLE 4 b with
  | none => none
  | some (count, r) => if count > limit then none else skip (count * size) r

/-- `Version.Deserialize`: 35 fixed bytes, then a var-string iff `Version ≥ CRProposalVersion` -/
def versionOK (b : Bytes) : Bool :=
  match readLE 4 b with
  | none => false
  | some (ver, _) =>
    match skip 35 b with
    | none => false
    | some r =>
      if ver ≥ crProposalVersion then
        match readVarUint r with
        | .error _ => false
        | .ok (count, r') => if count > maxVarStringLength then false else (skip count r').isSome
      else true

/-- `some ok` for the commands modelled here, `none` otherwise (the driver then uses `dflag`). -/
def accepts (cmd : String) (p : Bytes) : Option Bool :=
  match cmd with
  | "verack" | "getaddr" | "mempool" | "filterclear" => some true          -- `empty.Deserialize`
  | "ping" | "pong" => some (skip 8 p).isSome                               -- one uint64
  | "version" => some (versionOK p)
  | "inv" | "getdata" | "notfound" => some (countedU32 maxInvPerMsg 36 p).isSome
  | "getblocks" => some ((countedU32 maxBlockLocatorsPerMsg 32 p).bind (skip 32)).isSome
  | "addr" =>
    some (match readLE 8 p with
      | none => false
      | some (count, r) => if count > maxAddrPerMsg then false else (skip (count * 34) r).isSome)
  | "filteradd" => some (readVarBytes maxFilterAddDataSize p).isSome
  | "filterload" => some (loadFilter p).isSome
  | "txfilter" => some ((skip 1 p).bind (readVarBytes maxTxFilterLoadDataSize)).isSome
  | _ => none

/-- the fixed-layout decoders of the DPoS network (`dpos/p2p/msg`); `version` depends on a global
    payload version and stays an oracle value. -/
def acceptsDpos (cmd : String) (p : Bytes) : Option Bool :=
  match cmd with
  | "ping" | "pong" => some (skip 8 p).isSome          -- uint64 nonce
  | "inv" | "getblock" | "req_pro" => some (skip 32 p).isSome   -- one Uint256
  | "get_blc" => some (skip 8 p).isSome                 -- two uint32 heights
  | "req_con" => some (skip 4 p).isSome                 -- uint32 height
  | "verack" => some (skip 64 p).isSome                 -- 64-byte signature
  | "addr" =>                                            -- var-string host, uint16 port
    some (match readVarUint p with
      | .error _ => false
      | .ok (count, r) => if count > maxVarStringLength then false else ((skip count r).bind (skip 2)).isSome)
  | _ => none

end ElaVerif.P2PMsg
