/-
  Model of blockchain/difficulty.go (CompactToBig, BigToCompact, the retarget
  arithmetic of CalcNextRequiredDifficulty) and blockchain/blockvalidator.go
  CheckProofOfWork.  math/big values are modelled as `Int` (trusted: math/big
  implements integer arithmetic).  Compact values are `Nat`s below 2^32.
  Core Lean only.
-/
namespace ElaVerif.Compact

/-- number of bytes of the big-endian representation of `n` (`len(n.Bytes())`). -/
def byteLen (n : Nat) : Nat := if n = 0 then 0 else Nat.log2 n / 8 + 1

/-- `CompactToBig`. -/
def compactToBig (c : Nat) : Int :=
  let mant := c % 2 ^ 23
  let neg := (c / 2 ^ 23) % 2 = 1
  let e := c / 2 ^ 24
  let bn : Nat := if e ≤ 3 then mant / 2 ^ (8 * (3 - e)) else mant * 2 ^ (8 * (e - 3))
  if neg then -(bn : Int) else (bn : Int)

/-- magnitude of `big.Int.Rsh` (arithmetic shift: rounds towards −∞ for negative values). -/
def rshAbs (neg : Bool) (a k : Nat) : Nat :=
  if neg then (a - 1) / 2 ^ k + 1 else a / 2 ^ k

/-- `BigToCompact`; result is a `uint32`. -/
def bigToCompact (n : Int) : Nat :=
  if n = 0 then 0 else
  let a := n.natAbs
  let e := byteLen a
  let mant0 : Nat :=
    if e ≤ 3 then (a * 2 ^ (8 * (3 - e))) % 2 ^ 32
    else (rshAbs (n < 0) a (8 * (e - 3))) % 2 ^ 32
  let bump := (mant0 / 2 ^ 23) % 2 = 1
  let mant := if bump then mant0 / 2 ^ 8 else mant0
  let e' := if bump then e + 1 else e
  let c := ((e' * 2 ^ 24) % 2 ^ 32) ||| mant
  if n < 0 then c ||| 2 ^ 23 else c

/-- The compact values `BigToCompact` can produce for a non-negative target
    (`uint32` range): zero, or sign bit clear, exponent ≥ 1, mantissa ≥ 0x008000
    (otherwise a shorter exponent would have been chosen), and for exponents
    1 and 2 the mantissa bytes that `CompactToBig` shifts out are zero. -/
def Canonical (c : Nat) : Prop :=
  c = 0 ∨ (c < 2 ^ 32 ∧ (c / 2 ^ 23) % 2 = 0 ∧ 1 ≤ c / 2 ^ 24 ∧ 2 ^ 15 ≤ c % 2 ^ 23 ∧
    (c / 2 ^ 24 = 1 → c % 2 ^ 16 = 0) ∧ (c / 2 ^ 24 = 2 → c % 2 ^ 8 = 0))

instance (c : Nat) : Decidable (Canonical c) := by unfold Canonical; infer_instance

/-- `CheckProofOfWork` verdict: target from bits, limit, and the parent-chain hash as a number. -/
inductive PowErr | badTarget | highTarget | highHash
  deriving DecidableEq, Repr

/-- `none` = accepted (Go returns a nil error). -/
def checkPoW (bits : Nat) (limit : Int) (hashNum : Int) : Option PowErr :=
  let t := compactToBig bits
  if t ≤ 0 then some .badTarget
  else if t > limit then some .highTarget
  else if hashNum > t then some .highHash
  else none

/-- retarget arithmetic of `CalcNextRequiredDifficulty` (the part after the
    previous-retarget node has been found). -/
structure RetargetCfg where
  minSpan : Int
  maxSpan : Int
  targetSpan : Int
  limit : Int
  deriving DecidableEq, Repr

def clampSpan (cfg : RetargetCfg) (actual : Int) : Int :=
  if actual < cfg.minSpan then cfg.minSpan
  else if actual > cfg.maxSpan then cfg.maxSpan else actual

/-- Go's `big.Int.Div` is Euclidean division; for positive divisor and the
    non-negative dividends occurring here it coincides with `Int./` (T-division
    would differ only for negative dividends, which the harness also feeds). -/
def newTarget (cfg : RetargetCfg) (oldBits : Nat) (actual : Int) : Int :=
  let t := Int.ediv (compactToBig oldBits * clampSpan cfg actual) cfg.targetSpan
  if t > cfg.limit then cfg.limit else t

def nextBits (cfg : RetargetCfg) (oldBits : Nat) (actual : Int) : Nat :=
  bigToCompact (newTarget cfg oldBits actual)

/-- `int64(prevNode.Timestamp - firstNode.Timestamp)`: the subtraction is on `uint32` and wraps. -/
def actualSpan (firstTs prevTs : Nat) : Int := ((prevTs + 2 ^ 32 - firstTs % 2 ^ 32) % 2 ^ 32 : Nat)

/-- network parameters as `blockchain.New` derives them. -/
structure PowParams where
  adj : Int
  targetSpan : Int
  perBlock : Int
  limit : Int
  limitBits : Nat
  deriving DecidableEq, Repr

def PowParams.cfg (p : PowParams) : RetargetCfg :=
  ⟨Int.tdiv p.targetSpan p.adj, p.targetSpan * p.adj, p.targetSpan, p.limit⟩

def PowParams.blocksPerRetarget (p : PowParams) : Nat := (Int.tdiv p.targetSpan p.perBlock).toNat % 2 ^ 32

/-- `CalcNextRequiredDifficulty` with the walk to the previous retarget node
    abstracted to its timestamp `firstTs`.  `none` = the "unable to obtain
    previous retarget block" error. -/
def calcNext (p : PowParams) (prevHeight prevBits firstTs prevTs : Nat) : Option Nat :=
  if prevHeight = 0 ∨ p.limitBits = 0x207fffff then some p.limitBits
  else if (prevHeight + 1) % 2 ^ 32 % p.blocksPerRetarget ≠ 0 then some prevBits
  else if prevHeight + 1 < p.blocksPerRetarget then none
  else some (nextBits p.cfg prevBits (actualSpan firstTs prevTs))

/-! ### `CalcNextRequiredDifficulty` on a real chain of block nodes (the walk is not abstracted) -/

/-- what the functions read of a `BlockNode`. -/
structure Node where
  ts : Nat
  bits : Nat
  deriving DecidableEq, Repr

inductive WalkOut
  | ok (bits : Nat)
  | err      -- "unable to obtain previous retarget block"
  | panic    -- nil dereference: the chain handed in is shorter than the retarget window
  deriving DecidableEq, Repr

/-- `chain` lists the ancestors oldest first, its last element is `prevNode` at height `tipHeight`
    (heights are consecutive).  The `for firstNode.Height != height` walk ends at the node
    `blocksPerRetarget - 1` steps above the tip, i.e. at index `length - blocksPerRetarget`. -/
def calcNextChain (p : PowParams) (tipHeight : Nat) (chain : List Node) : WalkOut :=
  match chain.getLast? with
  | none => .panic
  | some tip =>
    if tipHeight = 0 ∨ p.limitBits = 0x207fffff then .ok p.limitBits
    else if (tipHeight + 1) % 2 ^ 32 % p.blocksPerRetarget ≠ 0 then .ok tip.bits
    else if tipHeight + 1 < p.blocksPerRetarget then .err
    else match chain[chain.length - p.blocksPerRetarget]? with
      | some first =>
        if chain.length < p.blocksPerRetarget then .panic
        else .ok (nextBits p.cfg tip.bits (actualSpan first.ts tip.ts))
      | none => .panic

/-- `CalcWork` : 2^256 / (target+1), zero for non-positive targets. -/
def calcWork (bits : Nat) : Int :=
  let t := compactToBig bits
  if t ≤ 0 then 0 else Int.ediv (2 ^ 256) (t + 1)

/-! ### `getNetworkHashPS`, `CalcCurrentDifficulty` -/

/-- the nodes `getNetworkHashPS` looks at: the last 120 when the node 120 below the tip is part of
    the chain, otherwise all of them (the walk then ends at `nil`; for tips below height 120 the
    `uint32` subtraction wraps and no node matches). -/
def hashWindow (tipHeight : Nat) (chain : List Node) : List Node :=
  if 120 ≤ tipHeight ∧ 120 < chain.length then chain.drop (chain.length - 120) else chain

/-- work done in the window divided by the span of its timestamps; 0 when they are all equal. -/
def networkHashPS (tipHeight : Nat) (chain : List Node) : Int :=
  let w := hashWindow tipHeight chain
  match w with
  | [] => 0
  | n0 :: _ =>
    let mn := w.foldl (fun m n => min m n.ts) n0.ts
    let mx := w.foldl (fun m n => max m n.ts) n0.ts
    if mn = mx then 0
    else Int.ediv (w.foldl (fun acc n => acc + calcWork n.bits) 0) ((mx - mn : Nat) : Int)

/-- `CalcCurrentDifficulty`: limit target / current target (`big.Int.Div`); `none` = division by
    zero panic. -/
def currentDifficulty (limitBits bits : Nat) : Option Int :=
  if compactToBig bits = 0 then none else some (Int.ediv (compactToBig limitBits) (compactToBig bits))

/-! ### a chain of blocks validated by the node (`CheckBlockContext`: the header's bits must be
exactly the retarget result) -/

/-- deliver blocks one after the other; each step is (seconds after the parent, amount added to the
    expected bits).  A block is connected iff its bits equal `calcNextChain` on the chain so far.
    Returns per step the bits carried and whether the node took the block, and the final chain. -/
def nodeRun (p : PowParams) : List Node → List (Nat × Int) → List (Nat × Bool) → List (Nat × Bool) × List Node
  | chain, [], acc => (acc.reverse, chain)
  | chain, (delta, tamper) :: rest, acc =>
    match chain.getLast?, calcNextChain p (chain.length - 1) chain with
    | some tip, .ok expected =>
      let bits := (((expected : Int) + tamper) % 2 ^ 32).toNat
      if tamper = 0 then nodeRun p (chain ++ [⟨tip.ts + delta, bits⟩]) rest ((bits, true) :: acc)
      else nodeRun p chain rest ((bits, false) :: acc)
    | _, _ => (acc.reverse, chain)

end ElaVerif.Compact
