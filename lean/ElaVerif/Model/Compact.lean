/-
  Model of blockchain/difficulty.go (CompactToBig, BigToCompact, the retarget
  arithmetic of CalcNextRequiredDifficulty) and blockchain/blockvalidator.go
  CheckProofOfWork.  math/big values are modelled as `Int` (trusted: math/big
  implements integer arithmetic).  Compact values are `Nat`s below 2^32.
  Core Lean only.
-/
namespace ElaVerif.Compact

/-- number of bytes of the big-endian representation of `n` (`len(n.Bytes())`). -/
def byteLen (n : Nat) : Nat := if n = 0 then 0 else Nat.log2 n / 8 + 1

/-- `CompactToBig`. -/
def compactToBig (c : Nat) : Int :=
  let mant := c % 2 ^ 23
  let neg := (c / 2 ^ 23) % 2 = 1
  let e := c / 2 ^ 24
  let bn : Nat := if e ≤ 3 then mant / 2 ^ (8 * (3 - e)) else mant * 2 ^ (8 * (e - 3))
  if neg then -(bn : Int) else (bn : Int)

/-- magnitude of `big.Int.Rsh` (arithmetic shift: rounds towards −∞ for negative values). -/
def rshAbs (neg : Bool) (a k : Nat) : Nat :=
  if neg then (a - 1) / 2 ^ k + 1 else a / 2 ^ k

/-- `BigToCompact`; result is a `uint32`. -/
def bigToCompact (n : Int) : Nat :=
  if n = 0 then 0 else
  let a := n.natAbs
  let e := byteLen a
  let mant0 : Nat :=
    if e ≤ 3 then (a * 2 ^ (8 * (3 - e))) % 2 ^ 32
    else (rshAbs (n < 0) a (8 * (e - 3))) % 2 ^ 32
  let bump := (mant0 / 2 ^ 23) % 2 = 1
  let mant := if bump then mant0 / 2 ^ 8 else mant0
  let e' := if bump then e + 1 else e
  let c := ((e' * 2 ^ 24) % 2 ^ 32) ||| mant
  if n < 0 then c ||| 2 ^ 23 else c

/-- The compact values `BigToCompact` can produce for a non-negative target
    (`uint32` range): zero, or sign bit clear, exponent ≥ 1, mantissa ≥ 0x008000
    (otherwise a shorter exponent would have been chosen), and for exponents
    1 and 2 the mantissa bytes that `CompactToBig` shifts out are zero. -/
def Canonical (c : Nat) : Prop :=
  c = 0 ∨ (c < 2 ^ 32 ∧ (c / 2 ^ 23) % 2 = 0 ∧ 1 ≤ c / 2 ^ 24 ∧ 2 ^ 15 ≤ c % 2 ^ 23 ∧
    (c / 2 ^ 24 = 1 → c % 2 ^ 16 = 0) ∧ (c / 2 ^ 24 = 2 → c % 2 ^ 8 = 0))

instance (c : Nat) : Decidable (Canonical c) := by unfold Canonical; infer_instance

/-- `CheckProofOfWork` verdict: target from bits, limit, and the parent-chain hash as a number. -/
inductive PowErr | badTarget | highTarget | highHash
  deriving DecidableEq, Repr

/-- `none` = accepted (Go returns a nil error). -/
def checkPoW (bits : Nat) (limit : Int) (hashNum : Int) : Option PowErr :=
  let t := compactToBig bits
  if t ≤ 0 then some .badTarget
  else if t > limit then some .highTarget
  else if hashNum > t then some .highHash
  else none

/-- retarget arithmetic of `CalcNextRequiredDifficulty` (the part after the
    previous-retarget node has been found). -/
structure RetargetCfg where
  minSpan : Int
  maxSpan : Int
  targetSpan : Int
  limit : Int
  deriving DecidableEq, Repr

def clampSpan (cfg : RetargetCfg) (actual : Int) : Int :=
  if actual < cfg.minSpan then cfg.minSpan
  else if actual > cfg.maxSpan then cfg.maxSpan else actual

/-- Go's `big.Int.Div` is Euclidean division; for positive divisor and the
    non-negative dividends occurring here it coincides with `Int./` (T-division
    would differ only for negative dividends, which the harness also feeds). -/
def newTarget (cfg : RetargetCfg) (oldBits : Nat) (actual : Int) : Int :=
  let t := Int.ediv (compactToBig oldBits * clampSpan cfg actual) cfg.targetSpan
  if t > cfg.limit then cfg.limit else t

def nextBits (cfg : RetargetCfg) (oldBits : Nat) (actual : Int) : Nat :=
  bigToCompact (newTarget cfg oldBits actual)

/-- `int64(prevNode.Timestamp - firstNode.Timestamp)`: the subtraction is on `uint32` and wraps. -/
def actualSpan (firstTs prevTs : Nat) : Int := ((prevTs + 2 ^ 32 - firstTs % 2 ^ 32) % 2 ^ 32 : Nat)

/-- network parameters as `blockchain.New` derives them. -/
structure PowParams where
  adj : Int
  targetSpan : Int
  perBlock : Int
  limit : Int
  limitBits : Nat
  deriving DecidableEq, Repr

def PowParams.cfg (p : PowParams) : RetargetCfg :=
  ⟨Int.tdiv p.targetSpan p.adj, p.targetSpan * p.adj, p.targetSpan, p.limit⟩

def PowParams.blocksPerRetarget (p : PowParams) : Nat := (Int.tdiv p.targetSpan p.perBlock).toNat % 2 ^ 32

/-- `CalcNextRequiredDifficulty` with the walk to the previous retarget node
    abstracted to its timestamp `firstTs`.  `none` = the "unable to obtain
    previous retarget block" error. -/
def calcNext (p : PowParams) (prevHeight prevBits firstTs prevTs : Nat) : Option Nat :=
  if prevHeight = 0 ∨ p.limitBits = 0x207fffff then some p.limitBits
  else if (prevHeight + 1) % 2 ^ 32 % p.blocksPerRetarget ≠ 0 then some prevBits
  else if prevHeight + 1 < p.blocksPerRetarget then none
  else some (nextBits p.cfg prevBits (actualSpan firstTs prevTs))

/-- `CalcWork` : 2^256 / (target+1), zero for non-positive targets. -/
def calcWork (bits : Nat) : Int :=
  let t := compactToBig bits
  if t ≤ 0 then 0 else Int.ediv (2 ^ 256) (t + 1)

end ElaVerif.Compact
