/-
  ConsensusMode — where the coinbase rule's "POW mode" flag comes from
  (dpos/state/state.go: processRevertToPOW and its history entry; State.RollbackTo).

  A connected block that carries a RevertToPOW transaction switches the DPoS state to POW
  consensus through a `History.Append(height, execute, undo)` entry; disconnecting the block in a
  reorganisation runs the undo, which sets the mode back to DPoS.  (RevertToPOW is only valid while
  the chain is in DPoS consensus; switching back is done by RevertToDPOS, not modelled.)

  Core Lean only.
-/
namespace ElaVerif.ConsensusMode

/-- what a block does to the consensus mode -/
inductive Blk | plain | revertToPow
  deriving DecidableEq, Repr

/-- `pow` = ConsensusAlgorithm == POW; `chain` = the blocks connected since the start, newest first -/
structure St where
  pow : Bool
  chain : List Blk
  deriving DecidableEq, Repr

def connect (s : St) (b : Blk) : St :=
  match b with
  | .plain => ⟨s.pow, b :: s.chain⟩
  | .revertToPow => ⟨true, b :: s.chain⟩          -- execute: s.ConsensusAlgorithm = POW

/-- disconnect the newest block (its history undo closure) -/
def disconnect (s : St) : St :=
  match s.chain with
  | [] => s
  | .plain :: bs => ⟨s.pow, bs⟩
  | .revertToPow :: bs => ⟨false, bs⟩              -- undo: s.ConsensusAlgorithm = DPOS

def rollback : Nat → St → St
  | 0, s => s
  | n + 1, s => rollback n (disconnect s)

def connectAll (s : St) : List Blk → St
  | [] => s
  | b :: bs => connectAll (connect s b) bs

/-- RevertToPOW transactions are only accepted while the chain is in DPoS consensus -/
def Valid (s : St) : List Blk → Prop
  | [] => True
  | .plain :: bs => Valid (connect s .plain) bs
  | .revertToPow :: bs => s.pow = false ∧ Valid (connect s .revertToPow) bs

end ElaVerif.ConsensusMode
