import ElaVerif.Model.OrdMap
/-
  Model of the metadata side of ffldb (database/ffldb/db.go, dbcache.go,
  ldbtreapiter.go): three layers of ordered maps

      leveldb  ⊑  dbCache (cachedKeys / cachedRemove)  ⊑  transaction (pendingKeys / pendingRemove)

  the bucket layer (bucket ids as 4-byte key prefixes, the `bidx` bucket index,
  nested create / delete) and cursors (ordered merge of the transaction's
  pending keys with a snapshot iterator that itself merges leveldb with the
  cache).  goleveldb is trusted: a leveldb database / snapshot is a sorted map,
  its iterators have goleveldb's SOI/EOI semantics, its merged iterator is
  modelled after goleveldb/leveldb/iterator/merged_iter.go.  The treaps are
  sorted maps with the iterator semantics proved in C19.
  Core Lean only.
-/
namespace ElaVerif.Ffldb
open ElaVerif.OrdMap

def has (m : Map) (k : Bytes) : Bool := (find k m).isSome

def inRange (start limit : Option Bytes) (k : Bytes) : Bool :=
  (match start with | some s => compare k s != .lt | none => true) &&
  (match limit with | some l => compare k l == .lt | none => true)

/-- `util.BytesPrefix`: limit = prefix with its last non-0xff byte incremented. -/
def prefixLimit (p : Bytes) : Option Bytes :=
  let rec go : List UInt8 → Option (List UInt8)      -- on the reversed prefix
    | [] => none
    | c :: rest => if c < 0xff then some ((c + 1) :: rest) else go rest
  (go p.reverse).map List.reverse

def hasPrefix (p k : Bytes) : Bool := k.take p.length == p

/-- treap `Size()`: Σ (72 + |k| + |v|) -/
def mapSize (m : Map) : Nat := (m.map fun e => 72 + e.1.length + e.2.length).sum

/-! ## key layout -/

def bidx : Bytes := [0x62, 0x69, 0x64, 0x78]                      -- "bidx"
def curBucketIDKey : Bytes := bidx ++ [0x2d, 0x63, 0x62, 0x69, 0x64]  -- "bidx-cbid"
def metaID : Bytes := [0, 0, 0, 0]
def blockIdxID : Bytes := [0, 0, 0, 1]
def blockIdxName : Bytes := "ffldb-blockidx".toUTF8.toList
def writeLocKey : Bytes := "ffldb-writeloc".toUTF8.toList

def bucketIndexKey (parent name : Bytes) : Bytes := bidx ++ parent ++ name
def bucketizedKey (id k : Bytes) : Bytes := id ++ k

def be32 (n : Nat) : Bytes :=
  [UInt8.ofNat (n / 16777216 % 256), UInt8.ofNat (n / 65536 % 256), UInt8.ofNat (n / 256 % 256), UInt8.ofNat (n % 256)]
def rdBe32 (b : Bytes) : Nat :=
  (b.getD 0 0).toNat * 16777216 + (b.getD 1 0).toNat * 65536 + (b.getD 2 0).toNat * 256 + (b.getD 3 0).toNat

/-- what `initDB` writes (the write-cursor row is supplied by the caller) -/
def initLdb (writeRow : Bytes) : Map :=
  ins (bucketizedKey metaID writeLocKey) writeRow
    (ins (bucketIndexKey metaID blockIdxName) blockIdxID (ins curBucketIDKey blockIdxID []))

/-! ## layers -/

structure Snapshot where
  ldb : Map := []
  ckeys : Map := []
  cremoves : Map := []
  deriving Repr, Inhabited

def Snapshot.get (s : Snapshot) (k : Bytes) : Option Bytes :=
  if Ffldb.has s.cremoves k then none
  else match find k s.ckeys with
    | some v => some v
    | none => find k s.ldb

def Snapshot.has (s : Snapshot) (k : Bytes) : Bool :=
  if Ffldb.has s.cremoves k then false else if Ffldb.has s.ckeys k then true else Ffldb.has s.ldb k

structure Tx where
  writable : Bool := false
  snap : Snapshot := {}
  pkeys : Map := []
  premoves : Map := []
  closed : Bool := false
  deriving Repr, Inhabited

/-- `transaction.fetchKey` -/
def Tx.fetch (t : Tx) (k : Bytes) : Option Bytes :=
  if t.writable then
    if has t.premoves k then none
    else match find k t.pkeys with
      | some v => some v
      | none => t.snap.get k
  else t.snap.get k

/-- `transaction.hasKey` -/
def Tx.hasKey (t : Tx) (k : Bytes) : Bool :=
  if t.writable then
    if has t.premoves k then false
    else if has t.pkeys k then true else t.snap.has k
  else t.snap.has k

/-- `transaction.putKey` -/
def Tx.putKey (t : Tx) (k v : Bytes) : Tx :=
  { t with premoves := del k t.premoves, pkeys := ins k v t.pkeys }

/-- `transaction.deleteKey` -/
def Tx.deleteKey (t : Tx) (k : Bytes) : Tx :=
  { t with pkeys := del k t.pkeys, premoves := ins k [] t.premoves }

structure DB where
  ldb : Map := []
  ckeys : Map := []
  cremoves : Map := []
  maxSize : Nat := 20971520
  flushAlways : Bool := false
  deriving Repr, Inhabited

def DB.snapshot (d : DB) : Snapshot := { ldb := d.ldb, ckeys := d.ckeys, cremoves := d.cremoves }

/-- apply puts then deletes to leveldb (`commitTreaps`) -/
def applyTo (m : Map) (puts removes : Map) : Map :=
  removes.foldl (fun m e => del e.1 m) (puts.foldl (fun m e => ins e.1 e.2 m) m)

/-- `dbCache.flush` -/
def DB.flush (d : DB) : DB :=
  if d.ckeys.isEmpty && d.cremoves.isEmpty then d
  else { d with ldb := applyTo d.ldb d.ckeys d.cremoves, ckeys := [], cremoves := [] }

/-- `dbCache.needsFlush` (flush interval either 0 = always, or never within a run) -/
def DB.needsFlush (d : DB) (t : Tx) : Bool :=
  d.flushAlways || (mapSize t.snap.ckeys + mapSize t.snap.cremoves) * 3 / 2 > d.maxSize

/-- `dbCache.commitTx` -/
def DB.commitTx (d : DB) (t : Tx) : DB :=
  if d.needsFlush t then
    let d := d.flush
    { d with ldb := applyTo d.ldb t.pkeys t.premoves }
  else
    let (cr, ck) := t.pkeys.foldl (fun (acc : Map × Map) e => (del e.1 acc.1, ins e.1 e.2 acc.2)) (d.cremoves, d.ckeys)
    let (ck, cr) := t.premoves.foldl (fun (acc : Map × Map) e => (del e.1 acc.1, ins e.1 [] acc.2)) (ck, cr)
    { d with ckeys := ck, cremoves := cr }

/-- close + reopen: the cache is flushed, leveldb keeps its contents -/
def DB.reopen (d : DB) : DB := d.flush

/-- the single ordered map a reader sees (abstraction function) -/
def overlay (base puts removes : Map) : Map := applyTo base puts removes
def DB.view (d : DB) : Map := overlay d.ldb d.ckeys d.cremoves
def Snapshot.view (s : Snapshot) : Map := overlay s.ldb s.ckeys s.cremoves
def Tx.view (t : Tx) : Map := if t.writable then overlay t.snap.view t.pkeys t.premoves else t.snap.view

/-! ## buckets -/

inductive Err | bucketNotFound | bucketExists | bucketNameRequired | keyRequired | txNotWritable |
    txClosed | incompatibleValue
  deriving DecidableEq, Repr

/-- `Bucket.Bucket(name)`: id of the nested bucket -/
def childBucket (t : Tx) (id name : Bytes) : Option Bytes :=
  (t.fetch (bucketIndexKey id name)).map fun v => (v ++ [0, 0, 0, 0]).take 4

/-- resolve a path of nested bucket names from the metadata bucket -/
def resolve (t : Tx) : List Bytes → Bytes → Option Bytes
  | [], id => some id
  | n :: rest, id => match childBucket t id n with
    | some c => resolve t rest c
    | none => none

def nextBucketID (t : Tx) : Tx × Bytes :=
  let cur := rdBe32 ((t.fetch curBucketIDKey).getD [])
  let nid := be32 ((cur + 1) % 4294967296)
  (t.putKey curBucketIDKey nid, nid)

def createBucket (t : Tx) (id name : Bytes) : Tx × Except Err Bytes :=
  if !t.writable then (t, .error .txNotWritable)
  else if name.isEmpty then (t, .error .bucketNameRequired)
  else if t.hasKey (bucketIndexKey id name) then (t, .error .bucketExists)
  else
    let (t, cid) := if id == metaID && name == blockIdxName then (t, blockIdxID) else nextBucketID t
    (t.putKey (bucketIndexKey id name) cid, .ok cid)

def createBucketIfNotExists (t : Tx) (id name : Bytes) : Tx × Except Err Bytes :=
  if !t.writable then (t, .error .txNotWritable)
  else match childBucket t id name with
    | some c => (t, .ok c)
    | none => createBucket t id name

/-- ids of the bucket `cid` and everything nested below it, as visible in the transaction -/
def subtreeIds (view : Map) : Nat → List Bytes → List Bytes → List Bytes
  | 0, _, acc => acc
  | fuel + 1, todo, acc =>
    match todo with
    | [] => acc
    | c :: rest =>
      let kids := (view.filter fun e => hasPrefix (bidx ++ c) e.1).map fun e => (e.2 ++ [0, 0, 0, 0]).take 4
      subtreeIds view fuel (kids ++ rest) (c :: acc)

/-- `Bucket.DeleteBucket`: every visible key of the bucket and of the buckets nested in it,
    their index entries, and the bucket's own index entry are deleted. -/
def deleteBucket (t : Tx) (id name : Bytes) : Tx × Except Err Unit :=
  if !t.writable then (t, .error .txNotWritable)
  else match childBucket t id name with
    | none => (t, .error .bucketNotFound)
    | some cid =>
      let view := t.view
      let ids := subtreeIds view (view.length + 1) [cid] []
      let doomed := view.filter fun e => ids.any fun c => hasPrefix c e.1 || hasPrefix (bidx ++ c) e.1
      let t := doomed.foldl (fun t e => t.deleteKey e.1) t
      (t.deleteKey (bucketIndexKey id name), .ok ())

def bucketPut (t : Tx) (id k v : Bytes) : Tx × Except Err Unit :=
  if !t.writable then (t, .error .txNotWritable)
  else if k.isEmpty then (t, .error .keyRequired)
  else (t.putKey (bucketizedKey id k) v, .ok ())

def bucketGet (t : Tx) (id k : Bytes) : Option Bytes :=
  if k.isEmpty then none else t.fetch (bucketizedKey id k)

def bucketDelete (t : Tx) (id k : Bytes) : Tx × Except Err Unit :=
  if !t.writable then (t, .error .txNotWritable)
  else if k.isEmpty then (t, .ok ())
  else (t.deleteKey (bucketizedKey id k), .ok ())

/-! ## iterators -/

class ItOps (α : Type) where
  first : α → α × Bool
  last : α → α × Bool
  next : α → α × Bool
  prev : α → α × Bool
  seek : α → Bytes → α × Bool
  key : α → Option Bytes
  value : α → Option Bytes
  /-- the transaction's pending-keys treap changed (`notifyActiveIters` → `ForceReseek`) -/
  refresh : α → Map → α := fun a _ => a

inductive Pos | soi | eoi | at (i : Nat)
  deriving DecidableEq, Repr, Inhabited

/-- a goleveldb iterator over a snapshot restricted to a range -/
structure LdbIt where
  items : List (Bytes × Bytes) := []
  pos : Pos := .soi
  deriving Repr, Inhabited

def LdbIt.mk' (m : Map) (start limit : Option Bytes) : LdbIt :=
  { items := m.filter fun e => inRange start limit e.1 }

def LdbIt.cur (it : LdbIt) : Option (Bytes × Bytes) :=
  match it.pos with
  | .at i => it.items[i]?
  | _ => none

def LdbIt.first (it : LdbIt) : LdbIt × Bool :=
  if it.items.isEmpty then ({ it with pos := .eoi }, false) else ({ it with pos := .at 0 }, true)
def LdbIt.last (it : LdbIt) : LdbIt × Bool :=
  if it.items.isEmpty then ({ it with pos := .soi }, false) else ({ it with pos := .at (it.items.length - 1) }, true)
def LdbIt.seek (it : LdbIt) (k : Bytes) : LdbIt × Bool :=
  match it.items.findIdx? fun e => compare e.1 k != .lt with
  | some i => ({ it with pos := .at i }, true)
  | none => ({ it with pos := .eoi }, false)
def LdbIt.next (it : LdbIt) : LdbIt × Bool :=
  match it.pos with
  | .eoi => (it, false)
  | .soi => it.first
  | .at i => if i + 1 < it.items.length then ({ it with pos := .at (i + 1) }, true) else ({ it with pos := .eoi }, false)
def LdbIt.prev (it : LdbIt) : LdbIt × Bool :=
  match it.pos with
  | .soi => (it, false)
  | .eoi => it.last
  | .at i => if i = 0 then ({ it with pos := .soi }, false) else ({ it with pos := .at (i - 1) }, true)

instance : ItOps LdbIt where
  first := LdbIt.first
  last := LdbIt.last
  next := LdbIt.next
  prev := LdbIt.prev
  seek := LdbIt.seek
  key it := it.cur.map (·.1)
  value it := it.cur.map (·.2)

/-- a treap iterator (C19) seen as an iterator over the treap's sorted contents -/
structure TreapIt where
  items : Map := []
  start : Option Bytes := none
  limit : Option Bytes := none
  cur : Option (Bytes × Bytes) := none
  isNew : Bool := true
  live : Bool := false          -- iterates the transaction's mutable pending-keys treap
  deriving Repr, Inhabited

def TreapIt.land (it : TreapIt) (e : Option (Bytes × Bytes)) : TreapIt × Bool :=
  match e with
  | some e => if inRange it.start it.limit e.1 then ({ it with cur := some e }, true) else ({ it with cur := none }, false)
  | none => ({ it with cur := none }, false)

def TreapIt.first (it : TreapIt) : TreapIt × Bool :=
  let it := { it with isNew := false }
  it.land (match it.start with | some s => ceil s false it.items | none => it.items.head?)
def TreapIt.last (it : TreapIt) : TreapIt × Bool :=
  let it := { it with isNew := false }
  it.land (match it.limit with | some l => floor l true it.items | none => it.items.getLast?)
/-- `Seek`: a key below the iterator's start key is clamped to it -/
def TreapIt.seek (it : TreapIt) (k : Bytes) : TreapIt × Bool :=
  let it := { it with isNew := false }
  let k := match it.start with
    | some s => if compare k s == Ordering.lt then s else k
    | none => k
  it.land (ceil k false it.items)
def TreapIt.next (it : TreapIt) : TreapIt × Bool :=
  if it.isNew then it.first else
  match it.cur with
  | none => (it, false)
  | some (k, _) => it.land (ceil k true it.items)
def TreapIt.prev (it : TreapIt) : TreapIt × Bool :=
  if it.isNew then it.last else
  match it.cur with
  | none => (it, false)
  | some (k, _) => it.land (floor k true it.items)

instance : ItOps TreapIt where
  first := TreapIt.first
  last := TreapIt.last
  next := TreapIt.next
  prev := TreapIt.prev
  seek := TreapIt.seek
  key it := it.cur.map (·.1)
  value it := it.cur.map (·.2)
  refresh it m :=
    if it.live then
      { it with items := m, cur := it.cur.map fun (k, v) => (k, (find k m).getD v) }
    else it

/-- `syncMergedIter`: after a change of direction, put the iterator that is not the current
    one next to the current key: first key > `key` (forwards) / last key < `key` (backwards) -/
def syncOther {α : Type} [ItOps α] (o : α) (key : Bytes) (forwards : Bool) : α :=
  let (o, ok) := ItOps.seek o key
  if forwards then
    if ok && ItOps.key o == some key then (ItOps.next o).1 else o
  else
    if ok then (ItOps.prev o).1 else (ItOps.last o).1

/-- `dbCacheIterator`: leveldb snapshot iterator merged with the cache treap -/
structure CacheIt where
  db : LdbIt := {}
  ci : TreapIt := {}
  cur : Option Bool := none      -- some true = dbIter, some false = cacheIter
  fwd : Bool := true             -- direction of the last move
  sk : Map := []                 -- the snapshot's cached keys / removes (skipPendingUpdates)
  sr : Map := []
  deriving Repr, Inhabited

def CacheIt.skip (it : CacheIt) (forwards : Bool) : CacheIt :=
  let rec go : Nat → LdbIt → LdbIt
    | 0, d => d
    | fuel + 1, d =>
      match d.cur with
      | none => d
      | some (k, _) =>
        if has it.sr k || has it.sk k then go fuel (if forwards then d.next.1 else d.prev.1) else d
  { it with db := go (it.db.items.length + 1) it.db }

def CacheIt.choose (it : CacheIt) (forwards : Bool) : CacheIt × Bool :=
  let it := it.skip forwards
  match it.db.cur, it.ci.cur with
  | none, none => ({ it with cur := none }, false)
  | some _, none => ({ it with cur := some true }, true)
  | none, some _ => ({ it with cur := some false }, true)
  | some (dk, _), some (ck, _) =>
    let c := compare dk ck
    if (forwards && c == .gt) || (!forwards && c == .lt) then ({ it with cur := some false }, true)
    else ({ it with cur := some true }, true)

def CacheIt.curKey (it : CacheIt) : Option Bytes :=
  match it.cur with
  | none => none
  | some true => it.db.cur.map (·.1)
  | some false => it.ci.cur.map (·.1)

instance : ItOps CacheIt where
  first it := ({ it with db := it.db.first.1, ci := it.ci.first.1, fwd := true }).choose true
  last it := ({ it with db := it.db.last.1, ci := it.ci.last.1, fwd := false }).choose false
  seek it k := ({ it with db := (it.db.seek k).1, ci := (it.ci.seek k).1, fwd := true }).choose true
  next it :=
    match it.cur, it.curKey with
    | none, _ => (it, false)
    | some isDb, k =>
      if !it.fwd then    -- direction change: reposition both iterators after the current key
        let k := k.getD []
        ({ it with db := syncOther it.db k true, ci := syncOther it.ci k true, fwd := true }).choose true
      else if isDb then ({ it with db := it.db.next.1 }).choose true
      else ({ it with ci := it.ci.next.1 }).choose true
  prev it :=
    match it.cur, it.curKey with
    | none, _ => (it, false)
    | some isDb, k =>
      if it.fwd then
        let k := k.getD []
        ({ it with db := syncOther it.db k false, ci := syncOther it.ci k false, fwd := false }).choose false
      else if isDb then ({ it with db := it.db.prev.1 }).choose false
      else ({ it with ci := it.ci.prev.1 }).choose false
  key it := it.curKey
  value it := match it.cur with
    | none => none
    | some true => it.db.cur.map (·.2)
    | some false => it.ci.cur.map (·.2)

inductive Dir | soi | eoi | backward | forward
  deriving DecidableEq, Repr, Inhabited

/-- goleveldb's merged iterator over two iterators -/
structure Merged (α : Type) where
  a : α
  b : α
  ka : Option Bytes := none
  kb : Option Bytes := none
  idx : Bool := false       -- false = a, true = b
  dir : Dir := .soi

namespace Merged
variable {α : Type} [ItOps α]

def curKey (m : Merged α) : Option Bytes := if m.idx then m.kb else m.ka

def nextSel (m : Merged α) : Merged α × Bool :=
  let key0 : Option Bytes := if m.dir == .forward then m.curKey else none
  -- scan x = 0 (a) then x = 1 (b), keeping the smallest
  let (key1, idx1) := match m.ka, key0 with
    | some t, none => (some t, false)
    | some t, some k => if compare t k == Ordering.lt then (some t, false) else (some k, m.idx)
    | none, k => (k, m.idx)
  let (key2, idx2) := match m.kb, key1 with
    | some t, none => (some t, true)
    | some t, some k => if compare t k == Ordering.lt then (some t, true) else (some k, idx1)
    | none, k => (k, idx1)
  match key2 with
  | none => ({ m with idx := idx2, dir := .eoi }, false)
  | some _ => ({ m with idx := idx2, dir := .forward }, true)

def prevSel (m : Merged α) : Merged α × Bool :=
  let key0 : Option Bytes := if m.dir == .backward then m.curKey else none
  let (key1, idx1) := match m.ka, key0 with
    | some t, none => (some t, false)
    | some t, some k => if compare t k == Ordering.gt then (some t, false) else (some k, m.idx)
    | none, k => (k, m.idx)
  let (key2, idx2) := match m.kb, key1 with
    | some t, none => (some t, true)
    | some t, some k => if compare t k == Ordering.gt then (some t, true) else (some k, idx1)
    | none, k => (k, idx1)
  match key2 with
  | none => ({ m with idx := idx2, dir := .soi }, false)
  | some _ => ({ m with idx := idx2, dir := .backward }, true)

def first (m : Merged α) : Merged α × Bool :=
  let a := (ItOps.first m.a).1
  let b := (ItOps.first m.b).1
  nextSel { m with a := a, b := b, ka := ItOps.key a, kb := ItOps.key b, dir := .soi }

def last (m : Merged α) : Merged α × Bool :=
  let a := (ItOps.last m.a).1
  let b := (ItOps.last m.b).1
  prevSel { m with a := a, b := b, ka := ItOps.key a, kb := ItOps.key b, dir := .eoi }

def seek (m : Merged α) (k : Bytes) : Merged α × Bool :=
  let a := (ItOps.seek m.a k).1
  let b := (ItOps.seek m.b k).1
  nextSel { m with a := a, b := b, ka := ItOps.key a, kb := ItOps.key b, dir := .soi }

def stepFwd (m : Merged α) : Merged α × Bool :=
  if m.idx then
    let b := (ItOps.next m.b).1
    nextSel { m with b := b, kb := ItOps.key b }
  else
    let a := (ItOps.next m.a).1
    nextSel { m with a := a, ka := ItOps.key a }

def next (m : Merged α) : Merged α × Bool :=
  match m.dir with
  | .eoi => (m, false)
  | .soi => first m
  | .backward =>
    match m.curKey with
    | none => (m, false)
    | some k =>
      let (m, ok) := seek m k
      if !ok then (m, false) else stepFwd m
  | .forward => stepFwd m

def stepBack (m : Merged α) : Merged α × Bool :=
  if m.idx then
    let b := (ItOps.prev m.b).1
    prevSel { m with b := b, kb := ItOps.key b }
  else
    let a := (ItOps.prev m.a).1
    prevSel { m with a := a, ka := ItOps.key a }

/-- reposition the non-current iterator just below `key` -/
def below (x : α) (key : Bytes) : α :=
  let (x, ok) := ItOps.seek x key
  if ok then (ItOps.prev x).1 else (ItOps.last x).1

def prev (m : Merged α) : Merged α × Bool :=
  match m.dir with
  | .soi => (m, false)
  | .eoi => last m
  | .forward =>
    match m.curKey with
    | none => (m, false)
    | some k =>
      let m := if m.idx then
          let a := below m.a k; { m with a := a, ka := ItOps.key a }
        else
          let b := below m.b k; { m with b := b, kb := ItOps.key b }
      stepBack m
  | .backward => stepBack m

def valid (m : Merged α) : Bool := m.dir == .forward || m.dir == .backward

instance : ItOps (Merged α) where
  first := first
  last := last
  next := next
  prev := prev
  seek := seek
  key m := if valid m then m.curKey else none
  value m := if valid m then (if m.idx then ItOps.value m.b else ItOps.value m.a) else none
  refresh m mp := { m with a := ItOps.refresh m.a mp, b := ItOps.refresh m.b mp }

end Merged

/-- `cursor`: the transaction's pending keys merged with the snapshot iterator -/
structure Cursor (δ π : Type) where
  bucket : Bytes
  db : δ
  pend : π
  cur : Option Bool := none       -- some true = dbIter, some false = pendingIter
  fwd : Bool := true              -- direction of the last move

namespace Cursor
variable {δ π : Type} [ItOps δ] [ItOps π]

def skip (c : Cursor δ π) (t : Tx) (forwards : Bool) (fuel : Nat) : Cursor δ π :=
  let rec go : Nat → δ → δ
    | 0, d => d
    | fuel + 1, d =>
      match ItOps.key d with
      | none => d
      | some k =>
        if has t.premoves k || has t.pkeys k then go fuel (if forwards then (ItOps.next d).1 else (ItOps.prev d).1)
        else d
  { c with db := go fuel c.db }

def choose (c : Cursor δ π) (t : Tx) (forwards : Bool) (fuel : Nat) : Cursor δ π × Bool :=
  let c := c.skip t forwards fuel
  match ItOps.key c.db, ItOps.key c.pend with
  | none, none => ({ c with cur := none }, false)
  | some _, none => ({ c with cur := some true }, true)
  | none, some _ => ({ c with cur := some false }, true)
  | some dk, some pk =>
    let cmp := compare dk pk
    if (forwards && cmp == Ordering.gt) || (!forwards && cmp == Ordering.lt) then ({ c with cur := some false }, true)
    else ({ c with cur := some true }, true)

def rawKey (c : Cursor δ π) : Option Bytes :=
  match c.cur with
  | none => none
  | some true => ItOps.key c.db
  | some false => ItOps.key c.pend

def first (c : Cursor δ π) (t : Tx) (fuel : Nat) : Cursor δ π × Bool :=
  ({ c with db := (ItOps.first c.db).1, pend := (ItOps.first c.pend).1, fwd := true }).choose t true fuel
def last (c : Cursor δ π) (t : Tx) (fuel : Nat) : Cursor δ π × Bool :=
  ({ c with db := (ItOps.last c.db).1, pend := (ItOps.last c.pend).1, fwd := false }).choose t false fuel
def seek (c : Cursor δ π) (t : Tx) (fuel : Nat) (k : Bytes) : Cursor δ π × Bool :=
  let sk := bucketizedKey c.bucket k
  ({ c with db := (ItOps.seek c.db sk).1, pend := (ItOps.seek c.pend sk).1, fwd := true }).choose t true fuel
def next (c : Cursor δ π) (t : Tx) (fuel : Nat) : Cursor δ π × Bool :=
  match c.cur with
  | none => (c, false)
  | some isDb =>
    if !c.fwd then   -- direction change: reposition both iterators after the current key
      let k := c.rawKey.getD []
      ({ c with db := syncOther c.db k true, pend := syncOther c.pend k true, fwd := true }).choose t true fuel
    else if isDb then ({ c with db := (ItOps.next c.db).1 }).choose t true fuel
    else ({ c with pend := (ItOps.next c.pend).1 }).choose t true fuel
def prev (c : Cursor δ π) (t : Tx) (fuel : Nat) : Cursor δ π × Bool :=
  match c.cur with
  | none => (c, false)
  | some isDb =>
    if c.fwd then
      let k := c.rawKey.getD []
      ({ c with db := syncOther c.db k false, pend := syncOther c.pend k false, fwd := false }).choose t false fuel
    else if isDb then ({ c with db := (ItOps.prev c.db).1 }).choose t false fuel
    else ({ c with pend := (ItOps.prev c.pend).1 }).choose t false fuel

def rawValue (c : Cursor δ π) : Option Bytes :=
  match c.cur with
  | none => none
  | some true => ItOps.value c.db
  | some false => ItOps.value c.pend

/-- `cursor.Key`: strip the bucket id, or `bidx` + parent id for a nested bucket -/
def key (c : Cursor δ π) : Option Bytes :=
  c.rawKey.map fun k => if hasPrefix bidx k then k.drop 8 else k.drop 4
/-- `cursor.Value`: nil for a nested bucket -/
def value (c : Cursor δ π) : Option Bytes :=
  match c.rawKey with
  | none => none
  | some k => if hasPrefix bidx k then none else c.rawValue

end Cursor

abbrev FullCursor := Cursor (Merged CacheIt) (Merged TreapIt)
abbrev KeyCursor := Cursor CacheIt TreapIt

def mkCacheIt (s : Snapshot) (pfx : Bytes) : CacheIt :=
  let lim := prefixLimit pfx
  { db := LdbIt.mk' s.ldb (some pfx) lim,
    ci := { items := s.ckeys, start := some pfx, limit := lim },
    sk := s.ckeys, sr := s.cremoves }

def mkPendIt (t : Tx) (pfx : Bytes) : TreapIt :=
  { items := t.pkeys, start := some pfx, limit := prefixLimit pfx, live := true }

/-- `newCursor(b, id, ctFull)` -/
def newFullCursor (t : Tx) (id : Bytes) : FullCursor :=
  { bucket := id,
    db := { a := mkCacheIt t.snap id, b := mkCacheIt t.snap (bidx ++ id) },
    pend := { a := mkPendIt t id, b := mkPendIt t (bidx ++ id) } }

/-- `newCursor(b, id, ctKeys)` / `ctBuckets` (prefix `bidx ++ id`) -/
def newKeyCursor (t : Tx) (id pfx : Bytes) : KeyCursor :=
  { bucket := id, db := mkCacheIt t.snap pfx, pend := mkPendIt t pfx }

/-- walk a cursor from `First` with `Next` collecting (key, value) -/
def walk {δ π : Type} [ItOps δ] [ItOps π] (t : Tx) (fuel : Nat) (c : Cursor δ π) :
    List (Option Bytes × Option Bytes) :=
  let rec go : Nat → Cursor δ π × Bool → List (Option Bytes × Option Bytes) → List (Option Bytes × Option Bytes)
    | 0, _, acc => acc.reverse
    | n + 1, (c, ok), acc =>
      if !ok then acc.reverse else go n (c.next t fuel) ((c.key, c.value) :: acc)
  go fuel (c.first t fuel) []

end ElaVerif.Ffldb
