import ElaVerif.Model.WireSchemas
/-
  Transaction and block envelope (core Lean only), parallel to
  core/transaction/common.go `GetTransactionByBytes`,
  core/transaction/transaction.go `Serialize / SerializeUnsigned / Deserialize / DeserializeUnsigned / hash`
  and core/types/block.go `Serialize / Deserialize`.
-/
namespace ElaVerif.Tx
open ElaVerif.Bytes ElaVerif.Wire ElaVerif.WireSchemas

/-- `TxVersion09` -/
def txVersion09 : Nat := 9

structure Tx where
  version : Nat
  txType : Nat
  /-- `[tag payloadVersion payload, list attributes, list inputs, list outputs, num lockTime]` -/
  body : List Val
  /-- `list programs` -/
  programs : Val

/-- the schema of the unsigned fields for a (type, version) pair; `none` if `GetTransaction`
    does not know the type or the type is outside the covered table -/
def bodyTy? (txType version : Nat) : Option (List Ty) :=
  match payloadOf txType with
  | .covered f => some (txBody f (decide (txVersion09 ≤ version)))
  | _ => none

/-- first bytes written by `SerializeUnsigned`: the version only when it is `≥ TxVersion09`, then the type -/
def txPrefix (tx : Tx) : Bytes :=
  (if txVersion09 ≤ tx.version then leEnc 1 tx.version else []) ++ leEnc 1 tx.txType

/-- `SerializeUnsigned` -/
def encodeUnsigned (tx : Tx) : Bytes :=
  match bodyTy? tx.txType tx.version with
  | some fs => txPrefix tx ++ encodeFields fs tx.body
  | none => []

/-- `Serialize` = `SerializeUnsigned`, program count, programs -/
def encodeTx (tx : Tx) : Bytes := encodeUnsigned tx ++ encode programs tx.programs

/-- `hash()`: the hash function applied to the unsigned serialization -/
def txHash (H : Bytes → Bytes) (tx : Tx) : Bytes := H (encodeUnsigned tx)

/-- `GetTransactionByBytes`: the flag byte is the version if it is `≥ 9` (then the type follows),
    otherwise it is the type and the version is 0. -/
def readTxHead (bs : Bytes) : Option ((Nat × Nat) × Bytes) :=
  match readLE 1 bs with
  | none => none
  | some (flag, r) =>
    if txVersion09 ≤ flag then
      match readLE 1 r with
      | none => none
      | some (ty, r2) => some ((flag, ty), r2)
    else some ((0, flag), r)

/-- `GetTransactionByBytes` followed by `Deserialize`, metered -/
def decodeTxA (bs : Bytes) : R Tx :=
  match readTxHead bs with
  | none => R.fail
  | some ((ver, ty), r) =>
    match bodyTy? ty ver with
    | none => R.fail
    | some fs =>
      let r1 := decodeFields fs r
      match r1.res with
      | none => R.fail r1.alloc
      | some (body, r2) =>
        let r3 := decodeA programs r2
        ⟨r1.alloc + r3.alloc,
         match r3.res with
         | some (ps, rest) => some (⟨ver, ty, body, ps⟩, rest)
         | none => none⟩

def decodeTx (bs : Bytes) : Option (Tx × Bytes) := (decodeTxA bs).res

/-- Well-formed transaction.  Besides field well-formedness it contains the clause forced by
    `GetTransactionByBytes`: a version below 9 is never written, so it must be 0, and then the type
    byte must be below 9 (otherwise the reader takes the type byte for the version). -/
def wfTx (tx : Tx) : Bool :=
  decide (tx.version < 256) && decide (tx.txType < 256) &&
  (if txVersion09 ≤ tx.version then true else decide (tx.version = 0) && decide (tx.txType < txVersion09)) &&
  (match bodyTy? tx.txType tx.version with
   | some fs => wfFields fs tx.body
   | none => false) &&
  wf programs tx.programs

/-! ### block -/

/-- `for i < count { GetTransactionByBytes; Deserialize; append }` -/
def repeatTx (ovh : Nat) : Nat → Bytes → R (List Tx) := repeatDec decodeTxA ovh

structure Block where
  header : Val
  txs : List Tx

def encodeTxs : List Tx → Bytes
  | [] => []
  | t :: ts => encodeTx t ++ encodeTxs ts

/-- `Block.Serialize`: header, `uint32` count, transactions -/
def encodeBlock (b : Block) : Bytes :=
  encode header b.header ++ leEnc 4 b.txs.length ++ encodeTxs b.txs

/-- `Block.Deserialize` -/
def decodeBlockA (bs : Bytes) : R Block :=
  let r1 := decodeA header bs
  match r1.res with
  | none => R.fail r1.alloc
  | some (h, r) =>
    match readLE 4 r with
    | none => R.fail r1.alloc
    | some (n, r2) =>
      let r3 := repeatTx 512 n r2
      ⟨r1.alloc + r3.alloc,
       match r3.res with | some (txs, rest) => some (⟨h, txs⟩, rest) | none => none⟩

def allTx (p : Tx → Bool) : List Tx → Bool
  | [] => true
  | t :: ts => p t && allTx p ts

def wfBlock (b : Block) : Bool :=
  wf header b.header && decide (b.txs.length < 2 ^ 32) && allTx wfTx b.txs

end ElaVerif.Tx
