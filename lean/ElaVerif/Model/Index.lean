/-
  Persistent index state of the chain store and its connect / disconnect
  (core Lean only; shared by C13, C06, C14).

  Go code modelled (structurally parallel, names in brackets):
    blockchain/chainstore.go         persist / rollback, Get{Save,Rollback}ProcessorsFromBlock
    blockchain/chainstoreffldb.go    SaveBlock / RollbackBlock  (one atomic db transaction:
                                     processors, then the index manager)
    blockchain/indexers/manager.go   dbIndexConnectBlock / dbIndexDisconnectBlock (tip assertion),
                                     order of the indexes: tx, unspent, utxo, return-deposit
    blockchain/indexers/txindex.go, unspentindex.go, utxoindex.go, returndepositindex.go
    core/transaction/*               GetSaveProcessor / GetRollbackProcessor
                                     (WithdrawFromSideChain v0/v1/v2, CRCProposal, CRCProposalReview,
                                      CRCProposalTracking; every other type: DefaultProcessor = none)

  Hashes are opaque naturals. A finite map is an association list with shadowing
  (first match wins) and tombstones, so `find?/get` after `put/del` reduce by `simp`.
-/
namespace ElaVerif.Index

abbrev Map (K V : Type) := List (K × Option V)

namespace Map
variable {K V : Type} [DecidableEq K]

/-- first entry for `k`: `none` = no entry, `some none` = deleted, `some (some v)` = value -/
def find? : Map K V → K → Option (Option V)
  | [], _ => none
  | (k', v) :: r, k => if k' = k then some v else find? r k

def get (m : Map K V) (k : K) : Option V :=
  match find? m k with
  | some v => v
  | none => none

def put (m : Map K V) (k : K) (v : V) : Map K V := (k, some v) :: m
def del (m : Map K V) (k : K) : Map K V := (k, none) :: m

/-- keys with an entry, most recent first, without repetition -/
def keys : Map K V → List K
  | [] => []
  | (k, _) :: r => k :: (keys r).filter (· ≠ k)

end Map

/-- one transaction output as far as the indexes look at it -/
structure Out where
  addr : Nat
  value : Int
  /-- `some h`: output type OTWithdrawFromSideChain with an `outputpayload.Withdraw` (side-chain tx hash h) -/
  wd : Option Nat := none
  /-- `some h`: output type OTReturnSideChainDepositCoin with an `outputpayload.ReturnSideChainDeposit` -/
  rd : Option Nat := none
deriving DecidableEq, Repr

inductive Kind
  | coinbase | registerAsset | withdraw | returnDeposit | proposal | review | tracking | other
deriving DecidableEq, Repr

structure Tx where
  id : Nat
  kind : Kind
  pver : Nat
  ins : List (Nat × Nat)
  outs : List Out
  /-- payload hashes: withdraw v0 `SideChainTransactionHashes`; proposal `[DraftHash]`;
      review `[OpinionHash]`; tracking `[SecretaryGeneralOpinionHash, MessageHash]` -/
  phashes : List Nat := []
  /-- payload data stored under the hashes above (hex text) -/
  pdatas : List String := []
deriving DecidableEq, Repr

structure Block where
  id : Nat
  prev : Nat
  height : Nat
  txs : List Tx
  /-- compact difficulty of the header (0: not given — every block then counts the same) -/
  bits : Nat := 0
deriving DecidableEq, Repr

/-- entry of the per-address index: txid, output index, value -/
abbrev Utxo := Nat × Nat × Int

structure State where
  /-- tip of every index (they move together inside one db transaction) -/
  tip : Nat
  /-- `ChainStore.currentBlockHeight` -/
  height : Nat
  /-- tx index as seen through `FetchTx`: txid ↦ (height, outputs) -/
  txs : Map Nat (Nat × List Out) := []
  /-- unspent index: txid ↦ unspent output indexes, in stored order -/
  unspent : Map Nat (List Nat) := []
  /-- per-address index: (program hash, height) ↦ utxos, in stored order -/
  utxo : Map (Nat × Nat) (List Utxo) := []
  tx3 : Map Nat Unit := []
  retdep : Map Nat Unit := []
  drafts : Map Nat String := []

inductive Res (α : Type)
  | ok (a : α)
  | err
  | panic
deriving Repr

def Res.bind {α β} (r : Res α) (f : α → Res β) : Res β :=
  match r with
  | .ok a => f a
  | .err => .err
  | .panic => .panic

/-! ### swap-and-pop, as both list indexes do it -/

/-- `for k, x := range l { if p x { l[k] = l[len-1]; l = l[:len-1]; break } }` -/
def swapRemoveP {α : Type} (p : α → Bool) : List α → List α
  | [] => []
  | a :: r =>
    if p a then
      match r.getLast? with
      | none => []
      | some z => z :: r.dropLast
    else a :: swapRemoveP p r

def swapRemove (l : List Nat) (x : Nat) : List Nat := swapRemoveP (· == x) l

/-! ### how the unspent index stores a list of output indexes (unspentindex.go)

  `toByteArray`: two bytes per index, low byte first; `getUint16Array`: `lo + hi*256`, error on an
  odd length (and on nil, which the callers exclude by testing the length first). -/

def u16enc : List Nat → List Nat
  | [] => []
  | x :: r => x % 65536 % 256 :: x % 65536 / 256 :: u16enc r

def u16dec : List Nat → Option (List Nat)
  | [] => some []
  | [_] => none
  | lo :: hi :: r => (u16dec r).map fun l => ((lo + hi * 256) % 65536) :: l

/-! ### save / rollback processors (core/transaction) -/

def hasSave (k : Kind) (pver : Nat) : Bool :=
  match k with
  | .withdraw => pver == 0 || pver == 1 || pver == 2
  | .proposal | .review | .tracking => true
  | _ => false

def hasRollback (k : Kind) (pver : Nat) : Bool :=
  match k with
  | .withdraw => pver == 0 || pver == 1 || pver == 2   -- v2 since fix 86b3e019
  | .proposal | .review | .tracking => true
  | _ => false

/-- side-chain tx hashes a withdrawal records (payload list for v0, output payloads for v1/v2) -/
def wdHashes (tx : Tx) : List Nat :=
  if tx.pver = 0 then tx.phashes
  else if tx.pver = 1 ∨ tx.pver = 2 then tx.outs.filterMap (·.wd)
  else []

/-- (hash, data) pairs a proposal / review / tracking transaction stores -/
def draftPairs (tx : Tx) : List (Nat × String) :=
  match tx.kind with
  | .proposal | .review => (tx.phashes.zip tx.pdatas).take 1
  | .tracking => (tx.phashes.zip tx.pdatas).take 2
  | _ => []

def saveTx (s : State) (tx : Tx) : State :=
  match tx.kind with
  | .withdraw =>
    if hasSave .withdraw tx.pver then { s with tx3 := (wdHashes tx).foldl (fun m h => m.put h ()) s.tx3 } else s
  | .proposal | .review | .tracking =>
    { s with drafts := (draftPairs tx).foldl (fun m p => m.put p.1 p.2) s.drafts }
  | _ => s

def rollbackTx (s : State) (tx : Tx) : State :=
  match tx.kind with
  | .withdraw =>
    if hasRollback .withdraw tx.pver then { s with tx3 := (wdHashes tx).foldl (fun m h => m.del h) s.tx3 } else s
  | .proposal | .review | .tracking =>
    { s with drafts := (draftPairs tx).foldl (fun m p => m.del p.1) s.drafts }
  | _ => s

/-! ### tx index -/

def txConnect (b : Block) (m : Map Nat (Nat × List Out)) : Map Nat (Nat × List Out) :=
  b.txs.foldl (fun m tx => m.put tx.id (b.height, tx.outs)) m

/-- `dbRemoveTxIndexEntry` fails on a missing entry -/
def txDisconnect (b : Block) (m : Map Nat (Nat × List Out)) : Res (Map Nat (Nat × List Out)) :=
  b.txs.foldl (fun r tx => r.bind fun m =>
    match m.get tx.id with
    | none => .err
    | some _ => .ok (m.del tx.id)) (.ok m)

/-! ### the batch-map idiom shared by the two list indexes

  Both `UnspentIndex` and `UtxoIndex` collect their changes in a Go map keyed like the database
  bucket (`unspents`, `utxoMap`): the first touch of a key loads the database value (or starts from
  nil), later touches work on the map entry; at the end every map entry is written back. -/

structure BOp (K E : Type) where
  key : K
  /-- first touch loads the database value (`false`: starts from nil) -/
  readDb : Bool
  f : List E → List E

section batch
variable {K E : Type} [DecidableEq K]

def bcur (db u : Map K (List E)) (op : BOp K E) : List E :=
  match u.find? op.key with
  | some v => v.getD []
  | none => if op.readDb then (db.get op.key).getD [] else []

def bstep (db : Map K (List E)) (u : Map K (List E)) (op : BOp K E) : Map K (List E) :=
  u.put op.key (op.f (bcur db u op))

def batch (db : Map K (List E)) (ops : List (BOp K E)) : Map K (List E) := ops.foldl (bstep db) []

def flushStep (delEmpty : Bool) (u : Map K (List E)) (m : Map K (List E)) (k : K) : Map K (List E) :=
  match u.get k with
  | some l => if delEmpty && l.isEmpty then m.del k else m.put k l
  | none => m

/-- write every batch entry back; `delEmpty`: an empty list deletes the key instead -/
def flush (delEmpty : Bool) (db u : Map K (List E)) : Map K (List E) :=
  u.keys.foldl (flushStep delEmpty u) db

end batch

/-! ### unspent index -/

def txIns (tx : Tx) : List (Nat × Nat) := if tx.kind = .coinbase then [] else tx.ins

def uCreate (id n : Nat) : BOp Nat Nat := { key := id, readDb := false, f := fun l => l ++ List.range n }
def uSpend (p : Nat × Nat) : BOp Nat Nat := { key := p.1, readDb := true, f := fun l => swapRemove l p.2 }

def txUOps (tx : Tx) : List (BOp Nat Nat) :=
  if tx.kind = .registerAsset then [] else
  (if tx.outs.isEmpty then [] else [uCreate tx.id tx.outs.length]) ++ (txIns tx).map uSpend

def blockUOps (b : Block) : List (BOp Nat Nat) := b.txs.flatMap txUOps

/-- `dbRemoveUnspentIndexEntry` fails when the database has nothing under the key -/
def uFlushErr (db u : Map Nat (List Nat)) : Bool :=
  u.keys.any fun k => (u.get k).getD [] == [] && (db.get k).getD [] == []

def unspentConnect (b : Block) (db : Map Nat (List Nat)) : Res (Map Nat (List Nat)) :=
  let u := batch db (blockUOps b)
  if uFlushErr db u then .err else .ok (flush true db u)

/-- disconnect: the block's own entries are removed directly (error when missing), the spent
    indexes are appended to a batch whose first touch reads the database as it is at that moment -/
inductive DOp
  | remove (id : Nat)
  | restore (p : Nat × Nat)
deriving DecidableEq, Repr

def uRestore (p : Nat × Nat) : BOp Nat Nat := { key := p.1, readDb := true, f := fun l => l ++ [p.2] }

def txDOps (tx : Tx) : List DOp :=
  if tx.kind = .registerAsset then [] else
  (if tx.outs.isEmpty then [] else [DOp.remove tx.id]) ++ (txIns tx).map DOp.restore

def blockDOps (b : Block) : List DOp := b.txs.flatMap txDOps

def uDiscStep (r : Res (Map Nat (List Nat) × Map Nat (List Nat))) (op : DOp) :
    Res (Map Nat (List Nat) × Map Nat (List Nat)) :=
  r.bind fun (db, u) =>
    match op with
    | .remove id => if (db.get id).getD [] == [] then .err else .ok (db.del id, u)
    | .restore p => .ok (db, bstep db u (uRestore p))

def unspentDisconnect (b : Block) (db : Map Nat (List Nat)) : Res (Map Nat (List Nat)) :=
  ((blockDOps b).foldl uDiscStep (.ok (db, []))).bind fun (db', u) =>
    if uFlushErr db' u then .err else .ok (flush true db' u)

/-! ### per-address index -/

/-- `FetchTx` while a block is being connected: the tx cache already holds the block's own
    (non-RegisterAsset) transactions, everything else comes from the committed tx index -/
def fetchTxConn (s : State) (b : Block) (t : Nat) : Option (Nat × List Out) :=
  match b.txs.find? (fun tx => tx.id == t && tx.kind != .registerAsset) with
  | some tx => some (b.height, tx.outs)
  | none => s.txs.get t

abbrev UBatch := Map (Nat × Nat) (List Utxo)
abbrev AOp := BOp (Nat × Nat) Utxo

def outsIdx (outs : List Out) : List (Nat × Out) := (List.range outs.length).zip outs

def aAdd (bh id : Nat) (p : Nat × Out) : AOp :=
  { key := (p.2.addr, bh), readDb := true, f := fun l => l ++ [(id, p.1, p.2.value)] }

def aRemove (addr h : Nat) (inp : Nat × Nat) : AOp :=
  { key := (addr, h), readDb := true, f := swapRemoveP fun x => x.1 == inp.1 && x.2.1 == inp.2 }

/-- the reference an input resolves to: error when the transaction is unknown, panic when it has
    no such output (`referTx.Outputs()[index]`) -/
def resolve (fetch : Nat → Option (Nat × List Out)) (inp : Nat × Nat) : Res (Nat × Out) :=
  match fetch inp.1 with
  | none => .err
  | some (h, outs) =>
    match outs[inp.2]? with
    | none => .panic
    | some o => .ok (h, o)

def Res.mapM {α β} (f : α → Res β) : List α → Res (List β)
  | [] => .ok []
  | a :: r => (f a).bind fun b => (Res.mapM f r).bind fun bs => .ok (b :: bs)

def txAConnOps (fetch : Nat → Option (Nat × List Out)) (bh : Nat) (tx : Tx) : Res (List AOp) :=
  let adds := ((outsIdx tx.outs).filter fun p => p.2.value ≠ 0).map (aAdd bh tx.id)
  (Res.mapM (fun inp => (resolve fetch inp).bind fun r => .ok (aRemove r.2.addr r.1 inp)) (txIns tx)).bind
    fun rems => .ok (adds ++ rems)

def utxoConnect (s : State) (b : Block) : Res UBatch :=
  (Res.mapM (txAConnOps (fetchTxConn s b) b.height) b.txs).bind fun opss =>
    .ok (flush false s.utxo (batch s.utxo opss.flatten))

def aClear (bh : Nat) (o : Out) : AOp := { key := (o.addr, bh), readDb := false, f := fun _ => [] }

def aRestore (addr h : Nat) (inp : Nat × Nat) (v : Int) : AOp :=
  { key := (addr, h), readDb := true, f := fun l => l ++ [(inp.1, inp.2, v)] }

def txADiscOps (fetch : Nat → Option (Nat × List Out)) (bh : Nat) (tx : Tx) : Res (List AOp) :=
  let clears := tx.outs.map (aClear bh)
  (Res.mapM (fun inp => (resolve fetch inp).bind fun r =>
      .ok (if r.2.value = 0 then [] else [aRestore r.2.addr r.1 inp r.2.value])) (txIns tx)).bind
    fun rs => .ok (clears ++ rs.flatten)

/-- `FetchTx` during disconnect reads the committed tx index (the block's own transactions are
    still in it: their removal is pending in the open db transaction) -/
def utxoDisconnect (s : State) (b : Block) : Res UBatch :=
  (Res.mapM (txADiscOps s.txs.get b.height) b.txs).bind fun opss =>
    .ok (flush false s.utxo (batch s.utxo opss.flatten))

/-! ### return-deposit index -/

def rdHashes (b : Block) : List Nat :=
  b.txs.flatMap fun tx => if tx.kind = .returnDeposit then tx.outs.filterMap (·.rd) else []

/-! ### SaveBlock / RollbackBlock -/

/-- `ChainStoreFFLDB.SaveBlock`: one atomic db transaction — save processors, then the indexes
    (each asserts that the block extends its tip). Also how `chain.Init` indexes the genesis block. -/
def saveFFLDB (s : State) (b : Block) : Res State :=
  let s1 := b.txs.foldl saveTx s
  if s.tip ≠ b.prev then .err else
  (unspentConnect b s.unspent).bind fun un =>
  (utxoConnect s b).bind fun ut =>
  .ok { s1 with
    tip := b.id, height := b.height,
    txs := txConnect b s.txs, unspent := un, utxo := ut,
    retdep := (rdHashes b).foldl (fun m h => m.put h ()) s.retdep }

/-- `ChainStore.SaveBlock`: height check (`handlePersistBlockTask`), then the ffldb part -/
def connect (s : State) (b : Block) : Res State :=
  if b.height ≤ s.height then .err else saveFFLDB s b

/-- state after `chain.Init` on an empty database -/
def genesisState (g : Block) : Res State := saveFFLDB { tip := g.prev, height := 0 } g

/-- `ChainStore.RollbackBlock` -/
def disconnect (s : State) (b : Block) : Res State :=
  let s1 := b.txs.foldl rollbackTx s
  if s.tip ≠ b.id then .err else
  (txDisconnect b s.txs).bind fun tx =>
  (unspentDisconnect b s.unspent).bind fun un =>
  (utxoDisconnect s b).bind fun ut =>
  .ok { s1 with
    tip := b.prev, height := b.height - 1,
    txs := tx, unspent := un, utxo := ut,
    retdep := (rdHashes b).foldl (fun m h => m.del h) s.retdep }

/-! ### observations (what the query API returns) -/

/-- `GetUnspent` (nil for a missing entry) -/
def getUnspent (s : State) (t : Nat) : List Nat := (s.unspent.get t).getD []

/-- little-endian 4-byte key of a height, the order `ForEach` walks the per-address bucket in -/
def leKey (h : Nat) : List Nat := [h % 256, h / 256 % 256, h / 65536 % 256, h / 16777216 % 256]

def leLt : List Nat → List Nat → Bool
  | a :: r, b :: r' => a < b || (a == b && leLt r r')
  | _, _ => false

def insertLE (h : Nat) : List Nat → List Nat
  | [] => [h]
  | x :: r => if leLt (leKey h) (leKey x) then h :: x :: r else x :: insertLE h r

/-- `GetUTXO`: all per-height lists of the address, concatenated in bucket key order -/
def getUTXO (s : State) (a : Nat) : List Utxo :=
  let hs := (s.utxo.keys.filter (·.1 == a)).map (·.2)
  (hs.foldr insertLE []).flatMap fun h => (s.utxo.get (a, h)).getD []

end ElaVerif.Index
