/-!
# The tx index's internal block ids (`blockchain/indexers/txindex.go`)

A tx index entry stores a 4-byte internal block id instead of the block hash; the id → hash
bucket resolves it when `FetchBlockRegion` is asked for the transaction (C18's chain-level
reads).  The current id is not persisted: `ConnectBlock` hands out `cur + 1`,
`DisconnectBlock` removes the tip's id and decrements, and after a restart `TxIndex.Init`
recovers `cur` by a forward scan in steps of 100000 followed by a binary search — which is only
right when the ids in use are exactly `1 … cur`.
-/
namespace ElaVerif.BlockIds

structure Ids where
  present : Nat → Bool     -- the id → hash bucket has an entry
  cur : Nat                -- `TxIndex.curBlockID`

/-- `ConnectBlock` -/
def connect (s : Ids) : Ids :=
  { present := fun i => i == s.cur + 1 || s.present i, cur := s.cur + 1 }

/-- `DisconnectBlock` of the tip (the block that holds id `cur`) -/
def disconnect (s : Ids) : Ids :=
  { present := fun i => i != s.cur && s.present i, cur := s.cur - 1 }

/-- the forward scan of `Init`: (highestKnown, nextUnknown) -/
def scan (p : Nat → Bool) (inc : Nat) : Nat → Nat → Nat → Nat × Nat
  | 0, t, hk => (hk, t)
  | f + 1, t, hk => if p t then scan p inc f (t + inc) t else (hk, t)

/-- the binary search of `Init` (body first, then the exit test) -/
def bsearch (p : Nat → Bool) : Nat → Nat → Nat → Nat
  | 0, hk, _ => hk
  | f + 1, hk, nu =>
    let mid := (hk + nu) / 2
    let hk' := if p mid then mid else hk
    let nu' := if p mid then nu else mid
    if hk' + 1 = nu' then hk' else bsearch p f hk' nu'

/-- `TxIndex.Init`: the recovered `curBlockID` -/
def init (p : Nat → Bool) (inc fuel : Nat) : Nat :=
  let (hk, nu) := scan p inc fuel 1 0
  if nu = 1 then 0 else bsearch p fuel hk nu

end ElaVerif.BlockIds
