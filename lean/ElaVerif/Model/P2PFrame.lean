/-
  Executable model of the P2P framing layer (core Lean only):
    /repo/p2p/header.go      BuildHeader, Header.Serialize / Deserialize / Verify / GetCMD
    /repo/p2p/message.go     ReadMessage, WriteMessage
    /repo/p2p/peer/peer.go   CheckAndCreateMessage / CheckAndCreateTxMessage and the command switches
                             (p2p/peer, elanet/server.go, dpos/p2p/peer, dpos/network.go) as a
                             `table : List (command × MaxLength)`, first match wins.

  Parameters (never axioms):
    `H : Bytes → Bytes`                   common.Sha256D  (real SHA-256d in the driver)
    `decode : Bytes → Bytes → Option α`   the per-command `Message.Deserialize` (command, payload)

  The stream is the list of bytes the connection will deliver before EOF.  The model returns
  the outcome, the number of payload bytes allocated by `make([]byte, hdr.Length)` (the
  allocation meter) and the number of stream bytes consumed.
-/
namespace ElaVerif.P2PFrame

abbrev Bytes := List UInt8

def headerSize : Nat := 24
def cmdSize : Nat := 12
def maxMessagePayload : Nat := 1024 * 1024 * 32

/-- little-endian uint32 -/
def le32 (n : Nat) : Bytes :=
  [UInt8.ofNat (n % 256), UInt8.ofNat (n / 256 % 256), UInt8.ofNat (n / 65536 % 256), UInt8.ofNat (n / 16777216 % 256)]

def readLe32 : Bytes → Nat
  | [a, b, c, d] => a.toNat + 256 * b.toNat + 65536 * c.toNat + 16777216 * d.toNat
  | _ => 0

structure Header where
  magic : Nat        -- uint32
  cmd : Bytes        -- [12]byte
  length : Nat       -- uint32
  checksum : Bytes   -- [4]byte
deriving DecidableEq, Repr

/-- `binary.Write(buf, LittleEndian, header)` -/
def Header.serialize (h : Header) : Bytes := le32 h.magic ++ h.cmd ++ le32 h.length ++ h.checksum

/-- `bytes.TrimRight(cmd, "\x00")` -/
def trimZeros (b : Bytes) : Bytes := (b.reverse.dropWhile (· == 0)).reverse

/-- `Header.GetCMD` -/
def Header.getCMD (h : Header) : Bytes := trimZeros h.cmd

/-- the decoder on the four fields of a 24-byte header:
    `end := bytes.IndexByte(cmd, 0); if end < 0 → error`, then `binary.Read`. -/
def parseFields (m4 c12 l4 k4 : Bytes) : Option Header :=
  if c12.contains 0 then some ⟨readLe32 m4, c12, readLe32 l4, k4⟩ else none

/-- `Header.Deserialize(buf)` for the 24 bytes `ReadMessage` hands it. -/
def Header.deserialize (buf : Bytes) : Option Header :=
  parseFields (buf.take 4) ((buf.drop 4).take 12) ((buf.drop 16).take 4) ((buf.drop 20).take 4)

/-- `BuildHeader(magic, cmd, body)`; `none` = the slice-bounds panic of `header.CMD[:len(cmd)]`
    for a command longer than 12 bytes. -/
def buildHeader (H : Bytes → Bytes) (magic : Nat) (cmd body : Bytes) : Option Header :=
  if cmd.length ≤ cmdSize then
    some ⟨magic, cmd ++ List.replicate (cmdSize - cmd.length) 0, body.length % 2 ^ 32, (H body).take 4⟩
  else none

inductive WErr
  | sizeExceeded   -- ErrMsgSizeExceeded (payload > 32 MiB)
  | panic          -- command longer than 12 bytes
deriving DecidableEq, Repr

/-- `len(payload) > MaxMessagePayload` -/
def payloadTooBig (n : Nat) : Bool := n > maxMessagePayload

/-- `WriteMessage` after `msg.Serialize` produced `payload`: the bytes put on the wire.
    `max` = `msg.MaxLength()` of the message being written (per-type guard added by the
    `fix:` commit; `writeMessageUnguarded` is the function as it was before). -/
def writeMessage (H : Bytes → Bytes) (magic : Nat) (cmd : Bytes) (max : Nat) (payload : Bytes) : Except WErr Bytes :=
  if payloadTooBig payload.length then .error .sizeExceeded
  else if payload.length > max then .error .sizeExceeded
  else match buildHeader H magic cmd payload with
    | none => .error .panic
    | some h => .ok (h.serialize ++ payload)

def writeMessageUnguarded (H : Bytes → Bytes) (magic : Nat) (cmd payload : Bytes) : Except WErr Bytes :=
  if payloadTooBig payload.length then .error .sizeExceeded
  else match buildHeader H magic cmd payload with
    | none => .error .panic
    | some h => .ok (h.serialize ++ payload)

inductive Err
  | shortHeader     -- io.EOF / io.ErrUnexpectedEOF while reading the 24 header bytes
  | invalidHeader   -- ErrInvalidHeader (no NUL in the command field)
  | unmatchedMagic  -- ErrUnmatchedMagic
  | unhandled       -- command not in the switch
  | sizeExceeded    -- ErrMsgSizeExceeded (hdr.Length > MaxLength of the command)
  | shortPayload    -- EOF before hdr.Length payload bytes arrived
  | invalidPayload  -- ErrInvalidPayload (checksum)
  | deserialize     -- Message.Deserialize failed
deriving DecidableEq, Repr

structure Out (α : Type) where
  res : Except Err (Bytes × α)   -- (command, message)
  alloc : Nat                    -- bytes given to make([]byte, hdr.Length)
  consumed : Nat                 -- stream bytes consumed
deriving Repr

/-- the command switch -/
def lookup (table : List (Bytes × Nat)) (cmd : Bytes) : Option Nat :=
  match table with
  | [] => none
  | (c, m) :: rest => if c = cmd then some m else lookup rest cmd

/-- `createMessage(hdr, r)` followed by `CheckAndCreateMessage`: everything after the magic check.
    `tail` = the stream after the header. -/
def readBody (H : Bytes → Bytes) (table : List (Bytes × Nat)) (decode : Bytes → Bytes → Option α)
    (hdr : Header) (tail : Bytes) : Out α :=
  match lookup table hdr.getCMD with
  | none => ⟨.error .unhandled, 0, headerSize⟩
  | some max =>
    if hdr.length > max then ⟨.error .sizeExceeded, 0, headerSize⟩
    else if tail.length < hdr.length then ⟨.error .shortPayload, hdr.length, headerSize + tail.length⟩
    else
      let payload := tail.take hdr.length
      if (H payload).take 4 ≠ hdr.checksum then ⟨.error .invalidPayload, hdr.length, headerSize + hdr.length⟩
      else match decode hdr.getCMD payload with
        | none => ⟨.error .deserialize, hdr.length, headerSize + hdr.length⟩
        | some m => ⟨.ok (hdr.getCMD, m), hdr.length, headerSize + hdr.length⟩

/-- `ReadMessage(r, magic, timeout, createMessage)` on the byte stream `s`:
    `io.ReadFull` of 24 bytes, `hdr.Deserialize`, the magic check, then `createMessage(hdr, r)`. -/
def readMessage (H : Bytes → Bytes) (table : List (Bytes × Nat)) (decode : Bytes → Bytes → Option α)
    (magic : Nat) (s : Bytes) : Out α :=
  if s.length < headerSize then ⟨.error .shortHeader, 0, s.length⟩
  else match Header.deserialize (s.take headerSize) with
    | none => ⟨.error .invalidHeader, 0, headerSize⟩
    | some hdr =>
      if hdr.magic ≠ magic then ⟨.error .unmatchedMagic, 0, headerSize⟩
      else readBody H table decode hdr (s.drop headerSize)

/-- a peer's read loop (`inHandler`): messages are read one after the other from the same
    connection until the first error; `fuel` bounds the number of messages. -/
def readStream (H : Bytes → Bytes) (table : List (Bytes × Nat)) (decode : Bytes → Bytes → Option α)
    (magic : Nat) : Nat → Bytes → List (Bytes × α) × Option Err
  | 0, _ => ([], none)
  | fuel + 1, s =>
    if s.isEmpty then ([], none)
    else
      let o := readMessage H table decode magic s
      match o.res with
      | .error e => ([], some e)
      | .ok m =>
        let (ms, e) := readStream H table decode magic fuel (s.drop o.consumed)
        (m :: ms, e)

/-- the writer's side of a session: the frames of a list of (command, max, payload), concatenated;
    `none` if any `WriteMessage` fails. -/
def writeStream (H : Bytes → Bytes) (magic : Nat) : List (Bytes × Nat × Bytes) → Option Bytes
  | [] => some []
  | (cmd, max, payload) :: rest =>
    match writeMessage H magic cmd max payload, writeStream H magic rest with
    | .ok f, some fs => some (f ++ fs)
    | _, _ => none

end ElaVerif.P2PFrame
