import ElaVerif.Model.WireDriver
/-
  Restore-then-continue for the wallet coin checkpoint, through the checkpoint manager
  (core/checkpoint/manager.go `onBlockSaved` / `Restore`, channels.go save / replace,
  wallet/coincheckpoint.go `OnBlockSaved`, ownedcoins.go).

  Model state of the checkpoint: the set of coins (outpoint, owner) and the owners that have a list head
  in the ownership map (a head is created by the first `append` for an owner and never deleted).
  Manager: `ck` = `GetHeight()` of the checkpoint (height of its last save), the height-named files and
  the default file of the data directory, each holding a snapshot.

    wcont <N> <k> <height>:<tx hex> …   →  dflt <h|none> rcoins <r> coins <n> owned <m>
-/
namespace ElaVerif.WalletCont
open ElaVerif.Bytes ElaVerif.Wire ElaVerif.WireDriver ElaVerif.Tx

abbrev OutPoint := Bytes × Nat

structure Coin where
  op : OutPoint
  /-- program hash of the output (the owner string is its address, an injective function of it) -/
  owner : Bytes
  deriving DecidableEq, Repr

structure WSt where
  coins : List Coin
  owners : List Bytes
  deriving DecidableEq, Repr

def WSt.init : WSt := ⟨[], []⟩

/-- a transaction as the wallet sees it -/
structure WTx where
  txid : Bytes
  ins : List OutPoint
  /-- per output: the program hash if the output is a wallet coin (`appendCoin`'s condition: wallet
      account — none here —, vote output, deposit address), else `none` -/
  outs : List (Option Bytes)
  deriving Repr

structure Block where
  h : Nat
  txs : List WTx
  deriving Repr

/-- `removeCoin`: no-op for an outpoint that is not a coin -/
def removeCoin (s : WSt) (op : OutPoint) : WSt :=
  { s with coins := s.coins.filter (fun c => c.op ≠ op) }

/-- `appendCoin` for a tracked output: `coins[op] = coin`, `ownedCoins.append(owner, op)` (no-op when the
    pair is already there; creates the owner's list head on first use) -/
def addCoin (s : WSt) (c : Coin) : WSt :=
  if s.coins.any (fun d => d.op = c.op) then s
  else ⟨s.coins ++ [c], if s.owners.contains c.owner then s.owners else s.owners ++ [c.owner]⟩

def addOuts (txid : Bytes) : Nat → List (Option Bytes) → WSt → WSt
  | _, [], s => s
  | i, none :: rest, s => addOuts txid (i + 1) rest s
  | i, some owner :: rest, s => addOuts txid (i + 1) rest (addCoin s ⟨(txid, i), owner⟩)

/-- `CoinsCheckPoint.OnBlockSaved` for one transaction: spent coins go, then the new coins come -/
def applyTx (s : WSt) (tx : WTx) : WSt :=
  addOuts tx.txid 0 tx.outs (tx.ins.foldl removeCoin s)

def applyBlock (s : WSt) (b : Block) : WSt := b.txs.foldl applyTx s

/-! ### the manager -/

/-- `SavePeriod() = EffectivePeriod() = 720` -/
def period : Nat := 720

structure Mgr where
  live : WSt
  /-- the checkpoint's `GetHeight()` -/
  ck : Nat
  /-- `<height>.ucp` files -/
  files : List (Nat × WSt)
  /-- `default.ucp` -/
  dflt : Option (Nat × WSt)
  deriving Repr

def Mgr.fresh : Mgr := ⟨.init, 0, [], none⟩

def lookupFile (files : List (Nat × WSt)) (h : Nat) : Option (Nat × WSt) := files.find? (·.1 = h)

/-- promotion at `GetHeight() + EffectivePeriod`: the file of the previous save is renamed to the default
    file, if it is there (otherwise the error is logged and nothing changes) -/
def promote (m : Mgr) (b : Block) : List (Nat × WSt) × Option (Nat × WSt) :=
  if 0 < m.ck ∧ b.h = m.ck + period then
    match lookupFile m.files m.ck with
    | some f => (m.files.filter (·.1 ≠ m.ck), some f)
    | none => (m.files, m.dflt)
  else (m.files, m.dflt)

/-- save: SetHeight, Snapshot, write `<height>.ucp`; the clean-up keeps this file, the previous period's and
    the default file -/
def saveFiles (files : List (Nat × WSt)) (h : Nat) (live : WSt) : List (Nat × WSt) :=
  ((h, live) :: files.filter (fun f => f.1 ≠ h)).filter (fun f => f.1 = h ∨ f.1 + period = h)

/-- `Manager.onBlockSaved` with `NeedSave`, not `init`, `SaveStartHeight = StartHeight = 0`, history off -/
def mstep (m : Mgr) (b : Block) : Mgr :=
  if b.h ≤ m.ck then m
  else if m.ck + period ≤ b.h ∧ 0 < b.h then
    ⟨applyBlock m.live b, b.h, saveFiles (promote m b).1 b.h (applyBlock m.live b), (promote m b).2⟩
  else ⟨applyBlock m.live b, m.ck, (promote m b).1, (promote m b).2⟩

def run (m : Mgr) (bs : List Block) : Mgr := bs.foldl mstep m

/-- a new process over the same data directory: fresh checkpoint, `Restore()` loads the default file -/
def restart (m : Mgr) : Mgr :=
  match m.dflt with
  | some (h, s) => ⟨s, h, m.files, m.dflt⟩
  | none => ⟨.init, 0, m.files, m.dflt⟩

/-- interrupted after `k` blocks, restarted, fed everything again -/
def interrupted (bs : List Block) (k : Nat) : Mgr := run (restart (run .fresh (bs.take k))) bs

/-! ### driver -/

def isCoin (out : Val) : Option Bytes :=
  match out with
  | .struct [_, _, _, .bytes ph, .tag ty _] => if ty = 1 ∨ ph.head? = some 0x1f then some ph else none
  | .struct [_, _, _, .bytes ph] => if ph.head? = some 0x1f then some ph else none
  | _ => none

def inputOf (i : Val) : Option OutPoint :=
  match i with
  | .struct [.bytes h, .num idx, _] => some (h, idx)
  | _ => none

def wtxOf (tx : Tx) : WTx :=
  let ins := match tx.body with
    | [_, _, .list is, _, _] => is.filterMap inputOf
    | _ => []
  let outs := match tx.body with
    | [_, _, _, .list os, _] => os.map isCoin
    | _ => []
  ⟨txHash Sha256.sha256d tx, ins, outs⟩

def parseEntry (s : String) : Option (Nat × WTx) :=
  match s.splitOn ":" with
  | [h, hex] =>
    match h.toNat?, hexBytes? hex with
    | some h, some bs =>
      (match (decodeTxA bs).res with
       | some (tx, _) => some (h, wtxOf tx)
       | none => none)
    | _, _ => none
  | _ => none

/-- blocks `1 … n`, the listed heights carrying the listed transactions (in the order listed) -/
def blocksOf (n : Nat) (es : List (Nat × WTx)) : List Block :=
  (List.range n).map fun i => ⟨i + 1, (es.filter (·.1 = i + 1)).map (·.2)⟩

def stepWCont (args : List String) : String :=
  match args with
  | n :: k :: entries =>
    match n.toNat?, k.toNat?, entries.mapM parseEntry with
    | some n, some k, some es =>
      let m := interrupted (blocksOf n es) k
      let first := run .fresh ((blocksOf n es).take k)
      let d := match first.dflt with | some (h, _) => toString h | none => "none"
      s!"dflt {d} rcoins {(restart first).live.coins.length} coins {m.live.coins.length} owned {m.live.coins.length + m.live.owners.length}"
    | _, _, _ => "bad-op"
  | _ => "bad-op"

end ElaVerif.WalletCont
