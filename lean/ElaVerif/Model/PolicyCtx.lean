import ElaVerif.Model.CCPolicy
import ElaVerif.Model.Frozen
/-
  The two policy checks as `DefaultChecker.ContextCheck` runs them (core Lean only): after the
  references are resolved, first `checkTransactionCrossChainUTXO`, then `checkFrozenAddresses`,
  both with the **block height of the transaction's context** (`t.parameters.BlockHeight`), the two
  configured heights and the configured frozen list.  Used by the `ctx` ops of C31 and C32, which
  drive the real `ContextCheck` on an in-process node.

  Program hashes are letters in the op lines; `prefixOf` is the address prefix a letter stands for.
-/
namespace ElaVerif.PolicyCtx
open ElaVerif

def prefixOf (l : Nat) : Nat :=
  if l = 88 ∨ l = 89 then 0x4B      -- 'X', 'Y' : cross-chain addresses
  else if l = 77 then 0x12          -- 'M'      : multi-sig address
  else 0x21                         -- any other letter: standard address

inductive Res
  | passed
  | cc (v : CCPolicy.Verdict)
  | fz (v : Frozen.Verdict)
  deriving DecidableEq, Repr

/-- the policy part of `ContextCheck` for a transaction of type `ty`, payload version `ver`, whose
    referenced outputs are owned by `ins` and whose outputs pay to `outs`, validated for a block at
    height `h` -/
def contextPolicies (ty ver h f r : Nat) (frozen : List Frozen.Entry) (ins outs : List Nat) : Res :=
  match CCPolicy.ccPolicy ty ver (ins.map prefixOf) h f r with
  | .ok =>
    match Frozen.frozenCheck frozen ins outs h with
    | .ok => .passed
    | v => .fz v
  | v => .cc v

end ElaVerif.PolicyCtx
