import ElaVerif.Model.Digits
import ElaVerif.Model.Script
import ElaVerif.Model.RunPrograms
/-
  Model of the wallet's amount and address codecs (property C37):
    common/fixed64.go   Fixed64.String, StringToFixed64 (with strconv.ParseInt base 10, 64 bit)
    common/uint168.go   Uint168.ToAddress, Uint168FromAddress (base58 of the number data‖checksum)

  Strings are lists of characters (the generators stay in ASCII, where Go's byte
  indexing and character indexing agree).  `math/big` values are natural numbers,
  `big.Int.Bytes` is base-256 `digits`, the base58 library is base-58 `digits` over the
  Bitcoin alphabet.  The checksum function (first 4 bytes of SHA-256d) is a parameter.
  `fixed = false` gives the functions as they were before the `fix:` commits.
  Core Lean only.
-/
namespace ElaVerif.WalletCodec
open ElaVerif.Digits ElaVerif.Script

/-! ### decimal strings -/

def digitChar (d : Nat) : Char := Char.ofNat (48 + d)

def charDigit? (c : Char) : Option Nat :=
  if 48 ≤ c.toNat ∧ c.toNat ≤ 57 then some (c.toNat - 48) else none

/-- `strconv.FormatUint(n, 10)` -/
def natToDec (n : Nat) : List Char := if n = 0 then ['0'] else (digits 10 n).map digitChar

/-- all characters must be decimal digits -/
def decDigits? : List Char → Option (List Nat)
  | [] => some []
  | c :: cs => match charDigit? c, decDigits? cs with
    | some d, some ds => some (d :: ds)
    | _, _ => none

/-- digits part of `strconv.ParseInt(s, 10, 64)` after the sign has been taken off -/
def parseBody (neg : Bool) (body : List Char) : Option Int :=
  if body.isEmpty then none else
  match decDigits? body with
  | none => none
  | some ds =>
    let v := ofDigits 10 ds
    if neg then (if v ≤ 2 ^ 63 then some (-(v : Int)) else none)
    else (if v < 2 ^ 63 then some (v : Int) else none)

/-- `strconv.ParseInt(s, 10, 64)`; `none` = syntax or range error -/
def parseInt64 (s : List Char) : Option Int :=
  match s with
  | [] => none
  | c :: r =>
    if c = '-' then parseBody true r
    else if c = '+' then parseBody false r
    else parseBody false (c :: r)

/-- `Fixed64.String()` of an int64 value -/
def amountToString (f : Int) : List Char :=
  let v := f.natAbs                       -- uint64(-f) also for MinInt64
  let sign := if f < 0 then ['-'] else []
  let ip := v / 10 ^ 8
  let fp := v % 10 ^ 8
  let frac := natToDec fp
  sign ++ natToDec ip ++ (if fp > 0 then '.' :: (List.replicate (8 - frac.length) '0' ++ frac) else [])

/-- `strings.Index(s, ".")` -/
def dotIndex : List Char → Option Nat
  | [] => none
  | c :: cs => if c = '.' then some 0 else (dotIndex cs).map (· + 1)

/-- `StringToFixed64`; `none` = error -/
def stringToAmount (fixed : Bool) (s : List Char) : Option Int :=
  match dotIndex s with
  | none =>
    -- before the fix the precision test ran with di = -1: len(s) + 1 > 9
    if !fixed ∧ s.length + 1 > 9 then none
    else parseInt64 (s ++ List.replicate 8 '0')
  | some di =>
    if s.length - di > 9 then none
    else parseInt64 (s.take di ++ s.drop (di + 1) ++ List.replicate (8 - (s.length - di - 1)) '0')

/-! ### addresses -/

def alphabet : List Char := "123456789ABCDEFGHJKLMNPQRSTUVWXYZabcdefghijkmnopqrstuvwxyz".toList

def b58Char (d : Nat) : Char := alphabet.getD d '1'

def b58Digit? (c : Char) : Option Nat :=
  let i := alphabet.findIdx (· == c)
  if i < 58 then some i else none

def b58Digits? : List Char → Option (List Nat)
  | [] => some []
  | c :: cs => match b58Digit? c, b58Digits? cs with
    | some d, some ds => some (d :: ds)
    | _, _ => none

/-- base58.BitcoinEncoding.Encode(N.String()) -/
def b58Encode (n : Nat) : List Char := if n = 0 then ['1'] else (digits 58 n).map b58Char

/-- number denoted by big-endian bytes (`big.Int.SetBytes`) -/
def bytesToNat (b : Bytes) : Nat := ofDigits 256 (b.map (·.toNat))

/-- `big.Int.Bytes()`: minimal big-endian bytes, empty for 0 -/
def natToBytes (n : Nat) : Bytes := (digits 256 n).map UInt8.ofNat

/-- `Uint168.ToAddress` for 21 bytes `u`; `chk u` = first 4 bytes of Sha256D(u) -/
def toAddress (chk : Bytes → Bytes) (u : Bytes) : List Char :=
  b58Encode (bytesToNat (u ++ chk u))

inductive AddrErr | len | char | short | verify
  deriving DecidableEq, Repr

/-- `Uint168FromAddress`. -/
def fromAddress (fixed : Bool) (chk : Bytes → Bytes) (s : List Char) : R (Except AddrErr Bytes) :=
  if s.length ≠ 34 then .val (.error .len) else
  match b58Digits? s with
  | none => .val (.error .char)
  | some ds =>
    let x := ofDigits 58 ds
    let xb := natToBytes x
    if fixed ∧ xb.length < 21 then .val (.error .short) else
    if xb.length < 21 then .panic else          -- `x.Bytes()[0:21]`
    let u := xb.take 21
    if toAddress chk u ≠ s then .val (.error .verify) else .val (.ok u)

end ElaVerif.WalletCodec

namespace ElaVerif.WalletCodec
open ElaVerif.Digits ElaVerif.Script

/-! ### program construction (core/contract: CreateStandardRedeemScript, CreateMultiSigRedeemScript, CreateSchnorrRedeemScript) -/

/-- `ProgramBuilder.PushNumber` for a non-negative number: PUSH0, PUSH1..PUSH16, else a data push of its bytes -/
def pushNumber (k : Nat) : Bytes :=
  if k = 0 then [0]
  else if k ≤ 16 then [UInt8.ofNat (0x50 + k)]
  else let b := natToBytes k; UInt8.ofNat b.length :: b

/-- `33 ‖ key ‖ CHECKSIG` -/
def standardCode (pub : Bytes) : Bytes := 33 :: pub ++ [0xAC]

/-- `PUSH1 ‖ 33 ‖ key` (TapRootVersion = 1) -/
def schnorrCode (pub : Bytes) : Bytes := 0x51 :: 33 :: pub

def keyPushes : List Bytes → Bytes
  | [] => []
  | k :: ks => (33 :: k) ++ keyPushes ks

/-- `CreateMultiSigRedeemScript(m, pubkeys)`: `none` = error (no keys), `some []` = the
    `nil, nil` answer for an invalid m/n, else the script. -/
def multiSigCode (m : Nat) (pubs : List Bytes) : Option Bytes :=
  if pubs.isEmpty then none
  else if ¬ (1 ≤ m ∧ m ≤ pubs.length ∧ pubs.length ≤ 24) then some []
  else some (pushNumber m ++ keyPushes pubs ++ pushNumber pubs.length ++ [0xAE])

/-- number of keys `ParseMultisigScript` (used by the wallet's `GetSigners` and by the node) finds in a
    script, `none` if it rejects the script -/
def parsedKeyCount (c : Bytes) : Option Nat :=
  match ElaVerif.RunPrograms.parseScript ElaVerif.RunPrograms.MULTISIG c with
  | .val (.ok ks) => some ks.length
  | _ => none

/-- the wallet's standard program: code and `len(sig) ‖ sig` -/
def standardParam (sig : Bytes) : Bytes := UInt8.ofNat sig.length :: sig

end ElaVerif.WalletCodec

namespace ElaVerif.WalletCodec
open ElaVerif.Digits ElaVerif.Script

/-! ### keystore: the private-key slot of account.Client.SaveAccount / LoadAccounts -/

/-- `SaveAccount`: the 32-byte slot `keyPair[64:96]`.  The code right-aligns `ac.PrivKey()` (which is
    `D.Bytes()`, possibly shorter than 32 bytes) and leaves leading zeros; `leftAligned = true` is the
    variant `copy(slot, priv)` kept for the negation witness.  Precondition: `priv.length ≤ 32`. -/
def storeKey (leftAligned : Bool) (priv : Bytes) : Bytes :=
  if leftAligned then priv ++ List.replicate (32 - priv.length) 0
  else List.replicate (32 - priv.length) 0 ++ priv

/-- `LoadAccounts`: `privateKey := keyPair[64:96]`, used as the scalar `new(big.Int).SetBytes(privateKey)` -/
def loadScalar (slot : Bytes) : Nat := bytesToNat slot

end ElaVerif.WalletCodec

namespace ElaVerif.WalletCodec

/-! ### Client.MultiSign / SignMultiSignTransactionByM: how many signatures one wallet appends -/

/-- the loop over the script's keys: `held` says for each script position whether the wallet has the key;
    `j` = signatures made so far (`signerIndex = j - 1`); the loop stops after the signature that makes
    `signerIndex == m`, i.e. after m + 1 signatures. -/
def signByM (m : Nat) : List Bool → Nat → Nat
  | [], j => j
  | h :: rest, j =>
    if !h then signByM m rest j
    else if j = m then j + 1 else signByM m rest (j + 1)

/-- the variant that uses the key's script POSITION as signerIndex (negation witness): stops at position m -/
def signByMPos (m : Nat) : List Bool → Nat → Nat → Nat
  | [], _, j => j
  | h :: rest, pos, j =>
    if !h then signByMPos m rest (pos + 1) j
    else if pos = m then j + 1 else signByMPos m rest (pos + 1) (j + 1)

end ElaVerif.WalletCodec
