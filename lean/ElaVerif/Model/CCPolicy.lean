/-
  C31 — cross-chain UTXO emergency policy (core Lean only).

  Mirrors
    core/transaction/transactionchecker.go : checkTransactionCrossChainUTXO, hasCrossChainUTXO
    common/config/settings/settings.go     : enforceCrossChainUTXORestrictionHeights, SetupConfig (the part
                                             that decides the two heights)
    common/config/config.go                : the three height constants, TestNet()/RegNet() resets

  Heights are `uint32` in Go; the code only compares them (no arithmetic), so `Nat` is exact.
  Transaction type / payload version are bytes, address prefixes are the first byte of the
  program hash of each referenced output.  `references` is a Go map: the function's result
  does not depend on iteration order (every loop is an `any`/`all`), which is why a `List`
  in any order is an exact model.
-/
namespace ElaVerif.CCPolicy

/-- `contract.PrefixCrossChain` -/
def prefixCrossChain : Nat := 0x4B
/-- `common2.WithdrawFromSideChain` -/
def tyWithdraw : Nat := 0x07
/-- `common2.ReturnSideChainDepositCoin` -/
def tyReturn : Nat := 0x51
/-- payload.WithdrawFromSideChainVersion, …V1, …V2 (the `case` list of the version switch) -/
def withdrawVersions : List Nat := [0, 1, 2]
/-- payload.ReturnSideChainDepositCoinVersion -/
def legacyReturnVersion : Nat := 0

/-- config.MainNetCrossChainUTXOFreezeHeight -/
def mainnetFreeze : Nat := 2256110
/-- config.MainNetCrossChainUTXORestrictionHeight -/
def mainnetRestrict : Nat := 2256724
/-- config.DisabledCrossChainUTXORestrictionHeight = math.MaxUint32 -/
def disabledHeight : Nat := 4294967295

inductive Verdict
  | ok
  | frozen          -- "CrossChain UTXO spending is temporarily frozen"
  | badWithdrawVer  -- "unsupported WithdrawFromSideChain payload version …"
  | notBridgeTx     -- "only WithdrawFromSideChain and ReturnSideChainDepositCoin can spend …"
  | notLegacyReturn -- "only legacy ReturnSideChainDepositCoin can spend …"
  | mixedReturn     -- "ReturnSideChainDepositCoin can only spend CrossChain UTXOs"
  deriving DecidableEq, Repr

/-- the accepting clause of `switch txn.PayloadVersion()` -/
def okWithdrawVer (ver : Nat) : Bool := withdrawVersions.contains ver

/-- `hasCrossChainUTXO` -/
def hasCC (prefixes : List Nat) : Bool := prefixes.any (· == prefixCrossChain)

/-- the final loop of the check: every referenced output is a cross-chain one -/
def allCC (prefixes : List Nat) : Bool := prefixes.all (· == prefixCrossChain)

/-- `checkTransactionCrossChainUTXO(txn, references, blockHeight, freezeHeight, restrictionHeight)`;
    same branches in the same order. -/
def ccPolicy (ty ver : Nat) (prefixes : List Nat) (h f r : Nat) : Verdict :=
  if h < f || !hasCC prefixes then .ok
  else if h < r then .frozen
  else if ty == tyWithdraw then
    (if okWithdrawVer ver then .ok else .badWithdrawVer)
  else if ty != tyReturn then .notBridgeTx
  else if ver != legacyReturnVersion then .notLegacyReturn
  else if allCC prefixes then .ok else .mixedReturn

/-! ### configuration handling -/

/-- `strings.ToLower` on one rune, restricted to what can matter for the comparison with an
    all-ASCII-lowercase literal: ASCII upper case, and the two non-ASCII runes whose
    `unicode.ToLower` is an ASCII letter (U+0130 → 'i', U+212A → 'k').  Every other rune is
    mapped to itself, which is exact whenever its real lower-case form is not an ASCII letter
    (compared by the harness over all runes). -/
def goLowerRune (c : Nat) : Nat :=
  if 65 ≤ c ∧ c ≤ 90 then c + 32
  else if c = 0x130 then 105
  else if c = 0x212A then 107
  else c

def goLower (s : List Nat) : List Nat := s.map goLowerRune

def str (s : String) : List Nat := s.toList.map Char.toNat

/-- the `case "", "mainnet", "main"` list of both enforce functions -/
def mainnetNames : List (List Nat) := [str "", str "mainnet", str "main"]
/-- `case "testnet", "test"` of SetupConfig -/
def testnetNames : List (List Nat) := [str "testnet", str "test"]
/-- `case "regnet", "regtest", "reg"` of SetupConfig -/
def regnetNames : List (List Nat) := [str "regnet", str "regtest", str "reg"]

def isMainnetName (name : List Nat) : Bool := mainnetNames.contains (goLower name)

structure Heights where
  freeze : Nat
  restrict : Nat
  deriving DecidableEq, Repr

/-- `enforceCrossChainUTXORestrictionHeights` (the incoming values are ignored in both arms). -/
def enforceHeights (name : List Nat) (_cfg : Heights) : Heights :=
  if isMainnetName name then ⟨mainnetFreeze, mainnetRestrict⟩
  else ⟨disabledHeight, disabledHeight⟩

/-- What a configuration file says about the two heights (absent = keep). -/
structure FileCfg where
  freeze : Option Nat
  restrict : Option Nat

def applyFile (fc : FileCfg) (c : Heights) : Heights :=
  ⟨fc.freeze.getD c.freeze, fc.restrict.getD c.restrict⟩

/-- The height-relevant part of `Settings.SetupConfig`: defaults (mainnet constants), config file,
    testnet/regnet reset + config file again, then the enforcement step. -/
def setupHeights (name : List Nat) (fc : FileCfg) : Heights :=
  let c0 : Heights := ⟨mainnetFreeze, mainnetRestrict⟩          -- config.DefaultParams
  let c1 := applyFile fc c0                                       -- loadConfigFile
  let low := goLower name
  let c2 :=
    if testnetNames.contains low || regnetNames.contains low then
      applyFile fc ⟨disabledHeight, disabledHeight⟩               -- conf.TestNet()/RegNet(); loadConfigFile
    else c1
  enforceHeights name c2

/-! ### helpers for call-order facts (used by the Gen-tie lemmas of C31/C32) -/

/-- `a` occurs in `l`, and from its first occurrence on no element of `xs` occurs any more
    (i.e. every call to one of `xs` precedes the first call to `a`). -/
def allBefore (xs : List String) (a : String) (l : List String) : Bool :=
  let post := l.dropWhile (· != a)
  !post.isEmpty && post.all (fun x => !xs.contains x)

/-- the first `a` comes before the first `b` -/
def firstBefore (a b : String) (l : List String) : Bool :=
  (l.takeWhile (· != b)).contains a && l.contains b

end ElaVerif.CCPolicy
