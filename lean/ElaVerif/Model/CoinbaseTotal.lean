import ElaVerif.Model.Script
/-
  Crash models (C03) of
    blockchain/blockvalidator.go  checkCoinbaseTransactionContext, CheckCoinbaseArbitratorsReward
    core/transaction/coinbasetransaction.go  CheckTransactionOutput (only its output-count guard)
    core/transaction/withdrawfromsidechaintransaction.go  checkSchnorrWithdrawFromSidechain (signer loop)

  `coinbase.Outputs()[i]` and `arbiters[index]` are explicit bounds-checked reads (`R.panic`).
  Reward amounts that Go computes with float64 (C11's subject) are oracle inputs.
  Fixed64 additions wrap like int64.  Program hashes are small tags
  (0 = DestroyELA, 1 = CRAssets, 2 = DPoSV2RewardAccumulate, ≥ 3 = other addresses).
  Core Lean only.
-/
namespace ElaVerif.CoinbaseTotal
open ElaVerif.Script

def wrap64 (x : Int) : Int := (x + 2 ^ 63) % 2 ^ 64 - 2 ^ 63

structure Out where
  value : Int
  addr : Nat
  deriving DecidableEq, Repr

inductive Regime | v2 | pub | old
  deriving DecidableEq, Repr

structure Env where
  regime : Regime          -- v2: activeHeight != MaxUint32 && h > activeHeight+1; pub: h >= PublicDPOSHeight
  pow : Bool               -- state.GetConsensusAlgorithm() == POW
  totalFee : Int
  dposReward : Int
  blockReward : Int        -- chainParams.GetBlockReward(h)
  finalRoundChange : Int
  rewardCR : Int           -- Fixed64(math.Ceil(float64(totalReward) * 0.3))      (oracle)
  rewardArb : Int          -- Fixed64(math.Ceil(float64(totalReward) * 0.35))     (oracle)
  rewards : List (Nat × Int)   -- GetArbitersRoundReward(), keys distinct
  deriving Repr

inductive Err
  | crValue | minerValue | count3 | dposValue | dposAddr | crAddr
  | amount | countMatch | unknownAddr | badAmount | oldAmount
  deriving DecidableEq, Repr

/-- `coinbase.Outputs()[i]` -/
def outAt (outs : List Out) (i : Nat) : R Out :=
  match outs[i]? with
  | some o => .val o
  | none => .panic

def lookup (k : Nat) : List (Nat × Int) → Option Int
  | [] => none
  | (a, v) :: rest => if a = k then some v else lookup k rest

/-- loop `for i := 2; i < len(outputs); i++` of CheckCoinbaseArbitratorsReward, over `outs.drop 2`. -/
def arbLoop (rewards : List (Nat × Int)) : List Out → Option Err
  | [] => none
  | o :: rest =>
    match lookup o.addr rewards with
    | none => some .unknownAddr
    | some amt => if amt ≠ o.value then some .badAmount else arbLoop rewards rest

/-- `CheckCoinbaseArbitratorsReward`. -/
def checkArbReward (rewards : List (Nat × Int)) (outs : List Out) : Option Err :=
  if (rewards.length : Int) ≠ (outs.length : Int) - 2 then some .countMatch
  else arbLoop rewards (outs.drop 2)

/-- `checkCoinbaseTransactionContext`; `.val none` = nil error. -/
def checkCtx (e : Env) (outs : List Out) : R (Option Err) :=
  let totalReward := wrap64 (e.totalFee + e.blockReward)
  match e.regime with
  | .v2 => do
    let rewardMiner := wrap64 (wrap64 (totalReward - e.rewardCR) - e.rewardArb)
    let o0 ← outAt outs 0
    if o0.value ≠ e.rewardCR then .val (some .crValue) else do
    let o1 ← outAt outs 1
    if o1.value ≠ rewardMiner then .val (some .minerValue) else
    if outs.length ≠ 3 then .val (some .count3) else do
    let o2 ← outAt outs 2
    if o2.value ≠ e.dposReward then .val (some .dposValue) else
    if e.pow then do
      let o2 ← outAt outs 2
      if o2.addr ≠ 0 then .val (some .dposAddr) else do
      let o0 ← outAt outs 0
      if o0.addr ≠ 0 then .val (some .crAddr) else .val none
    else do
      let o0 ← outAt outs 0
      if o0.addr ≠ 1 then .val (some .crAddr) else do
      let o2 ← outAt outs 2
      if o2.addr ≠ 2 then .val (some .dposAddr) else .val none
  | .pub => do
    let o0 ← outAt outs 0
    let o1 ← outAt outs 1
    if wrap64 (wrap64 (totalReward - e.rewardArb) + e.finalRoundChange) ≠ wrap64 (o0.value + o1.value)
    then .val (some .amount)
    else .val (checkArbReward e.rewards outs)
  | .old =>
    let sum := outs.foldl (fun acc o => wrap64 (acc + o.value)) 0
    if wrap64 (sum - e.totalFee) ≠ e.blockReward then .val (some .oldAmount) else .val none

/-- the output-count guard of the coinbase sanity check (`CheckTransactionOutput`),
    which block validation runs on every transaction before any context check:
    `true` = sanity rejects. -/
def sanityRejects (outs : List Out) : Bool := outs.length > 65535 || outs.length < 2

/-- sanity followed by the context check, as `checkTxsContext` sees the coinbase. -/
def sanityThenCtx (e : Env) (outs : List Out) : R (Option (Option Err)) :=
  if sanityRejects outs then .val none else do
    let r ← checkCtx e outs
    .val (some r)

/-! ### signer loop of checkSchnorrWithdrawFromSidechain -/

inductive SErr | badIndex | dup
  deriving DecidableEq, Repr

/-- `for _, index := range pld.Signers { … arbiters[index] … }`.
    `fixed` = the bound test is made whether or not `validateSignerIndexes` is set. -/
def signerLoop (fixed validate : Bool) (nArb : Nat) : List Nat → List Nat → R (Option SErr)
  | [], _ => .val none
  | i :: rest, seen =>
    if (validate ∨ fixed) ∧ i ≥ nArb then .val (some .badIndex) else
    if validate ∧ seen.contains i then .val (some .dup) else
    if i ≥ nArb then .panic else          -- `arbiters[index]`
    signerLoop fixed validate nArb rest (if validate then i :: seen else seen)

end ElaVerif.CoinbaseTotal

namespace ElaVerif.CoinbaseTotal
open ElaVerif.Script

/-! ### head of BlockChain.CheckBlockSanity (up to the coinbase-position tests) -/

inductive BErr
  | auxpow | pow | time | noTx | tooMany | headerSize | blockSize | firstNotCoinbase | secondCoinbase
  deriving DecidableEq, Repr

structure BlockIn where
  auxOk : Bool        -- header.AuxPow.Check (its own crash-freedom: AuxPowTotal)
  powOk : Bool        -- CheckProofOfWork
  tsOk : Bool         -- both timestamp tests
  maxTx : Nat         -- pact.MaxTxPerBlock
  headerOk : Bool     -- header size test
  sizeOk : Bool       -- block size test
  txs : List Bool     -- per transaction: IsCoinBaseTx()
  deriving Repr

/-- `indexFirst = false`: the function in the tree (the `numTx == 0` rejection precedes `transactions[0]`);
    `indexFirst = true`: the coinbase-position tests moved in front of it (negation witness).
    `.val none` = the function goes on to the per-transaction checks. -/
def blockSanityHead (indexFirst : Bool) (b : BlockIn) : R (Option BErr) :=
  let coinbaseTests : R (Option BErr) :=
    match b.txs with
    | [] => .panic                                   -- `transactions[0]`
    | t0 :: rest => if !t0 then .val (some .firstNotCoinbase)
                    else if rest.any id then .val (some .secondCoinbase) else .val none
  if !b.auxOk then .val (some .auxpow) else
  if !b.powOk then .val (some .pow) else
  if !b.tsOk then .val (some .time) else
  if indexFirst then do
    let r ← coinbaseTests
    match r with
    | some e => .val (some e)
    | none =>
      if b.txs.length = 0 then .val (some .noTx) else
      if b.txs.length > b.maxTx then .val (some .tooMany) else
      if !b.headerOk then .val (some .headerSize) else
      if !b.sizeOk then .val (some .blockSize) else .val none
  else
    if b.txs.length = 0 then .val (some .noTx) else
    if b.txs.length > b.maxTx then .val (some .tooMany) else
    if !b.headerOk then .val (some .headerSize) else
    if !b.sizeOk then .val (some .blockSize) else coinbaseTests

/-! ### signer loop of ReturnDepositCoinTransaction.SpecialContextCheck -/

inductive RdErr | sameAddr | signer | overspend
  deriving DecidableEq, Repr

/-- `for _, program := range t.Programs()`: a multi-sig code is looked up as it is, any other code by
    `Code[1:len-1]`; `registered` tells whether `state.GetProducer` finds a producer for that key.
    `nilCheckOnlyStandard = true` is the variant in which the `p == nil` test is skipped for multi-sig
    codes (negation witness): `p.AvailableAmount()` on a nil producer panics. -/
def rdLoop (nilCheckOnlyStandard : Bool) : List (Bytes × Bool) → R (Option RdErr)
  | [] => .val none
  | (code, registered) :: rest => do
    let ms ← isMultiSig true code
    if ms then
      if !registered then (if nilCheckOnlyStandard then .panic else .val (some .signer))
      else rdLoop nilCheckOnlyStandard rest
    else
      if code.length < 2 then .panic          -- `Code[1 : len(Code)-1]`
      else if !registered then .val (some .signer)
      else rdLoop nilCheckOnlyStandard rest

def returnDepositCheck (variant : Bool) (addrCount : Nat) (progs : List (Bytes × Bool)) (overspend : Bool) :
    R (Option RdErr) :=
  if addrCount ≠ 1 then .val (some .sameAddr) else do
    let r ← rdLoop variant progs
    match r with
    | some e => .val (some e)
    | none => if overspend then .val (some .overspend) else .val none

end ElaVerif.CoinbaseTotal

namespace ElaVerif.CoinbaseTotal
open ElaVerif.Script

/-! ### public-key extraction of RegisterCRTransaction.SpecialContextCheck and
    the m/n read of checkCRCArbitratorsSignatures (both copies) -/

inductive CrErr | codeNil | invalidCode
  deriving DecidableEq, Repr

/-- `guarded = false`: the code before the fix (`code[1:len(code)-1]` taken whenever the last byte is
    CHECKSIG).  `.val none` = the function goes on with a public key. -/
def registerCRKey (guarded : Bool) (code : Bytes) : R (Option CrErr) :=
  if code.length = 0 then .val (some .codeNil) else do      -- CreateCRIDContractByCode
    let sch ← isSchnorr code
    if sch then
      if code.length < 2 then .panic else .val none         -- `code[2:]`, length is 35 here
    else do
      let last ← idx code (code.length - 1)
      if (!guarded ∨ 2 ≤ code.length) ∧ last = CHECKSIG then
        if code.length < 2 then .panic else .val none        -- `code[1 : len(code)-1]`
      else if last = CHECKMULTISIG then .val none
      else .val (some .invalidCode)

/-- `n := code[len(code)-2] …; m := code[0] …` of checkCRCArbitratorsSignatures; `.val true` = goes on,
    `.val false` = the length error of the fix. -/
def crcArbitersMN (guarded : Bool) (code : Bytes) : R Bool :=
  if guarded ∧ code.length < 2 then .val false else
  if code.length < 2 then .panic else do
    let _ ← idx code (code.length - 2)
    let _ ← idx code 0
    .val true

end ElaVerif.CoinbaseTotal

namespace ElaVerif.CoinbaseTotal
open ElaVerif.Script

/-! ### round 5: cross-chain output index, RevertToDPOS first program -/

/-- Go `int(x)` of a `uint64` -/
def u64ToInt (x : Nat) : Int := if x % 2 ^ 64 < 2 ^ 63 then ((x % 2 ^ 64 : Nat) : Int) else ((x % 2 ^ 64 : Nat) : Int) - 2 ^ 64

/-- `checkTransferCrossChainAssetTransactionV0`, one payload entry: the index test and the two later reads
    `t.Outputs()[payloadObj.OutputIndexes[i]]`.  `fixed = false`: `int(outputIndex) >= len(outputs)`;
    `fixed = true`: `outputIndex >= uint64(len(outputs))`.  `.val true` = "Invalid transaction payload cross chain index". -/
def crossChainIndex (fixed : Bool) (nOut idx : Nat) : R Bool :=
  let rejected := if fixed then nOut ≤ idx else (nOut : Int) ≤ u64ToInt idx
  if rejected then .val true
  else if idx < nOut then .val false else .panic

/-- `blockchain.CheckRevertToDPOSTransaction`: `txn.Programs()[0]` then the m/n read of checkArbitratorsSignatures
    (same shape as `crcArbitersMN`).  `.val false` = the length error of the fix. -/
def revertToDPOSCheck (guarded : Bool) (nPrograms : Nat) (code : Bytes) : R Bool :=
  if guarded ∧ nPrograms = 0 then .val false else
  if nPrograms = 0 then .panic else crcArbitersMN guarded code

end ElaVerif.CoinbaseTotal

namespace ElaVerif.CoinbaseTotal
open ElaVerif.Script

/-! ### round 7: isNextArbitratorsSame / isNextArbitratorsSameV1 (NextTurnDPOSInfo context check)

Keys are small numbers (0 = the empty key `[]byte{}`).  `guarded = true`: the length tests of the fix. -/

structure NextArb where
  id : Nat
  isCRC : Bool        -- Arbitrators.IsNextCRCArbitrator(key)
  elected : Bool      -- Arbitrators.IsMemberElectedNextCRCArbitrator(key)
  deriving DecidableEq, Repr

def keyAt (l : List Nat) (i : Nat) : R Nat :=
  match l[i]? with
  | some x => .val x
  | none => .panic

def nextSameLoop (guarded : Bool) (cr dpos : List Nat) : List NextArb → Nat → Nat → R Bool
  | [], _, _ => .val true
  | v :: rest, ci, di =>
    if v.isCRC then
      if guarded ∧ cr.length ≤ ci then .val false else do
        let k ← keyAt cr ci
        if k = v.id ∨ (k = 0 ∧ !v.elected) then nextSameLoop guarded cr dpos rest (ci + 1) di else .val false
    else
      if guarded ∧ dpos.length ≤ di then .val false else do
        let k ← keyAt dpos di
        if k = v.id then nextSameLoop guarded cr dpos rest ci (di + 1) else .val false

/-- `isNextArbitratorsSame` -/
def nextSame (guarded : Bool) (cr dpos : List Nat) (next : List NextArb) : R Bool :=
  if cr.length + dpos.length ≠ next.length then .val false else nextSameLoop guarded cr dpos next 0 0

def v1Loop (keys : List Nat) : List (Nat × Bool) → Nat → R Bool
  | [], _ => .val true
  | (id, elected) :: rest, i => do
    let k ← keyAt keys i
    if k = id ∨ (k = 0 ∧ !elected) then v1Loop keys rest (i + 1) else .val false

/-- `isNextArbitratorsSameV1`: `next` / `nextCRC` as (key, elected) pairs -/
def nextSameV1 (guarded : Bool) (cr dpos : List Nat) (next nextCRC : List (Nat × Bool)) : R Bool :=
  if dpos.length ≠ next.length then .val false else do
    let a ← v1Loop dpos next 0
    if !a then .val false else
    if guarded ∧ cr.length < nextCRC.length then .val false else v1Loop cr nextCRC 0

end ElaVerif.CoinbaseTotal
