/-
  SHA-256 and double SHA-256 on byte lists (core Lean only, executable).
  Present only so that driver outputs are byte-comparable with Go's
  crypto/sha256; it is validated by comparison (harness streams hash real
  inputs on both sides), not proved against a specification, and **no theorem
  depends on its internals** — theorems take the hash as a parameter.
-/
namespace ElaVerif.Sha256

def K : Array UInt32 := #[
  0x428a2f98, 0x71374491, 0xb5c0fbcf, 0xe9b5dba5, 0x3956c25b, 0x59f111f1, 0x923f82a4, 0xab1c5ed5,
  0xd807aa98, 0x12835b01, 0x243185be, 0x550c7dc3, 0x72be5d74, 0x80deb1fe, 0x9bdc06a7, 0xc19bf174,
  0xe49b69c1, 0xefbe4786, 0x0fc19dc6, 0x240ca1cc, 0x2de92c6f, 0x4a7484aa, 0x5cb0a9dc, 0x76f988da,
  0x983e5152, 0xa831c66d, 0xb00327c8, 0xbf597fc7, 0xc6e00bf3, 0xd5a79147, 0x06ca6351, 0x14292967,
  0x27b70a85, 0x2e1b2138, 0x4d2c6dfc, 0x53380d13, 0x650a7354, 0x766a0abb, 0x81c2c92e, 0x92722c85,
  0xa2bfe8a1, 0xa81a664b, 0xc24b8b70, 0xc76c51a3, 0xd192e819, 0xd6990624, 0xf40e3585, 0x106aa070,
  0x19a4c116, 0x1e376c08, 0x2748774c, 0x34b0bcb5, 0x391c0cb3, 0x4ed8aa4a, 0x5b9cca4f, 0x682e6ff3,
  0x748f82ee, 0x78a5636f, 0x84c87814, 0x8cc70208, 0x90befffa, 0xa4506ceb, 0xbef9a3f7, 0xc67178f2]

def H0 : Array UInt32 := #[
  0x6a09e667, 0xbb67ae85, 0x3c6ef372, 0xa54ff53a, 0x510e527f, 0x9b05688c, 0x1f83d9ab, 0x5be0cd19]

@[inline] def rotr (x : UInt32) (n : UInt32) : UInt32 := (x >>> n) ||| (x <<< (32 - n))

/-- padding: 0x80, zeros, 64-bit big-endian bit length. -/
def pad (msg : List UInt8) : Array UInt8 :=
  let len := msg.length
  let a : Array UInt8 := msg.toArray.push 0x80
  let zeros := (64 - (len + 1 + 8) % 64) % 64
  let a := (List.range zeros).foldl (fun a _ => a.push 0) a
  let bits := len * 8
  (List.range 8).foldl (fun a i => a.push (UInt8.ofNat ((bits >>> (8 * (7 - i))) % 256))) a

def schedule (blk : Array UInt8) (off : Nat) : Array UInt32 :=
  let w : Array UInt32 := (List.range 16).foldl (fun w i =>
    let b (j : Nat) : UInt32 := (blk.getD (off + 4 * i + j) 0).toUInt32
    w.push ((b 0 <<< 24) ||| (b 1 <<< 16) ||| (b 2 <<< 8) ||| b 3)) (Array.mkEmpty 64)
  (List.range 48).foldl (fun w k =>
    let i := k + 16
    let w15 := w.getD (i - 15) 0
    let w2 := w.getD (i - 2) 0
    let s0 := rotr w15 7 ^^^ rotr w15 18 ^^^ (w15 >>> 3)
    let s1 := rotr w2 17 ^^^ rotr w2 19 ^^^ (w2 >>> 10)
    w.push (w.getD (i - 16) 0 + s0 + w.getD (i - 7) 0 + s1)) w

structure St where
  a : UInt32
  b : UInt32
  c : UInt32
  d : UInt32
  e : UInt32
  f : UInt32
  g : UInt32
  h : UInt32

def compress (hs : Array UInt32) (blk : Array UInt8) (off : Nat) : Array UInt32 :=
  let w := schedule blk off
  let s0 : St := ⟨hs.getD 0 0, hs.getD 1 0, hs.getD 2 0, hs.getD 3 0, hs.getD 4 0, hs.getD 5 0, hs.getD 6 0, hs.getD 7 0⟩
  let s := (List.range 64).foldl (fun (s : St) i =>
    let S1 := rotr s.e 6 ^^^ rotr s.e 11 ^^^ rotr s.e 25
    let ch := (s.e &&& s.f) ^^^ ((~~~ s.e) &&& s.g)
    let t1 := s.h + S1 + ch + K.getD i 0 + w.getD i 0
    let S0 := rotr s.a 2 ^^^ rotr s.a 13 ^^^ rotr s.a 22
    let maj := (s.a &&& s.b) ^^^ (s.a &&& s.c) ^^^ (s.b &&& s.c)
    let t2 := S0 + maj
    ⟨t1 + t2, s.a, s.b, s.c, s.d + t1, s.e, s.f, s.g⟩) s0
  #[hs.getD 0 0 + s.a, hs.getD 1 0 + s.b, hs.getD 2 0 + s.c, hs.getD 3 0 + s.d,
    hs.getD 4 0 + s.e, hs.getD 5 0 + s.f, hs.getD 6 0 + s.g, hs.getD 7 0 + s.h]

def sha256 (msg : List UInt8) : List UInt8 :=
  let p := pad msg
  let hs := (List.range (p.size / 64)).foldl (fun hs i => compress hs p (64 * i)) H0
  hs.toList.flatMap fun (x : UInt32) =>
    [(x >>> 24).toUInt8, (x >>> 16).toUInt8, (x >>> 8).toUInt8, x.toUInt8]

def sha256d (msg : List UInt8) : List UInt8 := sha256 (sha256 msg)

end ElaVerif.Sha256
