import ElaVerif.Model.Script
/-
  Model of blockchain/validation.go (RunPrograms, CheckStandardSignature,
  checkSchnorrSignatures, checkCrossChainSignatures) and crypto/crypto.go,
  crypto/common.go (CheckMultiSigSignatures, VerifyMultisigSignatures,
  ParseMultisigScript / ParseCrossChainScript / parsePublicKeys).

  * Every index / slice expression is bounds-checked explicitly; out of range is
    `R.panic` (used by C03: totality).
  * Cryptography is a parameter (`Oracles`): `decodeOk key` = DecodePoint succeeds,
    `verify key d sig` = crypto.Verify succeeds on data `d`, `schnorr pk d sig` =
    SchnorrVerify succeeds on Sha256D(d), `codeHash` = ToCodeHash.  Theorems of C05
    are parametric in them; the driver instantiates them with tables computed by Go.
  * `Fix` switches the three length guards of the `fix:` commits.

  Core Lean only.
-/
namespace ElaVerif.RunPrograms
open ElaVerif.Script

structure Program where
  code : Bytes
  param : Bytes
  deriving DecidableEq, Repr

/-- a program hash (Uint168): prefix byte and 20-byte code hash -/
structure PH where
  pfx : Nat
  hash : Bytes
  deriving DecidableEq, Repr

structure Oracles (D : Type) where
  decodeOk : Bytes → Bool
  verify : Bytes → D → Bytes → Bool
  schnorr : Bytes → D → Bytes → Bool
  codeHash : Bytes → Bytes

structure Fix where
  schnorrLen : Bool   -- checkSchnorrSignatures: len(Code) < 2 || len(Parameter) < 64 → error
  ccLen : Bool        -- checkCrossChainSignatures: len(code) < 2 → error
  msLen : Bool        -- CheckMultiSigSignatures: len(code) < 2 → error
  multiSig : Bool     -- IsMultiSig guards (see Script.isMultiSig)
  deriving DecidableEq, Repr

def Fix.all : Fix := ⟨true, true, true, true⟩
def Fix.none : Fix := ⟨false, false, false, false⟩

inductive Err where
  | count          -- number of hashes ≠ number of programs
  | hashMismatch   -- code hash ≠ owner hash
  | schnorr        -- "check schnorr signature failed"
  | sigLen         -- standard: invalid signature length
  | decode         -- DecodePoint failed
  | verify         -- crypto.Verify failed (standard)
  | msCode         -- "invalid multi sign script code"
  | msParse        -- Parse*Script: too short / wrong last opcode
  | msParseLen     -- parsePublicKeys: length not a multiple of 34
  | msKeyCount     -- len(publicKeys) != n
  | msSigLen       -- len(signatures) % 65 != 0
  | msNotEnough    -- fewer than m signatures
  | msTooMany      -- more than n signatures
  | msDup          -- duplicated signatures
  | msMatched      -- matched signatures not enough
  | unknownType    -- unknown prefix
  | scriptAttr     -- GetTxProgramHashes: a Script attribute is not 21 bytes
  deriving DecidableEq, Repr

abbrev Res := R (Except Err Unit)

def ok : Res := .val (.ok ())
def fail (e : Err) : Res := .val (.error e)

/-- `b[lo:hi]` with capacity = length. -/
def slice (b : Bytes) (lo hi : Nat) : R Bytes :=
  if lo ≤ hi ∧ hi ≤ b.length then .val ((b.drop lo).take (hi - lo)) else .panic

/-- `b[lo:]` -/
def sliceFrom (b : Bytes) (lo : Nat) : R Bytes :=
  if lo ≤ b.length then .val (b.drop lo) else .panic

/-- `copy(dst[:n], src)` into a zeroed fixed array of `n` bytes -/
def copyInto (n : Nat) (src : Bytes) : Bytes :=
  src.take n ++ List.replicate (n - src.length) 0

def PUSH1i : Int := 0x51
def STANDARD : Nat := 0xAC
def MULTISIG : Nat := 0xAE
def CROSSCHAIN : Nat := 0xAF
def PrefixStandard : Nat := 0x21
def PrefixMultiSig : Nat := 0x12
def PrefixCrossChain : Nat := 0x4B
def PrefixDeposit : Nat := 0x1F

/-- `checkSchnorrSignatures` (with RunPrograms' mapping of `!ok` to an error). -/
def checkSchnorr {D : Type} (fx : Fix) (O : Oracles D) (p : Program) (d : D) : Res :=
  if fx.schnorrLen ∧ (p.code.length < 2 ∨ p.param.length < 64) then fail .schnorr else do
    let pk ← sliceFrom p.code 2
    let sg ← slice p.param 0 64
    if O.schnorr (copyInto 33 pk) d (copyInto 64 sg) then ok else fail .schnorr

/-- `CheckStandardSignature`. -/
def checkStandard {D : Type} (O : Oracles D) (p : Program) (d : D) : Res :=
  if p.param.length ≠ 65 then fail .sigLen else
  if p.code.length < 1 then .panic else do           -- `len(code)-1` as a slice bound must be ≥ 0
    let key ← slice p.code 1 (p.code.length - 1)
    if !O.decodeOk key then fail .decode else do
      let sg ← sliceFrom p.param 1
      if O.verify key d sg then ok else fail .verify

/-- the loop of `parsePublicKeys`: `for i < len(code) { copy(script, code[i:i+34]); i += 34 }` -/
def keysLoop (body : Bytes) : Nat → Nat → R (List Bytes)
  | 0, _ => .panic
  | fuel + 1, i =>
    if i < body.length then do
      let k ← slice body i (i + 34)
      let rest ← keysLoop body fuel (i + 34)
      pure (k :: rest)
    else pure []

/-- `parsePublicKeys`: `code[:len-1][1:][:len-1]` then the loop. -/
def parsePublicKeys (code : Bytes) : R (Except Err (List Bytes)) :=
  if code.length < 1 then .panic else do
    let c1 ← slice code 0 (code.length - 1)
    let c2 ← sliceFrom c1 1
    if c2.length < 1 then .panic else do
      let body ← slice c2 0 (c2.length - 1)
      if body.length % 34 ≠ 0 then .val (.error .msParseLen) else do
        let ks ← keysLoop body (body.length + 1) 0
        .val (.ok ks)

/-- `ParseMultisigScript` / `ParseCrossChainScript` (`last` = MULTISIG / CROSSCHAIN). -/
def parseScript (last : Nat) (code : Bytes) : R (Except Err (List Bytes)) :=
  if code.length < 71 then .val (.error .msParse) else do
    let c ← idx code (code.length - 1)
    if c ≠ last then .val (.error .msParse) else parsePublicKeys code

/-- inner `for _, publicKey := range publicKeys` of VerifyMultisigSignatures for one signature.
    Result: `.ok none` no key matched, `.ok (some pk)` first matching key, `.error` DecodePoint failed. -/
def matchKey {D : Type} (O : Oracles D) (d : D) (sg : Bytes) : List Bytes → R (Except Err (Option Bytes))
  | [] => .val (.ok none)
  | pk :: rest => do
    let key ← sliceFrom pk 1
    if !O.decodeOk key then .val (.error .decode) else
    if O.verify key d sg then .val (.ok (some pk)) else matchKey O d sg rest

/-- outer loop `for i := 0; i < len(signatures); i += 65`, `verified` as a list of keys. -/
def sigLoop {D : Type} (O : Oracles D) (d : D) (pks : List Bytes) (sigs : Bytes) :
    Nat → Nat → List Bytes → R (Except Err (List Bytes))
  | 0, _, _ => .panic
  | fuel + 1, i, verified =>
    if i < sigs.length then do
      let chunk ← slice sigs i (i + 65)
      let sg ← sliceFrom chunk 1
      let r ← matchKey O d sg pks
      match r with
      | .error e => .val (.error e)
      | .ok none => sigLoop O d pks sigs fuel (i + 65) verified
      | .ok (some pk) =>
        if verified.contains pk then .val (.error .msDup)
        else sigLoop O d pks sigs fuel (i + 65) (pk :: verified)
    else .val (.ok verified)

/-- `VerifyMultisigSignatures(m, n, publicKeys, signatures, data)`. -/
def verifyMultisig {D : Type} (O : Oracles D) (m n : Int) (pks : List Bytes) (sigs : Bytes) (d : D) : Res :=
  if (pks.length : Int) ≠ n then fail .msKeyCount else
  if sigs.length % 65 ≠ 0 then fail .msSigLen else
  if ((sigs.length / 65 : Nat) : Int) < m then fail .msNotEnough else
  if ((sigs.length / 65 : Nat) : Int) > n then fail .msTooMany else do
    let r ← sigLoop O d pks sigs (sigs.length + 1) 0 []
    match r with
    | .error e => fail e
    | .ok verified => if (verified.length : Int) < m then fail .msMatched else ok

/-- `n` and `m` as `CheckMultiSigSignatures` / `checkCrossChainSignatures` compute them. -/
def mnOf (code : Bytes) : R (Int × Int) :=
  if code.length < 2 then .panic else do
    let cn ← idx code (code.length - 2)
    let c0 ← idx code 0
    pure ((c0 : Int) - PUSH1i + 1, (cn : Int) - PUSH1i + 1)

/-- `crypto.CheckMultiSigSignatures`. -/
def checkMultiSig {D : Type} (fx : Fix) (O : Oracles D) (p : Program) (d : D) : Res :=
  if fx.msLen ∧ p.code.length < 2 then fail .msCode else do
    let (m, n) ← mnOf p.code
    if m < 1 ∨ m > n then fail .msCode else do
      let r ← parseScript MULTISIG p.code
      match r with
      | .error e => fail e
      | .ok pks => verifyMultisig O m n pks p.param d

/-- `checkCrossChainSignatures` (note: no `m < 1 || m > n` test here). -/
def checkCrossChain {D : Type} (fx : Fix) (O : Oracles D) (p : Program) (d : D) : Res :=
  if fx.ccLen ∧ p.code.length < 2 then fail .msParse else do
    let (m, n) ← mnOf p.code
    let r ← parseScript CROSSCHAIN p.code
    match r with
    | .error e => fail e
    | .ok pks => verifyMultisig O m n pks p.param d

/-- body of the `for i, program := range programs` loop of RunPrograms. -/
def runOne {D : Type} (fx : Fix) (O : Oracles D) (d : D) (h : PH) (p : Program) : Res :=
  if h.pfx = PrefixCrossChain then do
    if (← isSchnorr p.code) then checkSchnorr fx O p d else checkCrossChain fx O p d
  else
    if h.hash ≠ O.codeHash p.code then fail .hashMismatch else
    if h.pfx = PrefixStandard ∨ h.pfx = PrefixDeposit then do
      if (← isSchnorr p.code) then checkSchnorr fx O p d
      else if (← isStandard p.code) then checkStandard O p d
      else if (← isMultiSig fx.multiSig p.code) then checkMultiSig fx O p d
      else ok        -- no branch taken: the program is accepted without any signature check
    else if h.pfx = PrefixMultiSig then checkMultiSig fx O p d
    else fail .unknownType

def runLoop {D : Type} (fx : Fix) (O : Oracles D) (d : D) : List PH → List Program → Res
  | h :: hs, p :: ps => do
    let r ← runOne fx O d h p
    match r with
    | .error e => fail e
    | .ok () => runLoop fx O d hs ps
  | _, _ => ok

/-- `RunPrograms(data, programHashes, programs)`. -/
def runPrograms {D : Type} (fx : Fix) (O : Oracles D) (d : D) (hs : List PH) (ps : List Program) : Res :=
  if hs.length ≠ ps.length then fail .count else runLoop fx O d hs ps

end ElaVerif.RunPrograms
