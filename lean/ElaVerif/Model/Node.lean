import ElaVerif.Model.Index
import ElaVerif.Model.Compact
/-
  The node as far as C06 / C12 / C14 / C30 look at it (core Lean only): block tree, orphan pool,
  chain selection with reorganisation (blockchain.go: processBlock, maybeAcceptBlock,
  connectBestChain, getReorganizeNodes, reorganizeChain, ProcessOrphans), the UTXO ledger obtained by
  replaying the active chain, block/transaction validation restricted to coinbase + transfer
  transactions (blockvalidator.go CheckBlockSanity / checkTxsContext, transactionchecker.go), and the
  transaction pool kept in step by the netsync event handler.

  Work of a block = `CalcWork(header.Bits)` (Model/Compact.lean); on instant-block regnet
  (PowLimitBits 0x207fffff) the harness does not pass the bits and every block counts 1.
-/
namespace ElaVerif.Node
open ElaVerif.Index

structure Params where
  reward : Int      -- PowConfiguration.RewardPerBlock (heights below NewELAIssuanceHeight)
  maturity : Nat    -- PowConfiguration.CoinbaseMaturity
  minFee : Int      -- MinTransactionFee
  /-- `CRCOnlyDPOSHeight`: the irreversibility guard is off at or below it -/
  guardFrom : Nat := 1000000
  /-- `CheckRewardHeight`: below it `checkTxsContext` only logs a wrong coinbase amount -/
  checkRewardFrom : Nat := 0
deriving Repr

/-- one unspent output -/
structure UEntry where
  txid : Nat
  idx : Nat
  addr : Nat
  value : Int
  height : Nat
  cb : Bool
deriving DecidableEq, Repr

/-- what replaying a chain yields: the unspent outputs and the transactions on it -/
structure Ledger where
  utxos : List UEntry := []
  txs : List (Nat × Nat) := []     -- (txid, height)
deriving Repr

def Ledger.find (L : Ledger) (p : Nat × Nat) : Option UEntry :=
  L.utxos.find? fun e => e.txid == p.1 && e.idx == p.2

def blockIns (b : Block) : List (Nat × Nat) := b.txs.flatMap txIns

/-- the height the maturity rule counts from: `CheckTransactionCoinbaseOutputLock` reads the coinbase's
    LockTime, not the height of its block. The harness builds coinbases with LockTime = block height; a
    coinbase copied from another block carries its lock time as its one payload datum (decimal). -/
def entryHeight (b : Block) (tx : Tx) : Nat :=
  if tx.kind == .coinbase then (tx.pdatas.head?.bind String.toNat?).getD b.height else b.height

def newEntries (b : Block) : List UEntry :=
  b.txs.flatMap fun tx =>
    (outsIdx tx.outs).map fun p =>
      { txid := tx.id, idx := p.1, addr := p.2.addr, value := p.2.value, height := entryHeight b tx,
        cb := tx.kind == .coinbase }

/-- connect a block to a ledger (no validity check here) -/
def applyBlock (L : Ledger) (b : Block) : Ledger :=
  { utxos := (L.utxos.filter fun e => !(blockIns b).contains (e.txid, e.idx)) ++ newEntries b,
    txs := L.txs ++ b.txs.map fun tx => (tx.id, b.height) }

/-- the UTXO set of a chain (genesis first) -/
def replay (chain : List Block) : Ledger := chain.foldl applyBlock {}

/-! ### what the query API answers, read off the ledger -/

/-- `GetUnspent`: unspent output indexes of a transaction -/
def unspentOf (L : Ledger) (t : Nat) : List Nat := (L.utxos.filter (·.txid == t)).map (·.idx)

/-- `GetUTXO`: the unspent outputs of an address; zero-value outputs are not listed -/
def utxoOf (L : Ledger) (a : Nat) : List UEntry := L.utxos.filter fun e => e.addr == a && e.value != 0

/-- `Ledger.GetAmount`: sum of the listed outputs of an address -/
def balanceOf (L : Ledger) (a : Nat) : Int := ((utxoOf L a).map (·.value)).foldl (· + ·) 0

/-- `GetTransaction`: height of a transaction on the chain -/
def txHeight (L : Ledger) (t : Nat) : Option Nat := (L.txs.find? (·.1 == t)).map (·.2)

/-! ### validation (transfer transactions only) -/

def sumOuts (tx : Tx) : Int := (tx.outs.map (·.value)).foldl (· + ·) 0

/-- no element occurs twice -/
def nodupB {α : Type} [BEq α] : List α → Bool
  | [] => true
  | a :: r => !r.contains a && nodupB r

/-- context-free transaction checks the generated class can fail -/
def txSane (tx : Tx) : Bool :=
  tx.kind != .registerAsset &&   -- RegisterAssetTransaction.CheckTransactionInput: genesis only (fix bcb6426e)
  tx.outs.length ≤ 65535 &&      -- CheckTransactionOutput: output indexes are stored as uint16
  !tx.ins.isEmpty && !tx.outs.isEmpty && nodupB tx.ins &&
  tx.outs.all fun o => o.value ≥ 0

/-- Σ inputs of a transaction on a ledger (`none`: an input is not unspent there) -/
def sumIns (L : Ledger) (tx : Tx) : Option Int :=
  tx.ins.foldl (fun acc p => match acc, L.find p with
    | some a, some e => some (a + e.value)
    | _, _ => none) (some 0)

/-- `CheckTransactionContext` against the chain ending at height `th` -/
def txValid (P : Params) (L : Ledger) (th : Nat) (tx : Tx) : Bool :=
  !(L.txs.any fun t => t.1 == tx.id) &&
  (tx.ins.all fun p => match L.find p with
    | some e => !e.cb || th - e.height ≥ P.maturity
    | none => false) &&
  (match sumIns L tx with
   | some s => s - sumOuts tx ≥ P.minFee
   | none => false)

def feeOf (L : Ledger) (tx : Tx) : Int :=
  match sumIns L tx with
  | some s => s - sumOuts tx
  | none => 0

/-! ### CRCAppropriation (core/transaction/crcappropriationtransaction.go)

  The one transaction type that carries inputs but neither signatures nor a fee: its `SpecialContextCheck`
  ends the context check, so the ledger's double-spend test *before* it is the only thing that keeps it from
  spending an outpoint again. The harness marks the kind in the specification (`ca`); the model keeps it as
  `.other` with the payload datum `"ca"`. -/
def isApprop (tx : Tx) : Bool := tx.kind == .other && tx.pdatas == ["ca"]

/-- every input is an unspent output of the CR assets address -/
def fromAssets (L : Ledger) (assets : Nat) (tx : Tx) : Bool :=
  tx.ins.all fun p => match L.find p with | some e => e.addr == assets | none => false

/-- `DefaultChecker.ContextCheck` of a CRCAppropriation at a height from CRCommitteeStartHeight on, in the
    order of the code: duplicate hash (ErrTxDuplicate 22011), referenced transactions known
    (ErrTxUnknownReferredTx 22009), `IsDoubleSpend` (ErrTxDoubleSpend 22007), then the special check
    (ErrTxPayload 22006): appropriation needed, every input from the CR assets address, Σ inputs = Σ outputs,
    first output = the committee's appropriation amount. `0` = accepted. -/
def ctxApprop (L : Ledger) (assets : Nat) (appr : Option Int) (tx : Tx) : Nat :=
  if L.txs.any (·.1 == tx.id) then 22011
  else if !(tx.ins.all fun p => L.txs.any (·.1 == p.1)) then 22009
  else if !(tx.ins.all fun p => (L.find p).isSome) then 22007
  else match appr with
    | none => 22006
    | some amt =>
      if !(fromAssets L assets tx) then 22006
      else if sumIns L tx != some (sumOuts tx) then 22006
      else if (tx.outs.head?.map (·.value)) != some amt then 22006
      else 0

/-- `CheckBlockSanity` -/
def blockSane (b : Block) : Bool :=
  match b.txs with
  | [] => false
  | cb :: rest =>
    cb.kind == .coinbase && rest.all (fun tx => tx.kind != .coinbase) &&
    nodupB (b.txs.map (·.id)) &&
    rest.all txSane &&
    nodupB (blockIns b)

/-- `CheckBlockContext` → `checkTxsContext`: every transaction against the ledger *before* the block,
    then the coinbase amount -/
def blockValid (P : Params) (L : Ledger) (b : Block) : Bool :=
  match b.txs with
  | [] => false
  | cb :: rest =>
    rest.all (txValid P L (b.height - 1)) &&
    (b.height < P.checkRewardFrom || sumOuts cb - (rest.map (feeOf L)).foldl (· + ·) 0 == P.reward)

/-! ### transaction pool (mempool/txpool.go + netsync event handler) -/

def poolIns (pool : List Tx) : List (Nat × Nat) := pool.flatMap (·.ins)

/-- a side-chain mining proof in the original format (SideChainPow with inputs): the harness passes it as
    an ordinary spending transaction that carries `[SideBlockHash, SideGenesisHash]` -/
def isSidePow (tx : Tx) : Bool := tx.kind == .other && tx.phashes.length == 2
def sideGenesis (tx : Tx) : Nat := tx.phashes.getD 1 0

/-- `replaceDuplicateSideChainPowTx`: a new proof evicts the pool's proofs for the same side chain -/
def poolReplace (pool : List Tx) (tx : Tx) : List Tx :=
  if isSidePow tx then pool.filter fun t => !(isSidePow t && sideGenesis t == sideGenesis tx) else pool

/-- `appendToTxPool` up to the pool lookup: duplicate, coinbase, sanity and context checks -/
def poolPre (P : Params) (L : Ledger) (th : Nat) (pool : List Tx) (tx : Tx) : Bool :=
  !(pool.any fun t => t.id == tx.id) && tx.kind != .coinbase && txSane tx && txValid P L th tx

/-- `appendToTxPool`: the checks, then `verifyTransactionWithTxnPool` (eviction of duplicate side-chain
    proofs — which happens even when the transaction is then refused — and the input-conflict lookup
    `VerifyTx`, for every transaction type) -/
def poolAdd (P : Params) (L : Ledger) (th : Nat) (pool : List Tx) (tx : Tx) : List Tx × Bool :=
  if poolPre P L th pool tx then
    if tx.ins.all fun p => !(poolIns (poolReplace pool tx)).contains p then (poolReplace pool tx ++ [tx], true)
    else (poolReplace pool tx, false)
  else (pool, false)

/-- ETBlockConnected: drop the block's transactions and everything that spends what they spend -/
def poolOnConnect (pool : List Tx) (b : Block) : List Tx :=
  pool.filter fun t => !(b.txs.any fun bt => bt.id == t.id) &&
    t.ins.all fun p => !(blockIns b).contains p

/-- ETBlockDisconnected: the block's transactions go back when they are acceptable; when one is not,
    `RemoveTransaction` drops what depends on it -/
def poolOnDisconnect (P : Params) (L : Ledger) (th : Nat) (pool : List Tx) (b : Block) : List Tx :=
  (b.txs.drop 1).foldl (fun pool tx =>
    if (poolAdd P L th pool tx).2 then (poolAdd P L th pool tx).1
    else (poolAdd P L th pool tx).1.filter fun t => !(t.ins.any fun p => p.1 == tx.id)) pool

/-- ETBlockProcessed: `checkAndCleanAllTransactions` -/
def poolClean (P : Params) (L : Ledger) (th : Nat) (pool : List Tx) : List Tx :=
  pool.filter (txValid P L th)

/-! ### the node -/

structure NState where
  P : Params
  genesis : Block
  /-- every block in the index: main chain and side chains -/
  known : List Block
  orphans : List Block
  /-- active chain above genesis, tip first, each with the ledger after it -/
  active : List (Block × Ledger)
  gledger : Ledger
  pool : List Tx
  /-- `State.LastIrreversibleHeight` and consensus mode, set by the harness for C30 -/
  lih : Nat := 0
  dpos : Bool := false
  revertStart : Nat := 1000000
  /-- `BlockNode.WorkSum` of every block in the index (id ↦ cumulative work above genesis) -/
  works : List (Nat × Int) := []
  /-- every block that was ever connected: its block row and data stay in the database when it is
      disconnected (`RollbackBlock` removes only the hash/height index), so a restart reloads it -/
  stored : List Block := []

def NState.tip (s : NState) : Block := match s.active with | (b, _) :: _ => b | [] => s.genesis
def NState.ledger (s : NState) : Ledger := match s.active with | (_, L) :: _ => L | [] => s.gledger
def NState.isKnown (s : NState) (id : Nat) : Bool := s.genesis.id == id || s.known.any (·.id == id)
def NState.find (s : NState) (id : Nat) : Option Block :=
  if s.genesis.id == id then some s.genesis else s.known.find? (·.id == id)
def NState.inMain (s : NState) (id : Nat) : Bool := s.genesis.id == id || s.active.any (·.1.id == id)

/-- `CalcWork(header.Bits)` -/
def blockWork (b : Block) : Int := if b.bits = 0 then 1 else ElaVerif.Compact.calcWork b.bits

/-- `BlockNode.WorkSum` as recorded when the node was created (genesis and unknown ids: 0) -/
def workOf (s : NState) (id : Nat) : Int :=
  match s.works.find? (·.1 == id) with
  | some p => p.2
  | none => 0

def chainWork (s : NState) (b : Block) : Int := workOf s b.id

/-- `maybeAcceptBlock`: the new node enters the index with `WorkSum = parent.WorkSum + CalcWork(bits)` -/
def addKnown (s : NState) (b : Block) : NState :=
  { s with known := b :: s.known, works := (b.id, workOf s b.prev + blockWork b) :: s.works }

/-- `State.IsIrreversible` (IrreversibleHeight = 6) -/
def isIrreversible (s : NState) (cur detach : Nat) : Bool :=
  if cur ≤ s.P.guardFrom then false
  else if cur - detach ≤ s.lih then true
  else if cur ≥ s.revertStart then s.dpos && detach ≥ 6
  else detach > 6

inductive Outcome | main | side | err
deriving DecidableEq, Repr

/-- `connectBlock` at the tip: context check, then store, events -/
def connectTip (s : NState) (b : Block) : Option NState :=
  if blockValid s.P s.ledger b then
    let L := applyBlock s.ledger b
    some { s with active := (b, L) :: s.active, pool := poolOnConnect s.pool b,
                  stored := if s.stored.any (·.id == b.id) then s.stored else b :: s.stored }
  else none

/-- `disconnectBlock`: pop the tip; its transactions return to the pool -/
def disconnectTip (s : NState) : NState :=
  match s.active with
  | [] => s
  | (b, _) :: rest =>
    let s' := { s with active := rest }
    { s' with pool := poolOnDisconnect s.P s'.ledger s'.tip.height s.pool b }

/-- path from the main chain up to `b` (the blocks to attach, fork side first); fuel = tree size -/
def attachPath (s : NState) : Nat → Block → List Block → List Block
  | 0, _, acc => acc
  | fuel + 1, b, acc =>
    if s.inMain b.id then acc
    else match s.find b.prev with
      | some p => attachPath s fuel p (b :: acc)
      | none => b :: acc

/-- attach one block of the new branch; after a failure nothing more is attached -/
def attachStep (acc : NState × Bool) (b : Block) : NState × Bool :=
  if acc.2 then
    match connectTip acc.1 b with
    | some s' => (s', true)
    | none => (acc.1, false)
  else acc

/-- `reorganizeChain`: detach, then attach one by one; a block that fails its context check stops the
    switch where it is — nothing is restored (as the code) -/
def reorganize (s : NState) (detach : Nat) (attach : List Block) : NState × Bool :=
  let s1 := (List.range detach).foldl (fun s _ => disconnectTip s) s
  attach.foldl attachStep (s1, true)

/-- ETBlockProcessed -/
def cleanPool (s : NState) : NState := { s with pool := poolClean s.P s.ledger s.tip.height s.pool }

/-- `getReorganizeNodes`: how many blocks to detach and which to attach -/
def reorgPlan (s : NState) (b : Block) : Nat × List Block :=
  let attach := attachPath s (s.known.length + 1) b []
  let forkH := match attach with | a :: _ => a.height - 1 | [] => b.height
  (s.tip.height - forkH, attach)

/-- `connectBestChain`, block on a side chain (already recorded in the index) -/
def sideOrReorg (s : NState) (b : Block) : NState × Outcome :=
  if chainWork s b ≤ chainWork s s.tip then (cleanPool s, .side)
  else if isIrreversible s s.tip.height (reorgPlan s b).1 then (cleanPool s, .side)
  else
    let r := reorganize s (reorgPlan s b).1 (reorgPlan s b).2
    if r.2 then (cleanPool r.1, .main) else (r.1, .err)

/-- the exported `BlockChain.ReorganizeChain(block)` (caller: BlockPool.CheckConfirmedBlockOnFork): make an indexed
    block the tip without comparing work. `guardHeight` is the height handed to `IsIrreversible` together with the
    number of blocks to detach. Result: new state, and `false` when the block is not in the index or an attach failed. -/
def reorgToWith (guardHeight : NState → Block → Nat) (s : NState) (id : Nat) : NState × Bool :=
  match s.known.find? (·.id == id) with
  | none => (s, false)
  | some b =>
    if isIrreversible s (guardHeight s b) (reorgPlan s b).1 then (s, true)
    else reorganize s (reorgPlan s b).1 (reorgPlan s b).2

/-- as the code: the guard is asked with the height of the best chain -/
def reorgTo : NState → Nat → NState × Bool := reorgToWith fun s _ => s.tip.height

/-- `connectBestChain`, block extending the tip -/
def extendTip (s : NState) (b : Block) : NState × Outcome :=
  match connectTip s b with
  | some s' => (cleanPool (addKnown s' b), .main)
  | none => (s, .err)

/-- `maybeAcceptBlock` → `connectBestChain` for a block whose parent is known -/
def acceptBlock (s : NState) (b : Block) : NState × Outcome :=
  match s.find b.prev with
  | none => (s, .err)
  | some parent =>
    if b.height ≠ parent.height + 1 then (s, .err)
    else if parent.id == s.tip.id then extendTip s b
    else sideOrReorg (addKnown s b) b

/-- one waiting orphan through `maybeAcceptBlock`; it leaves the orphan pool only when that succeeds -/
def orphanStep (acc : NState × Bool × List Nat) (o : Block) : NState × Bool × List Nat :=
  if acc.2.1 then
    let r := acceptBlock acc.1 o
    if r.2 == .err then (r.1, false, acc.2.2)
    else ({ r.1 with orphans := r.1.orphans.filter (·.id != o.id) }, true, acc.2.2 ++ [o.id])
  else acc

/-- `ProcessOrphans`: accept the orphans that wait for `id`, breadth first; an error stops it -/
def processOrphans : Nat → NState → List Nat → NState × Bool
  | 0, s, _ => (s, true)
  | _, s, [] => (s, true)
  | fuel + 1, s, id :: queue =>
    let step := (s.orphans.filter (·.prev == id)).foldl orphanStep (s, true, queue)
    if step.2.1 then processOrphans fuel step.1 step.2.2 else (step.1, false)

inductive Reply | main | side | orphan | err
deriving DecidableEq, Repr

/-- `BlockChain.ProcessBlock` -/
def processBlock (s : NState) (b : Block) : NState × Reply :=
  if s.isKnown b.id then (s, .err)
  else if s.orphans.any (·.id == b.id) then (s, .orphan)
  else if !blockSane b then (s, .err)
  else if !s.isKnown b.prev then ({ s with orphans := s.orphans ++ [b] }, .orphan)
  else
    let a := acceptBlock s b
    if a.2 == .err then (a.1, .err)
    else
      let o := processOrphans (a.1.orphans.length + 1) a.1 [b.id]
      if !o.2 then (o.1, .err) else (o.1, if a.2 == .main then .main else .side)

/-- `TxPool.AppendToTxPool` -/
def submit (s : NState) (tx : Tx) : NState × Bool :=
  ({ s with pool := (poolAdd s.P s.ledger s.tip.height s.pool tx).1 }, (poolAdd s.P s.ledger s.tip.height s.pool tx).2)

/-- a node restart: `initChainState` reloads every block row whose block is in the store — the active chain and
    every block that was connected once (detached branches); side-chain blocks that were never connected, the
    orphan pool and the transaction pool are memory only -/
def restart (s : NState) : NState :=
  let onDisk := s.active.map (·.1) ++ s.stored.filter fun b => !(s.active.any (·.1.id == b.id))
  { s with known := onDisk, orphans := [], pool := [],
           works := s.works.filter fun w => onDisk.any (·.id == w.1) }

def initState (P : Params) (g : Block) : NState :=
  { P := P, genesis := g, known := [], orphans := [], active := [], gledger := applyBlock {} g, pool := [] }

end ElaVerif.Node
