/-
  Message codecs behind the P2P frame (core Lean only): for every command of the main-net and DPoS
  stacks whose `Serialize`/`Deserialize` pair is modelled, the layout of its payload.
  Layouts reuse the wire-schema machinery of C02/C04 (`Model/Wire.lean`, `Model/WireSchemas.lean`,
  `Model/Tx.lean`) and the `filterload` codec of C39 (`Model/Bloom.lean`).
  All Go decoders read from a buffer and ignore trailing bytes; so does `decodeMsg`.
-/
import ElaVerif.Model.Tx
import ElaVerif.Model.WireSchemas
import ElaVerif.Model.Bloom
namespace ElaVerif.P2PCodec
open ElaVerif.Wire ElaVerif.WireSchemas ElaVerif.Tx

abbrev Bytes := List UInt8

inductive Msg where
  | val (v : Val)
  | tx (t : Tx)
  | block (b : Block)
  | dposBlock (b : Block) (c : Val)            -- Block, HaveConfirm flag + Confirm
  | version (fixed : Val) (nver : Val)         -- fixed fields, NodeVersion (`.unit` when absent)
  | filterLoad (f : Bloom.Filter) (flags : UInt8)
  | raw (p : Bytes)                            -- command without a modelled codec

inductive Layout where
  | schema (ty : Ty)
  | tx
  | block
  | dposBlock
  | version
  | filterLoad

def crProposalVersion : Nat := 80000
def maxCipherLength : Nat := 256
def maxFilterAddDataSize : Nat := 520
def maxTxFilterLoadDataSize : Nat := 50000

/-- `Version`: Version, Services, Timestamp, Port, Nonce, Height, Relay -/
def versionFixed : Ty := .struct [u32, u64, u32, u16, u64, u64, .bool]
/-- `DposBlock`: after the block a flag byte and, if it is non-zero, the confirm -/
def confirmTag : Ty := .tagged 1 [(0, .struct [])] confirm

def versionNum : Val → Nat
  | .struct (.num n :: _) => n
  | _ => 0

def maxTxPerBlock : Nat := 10000
/-- `MerkleBlock`: header, Transactions, `uint32` hash count (≤ MaxTxPerBlock, slice pre-sized), hashes,
    flag bytes (≤ MaxTxPerBlock / 8).  Written by the node for SPV peers (stack "spv" = a peer that reads it). -/
def merkleBlock : Ty :=
  .struct [header, u32, .list 4 (some maxTxPerBlock) 40 0 hash256, .varBytes (maxTxPerBlock / 8)]

/-- which layout a stack reads for a command (`none`: codec not modelled) -/
def layoutOfStr (stack cmd : String) : Option Layout :=
  if stack = "dpos" then
    match cmd with
    | "ping" | "pong" => some (.schema u64)
    | "verack" => some (.schema (.fixed 64))
    | "addr" => some (.schema (.struct [varString, u16]))
    | "inv" | "getblock" | "req_pro" => some (.schema hash256)
    | "get_blc" => some (.schema (.struct [u32, u32]))
    | "req_con" => some (.schema u32)
    | "proposal" => some (.schema dposProposal)
    | "acc_vote" | "rej_vote" => some (.schema dposProposalVote)
    | "reset_view" => some (.schema (.struct [.varBytes negativeBigLength, .varBytes signatureLength]))
    | "ina_ars" | "rev_to_dpos" =>
      some (.schema (.struct [hash256, .varBytes negativeBigLength, .varBytes signatureLength]))
    | "ill_pro" => some (.schema dposIllegalProposals)
    | "side_ill" => some (.schema sidechainIllegalData)
    | "tx" => some .tx
    | "block" => some .block
    | _ => none
  else
    match cmd with
    | "verack" | "getaddr" | "mempool" | "filterclear" => some (.schema (.struct []))
    | "ping" | "pong" => some (.schema u64)
    | "version" => some .version
    | "addr" => some (.schema addrMsg)
    | "inv" | "getdata" | "notfound" => some (.schema invMsg)
    | "getblocks" => some (.schema getBlocksMsg)
    | "filteradd" => some (.schema (.varBytes maxFilterAddDataSize))
    | "filterload" => some .filterLoad
    | "txfilter" => some (.schema (.struct [u8, .varBytes maxTxFilterLoadDataSize]))
    | "reject" => some (.schema (.struct [varString, u8, varString, hash256]))
    | "daddr" =>
      some (.schema (.struct [.fixed 33, u64, .fixed 33, .varBytes maxCipherLength, .varBytes signatureLength]))
    | "tx" => some .tx
    | "block" => some .dposBlock
    | "merkleblock" => some (.schema merkleBlock)
    | _ => none

/-- `net.IP.To16` as `NetAddress.Serialize` uses it: 4-byte IPv4 → IPv4-mapped IPv6, 16 bytes unchanged, anything else
    (`nil`, odd lengths) → the 16 zero bytes of the unset array -/
def ipTo16 (ip : Bytes) : Bytes :=
  if ip.length = 4 then List.replicate 10 0 ++ [0xff, 0xff] ++ ip
  else if ip.length = 16 then ip
  else List.replicate 16 0

/-- an address object as the node holds it: timestamp (Unix seconds), services, net.IP in any form, port -/
structure NetAddr where
  ts : Nat
  services : Nat
  ip : Bytes
  port : Nat

/-- `Addr.Serialize` from objects: the value that `addrMsg` encodes -/
def addrVal (as : List NetAddr) : Val :=
  .list (as.map fun a => .struct [.num a.ts, .num a.services, .bytes (ipTo16 a.ip), .num a.port])

/-- offset of the Flags byte in an encoded `filterload` -/
def flagsOffset (f : Bloom.Filter) : Nat := (Bloom.writeVarUint f.bits.length).length + f.bits.length + 8

def encodeMsg : Layout → Msg → Bytes
  | .schema ty, .val v => encode ty v
  | .tx, .tx t => encodeTx t
  | .block, .block b => encodeBlock b
  | .dposBlock, .dposBlock b c => encodeBlock b ++ encode confirmTag c
  | .version, .version fx nv =>
    encode versionFixed fx ++ (if versionNum fx ≥ crProposalVersion then encode varString nv else [])
  | .filterLoad, .filterLoad f flags => Bloom.encodeFilterLoad f flags
  | _, _ => []

def decodeMsg : Layout → Bytes → Option Msg
  | .schema ty, p => (decode ty p).map fun r => .val r.1
  | .tx, p => (decodeTx p).map fun r => .tx r.1
  | .block, p => (decodeBlockA p).res.map fun r => .block r.1
  | .dposBlock, p =>
    match (decodeBlockA p).res with
    | none => none
    | some (b, rest) => (decode confirmTag rest).map fun r => .dposBlock b r.1
  | .version, p =>
    match decode versionFixed p with
    | none => none
    | some (fx, rest) =>
      if versionNum fx ≥ crProposalVersion then (decode varString rest).map fun r => .version fx r.1
      else some (.version fx .unit)
  | .filterLoad, p => (Bloom.loadFilter p).map fun f => .filterLoad f (p.getD (flagsOffset f) 0)

/-- well-formed message of a layout (within the codec's own limits) -/
def wfMsg : Layout → Msg → Bool
  | .schema ty, .val v => wf ty v
  | .tx, .tx t => wfTx t
  | .block, .block b => wfBlock b
  | .dposBlock, .dposBlock b c => wfBlock b && wf confirmTag c
  | .version, .version fx nv =>
    wf versionFixed fx && (if versionNum fx ≥ crProposalVersion then wf varString nv else nv matches .unit)
  | .filterLoad, .filterLoad f _ =>
    decide (f.bits.length ≤ Bloom.maxFilterLoadFilterSize) && decide (f.hashFuncs.toNat ≤ Bloom.maxFilterLoadHashFuncs) &&
      decide (f.txTypes.length < 2 ^ 64)
  | _, _ => false

end ElaVerif.P2PCodec
