/-
  Model of blockchain/confirmvalidator.go (ConfirmSanityCheck, ConfirmContextCheck and the
  proposal / vote checks they call) and of the majority threshold
  dpos/state/arbitrators.go:GetArbitersMajorityCount / HasArbitersMajorityCount.

  Public keys are natural-number identities; whether a signature verifies for
  the data it is supposed to sign is a flag of the vote / proposal (the harness
  makes real ECDSA signatures accordingly and the real `crypto.Verify` decides).
  Core Lean only.
-/
namespace ElaVerif.Confirm

/-- `int(float64(n) * 2 / 3)`; the float expression equals `2n/3` for every `n` the
    correspondence enumerates (all n < 2^20 in the thorough tier). -/
def majority (n : Nat) : Nat := 2 * n / 3

/-- `HasArbitersMajorityCount num`. -/
def hasMajority (n num : Nat) : Bool := num > majority n

/-- one entry of `GetArbitrators()`: node public key and the `IsNormal` flag. -/
structure Arb where
  key : Nat
  normal : Bool
  deriving DecidableEq, Repr

structure Vote where
  signer : Nat
  accept : Bool
  /-- `vote.ProposalHash == confirm.Proposal.Hash()` -/
  hashOk : Bool
  /-- `VoteSanityCheck`: the signer decodes to a curve point and the signature verifies -/
  sigOk : Bool
  deriving DecidableEq, Repr

structure Conf where
  sponsor : Nat
  /-- `ProposalSanityCheck` -/
  sponsorSigOk : Bool
  votes : List Vote
  deriving DecidableEq, Repr

inductive SanityErr | badProposal | rejectVote | wrongHash | badVoteSig
  deriving DecidableEq, Repr

inductive ContextErr | noMajority | sponsorNotArbiter | signerNotArbiter
  deriving DecidableEq, Repr

/-- the loop over `confirm.Votes` in `ConfirmSanityCheck`. -/
def voteSanity : List Vote → Option SanityErr
  | [] => none
  | v :: vs =>
    if !v.accept then some .rejectVote
    else if !v.hashOk then some .wrongHash
    else if !v.sigOk then some .badVoteSig
    else voteSanity vs

/-- `ConfirmSanityCheck`; `none` = nil error. -/
def sanity (c : Conf) : Option SanityErr :=
  if !c.sponsorSigOk then some .badProposal else voteSanity c.votes

/-- `ProposalContextCheck` / `VoteContextCheck`: the key belongs to a *normal* current arbiter. -/
def isNormalArb (arbs : List Arb) (k : Nat) : Bool := arbs.any (fun a => a.normal && a.key == k)

/-- distinct elements (what the `map[string]struct{}` of signers keeps). -/
def dedup : List Nat → List Nat
  | [] => []
  | a :: l => if a ∈ l then dedup l else a :: dedup l

/-- the `signers` map of `ConfirmContextCheck`: distinct signers of accepting votes. -/
def signers (c : Conf) : List Nat := dedup ((c.votes.filter (·.accept)).map (·.signer))

/-- `ConfirmContextCheck`. -/
def context (arbs : List Arb) (c : Conf) : Option ContextErr :=
  if (signers c).length ≤ majority arbs.length then some .noMajority
  else if !isNormalArb arbs c.sponsor then some .sponsorNotArbiter
  else if c.votes.all (fun v => isNormalArb arbs v.signer) then none
  else some .signerNotArbiter

/-- a confirmation is accepted when both checks pass (block pool: sanity; chain: context). -/
def accepted (arbs : List Arb) (c : Conf) : Bool := sanity c == none && context arbs c == none

/-! ### the block pool (mempool/blockpool.go:appendConfirm)

`BlockPool.appendConfirm` is the only place where signatures, accept flags and the vote/proposal
hash binding are checked; the chain later re-checks only the context of the confirmation the
pool hands it.  For one block hash the pool keeps at most one confirmation: the last appended one
that passed `ConfirmSanityCheck`. -/

/-- one `AppendConfirm` (no block for that hash in the pool yet): index of the cached confirmation. -/
def poolStep (cached : Option Nat) (i : Nat) (c : Conf) : Option Nat :=
  if sanity c = none then some i else cached

/-- cached index after every step, starting at index `i`. -/
def poolRun : Option Nat → Nat → List Conf → List (Option SanityErr × Option Nat)
  | _, _, [] => []
  | cached, i, c :: cs =>
    let cached' := poolStep cached i c
    (sanity c, cached') :: poolRun cached' (i + 1) cs

/-- index of the confirmation the pool holds after appending `cs` in order. -/
def poolFinal : Option Nat → Nat → List Conf → Option Nat
  | cached, _, [] => cached
  | cached, i, c :: cs => poolFinal (poolStep cached i c) (i + 1) cs

/-! ### vote collection of the proposal dispatcher (dpos/manager/proposaldispatcher.go ProcessVote
on the accept-vote path: `VoteCheck`, `alreadyExistVote`, `countAcceptedVote`)

The collected votes are keyed by the vote hash = (proposal hash, signer, accept); `hashOk` tells
whether the vote names the proposal being processed (the message handlers only forward such votes). -/

def dispStep (arbs : List Arb) (acc : List (Nat × Bool)) (v : Vote) : List (Nat × Bool) × Bool :=
  if v.sigOk && isNormalArb arbs v.signer && v.accept && !(acc.contains (v.signer, v.hashOk))
  then ((v.signer, v.hashOk) :: acc, true) else (acc, false)

/-- per vote: (succeed, majority reached, number of accept votes held). -/
def dispRun (arbs : List Arb) : List (Nat × Bool) → List Vote → List (Bool × Bool × Nat)
  | _, [] => []
  | acc, v :: vs =>
    let r := dispStep arbs acc v
    (r.2, hasMajority arbs.length r.1.length, r.1.length) :: dispRun arbs r.1 vs

def dispFinal (arbs : List Arb) : List (Nat × Bool) → List Vote → List (Nat × Bool)
  | acc, [] => acc
  | acc, v :: vs => dispFinal arbs (dispStep arbs acc v).1 vs

/-- what reaches the dispatcher: a vote, or `CleanProposals` (on a view change and when a height
    is finished alike: the collected votes are dropped, they belonged to the abandoned proposal). -/
inductive DItem
  | vote (v : Vote)
  | clean
  deriving DecidableEq, Repr

/-- the message handlers (`DPOSNormalHandler` / `DPOSOnDutyHandler.ProcessAcceptVote`) forward a vote
    to the dispatcher only when it names the proposal being processed. -/
def handlerStep (arbs : List Arb) (acc : List (Nat × Bool)) (v : Vote) : List (Nat × Bool) × Bool :=
  if v.hashOk then dispStep arbs acc v else (acc, false)

def handlerFinal (arbs : List Arb) : List (Nat × Bool) → List Vote → List (Nat × Bool)
  | acc, [] => acc
  | acc, v :: vs => handlerFinal arbs (handlerStep arbs acc v).1 vs

/-- `viaHandler = false`: votes go straight into `ProcessVote`. -/
def dispRunI (viaHandler : Bool) (arbs : List Arb) : List (Nat × Bool) → List DItem → List (Option (Bool × Bool) × Nat)
  | _, [] => []
  | acc, .vote v :: xs =>
    let r := if viaHandler then handlerStep arbs acc v else dispStep arbs acc v
    (some (r.2, hasMajority arbs.length r.1.length), r.1.length) :: dispRunI viaHandler arbs r.1 xs
  | _, .clean :: xs => (none, 0) :: dispRunI viaHandler arbs [] xs

def dispFinalI (arbs : List Arb) : List (Nat × Bool) → List DItem → List (Nat × Bool)
  | acc, [] => acc
  | acc, .vote v :: xs => dispFinalI arbs (dispStep arbs acc v).1 xs
  | _, .clean :: xs => dispFinalI arbs [] xs

/-! ### block pool + chain for one block `B` (mempool/blockpool.go AddDposBlock / AppendDposBlock /
AppendConfirm / confirmBlock, blockchain.connectBlock → checkBlockWithConfirmation)

`B` is a valid block extending the tip.  In the DPoS era the pool hands `B` to
`BlockChain.ProcessBlock` only together with the confirmation it holds for `B`'s hash, and the chain
connects it only if `ConfirmContextCheck` passes.  Before the DPoS era (`dpos = false`)
`AddDposBlock` passes the block straight to the chain, which ignores confirmations. -/

structure PCState where
  inPool : Bool
  cached : Option (Nat × Conf)
  connected : Bool
  deriving DecidableEq, Repr

inductive CStep
  | blk                  -- AddDposBlock(B) without confirmation
  | blkConf (c : Conf)   -- AddDposBlock(B) with confirmation
  | conf (c : Conf)      -- AppendConfirm
  deriving DecidableEq, Repr

def CStep.conf? : CStep → Option Conf
  | .blk => none
  | .blkConf c => some c
  | .conf c => some c

/-- `confirmBlock`: needs the block and a confirmation in the pool; the chain checks the context. -/
def tryConnect (arbs : List Arb) (st : PCState) : PCState :=
  if st.inPool && !st.connected then
    match st.cached with
    | some (_, c) => if context arbs c = none then { st with connected := true } else st
    | none => st
  else st

/-- `appendConfirm`. -/
def appendConf (arbs : List Arb) (st : PCState) (i : Nat) (c : Conf) : PCState :=
  if sanity c = none then tryConnect arbs { st with cached := some (i, c) } else st

def chainStep (dpos : Bool) (arbs : List Arb) (st : PCState) (i : Nat) : CStep → PCState
  | .blk =>
    if dpos then (if st.inPool then st else tryConnect arbs { st with inPool := true })
    else { st with connected := true }
  | .blkConf c =>
    if dpos then appendConf arbs { st with inPool := true } i c
    else { st with connected := true }
  | .conf c =>
    if dpos then appendConf arbs st i c
    else (if sanity c = none then { st with cached := some (i, c) } else st)

def chainRun (dpos : Bool) (arbs : List Arb) : PCState → Nat → List CStep → List PCState
  | _, _, [] => []
  | st, i, x :: xs =>
    let st' := chainStep dpos arbs st i x
    st' :: chainRun dpos arbs st' (i + 1) xs

def chainFinal (dpos : Bool) (arbs : List Arb) : PCState → Nat → List CStep → PCState
  | st, _, [] => st
  | st, i, x :: xs => chainFinal dpos arbs (chainStep dpos arbs st i x) (i + 1) xs

end ElaVerif.Confirm
