/-
  `State.tryUpdateLastIrreversibleHeight` and the rollback of its history entries (core Lean only).

  The assignments sit in `History.Append(height, execute, rollback)` closures which run when the height
  is committed, so every condition of the function reads the state *before* any closure ran; the
  `ori…` values the rollback closures restore are captured at function entry as well.
  Heights are uint32: subtractions wrap.
-/
namespace ElaVerif.Irr

structure Irr where
  lih : Nat
  dposStart : Nat
  dposWork : Nat
  dpos : Bool
deriving DecidableEq, Repr

def sub32 (a b : Nat) : Nat := (a + 2 ^ 32 - b % 2 ^ 32) % 2 ^ 32

/-- which closures one call appended -/
inductive Entry
  | none
  /-- first branch: both fields restored on rollback -/
  | init
  /-- hand-over and/or advance: only `DPOSStartHeight` is restored on rollback -/
  | start
deriving DecidableEq, Repr

/-- `if s.DPOSWorkHeight != 0 && height == s.DPOSWorkHeight+1` -/
def isHandOver (st : Irr) (height : Nat) : Bool := st.dposWork != 0 && height == st.dposWork + 1
/-- `if height-s.DPOSStartHeight >= IrreversibleHeight` (uint32 subtraction) -/
def isAdvance (st : Irr) (height : Nat) : Bool := decide (sub32 height st.dposStart ≥ 6)

/-- the closures of the DPoS branch, run in order, for conditions decided beforehand -/
def applyDpos (st : Irr) (height : Nat) (ho adv : Bool) : Irr :=
  let st1 := if ho then { st with dposStart := height } else st
  if adv then { st1 with dposStart := (st1.dposStart + 1) % 2 ^ 32, lih := (st1.dposStart + 1) % 2 ^ 32 } else st1

def tryUpdateE (revertStart : Nat) (st : Irr) (height : Nat) : Irr × Entry :=
  if height < revertStart then (st, .none)
  else if st.lih = 0 then ({ st with lih := sub32 height 6, dposStart := sub32 height 6 }, .init)
  else if st.dpos then
    (applyDpos st height (isHandOver st height) (isAdvance st height),
      if isHandOver st height || isAdvance st height then .start else .none)
  else (st, .none)

def tryUpdate (revertStart : Nat) (st : Irr) (height : Nat) : Irr := (tryUpdateE revertStart st height).1

/-- one committed height: what to restore -/
structure Rec where
  height : Nat
  entry : Entry
  oriLih : Nat
  oriStart : Nat
deriving Repr

structure Hist where
  st : Irr
  recs : List Rec := []     -- most recent first
deriving Repr

def step (rs : Nat) (h : Hist) (height : Nat) : Hist :=
  let r := tryUpdateE rs h.st height
  { st := r.1, recs := { height := height, entry := r.2, oriLih := h.st.lih, oriStart := h.st.dposStart } :: h.recs }

def undo (st : Irr) (r : Rec) : Irr :=
  match r.entry with
  | .none => st
  | .init => { st with lih := r.oriLih, dposStart := r.oriStart }
  | .start => { st with dposStart := r.oriStart }

/-- `History.RollbackTo(height)`: entries above `height` are rolled back, most recent first -/
def rollbackTo (h : Hist) (height : Nat) : Hist :=
  { st := (h.recs.filter (·.height > height)).foldl undo h.st, recs := h.recs.filter (·.height ≤ height) }

/-- restart from a checkpoint: the key frame (all four fields) is serialised and read back, the History is
    not part of a checkpoint -/
def reload (h : Hist) : Hist := { st := h.st, recs := [] }

end ElaVerif.Irr
