/-!
# Model of `utils/history.go` (height-indexed change history)

Core Lean only.  The model is generic in the state type `σ`: a change is a pair
of functions `σ → σ` (the Go closures `execute` / `rollback`, which mutate state
owned by the caller).  Every function below follows the Go function of the same
name branch by branch, including

* the **forward** iteration of `HeightChanges.rollback`,
* the index arithmetic of `Commit` / `SeekTo` (indices counted from the *end* of
  `changes`, `uint32` subtraction that wraps, `int` loop variables with the
  `i >= 0 && i < length` guard),
* the two `panic`s of `Append` and the index-out-of-range panic `SeekTo` runs
  into when `seekHeight - height > len(changes)` (the partial effects performed
  before the panic are kept, as in Go),
* temporary changes (`height == 0`), executed by `Commit`, undone by the next
  `Append`/`RollbackTo`, dropped by `RollbackSeekTo`.

Used by C20 (this machine itself), C21 and C22 (DPoS / CR state on top of it).
-/
namespace ElaVerif.History

/-- `change` of history.go: two closures over the caller's state. -/
structure Change (σ : Type) where
  exec : σ → σ
  undo : σ → σ

/-- `HeightChanges`. -/
structure HeightChanges (σ : Type) where
  height : Nat
  changes : List (Change σ)

variable {σ : Type}

/-- `for _, change := range changes { change.execute() }` -/
def applyExec (cs : List (Change σ)) (s : σ) : σ := cs.foldl (fun s c => c.exec s) s
/-- `for _, change := range changes { change.rollback() }` — forward order, as in Go. -/
def applyUndo (cs : List (Change σ)) (s : σ) : σ := cs.foldl (fun s c => c.undo s) s

def HeightChanges.commit (hc : HeightChanges σ) (s : σ) : σ := applyExec hc.changes s
def HeightChanges.rollback (hc : HeightChanges σ) (s : σ) : σ := applyUndo hc.changes s

/-- commit a run of entries in index order -/
def commitAll (hcs : List (HeightChanges σ)) (s : σ) : σ := hcs.foldl (fun s hc => hc.commit s) s
/-- roll back a run of entries from the highest index down -/
def rollbackAllRev (hcs : List (HeightChanges σ)) (s : σ) : σ :=
  hcs.reverse.foldl (fun s hc => hc.rollback s) s

/-- `History`. `capacity` is a non-negative Go `int` (`make` panics otherwise). -/
structure History (σ : Type) where
  capacity : Nat
  height : Nat := 0
  changes : List (HeightChanges σ) := []
  cached : Option (HeightChanges σ) := none
  temp : List (Change σ) := []
  seekHeight : Nat := 0

def newHistory (cap : Nat) : History σ := { capacity := cap }

inductive Res | ok | err | panic
  deriving DecidableEq, Repr

/-- `uint32` subtraction. -/
def sub32 (a b : Nat) : Nat := (a % 4294967296 + 4294967296 - b % 4294967296) % 4294967296

/-- `len(holdHeight)`: number of distinct heights among the entries. -/
def distinctCount : List Nat → Nat
  | [] => 0
  | x :: xs => if xs.contains x then distinctCount xs else distinctCount xs + 1

def heights (hcs : List (HeightChanges σ)) : List Nat := hcs.map (·.height)

/-- `lastHeightChangesCount`: entries whose height equals the first entry's height. -/
def firstHeightCount (hcs : List (HeightChanges σ)) : Nat :=
  match hcs with
  | [] => 0
  | c :: _ => hcs.countP (fun x => x.height == c.height)

/-- `History.Append` -/
def append (H : History σ) (s : σ) (height : Nat) (c : Change σ) : Res × History σ × σ :=
  if height = 0 then
    (.ok, { H with temp := H.temp ++ [c] }, s)
  else
    -- rollback and reset tempChanges when next block comes
    let s1 := if H.temp.isEmpty then s else applyUndo H.temp s
    let H1 := { H with temp := [] }
    match H1.cached with
    | none =>
      if H1.height ≠ 0 ∧ height < H1.height then (.panic, H1, s1)
      else (.ok, { H1 with cached := some ⟨height, [c]⟩ }, s1)
    | some hc =>
      if height ≠ hc.height then (.panic, H1, s1)
      else (.ok, { H1 with cached := some ⟨hc.height, hc.changes ++ [c]⟩ }, s1)

/-- `History.Commit` -/
def commit (H : History σ) (s : σ) (height : Nat) : History σ × σ :=
  if ¬ H.temp.isEmpty then
    (H, applyExec H.temp s)
  else
    let seek := sub32 H.height H.seekHeight
    let length := H.changes.length
    -- for i := length - int(seek); i >= 0 && i < length; i++ { changes[i].commit() }
    let s1 := if seek ≤ length then commitAll (H.changes.drop (length - seek)) s else s
    let changes1 :=
      if distinctCount (heights H.changes) ≥ H.capacity then H.changes.drop (firstHeightCount H.changes)
      else H.changes
    let hc := match H.cached with
      | some hc => hc
      | none => ⟨height, []⟩
    let s2 := hc.commit s1
    ({ H with height := height, seekHeight := height, changes := changes1 ++ [hc], cached := none }, s2)

/-- `History.SeekTo` -/
def seekTo (H : History σ) (s : σ) (height : Nat) : Res × History σ × σ :=
  let trueChange := distinctCount (heights H.changes)
  let limitHeight := sub32 H.height trueChange
  if height < limitHeight then (.err, H, s)
  else
    let length := H.changes.length
    if height ≤ H.seekHeight then
      let seek := H.seekHeight - height
      if seek ≤ length then
        (.ok, { H with seekHeight := height }, rollbackAllRev (H.changes.drop (length - seek)) s)
      else
        -- i runs down to -1: every entry is rolled back, then `changes[-1]` panics
        (.panic, H, rollbackAllRev H.changes s)
    else
      let fwd := height - H.seekHeight
      let s1 := if fwd ≤ length then commitAll (H.changes.drop (length - fwd)) s else s
      (.ok, { H with seekHeight := height }, s1)

/-- `History.RollbackSeekTo` -/
def rollbackSeekTo (H : History σ) (s : σ) (height : Nat) : History σ × σ :=
  if height ≥ H.height then (H, s)
  else
    ({ H with temp := [], changes := H.changes.takeWhile (fun hc => hc.height ≤ height), height := height }, s)

/-- `History.RollbackTo` (always returns nil in Go). -/
def rollbackTo (H : History σ) (s : σ) (height : Nat) : History σ × σ :=
  if height ≥ H.height then (H, s)
  else
    let s1 := if H.temp.isEmpty then s else applyUndo H.temp s
    let s2 := H.changes.reverse.foldl (fun s hc => if hc.height > height then hc.rollback s else s) s1
    ({ H with temp := [], changes := H.changes.takeWhile (fun hc => hc.height ≤ height), height := height }, s2)

/-! ## Block-level view: `Append` of every change of a block, then `Commit` -/

/-- Append all changes of one block (same non-zero height) in order. -/
def appendAll (H : History σ) (s : σ) (height : Nat) : List (Change σ) → Res × History σ × σ
  | [] => (.ok, H, s)
  | c :: cs =>
    match append H s height c with
    | (.ok, H1, s1) => appendAll H1 s1 height cs
    | r => r

/-- What the node does per block: the changes are appended, then committed. -/
def processBlock (H : History σ) (s : σ) (b : HeightChanges σ) : Res × History σ × σ :=
  match appendAll H s b.height b.changes with
  | (.ok, H1, s1) => let (H2, s2) := commit H1 s1 b.height; (.ok, H2, s2)
  | r => r

/-! ## Specification side -/

/-- The state produced by the changes of a list of blocks, applied in order. -/
def run (blocks : List (HeightChanges σ)) (s0 : σ) : σ := commitAll blocks s0

/-- blocks at or below a height -/
def upTo (h : Nat) (blocks : List (HeightChanges σ)) : List (HeightChanges σ) :=
  blocks.filter (fun b => b.height ≤ h)

/-! ## Concrete instance used by the driver and by the class / witness theorems:
    a map `Nat → Int` plus the capture cells of "capture at execute time" closures. -/
namespace IntMap

structure St where
  m : Nat → Int := fun _ => 0
  cell : Nat → Int := fun _ => 0

def upd (f : Nat → Int) (k : Nat) (v : Int) : Nat → Int := fun j => if j = k then v else f j

/-- `m[k] = v`, undone by `m[k] = old` where `old` was read when the change was appended. -/
def setA (k : Nat) (v old : Int) : Change St :=
  { exec := fun s => { s with m := upd s.m k v }, undo := fun s => { s with m := upd s.m k old } }

/-- `m[k] = v`, undone by restoring the value the execute closure saw (captured in cell `id`). -/
def setE (k : Nat) (v : Int) (id : Nat) : Change St :=
  { exec := fun s => { m := upd s.m k v, cell := upd s.cell id (s.m k) },
    undo := fun s => { s with m := upd s.m k (s.cell id) } }

/-- `m[k] += d`, undone by `m[k] -= d`. -/
def add (k : Nat) (d : Int) : Change St :=
  { exec := fun s => { s with m := upd s.m k (s.m k + d) }, undo := fun s => { s with m := upd s.m k (s.m k - d) } }

/-! The op language of the C20 correspondence (the driver parses lines into `IOp`). -/

inductive Kind | seta | sete | add
  deriving DecidableEq, Repr

inductive IOp
  | app (h : Nat) (kind : Kind) (k : Nat) (v : Int)
  | commit (h : Nat)
  | seek (h : Nat)
  | rbseek (h : Nat)
  | rollback (h : Nat)
  deriving Repr

/-- the history, the caller's state, the next capture-cell id, the result of the last op -/
structure Sys where
  H : History St
  s : St := {}
  next : Nat := 0
  last : Res := .ok

def Sys.init (cap : Nat) : Sys := { H := newHistory cap }

def stepOp (d : Sys) : IOp → Sys
  | .app h kind k v =>
    let c : Change St := match kind with
      | .seta => setA k v (d.s.m k)     -- `old` is read by the caller when appending
      | .sete => setE k v d.next
      | .add => add k v
    let (r, H', s') := append d.H d.s h c
    ⟨H', s', d.next + 1, r⟩
  | .commit h => let (H', s') := commit d.H d.s h; ⟨H', s', d.next, .ok⟩
  | .seek h => let (r, H', s') := seekTo d.H d.s h; ⟨H', s', d.next, r⟩
  | .rbseek h => let (H', s') := rollbackSeekTo d.H d.s h; ⟨H', s', d.next, .ok⟩
  | .rollback h => let (H', s') := rollbackTo d.H d.s h; ⟨H', s', d.next, .ok⟩

def runOps (cap : Nat) (ops : List IOp) : Sys := ops.foldl stepOp (Sys.init cap)

end IntMap

end ElaVerif.History
