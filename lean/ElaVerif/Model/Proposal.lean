/-
  C29 — abstract machine mirroring the CR proposal budget accounting of
  cr/state/proposalmanager.go + committee.go / committeeaction.go and the context checks of
  core/transaction/{crcproposal, crcproposaltracking, crcproposalwithdraw}*.go.

  A proposal record keeps its budget stages with two flags per stage: `w` (stage is in
  `WithdrawableBudgets`) and `wn` (stage is in `WithdrawnBudgets`); the Go maps are keyed by
  stage and hold a copy of the budget amount, the registration check makes stages distinct.
  `paid` is the sum of the amounts recorded in `WithdrawableTxInfo` for the proposal (what the
  committee will really pay).  Committee: `stage` = CRCCurrentStageAmount, `used` =
  CRCCommitteeUsedAmount, `used0` = CommitteeUsedAmount.

  As in C28 a block is processed in two phases (`History.Append` queues closures,
  `History.Commit` runs them): decisions read the PRE-BLOCK proposal (`p0`), the updates run
  in order.  `updateProposals` runs after the commit, on the updated state.
  `Fixed64` is modelled as `Int`.  Core Lean only.
-/
import ElaVerif.Model.Deposit
namespace ElaVerif.Proposal
open ElaVerif.Deposit (AMap get upd mapKV)

inductive BType | imprest | normal | final
  deriving DecidableEq, Repr

structure BEntry where
  typ    : BType
  stage  : Nat
  amount : Int
  w      : Bool := false
  wn     : Bool := false
  deriving DecidableEq, Repr

inductive Status
  | registered | crAgreed | voterAgreed | finished | crCanceled | voterCanceled | terminated | aborted
  deriving DecidableEq, Repr

structure Prop' where
  budgets : List BEntry
  status  : Status
  paid    : Int
  votes   : List (Nat × Bool)
  regH    : Nat
  voteH   : Nat
  reject  : Int
  deriving DecidableEq, Repr

structure Params where
  crPeriod  : Nat
  pubPeriod : Nat
  agree     : Nat
  wdFee     : Int
  rejectThreshold : Int
  minFee : Int            -- MinTransactionFee
  deriving DecidableEq, Repr

structure State where
  stage : Int
  used  : Int
  used0 : Int
  props : AMap Prop'
  deriving DecidableEq, Repr

inductive TKind | progress | terminated | finalized | common | rejected
  deriving DecidableEq, Repr

inductive Tx
  | propose (id : Nat) (budgets : List BEntry)
  | review (id m : Nat) (approve : Bool)
  | rejvotes (id : Nat) (amount : Int)
  | track (id : Nat) (k : TKind) (stage : Nat)
  | withdraw (id : Nat) (amount : Int)
  -- CRCProposalWithdraw payload version 0: spends committee UTXOs worth `inp`, pays `out0` to the recipient,
  -- optional second output `(value, goes back to the committee address)`
  | withdraw0 (id : Nat) (inp out0 : Int) (out1 : Option (Int × Bool))
  deriving DecidableEq, Repr

def total (bs : List BEntry) : Int := bs.foldr (fun b acc => b.amount + acc) 0

/-- `availableWithdrawalAmount`: withdrawable and not yet withdrawn. -/
def avail (bs : List BEntry) : Int :=
  bs.foldr (fun b acc => (if b.w ∧ ¬ b.wn then b.amount else 0) + acc) 0

def withdrawnSum (bs : List BEntry) : Int :=
  bs.foldr (fun b acc => (if b.wn then b.amount else 0) + acc) 0

def insByStage (b : BEntry) : List BEntry → List BEntry
  | [] => [b]
  | c :: t => if b.stage < c.stage then b :: c :: t else c :: insByStage b t

def sortByStage (bs : List BEntry) : List BEntry := bs.foldr insByStage []

/-- largest `Fixed64` (int64) value -/
def maxI64 : Int := 9223372036854775807

/-- the per-budget loop of `checkNormalOrELIPProposal`; `sum` is the running Fixed64 total, a total
    that does not fit is rejected (the overflow guard of the `fix:` commit for C29) -/
def budgetLoop : Nat → Int → List BEntry → Option String
  | _, _, [] => none
  | st, sum, b :: t =>
    if b.stage ≠ st then some "shape" else if b.amount < 0 then some "negamount"
    else if sum + b.amount > maxI64 then some "overflow"
    else budgetLoop (st + 1) (sum + b.amount) t

def count (p : BEntry → Bool) (bs : List BEntry) : Nat := (bs.filter p).length

/-- budget part of `CRCProposalTransaction.SpecialContextCheck` for a Normal proposal;
    `acc` = proposalsUsedAmount of the block so far. -/
def checkPropose (s0 : State) (acc : Int) (bs0 : List BEntry) : Option String :=
  match sortByStage bs0 with
  | [] => some "shape"
  | b0 :: rest =>
    let bs := b0 :: rest
    if b0.typ = .imprest ∧ b0.stage ≠ 0 then some "shape"
    else if b0.typ ≠ .imprest ∧ b0.stage ≠ 1 then some "shape"
    else if (bs.getLast?.map (·.typ)) ≠ some .final then some "shape"
    else match budgetLoop b0.stage 0 bs with
      | some e => some e
      | none =>
        if count (·.typ = .imprest) bs > 1 then some "shape"
        else if count (·.typ = .final) bs ≠ 1 then some "shape"
        else if total bs > Int.tdiv ((s0.stage - s0.used0) * 10) 100 then some "over10"
        else if total bs > s0.stage - s0.used - acc then some "overbal"
        else if total bs < 0 then some "negsum"
        else none

def finalStage (bs : List BEntry) : Nat :=
  bs.foldl (fun acc b => if b.typ = .final then b.stage else acc) 0

def checkTrack (p : Prop') (k : TKind) (stage : Nat) : Option String :=
  if p.status ≠ .voterAgreed then some "status" else
  match k with
  | .progress =>
    if stage ≥ p.budgets.length then some "stage"
    else if p.budgets.any (fun b => b.stage = stage ∧ b.w) then some "stage"
    else if p.budgets.any (fun b => b.stage = stage ∧ (b.typ = .imprest ∨ b.typ = .final)) then some "stage"
    else none
  | .terminated => if stage ≠ 0 then some "stage" else none
  | .finalized => if stage ≠ finalStage p.budgets then some "stage" else none
  | .common => if stage ≠ 0 then some "stage" else none
  | .rejected =>
    if stage ≥ p.budgets.length then some "stage"
    else if p.budgets.any (fun b => b.stage = stage ∧ b.w) then some "stage"
    else none

def checkWithdraw (P : Params) (p : Prop') (amount : Int) : Option String :=
  if p.status ≠ .voterAgreed ∧ p.status ≠ .finished ∧ p.status ≠ .aborted ∧ p.status ≠ .terminated then some "status"
  else if avail p.budgets = 0 then some "nothing"
  else if amount ≠ avail p.budgets then some "amount"
  else if amount ≤ P.wdFee then some "small"
  else none

def out1Val : Option (Int × Bool) → Int
  | some (v, _) => v
  | none => 0

/-- the part of the second output that returns to the committee address -/
def out1Back : Option (Int × Bool) → Int
  | some (v, true) => v
  | _ => 0

/-- payload version 0: the transaction itself moves the committee's coins -/
def checkWithdraw0 (P : Params) (p : Prop') (inp out0 : Int) (out1 : Option (Int × Bool)) : Option String :=
  if p.status ≠ .voterAgreed ∧ p.status ≠ .finished ∧ p.status ≠ .aborted ∧ p.status ≠ .terminated then some "status"
  else if inp - out0 - out1Val out1 < P.minFee then some "fee"
  else if avail p.budgets = 0 then some "nothing"
  else if (match out1 with | some (_, false) => true | _ => false) then some "out1"
  else if out0 + (inp - out0 - out1Val out1) ≠ avail p.budgets then some "amount"
  else none

/-- `none` = accepted. -/
def check (P : Params) (s0 : State) (acc : Int) : Tx → Option String
  | .propose _ bs => checkPropose s0 acc bs
  | .review _ _ _ => none
  | .rejvotes _ _ => none
  | .track id k stage => match get id s0.props with
    | none => some "noprop"
    | some p => checkTrack p k stage
  | .withdraw id amount => match get id s0.props with
    | none => some "noprop"
    | some p => checkWithdraw P p amount
  | .withdraw0 id inp out0 out1 => match get id s0.props with
    | none => some "noprop"
    | some p => checkWithdraw0 P p inp out0 out1

/-! ## updates -/

def setW (stage : Nat) (bs : List BEntry) : List BEntry :=
  bs.map (fun b => if b.stage = stage then { b with w := true } else b)

/-- first budget of the given type becomes withdrawable (`break` after the first) -/
def setWFirst (t : BType) : List BEntry → List BEntry
  | [] => []
  | b :: r => if b.typ = t then { b with w := true } :: r else b :: setWFirst t r

/-- stages that were withdrawable and not withdrawn in `p0` -/
def withdrawing (bs0 : List BEntry) : List Nat :=
  (bs0.filter (fun b => b.w ∧ ¬ b.wn)).map (·.stage)

def markWn (stages : List Nat) (bs : List BEntry) : List BEntry :=
  bs.map (fun b => if b.stage ∈ stages then { b with wn := true } else b)

/-- amount released by a tracking, computed on the pre-block proposal -/
def unusedOf (p0 : Prop') : TKind → Int
  | .progress => 0
  | .terminated =>
    if p0.status = .terminated ∨ p0.status = .finished then 0
    else (p0.budgets.filter (fun b => ¬ b.w)).foldr (fun b acc => b.amount + acc) 0
  | .finalized => (p0.budgets.filter (fun b => b.typ ≠ .final ∧ ¬ b.w)).foldr (fun b acc => b.amount + acc) 0
  | .common => 0
  | .rejected => 0

def setVote (m : Nat) (a : Bool) : List (Nat × Bool) → List (Nat × Bool)
  | [] => [(m, a)]
  | (m', a') :: t => if m' = m then (m, a) :: t else (m', a') :: setVote m a t

def propStep (_h : Nat) (p0 : Prop') : Tx → Prop' → Prop'
  | .review _ m a, p => { p with votes := setVote m a p.votes }
  | .rejvotes _ amt, p => { p with reject := amt }
  | .track _ k stage, p =>
    match k with
    | .progress => { p with budgets := setW stage p.budgets }
    | .terminated =>
      if p0.status = .terminated ∨ p0.status = .finished then p else { p with status := .terminated }
    | .finalized => { p with status := .finished, budgets := setWFirst .final p.budgets }
    | .common => p      -- only TrackingCount
    | .rejected => p    -- only BudgetsStatus
  | .withdraw _ amount, p => { p with budgets := markWn (withdrawing p0.budgets) p.budgets, paid := p.paid + amount }
  | .withdraw0 _ inp _ out1, p =>
    -- what leaves the committee address for this proposal: the inputs minus what returns to it
    { p with budgets := markWn (withdrawing p0.budgets) p.budgets, paid := p.paid + (inp - out1Back out1) }
  | _, p => p

def applyTx (h : Nat) (s0 s : State) (tx : Tx) : State :=
  match tx with
  | .propose id bs =>
    { s with used := s.used + total bs,
             props := match get id s.props with
               | some _ => s.props
               | none => (id, { budgets := bs, status := .registered, paid := 0, votes := [], regH := h, voteH := 0, reject := 0 }) :: s.props }
  | .review id _ _ | .rejvotes id _ | .withdraw id _ | .withdraw0 id _ _ _ =>
    match get id s0.props with
    | none => s
    | some p0 => { s with props := upd id (propStep h p0 tx) s.props }
  | .track id k _ =>
    match get id s0.props with
    | none => s
    | some p0 => { s with props := upd id (propStep h p0 tx) s.props, used := s.used - unusedOf p0 k }

/-! ## `updateProposals` (after the commit, on the updated state) -/

def agreed (p : Prop') : Nat := (p.votes.filter (·.2)).length

/-- returns the updated proposal and the amount it releases -/
def updateProp (P : Params) (h : Nat) (p : Prop') : Prop' × Int :=
  match p.status with
  | .registered =>
    if p.regH + P.crPeriod ≤ h then
      if agreed p ≥ P.agree then ({ p with status := .crAgreed, voteH := h }, 0)
      else ({ p with status := .crCanceled }, total p.budgets)
    else (p, 0)
  | .crAgreed =>
    if p.voteH + P.pubPeriod ≤ h then
      if p.reject ≥ P.rejectThreshold then ({ p with status := .voterCanceled }, total p.budgets)
      else ({ p with status := .voterAgreed, budgets := setWFirst .imprest p.budgets }, 0)
    else (p, 0)
  | _ => (p, 0)

def endBlock (P : Params) (h : Nat) (s : State) : State :=
  let released := s.props.foldr (fun kv acc => (updateProp P h kv.2).2 + acc) 0
  { s with props := mapKV (fun _ p => (updateProp P h p).1) s.props, used := s.used - released }

/-! ## modelled for the correspondence, not covered by the theorems

`resetUsed`: what `resetCRCCommitteeUsedAmount` (run by a successful committee change) makes of the used amount.
`closePhase`: `dealProposal` for CloseProposal proposals that pass the public vote in `updateProposals`. -/

/-- budgets still to be paid: for a live proposal everything not withdrawn, for a terminated / finished one what is
    withdrawable and not withdrawn, nothing for a cancelled / aborted one. -/
def unpaid (p : Prop') : Int :=
  match p.status with
  | .crCanceled | .voterCanceled | .aborted => 0
  | .terminated | .finished =>
    p.budgets.foldr (fun b acc => (if b.w ∧ ¬ b.wn then b.amount else 0) + acc) 0
  | _ => p.budgets.foldr (fun b acc => (if b.wn then 0 else b.amount) + acc) 0

def resetUsed (s : State) : Int := s.props.foldr (fun kv acc => unpaid kv.2 + acc) 0

/-- close proposals (no budgets) that have just been accepted by the voters are Finished.  `dealProposal` looks at
    the target's status while `updateProposals` is still iterating — the termination it queues runs only at the
    commit — so every close proposal of the pass that finds its target neither Terminated nor Finished releases the
    target's not-yet-withdrawable budgets (two close proposals of one target in one pass release twice); the target
    ends Terminated. -/
def closePhase (s : State) (closing : List (Nat × Nat)) : State :=
  let unusedOfTarget (t : Nat) : Int := match get t s.props with
    | none => 0
    | some p => if p.status = .terminated ∨ p.status = .finished then 0
                else (p.budgets.filter (fun b => ¬ b.w)).foldr (fun b acc => b.amount + acc) 0
  let released := closing.foldr (fun ct acc => unusedOfTarget ct.2 + acc) 0
  let s1 := closing.foldl (fun st ct => { st with props := upd ct.1 (fun p => { p with status := .finished }) st.props }) s
  let s2 := closing.foldl (fun st ct => { st with props := upd ct.2 (fun p =>
      if p.status = .terminated ∨ p.status = .finished then p else { p with status := .terminated }) st.props }) s1
  { s2 with used := s2.used - released }

/-! ## real payment of the payload-v1 withdrawals (`CRCProposalRealWithdraw`)

Withdrawals are numbered in the order they were accepted; `pending` = the numbers still in `WithdrawableTxInfo`. -/

/-- the per-hash loop of `CRCProposalRealWithdrawTransaction.SpecialContextCheck`: every listed withdrawal must be
    pending (then recipient and amount are those recorded) and must not have been listed before (`seen`). -/
def checkRealWd (pending : List Nat) : List Nat → List Nat → Option String
  | _, [] => none
  | seen, i :: t =>
    if i ∉ pending then some "unknown"
    else if i ∈ seen then some "dup"
    else checkRealWd pending (i :: seen) t

/-- `processCRCRealWithdraw`: the listed withdrawals leave `WithdrawableTxInfo` -/
def applyRealWd (pending l : List Nat) : List Nat := pending.filter (fun i => i ∉ l)

end ElaVerif.Proposal
