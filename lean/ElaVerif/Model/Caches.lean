/-
  C15 — executable models of the four caches in front of persistent data.

  A. `UTXOCache` (blockchain/utxocache.go): reference cache (FIFO list + map) and tx cache
     (map with arbitrary-victim eviction) over the transaction store.
  B. `indexers.TxCache` (blockchain/indexers/txcache.go) with `trim`, as `UnspentIndex` uses it.
  C. decoded block cache of `ChainStoreFFLDB.GetBlock` (FIFO of 2 + map).
  D. serialized block send cache of `p2p.WriteMessage` (FIFO of 2 + map hash → confirmed? → bytes).

  Core Lean only.  Stores are association lists (first match wins); eviction victims that Go picks
  by map iteration are an explicit argument (`victims`), theorems quantify over them.
-/
namespace ElaVerif.Caches

/-- delete a key from a map (association list) -/
def dropKey {κ α : Type} [BEq κ] (l : List (κ × α)) (k : κ) : List (κ × α) := l.filter (fun p => p.1 != k)

/-- map assignment -/
def setKey {κ α : Type} [BEq κ] (l : List (κ × α)) (k : κ) (v : α) : List (κ × α) := (k, v) :: dropKey l k

/-! ## A. UTXOCache -/

/-- an input: referenced tx, output index, sequence (the Go map key is the whole `Input`) -/
structure In where
  tx : Nat
  idx : Nat
  seq : Nat
deriving DecidableEq, Repr

/-- transaction store: tx id ↦ outputs -/
abbrev TxDb := List (Nat × List Nat)

structure Utxo where
  inputs : List In                 -- `Inputs` (container/list), front first
  ref : List (In × Nat)            -- `Reference`
  txc : List (Nat × List Nat)      -- `TxCache`
  max : Nat                        -- `MaxReferenceSize`
deriving Repr

def Utxo.empty (max : Nat) : Utxo := ⟨[], [], [], max⟩

/-- remove the front of the FIFO together with its map entry -/
def evictFront (s : Utxo) : Utxo :=
  match s.inputs with
  | [] => s
  | e :: rest => { s with inputs := rest, ref := dropKey s.ref e }

/-- `InsertReference`: the eviction loop removes exactly the front element (after
    `Inputs.Remove(e)`, `e.Next()` is nil), when the list is at or over the limit. -/
def insertReference (s : Utxo) (k : In) (v : Nat) : Utxo :=
  let s1 := if s.inputs.length ≥ s.max then evictFront s else s
  { s1 with inputs := s1.inputs ++ [k], ref := setKey s1.ref k v }

/-- delete arbitrary keys until at most `n` entries are left: the next victim is the head of
    `victims` if it is a key of the map, else the first key (Go picks by map iteration). -/
def evictTo {α : Type} (n : Nat) : Nat → List Nat → List (Nat × α) → List (Nat × α)
  | 0, _, l => l
  | fuel + 1, vs, l =>
    if l.length ≤ n then l else
    match l with
    | [] => []
    | (k0, _) :: _ =>
      let v := match vs with
        | v :: _ => if (l.lookup v).isSome then v else k0
        | [] => k0
      evictTo n fuel vs.tail (dropKey l v)

/-- `insertTransaction`: while over the limit delete arbitrary keys, then store. -/
def insertTransaction (s : Utxo) (victims : List Nat) (id : Nat) (tx : List Nat) : Utxo :=
  let txc := evictTo s.max s.txc.length victims s.txc
  { s with txc := setKey txc id tx }

/-- `getTransaction` -/
def getTransaction (db : TxDb) (s : Utxo) (victims : List Nat) (id : Nat) : Option (List Nat) × Utxo :=
  match s.txc.lookup id with
  | some tx => (some tx, s)
  | none =>
    match db.lookup id with
    | none => (none, s)
    | some tx => (some tx, insertTransaction s victims id tx)

inductive RefErr | notFound | range
deriving DecidableEq, Repr

/-- `GetTxReference` over the inputs of a transaction: the outputs in input order, or the error;
    the cache keeps what was inserted before the error. -/
def getTxReference (db : TxDb) (victims : List Nat) : Utxo → List In → Except RefErr (List Nat) × Utxo
  | s, [] => (.ok [], s)
  | s, k :: rest =>
    match s.ref.lookup k with
    | some v =>
      let r := getTxReference db victims s rest
      (r.1.map (v :: ·), r.2)
    | none =>
      match getTransaction db s victims k.tx with
      | (none, s1) => (.error .notFound, s1)
      | (some outs, s1) =>
        match outs[k.idx]? with
        | none => (.error .range, s1)
        | some v =>
          let r := getTxReference db victims (insertReference s1 k v) rest
          (r.1.map (v :: ·), r.2)

def cleanTxCache (s : Utxo) : Utxo := { s with txc := [] }
def cleanCache (s : Utxo) : Utxo := { s with inputs := [], ref := [], txc := [] }

/-- the uncached answer -/
def refSpec (db : TxDb) : List In → Except RefErr (List Nat)
  | [] => .ok []
  | k :: rest =>
    match db.lookup k.tx with
    | none => .error .notFound
    | some outs =>
      match outs[k.idx]? with
      | none => .error .range
      | some v => (refSpec db rest).map (v :: ·)

/-! ## B. indexed transaction cache -/

/-- tx index: hash ↦ (height, tx) -/
abbrev IdxDb := List (Nat × (Nat × Nat))

structure Idx where
  txns : List (Nat × (Nat × Nat))
  volume : Nat      -- params.TxCacheVolume
  interval : Nat    -- TrimmingInterval
  memoryFirst : Bool -- params.MemoryFirst: the cache is switched off (nothing stored, deleted or trimmed)
deriving Repr

/-- `setTxn` (`cacheable` = not MemoryFirst and at most 100 inputs) -/
def Idx.set (s : Idx) (cacheable : Bool) (h height tx : Nat) : Idx :=
  if s.memoryFirst then s else
  if cacheable then { s with txns := setKey s.txns h (height, tx) } else s

def Idx.delete (s : Idx) (h : Nat) : Idx :=
  if s.memoryFirst then s else { s with txns := dropKey s.txns h }

/-- `trim`: over `volume + interval` entries ⇒ delete arbitrary entries until `volume - 1`
    are left (the Go loop deletes `len - volume + 1`). -/
def Idx.trim (s : Idx) (victims : List Nat) : Idx :=
  if s.memoryFirst then s else
  if s.txns.length > s.volume + s.interval then
    { s with txns := evictTo (s.volume - 1) s.txns.length victims s.txns }
  else s

/-- `UnspentIndex.FetchTx` -/
def Idx.fetch (db : IdxDb) (s : Idx) (h : Nat) : Option (Nat × Nat) :=
  match s.txns.lookup h with
  | some v => some v
  | none => db.lookup h

/-- one transaction of a connected block: into the index, and into the cache if cacheable -/
def Idx.connectTx (height : Nat) (st : IdxDb × Idx) (t : Nat × Nat × Bool) : IdxDb × Idx :=
  (setKey st.1 t.1 (height, t.2.1), st.2.set t.2.2 t.1 height t.2.1)

/-- `ConnectBlock`: trim, cache every tx of the block, drop the fully spent ones; the index gets the
    block's transactions. -/
def Idx.connect (db : IdxDb) (s : Idx) (victims : List Nat) (height : Nat)
    (txs : List (Nat × Nat × Bool)) (spent : List Nat) : IdxDb × Idx :=
  let st := txs.foldl (Idx.connectTx height) (db, s.trim victims)
  (st.1, spent.foldl Idx.delete st.2)

/-- `DisconnectBlock`: the block's transactions leave the cache and the index -/
def Idx.disconnect (db : IdxDb) (s : Idx) (hashes : List Nat) : IdxDb × Idx :=
  (hashes.foldl dropKey db, hashes.foldl Idx.delete s)

/-! ### the unspent index driving the cache (`UnspentIndex.ConnectBlock` / `DisconnectBlock`) -/

/-- a block transaction as the unspent index sees it -/
structure BTx where
  h : Nat                    -- hash
  nout : Nat                 -- number of outputs
  cacheable : Bool           -- at most `MaxCacheInputsCountPerTransaction` inputs
  coinbase : Bool
  ins : List (Nat × Nat)     -- (referenced tx, output index)
deriving Repr

structure UIdx where
  txdb : IdxDb                       -- the tx index (hash ↦ height, tx)
  unspent : List (Nat × List Nat)    -- the unspent bucket
  cache : Idx
deriving Repr

/-- the local `unspents` map of `ConnectBlock` after walking the block -/
def connectLocal (unspent : List (Nat × List Nat)) (txs : List BTx) : List (Nat × List Nat) :=
  txs.foldl (fun loc t =>
    let loc := if t.nout = 0 then loc else setKey loc t.h ((loc.lookup t.h).getD [] ++ List.range t.nout)
    if t.coinbase then loc else
    t.ins.foldl (fun loc inp =>
      let cur := match loc.lookup inp.1 with
        | some v => v
        | none => (unspent.lookup inp.1).getD []
      setKey loc inp.1 (cur.erase inp.2)) loc) []

/-- `ConnectBlock` (blocks whose inputs reference existing unspent outputs): trim, cache every
    transaction, drop from the cache (and the bucket) the transactions that became fully spent —
    a transaction without outputs never enters the local map and stays cached. -/
def UIdx.connectBlock (u : UIdx) (victims : List Nat) (height : Nat) (txs : List BTx) : UIdx :=
  let loc := connectLocal u.unspent txs
  let spent := (loc.filter (fun p => p.2.isEmpty)).map (·.1)
  let r := Idx.connect u.txdb u.cache victims height (txs.map fun t => (t.h, t.h, t.cacheable)) spent
  { txdb := r.1, cache := r.2,
    unspent := loc.foldl (fun un p => if p.2.isEmpty then dropKey un p.1 else setKey un p.1 p.2) u.unspent }

/-- the local map of `DisconnectBlock` -/
def disconnectLocal (unspent : List (Nat × List Nat)) (txs : List BTx) : List (Nat × List Nat) × List (Nat × List Nat) :=
  txs.foldl (fun st t =>
    let un := if t.nout = 0 then st.2 else dropKey st.2 t.h
    if t.coinbase then (st.1, un) else
    (t.ins.foldl (fun loc inp =>
      let cur := match loc.lookup inp.1 with
        | some v => v
        | none => (un.lookup inp.1).getD []
      setKey loc inp.1 (cur ++ [inp.2])) st.1, un)) ([], unspent)

/-- `DisconnectBlock`: *every* transaction of the block leaves the cache (with or without outputs),
    the outputs it spent become unspent again. -/
def UIdx.disconnectBlock (u : UIdx) (txs : List BTx) : UIdx :=
  let st := disconnectLocal u.unspent txs
  let r := Idx.disconnect u.txdb u.cache (txs.map (·.h))
  { txdb := r.1, cache := r.2, unspent := st.1.foldl (fun un p => setKey un p.1 p.2) st.2 }

/-- `ChainStoreFFLDB.SaveBlock`, second database transaction: best state and block index, then the save
    processors, then the index manager.  The database part is atomic (a failing processor rolls it back);
    the indexed tx cache is **not** part of the transaction, so what matters is that the index manager —
    the only step that touches the cache — runs after every step that can fail. -/
def UIdx.saveBlock (u : UIdx) (victims : List Nat) (height : Nat) (txs : List BTx) (processorsOK : Bool) : UIdx :=
  if processorsOK then u.connectBlock victims height txs else u

/-- the same with the index manager *before* the processors: on a processor failure the database is rolled
    back but the cache keeps what `ConnectBlock` put into it -/
def UIdx.saveBlockIndexFirst (u : UIdx) (victims : List Nat) (height : Nat) (txs : List BTx) (processorsOK : Bool) : UIdx :=
  if processorsOK then u.connectBlock victims height txs
  else { u with cache := (u.connectBlock victims height txs).cache }

/-! ## C. decoded block cache -/

abbrev BlockDb := List (Nat × Nat)

structure BlockCache where
  fifo : List Nat
  map : List (Nat × Nat)
deriving Repr

def cacheSize := 2

/-- make room: with `BlocksCacheSize` hashes queued, drop the oldest and its map entry
    (`blockHashesCache[1:BlocksCacheSize]`) -/
def BlockCache.evict (s : BlockCache) : BlockCache :=
  if s.fifo.length ≥ cacheSize then
    { fifo := (s.fifo.drop 1).take (cacheSize - 1),
      map := match s.fifo.head? with
        | some old => dropKey s.map old
        | none => s.map }
  else s

/-- the insertion at the end of `GetBlock` (make room, queue the hash, store the block) — performed
    without looking whether the hash got cached meanwhile -/
def BlockCache.insert (s : BlockCache) (h b : Nat) : BlockCache :=
  { fifo := s.evict.fifo ++ [h], map := setKey s.evict.map h b }

/-- `GetBlock` -/
def getBlock (db : BlockDb) (s : BlockCache) (h : Nat) : Option Nat × BlockCache :=
  match s.map.lookup h with
  | some b => (some b, s)
  | none =>
    match db.lookup h with
    | none => (none, s)
    | some b => (some b, s.insert h b)

/-- two concurrent `GetBlock` calls for one hash that both miss: both insert -/
def getBlockRace (db : BlockDb) (s : BlockCache) (h : Nat) : Option Nat × BlockCache :=
  match s.map.lookup h with
  | some b => (some b, s)
  | none =>
    match db.lookup h with
    | none => (none, s)
    | some b => (some b, (s.insert h b).insert h b)

/-- `dbStoreBlock`: write once -/
def storeBlock (db : BlockDb) (h b : Nat) : BlockDb :=
  match db.lookup h with
  | some _ => db
  | none => (h, b) :: db

/-! ## D. send cache -/

structure SendCache where
  hashes : List Nat
  confirms : List Bool
  outer : List (Nat × List (Bool × Nat))
deriving Repr

def SendCache.empty : SendCache := ⟨[], [], []⟩

/-- `WriteMessage` for a block message `(hash, haveConfirm)` whose own serialization is `bytes`:
    the payload actually sent, and the new cache (code after the `fix:` commit — the outer entry
    goes away with its last variant). -/
def writeBlock (s : SendCache) (h : Nat) (c : Bool) (bytes : Nat) : Nat × SendCache :=
  match s.outer.lookup h with
  | some inner =>
    match inner.lookup c with
    | some b => (b, s)
    | none => (bytes, s)       -- falls through to the generic path, nothing is cached
  | none =>
    let s := if s.hashes.length ≥ cacheSize then
        match s.hashes.head?, s.confirms.head? with
        | some oh, some oc =>
          let inner := dropKey ((s.outer.lookup oh).getD []) oc
          let outer := dropKey s.outer oh
          { hashes := (s.hashes.drop 1).take (cacheSize - 1),
            confirms := (s.confirms.drop 1).take (cacheSize - 1),
            outer := if inner.isEmpty then outer else (oh, inner) :: outer }
        | _, _ => s
      else s
    (bytes, { hashes := s.hashes ++ [h], confirms := s.confirms ++ [c],
              outer := (h, [(c, bytes)]) :: s.outer })

end ElaVerif.Caches
