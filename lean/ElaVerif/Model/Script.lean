/-
  Model of core/contract/common.go: IsStandard, IsSchnorr, IsMultiSig.

  Every Go index expression `code[i]` / slice expression `code[i:]` is an explicit
  bounds-checked access: an out-of-range access yields the value `R.panic`, which
  is the model's image of the Go run-time panic.  Nothing is totalised silently.

  `isMultiSig guarded`:
    guarded = false  the function as it was before the `fix:` commit
                     (two unguarded reads after the key loop),
    guarded = true   the function in the tree now (length guards before both reads).

  Core Lean only.
-/
namespace ElaVerif.Script

/-- result of a Go computation that may panic -/
inductive R (α : Type) where
  | val (a : α)
  | panic
  deriving DecidableEq, Repr

namespace R
@[inline] def bind {α β : Type} (x : R α) (f : α → R β) : R β :=
  match x with
  | .val a => f a
  | .panic => .panic
instance : Monad R where
  pure := .val
  bind := R.bind

@[simp] theorem bind_val {α β} (a : α) (f : α → R β) : (R.val a >>= f) = f a := rfl
@[simp] theorem bind_panic {α β} (f : α → R β) : ((R.panic : R α) >>= f) = .panic := rfl
@[simp] theorem pure_eq {α} (a : α) : (pure a : R α) = .val a := rfl
end R

abbrev Bytes := List UInt8

instance {ε α : Type} [DecidableEq ε] [DecidableEq α] : DecidableEq (Except ε α) := fun a b =>
  match a, b with
  | .ok x, .ok y => if h : x = y then isTrue (by rw [h]) else isFalse (by intro h'; cases h'; exact h rfl)
  | .error x, .error y => if h : x = y then isTrue (by rw [h]) else isFalse (by intro h'; cases h'; exact h rfl)
  | .ok _, .error _ => isFalse (by intro h; cases h)
  | .error _, .ok _ => isFalse (by intro h; cases h)

/-- Go `code[i]` (value as a natural number below 256). -/
def idx (code : Bytes) (i : Nat) : R Nat :=
  match code[i]? with
  | some b => .val b.toNat
  | none => .panic

theorem idx_lt {code : Bytes} {i : Nat} (h : i < code.length) : idx code i = .val (code[i]).toNat := by
  simp [idx, h]

theorem idx_ge {code : Bytes} {i : Nat} (h : code.length ≤ i) : idx code i = .panic := by
  simp [idx, h]

/-- opcodes / constants (vm/opcode.go); regenerated and compared in Props (T-gen). -/
def PUSH1 : Nat := 0x51
def PUSH16 : Nat := 0x60
def CHECKSIG : Nat := 0xAC
def CHECKMULTISIG : Nat := 0xAE

/-- `IsStandard`. -/
def isStandard (code : Bytes) : R Bool :=
  if code.length ≠ 35 then .val false else do
    let c0 ← idx code 0
    let c34 ← idx code 34
    if c0 ≠ 33 ∨ c34 ≠ CHECKSIG then .val false else .val true

/-- `IsSchnorr`. -/
def isSchnorr (code : Bytes) : R Bool :=
  if code.length ≠ 35 then .val false else do
    let c0 ← idx code 0
    if c0 ≠ PUSH1 then .val false else do
      let c1 ← idx code 1
      if c1 + 2 ≠ code.length then .val false else .val true

/-- two's complement `int16` of a 16-bit pattern -/
def toInt16 (v : Nat) : Int :=
  let w := v % 65536
  if w < 32768 then (w : Int) else (w : Int) - 65536

/-- `common.BytesToInt16(code[i:])`: the slice expression panics when `i > len`;
    `binary.Read` on fewer than two bytes fails and leaves the result 0. -/
def bytesToInt16From (code : Bytes) (i : Nat) : R Int :=
  if code.length < i then .panic else
  match code[i]?, code[i+1]? with
  | some a, some b => .val (toInt16 (a.toNat * 256 + b.toNat))
  | _, _ => .val 0

/-- `n++` on an `int16` -/
def inc16 (n : Int) : Int := if n = 32767 then -32768 else n + 1

/-- the key loop `for code[i] == 33 { i += 34; if len(code) <= i { return false }; n++ }`.
    Result: `none` = the function returned false, `some (i, n)` = loop left normally.
    `fuel` bounds the iterations; exhausting it is reported as `panic` so that the
    totality theorem also shows the bound is never reached. -/
def keyLoop (code : Bytes) : Nat → Nat → Int → R (Option (Nat × Int))
  | 0, _, _ => .panic
  | fuel + 1, i, n => do
    let c ← idx code i
    if c = 33 then
      if code.length ≤ i + 34 then .val none
      else keyLoop code fuel (i + 34) (inc16 n)
    else .val (some (i, n))

/-- first switch of `IsMultiSig` on `code[0]`: the value `m` and the next index. -/
def parseM (code : Bytes) (c0 : Nat) : R (Int × Nat) :=
  if c0 = 1 then do
    let b ← idx code 1
    pure ((b : Int), 2)        -- int16(code[i]) of a byte is the byte
  else if c0 = 2 then do
    let v ← bytesToInt16From code 1
    pure (v, 3)
  else pure ((c0 : Int) - 80, 1)

/-- second switch of `IsMultiSig` on `c = code[i]`: `none` = "return false",
    `some j` = index of the byte that must be CHECKMULTISIG. -/
def parseN (guarded : Bool) (code : Bytes) (i : Nat) (n : Int) (c : Nat) : R (Option Nat) :=
  if c = 1 then
    if guarded ∧ code.length ≤ i + 1 then pure none else do
      let b ← idx code (i + 1)
      if n ≠ (b : Int) then pure none else pure (some (i + 2))
  else if c = 2 then do
    let v ← bytesToInt16From code (i + 1)
    if n ≠ v then pure none else pure (some (i + 3))
  else
    if n ≠ (c : Int) - 80 then pure none else pure (some (i + 1))

/-- the final `code[i] != CHECKMULTISIG`, `len(code) != i+1` tests. -/
def lastOp (guarded : Bool) (code : Bytes) (j : Nat) : R Bool :=
  if guarded ∧ code.length ≤ j then .val false else do
    let last ← idx code j
    if last ≠ CHECKMULTISIG then .val false else
    if code.length ≠ j + 1 then .val false else .val true

/-- everything after the key loop. -/
def afterKeys (guarded : Bool) (code : Bytes) (m : Int) : Option (Nat × Int) → R Bool
  | none => .val false
  | some (i, n) =>
    if n < m ∨ n > 1024 then .val false else do
      let c ← idx code i
      let nxt ← parseN guarded code i n c
      match nxt with
      | none => .val false
      | some j => lastOp guarded code j

/-- `IsMultiSig`. -/
def isMultiSig (guarded : Bool) (code : Bytes) : R Bool :=
  if code.length < 37 then .val false else do
    let c0 ← idx code 0
    if c0 > PUSH16 then .val false else
    if c0 < PUSH1 ∧ c0 ≠ 1 ∧ c0 ≠ 2 then .val false else do
      let (m, i) ← parseM code c0
      if m < 1 ∨ m > 1024 then .val false else do
        let r ← keyLoop code (code.length + 1) i 0
        afterKeys guarded code m r

/-- `GetCodeType` as a number: 0 Signature, 1 MultiSig, 2 Custom, 3 Schnorr. -/
def getCodeType (guarded : Bool) (code : Bytes) : R Nat := do
  if (← isStandard code) then pure 0
  else if (← isMultiSig guarded code) then pure 1
  else if (← isSchnorr code) then pure 3
  else pure 2

end ElaVerif.Script
