/-
  Positional digits in base `b` (most significant first), executable and total.
  Used for decimal strings (`strconv.FormatUint`, `big.Int.String`), base-58 address
  strings and big-endian bytes (`big.Int.Bytes`/`SetBytes`).  Core Lean only.
-/
namespace ElaVerif.Digits

/-- little-endian digits; `[]` for 0.  `fuel` bounds the recursion. -/
def digitsLE (b : Nat) : Nat → Nat → List Nat
  | 0, _ => []
  | fuel + 1, n => if n = 0 then [] else (n % b) :: digitsLE b fuel (n / b)

/-- most significant digit first; `[]` for 0 -/
def digits (b n : Nat) : List Nat := (digitsLE b (n + 1) n).reverse

def ofDigitsLE (b : Nat) : List Nat → Nat
  | [] => 0
  | d :: ds => d + b * ofDigitsLE b ds

/-- value of a most-significant-first digit list -/
def ofDigits (b : Nat) (ds : List Nat) : Nat := ofDigitsLE b ds.reverse

end ElaVerif.Digits
