/-
  C36 — JSON-RPC access control (core Lean only).

  Mirrors
    servers/httpjsonrpc/server.go : Handle (order of the checks), clientAllowed, checkAuth
    utils/http/jsonrpc/server.go  : Server.ServeHTTP, clientAllowed, checkAuth (same logic on Config)
    servers/interfaces.go         : checkRPCServiceLevel
    common/config/config.go       : RPCServiceLevel, RPCServiceLevelFromString

  Byte strings are `List Nat` (values < 256).  What `net.SplitHostPort` + `net.ParseIP` make of the
  remote address is an input (`Parsed`): the Go adapter computes it with the `net` package and sends
  it along; everything the server code itself decides is modelled.
-/
namespace ElaVerif.RpcAccess

abbrev Bytes := List Nat

def ascii (s : String) : Bytes := s.toList.map Char.toNat

/-- a name as the number whose big-endian bytes are the (ASCII) name — the encoding of names in
    `Gen.C36` -/
def enc (s : String) : Nat := s.toList.foldl (fun a c => a * 256 + c.toNat) 0

/-! ### IP filter -/

/-- result of `net.SplitHostPort` and `net.ParseIP` on `r.RemoteAddr` -/
structure ParsedIP where
  loopback : Bool      -- remoteIp.IsLoopback()
  canon : Bytes        -- remoteIp.String()
  deriving DecidableEq, Repr

def wildcard : Bytes := ascii "0.0.0.0"

/-- `clientAllowed`: `none` = SplitHostPort failed or ParseIP returned nil -/
def clientAllowed (p : Option ParsedIP) (whitelist : List Bytes) : Bool :=
  match p with
  | none => false
  | some ip =>
    if ip.loopback then true
    else whitelist.any (fun cfg => cfg == wildcard || cfg == ip.canon)

/-! ### basic auth -/

def b64Alphabet : List Nat := ascii "ABCDEFGHIJKLMNOPQRSTUVWXYZabcdefghijklmnopqrstuvwxyz0123456789+/"

def b64Char (i : Nat) : Nat := b64Alphabet.getD i 0

/-- `base64.StdEncoding.EncodeToString` (with `=` padding) -/
def base64 : Bytes → Bytes
  | a :: b :: c :: rest =>
      b64Char (a / 4) :: b64Char ((a % 4) * 16 + b / 16) :: b64Char ((b % 16) * 4 + c / 64) :: b64Char (c % 64) :: base64 rest
  | [a, b] => [b64Char (a / 4), b64Char ((a % 4) * 16 + b / 16), b64Char ((b % 16) * 4), 61]
  | [a] => [b64Char (a / 4), b64Char ((a % 4) * 16), 61, 61]
  | [] => []

/-- the header value the server expects: `"Basic " + base64(user + ":" + pass)` -/
def expectedAuth (user pass : Bytes) : Bytes := ascii "Basic " ++ base64 (user ++ [58] ++ pass)

/-- `checkAuth`, for a digest function `H` (SHA-256 in the code).  `headers` are the values of
    `r.Header["Authorization"]`. -/
def checkAuth {α : Type} [DecidableEq α] (H : Bytes → α) (user pass : Bytes) (headers : List Bytes) : Bool :=
  if user == pass && user.length == 0 then true
  else match headers with
    | [] => false
    | h :: _ => decide (H h = H (expectedAuth user pass))

/-! ### request handling: order of the checks in `Handle` / `ServeHTTP` -/

inductive Status
  | forbidden        -- 403 client ip not allowed
  | methodNotAllowed -- 405 not a POST
  | unsupportedMedia -- 415 content type
  | unauthorized     -- 401 authentication failed
  | served           -- the request reached the JSON-RPC dispatcher
  deriving DecidableEq, Repr

structure Request where
  ip : Option ParsedIP
  isPost : Bool
  /-- media type as `mime.ParseMediaType` returns it -/
  mediaType : Bytes
  auth : List Bytes

def mediaOk (m : Bytes) : Bool := m == ascii "application/json" || m == ascii "text/plain"

def handle {α : Type} [DecidableEq α] (H : Bytes → α) (whitelist : List Bytes) (user pass : Bytes) (r : Request) : Status :=
  if !clientAllowed r.ip whitelist then .forbidden
  else if !r.isPost then .methodNotAllowed
  else if !mediaOk r.mediaType then .unsupportedMedia
  else if !checkAuth H user pass r.auth then .unauthorized
  else .served

/-! ### service level -/

/-- `config.RPCServiceLevelFromString` -/
def levelFromString (s : String) : Nat :=
  if s = "ConfigurationPermitted" then 0
  else if s = "MiningPermitted" then 1
  else if s = "TransactionPermitted" then 2
  else if s = "WalletPermitted" then 3
  else if s = "QueryOnly" then 4
  else 0

/-- `checkRPCServiceLevel(level)` passes (returns nil) -/
def gatePasses (required : Nat) (configured : String) : Bool :=
  !(required < levelFromString configured)

/-- a handler with an optional gate as its first statement: does its body run? -/
def handlerRuns (gate : Option Nat) (configured : String) : Bool :=
  match gate with
  | none => true
  | some l => gatePasses l configured

/-- **Reviewed classification** (hand-written): the methods that change node settings (0), mine
    (1), submit transactions (2) or use wallet data (3), with the level they require. -/
def requiredTable : List (String × Nat) :=
  [("setloglevel", 0), ("togglemining", 0),
   ("createauxblock", 1), ("submitauxblock", 1), ("discretemining", 1),
   ("sendrawtransaction", 2), ("submitsidechainillegaldata", 2), ("estimatesmartfee", 2),
   ("getamountbyinputs", 3), ("getutxosbyamount", 3), ("listunspent", 3), ("createrawtransaction", 3),
   ("decoderawtransaction", 3), ("signrawtransactionwithkey", 3)]

/-- the gate a registered method is expected to have -/
def expectedGate (method : String) : Option Nat :=
  (requiredTable.find? (fun p => p.1 == method)).map (·.2)

end ElaVerif.RpcAccess
