/-
  Ordered finite maps over byte-string keys as sorted association lists: the
  abstract specification the treap (C19) and the ffldb key/value layers (C16)
  are compared with.  `compare` on `List UInt8` is the lexicographic order of
  Go's `bytes.Compare`.  Core Lean only.
-/
namespace ElaVerif.OrdMap

abbrev Bytes := List UInt8
abbrev Map := List (Bytes × Bytes)

/-- strictly increasing keys -/
def Sorted (m : Map) : Prop := m.Pairwise (fun a b => compare a.1 b.1 = .lt)

instance (m : Map) : Decidable (Sorted m) := by unfold Sorted; infer_instance

/-- insert or overwrite -/
def ins (k v : Bytes) : Map → Map
  | [] => [(k, v)]
  | (k', v') :: t =>
    match compare k k' with
    | .lt => (k, v) :: (k', v') :: t
    | .eq => (k', v) :: t
    | .gt => (k', v') :: ins k v t

/-- erase -/
def del (k : Bytes) : Map → Map
  | [] => []
  | (k', v') :: t =>
    match compare k k' with
    | .lt => (k', v') :: t
    | .eq => t
    | .gt => (k', v') :: del k t

/-- lookup -/
def find (k : Bytes) : Map → Option Bytes
  | [] => none
  | (k', v') :: t =>
    match compare k k' with
    | .lt => none
    | .eq => some v'
    | .gt => find k t

/-- first entry with key ≥ k (`strict = false`) or > k (`strict = true`) -/
def ceil (k : Bytes) (strict : Bool) : Map → Option (Bytes × Bytes)
  | [] => none
  | (k', v') :: t =>
    match compare k k' with
    | .lt => some (k', v')
    | .eq => if strict then t.head? else some (k', v')
    | .gt => ceil k strict t

/-- last entry with key ≤ k (`strict = false`) or < k (`strict = true`) -/
def floor (k : Bytes) (strict : Bool) : Map → Option (Bytes × Bytes)
  | [] => none
  | (k', v') :: t =>
    match compare k k' with
    | .lt => none
    | .eq => if strict then none else some (k', v')
    | .gt => match floor k strict t with
      | some e => some e
      | none => some (k', v')

end ElaVerif.OrdMap
