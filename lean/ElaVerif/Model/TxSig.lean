import ElaVerif.Model.RunPrograms
/-
  Model of the layer above RunPrograms (property C05):
    core/transaction/transactionchecker.go  checkTransactionSignature   (variant .tx)
    blockchain/txvalidator.go               checkTransactionSignature   (variant .bc, used by the confirm validator)
    blockchain/validation.go                GetTxProgramHashes, SortPrograms
    common/common.go                        SortProgramHashByCodeHash, Uint160.Compare

  A transaction is abstracted to what these functions read: its type and payload
  version (which decide the exemption), the program hashes of the outputs its
  inputs reference, the data of its Script attributes, its programs, and its
  unsigned bytes (opaque data `d`).  Go's map de-duplication is `dedupe`; the map's
  iteration order does not matter because the list is sorted afterwards (for
  pairwise distinct code hashes; ties are unspecified in Go and excluded from the
  correspondence).  Core Lean only.
-/
namespace ElaVerif.TxSig
open ElaVerif.Script ElaVerif.RunPrograms

inductive Variant | tx | bc
  deriving DecidableEq, Repr

/-- transaction types (core/types/common/transaction.go) named in the exemption -/
def NextTurnDPOSInfo : Nat := 0x14
def CRCProposalWithdraw : Nat := 0x29
def CRCProposalRealWithdraw : Nat := 0x2a
def CRAssetsRectify : Nat := 0x2b
def DposV2ClaimRewardRealWithdraw : Nat := 0x61
def VotesRealWithdraw : Nat := 0x65

/-- the `if … { return nil }` of checkTransactionSignature: kinds accepted without looking at programs -/
def exempt (v : Variant) (ttype pver : Nat) : Bool :=
  (ttype == CRCProposalWithdraw && pver == 0) || ttype == CRAssetsRectify || ttype == CRCProposalRealWithdraw ||
  ttype == NextTurnDPOSInfo ||
  (v == .tx && (ttype == DposV2ClaimRewardRealWithdraw || ttype == VotesRealWithdraw))

structure Tx where
  ttype : Nat
  pver : Nat
  refs : List PH            -- ProgramHash of every referenced output (one per input)
  scripts : List Bytes      -- Data of every attribute with Usage = Script
  programs : List Program
  deriving Repr

/-- `Uint168FromBytes(attribute.Data)`: must be 21 bytes -/
def scriptHash? (b : Bytes) : Option PH :=
  match b with
  | p :: rest => if rest.length = 20 then some ⟨p.toNat, rest⟩ else none
  | [] => none

def scriptHashes? : List Bytes → Option (List PH)
  | [] => some []
  | b :: bs => match scriptHash? b, scriptHashes? bs with
    | some h, some hs => some (h :: hs)
    | _, _ => none

/-- the `unique` map of GetTxProgramHashes -/
def dedupe : List PH → List PH
  | [] => []
  | h :: hs => if hs.contains h then dedupe hs else h :: dedupe hs

/-- `GetTxProgramHashes`; `none` = "GetProgramHashes err" -/
def getTxProgramHashes (t : Tx) : Option (List PH) :=
  match scriptHashes? t.scripts with
  | none => none
  | some ss => some (dedupe (t.refs ++ ss))

/-- `Uint160.Compare(a, b) < 0`: bytes compared from the last to the first -/
def hashLt (a b : Bytes) : Bool :=
  let rec go : List UInt8 → List UInt8 → Bool
    | x :: xs, y :: ys => if x.toNat < y.toNat then true else if y.toNat < x.toNat then false else go xs ys
    | _, _ => false
  go a.reverse b.reverse

def insertBy {α : Type} (key : α → Bytes) (x : α) : List α → List α
  | [] => [x]
  | y :: ys => if hashLt (key y) (key x) then y :: insertBy key x ys else x :: y :: ys

/-- stable sort by code hash: what `sort.Slice` / `sort.Sort` produce when the keys are pairwise distinct, and
    also for ties as long as the list has at most 12 elements (Go then uses insertion sort, which is stable) -/
def sortBy {α : Type} (key : α → Bytes) : List α → List α
  | [] => []
  | x :: xs => insertBy key x (sortBy key xs)

/-- `checkTransactionSignature(tx, references)` over the unsigned bytes `d`. -/
def checkTxSig {D : Type} (v : Variant) (fx : Fix) (O : Oracles D) (d : D) (t : Tx) : Res :=
  if exempt v t.ttype t.pver then ok
  else match getTxProgramHashes t with
    | none => fail .scriptAttr
    | some hs =>
      runPrograms fx O d (sortBy (fun h => h.hash) hs) (sortBy (fun p => O.codeHash p.code) t.programs)

end ElaVerif.TxSig

namespace ElaVerif.TxSig
open ElaVerif.Script ElaVerif.RunPrograms

/-- `checkTransactionSignature` with the two lists presented to the sort in the given or the reversed
    order.  Go sorts a list that comes out of a map (`unique` in GetTxProgramHashes) with an unstable
    sort, so for elements with EQUAL code hashes the final order is not determined; reversing the input
    of the (stable) model sort yields the other order of a tied pair. -/
def checkTxSigWith {D : Type} (v : Variant) (fx : Fix) (O : Oracles D) (d : D) (t : Tx) (revH revP : Bool) : Res :=
  if exempt v t.ttype t.pver then ok
  else match getTxProgramHashes t with
    | none => fail .scriptAttr
    | some hs =>
      let hs' := if revH then hs.reverse else hs
      let ps' := if revP then t.programs.reverse else t.programs
      runPrograms fx O d (sortBy (fun h => h.hash) hs') (sortBy (fun p => O.codeHash p.code) ps')

/-- the verdicts reachable through the two orders of the hash list (the program list is a slice: its order is fixed) -/
def verdicts {D : Type} (v : Variant) (fx : Fix) (O : Oracles D) (d : D) (t : Tx) : List Res :=
  [checkTxSigWith v fx O d t false false, checkTxSigWith v fx O d t true false]

end ElaVerif.TxSig
