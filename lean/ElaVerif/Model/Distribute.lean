import ElaVerif.Model.Fixed64
/-
  Distribute — DPoS round reward distribution (dpos/state/arbitrators.go:
  distributeDPOSReward, distributeWithNormalArbitratorsV1/V2/V3, heightversion.go: …V0).

  The float part of the Go code is two numbers per call,
      ibc     = Fixed64(math.Floor(float64(reward)*0.25 / float64(arbitersCount)))
      share v = Fixed64(math.Floor(float64(v) * (float64(reward)*0.75' / float64(totalVotes))))
  They are parameters `ibc : Fixed64`, `share : Fixed64 → Fixed64` of the model; the driver
  computes them with hardware floats and the Go/amd64 float→int64 conversion
  (NaN / ±Inf / out of range ↦ -2^63).  Everything else — who is paid what, the accumulation
  into the result map, `realDPOSReward`, `change`, the `change < 0` guard — is modelled exactly,
  with wrapping `Fixed64` additions.

  Core Lean only.
-/
namespace ElaVerif.Distribute
open ElaVerif.Fixed64

/-- how an on-duty arbiter is paid -/
inductive Kind
  | normal      -- elected producer: block-confirm part + vote share, to its owner
  | crcOwner    -- CR council arbiter, member elected (and, from V2 on, with a claimed DPoS key): confirm part to its owner
  | crcDestroy  -- CR council arbiter whose member is not elected: confirm part to the destroy address
  | crcNoKey    -- elected member without claimed DPoS key: V1 = owner, V2 = destroy, V3 = confirm part + vote share of the producer behind the node key
  deriving DecidableEq, Repr

structure Arb where
  kind : Kind
  votes : Fixed64
  deriving DecidableEq, Repr

inductive Key | destroy | crc | arb (i : Nat) | cand (i : Nat)
  deriving DecidableEq, Repr

structure Input where
  era : Nat            -- 0..3 = distributeWithNormalArbitratorsV0..V3
  pow : Bool           -- ConsensusAlgorithm == POW
  cfgCRC : Nat         -- len(ChainParams.DPoSConfiguration.CRCArbiters)
  cfgNormal : Nat      -- ChainParams.DPoSConfiguration.NormalArbitratorsCount
  reward : Fixed64
  arbs : List Arb      -- CurrentArbitrators (owners pairwise distinct)
  cands : List Fixed64 -- votes of CurrentCandidates (owners distinct from each other and from arbiters)
  deriving Repr

abbrev RMap := List (Key × Fixed64)

def RMap.get (m : RMap) (k : Key) : Option Fixed64 := (m.find? (·.1 == k)).map (·.2)

/-- `m[k] += v` (a missing key counts as 0) -/
def RMap.add (m : RMap) (k : Key) (v : Fixed64) : RMap :=
  if m.any (·.1 == k) then m.map (fun e => if e.1 == k then (e.1, e.2 + v) else e) else m ++ [(k, v)]

/-- `m[k] = v` -/
def RMap.set (m : RMap) (k : Key) (v : Fixed64) : RMap :=
  if m.any (·.1 == k) then m.map (fun e => if e.1 == k then (e.1, v) else e) else m ++ [(k, v)]

/-- the number of arbiters the block-confirm quarter is divided by -/
def arbitersCount (inp : Input) : Nat :=
  if inp.era ≤ 1 then inp.arbs.length else inp.cfgCRC + inp.cfgNormal

/-- one on-duty arbiter: (key paid, amount) -/
def payArb (era : Nat) (ibc : Fixed64) (share : Fixed64 → Fixed64) (i : Nat) (a : Arb) : Key × Fixed64 :=
  match a.kind with
  | .normal => (.arb i, ibc + share a.votes)
  | .crcOwner => (if era = 0 then .crc else .arb i, ibc)
  | .crcDestroy => (if era = 0 then .crc else .destroy, ibc)
  | .crcNoKey =>
      if era = 0 then (.crc, ibc)
      else if era = 1 then (.arb i, ibc)
      else if era = 2 then (.destroy, ibc)
      else (.arb i, ibc + share a.votes)

def arbLoop (era : Nat) (ibc : Fixed64) (share : Fixed64 → Fixed64) :
    Nat → List Arb → RMap → Fixed64 → RMap × Fixed64
  | _, [], m, real => (m, real)
  | i, a :: as, m, real =>
    let (k, r) := payArb era ibc share i a
    let m' := if era = 0 ∧ a.kind = .normal then m.set k r else m.add k r
    arbLoop era ibc share (i + 1) as m' (real + r)

def candLoop (share : Fixed64 → Fixed64) : Nat → List Fixed64 → RMap → Fixed64 → RMap × Fixed64
  | _, [], m, real => (m, real)
  | i, v :: vs, m, real => candLoop share (i + 1) vs (m.set (.cand i) (share v)) (real + share v)

def destroyLoop (ibc : Fixed64) : Nat → RMap → RMap
  | 0, m => m
  | n + 1, m => destroyLoop ibc n (m.add .destroy ibc)

/-- distributeWithNormalArbitratorsV0..V3: `none` = error return -/
def distributeEra (ibc : Fixed64) (share : Fixed64 → Fixed64) (inp : Input) : Option (RMap × Fixed64) :=
  let n := inp.arbs.length
  if inp.era ≤ 1 then
    if n = 0 then none
    else if inp.cfgCRC = n then some ([(.crc, inp.reward)], inp.reward)
    else
      let m0 : RMap := if inp.era = 0 then [(.crc, 0)] else []
      let (m1, r1) := arbLoop inp.era ibc share 0 inp.arbs m0 0
      some (candLoop share 0 inp.cands m1 r1)
  else
    if (inp.era = 3 ∧ inp.pow) ∨ n = 0 ∨ inp.cfgCRC = n then some ([(.destroy, inp.reward)], inp.reward)
    else
      let (m1, r1) := arbLoop inp.era ibc share 0 inp.arbs [] 0
      let (m2, r2) := candLoop share 0 inp.cands m1 r1
      some (destroyLoop ibc (arbitersCount inp - n) m2, r2)

/-- distributeDPOSReward: `none` = error (also when `change < 0`) ; result = (roundReward, change) -/
def distribute (ibc : Fixed64) (share : Fixed64 → Fixed64) (inp : Input) : Option (RMap × Fixed64) :=
  match distributeEra ibc share inp with
  | none => none
  | some (m, real) =>
    let change := inp.reward - real
    if lt change 0 then none else some (m, change)

/-! ### the bookkeeping around the distribution (accumulateReward, clearingDPOSReward, forceChange) -/

/-- the reward fields of `Arbiters` -/
structure Book where
  acc : Fixed64          -- accumulativeReward
  rr : RMap              -- arbitersRoundReward
  change : Fixed64       -- finalRoundChange
  forceChanged : Bool
  deriving Repr

/-- accumulateReward, pre-DPoSv2 era, height ≥ PublicDPOSHeight: `b` = getBlockDPOSReward(block),
    `voting` = height ≥ CRVotingStartHeight -/
def accumulate (voting : Bool) (b : Fixed64) (s : Book) : Book :=
  let acc := if !voting || !s.forceChanged then s.acc + b else s.acc
  { acc := acc, rr := [], change := 0, forceChanged := false }

/-- the pool a clearing distributes and what it carries forward -/
def clearingPool (smooth : Bool) (b : Fixed64) (s : Book) : Fixed64 × Fixed64 :=
  if smooth then (s.acc + b, 0) else (s.acc, b)

/-- clearingDPOSReward (+ `forceChanged = true` of forceChange when not smooth).  `dist` is
    distributeDPOSReward as a function of the pool; an error leaves the state unchanged. -/
def clearing (dist : Fixed64 → Option (RMap × Fixed64)) (smooth : Bool) (b : Fixed64) (s : Book) : Option Book :=
  let (pool, carry) := clearingPool smooth b s
  match dist pool with
  | none => none
  | some (m, change) =>
    some { acc := carry, rr := m, change := change, forceChanged := if smooth then s.forceChanged else true }

/-- blockchain.CheckCoinbaseArbitratorsReward: as many reward outputs as entries of the round
    reward, every one to a known recipient with exactly its amount -/
def coinbaseRoundCheck (rr : RMap) (outs : List (Key × Fixed64)) : Bool :=
  rr.length == outs.length && outs.all (fun o => rr.get o.1 == some o.2)

/-! ### the DPoS 2.0 per-block split (getDPoSV2RewardsV2) -/

inductive V2Key | owner | crc (i : Nat) | voter (j : Nat)
  deriving DecidableEq, Repr

/-- getDPoSV2RewardsV2: `crcMatch` = the current CRC arbiter whose node key is the sponsor (it is
    paid the whole block reward as CR), otherwise `producerKnown` = the sponsor is a registered
    producer: `shares` are the voters' parts `Fixed64(N_v / ΣN · float64(reward*3/4))` (float, a
    parameter here) and the producer's owner gets the rest. -/
def v2Split (reward : Fixed64) (crcMatch : Option Nat) (producerKnown : Bool)
    (shares : List (Nat × Fixed64)) : List (V2Key × Fixed64) :=
  match crcMatch with
  | some i => [(.crc i, reward)]
  | none =>
    if !producerKnown then []
    else shares.map (fun s => (V2Key.voter s.1, s.2)) ++ [(.owner, reward - sumW (shares.map (·.2)))]

end ElaVerif.Distribute
