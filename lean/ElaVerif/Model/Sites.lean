/-!
# Append-site tables (C21 / C22)

Data model of the regenerated table of `History.Append` call sites
(`ElaVerif/Gen/C21.lean`, `ElaVerif/Gen/C22.lean`) and the decidable
syntactic pairing predicates evaluated over it.  Core Lean only.
-/
namespace ElaVerif.Sites

/-- one write performed by a closure: location text, kind
    (`assign | add | sub | inc | dec | delete | op…`), right-hand side text -/
structure W where
  loc : String
  kind : String
  rhs : String
  deriving DecidableEq, Repr

structure Site where
  file : String
  line : Nat
  fn : String
  idx : Nat
  recv : String
  lit : Bool
  doW : List W
  undoW : List W
  doCalls : List String
  undoCalls : List String
  caps : List (String × String)
  deriving Repr

/-- stable identifier of a site: enclosing function and ordinal inside it -/
def Site.id (s : Site) : String := s.fn ++ "#" ++ toString s.idx

def Site.where_ (s : Site) : String := s.file ++ ":" ++ toString s.line

/-- `u` is the location `d` or a prefix of it (`x.M` covers `x.M[k]` and `x.M.f`) -/
def covers (u d : String) : Bool :=
  u == d || (u ++ "[").isPrefixOf d || (u ++ ".").isPrefixOf d

def relKind (k : String) : Bool := k == "add" || k == "sub" || k == "inc" || k == "dec"

def oppositeKind (a b : String) : Bool :=
  (a == "add" && b == "sub") || (a == "sub" && b == "add") ||
  (a == "inc" && b == "dec") || (a == "dec" && b == "inc")

/-- the right-hand side of an undo write is a value captured before `Append` was called
    (`ori := loc` … `loc = ori`, also `copy(ori)`-style expressions mentioning the capture) -/
def capturedRhs (caps : List (String × String)) (u : W) : Bool :=
  caps.any (fun c => u.rhs == c.1 || (c.1 ++ ")").isPrefixOf ((u.rhs.splitOn "(").getLastD "") ||
    ("*" ++ c.1) == u.rhs || ("&" ++ c.1) == u.rhs)

/-- does undo-write `u` syntactically invert do-write `d`?
    * opposite delta with the same operand on the same location;
    * restore of a captured old value to the location or to a prefix of it;
    * a map insert undone by `delete` of the same key, a `delete` undone by re-inserting the key. -/
def inverts (caps : List (String × String)) (d u : W) : Bool :=
  if relKind u.kind then u.loc == d.loc && oppositeKind d.kind u.kind && d.rhs == u.rhs
  else if u.kind == "assign" then
    (capturedRhs caps u && covers u.loc d.loc) || (d.kind == "delete" && u.loc == d.loc)
  else u.kind == "delete" && d.kind == "assign" && u.loc == d.loc

/-- statement calls that do not touch the snapshot state -/
def harmless (c : String) : Bool :=
  "log.".isPrefixOf c || c == "sort.Slice" || c == "sort.Sort" || c == "copy" || c == "panic" ||
  c == "events.Notify"

/-- clause (i)+(ii): literal closures, every do-write inverted by some undo-write -/
def writesPaired (s : Site) : Bool :=
  s.lit && s.doW.all (fun d => s.undoW.any (inverts s.caps d))

def opaqueCalls (cs : List String) : List String := cs.filter (fun c => !harmless c)

/-- clause (iii): every non-harmless statement call of the execute closure is matched, through the
    reviewed table, by a call of the rollback closure -/
def callsPaired (table : List (String × String)) (s : Site) : Bool :=
  (opaqueCalls s.doCalls).all (fun c => (opaqueCalls s.undoCalls).any (fun u => table.contains (c, u)))

def wellPaired (table : List (String × String)) (s : Site) : Bool :=
  writesPaired s && callsPaired table s

/-- ids of the sites that are not well paired (the assumption list) -/
def unclassified (table : List (String × String)) (sites : List Site) : List String :=
  (sites.filter (fun s => !wellPaired table s)).map Site.id

/-- last selector component of a location (`producer.penalty` ↦ `penalty`, `s.M[k]` ↦ `M[]`) -/
def fieldOf (loc : String) : String :=
  let base := (loc.splitOn "[").headD ""
  let last := (base.splitOn ".").getLastD ""
  if (loc.splitOn "[").length > 1 then last ++ "[]" else last

/-- fields restored by an opposite delta in some site -/
def relFields (sites : List Site) : List String :=
  (sites.flatMap (fun s => (s.undoW.filter (fun u => relKind u.kind)).map (fun u => fieldOf u.loc))).eraseDups

/-- fields restored absolutely (assignment of a captured value) in some site -/
def absFields (sites : List Site) : List String :=
  (sites.flatMap (fun s => (s.undoW.filter (fun u => u.kind == "assign")).map (fun u => fieldOf u.loc))).eraseDups

/-- fields undone relatively in one site and absolutely in another: candidates for the
    same-height mixture that the forward-order rollback does not invert (C20) -/
def mixedFields (sites : List Site) : List String :=
  (relFields sites).filter (fun f => (absFields sites).contains f)

/-! ## Kernel-friendly mirror: every text is the list of its character codes

The Lean kernel does not evaluate `String` functions, so the lemmas of `Props/C21.lean` and
`Props/C22.lean` decide the same predicates over `NSite` (same extractor run, same table). -/

abbrev Txt := List Nat

/-- one write: location, kind, right-hand side, the identifier the right-hand side consists of
    (for the shapes `x`, `*x`, `&x`, `f(x)`, else empty), last selector component of the location -/
structure NW where
  loc : Txt
  kind : Txt
  rhs : Txt
  rhsIdent : Txt
  field : Txt
  deriving DecidableEq, Repr

structure NSite where
  idx : Nat
  /-- fingerprint (FNV-1a mod 1000000007) of the printed source of the two closures -/
  sig : Nat
  /-- text of the History object the site appends to (`s.History`, `a.History`, …) -/
  recv : Txt
  lit : Bool
  doW : List NW
  undoW : List NW
  doCalls : List Txt
  undoCalls : List Txt
  /-- captures in scope: (identifier, text of the captured expression) -/
  caps : List (Txt × Txt)
  deriving Repr

def tx (s : String) : Txt := s.toList.map Char.toNat

def kAssign : Txt := [97,115,115,105,103,110]
def kAdd : Txt := [97,100,100]
def kSub : Txt := [115,117,98]
def kInc : Txt := [105,110,99]
def kDec : Txt := [100,101,99]
def kDelete : Txt := [100,101,108,101,116,101]

def ncovers (u d : Txt) : Bool := u == d || (u ++ [91]).isPrefixOf d || (u ++ [46]).isPrefixOf d

def nrel (k : Txt) : Bool := k == kAdd || k == kSub || k == kInc || k == kDec

def nopposite (a b : Txt) : Bool :=
  (a == kAdd && b == kSub) || (a == kSub && b == kAdd) || (a == kInc && b == kDec) || (a == kDec && b == kInc)

/-- `a` occurs as a contiguous part of `b` -/
def isInfix (a : Txt) : Txt → Bool
  | [] => a == []
  | b@(_ :: bs) => a.isPrefixOf b || isInfix a bs

/-- the right-hand side is a captured identifier whose capture expression reads the restored location
    (`ori := loc`, `ori := copy(loc)`); a capture of something else — e.g. `oriHeight := height` restored into
    `a.DPoSV2ActiveHeight` — does not count -/
def ncaptured (caps : List (Txt × Txt)) (u : NW) : Bool :=
  u.rhsIdent != [] && caps.any (fun c => c.1 == u.rhsIdent && isInfix u.loc c.2)

def ninverts (caps : List (Txt × Txt)) (d u : NW) : Bool :=
  if nrel u.kind then u.loc == d.loc && nopposite d.kind u.kind && d.rhs == u.rhs
  else if u.kind == kAssign then
    (ncaptured caps u && ncovers u.loc d.loc) || (d.kind == kDelete && u.loc == d.loc)
  else u.kind == kDelete && d.kind == kAssign && u.loc == d.loc

/-- `log.` prefix, `sort.Slice`, `sort.Sort`, `copy`, `panic`, `events.Notify` -/
def nharmless (c : Txt) : Bool :=
  [108,111,103,46].isPrefixOf c || c == [115,111,114,116,46,83,108,105,99,101] || c == [115,111,114,116,46,83,111,114,116] ||
  c == [99,111,112,121] || c == [112,97,110,105,99] || c == [101,118,101,110,116,115,46,78,111,116,105,102,121]

def nwritesPaired (s : NSite) : Bool := s.lit && s.doW.all (fun d => s.undoW.any (ninverts s.caps d))

def nopaque (cs : List Txt) : List Txt := cs.filter (fun c => !nharmless c)

def ncallsPaired (table : List (Txt × Txt)) (s : NSite) : Bool :=
  (nopaque s.doCalls).all (fun c => (nopaque s.undoCalls).any (fun u => table.contains (c, u)))

def nwellPaired (table : List (Txt × Txt)) (s : NSite) : Bool := nwritesPaired s && ncallsPaired table s

/-- indices (into the regenerated table) of the sites that are not well paired -/
def nunclassified (table : List (Txt × Txt)) (sites : List NSite) : List Nat :=
  (sites.filter (fun s => !nwellPaired table s)).map (·.idx)

def nrelFields (sites : List NSite) : List Txt :=
  (sites.flatMap (fun s => (s.undoW.filter (fun u => nrel u.kind)).map (·.field))).eraseDups

def nabsFields (sites : List NSite) : List Txt :=
  (sites.flatMap (fun s => (s.undoW.filter (fun u => u.kind == kAssign)).map (·.field))).eraseDups

def nmixedFields (sites : List NSite) : List Txt :=
  (nrelFields sites).filter (fun f => (nabsFields sites).contains f)

/-! ## Order of the history objects inside one height (C22) -/

def idxOf (x : Txt) : List Txt → Option Nat
  | [] => none
  | y :: ys => if x == y then some 0 else (idxOf x ys).map (· + 1)

/-- for every listed pair `(a, b)` (given by its name in the commit list and its name in the rollback
    list): `a` is committed before `b` and `b` is rolled back before `a`. -/
def orderRespects (commit rollback : List Txt) (pairs : List ((Txt × Txt) × (Txt × Txt))) : Bool :=
  pairs.all (fun p =>
    match idxOf p.1.1 commit, idxOf p.2.1 commit, idxOf p.1.2 rollback, idxOf p.2.2 rollback with
    | some ca, some cb, some ra, some rb => ca < cb && rb < ra
    | _, _, _, _ => false)

/-- one call of a `utils.History` method in the node: enclosing function, receiver, method, argument -/
structure NCall where
  fn : Txt
  recv : Txt
  method : Txt
  arg : Txt
  deriving DecidableEq, Repr

/-- fields whose undo writes are recorded on more than one History object (their relative order
    at rollback is decided by the caller of the histories' `RollbackTo`, not by one history) -/
def nsharedFields (sites : List NSite) : List Txt :=
  let pairs := sites.flatMap (fun s => s.undoW.map (fun u => (u.field, s.recv)))
  ((pairs.map (·.1)).eraseDups).filter (fun f => ((pairs.filter (fun p => p.1 == f)).map (·.2)).eraseDups.length > 1)

end ElaVerif.Sites
