import ElaVerif.Model.Script
/-
  Crash model of auxpow/auxpow.go: AuxPow.Check and GetExpectedIndex (property C03).

  Only the *panic structure* is owned here (the commitment semantics of Check
  belong to C10).  Hash computations that cannot panic are oracle inputs carried
  in the op line:
    rootOk      GetMerkleRoot(ParCoinbaseTx.Hash(), ParCoinBaseMerkle, ParMerkleIndex) == ParBlockHeader.MerkleRoot
    auxRootRev  BytesReverse(GetMerkleRoot(reverse(hashAuxBlock), AuxMerkleBranch, AuxMerkleIndex))
  Everything after that (hex-string search, slicing, uint32 shift, modulo) is modelled
  with explicit bounds-checked slicing and an explicit division-by-zero panic.

  `Fix` switches the three guards added by the `fix:` commits on and off, so that
  the unrepaired function remains available for the negation witnesses.
  Core Lean only.
-/
namespace ElaVerif.AuxPowTotal
open ElaVerif.Script

structure Fix where
  txin : Bool     -- `len(ParCoinbaseTx.TxIn) == 0 → false`
  nonce : Bool    -- `len(script) < rootHashIndex/2+8 → false`
  height : Bool   -- GetExpectedIndex: `h < 0 || h >= 32 → -1`
  deriving DecidableEq, Repr

def Fix.all : Fix := ⟨true, true, true⟩
def Fix.none : Fix := ⟨false, false, false⟩

def u32 (n : Nat) : Nat := n % 2 ^ 32

/-- Go `uint32(x)` of an `int`. -/
def intToU32 (x : Int) : Nat := (x % (2 ^ 32 : Int)).toNat

/-- `GetExpectedIndex(nonce, chainID, h)`; the result is an `int`. -/
def getExpectedIndex (fixed : Bool) (nonce : Nat) (chainID h : Int) : R Int :=
  let r1 := u32 (u32 nonce * 1103515245 + 12345)
  let r2 := u32 (r1 + intToU32 chainID)
  let r3 := u32 (r2 * 1103515245 + 12345)
  if fixed ∧ (h < 0 ∨ h ≥ 32) then .val (-1) else
  let sh := intToU32 h
  let d := if sh < 32 then 2 ^ sh else 0      -- `1 << uint32(h)` in uint32
  if d = 0 then .panic else .val ((r3 % d : Nat) : Int)

/-- `hex.EncodeToString` as a list of nibbles (one per character). -/
def nibbles : Bytes → List Nat
  | [] => []
  | b :: rest => b.toNat / 16 :: b.toNat % 16 :: nibbles rest

def isPrefix : List Nat → List Nat → Bool
  | [], _ => true
  | _ :: _, [] => false
  | a :: as, b :: bs => a == b && isPrefix as bs

/-- `strings.Index(s, sub)`; `none` is Go's −1. -/
def indexOf (sub : List Nat) : List Nat → Option Nat
  | [] => if sub.isEmpty then some 0 else none
  | c :: cs =>
    if isPrefix sub (c :: cs) then some 0
    else match indexOf sub cs with
      | some k => some (k + 1)
      | none => none

/-- Go slice expression `b[lo:hi]` on a slice whose capacity equals its length
    (the script comes out of `ReadVarBytes`' `make([]byte, count)`). -/
def slice (b : Bytes) (lo hi : Nat) : R Bytes :=
  if lo ≤ hi ∧ hi ≤ b.length then .val ((b.drop lo).take (hi - lo)) else .panic

/-- Go string slice `s[lo:]`. -/
def strFrom (s : List Nat) (lo : Nat) : R (List Nat) :=
  if lo ≤ s.length then .val (s.drop lo) else .panic

/-- `binary.LittleEndian.Uint32` (its own `_ = b[3]` bounds check included). -/
def le32 (b : Bytes) : R Nat :=
  match b with
  | b0 :: b1 :: b2 :: b3 :: _ => .val (b0.toNat + b1.toNat * 2 ^ 8 + b2.toNat * 2 ^ 16 + b3.toNat * 2 ^ 24)
  | _ => .panic

/-- hex of `pchMergedMiningHeader = fa be 6d 6d` -/
def mmHeader : List Nat := [15, 10, 11, 14, 6, 13, 6, 13]

structure Input where
  rootOk : Bool
  nTxIn : Nat
  script : Bytes          -- `TxIn[0].SignatureScript` (ignored when `nTxIn = 0`)
  auxRootRev : Bytes
  height : Nat            -- `len(AuxMerkleBranch)`
  auxIndex : Int          -- `AuxMerkleIndex`
  chainID : Int
  deriving Repr

/-- `AuxPow.Check`. -/
def check (fx : Fix) (inp : Input) : R Bool :=
  if !inp.rootOk then .val false else
  if fx.txin ∧ inp.nTxIn = 0 then .val false else
  if inp.nTxIn = 0 then .panic else          -- `TxIn[0]`
  let s := nibbles inp.script
  let rootStr := nibbles inp.auxRootRev
  match indexOf mmHeader s, indexOf rootStr s with
  | some hi, some ri => do
    let rest ← strFrom s (hi + 2)
    if (indexOf mmHeader rest).isSome then .val false else
    if hi + mmHeader.length ≠ ri then .val false else
    let r := ri + rootStr.length
    if s.length < r + 8 then .val false else do       -- `len(scriptStr)-rootHashIndex < 8`
    let sz ← slice inp.script (r / 2) (r / 2 + 4)
    let size ← le32 sz
    let expect := if inp.height % 2 ^ 32 < 32 then 2 ^ (inp.height % 2 ^ 32) else 0   -- uint32(1<<uint32(h))
    if size ≠ expect then .val false else
    if fx.nonce ∧ inp.script.length < r / 2 + 8 then .val false else do
    let nb ← slice inp.script (r / 2 + 4) (r / 2 + 8)
    let nonce ← le32 nb
    let e ← getExpectedIndex fx.height nonce inp.chainID inp.height
    if inp.auxIndex ≠ e then .val false else .val true
  | _, _ => .val false

end ElaVerif.AuxPowTotal
