/-
  A two-source world for the witness streams of C38 (core Lean only).

  The process has a *seedable* pseudo-random generator (Go's process-global `math/rand`
  source: its outputs are a function of its state, and anybody may reset the state with
  `rand.Seed`) and the operating system's source (`crypto/rand`): successive reads are
  successive elements of an entropy stream that no program action rewinds.
-/
namespace ElaVerif.Entropy

structure World where
  /-- state of the seedable generator -/
  prng : Nat
  /-- how many values have been read from the OS source so far -/
  taken : Nat
  deriving DecidableEq, Repr

/-- `rand.Seed(s)` -/
def reseed (s : Nat) (w : World) : World := { w with prng := s }

/-- one read from the OS source, for an entropy stream `ent` -/
def osDraw (ent : Nat → Nat) (w : World) : Nat × World :=
  (ent w.taken, { w with taken := w.taken + 1 })

/-- one read from the seedable generator with transition function `next` -/
def prngDraw (next : Nat → Nat × Nat) (w : World) : Nat × World :=
  let r := next w.prng
  (r.1, { w with prng := r.2 })

/-- where a secret producer takes its randomness from -/
inductive Source | os | seedable
  deriving DecidableEq, Repr

def draw (src : Source) (ent : Nat → Nat) (next : Nat → Nat × Nat) (w : World) : Nat × World :=
  match src with
  | .os => osDraw ent w
  | .seedable => prngDraw next w

/-- The experiment of the `reseed` witness ops: `rand.Seed(s)`, produce a secret,
    `rand.Seed(s)` again, produce a second secret — are the two random inputs different? -/
def freshAfterReseed (src : Source) (ent : Nat → Nat) (next : Nat → Nat × Nat) (s : Nat) (w : World) : Bool :=
  let r1 := draw src ent next (reseed s w)
  let r2 := draw src ent next (reseed s r1.2)
  r1.1 != r2.1

end ElaVerif.Entropy
