/-
  Model of database/internal/treap (mutable.go, immutable.go, treapiter.go).

  * `Tree` is the pointer structure of `treapNode` as a functional tree; the
    mutable treap's in-place updates and the immutable treap's path copying
    both become "return the new tree" (persistence is definitional here; the
    correspondence run re-queries every retained version of the real code).
  * priorities (`rand.Int()` in Go) are explicit arguments, so the real
    priorities can be fed to the model and tree *shapes* compared.
  * `putAux` carries the "new node is still bubbling up" flag of the rotation
    loop in `Put` (the loop `break`s at the first ancestor whose priority is
    not larger; it does not repair older heap violations).
  * `merge` is the rotate-down loop of `Delete`: the node to delete is rotated
    below the child with the *lower-or-equal* priority (left on ties) until it
    is a leaf — the comparison `left.priority <= right.priority` of the Go code
    (before /repo commit "fix: treap Delete rotates the child with the lower
    priority up" it was `>=`, which broke the heap order; see Props/C19).
  * keys are byte strings compared with `bytes.Compare` = lexicographic
    `compare` on `List UInt8`.
  Core Lean only.
-/
namespace ElaVerif.Treap

abbrev Bytes := List UInt8

inductive Tree where
  | nil
  | node (l : Tree) (k : Bytes) (v : Bytes) (p : Int) (r : Tree)
  deriving Repr, DecidableEq, Inhabited

open Tree

def toList : Tree → List (Bytes × Bytes)
  | nil => []
  | node l k v _ r => toList l ++ (k, v) :: toList r

def Tree.left : Tree → Tree
  | nil => nil
  | node l _ _ _ _ => l

def Tree.right : Tree → Tree
  | nil => nil
  | node _ _ _ _ r => r

def Tree.isNil : Tree → Bool
  | nil => true
  | _ => false

def Tree.entry? : Tree → Option (Bytes × Bytes)
  | nil => none
  | node _ k v _ _ => some (k, v)

/-- `Mutable.get` / `Immutable.get`: the value stored under `key`. -/
def get : Tree → Bytes → Option Bytes
  | nil, _ => none
  | node l k v _ r, key =>
    match compare key k with
    | .lt => get l key
    | .gt => get r key
    | .eq => some v

/-- `Put`: returns the new tree and whether the new node is the root of the
    result and still bubbling up (rotation loop not yet broken). -/
def putAux : Tree → Bytes → Bytes → Int → Tree × Bool
  | nil, key, val, pr => (node nil key val pr nil, true)
  | node l k v p r, key, val, pr =>
    match compare key k with
    | .eq => (node l k val p r, false)            -- value replaced, node (and its key slice) kept
    | .lt =>
      match putAux l key val pr with
      | (node ll lk lv lp lr, true) =>
        if lp ≥ p then (node (node ll lk lv lp lr) k v p r, false)
        else (node ll lk lv lp (node lr k v p r), true)     -- right rotation
      | (l', _) => (node l' k v p r, false)
    | .gt =>
      match putAux r key val pr with
      | (node rl rk rv rp rr, true) =>
        if rp ≥ p then (node l k v p (node rl rk rv rp rr), false)
        else (node (node l k v p rl) rk rv rp rr, true)     -- left rotation
      | (r', _) => (node l k v p r', false)

def put (t : Tree) (key val : Bytes) (pr : Int) : Tree := (putAux t key val pr).1

def size : Tree → Nat
  | nil => 0
  | node l _ _ _ r => size l + 1 + size r

/-- rotate-down loop of `Delete` on a node whose children are `l` and `r`. -/
def merge : Tree → Tree → Tree
  | nil, r => r
  | l, nil => l
  | node ll lk lv lp lr, node rl rk rv rp rr =>
    if lp ≤ rp then node ll lk lv lp (merge lr (node rl rk rv rp rr))
    else node (merge (node ll lk lv lp lr) rl) rk rv rp rr
termination_by l r => size l + size r
decreasing_by
  all_goals simp [size]
  all_goals omega

def delete : Tree → Bytes → Tree
  | nil, _ => nil
  | node l k v p r, key =>
    match compare key k with
    | .lt => node (delete l key) k v p r
    | .gt => node l k v p (delete r key)
    | .eq => merge l r

/-- `nodeSize`: 72 bytes of fields + key + value. -/
def nodeSize (k v : Bytes) : Nat := 72 + k.length + v.length

/-- `Mutable` / `Immutable` record: root, count, totalSize. -/
structure Treap where
  root : Tree := nil
  count : Nat := 0
  total : Nat := 0
  deriving Repr, DecidableEq, Inhabited

def Treap.put (t : Treap) (key val : Bytes) (pr : Int) : Treap :=
  match t.root with
  | nil => { root := node nil key val pr nil, count := 1, total := nodeSize key val }
  | _ =>
    match get t.root key with
    | some old => { root := ElaVerif.Treap.put t.root key val pr, count := t.count,
                    total := t.total - old.length + val.length }
    | none => { root := ElaVerif.Treap.put t.root key val pr, count := t.count + 1,
                total := t.total + nodeSize key val }

/-- the key slice actually stored in the node found for `key`. -/
def getKey : Tree → Bytes → Option Bytes
  | nil, _ => none
  | node l k _ _ r, key =>
    match compare key k with
    | .lt => getKey l key
    | .gt => getKey r key
    | .eq => some k

def Treap.delete (t : Treap) (key : Bytes) : Treap :=
  match get t.root key, getKey t.root key with
  | some old, some k =>
    match t.root with
    | node nil _ _ _ nil => { root := nil, count := 0, total := 0 }
    | _ => { root := ElaVerif.Treap.delete t.root key, count := t.count - 1,
             total := t.total - nodeSize k old }
  | _, _ => t

/-! ## Iterator (treapiter.go)

The parent stack holds the strict ancestors of the current node, top first.
Each frame records on which side the child hangs (`true` = right); this is the
Go code's pointer test `parent.right == iter.node`. -/

abbrev Frame := Bool × Tree

structure Iter where
  isMut : Bool := false
  root : Tree := nil
  node : Option Tree := none          -- subtree rooted at the current node
  parents : List Frame := []
  isNew : Bool := true
  seekKey : Option Bytes := none
  start : Option Bytes := none
  limit : Option Bytes := none
  deriving Repr, Inhabited

def Iter.key (it : Iter) : Option Bytes := (it.node.bind Tree.entry?).map (·.1)
def Iter.value (it : Iter) : Option Bytes := (it.node.bind Tree.entry?).map (·.2)
def Iter.valid (it : Iter) : Bool := it.node.isSome

/-- is `k` inside `[start, limit)`? -/
def inRange (start limit : Option Bytes) (k : Bytes) : Bool :=
  (match start with | some s => compare k s != .lt | none => true) &&
  (match limit with | some l => compare k l == .lt | none => true)

def limitIterator (it : Iter) : Iter × Bool :=
  match it.node with
  | none => (it, false)
  | some nil => ({ it with node := none }, false)
  | some (node _ k _ _ _) =>
    if inRange it.start it.limit k then (it, true) else ({ it with node := none }, false)

/-- the descent loop of `seek`: `path` = frames of the nodes above the current
    one, `sel` = selected node together with the frames above it. -/
def seekGo (key : Bytes) (exact greater : Bool) :
    Tree → List Frame → Option (Tree × List Frame) → Option (Tree × List Frame)
  | nil, _, sel => sel
  | node l k v p r, path, sel =>
    let t := node l k v p r
    match compare key k with
    | .lt => seekGo key exact greater l ((false, t) :: path) (if greater then some (t, path) else sel)
    | .gt => seekGo key exact greater r ((true, t) :: path) (if greater then sel else some (t, path))
    | .eq =>
      if exact then some (t, path)
      else if greater then seekGo key exact greater r ((true, t) :: path) sel
      else seekGo key exact greater l ((false, t) :: path) sel

def setPos (it : Iter) : Option (Tree × List Frame) → Iter
  | some (n, path) => { it with node := some n, parents := path }
  | none => { it with node := none, parents := [] }

def Iter.seek (it : Iter) (key : Bytes) (exact greater : Bool) : Iter × Bool :=
  limitIterator (setPos it (seekGo key exact greater it.root [] none))

/-- walk to the left-most node of `t`, pushing frames. -/
def leftmost : Tree → List Frame → Option (Tree × List Frame)
  | nil, _ => none
  | node nil k v p r, path => some (node nil k v p r, path)
  | node (node a b c d e) k v p r, path =>
    leftmost (node a b c d e) ((false, node (node a b c d e) k v p r) :: path)

def rightmost : Tree → List Frame → Option (Tree × List Frame)
  | nil, _ => none
  | node l k v p nil, path => some (node l k v p nil, path)
  | node l k v p (node a b c d e), path =>
    rightmost (node a b c d e) ((true, node l k v p (node a b c d e)) :: path)

def Iter.first (it : Iter) : Iter × Bool :=
  let it := { it with isNew := false, seekKey := none }
  match it.start with
  | some s => it.seek s true true
  | none => limitIterator (setPos it (leftmost it.root []))

def Iter.last (it : Iter) : Iter × Bool :=
  let it := { it with isNew := false, seekKey := none }
  match it.limit with
  | some l => it.seek l false false
  | none => limitIterator (setPos it (rightmost it.root []))

/-- pop parents while we came from the right; the first parent reached from its
    left child is the successor. -/
def climbNext : List Frame → Option (Tree × List Frame)
  | [] => none
  | (true, _) :: rest => climbNext rest
  | (false, p) :: rest => some (p, rest)

def climbPrev : List Frame → Option (Tree × List Frame)
  | [] => none
  | (false, _) :: rest => climbPrev rest
  | (true, p) :: rest => some (p, rest)

def Iter.next (it : Iter) : Iter × Bool :=
  if it.isNew then it.first else
  match it.node with
  | none => (it, false)
  | some n =>
    match it.seekKey with
    | some sk => ({ it with seekKey := none }).seek sk false true
    | none =>
      if n.right.isNil then limitIterator (setPos it (climbNext it.parents))
      else limitIterator (setPos it (leftmost n.right ((true, n) :: it.parents)))

def Iter.prev (it : Iter) : Iter × Bool :=
  if it.isNew then it.last else
  match it.node with
  | none => (it, false)
  | some n =>
    match it.seekKey with
    | some sk => ({ it with seekKey := none }).seek sk false false
    | none =>
      if n.left.isNil then limitIterator (setPos it (climbPrev it.parents))
      else limitIterator (setPos it (rightmost n.left ((false, n) :: it.parents)))

def Iter.seekGE (it : Iter) (key : Bytes) : Iter × Bool :=
  ({ it with isNew := false, seekKey := none }).seek key true true

/-- `ForceReseek` with the mutable treap's current root. -/
def Iter.forceReseek (it : Iter) (curRoot : Tree) : Iter :=
  if !it.isMut then it else
  { it with root := curRoot, seekKey := it.key }

end ElaVerif.Treap
