import ElaVerif.Model.Tx
import ElaVerif.Model.Sha256
/-
  Line-protocol step function shared by the C04 / C02 drivers (core Lean only).

    dec <schema> <pv> <hex> [alloc=<measured>]     → ok <consumed> <re-encoding> | err | bad-op
    tx <hex> [alloc=<measured>]                    → ok <consumed> <version> <type> <pv> <#attr> <#in> <#out> <lockTime> <#prog> <re-encoding> <hash> | err | uncovered
    varuint <n>                               → ok <WriteVarUint n> <value read back> <bytes left> (value transfer: the model encodes n itself)
    vb <n> | vs <n>                           → ok <encoded length> <sha256d(encoding)> <length read back> <bytes left>
    block <hex> [alloc=<measured>]                 → ok <consumed> <ntx> <sha256d(re-encoding)> <header hash> | err | uncovered

  `<hash>` = sha256d of the model's *unsigned* serialization.  With the optional `alloc=<measured>`
  token (C02) the answer is cut down to `ok <consumed>` / `err`, and ` ALLOC <meter>` is appended
  when the allocation measured on the Go side exceeds the model's meter plus the fixed overhead
  `baseOverhead` (reader object, boxed payload / transaction, error value).
-/
namespace ElaVerif.WireDriver
open ElaVerif.Bytes ElaVerif.Wire ElaVerif.WireSchemas ElaVerif.Tx

def baseOverhead : Nat := 16384

def hexDigit? (c : Char) : Option Nat :=
  if '0' ≤ c ∧ c ≤ '9' then some (c.toNat - '0'.toNat)
  else if 'a' ≤ c ∧ c ≤ 'f' then some (c.toNat - 'a'.toNat + 10)
  else none

def hexBytes? (s : String) : Option Bytes :=
  if s = "-" then some [] else
  let rec go : List Char → List UInt8 → Option (List UInt8)
    | [], acc => some acc.reverse
    | [_], _ => none
    | a :: b :: rest, acc =>
      match hexDigit? a, hexDigit? b with
      | some x, some y => go rest (UInt8.ofNat (x * 16 + y) :: acc)
      | _, _ => none
  go s.toList []

def nibble (n : Nat) : Char :=
  if n < 10 then Char.ofNat (n + '0'.toNat) else Char.ofNat (n - 10 + 'a'.toNat)

def toHex (bs : Bytes) : String :=
  if bs.isEmpty then "-" else
  String.ofList (bs.foldr (fun b acc => nibble (b.toNat / 16) :: nibble (b.toNat % 16) :: acc) [])

/-- schema by name; `pv` is the Go method's `version` argument where there is one -/
def schema? (name : String) (pv : Nat) : Option Ty :=
  match name with
  | "attribute" => some attributeTy
  | "input" => some input
  | "program" => some program
  | "output" => some (output (decide (9 ≤ pv)))
  | "header" => some header
  | "auxpow" => some auxPow
  | "confirm" => some confirm
  | "inv" => some invMsg
  | "getblocks" => some getBlocksMsg
  | "addr" => some addrMsg
  | "merkleblock" => some merkleBlockMsg
  | "blockrow" => some blockRow
  | "coinbase" => some coinBase
  | "transferasset" => some transferAsset
  | "producerinfo" => some (producerInfo pv)
  | "inactivearbitrators" => some inactiveArbitrators
  | "nextturndposinfo" => some (nextTurnDPOSInfo pv)
  | "dposillegalblocks" => some dposIllegalBlocks
  | "voting" => some (voting pv)
  | "crcproposalreview" => some (crcProposalReview pv)
  | "record" => some record
  | "sidechainpow" => some sideChainPow
  | "processproducer" => some (processProducer pv)
  | "emptypayload" => some emptyPayload
  | "activateproducer" => some activateProducer
  | "updateversion" => some updateVersion
  | "crcproposalwithdraw" => some (crcProposalWithdraw pv)
  | "hashlist" => some hashList
  | "crcouncilmemberclaimnode" => some crCouncilMemberClaimNode
  | "reverttopow" => some revertToPOW
  | "reverttodpos" => some revertToDPOS
  | "returnvotes" => some (returnVotes pv)
  | "recordsponsor" => some recordSponsor
  | "registerasset" => some registerAsset
  | "withdrawfromsidechain" => some (withdrawFromSideChain pv)
  | "transfercrosschainasset" => some (transferCrossChainAsset pv)
  | "dposillegalproposals" => some dposIllegalProposals
  | "dposillegalvotes" => some dposIllegalVotes
  | "sidechainillegaldata" => some sidechainIllegalData
  | "crinfo" => some (crInfo pv)
  | "unregistercr" => some (unregisterCR pv)
  | "crcproposaltracking" => some (crcProposalTracking pv)
  | "returnsidechaindepositcoin" => some (returnSideChainDepositCoin pv)
  | "votesrealwithdraw" => some votesRealWithdraw
  | "createnft" => some (createNFT pv)
  | "nftdestroyfromsidechain" => some nftDestroyFromSideChain
  | "proposalresult" => some recordProposalResult
  | "crcproposal" => some (crcProposal pv)
  | _ => none

def measured? : List String → Option Nat
  | [s] => if s.startsWith "alloc=" then (s.drop 6).toNat? else none
  | _ => none

def allocNote (measured meter : Nat) : String :=
  if measured ≤ meter + baseOverhead then "" else s!" ALLOC {meter}"

def stepDec (name pvs hex : String) (extra : List String) : String :=
  match schema? name (pvs.toNat?.getD 0), hexBytes? hex with
  | some ty, some bs =>
    let r := decodeA ty bs
    match measured? extra with
    | some m =>
      (match r.res with
       | some (_, rest) => s!"ok {bs.length - rest.length}"
       | none => "err") ++ allocNote m r.alloc
    | none =>
      match r.res with
      | some (v, rest) => s!"ok {bs.length - rest.length} {toHex (encode ty v)}"
      | none => "err"
  | _, _ => "bad-op"

/-- does the transaction head name a type outside the covered table? -/
def txUncovered (bs : Bytes) : Bool :=
  match readTxHead bs with
  | some ((_, ty), _) => match payloadOf ty with | .uncovered => true | _ => false
  | none => false

/-- `pv #attributes #inputs #outputs lockTime #programs` -/
def txSummary (tx : Tx) : String :=
  match tx.body, tx.programs with
  | [.tag pv _, .list a, .list i, .list o, .num lock], .list ps =>
    s!"{pv} {a.length} {i.length} {o.length} {lock} {ps.length}"
  | _, _ => "?"

def stepTx (hex : String) (extra : List String) : String :=
  match hexBytes? hex with
  | none => "bad-op"
  | some bs =>
    if txUncovered bs then "uncovered" else
    let r := decodeTxA bs
    match measured? extra with
    | some m =>
      (match r.res with
       | some (_, rest) => s!"ok {bs.length - rest.length}"
       | none => "err") ++ allocNote m r.alloc
    | none =>
      match r.res with
      | some (tx, rest) =>
        s!"ok {bs.length - rest.length} {tx.version} {tx.txType} {txSummary tx} {toHex (encodeTx tx)} {toHex (txHash Sha256.sha256d tx)}"
      | none => "err"

/-- is some transaction of the block outside the covered table?  (walks like `repeatTx`) -/
def blockUncovered : Nat → Bytes → Bool
  | 0, _ => false
  | n + 1, bs =>
    if txUncovered bs then true else
    match (decodeTxA bs).res with
    | some (_, rest) => blockUncovered n rest
    | none => false

def headerHash (h : Val) : Bytes :=
  match h with
  | .struct vs => Sha256.sha256d (encodeFields (match headerNoAux with | .struct fs => fs | _ => []) (vs.take 7))
  | _ => []

def stepBlock (hex : String) (extra : List String) : String :=
  match hexBytes? hex with
  | none => "bad-op"
  | some bs =>
    let unc := match (decodeA header bs).res with
      | some (_, r) => (match readLE 4 r with | some (n, r2) => blockUncovered n r2 | none => false)
      | none => false
    if unc then "uncovered" else
    let r := decodeBlockA bs
    match measured? extra with
    | some m =>
      (match r.res with
       | some (_, rest) => s!"ok {bs.length - rest.length}"
       | none => "err") ++ allocNote m r.alloc
    | none =>
      match r.res with
      | some (b, rest) =>
        s!"ok {bs.length - rest.length} {b.txs.length} {toHex (Sha256.sha256d (encodeBlock b))} {toHex (headerHash b.header)}"
      | none => "err"

/-- `varuint <n>`: `WriteVarUint n`, then `ReadVarUint` on the result followed by one more byte -/
def stepVarUint (ns : String) : String :=
  match ns.toNat? with
  | none => "bad-op"
  | some n =>
    let e := encVarUint n
    match decVarUint (e ++ [0xaa]) with
    | some (v, r) => s!"ok {toHex e} {v} {r.length}"
    | none => s!"ok {toHex e} err"

/-- `vb <n>` / `vs <n>`: `WriteVarBytes` / `WriteVarString` of `n` bytes `0xab`, read back with a 16 MiB limit -/
def stepVarBytes (ns : String) : String :=
  match ns.toNat? with
  | none => "bad-op"
  | some n =>
    let ty := Ty.varBytes 16777216
    let e := encode ty (.bytes (List.replicate n 0xab))
    let h := toHex (Sha256.sha256d e)
    match (decodeA ty (e ++ [0xaa])).res with
    | some (.bytes b, r) => s!"ok {e.length} {h} {b.length} {r.length}"
    | _ => s!"ok {e.length} {h} err"

def step : List String → String
  | ["varuint", n] => stepVarUint n
  | ["vb", n] => stepVarBytes n
  | ["vs", n] => stepVarBytes n
  | "dec" :: name :: pv :: hex :: extra => stepDec name pv hex extra
  | "tx" :: hex :: extra => stepTx hex extra
  | "block" :: hex :: extra => stepBlock hex extra
  | _ => "bad-op"

end ElaVerif.WireDriver
