/-
  The transaction-filter layer the server dispatches to (core Lean only):
    /repo/elanet/filter/filter.go            Filter.Load: type → implementation, unknown type = error
    /repo/elanet/server.go                   the `newFilter` switch of `newServerPeer`
    /repo/elanet/filter/*/                   the five wrappers around `bloom.TxFilter`
    /repo/dpos/state/state.go                State.IsDPOSTransaction
    /repo/core/transaction/transaction.go    the `Is…Tx` predicates the wrappers call
  The bloom part (`matchTxAndUpdate`) is `Model/Bloom.lean`; here only what is layered on top of it.
-/
import ElaVerif.Model.Bloom
namespace ElaVerif.TxFilter
open ElaVerif.Bloom

inductive FilterType where
  | bloom            -- FTBloom = 0
  | dpos             -- FTDPOS = 1                sidefilter
  | nextTurn         -- FTNexTTurnDPOSInfo = 2
  | customID         -- FTCustomID = 3
  | upgrade          -- FTUpgrade = 4
  | returnDeposit    -- FTReturnSidechainDepositCoinFilter = 5
deriving DecidableEq, Repr

/-- `newFilter(typ)`; `none` = `unknown txfilter type` error, nothing is installed -/
def filterTypeOf : Nat → Option FilterType
  | 0 => some .bloom
  | 1 => some .dpos
  | 2 => some .nextTurn
  | 3 => some .customID
  | 4 => some .upgrade
  | 5 => some .returnDeposit
  | _ => none

/-- what the wrappers look at besides the bloom filter -/
structure TxFacts where
  txType : Nat            -- tx.TxType()
  version : Nat           -- tx.Version()
  votesProducer : Bool    -- some OTVote output with VoteProducerVersion, or a Delegate vote content
  proposalType : Nat      -- CRCProposal.ProposalType (meaningful only for tx type 0x25)
  spendsVote : Bool := false  -- some input refers to a vote output recorded in `State.Votes` ("cancel votes")
deriving DecidableEq, Repr

-- tx types (core/types/common/transaction.go)
def tTransferAsset : Nat := 0x02
def tRegisterProducer : Nat := 0x09
def tCancelProducer : Nat := 0x0a
def tUpdateProducer : Nat := 0x0b
def tReturnDepositCoin : Nat := 0x0c
def tActivateProducer : Nat := 0x0d
def tIllegalProposal : Nat := 0x0e
def tIllegalVote : Nat := 0x0f
def tIllegalBlock : Nat := 0x10
def tIllegalSidechain : Nat := 0x11
def tInactiveArbitrators : Nat := 0x12
def tNextTurnDPOSInfo : Nat := 0x14
def tProposalResult : Nat := 0x15
def tCRCProposal : Nat := 0x25
def tRevertToPOW : Nat := 0x41
def tRevertToDPOS : Nat := 0x42
def tReturnSideChainDepositCoin : Nat := 0x51

/-- `State.IsDPOSTransaction` -/
def isDPOSTransaction (t : TxFacts) : Bool :=
  if t.txType ∈ [tRegisterProducer, tUpdateProducer, tCancelProducer, tActivateProducer, tIllegalProposal,
      tIllegalVote, tIllegalBlock, tIllegalSidechain, tInactiveArbitrators, tReturnDepositCoin] then true
  else if t.txType = tTransferAsset ∧ t.version ≥ 9 ∧ t.votesProducer = true then true
  else t.spendsVote

def isCustomIDRelated (t : TxFacts) : Bool :=
  if t.txType = tCRCProposal then
    t.proposalType = 0x0500 || t.proposalType = 0x0501 || t.proposalType = 0x0502
  else t.txType = tProposalResult

def isSideChainUpgrade (t : TxFacts) : Bool :=
  t.txType = tCRCProposal && decide (t.proposalType > 0x0200) && decide (t.proposalType ≤ 0x02ff)

def isRevert (t : TxFacts) : Bool := t.txType = tRevertToPOW || t.txType = tRevertToDPOS

/-- the disjuncts a wrapper adds to the bloom result in `MatchConfirmed` -/
def extraConfirmed (ft : FilterType) (t : TxFacts) : Bool :=
  match ft with
  | .bloom => false
  | .dpos => isDPOSTransaction t || isRevert t
  | .nextTurn => t.txType = tNextTurnDPOSInfo || isRevert t
  | .customID => t.txType = tNextTurnDPOSInfo || isCustomIDRelated t || isRevert t
  | .upgrade => t.txType = tNextTurnDPOSInfo || isCustomIDRelated t || isRevert t || isSideChainUpgrade t
  | .returnDeposit =>
    t.txType = tNextTurnDPOSInfo || isCustomIDRelated t || isRevert t || t.txType = tReturnSideChainDepositCoin

/-- `MatchConfirmed`: the bloom filter is consulted (and updated) first, then the extra disjuncts -/
def matchConfirmed (mm : Murmur) (ft : FilterType) (f : Filter) (tx : Tx) (t : TxFacts) : Option (Bool × Filter) :=
  match matchTxAndUpdate mm f tx with
  | none => none
  | some (r, g) => some (r || extraConfirmed ft t, g)

/-- `MatchUnconfirmed`: every wrapper forwards to the bloom filter, except the DPOS side filter,
    which does not look at the bloom filter at all and reports only the five evidence types. -/
def matchUnconfirmed (mm : Murmur) (ft : FilterType) (f : Filter) (tx : Tx) (t : TxFacts) : Option (Bool × Filter) :=
  match ft with
  | .dpos =>
    some (t.txType ∈ [tIllegalProposal, tIllegalVote, tIllegalBlock, tIllegalSidechain, tInactiveArbitrators], f)
  | _ => matchTxAndUpdate mm f tx

/-- `Filter.Load(TxFilterLoad{Type, Data})`: unknown type → error; otherwise the data must decode as a
    `filterload` (all six implementations embed `bloom.TxFilter`) -/
def load (typ : Nat) (data : Bytes) : Option (FilterType × Filter) :=
  match filterTypeOf typ with
  | none => none
  | some ft => (loadFilter data).map fun f => (ft, f)

end ElaVerif.TxFilter
