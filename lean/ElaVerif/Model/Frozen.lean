/-
  C32 — frozen addresses (core Lean only).

  Mirrors
    core/transaction/transactionchecker.go : checkFrozenAddresses
    common/config/settings/settings.go     : enforceFrozenAddresses (+ the part of SetupConfig that decides the list)
    common/config/config.go                : MainNetFrozenAddresses, Sterilize (address → program hash)

  Program hashes are compared with `IsEqual` only, so they are abstract identifiers here (`Nat`).
  `references` is a Go map: every loop over it is an existence test, so a list in any order is exact.
-/
namespace ElaVerif.Frozen

/-- `config.FrozenAddress` after `Sterilize`: `hash = none` ⇔ `ProgramHash == nil` (address empty or undecodable). -/
structure Entry where
  hash : Option Nat
  start : Nat
  deriving DecidableEq, Repr

inductive Verdict
  | ok
  | spend (i : Nat)    -- "cannot use utxo from the frozen address <Address of entry i>"
  | receive (i : Nat)  -- "cannot send to the frozen address <Address of entry i>"
  deriving DecidableEq, Repr

/-- one iteration of the outer loop; `i` is the position of the entry in the configured list -/
def checkEntry (e : Entry) (i : Nat) (ins outs : List Nat) (h : Nat) : Verdict :=
  match e.hash with
  | none => .ok                                   -- frozen.ProgramHash == nil → continue
  | some x =>
    if h < e.start then .ok                       -- blockHeight < DisableStartHeight → continue
    else if ins.contains x then .spend i          -- loop over references
    else if outs.contains x then .receive i       -- loop over txn.Outputs()
    else .ok

/-- `checkFrozenAddresses(txn, references, blockHeight, frozenAddresses)`:
    `ins` = program hashes of the referenced outputs, `outs` = program hashes of the outputs. -/
def frozenCheckFrom : List Entry → Nat → List Nat → List Nat → Nat → Verdict
  | [], _, _, _, _ => .ok
  | e :: es, i, ins, outs, h =>
    match checkEntry e i ins outs h with
    | .ok => frozenCheckFrom es (i + 1) ins outs h
    | v => v

def frozenCheck (fs : List Entry) (ins outs : List Nat) (h : Nat) : Verdict :=
  frozenCheckFrom fs 0 ins outs h

/-! ### configuration -/

/-- a configured entry before/after `Sterilize`: address (abstract id), start height, and the
    program hash the address decodes to (`none` if it does not decode) -/
structure CfgEntry where
  addr : Nat
  start : Nat
  hash : Option Nat
  deriving DecidableEq, Repr

/-- `config.MainNetFrozenAddresses()` after `Sterilize`, for given ids of the one coordinated address/hash -/
def mainnetList (addr hash : Nat) : List CfgEntry := [⟨addr, 2256110, some hash⟩]

/-- `enforceFrozenAddresses` followed by `Sterilize`: mainnet names force the coordinated list,
    every other net keeps what it has. -/
def enforceFrozen (isMainnet : Bool) (addr hash : Nat) (cur : List CfgEntry) : List CfgEntry :=
  if isMainnet then mainnetList addr hash else cur

/-- The list-relevant part of `SetupConfig`.  `file = none`: the config file has no
    `FrozenAddresses` key.  `isTestOrReg`: ActiveNet selects the testnet/regnet presets (which
    reset the list to nil before the file is read again). -/
def setupFrozen (isMainnet isTestOrReg : Bool) (addr hash : Nat) (file : Option (List CfgEntry)) : List CfgEntry :=
  let dflt := mainnetList addr hash                         -- config.DefaultParams
  let c1 := file.getD dflt                                  -- loadConfigFile
  let c2 := if isTestOrReg then file.getD [] else c1        -- TestNet()/RegNet(); loadConfigFile
  enforceFrozen isMainnet addr hash c2

def toEntries (l : List CfgEntry) : List Entry := l.map (fun c => ⟨c.hash, c.start⟩)

end ElaVerif.Frozen
