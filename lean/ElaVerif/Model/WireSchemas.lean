import ElaVerif.Model.Wire
/-
  Schema table: the byte layouts of the Go `Serialize`/`Deserialize` pairs covered by C04, C02
  (core Lean only).  One definition per Go type, in the field order of the Go method; version
  parameters are the `version byte` argument of the Go method.

  Size limits are the constants of the Go source (regenerated into `Gen/C04.lean` and compared by
  `C04_gen_limits`).  The `ovh` argument of a list is the allocation charged per decoded element
  (slice growth by `append`, the boxed element, size-class rounding of a small `[]byte`).
-/
namespace ElaVerif.WireSchemas
open ElaVerif.Wire

/-! limits (Go constants) -/
def maxVarString : Nat := 16777216      -- common.MaxVarStringLength
def maxPayloadData : Nat := 1048576     -- payload.MaxPayloadDataSize
def maxMultiSignCode : Nat := 34003     -- crypto.MaxMultiSignCodeLength
def maxSignatureScript : Nat := 64001   -- crypto.MaxSignatureScriptLength
def signatureLength : Nat := 64         -- crypto.SignatureLength
def negativeBigLength : Nat := 33       -- crypto.NegativeBigLength
def compressedLen : Nat := 33           -- crypto.COMPRESSEDLEN
def maxProgramParam : Nat := 20000      -- program.MaxProgramParamSize
def maxProgramCode : Nat := 10000       -- program.MaxProgramCodeSize
def maxTargetData : Nat := 1024         -- outputpayload.MaxTargetDataSize
def maxSideProducerID : Nat := 256      -- outputpayload.maxSideProducerIDSize
def maxScriptSize : Nat := 10000        -- auxpow.MaxScriptSize
def maxBlockContext : Nat := 8000000    -- pact.MaxBlockContextSize
def maxBlockHeader : Nat := 1000000     -- pact.MaxBlockHeaderSize
def maxOpinionData : Nat := 1048576     -- payload.MaxOpinionDataSize
def maxProposalData : Nat := 1048576    -- payload.MaxProposalDataSize

abbrev u8 : Ty := .uint 1
abbrev u16 : Ty := .uint 2
abbrev u32 : Ty := .uint 4
abbrev u64 : Ty := .uint 8
abbrev hash256 : Ty := .fixed 32
abbrev hash168 : Ty := .fixed 21
abbrev varString : Ty := .varBytes maxVarString
/-- var-uint count, append-only reader -/
abbrev lst (ovh : Nat) (e : Ty) : Ty := .list 0 none 0 ovh e

/-! core/types/common: attribute, input, output; core/contract/program -/

/-- `Attribute`: usage byte (only the six valid usages are accepted), var-bytes data -/
def attributeTy : Ty :=
  .tagged 1 [(0x00, .varBytes maxVarString), (0x20, .varBytes maxVarString),
             (0x81, .varBytes maxVarString), (0x90, .varBytes maxVarString),
             (0x91, .varBytes maxVarString), (0x92, .varBytes maxVarString)] .fail

def input : Ty := .struct [hash256, u16, u32]

def program : Ty := .struct [.varBytes maxProgramParam, .varBytes maxProgramCode]

/-! core/types/outputpayload -/

/-- `CandidateVotes` at vote-output version `v` -/
def candidateVotes (withVotes : Bool) : Ty :=
  if withVotes then .struct [.varBytes maxMultiSignCode, u64] else .struct [.varBytes maxMultiSignCode]
def voteContent (withVotes : Bool) : Ty := .struct [u8, lst 128 (candidateVotes withVotes)]
/-- `VoteOutput`: the version byte read from the wire selects the candidate layout -/
def voteOutput : Ty := .tagged 1 [(0, lst 128 (voteContent false))] (lst 128 (voteContent true))
def mappingOutput : Ty :=
  .struct [u8, .varBytes maxMultiSignCode, .varBytes maxSideProducerID, .varBytes signatureLength]
def crossChainOutput : Ty := .struct [u8, varString, u64, .varBytes maxTargetData]
def withdrawOutput : Ty := .struct [u8, varString, hash256, .varBytes maxTargetData]
def returnSideChainDepositOutput : Ty := .struct [u8, varString, hash256]
def exchangeVotesOutput : Ty := .struct [u8, hash168]

/-- output type byte → output payload (`getOutputPayload`) -/
def outputPayload : Ty :=
  .tagged 1 [(0, .struct []), (1, voteOutput), (2, mappingOutput), (3, crossChainOutput),
             (4, withdrawOutput), (5, returnSideChainDepositOutput), (6, voteOutput),
             (7, exchangeVotesOutput)] .fail

/-- `Output` under transaction version `< 9` / `≥ 9` -/
def output (v9 : Bool) : Ty :=
  if v9 then .struct [hash256, u64, u32, hash168, outputPayload]
  else .struct [hash256, u64, u32, hash168]

/-! core/types/payload (version = the `version byte` argument) -/

def coinBase : Ty := .varBytes maxPayloadData
def transferAsset : Ty := .struct []

/-- `ProducerInfo` (RegisterProducer, UpdateProducer) -/
def producerInfo (pv : Nat) : Ty :=
  .struct ([.varBytes maxMultiSignCode, .varBytes maxMultiSignCode, varString, varString, u64, varString]
    ++ (if 1 ≤ pv then [u32] else [])
    ++ (if pv < 2 then [.varBytes signatureLength] else []))

/-- `InactiveArbitrators` (after the `fix:` the arbiter list is read element by element) -/
def inactiveArbitrators : Ty :=
  .struct [.varBytes negativeBigLength, u32, lst 128 (.varBytes negativeBigLength)]

/-- `InactiveArbitrators.Deserialize` before the fix: `make([][]byte, count)` with the wire count -/
def inactiveArbitratorsUnfixed : Ty :=
  .struct [.varBytes negativeBigLength, u32, .list 0 none 24 0 (.varBytes negativeBigLength)]

def nextTurnDPOSInfo (pv : Nat) : Ty :=
  .struct ([u32, lst 128 (.varBytes compressedLen), lst 128 (.varBytes compressedLen)]
    ++ (if 1 ≤ pv then [lst 128 (.varBytes compressedLen)] else []))

/-- `DPOSIllegalBlocks`: both headers first, then (confirm, signers) of each evidence -/
def dposIllegalBlocks : Ty :=
  .struct [u32, u32, .varBytes maxBlockContext, .varBytes maxBlockContext,
           .varBytes maxBlockHeader, lst 128 (.varBytes compressedLen),
           .varBytes maxBlockHeader, lst 128 (.varBytes compressedLen)]

def votesWithLockTime : Ty := .struct [.varBytes maxMultiSignCode, u64, u32]
def votesContent : Ty := .struct [u8, lst 128 votesWithLockTime]
def renewalVotesContent : Ty := .struct [hash256, votesWithLockTime]
/-- `Voting`: version 0 = contents, version 1 = renewal contents; any other version is an error
    (after the `fix:`; before, the reader consumed a count that the writer never wrote). -/
def voting (pv : Nat) : Ty :=
  if pv = 0 then lst 128 votesContent else if pv = 1 then lst 128 renewalVotesContent else .fail

def crcProposalReview (pv : Nat) : Ty :=
  .struct ([hash256, u8, hash256] ++ (if 1 ≤ pv then [.varBytes maxOpinionData] else [])
    ++ [hash168, .varBytes maxSignatureScript])

/-! further payloads (layouts read off the regenerated token streams, limits checked by the token lemma) -/

/-- CRAssetsRectify, CRCAppropriation, ExchangeVotes, ReturnDepositCoin / ReturnCRDepositCoin: no content -/
def emptyPayload : Ty := .struct []
/-- CRCProposalRealWithdraw, DposV2ClaimRewardRealWithdraw: a list of transaction hashes -/
def hashList : Ty := lst 128 hash256
def activateProducer : Ty := .struct [.varBytes negativeBigLength, .varBytes signatureLength]
def crCouncilMemberClaimNode : Ty :=
  .struct [.varBytes negativeBigLength, hash168, .varBytes maxSignatureScript]
/-- `ProcessProducer` (CancelProducer): the signature is absent from the Schnorr version (1) on -/
def processProducer (pv : Nat) : Ty :=
  .struct ([.varBytes maxMultiSignCode] ++ (if pv < 1 then [.varBytes signatureLength] else []))
def record : Ty := .struct [.varBytes maxVarString, .varBytes maxPayloadData]
def recordSponsor : Ty := .struct [.varBytes compressedLen]
def revertToDPOS : Ty := .struct [u32, u32]
def revertToPOW : Ty := .struct [u8, u32]
def sideChainPow : Ty := .struct [hash256, hash256, u32, .varBytes maxPayloadData]
def updateVersion : Ty := .struct [u32, u32]
/-- `ReturnVotes` and `DPoSV2ClaimReward`: code and signature only in version 0 -/
def returnVotes (pv : Nat) : Ty :=
  .struct ([hash168] ++ (if pv = 0 then [.varBytes maxMultiSignCode] else []) ++ [u64]
    ++ (if pv = 0 then [.varBytes maxSignatureScript] else []))
/-- `CRCProposalWithdraw`: recipient and amount only in version 1 -/
def crcProposalWithdraw (pv : Nat) : Ty :=
  .struct ([hash256, .varBytes negativeBigLength] ++ (if pv = 1 then [hash168, u64] else [])
    ++ [.varBytes maxSignatureScript])

def dposProposalFields : Ty :=
  .struct [.varBytes negativeBigLength, hash256, u32, .varBytes signatureLength]
def dposProposalVoteFields : Ty :=
  .struct [hash256, .varBytes negativeBigLength, .bool1, .varBytes signatureLength]

/-! round 2: CR registration, evidence, side-chain and NFT payloads -/

/-- `CRInfo` (RegisterCR, UpdateCR): code and signature absent from the Schnorr (2) and multi-sign (3)
    versions, DID present from version 1 -/
def crInfo (pv : Nat) : Ty :=
  .struct ((if pv ≠ 2 ∧ pv ≠ 3 then [.varBytes maxMultiSignCode] else []) ++ [hash168]
    ++ (if 1 ≤ pv then [hash168] else []) ++ [varString, varString, u64]
    ++ (if pv ≠ 2 ∧ pv ≠ 3 then [.varBytes maxSignatureScript] else []))
/-- `UnregisterCR`: signature absent from versions 1 and 2 -/
def unregisterCR (pv : Nat) : Ty :=
  .struct ([hash168] ++ (if pv ≠ 1 ∧ pv ≠ 2 then [.varBytes maxSignatureScript] else []))
/-- `RegisterAsset`: asset (name, description, precision, type, record type), amount, controller -/
def registerAsset : Ty := .struct [varString, varString, u8, u8, u8, u64, hash168]
/-- `WithdrawFromSideChain`: v0 height/address/hashes, v1 nothing, v2 signer indexes, others nothing -/
def withdrawFromSideChain (pv : Nat) : Ty :=
  if pv = 0 then .struct [u32, varString, lst 128 hash256]
  else if pv = 2 then .struct [lst 16 u8] else .struct []
/-- `TransferCrossChainAsset`: only version 0 has content -/
def transferCrossChainAsset (pv : Nat) : Ty :=
  if 1 ≤ pv then .struct [] else .struct [lst 128 (.struct [varString, .varUint, u64])]
def proposalEvidence : Ty := .struct [dposProposalFields, .varBytes maxBlockContext, u32]
def dposIllegalProposals : Ty := .struct [proposalEvidence, proposalEvidence]
def voteEvidence : Ty := .struct [dposProposalVoteFields, proposalEvidence]
def dposIllegalVotes : Ty := .struct [voteEvidence, voteEvidence]
def sidechainIllegalData : Ty :=
  .struct [u8, u32, .varBytes negativeBigLength, hash256, hash256, varString, lst 128 (.varBytes signatureLength)]
/-- `CRCProposalTracking`: message data (≤ 800 KiB) and secretary opinion data (≤ 200 KiB) from version 1 -/
def crcProposalTracking (pv : Nat) : Ty :=
  .struct ([hash256, hash256] ++ (if 1 ≤ pv then [.varBytes 819200] else [])
    ++ [u8, .varBytes 35, .varBytes 35, .varBytes signatureLength, .varBytes signatureLength, u8, hash256]
    ++ (if 1 ≤ pv then [.varBytes 204800] else []) ++ [.varBytes signatureLength])
def returnSideChainDepositCoin (pv : Nat) : Ty := if pv = 1 then .struct [lst 16 u8] else .struct []
def votesRealWithdraw : Ty := lst 128 (.struct [hash256, hash168, u64])
def createNFT (pv : Nat) : Ty :=
  .struct ([hash256, varString, hash256]
    ++ (if 1 ≤ pv then [u32, u32, u64, u64, .varBytes maxMultiSignCode] else []))
/-- `RecordProposalResult`: (proposal hash, 16-bit proposal type, result flag) list; the `bool` makes the
    reader non-canonical, so the type stays outside the transaction table (stand-alone ops only) -/
def recordProposalResult : Ty := lst 128 (.struct [hash256, u16, .bool])
def nftDestroyFromSideChain : Ty := .struct [lst 128 hash256, lst 128 hash168, hash256]

/-! CRCProposal: a 16-bit proposal type selects the layout; the lists are read by `for i < int(count)` -/

def budget : Ty := .struct [u8, u8, u64]
/-- category data, owner key, draft hash, and (from version 1) the draft data -/
def crcHead (pv : Nat) : List Ty :=
  [varString, .varBytes negativeBigLength, hash256] ++ (if 1 ≤ pv then [.varBytes maxProposalData] else [])
/-- owner signature, CR council member DID and signature -/
def crcTail : List Ty := [.varBytes signatureLength, hash168, .varBytes signatureLength]
def crcNormal (pv : Nat) : Ty := .struct (crcHead pv ++ [.listI 128 budget, hash168] ++ crcTail)
def crcChangeOwner (pv : Nat) : Ty :=
  .struct (crcHead pv ++ [hash256, hash168, .varBytes negativeBigLength, .varBytes signatureLength] ++ crcTail)
def crcClose (pv : Nat) : Ty := .struct (crcHead pv ++ [hash256] ++ crcTail)
def crcSecretary (pv : Nat) : Ty :=
  .struct (crcHead pv ++ [.varBytes negativeBigLength, hash168, .varBytes signatureLength] ++ crcTail)
/-- upgrade-code proposals never carry draft data; `UpgradeCodeInfo` at its constant version 0 -/
def crcUpgrade : Ty :=
  .struct ([varString, .varBytes negativeBigLength, hash256, u32, varString, varString, hash256, .bool] ++ crcTail)
def crcSideChain (pv : Nat) : Ty :=
  .struct (crcHead pv ++ [varString, u32, hash256, u64, u32, varString] ++ crcTail)
def crcReserveID (pv : Nat) : Ty := .struct (crcHead pv ++ [.listI 128 varString] ++ crcTail)
def crcReceiveID (pv : Nat) : Ty := .struct (crcHead pv ++ [.listI 128 varString, hash168] ++ crcTail)
def crcIDFee (pv : Nat) : Ty := .struct (crcHead pv ++ [u64, u32] ++ crcTail)
/-- `CRCProposal`: every proposal type not listed (Normal, ELIP, …, unknown) has the normal layout -/
def crcProposal (pv : Nat) : Ty :=
  .tagged 2 [(0x0401, crcChangeOwner pv), (0x0402, crcClose pv), (0x0400, crcSecretary pv),
             (0x0200, crcUpgrade), (0x0201, crcUpgrade), (0x0202, crcUpgrade), (0x0410, crcSideChain pv),
             (0x0500, crcReserveID pv), (0x0501, crcReceiveID pv), (0x0502, crcIDFee pv)] (crcNormal pv)

/-! DPoS confirm (core/types/payload/confirm.go, dposproposal.go, dposproposalvote.go) -/

def dposProposal : Ty := .struct [.varBytes negativeBigLength, hash256, u32, .varBytes signatureLength]
def dposProposalVote : Ty :=
  .struct [hash256, .varBytes negativeBigLength, .bool1, .varBytes signatureLength]
/-- `Confirm`: proposal, `uint64` vote count, votes (after the `fix:` read element by element) -/
def confirm : Ty := .struct [dposProposal, .list 8 none 0 448 dposProposalVote]

/-! p2p messages whose readers pre-size a slice from the wire count *after* checking it against a
    protocol maximum (p2p/msg/inv.go, getblocks.go, addr.go) -/

def maxInvPerMsg : Nat := 50000           -- msg.MaxInvPerMsg
def maxBlockLocatorsPerMsg : Nat := 500   -- msg.MaxBlockLocatorsPerMsg
def maxAddrPerMsg : Nat := 1000           -- msg.MaxAddrPerMsg

def invVect : Ty := .struct [u32, hash256]
/-- `Inv` (also getdata / notfound): `make([]InvVect, count)` + `make([]*InvVect, 0, count)` -/
def invMsg : Ty := .list 4 (some maxInvPerMsg) 48 48 invVect
/-- `GetBlocks`: `make([]Uint256, count)` + `make([]*Uint256, 0, count)`, then the stop hash -/
def getBlocksMsg : Ty := .struct [.list 4 (some maxBlockLocatorsPerMsg) 48 0 hash256, hash256]
/-- `NetAddress`: timestamp, services, 16-byte IP, port -/
def netAddress : Ty := .struct [u64, u64, .fixed 16, u16]
/-- `Addr`: `make([]NetAddress, count)` + `make([]*NetAddress, 0, count)`; each element boxes its IP -/
def addrMsg : Ty := .list 8 (some maxAddrPerMsg) 80 96 netAddress

/-! header, block -/

def maxTxPerBlock : Nat := 10000          -- pact.MaxTxPerBlock

def btcTxIn : Ty := .struct [hash256, u32, .varBytes maxScriptSize, u32]
def btcTxOut : Ty := .struct [u64, .varBytes maxScriptSize]
def btcTx : Ty := .struct [u32, lst 128 btcTxIn, lst 128 btcTxOut, u32]
def btcHeader : Ty := .struct [u32, hash256, hash256, u32, u32, u32]
def auxPow : Ty := .struct [btcTx, hash256, lst 128 hash256, u32, lst 128 hash256, u32, btcHeader]
def headerNoAux : Ty := .struct [u32, hash256, hash256, u32, u32, u32, u32]
/-- a value of the on-disk block index bucket (`blockchain.DeserializeBlockRow`): header without
    aux-pow (84 bytes), status byte -/
def blockRow : Ty := .struct [headerNoAux, .uint 1]
/-- `Header.Serialize`: fields, aux-pow, a trailing `0x01` byte (skipped, not checked, by the reader) -/
def header : Ty := .struct [u32, hash256, hash256, u32, u32, u32, u32, auxPow, .pad1]
/-- `MerkleBlock` (p2p/msg): header, transaction count, `uint32` hash count checked against
    `MaxTxPerBlock` before `make([]Uint256, numHashes)` + `make([]*Uint256, 0, numHashes)`, flag bytes -/
def merkleBlockMsg : Ty :=
  .struct [header, u32, .list 4 (some maxTxPerBlock) 48 0 hash256, .varBytes (maxTxPerBlock / 8)]

/-! payload table: tx type → payload version → schema.  `none`: type not covered by the schema
    table (the harness does not generate it); `some .fail`: `GetPayload`/`GetTransaction` reject it. -/

inductive Cover where
  | covered (f : Nat → Ty)
  | uncovered
  | invalid

def payloadOf : Nat → Cover
  | 0x00 => .covered fun _ => coinBase
  | 0x02 => .covered fun _ => transferAsset
  | 0x09 => .covered producerInfo
  | 0x0b => .covered producerInfo
  | 0x10 => .covered fun _ => dposIllegalBlocks
  | 0x12 => .covered fun _ => inactiveArbitrators
  | 0x14 => .covered nextTurnDPOSInfo
  | 0x26 => .covered crcProposalReview
  | 0x63 => .covered voting
  | 0x03 => .covered fun _ => record
  | 0x05 => .covered fun _ => sideChainPow
  | 0x0a => .covered processProducer
  | 0x0c => .covered fun _ => emptyPayload
  | 0x0d => .covered fun _ => activateProducer
  | 0x13 => .covered fun _ => updateVersion
  | 0x24 => .covered fun _ => emptyPayload
  | 0x28 => .covered fun _ => emptyPayload
  | 0x29 => .covered crcProposalWithdraw
  | 0x2a => .covered fun _ => hashList
  | 0x2b => .covered fun _ => emptyPayload
  | 0x31 => .covered fun _ => crCouncilMemberClaimNode
  | 0x41 => .covered fun _ => revertToPOW
  | 0x42 => .covered fun _ => revertToDPOS
  | 0x60 => .covered returnVotes
  | 0x61 => .covered fun _ => hashList
  | 0x62 => .covered fun _ => emptyPayload
  | 0x64 => .covered returnVotes
  | 0x66 => .covered fun _ => recordSponsor
  | 0x01 => .covered fun _ => registerAsset
  | 0x07 => .covered withdrawFromSideChain
  | 0x08 => .covered transferCrossChainAsset
  | 0x0e => .covered fun _ => dposIllegalProposals
  | 0x11 => .covered fun _ => sidechainIllegalData
  | 0x21 => .covered crInfo
  | 0x22 => .covered unregisterCR
  | 0x23 => .covered crInfo
  | 0x27 => .covered crcProposalTracking
  | 0x51 => .covered returnSideChainDepositCoin
  | 0x65 => .covered fun _ => votesRealWithdraw
  | 0x71 => .covered createNFT
  | 0x72 => .covered fun _ => nftDestroyFromSideChain
  -- the other types `GetTransaction` knows
  -- not canonical: the accept byte of a vote (read as "== 1"), a `bool`, int-cast loops and a `bool`
  | 0x0f => .covered fun _ => dposIllegalVotes
  | 0x15 => .covered fun _ => recordProposalResult
  | 0x25 => .covered crcProposal
  | _ => .invalid

/-- the fields of a transaction after the type byte, without the programs:
    payload version byte + payload, attributes, inputs, outputs, lock time -/
def txBody (payload : Nat → Ty) (v9 : Bool) : List Ty :=
  [.tagged 1 [(0, payload 0), (1, payload 1), (2, payload 2), (3, payload 3)] (payload 4),
   lst 96 attributeTy, lst 96 input, lst 256 (output v9), u32]

def programs : Ty := lst 96 program

end ElaVerif.WireSchemas
