import ElaVerif.Model.WireDriver
import ElaVerif.Model.WalletCont
import ElaVerif.Lemmas.WireTokens
import ElaVerif.Gen.C23
/-
  Driver step for C23 (core Lean only; `Lemmas/WireTokens.lean` and the regenerated `Gen/C23.lean`
  contain no Mathlib import).  The schema of a checkpoint type is *derived* from the regenerated
  read-token stream of its `Deserialize` (`WireTokens.ofToks`); types whose stream still contains a
  dynamic dispatch outside a list element have no decodable schema and are answered `unmodelled`.

    mpsnap <tx hex> …            → live <n> snap <n>
    wcont <N> <k> <h>:<tx hex> … → dflt <h|none> coins <n> owned <m>      (Model/WalletCont.lean)
    ckpt <type> <hex> <digest>   → ok <consumed> <sha256d(re-encoding of the decoded value)> | err | unmodelled
    ckpt <type> <hex> -          → ok <consumed> <sha256d(the consumed bytes)> | err      (damaged file)
-/
namespace ElaVerif.CheckpointDriver
open ElaVerif.Bytes ElaVerif.Wire ElaVerif.WireTokens ElaVerif.WireDriver ElaVerif.WireSchemas

/-! wallet coin checkpoint (wallet/coincheckpoint.go, coin.go, ownedcoins.go).  A `Coin` is written as
    its transaction-version byte, the output *as that version writes it* (type byte and output payload
    only from `TxVersion09` on) and the height — a layout selected by a byte read from the file, which a
    token stream cannot express; the coin schema is therefore written by hand and tied to the
    regenerated `wallet.Coin` stream by `C23_gen_wallet_coin`.  The owned-coins map is derived from its
    reader's stream like every other checkpoint part. -/

def coinCases : List (Nat × Ty) :=
  [(0, output false), (1, output false), (2, output false), (3, output false), (4, output false),
   (5, output false), (6, output false), (7, output false), (8, output false)]

def coinTy : Ty := .struct [.tagged 1 coinCases (output true), .fixed 4]

def ownedCoinsTy : Ty :=
  match findStream Gen.C23.walletParts "wallet.OwnedCoins" with
  | some s => ofToks s.de
  | none => .fail

/-- height, `map[OutPoint]*Coin` (32-bit count), owned coins -/
def walletTy : Ty :=
  .struct [.fixed 4, .list 4 none 0 128 (.struct [.fixed 32, .fixed 2, coinTy]), ownedCoinsTy]

def schemaOf (name : String) : Option Ty :=
  if name = "wallet.CoinsCheckPoint" then some walletTy else
  match findStream Gen.C23.streams name with
  | some s =>
    -- a dynamic dispatch inside a list element (the `ArbiterMember` lists of the DPoS CheckPoint) is
    -- tolerated: such a schema decodes every instance whose lists of that kind are empty
    let ty := ofToks s.de; if hasFailOutsideList ty then none else some ty
  | none => none

/-! mempool checkpoint (mempool/txpoolcheckpoint.go).  The pool embeds its checkpoint, so the pool's
    transaction list *is* the live checkpoint's `txnList`. -/

structure PoolCkpt where
  height : Nat
  /-- `txnList` (transactions as opaque encodings) -/
  txnList : List String

/-- `appendToTxPool` as far as the list is concerned: a transaction already in the pool is refused -/
def appendToPool (pool : List String) (tx : String) : List String :=
  if pool.contains tx then pool else pool ++ [tx]

/-- `txPoolCheckpoint.Deserialize` into `fresh`: the height is stored in the checkpoint, every
    transaction read is handed to the POOL (`c.txPool.appendToTxPool(tx)`); the checkpoint's own
    `txnList` is never written. -/
def deserializeInto (fresh : PoolCkpt) (pool : List String) (height : Nat) (txs : List String) :
    PoolCkpt × List String :=
  ({ fresh with height := height }, txs.foldl appendToPool pool)

/-- `Snapshot()`: serialize the live checkpoint, deserialize the bytes into
    `newTxPoolCheckpoint(c.txPool, …)` (an empty `txnList`, the same pool) and return that object. -/
def snapshot (live : PoolCkpt) : PoolCkpt :=
  (deserializeInto ⟨0, []⟩ live.txnList live.height live.txnList).1

def stepMpSnap (txs : List String) : String :=
  s!"live {txs.length} snap {(snapshot ⟨0, txs⟩).txnList.length}"

def step : List String → String
  | "mpsnap" :: txs => stepMpSnap txs
  | "wcont" :: args => WalletCont.stepWCont args
  | "ckpt" :: name :: hex :: more =>
    match schemaOf name, hexBytes? hex with
    | some ty, some bs =>
      (match (decodeA ty bs).res with
       | some (v, rest) =>
         let n := bs.length - rest.length
         -- a file the writer produced: the re-encoding of what was read must be the bytes read;
         -- a damaged file (`-`): agreement on acceptance and on the number of bytes read
         let out := if more = ["-"] then bs.take n else encode ty v
         s!"ok {n} {toHex (Sha256.sha256d out)}"
       | none => "err")
    | none, some _ => "unmodelled"
    | _, none => "bad-op"
  | _ => "bad-op"

end ElaVerif.CheckpointDriver
