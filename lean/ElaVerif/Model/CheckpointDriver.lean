import ElaVerif.Model.WireDriver
import ElaVerif.Lemmas.WireTokens
import ElaVerif.Gen.C23
/-
  Driver step for C23 (core Lean only; `Lemmas/WireTokens.lean` and the regenerated `Gen/C23.lean`
  contain no Mathlib import).  The schema of a checkpoint type is *derived* from the regenerated
  read-token stream of its `Deserialize` (`WireTokens.ofToks`); types whose stream still contains a
  dynamic dispatch outside a list element have no decodable schema and are answered `unmodelled`.

    ckpt <type> <hex> <digest>   → ok <consumed> <sha256d(re-encoding of the decoded value)> | err | unmodelled
-/
namespace ElaVerif.CheckpointDriver
open ElaVerif.Bytes ElaVerif.Wire ElaVerif.WireTokens ElaVerif.WireDriver

def schemaOf (name : String) : Option Ty :=
  match findStream Gen.C23.streams name with
  | some s =>
    -- a dynamic dispatch inside a list element (the `ArbiterMember` lists of the DPoS CheckPoint) is
    -- tolerated: such a schema decodes every instance whose lists of that kind are empty
    let ty := ofToks s.de; if hasFailOutsideList ty then none else some ty
  | none => none

def step : List String → String
  | "ckpt" :: name :: hex :: _ =>
    match schemaOf name, hexBytes? hex with
    | some ty, some bs =>
      (match (decodeA ty bs).res with
       | some (v, rest) =>
         let n := bs.length - rest.length
         s!"ok {n} {toHex (Sha256.sha256d (encode ty v))}"
       | none => "err")
    | none, some _ => "unmodelled"
    | _, none => "bad-op"
  | _ => "bad-op"

end ElaVerif.CheckpointDriver
