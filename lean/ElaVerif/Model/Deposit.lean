/-
  C28 — abstract account machine mirroring the deposit / vote-right bookkeeping of
  dpos/state/state.go and the context checks of core/transaction/{returndepositcoin,
  cancelproducer, voting, returnvotes}transaction.go.

  * one account per producer owner key: `totalAmount`, `depositAmount` (the lock),
    `penalty`, the Canceled / Returned / Illegal bits that influence the bookkeeping;
  * one record per stake address: `DposV2VoteRights`, `UsedDposV2Votes` and the
    detailed votes with their lock time (they expire inside `processTransactions`);
  * a block = list of transactions.  Every transaction is checked against the state
    BEFORE the block (`blockchain.checkTxsContext` runs all context checks before
    `State.ProcessBlock` mutates anything).  `State.ProcessBlock` then works in two phases,
    because every mutation is a closure queued with `History.Append` and executed only by
    `History.Commit` at the end of the block: the *decisions* (which producer a deposit
    output belongs to, whether an evidence hits an active producer, which pending producers
    activate, which cancelled producers unlock) read the PRE-BLOCK state, the queued
    *updates* then run in order.  `acctStep` therefore takes the pre-block account `a0`.

  `Fixed64` is modelled as `Int` (no wrap-around; amounts in the correspondence are far
  below 2^62 — the wrap-around of `Fixed64` sums is the subject of C01).
  Core Lean only.
-/
namespace ElaVerif.Deposit

/-! ## association lists keyed by `Nat` -/

abbrev AMap (α : Type) := List (Nat × α)

def get {α : Type} (k : Nat) : AMap α → Option α
  | [] => none
  | (k', v) :: t => if k' = k then some v else get k t

/-- modify the value stored under `k` (no-op when absent). -/
def upd {α : Type} (k : Nat) (f : α → α) : AMap α → AMap α
  | [] => []
  | (k', v) :: t => if k' = k then (k', f v) :: upd k f t else (k', v) :: upd k f t

def mapKV {α : Type} (f : Nat → α → α) : AMap α → AMap α
  | [] => []
  | (k, v) :: t => (k, f k v) :: mapKV f t

/-! ## state -/

/-- `ProducerState` (the values that occur here). -/
inductive PState | pending | active | canceled | returned | illegal
  deriving DecidableEq, Repr

structure Acct where
  total    : Int          -- Producer.totalAmount
  deposit  : Int          -- Producer.depositAmount (the lock)
  penalty  : Int          -- Producer.penalty
  st       : PState       -- Producer.state
  mP       : Bool         -- key ∈ State.PendingProducers
  mA       : Bool         -- key ∈ State.ActivityProducers
  mL       : Bool         -- key ∈ State.IllegalProducers
  mC       : Bool         -- key ∈ State.CanceledProducers
  v2       : Bool         -- identity DPoSV2 (registered with StakeUntil ≠ 0); cannot be cancelled by tx
  regH     : Nat          -- registerHeight
  cancelH  : Nat          -- cancelHeight
  cin      : Int          -- ghost: tracked coins that entered the deposit address
  cout     : Int          -- ghost: tracked coins that left it (net of change)
  deriving DecidableEq, Repr

def Acct.available (a : Acct) : Int := a.total - a.deposit - a.penalty

structure Vote where
  lock   : Nat
  amount : Int
  deriving DecidableEq, Repr

structure Stake where
  rights : Int            -- DposV2VoteRights[addr]
  used   : Int            -- UsedDposV2Votes[addr]
  live   : List Vote      -- detailed DPoS v2 votes not yet expired
  deriving DecidableEq, Repr

structure State where
  accts  : AMap Acct
  stakes : AMap Stake
  deriving DecidableEq, Repr

def State.empty : State := ⟨[], []⟩

structure Params where
  lockup     : Nat        -- CRConfiguration.DepositLockupBlocks
  minDeposit : Int        -- state.MinDepositAmount
  minFee     : Int        -- MinTransactionFee
  retvFee    : Int        -- CRConfiguration.RealWithdrawSingleFee
  minLock    : Nat        -- DPoSV2MinVotesLockTime
  maxLock    : Nat        -- DPoSV2MaxVotesLockTime
  deriving DecidableEq, Repr

/-- `ActivateDuration` -/
def activateDuration : Nat := 6

inductive Tx
  | reg (o : Nat) (amount lock : Int) (v2 : Bool)     -- RegisterProducer (environment)
  | dep (o : Nat) (v : Int)                           -- any tx paying the deposit address
  | cancel (o : Nat)                                  -- CancelProducer
  | ret (o : Nat) (inp tinp change out : Int)         -- ReturnDepositCoin
  | pen (o : Nat) (p : Int)                           -- illegal evidence naming o (environment)
  | stake (k : Nat) (v : Int)                         -- ExchangeVotes (environment)
  | vote (k : Nat) (lock : Nat) (vs : List Int) (bad : Option Nat)  -- Voting, DPoS v2 content
  | retv (k : Nat) (v : Int)                          -- ReturnVotes
  | renew (k : Nat) (oldLock : Nat) (amount : Int) (newLock born : Nat)  -- Voting, renewal content (one vote)
  deriving DecidableEq, Repr

def sumI : List Int → Int
  | [] => 0
  | x :: t => x + sumI t

def sumV : List Vote → Int
  | [] => 0
  | v :: t => v.amount + sumV t

/-! ## context checks (evaluated on the pre-block state) -/

/-- largest `Fixed64` (int64) value -/
def maxI64 : Int := 9223372036854775807

/-- `checkDPoSV2Content`: candidates / lock time are examined per vote in order, the running total must fit a
    Fixed64 (the overflow guard of the `fix:` commit), then the total is compared with the free rights. -/
def voteLoop (h lock minLock maxLock : Nat) (bad : Option Nat) : Nat → Int → List Int → Option String
  | _, _, [] => none
  | i, sum, v :: t =>
    if bad = some i then some "cand"
    else if lock ≤ h ∨ lock - h < minLock ∨ lock - h > maxLock then some "lock"
    else if sum + v > maxI64 then some "overflow"
    else voteLoop h lock minLock maxLock bad (i + 1) (sum + v) t

/-- `none` = accepted; `some reason` = rejected. -/
def check (P : Params) (h : Nat) (s0 : State) : Tx → Option String
  | .reg _ _ _ _ => none
  | .dep _ _ => none
  | .pen _ _ => none
  | .stake _ v => if v ≤ 0 then some "value" else none   -- ExchangeVotes.CheckTransactionOutput: output value must be > 0
  | .cancel o =>
    match get o s0.accts with
    | none => some "noprod"
    | some a => if a.v2 ∨ a.st = .illegal ∨ a.st = .canceled then some "state" else none
  | .ret o inp _ change out =>
    match get o s0.accts with
    | none => some "noprod"
    | some a => if inp - change > a.available ∨ out ≥ a.available then some "overspend" else none
  | .vote k lock vs bad =>
    -- the payload's own validation (Voting.Validate) refuses non-positive votes before the context check runs
    if vs.any (· ≤ 0) then some "zero" else
    match get k s0.stakes with
    | none => some "norights"
    | some t =>
      match voteLoop h lock P.minLock P.maxLock bad 0 0 vs with
      | some e => some e
      | none => if sumI vs > t.rights - t.used then some "notenough" else none
  | .renew k oldLock amount newLock born =>
    match get k s0.stakes with
    | none => some "norights"
    | some t =>
      if (⟨oldLock, amount⟩ : Vote) ∉ t.live then some "novote"
      else if newLock ≤ oldLock ∨ newLock - born > P.maxLock then some "lock"
      else none
  | .retv k v =>
    if v ≤ P.retvFee then some "small" else
    match get k s0.stakes with
    | none => if v > 0 then some "notenough" else none
    | some t => if v > t.rights - t.used ∨ v > t.rights then some "notenough" else none   -- the other used-vote kinds are 0 here

/-! ## state updates (`processTransaction`; queued closures) -/

def newAcct (h : Nat) (amount lock : Int) (v2 : Bool) : Acct :=
  { total := amount, deposit := lock, penalty := 0, st := .pending, mP := true, mA := false,
    mL := false, mC := false, v2 := v2, regH := h,
    cancelH := 0, cin := amount, cout := 0 }

/-- effect of a transaction on the account of its owner; `a0` is the owner's account
    BEFORE the block (decisions), `a` the current one (updates). -/
def acctStep (P : Params) (h : Nat) (a0 : Acct) : Tx → Acct → Acct
  | .dep _ v, a => { a with total := a.total + v, cin := a.cin + v }
  | .cancel _, a =>
    { a with st := .canceled, cancelH := h, mC := true,
             mP := if a0.st = .pending then false else a.mP,
             mA := if a0.st = .active then false else a.mA }
  | .ret _ _ tinp change _, a =>
    let total' := a.total - tinp + change
    { a with total := total', cout := a.cout + (tinp - change),
             st := if a.st = .canceled ∧ total' - a.penalty ≤ P.minFee then .returned else a.st }
  | .pen _ p, a =>
    if a0.mA then { a with penalty := a.penalty + p, st := .illegal, mL := true, mA := false }
    else if a0.mL then { a with penalty := a.penalty + p }
    else if a0.mC then { a with penalty := a.penalty + p, st := .illegal, mL := true, mC := false }
    else a
  | _, a => a

def stakeStep : Tx → Stake → Stake
  | .stake _ v, t => { t with rights := t.rights + v }
  | .vote _ lock vs _, t => { t with used := t.used + sumI vs, live := t.live ++ vs.map (fun v => ⟨lock, v⟩) }
  | .retv _ v, t => { t with rights := t.rights - v }
  | .renew _ oldLock amount newLock _, t =>
    -- the closure deletes the old detailed vote (if still there) and stores the renewed one
    { t with live := t.live.erase ⟨oldLock, amount⟩ ++ [⟨newLock, amount⟩] }
  | _, t => t

def applyTx (P : Params) (h : Nat) (s0 s : State) (tx : Tx) : State :=
  match tx with
  | .reg o amount lock v2 =>
    match get o s.accts with
    | some _ => s
    | none => { s with accts := (o, newAcct h amount lock v2) :: s.accts }
  | .stake k v =>
    match get k s.stakes with
    | some _ => { s with stakes := upd k (stakeStep tx) s.stakes }
    | none => { s with stakes := (k, ⟨v, 0, []⟩) :: s.stakes }
  | .retv k v =>
    match get k s.stakes with
    | some _ => { s with stakes := upd k (stakeStep tx) s.stakes }
    | none => { s with stakes := (k, ⟨-v, 0, []⟩) :: s.stakes }   -- Go map default 0
  | .vote k _ _ _ | .renew k _ _ _ _ => { s with stakes := upd k (stakeStep tx) s.stakes }
  | .dep o _ | .cancel o | .ret o _ _ _ _ | .pen o _ =>
    match get o s0.accts with
    | none => s                       -- producer unknown before the block: nothing is queued
    | some a0 => { s with accts := upd o (acctStep P h a0 tx) s.accts }

/-! ## end of block: activation and vote expiry (tail of `processTransactions`), then the
    deposit unlock (`updateProducersDepositCoin`); all decided on the pre-block state -/

def expireStake (h : Nat) (t : Stake) : Stake :=
  { t with used := t.used - sumV (t.live.filter (fun v => v.lock < h)),
           live := t.live.filter (fun v => ¬ v.lock < h) }

def endAcct (P : Params) (h : Nat) (a0 a : Acct) : Acct :=
  let a1 := if a0.mP ∧ h - a0.regH + 1 ≥ activateDuration then { a with st := .active, mA := true, mP := false } else a
  if a0.mC ∧ a0.st = .canceled ∧ h - a0.cancelH = P.lockup then { a1 with deposit := a1.deposit - P.minDeposit } else a1

def endBlock (P : Params) (h : Nat) (s0 s : State) : State :=
  { accts := mapKV (fun k a => match get k s0.accts with | some a0 => endAcct P h a0 a | none => a) s.accts,
    stakes := mapKV (fun _ t => expireStake h t) s.stakes }

def applyTxs (P : Params) (h : Nat) (s0 : State) (txs : List Tx) : State :=
  endBlock P h s0 (txs.foldl (applyTx P h s0) s0)

/-- A block: all context checks against the pre-block state, then apply. -/
def applyBlock (P : Params) (h : Nat) (s : State) (txs : List Tx) : Option State :=
  if txs.all (fun tx => (check P h s tx).isNone) then some (applyTxs P h s txs) else none

end ElaVerif.Deposit
