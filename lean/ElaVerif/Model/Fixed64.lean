/-
  Fixed64 — Go's `common.Fixed64` (an `int64` counting sela, 10^-8 ELA).

  Go's `+`/`-` on `int64` wrap around silently (two's complement), so amounts
  are modelled as `BitVec 64`: `+` and `-` of `BitVec` are exactly Go's wrapping
  operations, `toInt` is the signed reading, `slt` is Go's signed `<`.
  `sumW` is the wrapping running total the Go loops compute
  (`for … { total += v }`), `sumZ` the exact integer sum the property talks about.

  Core Lean only.
-/
namespace ElaVerif.Fixed64

abbrev Fixed64 := BitVec 64

/-- the signed reading of the 64 bits (what Go prints for an `int64`) -/
@[inline] def toInt (x : Fixed64) : Int := BitVec.toInt x

/-- Go `int64(i)` for an integer of any size: keep the low 64 bits -/
@[inline] def ofInt (i : Int) : Fixed64 := BitVec.ofInt 64 i

/-- Go's signed `a < b` -/
@[inline] def lt (a b : Fixed64) : Bool := BitVec.slt a b

/-- `for _, v := range xs { total += v }` starting from `acc` (wraps like Go) -/
def sumFrom (acc : Fixed64) : List Fixed64 → Fixed64
  | [] => acc
  | x :: xs => sumFrom (acc + x) xs

/-- wrapping total of a list of amounts, as every fee loop in the node computes it -/
def sumW (xs : List Fixed64) : Fixed64 := sumFrom 0 xs

/-- exact integer total (no wrap): what "summed as exact integers" means -/
def sumZ : List Fixed64 → Int
  | [] => 0
  | x :: xs => toInt x + sumZ xs

def maxInt64 : Int := 9223372036854775807

/-- 1 ELA in sela -/
def ELA : Int := 100000000

end ElaVerif.Fixed64
