/-
  CRC-32 with the Castagnoli polynomial (Go: `crc32.MakeTable(crc32.Castagnoli)`),
  bitwise, reflected (0x82F63B78).  Core Lean only.  Only there so that model
  outputs are byte-comparable with Go; no theorem depends on its internals
  (the block-store theorems hold for any checksum function).
-/
namespace ElaVerif.Crc32c

def step (crc : UInt32) (b : UInt8) : UInt32 :=
  let c := crc ^^^ b.toUInt32
  let f (c : UInt32) : UInt32 := if c &&& 1 = 1 then (c >>> 1) ^^^ 0x82F63B78 else c >>> 1
  f (f (f (f (f (f (f (f c)))))))

def crc32c (bs : List UInt8) : Nat := ((bs.foldl step 0xFFFFFFFF) ^^^ 0xFFFFFFFF).toNat

end ElaVerif.Crc32c
