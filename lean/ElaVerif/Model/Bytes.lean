/-
  Byte-level primitives of common/serialize.go (core Lean only):
  little-endian fixed-width integers (`WriteUint8/16/32/64`, `ReadUint…`),
  the variable length integer (`WriteVarUint` / `ReadVarUint`, including the
  canonical-form rule `ReadVarUint` enforces), and prefix splitting
  (`io.ReadFull` of `n` bytes).
-/
namespace ElaVerif.Bytes

abbrev Bytes := List UInt8

/-- `n` bytes little endian (value taken modulo `256^n`, as the Go conversions `uint8(val)` … do). -/
def leEnc : Nat → Nat → Bytes
  | 0, _ => []
  | k + 1, n => UInt8.ofNat (n % 256) :: leEnc k (n / 256)

def leDec : Bytes → Nat
  | [] => 0
  | b :: bs => b.toNat + 256 * leDec bs

/-- `io.ReadFull(r, buf[:n])`: the next `n` bytes and the rest, or `none` (EOF / unexpected EOF).
    One pass over the `n` bytes taken (the length of the remaining input is never computed, so reading a
    long message field by field stays linear). -/
def take? : Nat → Bytes → Option (Bytes × Bytes)
  | 0, bs => some ([], bs)
  | _ + 1, [] => none
  | n + 1, b :: bs =>
    match take? n bs with
    | some (a, r) => some (b :: a, r)
    | none => none

/-- `ReadUint8/16/32/64` for `k = 1,2,4,8`. -/
def readLE (k : Nat) (bs : Bytes) : Option (Nat × Bytes) :=
  match take? k bs with
  | some (a, r) => some (leDec a, r)
  | none => none

/-- `WriteVarUint`. -/
def encVarUint (n : Nat) : Bytes :=
  if n < 0xfd then leEnc 1 n
  else if n ≤ 0xffff then UInt8.ofNat 0xfd :: leEnc 2 n
  else if n ≤ 0xffffffff then UInt8.ofNat 0xfe :: leEnc 4 n
  else UInt8.ofNat 0xff :: leEnc 8 n

/-- body of the three long forms of `ReadVarUint`: read `k` bytes, reject values below `min`. -/
def readMin (k min : Nat) (bs : Bytes) : Option (Nat × Bytes) :=
  match readLE k bs with
  | some (v, r) => if v < min then none else some (v, r)
  | none => none

/-- `ReadVarUint` (non-canonical encodings are errors). -/
def decVarUint : Bytes → Option (Nat × Bytes)
  | [] => none
  | d :: bs =>
    if d.toNat = 0xff then readMin 8 0x100000000 bs
    else if d.toNat = 0xfe then readMin 4 0x10000 bs
    else if d.toNat = 0xfd then readMin 2 0xfd bs
    else some (d.toNat, bs)

/-! ### lemmas (core tactics only) -/

theorem leEnc_length (k n : Nat) : (leEnc k n).length = k := by
  induction k generalizing n with
  | zero => rfl
  | succ k ih => simp [leEnc, ih]

theorem leDec_lt (bs : Bytes) : leDec bs < 256 ^ bs.length := by
  induction bs with
  | nil => simp [leDec]
  | cons b bs ih =>
    have hb : b.toNat < 256 := b.toNat_lt
    simp only [leDec, List.length_cons, Nat.pow_succ]
    omega

theorem toNat_ofNat_mod (n : Nat) : (UInt8.ofNat (n % 256)).toNat = n % 256 := by
  simp [UInt8.toNat_ofNat']

theorem leDec_leEnc (k n : Nat) (h : n < 256 ^ k) : leDec (leEnc k n) = n := by
  induction k generalizing n with
  | zero => simp [Nat.pow_zero] at h; simp [leEnc, leDec, h]
  | succ k ih =>
    have h2 : n / 256 < 256 ^ k := by
      rw [Nat.pow_succ] at h
      exact Nat.div_lt_of_lt_mul (by rw [Nat.mul_comm]; exact h)
    simp only [leEnc, leDec, toNat_ofNat_mod, ih _ h2]
    omega

theorem ofNat_toNat_mod (b : UInt8) (m : Nat) : UInt8.ofNat ((b.toNat + 256 * m) % 256) = b := by
  have hb : b.toNat < 256 := b.toNat_lt
  have : (b.toNat + 256 * m) % 256 = b.toNat := by omega
  rw [this]; simp

theorem leEnc_leDec (bs : Bytes) : leEnc bs.length (leDec bs) = bs := by
  induction bs with
  | nil => rfl
  | cons b bs ih =>
    have hb : b.toNat < 256 := b.toNat_lt
    have h1 : (b.toNat + 256 * leDec bs) / 256 = leDec bs := by omega
    simp only [List.length_cons, leEnc, leDec, ofNat_toNat_mod, h1, ih]

theorem take?_append (a rest : Bytes) : take? a.length (a ++ rest) = some (a, rest) := by
  induction a with
  | nil => simp [take?]
  | cons b a ih => simp [take?, ih]

theorem take?_some {n : Nat} {bs a r : Bytes} (h : take? n bs = some (a, r)) :
    bs = a ++ r ∧ a.length = n := by
  induction n generalizing bs a with
  | zero =>
    simp only [take?, Option.some.injEq, Prod.mk.injEq] at h
    obtain ⟨rfl, rfl⟩ := h
    simp
  | succ n ih =>
    cases bs with
    | nil => simp [take?] at h
    | cons b bs =>
      simp only [take?] at h
      cases ht : take? n bs with
      | none => simp [ht] at h
      | some p =>
        obtain ⟨a', r'⟩ := p
        simp only [ht, Option.some.injEq, Prod.mk.injEq] at h
        obtain ⟨rfl, rfl⟩ := h
        obtain ⟨e1, e2⟩ := ih ht
        exact ⟨by simp [e1], by simp [e2]⟩

theorem readLE_enc (k n : Nat) (rest : Bytes) (h : n < 256 ^ k) :
    readLE k (leEnc k n ++ rest) = some (n, rest) := by
  have := take?_append (leEnc k n) rest
  rw [leEnc_length] at this
  simp [readLE, this, leDec_leEnc k n h]

theorem readLE_some {k : Nat} {bs r : Bytes} {v : Nat} (h : readLE k bs = some (v, r)) :
    bs = leEnc k v ++ r ∧ v < 256 ^ k := by
  unfold readLE at h
  split at h
  · rename_i a r' ht
    simp only [Option.some.injEq, Prod.mk.injEq] at h
    obtain ⟨rfl, rfl⟩ := h
    obtain ⟨hbs, hlen⟩ := take?_some ht
    subst hlen
    exact ⟨by rw [leEnc_leDec]; exact hbs, leDec_lt a⟩
  · simp at h

theorem readLE_length {k : Nat} {bs r : Bytes} {v : Nat} (h : readLE k bs = some (v, r)) :
    bs.length = k + r.length := by
  obtain ⟨hbs, _⟩ := readLE_some h
  rw [hbs, List.length_append, leEnc_length]

theorem ofNat_toNat_eq (n : Nat) (h : n < 256) : (UInt8.ofNat n).toNat = n := by
  simp [UInt8.toNat_ofNat']; omega

theorem decVarUint_enc (n : Nat) (rest : Bytes) (h : n < 2 ^ 64) :
    decVarUint (encVarUint n ++ rest) = some (n, rest) := by
  unfold encVarUint
  split
  · rename_i h1
    have h2 : n / 256 = 0 := by omega
    have h3 : n % 256 = n := by omega
    simp only [leEnc, List.cons_append, List.nil_append, decVarUint, h3]
    have : (UInt8.ofNat n).toNat = n := ofNat_toNat_eq n (by omega)
    rw [this]
    have a1 : ¬ n = 0xff := by omega
    have a2 : ¬ n = 0xfe := by omega
    have a3 : ¬ n = 0xfd := by omega
    simp [a1, a2, a3]
  · split
    · rename_i h1 h2
      simp only [List.cons_append, decVarUint]
      have e : (UInt8.ofNat 0xfd).toNat = 0xfd := by decide
      simp only [e]
      have r := readLE_enc 2 n rest (by omega)
      simp only [readMin, r]
      have : ¬ n < 0xfd := h1
      simp [this]
    · split
      · rename_i h1 h2 h3
        simp only [List.cons_append, decVarUint]
        have e : (UInt8.ofNat 0xfe).toNat = 0xfe := by decide
        simp only [e]
        have r := readLE_enc 4 n rest (by omega)
        simp only [readMin, r]
        have : ¬ n < 0x10000 := by omega
        simp [this]
      · rename_i h1 h2 h3
        simp only [List.cons_append, decVarUint]
        have e : (UInt8.ofNat 0xff).toNat = 0xff := by decide
        simp only [e]
        have r := readLE_enc 8 n rest (by omega)
        simp only [readMin, r]
        have : ¬ n < 0x100000000 := by omega
        simp [this]

theorem readMin_some {k m : Nat} {bs r : Bytes} {v : Nat} (h : readMin k m bs = some (v, r)) :
    bs = leEnc k v ++ r ∧ v < 256 ^ k ∧ m ≤ v := by
  unfold readMin at h
  split at h
  · rename_i v' r' hr
    split at h
    · simp at h
    · simp only [Option.some.injEq, Prod.mk.injEq] at h
      obtain ⟨rfl, rfl⟩ := h
      obtain ⟨a, b⟩ := readLE_some hr
      exact ⟨a, b, by omega⟩
  · simp at h

theorem eq_ofNat_of_toNat {d : UInt8} {n : Nat} (h : d.toNat = n) : d = UInt8.ofNat n := by
  subst h; simp

/-- canonical form: whatever `ReadVarUint` accepts is exactly what `WriteVarUint` writes. -/
theorem decVarUint_some {bs r : Bytes} {v : Nat} (h : decVarUint bs = some (v, r)) :
    bs = encVarUint v ++ r ∧ v < 2 ^ 64 := by
  cases bs with
  | nil => simp [decVarUint] at h
  | cons d bs =>
    have hd : d.toNat < 256 := d.toNat_lt
    simp only [decVarUint] at h
    split at h
    · rename_i hd1
      obtain ⟨a, b, c⟩ := readMin_some h
      have : ¬ v < 0xfd := by omega
      have h2 : ¬ v ≤ 0xffff := by omega
      have h3 : ¬ v ≤ 0xffffffff := by omega
      simp only [encVarUint, this, h2, h3, if_false, List.cons_append]
      exact ⟨by rw [a, eq_ofNat_of_toNat hd1], by omega⟩
    · split at h
      · rename_i _ hd1
        obtain ⟨a, b, c⟩ := readMin_some h
        have : ¬ v < 0xfd := by omega
        have h2 : ¬ v ≤ 0xffff := by omega
        have h3 : v ≤ 0xffffffff := by omega
        simp only [encVarUint, this, h2, h3, if_false, if_true, List.cons_append]
        exact ⟨by rw [a, eq_ofNat_of_toNat hd1], by omega⟩
      · split at h
        · rename_i _ _ hd1
          obtain ⟨a, b, c⟩ := readMin_some h
          have : ¬ v < 0xfd := by omega
          have h2 : v ≤ 0xffff := by omega
          simp only [encVarUint, this, h2, if_false, if_true, List.cons_append]
          exact ⟨by rw [a, eq_ofNat_of_toNat hd1], by omega⟩
        · rename_i h1 h2 h3
          simp only [Option.some.injEq, Prod.mk.injEq] at h
          obtain ⟨rfl, rfl⟩ := h
          have : d.toNat < 0xfd := by omega
          have e1 : d.toNat / 256 = 0 := by omega
          have e2 : d.toNat % 256 = d.toNat := by omega
          simp only [encVarUint, this, if_true, leEnc, e2, List.cons_append, List.nil_append]
          exact ⟨by simp, by omega⟩

theorem encVarUint_length_pos (n : Nat) : 1 ≤ (encVarUint n).length := by
  unfold encVarUint
  split
  · simp [leEnc]
  · split
    · simp
    · split <;> simp

theorem encVarUint_length_le (n : Nat) : (encVarUint n).length ≤ 9 := by
  unfold encVarUint
  split
  · simp [leEnc_length]
  · split
    · simp [leEnc_length]
    · split <;> simp [leEnc_length]

theorem decVarUint_length {bs r : Bytes} {v : Nat} (h : decVarUint bs = some (v, r)) :
    r.length + 1 ≤ bs.length := by
  obtain ⟨a, _⟩ := decVarUint_some h
  have := encVarUint_length_pos v
  rw [a, List.length_append]; omega

end ElaVerif.Bytes
