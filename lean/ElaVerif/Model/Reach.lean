/-
  Reachability as certificate checking (DESIGN §6), core Lean only.  Used by C24, C38.

  The extractor (untrusted for this part) emits a directed graph over node ids `0 … n-1` in
  *packed adjacency form* and a candidate closed set `R` as a `Nat` bit mask.  Lean checks
      every adjacency word is closed on R     (source ∉ R, or all successors ∈ R)
      the seeds are in R, the forbidden nodes are not
  by `decide +kernel`, and the lemmas below, proved once for all graphs, turn that into
  `¬ Reachable edges seed bad`.

  Packing (chosen because the kernel evaluates a few big-number operations per node quickly,
  whereas elaborating list literals with tens of thousands of numerals is slow):
  an adjacency word is a little-endian sequence of 16-bit fields `id+1`, terminated by 0;
  the first field is the source, the others its successors.  Tables (node ↦ package index) are
  one big number of 16-bit fields.
-/
namespace ElaVerif.Reach

abbrev Edge := Nat × Nat

/-- membership in a bit-mask set -/
def mem (R : Nat) (i : Nat) : Bool := Nat.beq (Nat.land (Nat.shiftRight R i) 1) 1

/-- every edge of the list that starts in `R` ends in `R` -/
def closedOn (R : Nat) (es : List Edge) : Bool := es.all (fun e => !mem R e.1 || mem R e.2)

/-- reflexive-transitive closure of the edge list -/
inductive Reachable (E : List Edge) : Nat → Nat → Prop
  | refl (a : Nat) : Reachable E a a
  | step {a b c : Nat} : Reachable E a b → (b, c) ∈ E → Reachable E a c

theorem closedOn_edge {R : Nat} {es : List Edge} (h : closedOn R es = true) {a b : Nat}
    (he : (a, b) ∈ es) (ha : mem R a = true) : mem R b = true := by
  have := List.all_eq_true.1 h (a, b) he
  simp only [ha, Bool.not_true, Bool.false_or] at this
  exact this

/-- **Soundness of the certificate**: a set closed under every edge contains everything
    reachable from any of its members. -/
theorem closed_sound {E : List Edge} {R : Nat} (hc : closedOn R E = true) {s t : Nat}
    (hs : mem R s = true) (hr : Reachable E s t) : mem R t = true := by
  induction hr with
  | refl => exact hs
  | step _ he ih => exact closedOn_edge hc he ih

/-! ### packed adjacency words -/

/-- the 16-bit fields of a word (each is `id+1`), up to the terminating 0 -/
def fields : Nat → Nat → List Nat
  | 0, _ => []
  | f + 1, w => if Nat.beq w 0 then [] else Nat.land w 0xFFFF :: fields f (Nat.shiftRight w 16)

/-- the edges an adjacency word stands for -/
def edgesOfWord (fuel : Nat) (w : Nat) : List Edge :=
  if Nat.beq w 0 then []
  else (fields fuel (Nat.shiftRight w 16)).map (fun d => (Nat.land w 0xFFFF - 1, d - 1))

/-- the whole graph: chunks of adjacency words -/
def edgesOf (fuel : Nat) (chunks : List (List Nat)) : List Edge :=
  (chunks.map (fun c => (c.map (edgesOfWord fuel)).flatten)).flatten

/-- all remaining fields denote members of `R` (direct recursion: cheap for the kernel) -/
def allIn (R : Nat) : Nat → Nat → Bool
  | 0, w => Nat.beq w 0
  | f + 1, w => Nat.beq w 0 || (mem R (Nat.land w 0xFFFF - 1) && allIn R f (Nat.shiftRight w 16))

/-- an adjacency word is closed on `R`: its source is outside `R`, or all successors are inside -/
def closedWord (R fuel w : Nat) : Bool :=
  Nat.beq w 0 || !mem R (Nat.land w 0xFFFF - 1) || allIn R fuel (Nat.shiftRight w 16)

def closedChunk (R fuel : Nat) : List Nat → Bool
  | [] => true
  | w :: ws => closedWord R fuel w && closedChunk R fuel ws

def closedChunks (R fuel : Nat) : List (List Nat) → Bool
  | [] => true
  | c :: cs => closedChunk R fuel c && closedChunks R fuel cs

/-- number of edges encoded (for the completeness cross-check against the extractor's count) -/
def countFields : Nat → Nat → Nat
  | 0, _ => 0
  | f + 1, w => if Nat.beq w 0 then 0 else 1 + countFields f (Nat.shiftRight w 16)

def countChunk (fuel : Nat) : List Nat → Nat
  | [] => 0
  | w :: ws => countFields fuel (Nat.shiftRight w 16) + countChunk fuel ws

def countChunks (fuel : Nat) : List (List Nat) → Nat
  | [] => 0
  | c :: cs => countChunk fuel c + countChunks fuel cs

theorem allIn_fields {R : Nat} : ∀ (f w : Nat), allIn R f w = true →
    ∀ x ∈ fields f w, mem R (x - 1) = true
  | 0, _, _, x, hx => by simp [fields] at hx
  | f + 1, w, h, x, hx => by
    unfold fields at hx
    unfold allIn at h
    by_cases hw : Nat.beq w 0 = true
    · simp [hw] at hx
    · simp only [hw, Bool.false_eq_true, ↓reduceIte, List.mem_cons] at hx
      simp only [hw, Bool.false_or, Bool.and_eq_true] at h
      rcases hx with rfl | hx
      · exact h.1
      · exact allIn_fields f _ h.2 x hx

theorem closedWord_sound {R fuel w : Nat} (h : closedWord R fuel w = true) :
    closedOn R (edgesOfWord fuel w) = true := by
  unfold edgesOfWord
  by_cases hw : Nat.beq w 0 = true
  · simp [hw, closedOn]
  · simp only [hw, Bool.false_eq_true, ↓reduceIte]
    simp only [closedWord, hw, Bool.false_or, Bool.or_eq_true, Bool.not_eq_eq_eq_not, Bool.not_true] at h
    simp only [closedOn, List.all_eq_true, List.mem_map, forall_exists_index, and_imp,
      Bool.or_eq_true, Bool.not_eq_eq_eq_not, Bool.not_true]
    rintro e d hd rfl
    rcases h with h | h
    · left; exact h
    · right; exact allIn_fields fuel _ h d hd

theorem closedChunk_sound {R fuel : Nat} : ∀ (ws : List Nat), closedChunk R fuel ws = true →
    closedOn R ((ws.map (edgesOfWord fuel)).flatten) = true
  | [], _ => by simp [closedOn]
  | w :: ws, h => by
    simp only [closedChunk, Bool.and_eq_true] at h
    have h1 := closedWord_sound h.1
    have h2 := closedChunk_sound ws h.2
    simp only [closedOn, List.map_cons, List.flatten_cons, List.all_append, Bool.and_eq_true] at *
    exact ⟨h1, h2⟩

theorem closedChunks_sound {R fuel : Nat} : ∀ (cs : List (List Nat)), closedChunks R fuel cs = true →
    closedOn R (edgesOf fuel cs) = true
  | [], _ => by simp [closedOn, edgesOf]
  | c :: cs, h => by
    simp only [closedChunks, Bool.and_eq_true] at h
    have h1 := closedChunk_sound c h.1
    have h2 := closedChunks_sound cs h.2
    simp only [closedOn, edgesOf, List.map_cons, List.flatten_cons, List.all_append, Bool.and_eq_true] at *
    exact ⟨h1, h2⟩

/-- The packaged statement used by the property files. -/
theorem not_reachable_of_cert {chunks : List (List Nat)} {R fuel : Nat}
    (hc : closedChunks R fuel chunks = true) {s b : Nat}
    (hs : mem R s = true) (hb : mem R b = false) :
    ¬ Reachable (edgesOf fuel chunks) s b := by
  intro hr
  have := closed_sound (closedChunks_sound chunks hc) hs hr
  simp [hb] at this

/-! ### node tables -/

/-- `i`-th 16-bit field of a table packed into one number -/
def tblGet (tbl : Nat) (i : Nat) : Nat := Nat.land (Nat.shiftRight tbl (16 * i)) 0xFFFF

/-- `p i` for all `i < n` (direct recursion) -/
def allBelow (p : Nat → Bool) : Nat → Bool
  | 0 => true
  | n + 1 => p n && allBelow p n

theorem allBelow_spec {p : Nat → Bool} : ∀ {n : Nat}, allBelow p n = true → ∀ i, i < n → p i = true
  | 0, _, i, hi => by omega
  | n + 1, h, i, hi => by
    simp only [allBelow, Bool.and_eq_true] at h
    by_cases hin : i = n
    · subst hin; exact h.1
    · exact allBelow_spec h.2 i (by omega)

/-- number of `i < n` with `p i` -/
def countBelow (p : Nat → Bool) : Nat → Nat
  | 0 => 0
  | n + 1 => (if p n then 1 else 0) + countBelow p n

/-- bit mask of the indices of a string table selected by a predicate -/
def maskOf (p : String → Bool) : List String → Nat → Nat
  | [], _ => 0
  | s :: ss, i => (if p s then Nat.shiftLeft 1 i else 0) + maskOf p ss (i + 1)

end ElaVerif.Reach
