import ElaVerif.Model.Fixed64
/-
  Fee — the amount-relevant part of transaction validation
  (core/transaction/transactionchecker.go and the per-type overrides).

      SanityCheck :  … CheckTransactionInput → CheckTransactionOutput
                       → checkTransactionOutputsTotal (added by the C01 fix) → …
      ContextCheck:  … SpecialContextCheck → (end? accept) → CheckTransactionFee → …

  Every tx struct either inherits DefaultChecker's method or overrides it; the
  overrides fall into a few classes (`Class`).  Which Go tx type is in which
  class is tied to the source by the regenerated table `Gen.C01.kinds`
  (lemmas in Props/C01.lean) and by differential execution of the real
  SanityCheck/ContextCheck of every type (harness stream `flow`).

  `Rev.pre` is the code as found (no output total check), `Rev.fixed` the code
  after the `fix:` commit.  Core Lean only.
-/
namespace ElaVerif.Fee
open ElaVerif.Fixed64

/-- classes of tx structs, by which amount-relevant methods they override -/
inductive Class
  | coinbase   -- own ContextCheck, not subject of C01
  | refused    -- RegisterAsset since bcb6426e: CheckTransactionInput always fails (only valid in the genesis block)
  | bare       -- overrides nothing amount-relevant (Record): DefaultChecker throughout
  | plain      -- DefaultChecker.CheckTransactionInput/Output/Fee; SpecialContextCheck never ends with (nil,true)
  | plainOut   -- own copy of the default output loop (TransferAsset, TransferCrossChainAsset, WithdrawFromSideChain, ReturnSideChainDepositCoin)
  | zero       -- "no cost": no inputs, no outputs, SpecialContextCheck ends the context check
  | sidePow    -- SideChainPow: new form (no inputs, one zero output, ends) or plain
  | activate   -- ActivateProducer: zero-cost up to NFTStartHeight, unchecked outputs and `fee == 0` after
  | approp     -- CRCAppropriation: two outputs, inputs == outputs, ends
  | rectify    -- CRAssetsRectify: one output, inputs == output + RectifyTxFee, then the default fee check
  | exchange   -- ExchangeVotes: outputs strictly positive, count rules by era
  deriving DecidableEq, Repr

/-- Go tx type code (core/types/common TxType) → class; `none` = the factory rejects the code -/
def classOf : Nat → Option Class
  | 0 => some .coinbase
  | 1 => some .refused
  | 3 => some .bare
  | 2 | 7 | 8 | 81 => some .plainOut
  | 5 => some .sidePow
  | 9 | 10 | 11 | 12 => some .plain
  | 13 => some .activate
  | 14 | 15 | 16 | 17 | 18 | 19 | 20 | 21 => some .zero
  | 33 | 34 | 35 | 36 | 37 | 38 | 39 => some .plain
  | 40 => some .approp
  | 41 | 42 => some .plain
  | 43 => some .rectify
  | 49 => some .plain
  | 65 | 66 => some .zero
  | 96 | 97 => some .plain
  | 98 => some .exchange
  | 99 | 100 | 101 => some .plain
  | 102 => some .zero
  | 113 => some .plain
  | 114 => some .zero
  | _ => none

/-- the amount-relevant checker methods a class overrides, SpecialContextCheck aside
    (all others are DefaultChecker's) -/
def expectedOverrides : Class → List String
  | .coinbase => ["CheckTransactionInput", "CheckTransactionOutput", "ContextCheck"]
  | .refused => ["CheckTransactionInput"]
  | .bare | .plain | .rectify => []
  | .plainOut | .approp | .exchange => ["CheckTransactionOutput"]
  | .zero | .sidePow => ["CheckTransactionInput", "CheckTransactionOutput"]
  | .activate => ["CheckTransactionInput", "CheckTransactionOutput", "CheckTransactionFee"]

/-- can the class's SpecialContextCheck return `(nil, true)` (= accept without fee check)? -/
def canEnd : Class → Bool
  | .coinbase | .zero | .sidePow | .activate | .approp => true
  | .refused | .bare | .plain | .plainOut | .rectify | .exchange => false

/-- can it return `(nil, false)` / `(nil, <variable>)` (= go on to the fee check)? -/
def canContinue : Class → Bool
  | .refused | .bare | .plain | .plainOut | .rectify | .exchange | .sidePow | .activate => true
  | .coinbase | .zero | .approp => false

inductive Rev | pre | fixed
  deriving DecidableEq, Repr

structure Env where
  minFee : Fixed64         -- Config.MinTransactionFee
  afterNFT : Bool          -- BlockHeight > DPoSConfiguration.NFTStartHeight
  multiExchange : Bool     -- DPoS consensus and BlockHeight ≥ MultiExchangeVotesStartHeight
  rectifyFee : Fixed64     -- CRConfiguration.RectifyTxFee
  deriving Repr

/-- What the amount-free part of the type's SpecialContextCheck decides.  The model
    cannot compute it (signatures, producer/CR state, …) so it is an input:
    `rej`  some rule other than an amount rule rejects,
    `ok`   all amount-free rules pass on the type's main path,
    `alt`  ActivateProducer only: the CR-council-member branch was taken and passed. -/
inductive Special | ok | alt | rej
  deriving DecidableEq, Repr

/-! ### SanityCheck: inputs, output values -/

/-- one transaction input: the previous output it references (`op` stands for the outpoint
    txid:index, what `Input.ReferKey()` renders) and its Sequence -/
structure In where
  op : Nat
  seq : Nat
  deriving DecidableEq, Repr

/-- the "duplicated transaction inputs" loop: a set keyed by `ReferKey()` — the outpoint
    only, **not** the Sequence -/
def noDup : List Nat → Bool
  | [] => true
  | x :: xs => !xs.contains x && noDup xs

def inputsDistinct (ins : List In) : Bool := noDup (ins.map (·.op))

/-- CheckTransactionInput of the class.  `Rev.fixed` includes
    `fix: reject ActivateProducer transactions that reference a previous output more than once`. -/
def inputOK (rev : Rev) (c : Class) (env : Env) (ins : List In) : Bool :=
  match c with
  | .coinbase => ins.length == 1
  | .refused => false           -- whatever the inputs
  | .zero => ins.length == 0
  | .sidePow => ins.length == 0 || inputsDistinct ins     -- new form: no inputs; old form: the default loop
  | .activate =>
      if env.afterNFT then (rev == .pre || inputsDistinct ins)   -- as found: no check at all
      else ins.length == 0
  | _ => 1 ≤ ins.length && inputsDistinct ins

/-- the default loop: every value ≥ 0 -/
def allNonneg (outs : List Fixed64) : Bool := outs.all (fun v => !(lt v 0))
def allPos (outs : List Fixed64) : Bool := outs.all (fun v => !(lt v 0) && v != 0)

def defaultOutputOK (outs : List Fixed64) : Bool :=
  outs.length ≤ 65535 && 1 ≤ outs.length && allNonneg outs

/-- CheckTransactionOutput of the class (value/count part) -/
def outputOK (c : Class) (env : Env) (nIn : Nat) (outs : List Fixed64) : Bool :=
  match c with
  | .coinbase => outs.length ≤ 65535 && 2 ≤ outs.length   -- (ratio rule not modelled here; C11)
  | .refused | .bare | .plain | .plainOut | .rectify => defaultOutputOK outs
  | .zero => outs.length == 0
  | .sidePow =>
      if nIn == 0 then
        outs.length ≤ 65535 && (match outs with | [v] => v == 0 | _ => false)
      else defaultOutputOK outs
  | .activate => env.afterNFT || outs.length == 0
  | .approp => outs.length == 2 && allNonneg outs
  | .exchange =>
      if env.multiExchange then 1 ≤ outs.length && allPos outs
      else outs.length ≤ 2 && 1 ≤ outs.length && allPos outs

/-- Does CheckTransactionOutput of the class refuse an output whose AssetID is not the ELA asset?
    Every copy of the default loop does; ActivateProducer after NFTStartHeight checks nothing and the
    new-form SideChainPow only looks at count, value (0) and type.  (The fee helpers add up values
    regardless of the asset id, so a foreign-asset output is still counted by the fee check.) -/
def requiresELA (c : Class) (env : Env) (nIn : Nat) : Bool :=
  match c with
  | .activate => !env.afterNFT
  | .sidePow => nIn != 0
  | .coinbase => false
  | _ => true

/-- `checkTransactionOutputsTotal` (the fix): every value ≥ 0 and the running
    total never wraps.  Same loop as the Go function. -/
def totalFrom (acc : Fixed64) : List Fixed64 → Bool
  | [] => true
  | v :: vs =>
      if lt v 0 then false
      else
        let sum := acc + v
        if lt sum acc then false else totalFrom sum vs

def totalOK (outs : List Fixed64) : Bool := totalFrom 0 outs

inductive San | ok | inn | out
  deriving DecidableEq, Repr

def sanity (rev : Rev) (c : Class) (env : Env) (ins : List In) (outs : List Fixed64) : San :=
  if !inputOK rev c env ins then .inn
  else if !outputOK c env ins.length outs then .out
  else if rev == .fixed && !totalOK outs then .out
  else .ok

/-! ### ContextCheck: SpecialContextCheck, early end, fee check -/

inductive Ctx
  | ok (fee : Fixed64)   -- fee check passed, tx.Fee() = fee
  | endd                 -- SpecialContextCheck returned (nil, true): accepted, no fee check
  | special              -- SpecialContextCheck returned an error
  | balance              -- CheckTransactionFee failed
  deriving DecidableEq, Repr

/-- `getTransactionFee` : wrapping inputs − wrapping outputs -/
def txFee (outs refs : List Fixed64) : Fixed64 := sumW refs - sumW outs

inductive Step | reject | endOK | continue
  deriving DecidableEq, Repr

/-- SpecialContextCheck: the amount rules of the class plus its `end` result -/
def specialStep (c : Class) (env : Env) (sp : Special) (outs refs : List Fixed64) : Step :=
  match sp with
  | .rej => .reject
  | .alt => if c == .activate then .endOK else .reject
  | .ok =>
    match c with
    | .coinbase => .endOK
    | .refused | .bare | .plain | .plainOut | .exchange => .continue
    | .zero => .endOK
    | .sidePow => if refs.length == 0 then .endOK else .continue
    | .activate => if env.afterNFT then .continue else .endOK
    | .approp =>
        -- totalInput != totalOutput → error ; AppropriationAmount rule is amount-free here
        if sumW refs != sumW outs then .reject else .endOK
    | .rectify =>
        match outs with
        | [o] => if sumW refs != o + env.rectifyFee then .reject else .continue
        | _ => .reject

/-- CheckTransactionFee of the class -/
def feeCheck (c : Class) (env : Env) (outs refs : List Fixed64) : Ctx :=
  let fee := txFee outs refs
  match c with
  | .activate => if fee != 0 then .balance else .ok fee
  | _ => if lt fee env.minFee then .balance else .ok fee

def context (c : Class) (env : Env) (sp : Special) (outs refs : List Fixed64) : Ctx :=
  match specialStep c env sp outs refs with
  | .reject => .special
  | .endOK => .endd
  | .continue => feeCheck c env outs refs

def Ctx.accepted : Ctx → Bool
  | .ok _ | .endd => true
  | _ => false

/-- what `UTXOCache.GetTxReference` hands to the fee check: one entry **per input**
    (`result[input]`, keyed by the input pointer), the previous output `val op` of each -/
def refsOf (val : Nat → Fixed64) (ins : List In) : List Fixed64 := ins.map (fun i => val i.op)

/-- A transaction is accepted (mempool or block): SanityCheck passes and ContextCheck passes.
    `val` is the UTXO lookup (outpoint ↦ value of the previous output). -/
def accepts (rev : Rev) (c : Class) (env : Env) (sp : Special) (val : Nat → Fixed64)
    (ins : List In) (outs : List Fixed64) : Bool :=
  sanity rev c env ins outs == .ok && (context c env sp outs (refsOf val ins)).accepted

end ElaVerif.Fee
