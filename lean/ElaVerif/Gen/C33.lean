namespace ElaVerif.Gen.C33
def versions : List Nat := [0, 1, 2]
def storeLookups : List (String × Nat) := [("checkWithdrawFromSideChainTransactionV0", 1), ("checkWithdrawFromSideChainTransactionV1", 1), ("checkWithdrawFromSideChainTransactionV2", 0), ("checkSchnorrWithdrawFromSidechain", 0)]
def signerBoundCheckUnconditional : Bool := true
end ElaVerif.Gen.C33
