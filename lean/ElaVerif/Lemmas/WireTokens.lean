import ElaVerif.Model.Tx
/-
  Token view of schemas, for the T-gen tie.  The extractor (`extract/wiretok`) flattens the body of
  each Go `Serialize` / `Deserialize` method into a list of `Tok`; here the same kind of list is
  computed from the schema (`toks`), version guards are evaluated (`flat`), calls into other types'
  methods are inlined from the regenerated table (`expand`), and `allAgree` compares, for every
  covered type and every value of the `version` argument:

    read tokens of Deserialize  =  tokens of the schema          (including every size limit)
    write tokens of Serialize   =  the same with limits erased   (field symmetry)
-/
namespace ElaVerif.WireTokens
open ElaVerif.Wire ElaVerif.WireSchemas

inductive Tok where
  /-- `n` raw bytes: fixed-width integer, hash, array -/
  | raw (n : Nat)
  /-- `ReadElement(*bool)` / `WriteElement(bool)` -/
  | bool
  | varuint
  /-- var-bytes / var-string with the reader's limit (0 on the writer side) -/
  | vb (max : Nat)
  | pad1
  | loop
  | close
  /-- guards on the version argument: `if version >= k { next n tokens }` … -/
  | ifge (k n : Nat)
  | iflt (k n : Nat)
  | ifeq (k n : Nat)
  | ifne (k n : Nat)
  /-- `else { next n tokens }`, directly after the body of the guard it belongs to -/
  | els (n : Nat)
  /-- call of the same-direction method of another type, passing the version argument on -/
  | call (ty : String)
  /-- dynamically dispatched (interface value, or a version read from the wire) -/
  | dyn (what : String)
  | mk (src : String)
  | other (src : String)
  deriving DecidableEq, Repr

structure Stream where
  name : String
  ser : List Tok
  de : List Tok
  deriving Repr

/-- evaluate the version guards at `v` -/
def flat (v : Nat) : Nat → List Tok → List Tok
  | 0, _ => [.other "fuel"]
  | _ + 1, [] => []
  | f + 1, t :: ts =>
    let skip (n : Nat) : List Tok :=
      match ts.drop n with
      | .els _ :: rest => flat v f rest      -- guard not taken: run the else branch
      | rest => flat v f rest
    match t with
    | .ifge k n => if k ≤ v then flat v f ts else skip n
    | .iflt k n => if v < k then flat v f ts else skip n
    | .ifeq k n => if v = k then flat v f ts else skip n
    | .ifne k n => if v ≠ k then flat v f ts else skip n
    | .els n => flat v f (ts.drop n)         -- reached after a taken guard: skip the else branch
    | t => t :: flat v f ts

def lookup (tbl : List (String × List Tok)) (n : String) : Option (List Tok) :=
  match tbl with
  | [] => none
  | (k, ts) :: rest => if k = n then some ts else lookup rest n

/-- inline `call` tokens from the table (callee guards evaluated at the same version) -/
def expand (tbl : List (String × List Tok)) (v : Nat) : Nat → List Tok → List Tok
  | 0, _ => [.other "fuel"]
  | _ + 1, [] => []
  | f + 1, .call n :: ts =>
    (match lookup tbl n with
     | some body => expand tbl v f (flat v (body.length + 1) body)
     | none => [.other ("missing " ++ n)]) ++ expand tbl v f ts
  | f + 1, t :: ts => t :: expand tbl v f ts

/-- forget what cannot be compared between a writer and a reader: limits, names of dynamic calls -/
def erase : List Tok → List Tok
  | [] => []
  | .vb _ :: ts => .vb 0 :: erase ts
  | .dyn _ :: ts => .dyn "" :: erase ts
  | t :: ts => t :: erase ts

def eraseDyn : List Tok → List Tok
  | [] => []
  | .dyn _ :: ts => .dyn "" :: eraseDyn ts
  | t :: ts => t :: eraseDyn ts

/-! ### tokens of a schema -/

def allEq (t : List Tok) : List (List Tok) → Bool
  | [] => true
  | x :: xs => decide (x = t) && allEq t xs

mutual
  def toks : Ty → List Tok
    | .uint k => [.raw k]
    | .bool => [.bool]
    | .bool1 => [.raw 1]
    | .fixed n => [.raw n]
    | .varUint => [.varuint]
    | .varBytes m => [.vb m]
    | .pad1 => [.pad1]
    | .fail => [.other "fail"]
    | .struct fs => toksFields fs
    | .list cw _ _ _ e => (if cw = 0 then Tok.varuint else Tok.raw cw) :: .loop :: toks e ++ [.close]
    | .listI _ e => Tok.varuint :: .loop :: toks e ++ [.close]
    | .tagged tw cs _ =>
      .raw tw ::
        (match toksCases cs with
         | [] => [.dyn ""]
         | t :: rest => if allEq t rest then t else [.dyn ""])
  def toksFields : List Ty → List Tok
    | [] => []
    | t :: ts => toks t ++ toksFields ts
  def toksCases : List (Nat × Ty) → List (List Tok)
    | [] => []
    | (_, ty) :: cs => toks ty :: toksCases cs
end

/-! ### expectations -/

structure Expect where
  name : String
  /-- values of the version argument to check (one value for methods without a version) -/
  versions : List Nat
  /-- is the writer expected to mirror the reader? -/
  sym : Bool
  toks : Nat → List Tok

/-- versions checked: 0 … 10.  Every guard constant of the regenerated streams is below 10
    (`guardsBelow`, part of `allAgree`; the largest is `TxVersion09 = 9`) and the schemas do not
    change above their largest threshold, so a version above 10 behaves like version 10 on both sides. -/
def allVersions : List Nat := List.range 11

def blockEvidenceOthers : Ty := .struct [.varBytes maxBlockHeader, lst 128 (.varBytes compressedLen)]

/-- schema-derived expectations, plus hand-written ones for the methods that dispatch dynamically -/
def expected : List Expect := [
  ⟨"Attribute", [0], true, fun _ => toks attributeTy⟩,
  ⟨"Input", [0], true, fun _ => toks input⟩,
  ⟨"Program", [0], true, fun _ => toks program⟩,
  ⟨"Output", allVersions, true, fun v => toks (output (decide (9 ≤ v)))⟩,
  ⟨"Header", [0], true, fun _ => toks header⟩,
  ⟨"AuxPow", [0], true, fun _ => toks auxPow⟩,
  ⟨"BtcTx", [0], true, fun _ => toks btcTx⟩,
  ⟨"BtcHeader", [0], true, fun _ => toks btcHeader⟩,
  ⟨"CandidateVotes", allVersions, true, fun v => toks (candidateVotes (decide (1 ≤ v)))⟩,
  ⟨"VoteContent", allVersions, true, fun v => toks (voteContent (decide (1 ≤ v)))⟩,
  -- the version is a field read from the wire and passed on to the contents
  ⟨"VoteOutput", [0], true, fun _ => [.raw 1, .varuint, .loop, .dyn "", .close]⟩,
  ⟨"Mapping", [0], true, fun _ => toks mappingOutput⟩,
  ⟨"CrossChainOutput", [0], true, fun _ => toks crossChainOutput⟩,
  ⟨"Withdraw", [0], true, fun _ => toks withdrawOutput⟩,
  ⟨"ReturnSideChainDeposit", [0], true, fun _ => toks returnSideChainDepositOutput⟩,
  ⟨"ExchangeVotesOutput", [0], true, fun _ => toks exchangeVotesOutput⟩,
  ⟨"DefaultOutput", [0], true, fun _ => []⟩,
  ⟨"CoinBase", allVersions, true, fun _ => toks coinBase⟩,
  ⟨"TransferAsset", allVersions, true, fun _ => toks transferAsset⟩,
  ⟨"ProducerInfo", allVersions, true, fun v => toks (producerInfo v)⟩,
  ⟨"InactiveArbitrators", allVersions, true, fun _ => toks inactiveArbitrators⟩,
  ⟨"NextTurnDPOSInfo", allVersions, true, fun v => toks (nextTurnDPOSInfo v)⟩,
  ⟨"DPOSIllegalBlocks", allVersions, true, fun _ => toks dposIllegalBlocks⟩,
  ⟨"BlockEvidence.Unsigned", [0], true, fun _ => [.vb maxBlockContext]⟩,
  ⟨"BlockEvidence.Others", [0], true, fun _ => toks blockEvidenceOthers⟩,
  -- versions other than 0 and 1 are rejected by both directions: no tokens on either side
  ⟨"Voting", allVersions, true, fun v => if v ≤ 1 then toks (voting v) else []⟩,
  ⟨"VotesContent", allVersions, true, fun _ => toks votesContent⟩,
  ⟨"VotesWithLockTime", allVersions, true, fun _ => toks votesWithLockTime⟩,
  ⟨"RenewalVotesContent", allVersions, true, fun _ => toks renewalVotesContent⟩,
  ⟨"CRCProposalReview", allVersions, true, fun v => toks (crcProposalReview v)⟩,
  ⟨"Record", allVersions, true, fun _ => toks record⟩,
  ⟨"SideChainPow", allVersions, true, fun _ => toks sideChainPow⟩,
  ⟨"ProcessProducer", allVersions, true, fun v => toks (processProducer v)⟩,
  ⟨"ReturnDepositCoin", allVersions, true, fun _ => toks emptyPayload⟩,
  ⟨"ActivateProducer", allVersions, true, fun _ => toks activateProducer⟩,
  ⟨"UpdateVersion", allVersions, true, fun _ => toks updateVersion⟩,
  ⟨"CRCAppropriation", allVersions, true, fun _ => toks emptyPayload⟩,
  ⟨"CRCProposalWithdraw", allVersions, true, fun v => toks (crcProposalWithdraw v)⟩,
  ⟨"CRCProposalRealWithdraw", allVersions, true, fun _ => toks hashList⟩,
  ⟨"CRAssetsRectify", allVersions, true, fun _ => toks emptyPayload⟩,
  ⟨"CRCouncilMemberClaimNode", allVersions, true, fun _ => toks crCouncilMemberClaimNode⟩,
  ⟨"RevertToPOW", allVersions, true, fun _ => toks revertToPOW⟩,
  ⟨"RevertToDPOS", allVersions, true, fun _ => toks revertToDPOS⟩,
  ⟨"DPoSV2ClaimReward", allVersions, true, fun v => toks (returnVotes v)⟩,
  ⟨"DposV2ClaimRewardRealWithdraw", allVersions, true, fun _ => toks hashList⟩,
  ⟨"ExchangeVotes", allVersions, true, fun _ => toks emptyPayload⟩,
  ⟨"ReturnVotes", allVersions, true, fun v => toks (returnVotes v)⟩,
  ⟨"RecordSponsor", allVersions, true, fun _ => toks recordSponsor⟩,
  ⟨"DPOSProposal", [0], true, fun _ => toks dposProposal⟩,
  ⟨"DPOSProposalVote", [0], true, fun _ => toks dposProposalVote⟩,
  ⟨"Confirm", [0], true, fun _ => toks confirm⟩,
  -- GetTransactionByBytes: flag byte, then the type byte when the flag is a version
  ⟨"TxHead", [0], false, fun _ =>
    [.raw 1, .other "if common2.TransactionVersion(flagByte[0]) >= common2.TxVersion09", .raw 1]⟩,
  -- DeserializeUnsigned: payload version byte, payload, attributes, inputs, outputs, lock time
  ⟨"TxUnsigned", [0], false, fun _ =>
    [.raw 1, .dyn ""] ++ toks (lst 96 attributeTy) ++ toks (lst 96 input) ++
      [.varuint, .loop, .dyn "", .close, .raw 4]⟩,
  ⟨"Tx", [0], false, fun _ =>
    [.raw 1, .dyn ""] ++ toks (lst 96 attributeTy) ++ toks (lst 96 input) ++
      [.varuint, .loop, .dyn "", .close, .raw 4] ++ toks programs⟩,
  ⟨"Block", [0], true, fun _ => toks header ++ [.raw 4, .loop, .dyn "", .close]⟩
]

/-- expectations checked against the *deep* (fully inlined) streams `Gen.C04.mirrorStreams` -/
def expectedDeep : List Expect := [
  ⟨"RegisterAsset", allVersions, true, fun _ => toks registerAsset⟩,
  ⟨"WithdrawFromSideChain", allVersions, true, fun v => toks (withdrawFromSideChain v)⟩,
  ⟨"TransferCrossChainAsset", allVersions, true, fun v => toks (transferCrossChainAsset v)⟩,
  ⟨"DPOSIllegalProposals", allVersions, true, fun _ => toks dposIllegalProposals⟩,
  ⟨"DPOSIllegalVotes", allVersions, true, fun _ => toks dposIllegalVotes⟩,
  ⟨"SidechainIllegalData", allVersions, true, fun _ => toks sidechainIllegalData⟩,
  ⟨"CRInfo", allVersions, true, fun v => toks (crInfo v)⟩,
  ⟨"UnregisterCR", allVersions, true, fun v => toks (unregisterCR v)⟩,
  ⟨"CRCProposalTracking", allVersions, true, fun v => toks (crcProposalTracking v)⟩,
  ⟨"ReturnSideChainDepositCoin", allVersions, true, fun v => toks (returnSideChainDepositCoin v)⟩,
  ⟨"VotesRealWithdrawPayload", allVersions, true, fun _ => toks votesRealWithdraw⟩,
  ⟨"CreateNFT", allVersions, true, fun v => toks (createNFT v)⟩,
  ⟨"NFTDestroyFromSideChain", allVersions, true, fun _ => toks nftDestroyFromSideChain⟩,
  ⟨"RecordProposalResult", allVersions, true, fun _ => toks recordProposalResult⟩,
  ⟨"CRCProposal/<other>", allVersions, true, fun v => .raw 2 :: toks (crcNormal v)⟩,
  ⟨"CRCProposal/ChangeProposalOwner", allVersions, true, fun v => .raw 2 :: toks (crcChangeOwner v)⟩,
  ⟨"CRCProposal/CloseProposal", allVersions, true, fun v => .raw 2 :: toks (crcClose v)⟩,
  ⟨"CRCProposal/SecretaryGeneral", allVersions, true, fun v => .raw 2 :: toks (crcSecretary v)⟩,
  ⟨"CRCProposal/MainChainUpgradeCode", allVersions, true, fun _ => .raw 2 :: toks crcUpgrade⟩,
  ⟨"CRCProposal/DIDUpgradeCode", allVersions, true, fun _ => .raw 2 :: toks crcUpgrade⟩,
  ⟨"CRCProposal/ETHUpgradeCode", allVersions, true, fun _ => .raw 2 :: toks crcUpgrade⟩,
  ⟨"CRCProposal/RegisterSideChain", allVersions, true, fun v => .raw 2 :: toks (crcSideChain v)⟩,
  ⟨"CRCProposal/ReserveCustomID", allVersions, true, fun v => .raw 2 :: toks (crcReserveID v)⟩,
  ⟨"CRCProposal/ReceiveCustomID", allVersions, true, fun v => .raw 2 :: toks (crcReceiveID v)⟩,
  ⟨"CRCProposal/ChangeCustomIDFee", allVersions, true, fun v => .raw 2 :: toks (crcIDFee v)⟩
]

/-- what `SerializeUnsigned` writes in front of what `DeserializeUnsigned` reads: the version byte
    (only when `tx.version >= TxVersion09`) and the type byte, both consumed by `GetTransactionByBytes` -/
def txWriterHead : List Tok := [.other "if tx.version >= common2.TxVersion09", .raw 1, .raw 1]

/-- all version-guard constants are below `K` -/
def guardsBelow (K : Nat) : List Tok → Bool
  | [] => true
  | .ifge k _ :: ts => decide (k < K) && guardsBelow K ts
  | .iflt k _ :: ts => decide (k < K) && guardsBelow K ts
  | .ifeq k _ :: ts => decide (k < K) && guardsBelow K ts
  | .ifne k _ :: ts => decide (k < K) && guardsBelow K ts
  | _ :: ts => guardsBelow K ts

def deTable (ss : List Stream) : List (String × List Tok) := ss.map fun s => (s.name, s.de)
def serTable (ss : List Stream) : List (String × List Tok) := ss.map fun s => (s.name, s.ser)

def findStream (ss : List Stream) (n : String) : Option Stream :=
  match ss with
  | [] => none
  | s :: rest => if s.name = n then some s else findStream rest n

def fuel : Nat := 64

def deToks (ss : List Stream) (s : Stream) (v : Nat) : List Tok :=
  eraseDyn (expand (deTable ss) v fuel (flat v (s.de.length + 1) s.de))
def serToks (ss : List Stream) (s : Stream) (v : Nat) : List Tok :=
  expand (serTable ss) v fuel (flat v (s.ser.length + 1) s.ser)

def agree (ss : List Stream) (e : Expect) : Bool :=
  match findStream ss e.name with
  | none => false
  | some s =>
    e.versions.all fun v =>
      decide (deToks ss s v = e.toks v) &&
      (!e.sym || decide (erase (serToks ss s v) = erase (e.toks v)))

/-- every regenerated stream has an expectation, all guard constants are below 10, and the
    transaction writer is the reader plus the head consumed by `GetTransactionByBytes` -/
def coverage (ss : List Stream) (es : List Expect) : Bool :=
  ss.all (fun s => es.any fun e => e.name = s.name) &&
  ss.all (fun s => guardsBelow 10 s.ser && guardsBelow 10 s.de) &&
  (match findStream ss "TxUnsigned", findStream ss "Tx" with
   | some u, some t =>
     decide (erase (serToks ss u 0) = erase (txWriterHead ++ deToks ss u 0)) &&
     decide (erase (serToks ss t 0) = erase (txWriterHead ++ deToks ss t 0))
   | _, _ => false)

def allAgree (ss : List Stream) (es : List Expect) : Bool :=
  es.all (agree ss) && coverage ss es

/-! ### schema derived from a (guard-free, call-free) token stream — used for the checkpoint types (C23) -/

/-- parse tokens up to the matching `.close` (or the end): the fields, and what follows -/
def parseToks : Nat → List Tok → List Ty × List Tok
  | 0, _ => ([.fail], [])
  | _ + 1, [] => ([], [])
  | _ + 1, .close :: ts => ([], ts)
  | f + 1, .varuint :: .loop :: ts =>
    let (inner, r1) := parseToks f ts
    let (more, r2) := parseToks f r1
    (.list 0 none 0 128 (.struct inner) :: more, r2)
  | f + 1, .raw k :: .loop :: ts =>
    let (inner, r1) := parseToks f ts
    let (more, r2) := parseToks f r1
    (.list k none 0 128 (.struct inner) :: more, r2)
  | f + 1, t :: ts =>
    let ty : Ty := match t with
      | .raw n => .fixed n
      | .bool => .bool
      | .varuint => .varUint
      | .vb m => .varBytes m
      | .pad1 => .pad1
      | _ => .fail
    let (more, r) := parseToks f ts
    (ty :: more, r)

/-- the schema a reader's token stream denotes; contains `.fail` where the stream has a dynamic
    dispatch, an unevaluated guard or an unresolved construct -/
def ofToks (ts : List Tok) : Ty := .struct (parseToks (ts.length + 1) ts).1

mutual
  def hasFail : Ty → Bool
    | .fail => true
    | .struct fs => hasFailFields fs
    | .list _ _ _ _ e => hasFail e
    | .listI _ e => hasFail e
    | .tagged _ cs d => hasFailCases cs || hasFail d
    | _ => false
  def hasFailFields : List Ty → Bool
    | [] => false
    | t :: ts => hasFail t || hasFailFields ts
  def hasFailCases : List (Nat × Ty) → Bool
    | [] => false
    | (_, ty) :: cs => hasFail ty || hasFailCases cs
end

/- does the schema contain `.fail` outside every list element?  (a `.fail` inside a list element
   only bites when the list is non-empty) -/
mutual
  def hasFailOutsideList : Ty → Bool
    | .fail => true
    | .struct fs => hasFailOutsideListFields fs
    | .list _ _ _ _ _ => false
    | .listI _ _ => false
    | .tagged _ cs d => hasFailOutsideListCases cs || hasFailOutsideList d
    | _ => false
  def hasFailOutsideListFields : List Ty → Bool
    | [] => false
    | t :: ts => hasFailOutsideList t || hasFailOutsideListFields ts
  def hasFailOutsideListCases : List (Nat × Ty) → Bool
    | [] => false
    | (_, ty) :: cs => hasFailOutsideList ty || hasFailOutsideListCases cs
end

/-- collapse runs of dynamic tokens (a dispatch switch followed by the dispatched call) -/
def collapseDyn : List Tok → List Tok
  | [] => []
  | t :: ts =>
    match t, collapseDyn ts with
    | .dyn _, .dyn b :: rest => .dyn b :: rest
    | t, r => t :: r

/-- writer and reader of a deep-inlined stream mirror each other -/
def mirrors (s : Stream) : Bool := decide (erase (collapseDyn s.ser) = erase (collapseDyn s.de))

end ElaVerif.WireTokens
