import ElaVerif.Model.P2PFrame
/-!
Helper lemmas for C35 (P2P framing).  `H` (SHA-256d) and `decode` (the per-command codec) are
parameters throughout.
-/
namespace ElaVerif.P2PFrame

/-! ### little-endian words -/

theorem le32_length (n : Nat) : (le32 n).length = 4 := rfl

theorem readLe32_le32 {n : Nat} (h : n < 2 ^ 32) : readLe32 (le32 n) = n := by
  simp only [le32, readLe32, UInt8.toNat_ofNat']
  omega

theorem readLe32_inj {a b : Bytes} (ha : a.length = 4) (hb : b.length = 4)
    (h : readLe32 a = readLe32 b) : a = b := by
  match a, ha with
  | [a0, a1, a2, a3], _ =>
    match b, hb with
    | [b0, b1, b2, b3], _ =>
      simp only [readLe32] at h
      have h0 := a0.toNat_lt; have h1 := a1.toNat_lt; have h2 := a2.toNat_lt; have h3 := a3.toNat_lt
      have g0 := b0.toNat_lt; have g1 := b1.toNat_lt; have g2 := b2.toNat_lt; have g3 := b3.toNat_lt
      have e0 : a0.toNat = b0.toNat := by omega
      have e1 : a1.toNat = b1.toNat := by omega
      have e2 : a2.toNat = b2.toNat := by omega
      have e3 : a3.toNat = b3.toNat := by omega
      rw [UInt8.toNat_inj] at e0 e1 e2 e3
      subst e0 e1 e2 e3; rfl

theorem readLe32_lt {a : Bytes} (ha : a.length = 4) : readLe32 a < 2 ^ 32 := by
  match a, ha with
  | [a0, a1, a2, a3], _ =>
    simp only [readLe32]
    have h0 := a0.toNat_lt; have h1 := a1.toNat_lt; have h2 := a2.toNat_lt; have h3 := a3.toNat_lt
    omega

/-! ### splitting a stream into header fields -/

theorem take_app {a b : Bytes} {n : Nat} (h : a.length = n) : (a ++ b).take n = a := by
  subst h; simp
theorem drop_app {a b : Bytes} {n : Nat} (h : a.length = n) : (a ++ b).drop n = b := by
  subst h; simp

theorem deserialize_fields {m4 c12 l4 k4 : Bytes} (hm : m4.length = 4) (hc : c12.length = 12)
    (hl : l4.length = 4) (hk : k4.length = 4) :
    Header.deserialize (m4 ++ c12 ++ l4 ++ k4) = parseFields m4 c12 l4 k4 := by
  unfold Header.deserialize
  have e1 : (m4 ++ c12 ++ l4 ++ k4).take 4 = m4 := by
    simp only [List.append_assoc]; exact take_app hm
  have e2 : ((m4 ++ c12 ++ l4 ++ k4).drop 4).take 12 = c12 := by
    simp only [List.append_assoc]; rw [drop_app hm]; exact take_app hc
  have e3 : ((m4 ++ c12 ++ l4 ++ k4).drop 16).take 4 = l4 := by
    simp only [List.append_assoc]
    rw [show (16:Nat) = 4 + 12 from rfl, ← List.drop_drop, drop_app hm, drop_app hc]; exact take_app hl
  have e4 : ((m4 ++ c12 ++ l4 ++ k4).drop 20).take 4 = k4 := by
    simp only [List.append_assoc]
    rw [show (20:Nat) = 4 + (12 + 4) from rfl, ← List.drop_drop, drop_app hm, ← List.drop_drop, drop_app hc, drop_app hl]
    exact List.take_of_length_le (by omega)
  rw [e1, e2, e3, e4]

/-- the reader on a stream given as four header fields and a tail. -/
theorem readMessage_fields (H : Bytes → Bytes) (table : List (Bytes × Nat)) (decode : Bytes → Bytes → Option α)
    (magic : Nat) {m4 c12 l4 k4 : Bytes} (tail : Bytes) (hm : m4.length = 4) (hc : c12.length = 12)
    (hl : l4.length = 4) (hk : k4.length = 4) :
    readMessage H table decode magic (m4 ++ c12 ++ l4 ++ k4 ++ tail) =
      match parseFields m4 c12 l4 k4 with
      | none => ⟨.error .invalidHeader, 0, headerSize⟩
      | some hdr =>
        if hdr.magic ≠ magic then ⟨.error .unmatchedMagic, 0, headerSize⟩
        else readBody H table decode hdr tail := by
  have hlen : (m4 ++ c12 ++ l4 ++ k4).length = 24 := by simp [hm, hc, hl, hk]
  unfold readMessage
  have h1 : ¬ (m4 ++ c12 ++ l4 ++ k4 ++ tail).length < headerSize := by
    simp only [List.length_append, hm, hc, hl, hk, headerSize]; omega
  rw [if_neg h1]
  have h2 : (m4 ++ c12 ++ l4 ++ k4 ++ tail).take headerSize = m4 ++ c12 ++ l4 ++ k4 := take_app hlen
  have h3 : (m4 ++ c12 ++ l4 ++ k4 ++ tail).drop headerSize = tail := drop_app hlen
  rw [h2, h3, deserialize_fields hm hc hl hk]
  rfl

/-! ### the command field -/

theorem dropWhile_zeros (k : Nat) (r : Bytes) :
    (List.replicate k (0 : UInt8) ++ r).dropWhile (· == 0) = r.dropWhile (· == 0) := by
  induction k with
  | zero => simp
  | succ k ih => simp [List.replicate_succ, ih]

theorem dropWhile_none {r : Bytes} (h : (0 : UInt8) ∉ r) : r.dropWhile (· == 0) = r := by
  cases r with
  | nil => rfl
  | cons x xs =>
    have : x ≠ 0 := by intro hx; apply h; simp [hx]
    simp [this]

/-- `GetCMD` of a NUL-padded command is the command. -/
theorem trimZeros_pad {c : Bytes} (h0 : (0 : UInt8) ∉ c) (k : Nat) :
    trimZeros (c ++ List.replicate k 0) = c := by
  unfold trimZeros
  rw [List.reverse_append, List.reverse_replicate, dropWhile_zeros, dropWhile_none (by simpa using h0)]
  simp

theorem takeWhile_zeros (r : Bytes) : ∃ k, r.takeWhile (· == 0) = List.replicate k (0 : UInt8) := by
  induction r with
  | nil => exact ⟨0, rfl⟩
  | cons x xs ih =>
    by_cases hx : x = 0
    · obtain ⟨k, hk⟩ := ih
      exact ⟨k + 1, by simp [hx, hk, List.replicate_succ]⟩
    · exact ⟨0, by simp [hx]⟩

/-- every byte string is its trimmed form followed by NULs -/
theorem trimZeros_decomp (l : Bytes) : ∃ k, l = trimZeros l ++ List.replicate k 0 := by
  obtain ⟨k, hk⟩ := takeWhile_zeros l.reverse
  refine ⟨k, ?_⟩
  have h := List.takeWhile_append_dropWhile (p := (· == (0 : UInt8))) (l := l.reverse)
  have h2 := congrArg List.reverse h
  rw [List.reverse_append, List.reverse_reverse, hk, List.reverse_replicate] at h2
  unfold trimZeros
  exact h2.symm

/-- `GetCMD` is injective on command fields of equal length -/
theorem trimZeros_inj {a b : Bytes} (hlen : a.length = b.length) (h : trimZeros a = trimZeros b) : a = b := by
  obtain ⟨ka, ha⟩ := trimZeros_decomp a
  obtain ⟨kb, hb⟩ := trimZeros_decomp b
  have hl : (trimZeros a ++ List.replicate ka (0 : UInt8)).length = (trimZeros b ++ List.replicate kb (0 : UInt8)).length := by
    rw [← ha, ← hb]; exact hlen
  simp only [List.length_append, List.length_replicate, h] at hl
  have : ka = kb := by omega
  rw [ha, hb, h, this]

theorem lookup_mem {table : List (Bytes × Nat)} {c : Bytes} {m : Nat} (h : lookup table c = some m) :
    (c, m) ∈ table := by
  induction table with
  | nil => simp [lookup] at h
  | cons e rest ih =>
    obtain ⟨c', m'⟩ := e
    unfold lookup at h
    split at h
    · rename_i hc
      cases h; subst hc; simp
    · exact List.mem_cons_of_mem _ (ih h)

/-! ### readBody -/

/-- everything an accepting `readBody` has checked -/
theorem readBody_ok (H : Bytes → Bytes) (table : List (Bytes × Nat)) (decode : Bytes → Bytes → Option α)
    (hdr : Header) (tail : Bytes) {c : Bytes} {m : α} {a n : Nat}
    (h : readBody H table decode hdr tail = ⟨.ok (c, m), a, n⟩) :
    c = hdr.getCMD ∧ (∃ max, lookup table c = some max ∧ hdr.length ≤ max) ∧ hdr.length ≤ tail.length ∧
      (H (tail.take hdr.length)).take 4 = hdr.checksum ∧ decode c (tail.take hdr.length) = some m ∧
      a = hdr.length ∧ n = headerSize + hdr.length := by
  unfold readBody at h
  split at h
  · cases h
  · rename_i max hmax
    split at h
    · cases h
    · rename_i hle
      split at h
      · cases h
      · rename_i hshort
        simp only [] at h
        split at h
        · cases h
        · rename_i hck
          split at h
          · cases h
          · rename_i m' hdec
            cases h
            refine ⟨rfl, ⟨max, hmax, by omega⟩, by omega, ?_, hdec, rfl, rfl⟩
            exact Classical.not_not.mp hck

/-- the allocation meter of `readBody`: nothing unless the command is known and the declared
    length is within its limit; then exactly the declared length. -/
theorem readBody_alloc (H : Bytes → Bytes) (table : List (Bytes × Nat)) (decode : Bytes → Bytes → Option α)
    (hdr : Header) (tail : Bytes) :
    (readBody H table decode hdr tail).alloc = 0 ∨
      (∃ max, lookup table hdr.getCMD = some max ∧ hdr.length ≤ max ∧
        (readBody H table decode hdr tail).alloc = hdr.length) := by
  unfold readBody
  split
  · left; rfl
  · rename_i max hmax
    split
    · left; rfl
    · rename_i hle
      right
      refine ⟨max, hmax, by omega, ?_⟩
      split
      · rfl
      · simp only []
        split
        · rfl
        · split <;> rfl

/-! ### one byte of a five-part stream -/

theorem set5 (a b c d e : Bytes) (i : Nat) (x : UInt8) :
    (a ++ b ++ c ++ d ++ e).set i x =
      if i < a.length then a.set i x ++ b ++ c ++ d ++ e
      else if i < a.length + b.length then a ++ b.set (i - a.length) x ++ c ++ d ++ e
      else if i < a.length + b.length + c.length then a ++ b ++ c.set (i - a.length - b.length) x ++ d ++ e
      else if i < a.length + b.length + c.length + d.length then
        a ++ b ++ c ++ d.set (i - a.length - b.length - c.length) x ++ e
      else a ++ b ++ c ++ d ++ e.set (i - a.length - b.length - c.length - d.length) x := by
  simp only [List.set_append, List.length_append]
  repeat' split
  all_goals first | rfl | omega | simp only [Nat.sub_sub]

theorem get5 (a b c d e : Bytes) (i : Nat) :
    (a ++ b ++ c ++ d ++ e)[i]? =
      if i < a.length then a[i]?
      else if i < a.length + b.length then b[i - a.length]?
      else if i < a.length + b.length + c.length then c[i - a.length - b.length]?
      else if i < a.length + b.length + c.length + d.length then d[i - a.length - b.length - c.length]?
      else e[i - a.length - b.length - c.length - d.length]? := by
  simp only [List.getElem?_append, List.length_append]
  repeat' split
  all_goals first | rfl | omega | simp only [Nat.sub_sub]

theorem set_ne {l : Bytes} {i : Nat} {x : UInt8} (hi : i < l.length) (h : l[i]? ≠ some x) : l.set i x ≠ l := by
  intro he
  apply h
  rw [← he, List.getElem?_set_self (by simpa using hi)]

end ElaVerif.P2PFrame
