import ElaVerif.Model.WalletCodec
import ElaVerif.Lemmas.RunPrograms
/-! Wallet-built programs are accepted by the RunPrograms model (property C37). Core Lean only. -/
namespace ElaVerif.WalletCodec
open ElaVerif.Script ElaVerif.RunPrograms

theorem std_len (pub : Bytes) (h : pub.length = 33) : (standardCode pub).length = 35 := by
  simp [standardCode, h]

theorem std_idx0 (pub : Bytes) : idx (standardCode pub) 0 = .val 33 := by
  simp [standardCode, idx]

theorem std_idx34 (pub : Bytes) (h : pub.length = 33) : idx (standardCode pub) 34 = .val 0xAC := by
  unfold idx standardCode
  have : (33 :: pub ++ [0xAC])[34]? = some 0xAC := by
    show ((33 : UInt8) :: (pub ++ [0xAC]))[33 + 1]? = some 0xAC
    rw [List.getElem?_cons_succ, List.getElem?_append_right (by omega)]
    simp [h]
  rw [this]; rfl

theorem std_isStandard (pub : Bytes) (h : pub.length = 33) : isStandard (standardCode pub) = .val true := by
  unfold isStandard
  rw [if_neg (by rw [std_len pub h]; omega), std_idx0, std_idx34 pub h]
  decide

theorem std_isSchnorr (pub : Bytes) (h : pub.length = 33) : isSchnorr (standardCode pub) = .val false := by
  unfold isSchnorr
  rw [if_neg (by rw [std_len pub h]; omega), std_idx0]
  simp only [R.bind_val]
  rw [if_pos (by decide)]

/-- a transaction signed with a standard account passes `RunPrograms` -/
theorem wallet_standard_accepts {D : Type} (O : Oracles D) (d : D) (pub sig : Bytes) (pfx : Nat)
    (hpub : pub.length = 33) (hsig : sig.length = 64)
    (hp : pfx = PrefixStandard ∨ pfx = PrefixDeposit)
    (hdec : O.decodeOk pub = true) (hver : O.verify pub d sig = true) :
    runPrograms Fix.all O d [⟨pfx, O.codeHash (standardCode pub)⟩] [⟨standardCode pub, standardParam sig⟩] = ok := by
  have hx : pfx ≠ PrefixCrossChain := by rcases hp with h | h <;> (rw [h]; decide)
  unfold runPrograms
  rw [if_neg (by simp)]
  unfold runLoop runOne
  simp only []
  rw [if_neg hx, if_neg (by simp), if_pos hp]
  rw [std_isSchnorr pub hpub]
  simp only [R.bind_val, Bool.false_eq_true, if_false]
  rw [std_isStandard pub hpub]
  simp only [R.bind_val, if_true]
  have hcs : checkStandard O ⟨standardCode pub, standardParam sig⟩ d = ok := by
    unfold checkStandard
    simp only []
    rw [if_neg (by simp [standardParam, hsig]), if_neg (by rw [std_len pub hpub]; omega)]
    have hk : slice (standardCode pub) 1 ((standardCode pub).length - 1) = .val pub := by
      unfold ElaVerif.RunPrograms.slice
      rw [if_pos (by rw [std_len pub hpub]; omega), std_len pub hpub]
      simp [standardCode, hpub]
    rw [hk]
    simp only [R.bind_val, hdec]
    have hs : sliceFrom (standardParam sig) 1 = .val sig := by
      unfold sliceFrom
      rw [if_pos (by simp [standardParam])]
      simp [standardParam]
    simp only [Bool.not_true, Bool.false_eq_true, if_false]
    rw [hs]
    simp only [R.bind_val, hver, if_true]
  rw [hcs]
  simp only [ok, R.bind_val]
  unfold runLoop
  rfl


theorem sch_isSchnorr (pub : Bytes) (h : pub.length = 33) : isSchnorr (schnorrCode pub) = .val true := by
  unfold isSchnorr
  have hl : (schnorrCode pub).length = 35 := by simp [schnorrCode, h]
  rw [if_neg (by rw [hl]; omega)]
  have h0 : idx (schnorrCode pub) 0 = .val 0x51 := by simp [schnorrCode, idx]
  have h1 : idx (schnorrCode pub) 1 = .val 33 := by simp [schnorrCode, idx]
  rw [h0]
  simp only [R.bind_val]
  rw [if_neg (by decide), h1]
  simp only [R.bind_val]
  rw [if_neg (by rw [hl]; decide)]

/-- a transaction signed with an aggregated Schnorr account passes `RunPrograms` -/
theorem wallet_schnorr_accepts {D : Type} (O : Oracles D) (d : D) (pub sig : Bytes) (pfx : Nat)
    (hpub : pub.length = 33) (hsig : sig.length = 64)
    (hp : pfx = PrefixStandard ∨ pfx = PrefixDeposit)
    (hver : O.schnorr pub d sig = true) :
    runPrograms Fix.all O d [⟨pfx, O.codeHash (schnorrCode pub)⟩] [⟨schnorrCode pub, sig⟩] = ok := by
  have hx : pfx ≠ PrefixCrossChain := by rcases hp with h | h <;> (rw [h]; decide)
  unfold runPrograms
  rw [if_neg (by simp)]
  unfold runLoop runOne
  simp only []
  rw [if_neg hx, if_neg (by simp), if_pos hp]
  rw [sch_isSchnorr pub hpub]
  simp only [R.bind_val, if_true]
  have hcs : checkSchnorr Fix.all O ⟨schnorrCode pub, sig⟩ d = ok := by
    unfold checkSchnorr
    simp only []
    rw [if_neg (by simp [schnorrCode, hpub, hsig, Fix.all])]
    have h1 : sliceFrom (schnorrCode pub) 2 = .val pub := by
      unfold sliceFrom
      rw [if_pos (by simp [schnorrCode, hpub])]
      simp [schnorrCode]
    have h2 : ElaVerif.RunPrograms.slice sig 0 64 = .val sig := by
      unfold ElaVerif.RunPrograms.slice
      rw [if_pos (by omega)]
      simp [← hsig]
    rw [h1, h2]
    simp only [R.bind_val]
    have c1 : copyInto 33 pub = pub := by simp [copyInto, ← hpub]
    have c2 : copyInto 64 sig = sig := by simp [copyInto, ← hsig]
    rw [c1, c2, hver]
    rfl
  rw [hcs]
  simp only [ok, R.bind_val]
  unfold runLoop
  rfl


end ElaVerif.WalletCodec
