import ElaVerif.Model.AuxPowTotal
import ElaVerif.Lemmas.Script
/-! Helper lemmas about `Model/AuxPowTotal.lean` (C03). Core Lean only. -/
namespace ElaVerif.AuxPowTotal
open ElaVerif.Script

theorem nibbles_length (b : Bytes) : (nibbles b).length = 2 * b.length := by
  induction b with
  | nil => rfl
  | cons x xs ih => simp [nibbles, ih]; omega

theorem isPrefix_length : ∀ (sub s : List Nat), isPrefix sub s = true → sub.length ≤ s.length
  | [], _, _ => by simp
  | _ :: _, [], h => by simp [isPrefix] at h
  | a :: as, b :: bs, h => by
    simp [isPrefix] at h
    have := isPrefix_length as bs h.2
    simp; omega

theorem indexOf_bound (sub : List Nat) : ∀ (s : List Nat) (k : Nat), indexOf sub s = some k → k + sub.length ≤ s.length
  | [], k, h => by
    simp only [indexOf] at h
    split at h
    · rename_i he; cases h; simp [List.isEmpty_iff] at he; simp [he]
    · cases h
  | c :: cs, k, h => by
    simp only [indexOf] at h
    split at h
    · rename_i hp; cases h
      have := isPrefix_length sub (c :: cs) hp
      omega
    · split at h
      · rename_i k' hk
        cases h
        have := indexOf_bound sub cs k' hk
        simp; omega
      · cases h

theorem slice_val {b : Bytes} {lo hi : Nat} (h1 : lo ≤ hi) (h2 : hi ≤ b.length) :
    slice b lo hi = .val ((b.drop lo).take (hi - lo)) := by
  simp [slice, h1, h2]

theorem le32_val (b : Bytes) (h : 4 ≤ b.length) : ∃ v, le32 b = .val v := by
  match b, h with
  | b0 :: b1 :: b2 :: b3 :: _, _ => exact ⟨_, rfl⟩

theorem getExpectedIndex_total (nonce : Nat) (chainID h : Int) : getExpectedIndex true nonce chainID h ≠ .panic := by
  unfold getExpectedIndex
  simp only []
  split
  · intro h; cases h
  · rename_i hc
    have hh : 0 ≤ h ∧ h < 32 := by
      constructor
      · apply Classical.byContradiction; intro hn; apply hc; simp; omega
      · apply Classical.byContradiction; intro hn; apply hc; simp; omega
    have : intToU32 h < 32 := by unfold intToU32; omega
    rw [if_pos this]
    have : (2 : Nat) ^ intToU32 h ≠ 0 := Nat.pos_iff_ne_zero.mp (Nat.two_pow_pos _)
    rw [if_neg this]
    intro h; cases h


theorem check_total (inp : Input) : check Fix.all inp ≠ .panic := by
  unfold check
  simp only [Fix.all]
  split
  · intro h; cases h
  · split
    · intro h; cases h
    · rename_i hn
      have hn0 : inp.nTxIn ≠ 0 := by intro h0; apply hn; simp [h0]
      rw [if_neg hn0]
      split
      · rename_i hi ri hhi hri
        have b1 := indexOf_bound _ _ _ hhi
        have b2 := indexOf_bound _ _ _ hri
        have hl := nibbles_length inp.script
        have hm : mmHeader.length = 8 := rfl
        rw [hm] at b1
        simp only [strFrom]
        rw [if_pos (by omega)]
        simp only [R.bind_val]
        split
        · intro h; cases h
        · split
          · intro h; cases h
          · split
            · intro h; cases h
            · rename_i hlen
              generalize hr : ri + (nibbles inp.auxRootRev).length = r at *
              rw [slice_val (by omega) (by omega)]
              simp only [R.bind_val]
              obtain ⟨v, hv⟩ := le32_val (List.take (r / 2 + 4 - r / 2) (List.drop (r / 2) inp.script)) (by simp; omega)
              rw [hv]
              simp only [R.bind_val]
              apply ite_np (fun _ => val_np _); intro _
              apply ite_np (fun _ => val_np _); intro hg
              have hg' : r / 2 + 8 ≤ inp.script.length := by
                apply Classical.byContradiction; intro hc; apply hg; simp; omega
              rw [slice_val (by omega) hg']
              simp only [R.bind_val]
              obtain ⟨w, hw⟩ := le32_val (List.take (r / 2 + 8 - (r / 2 + 4)) (List.drop (r / 2 + 4) inp.script)) (by simp; omega)
              rw [hw]
              simp only [R.bind_val]
              cases he : getExpectedIndex true w inp.chainID ↑inp.height with
              | panic => exact absurd he (getExpectedIndex_total _ _ _)
              | val e =>
                simp only [R.bind_val]
                exact ite_np (fun _ => val_np _) (fun _ => val_np _)
      · intro h; cases h

end ElaVerif.AuxPowTotal
