import ElaVerif.Model.Deposit
/-!
Helper lemmas for C28: association-list lookups, per-key projection of a block,
sums of votes.
-/
namespace ElaVerif.Deposit

/-! ### association lists -/

theorem get_upd {α : Type} (k o : Nat) (f : α → α) (l : AMap α) :
    get o (upd k f l) = if k = o then (get o l).map f else get o l := by
  induction l with
  | nil => simp [upd, get]
  | cons p t ih =>
    obtain ⟨k', v⟩ := p
    by_cases h1 : k' = k
    · by_cases h2 : k' = o
      · subst h1; subst h2; simp [upd, get]
      · subst h1; simp [upd, get, h2, ih]
    · by_cases h2 : k' = o
      · subst h2
        have h3 : ¬ k = k' := fun e => h1 e.symm
        simp [upd, get, h1, h3]
      · simp [upd, get, h1, h2, ih]

theorem get_cons {α : Type} (k o : Nat) (v : α) (l : AMap α) :
    get o ((k, v) :: l) = if k = o then some v else get o l := by
  simp [get]

theorem get_mapKV {α : Type} (f : Nat → α → α) (o : Nat) (l : AMap α) :
    get o (mapKV f l) = (get o l).map (f o) := by
  induction l with
  | nil => simp [mapKV, get]
  | cons p t ih =>
    obtain ⟨k', v⟩ := p
    by_cases h2 : k' = o
    · subst h2; simp [mapKV, get]
    · simp [mapKV, get, h2, ih]

/-! ### per-key projections of `applyTx` -/

/-- what a transaction does to the account stored under `o` (`a0?` = pre-block account of `o`). -/
def projA (P : Params) (h : Nat) (o : Nat) (a0? : Option Acct) (tx : Tx) (a? : Option Acct) : Option Acct :=
  match tx with
  | .reg o' amount lock v2 =>
    if o' = o then (match a? with | some a => some a | none => some (newAcct h amount lock v2)) else a?
  | .dep o' _ | .cancel o' | .ret o' _ _ _ _ | .pen o' _ =>
    if o' = o then (match a0? with | none => a? | some a0 => a?.map (acctStep P h a0 tx)) else a?
  | _ => a?

def projS (k : Nat) (tx : Tx) (t? : Option Stake) : Option Stake :=
  match tx with
  | .stake k' v => if k' = k then (match t? with | some t => some (stakeStep tx t) | none => some ⟨v, 0, []⟩) else t?
  | .retv k' v => if k' = k then (match t? with | some t => some (stakeStep tx t) | none => some ⟨-v, 0, []⟩) else t?
  | .vote k' _ _ _ | .renew k' _ _ _ _ => if k' = k then t?.map (stakeStep tx) else t?
  | _ => t?

theorem get_applyTx_accts (P : Params) (h : Nat) (s0 s : State) (tx : Tx) (o : Nat) :
    get o (applyTx P h s0 s tx).accts = projA P h o (get o s0.accts) tx (get o s.accts) := by
  cases tx with
  | reg o' amount lock v2 =>
    simp only [applyTx, projA]
    by_cases ho : o' = o
    · subst ho
      cases hg : get o' s.accts with
      | none => simp [get_cons]
      | some a => simp [hg]
    · cases hg : get o' s.accts with
      | none => simp [get_cons, ho]
      | some a => simp [ho]
  | dep o' v =>
    simp only [applyTx, projA]
    cases h0 : get o' s0.accts with
    | none => by_cases ho : o' = o <;> simp [ho]; subst ho; simp [h0]
    | some a0 => by_cases ho : o' = o
                 · subst ho; simp [get_upd, h0]
                 · simp [get_upd, ho]
  | cancel o' =>
    simp only [applyTx, projA]
    cases h0 : get o' s0.accts with
    | none => by_cases ho : o' = o <;> simp [ho]; subst ho; simp [h0]
    | some a0 => by_cases ho : o' = o
                 · subst ho; simp [get_upd, h0]
                 · simp [get_upd, ho]
  | ret o' inp tinp change out =>
    simp only [applyTx, projA]
    cases h0 : get o' s0.accts with
    | none => by_cases ho : o' = o <;> simp [ho]; subst ho; simp [h0]
    | some a0 => by_cases ho : o' = o
                 · subst ho; simp [get_upd, h0]
                 · simp [get_upd, ho]
  | pen o' p =>
    simp only [applyTx, projA]
    cases h0 : get o' s0.accts with
    | none => by_cases ho : o' = o <;> simp [ho]; subst ho; simp [h0]
    | some a0 => by_cases ho : o' = o
                 · subst ho; simp [get_upd, h0]
                 · simp [get_upd, ho]
  | stake k v =>
    simp only [applyTx, projA]
    cases hg : get k s.stakes <;> rfl
  | vote k lock vs bad => simp [applyTx, projA]
  | renew k ol am nl bo => simp [applyTx, projA]
  | retv k v =>
    simp only [applyTx, projA]
    cases hg : get k s.stakes <;> rfl

theorem get_applyTx_stakes (P : Params) (h : Nat) (s0 s : State) (tx : Tx) (k : Nat) :
    get k (applyTx P h s0 s tx).stakes = projS k tx (get k s.stakes) := by
  cases tx with
  | reg o' amount lock v2 =>
    simp only [applyTx, projS]
    cases hg : get o' s.accts <;> rfl
  | dep o' v => simp only [applyTx, projS]; cases h0 : get o' s0.accts <;> rfl
  | cancel o' => simp only [applyTx, projS]; cases h0 : get o' s0.accts <;> rfl
  | ret o' inp tinp change out => simp only [applyTx, projS]; cases h0 : get o' s0.accts <;> rfl
  | pen o' p => simp only [applyTx, projS]; cases h0 : get o' s0.accts <;> rfl
  | stake k' v =>
    simp only [applyTx, projS]
    by_cases hk : k' = k
    · subst hk
      cases hg : get k' s.stakes with
      | none => simp [get_cons]
      | some t => simp [get_upd, hg]
    · cases hg : get k' s.stakes with
      | none => simp [get_cons, hk]
      | some t => simp [get_upd, hk]
  | vote k' lock vs bad =>
    simp only [applyTx, projS]
    by_cases hk : k' = k
    · subst hk; simp [get_upd]
    · simp [get_upd, hk]
  | renew k' ol am nl bo =>
    simp only [applyTx, projS]
    by_cases hk : k' = k
    · subst hk; simp [get_upd]
    · simp [get_upd, hk]
  | retv k' v =>
    simp only [applyTx, projS]
    by_cases hk : k' = k
    · subst hk
      cases hg : get k' s.stakes with
      | none => simp [get_cons]
      | some t => simp [get_upd, hg]
    · cases hg : get k' s.stakes with
      | none => simp [get_cons, hk]
      | some t => simp [get_upd, hk]

theorem get_foldl_accts (P : Params) (h : Nat) (s0 : State) (o : Nat) (txs : List Tx) (s : State) :
    get o (txs.foldl (applyTx P h s0) s).accts =
      txs.foldl (fun a? tx => projA P h o (get o s0.accts) tx a?) (get o s.accts) := by
  induction txs generalizing s with
  | nil => rfl
  | cons tx t ih => simp only [List.foldl_cons]; rw [ih, get_applyTx_accts]

theorem get_foldl_stakes (P : Params) (h : Nat) (s0 : State) (k : Nat) (txs : List Tx) (s : State) :
    get k (txs.foldl (applyTx P h s0) s).stakes =
      txs.foldl (fun t? tx => projS k tx t?) (get k s.stakes) := by
  induction txs generalizing s with
  | nil => rfl
  | cons tx t ih => simp only [List.foldl_cons]; rw [ih, get_applyTx_stakes]

/-! ### sums -/

theorem sumV_append (a b : List Vote) : sumV (a ++ b) = sumV a + sumV b := by
  induction a with
  | nil => simp [sumV]
  | cons x t ih => simp [sumV, ih]; omega

theorem sumV_map (lock : Nat) (vs : List Int) : sumV (vs.map (fun v => (⟨lock, v⟩ : Vote))) = sumI vs := by
  induction vs with
  | nil => rfl
  | cons x t ih => simp [sumV, sumI, ih]

theorem sumV_erase (v : Vote) : ∀ (l : List Vote), v ∈ l → sumV (l.erase v) = sumV l - v.amount := by
  intro l
  induction l with
  | nil => intro h; cases h
  | cons x t ih =>
    intro h
    by_cases hx : x = v
    · subst hx; simp [sumV]; omega
    · have hm : v ∈ t := by
        rcases List.mem_cons.mp h with rfl | hm
        · exact absurd rfl hx
        · exact hm
      have : (x :: t).erase v = x :: t.erase v := by
        simp [List.erase_cons, hx]
      rw [this]; simp [sumV, ih hm]; omega

theorem sumV_filter_split (p : Vote → Bool) (l : List Vote) :
    sumV l = sumV (l.filter p) + sumV (l.filter (fun v => ¬ p v)) := by
  induction l with
  | nil => rfl
  | cons x t ih =>
    by_cases hp : p x
    · simp [List.filter, hp, sumV, ih]; omega
    · simp [List.filter, hp, sumV, ih]; omega

theorem sumV_nonneg (l : List Vote) (hpos : ∀ v ∈ l, 0 < v.amount) : 0 ≤ sumV l := by
  induction l with
  | nil => simp [sumV]
  | cons x t ih =>
    have h1 := hpos x (by simp)
    have h2 := ih (fun v hv => hpos v (by simp [hv]))
    simp [sumV]; omega

end ElaVerif.Deposit
