import ElaVerif.Model.Murmur3
/-!
MurmurHash3 x86_32: the executable transcription of the Go function (`Model/Murmur3.lean`, pattern
recursion mirroring the block loop and the `switch dataLen & 3`) equals the algorithm as it is
specified: split the input into little-endian 32-bit words and a tail of fewer than four bytes,
fold the block step over the words, mix in the tail word `Σ tail[i] << 8i` if there is a tail, finalise.
-/
namespace ElaVerif.Murmur3

/-- full little-endian words and the remaining (< 4) bytes -/
def words : List UInt8 → List UInt32 × List UInt8
  | a :: b :: c :: d :: rest => (le32 a b c d :: (words rest).1, (words rest).2)
  | t => ([], t)

/-- the tail as a little-endian number: `t[0] ^ t[1] << 8 ^ t[2] << 16 …` -/
def tailWord : List UInt8 → UInt32
  | [] => 0
  | b :: r => b.toUInt32 ^^^ (tailWord r <<< 8)

/-- one round of the block loop -/
def blockStep (h k : UInt32) : UInt32 := rotl (h ^^^ mixK k) 13 * 5 + nConst

/-- MurmurHash3_x86_32 as specified -/
def murmurSpec (seed : UInt32) (data : List UInt8) : UInt32 :=
  let h := (words data).1.foldl blockStep seed
  let t := (words data).2
  let h := if t.isEmpty then h else h ^^^ mixK (tailWord t)
  fmix (h ^^^ UInt32.ofNat data.length)

theorem shl_xor (x y : UInt32) : (x ^^^ y) <<< 8 = (x <<< 8) ^^^ (y <<< 8) := by
  apply UInt32.eq_of_toBitVec_eq; simp [BitVec.shiftLeft_xor_distrib]

theorem shl_shl (x : UInt32) : (x <<< 8) <<< 8 = x <<< 16 := by
  apply UInt32.eq_of_toBitVec_eq; simp

theorem tail3 (a b c : UInt8) : tailWord [a, b, c] = (c.toUInt32 <<< 16) ^^^ (b.toUInt32 <<< 8) ^^^ a.toUInt32 := by
  simp only [tailWord, shl_xor, shl_shl]
  have z2 : (0 : UInt32) <<< 16 = 0 := by decide
  have z : (0 : UInt32) <<< 8 = 0 := by decide
  rw [z2, z]
  simp only [UInt32.xor_zero]
  ac_rfl

theorem tail2 (a b : UInt8) : tailWord [a, b] = (b.toUInt32 <<< 8) ^^^ a.toUInt32 := by
  simp only [tailWord, shl_xor]
  have z : (0 : UInt32) <<< 8 = 0 := by decide
  rw [shl_shl, show (0 : UInt32) <<< 16 = 0 by decide]
  simp only [UInt32.xor_zero]
  ac_rfl

theorem tail1 (a : UInt8) : tailWord [a] = a.toUInt32 := by
  simp only [tailWord]
  rw [show (0 : UInt32) <<< 8 = 0 by decide]
  simp

theorem body_eq (data : List UInt8) (h : UInt32) :
    body data h =
      (if (words data).2.isEmpty then (words data).1.foldl blockStep h
       else (words data).1.foldl blockStep h ^^^ mixK (tailWord (words data).2)) := by
  fun_induction body data h with
  | case1 a b c d rest h h1 h2 ih =>
    simp only [words, List.foldl_cons]
    rw [ih]
    rfl
  | case2 a b c h => simp [words, tail3]
  | case3 a b h => simp [words, tail2]
  | case4 a h => simp [words, tail1]
  | case5 h => simp [words]

/-- the transcription of the Go function computes MurmurHash3_x86_32 as specified, for every seed and input -/
theorem murmur3_eq_spec (seed : UInt32) (data : List UInt8) : murmur3 seed data = murmurSpec seed data := by
  unfold murmur3 murmurSpec
  rw [body_eq]

theorem words_tail_lt (data : List UInt8) : (words data).2.length < 4 := by
  fun_induction words data with
  | case1 a b c d rest ih => simpa [words] using ih
  | case2 t hne =>
    match t, hne with
    | [], _ => simp
    | [_], _ => simp
    | [_, _], _ => simp
    | [_, _, _], _ => simp
    | a :: b :: c :: d :: r, hne => exact absurd rfl (hne a b c d r)

theorem words_length (data : List UInt8) : 4 * (words data).1.length + (words data).2.length = data.length := by
  fun_induction words data with
  | case1 a b c d rest ih => simp only [List.length_cons]; omega
  | case2 t hne => simp

end ElaVerif.Murmur3
