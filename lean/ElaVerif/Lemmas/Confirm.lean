import ElaVerif.Model.Confirm
/-!
Helper lemmas for C25 (confirmation quorum).  Core Lean only.
-/
namespace ElaVerif.Confirm

/-! ### distinct elements -/

theorem mem_dedup {a : Nat} : ∀ {l : List Nat}, a ∈ dedup l ↔ a ∈ l
  | [] => by simp [dedup]
  | b :: l => by
    unfold dedup
    by_cases h : b ∈ l
    · rw [if_pos h, mem_dedup (l := l)]
      constructor
      · intro h'; exact List.mem_cons_of_mem _ h'
      · intro h'
        rcases List.mem_cons.1 h' with rfl | h''
        · exact h
        · exact h''
    · rw [if_neg h]
      simp only [List.mem_cons, mem_dedup (l := l)]

theorem nodup_dedup : ∀ (l : List Nat), (dedup l).Nodup
  | [] => by simp [dedup]
  | b :: l => by
    unfold dedup
    by_cases h : b ∈ l
    · rw [if_pos h]; exact nodup_dedup l
    · rw [if_neg h]
      exact List.nodup_cons.2 ⟨fun h' => h (mem_dedup.1 h'), nodup_dedup l⟩

theorem length_dedup_le : ∀ (l : List Nat), (dedup l).length ≤ l.length
  | [] => by simp [dedup]
  | b :: l => by
    unfold dedup
    have := length_dedup_le l
    split <;> simp <;> omega

/-! ### counting -/

/-- a duplicate-free list inside `u` is no longer than `u`. -/
theorem nodup_subset_length : ∀ (l u : List Nat), l.Nodup → (∀ x ∈ l, x ∈ u) → l.length ≤ u.length
  | [], _, _, _ => by simp
  | a :: l, u, hn, hs => by
    obtain ⟨hal, hnl⟩ := List.nodup_cons.1 hn
    have hau : a ∈ u := hs a (List.mem_cons_self ..)
    have hsub : ∀ x ∈ l, x ∈ u.erase a := by
      intro x hx
      have hne : x ≠ a := fun e => hal (e ▸ hx)
      exact (List.mem_erase_of_ne hne).2 (hs x (List.mem_cons_of_mem _ hx))
    have ih := nodup_subset_length l (u.erase a) hnl hsub
    have hlen := List.length_erase_of_mem hau
    have hpos : 0 < u.length := List.length_pos_of_mem hau
    simp only [List.length_cons]
    omega

/-- inclusion–exclusion for two duplicate-free sublists of `u`. -/
theorem inter_length (A B U : List Nat) (hA : A.Nodup) (hB : B.Nodup)
    (hAU : ∀ x ∈ A, x ∈ U) (hBU : ∀ x ∈ B, x ∈ U) :
    A.length + B.length ≤ (A.filter (fun x => decide (x ∈ B))).length + U.length := by
  have hsplit := List.length_eq_countP_add_countP (fun x => decide (x ∈ B)) (l := A)
  rw [List.countP_eq_length_filter, List.countP_eq_length_filter] at hsplit
  -- the part of A outside B, followed by B, is duplicate-free inside U
  have hnd : (A.filter (fun a => decide ¬(decide (a ∈ B)) = true) ++ B).Nodup := by
    rw [List.nodup_append]
    refine ⟨List.Pairwise.filter _ hA, hB, ?_⟩
    intro a ha b hb hab
    have := (List.mem_filter.1 ha).2
    subst hab
    simp [hb] at this
  have hsub : ∀ x ∈ (A.filter (fun a => decide ¬(decide (a ∈ B)) = true) ++ B), x ∈ U := by
    intro x hx
    rcases List.mem_append.1 hx with h | h
    · exact hAU x (List.mem_filter.1 h).1
    · exact hBU x h
  have hlen := nodup_subset_length _ U hnd hsub
  rw [List.length_append] at hlen
  omega

/-! ### the checks -/

theorem voteSanity_none : ∀ (vs : List Vote),
    voteSanity vs = none ↔ ∀ v ∈ vs, v.accept = true ∧ v.hashOk = true ∧ v.sigOk = true
  | [] => by simp [voteSanity]
  | v :: vs => by
    unfold voteSanity
    have ih := voteSanity_none vs
    cases ha : v.accept <;> cases hh : v.hashOk <;> cases hs : v.sigOk <;>
      simp [ha, hh, hs, ih]

theorem isNormalArb_iff {arbs : List Arb} {k : Nat} :
    isNormalArb arbs k = true ↔ ∃ a ∈ arbs, a.normal = true ∧ a.key = k := by
  unfold isNormalArb
  rw [List.any_eq_true]
  constructor
  · rintro ⟨a, ha, h⟩
    simp at h
    exact ⟨a, ha, h.1, h.2⟩
  · rintro ⟨a, ha, h1, h2⟩
    exact ⟨a, ha, by simp [h1, h2]⟩

end ElaVerif.Confirm
