import ElaVerif.Model.Confirm
/-!
Helper lemmas for C25 (confirmation quorum).  Core Lean only.
-/
namespace ElaVerif.Confirm

/-! ### distinct elements -/

theorem mem_dedup {a : Nat} : ∀ {l : List Nat}, a ∈ dedup l ↔ a ∈ l
  | [] => by simp [dedup]
  | b :: l => by
    unfold dedup
    by_cases h : b ∈ l
    · rw [if_pos h, mem_dedup (l := l)]
      constructor
      · intro h'; exact List.mem_cons_of_mem _ h'
      · intro h'
        rcases List.mem_cons.1 h' with rfl | h''
        · exact h
        · exact h''
    · rw [if_neg h]
      simp only [List.mem_cons, mem_dedup (l := l)]

theorem nodup_dedup : ∀ (l : List Nat), (dedup l).Nodup
  | [] => by simp [dedup]
  | b :: l => by
    unfold dedup
    by_cases h : b ∈ l
    · rw [if_pos h]; exact nodup_dedup l
    · rw [if_neg h]
      exact List.nodup_cons.2 ⟨fun h' => h (mem_dedup.1 h'), nodup_dedup l⟩

theorem length_dedup_le : ∀ (l : List Nat), (dedup l).length ≤ l.length
  | [] => by simp [dedup]
  | b :: l => by
    unfold dedup
    have := length_dedup_le l
    split <;> simp <;> omega

/-! ### counting -/

/-- a duplicate-free list inside `u` is no longer than `u`. -/
theorem nodup_subset_length : ∀ (l u : List Nat), l.Nodup → (∀ x ∈ l, x ∈ u) → l.length ≤ u.length
  | [], _, _, _ => by simp
  | a :: l, u, hn, hs => by
    obtain ⟨hal, hnl⟩ := List.nodup_cons.1 hn
    have hau : a ∈ u := hs a (List.mem_cons_self ..)
    have hsub : ∀ x ∈ l, x ∈ u.erase a := by
      intro x hx
      have hne : x ≠ a := fun e => hal (e ▸ hx)
      exact (List.mem_erase_of_ne hne).2 (hs x (List.mem_cons_of_mem _ hx))
    have ih := nodup_subset_length l (u.erase a) hnl hsub
    have hlen := List.length_erase_of_mem hau
    have hpos : 0 < u.length := List.length_pos_of_mem hau
    simp only [List.length_cons]
    omega

/-- inclusion–exclusion for two duplicate-free sublists of `u`. -/
theorem inter_length (A B U : List Nat) (hA : A.Nodup) (hB : B.Nodup)
    (hAU : ∀ x ∈ A, x ∈ U) (hBU : ∀ x ∈ B, x ∈ U) :
    A.length + B.length ≤ (A.filter (fun x => decide (x ∈ B))).length + U.length := by
  have hsplit := List.length_eq_countP_add_countP (fun x => decide (x ∈ B)) (l := A)
  rw [List.countP_eq_length_filter, List.countP_eq_length_filter] at hsplit
  -- the part of A outside B, followed by B, is duplicate-free inside U
  have hnd : (A.filter (fun a => decide ¬(decide (a ∈ B)) = true) ++ B).Nodup := by
    rw [List.nodup_append]
    refine ⟨List.Pairwise.filter _ hA, hB, ?_⟩
    intro a ha b hb hab
    have := (List.mem_filter.1 ha).2
    subst hab
    simp [hb] at this
  have hsub : ∀ x ∈ (A.filter (fun a => decide ¬(decide (a ∈ B)) = true) ++ B), x ∈ U := by
    intro x hx
    rcases List.mem_append.1 hx with h | h
    · exact hAU x (List.mem_filter.1 h).1
    · exact hBU x h
  have hlen := nodup_subset_length _ U hnd hsub
  rw [List.length_append] at hlen
  omega

/-! ### the checks -/

theorem voteSanity_none : ∀ (vs : List Vote),
    voteSanity vs = none ↔ ∀ v ∈ vs, v.accept = true ∧ v.hashOk = true ∧ v.sigOk = true
  | [] => by simp [voteSanity]
  | v :: vs => by
    unfold voteSanity
    have ih := voteSanity_none vs
    cases ha : v.accept <;> cases hh : v.hashOk <;> cases hs : v.sigOk <;>
      simp [ha, hh, hs, ih]

theorem isNormalArb_iff {arbs : List Arb} {k : Nat} :
    isNormalArb arbs k = true ↔ ∃ a ∈ arbs, a.normal = true ∧ a.key = k := by
  unfold isNormalArb
  rw [List.any_eq_true]
  constructor
  · rintro ⟨a, ha, h⟩
    simp at h
    exact ⟨a, ha, h.1, h.2⟩
  · rintro ⟨a, ha, h1, h2⟩
    exact ⟨a, ha, by simp [h1, h2]⟩

/-! ### dispatcher vote collection -/

theorem dispFinal_inv (arbs : List Arb) (P : Nat × Bool → Prop) :
    ∀ (vs : List Vote) (acc : List (Nat × Bool)),
      acc.Nodup → (∀ k ∈ acc, P k) →
      (∀ v ∈ vs, v.sigOk = true → isNormalArb arbs v.signer = true → v.accept = true → P (v.signer, v.hashOk)) →
      (dispFinal arbs acc vs).Nodup ∧ ∀ k ∈ dispFinal arbs acc vs, P k
  | [], acc, hn, hp, _ => ⟨hn, hp⟩
  | v :: vs, acc, hn, hp, hv => by
    simp only [dispFinal]
    apply dispFinal_inv arbs P vs
    · unfold dispStep
      split
      · rename_i hc
        simp only [Bool.and_eq_true, Bool.not_eq_true'] at hc
        apply List.nodup_cons.2
        refine ⟨?_, hn⟩
        intro hmem
        have := hc.2
        simp [hmem] at this
      · exact hn
    · unfold dispStep
      split
      · rename_i hc
        simp only [Bool.and_eq_true, Bool.not_eq_true'] at hc
        intro k hk
        rcases List.mem_cons.1 hk with rfl | hk'
        · exact hv v (List.mem_cons_self ..) hc.1.1.1 hc.1.1.2 hc.1.2
        · exact hp k hk'
      · exact hp
    · intro v' hv'
      exact hv v' (List.mem_cons_of_mem _ hv')

theorem nodup_map_fst : ∀ (l : List (Nat × Bool)), l.Nodup → (∀ k ∈ l, k.2 = true) →
    (l.map (·.1)).Nodup
  | [], _, _ => by simp
  | k :: l, hn, h => by
    obtain ⟨hk, hl⟩ := List.nodup_cons.1 hn
    simp only [List.map_cons]
    apply List.nodup_cons.2
    refine ⟨?_, nodup_map_fst l hl (fun x hx => h x (List.mem_cons_of_mem _ hx))⟩
    intro hm
    obtain ⟨k', hk', he⟩ := List.mem_map.1 hm
    have h1 := h k (List.mem_cons_self ..)
    have h2 := h k' (List.mem_cons_of_mem _ hk')
    have : k' = k := by cases k; cases k'; simp_all
    exact hk (this ▸ hk')

/-! ### pool + chain invariant -/

/-- what is maintained for one block: the pool holds only a sane confirmation that was really
    supplied (`Q`), and the block is connected only if some supplied confirmation is acceptable. -/
def PCInv (arbs : List Arb) (Q : Conf → Prop) (st : PCState) : Prop :=
  (∀ j c, st.cached = some (j, c) → sanity c = none ∧ Q c) ∧
  (st.connected = true → ∃ c, Q c ∧ accepted arbs c = true)

theorem tryConnect_inv {arbs : List Arb} {Q : Conf → Prop} {st : PCState}
    (h : PCInv arbs Q st) : PCInv arbs Q (tryConnect arbs st) := by
  unfold tryConnect
  split
  · cases hc : st.cached with
    | none => simpa [hc] using h
    | some jc =>
      obtain ⟨j, c⟩ := jc
      simp only []
      split
      · rename_i hctx
        obtain ⟨hs, hq⟩ := h.1 j c hc
        refine ⟨?_, fun _ => ⟨c, hq, by simp [accepted, hs, hctx]⟩⟩
        intro j' c' h'
        simp only [Option.some.injEq, Prod.mk.injEq] at h'
        obtain ⟨rfl, rfl⟩ := h'
        exact h.1 _ _ hc
      · exact h
  · exact h

theorem appendConf_inv {arbs : List Arb} {Q : Conf → Prop} {st : PCState} (i : Nat) {c : Conf}
    (h : PCInv arbs Q st) (hq : Q c) : PCInv arbs Q (appendConf arbs st i c) := by
  unfold appendConf
  split
  · rename_i hs
    apply tryConnect_inv
    refine ⟨?_, h.2⟩
    intro j c' h'
    simp only [Option.some.injEq, Prod.mk.injEq] at h'
    obtain ⟨_, rfl⟩ := h'
    exact ⟨hs, hq⟩
  · exact h

theorem chainStep_inv {arbs : List Arb} {Q : Conf → Prop} {st : PCState} (i : Nat) {x : CStep}
    (h : PCInv arbs Q st) (hq : ∀ c, x.conf? = some c → Q c) :
    PCInv arbs Q (chainStep true arbs st i x) := by
  cases x with
  | blk =>
    simp only [chainStep, if_true]
    split
    · exact h
    · exact tryConnect_inv ⟨h.1, h.2⟩
  | blkConf c =>
    simp only [chainStep, if_true]
    exact appendConf_inv i ⟨h.1, h.2⟩ (hq c rfl)
  | conf c =>
    simp only [chainStep, if_true]
    exact appendConf_inv i h (hq c rfl)

theorem chainFinal_inv {arbs : List Arb} {Q : Conf → Prop} :
    ∀ (xs : List CStep) (st : PCState) (i : Nat), PCInv arbs Q st →
      (∀ x ∈ xs, ∀ c, x.conf? = some c → Q c) → PCInv arbs Q (chainFinal true arbs st i xs)
  | [], _, _, h, _ => h
  | x :: xs, _, i, h, hq =>
    chainFinal_inv xs _ (i + 1) (chainStep_inv i h (hq x (List.mem_cons_self ..)))
      (fun y hy => hq y (List.mem_cons_of_mem _ hy))

end ElaVerif.Confirm
