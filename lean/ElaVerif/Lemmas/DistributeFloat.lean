import ElaVerif.Lemmas.Distribute
import ElaVerif.Lemmas.FloatModel
/-!
  Bridge between the `Fixed64` distribution model (parametric in `ibc`, `share`) and the
  standard-model float quantities of `Lemmas/FloatModel.lean`.
-/
namespace ElaVerif.Distribute
open ElaVerif.Fixed64 ElaVerif.FloatModel

/-- the model's `ibc` computed the float way -/
def ibcF (fl : ℚ → ℚ) (R : Fixed64) (N : Nat) : Fixed64 := ofInt (ibcQ fl (toInt R) (N : ℤ))
/-- the model's `share` computed the float way -/
def shareF (fl : ℚ → ℚ) (R T : Fixed64) : Fixed64 → Fixed64 := fun v => ofInt (shareQ fl (toInt R) (toInt T) (toInt v))

/-- the votes an on-duty arbiter's payment depends on (0 = block-confirm part only) -/
def votesOf (era : Nat) (a : Arb) : Int :=
  match a.kind with
  | .normal => toInt a.votes
  | .crcNoKey => if era = 0 ∨ era = 1 ∨ era = 2 then 0 else toInt a.votes
  | _ => 0

/-- every vote count a distribution multiplies by `rewardPerVote` -/
def countedVotes (inp : Input) : List Int :=
  inp.arbs.map (votesOf inp.era) ++ inp.cands.map toInt

theorem toInt_ofInt_small (z : Int) (h0 : 0 ≤ z) (h1 : z < 9223372036854775808) : toInt (ofInt z) = z := by
  rw [Fixed64.toInt_ofInt]; exact bmod_exact z (by omega) h1

theorem fl_zero {fl : ℚ → ℚ} (h : StdModel fl) : fl 0 = 0 := by
  have := h 0
  simp only [sub_zero, abs_zero, mul_zero] at this
  exact abs_nonpos_iff.mp this

theorem shareQ_zero {fl : ℚ → ℚ} (h : StdModel fl) (R T : ℤ) : shareQ fl R T 0 = 0 := by
  unfold shareQ
  simp [fl_zero h]

theorem sumZ_append (xs ys : List Fixed64) : sumZ (xs ++ ys) = sumZ xs + sumZ ys := by
  induction xs with
  | nil => simp [sumZ]
  | cons x xs ih => simp only [List.cons_append, sumZ, ih]; omega

theorem mem_le_sum (l : List Int) (hn : ∀ v ∈ l, 0 ≤ v) (v : Int) (hv : v ∈ l) : v ≤ l.sum := by
  induction l with
  | nil => cases hv
  | cons x xs ih =>
    have hx := hn x (by simp)
    have hxs : 0 ≤ xs.sum := List.sum_nonneg (fun y hy => hn y (by simp [hy]))
    simp only [List.sum_cons]
    rcases List.mem_cons.mp hv with rfl | h
    · omega
    · have := ih (fun y hy => hn y (by simp [hy])) h
      omega

section
variable {fl : ℚ → ℚ} (h : StdModel fl) (inp : Input) (total : Fixed64)
  (hR0 : 0 ≤ toInt inp.reward) (hR1 : toInt inp.reward < 2 ^ 51)
  (hN : 0 < arbitersCount inp) (hT : 0 < toInt total)
  (hv : ∀ v ∈ countedVotes inp, 0 ≤ v) (hsum : (countedVotes inp).sum ≤ toInt total)
include h hR0 hR1 hN hT

private theorem I_bounds :
    0 ≤ ibcQ fl (toInt inp.reward) (arbitersCount inp : ℤ) ∧
    ibcQ fl (toInt inp.reward) (arbitersCount inp : ℤ) ≤ toInt inp.reward := by
  have hN' : (0 : ℤ) < (arbitersCount inp : ℤ) := by exact_mod_cast hN
  refine ⟨ibc_nonneg h hR0 hN', ?_⟩
  have := distribution_sum_le h hR0 hN' hT hR1 1 (by omega) (by omega) [] (by simp) (by simpa using hT.le)
  simpa using this

private theorem S_bounds (v : Int) (hv0 : 0 ≤ v) (hvT : v ≤ toInt total) :
    0 ≤ shareQ fl (toInt inp.reward) (toInt total) v ∧
    shareQ fl (toInt inp.reward) (toInt total) v ≤ toInt inp.reward := by
  have hN' : (0 : ℤ) < (arbitersCount inp : ℤ) := by exact_mod_cast hN
  refine ⟨share_nonneg h hR0 hT v hv0, ?_⟩
  have := distribution_sum_le h hR0 hN' hT hR1 0 (by omega) (by omega) [v] (by simpa using hv0) (by simpa using hvT)
  simpa using this

/-- the payment of one on-duty arbiter, as exact integers -/
private theorem amount_exact (a : Arb) (hv0 : 0 ≤ votesOf inp.era a) (hvT : votesOf inp.era a ≤ toInt total) :
    toInt (amount inp.era (ibcF fl inp.reward (arbitersCount inp)) (shareF fl inp.reward total) a) =
      ibcQ fl (toInt inp.reward) (arbitersCount inp : ℤ) +
      shareQ fl (toInt inp.reward) (toInt total) (votesOf inp.era a) := by
  obtain ⟨i0, i1⟩ := I_bounds h inp total hR0 hR1 hN hT
  obtain ⟨s0, s1⟩ := S_bounds h inp total hR0 hR1 hN hT _ hv0 hvT
  have hI : toInt (ibcF fl inp.reward (arbitersCount inp)) = ibcQ fl (toInt inp.reward) (arbitersCount inp : ℤ) :=
    toInt_ofInt_small _ i0 (by omega)
  have hsum' : ∀ v, shareQ fl (toInt inp.reward) (toInt total) v = shareQ fl (toInt inp.reward) (toInt total) (votesOf inp.era a) →
      toInt (ibcF fl inp.reward (arbitersCount inp) + ofInt (shareQ fl (toInt inp.reward) (toInt total) v)) =
        ibcQ fl (toInt inp.reward) (arbitersCount inp : ℤ) + shareQ fl (toInt inp.reward) (toInt total) (votesOf inp.era a) := by
    intro v hv
    unfold ibcF ofInt
    rw [← BitVec.ofInt_add, hv]
    exact toInt_ofInt_small _ (by omega) (by omega)
  have hz := shareQ_zero h (toInt inp.reward) (toInt total)
  unfold amount payArb votesOf at *
  cases hk : a.kind <;> simp only [hk] at * <;> (try simp only [shareF])
  · exact hsum' _ rfl
  · rw [hz]; simpa using hI
  · rw [hz]; simpa using hI
  · by_cases e0 : inp.era = 0
    · simp only [e0, true_or, if_true] at *; rw [hz]; simpa using hI
    · by_cases e1 : inp.era = 1
      · simp only [e1, true_or, or_true, if_true, e0, if_false] at *; rw [hz]; simpa using hI
      · by_cases e2 : inp.era = 2
        · simp only [e2, or_true, if_true, e0, e1, if_false] at *; rw [hz]; simpa using hI
        · simp only [e0, e1, e2, or_self, if_false] at *
          exact hsum' _ rfl

private theorem cand_exact (v : Fixed64) (hv0 : 0 ≤ toInt v) (hvT : toInt v ≤ toInt total) :
    toInt (shareF fl inp.reward total v) = shareQ fl (toInt inp.reward) (toInt total) (toInt v) := by
  obtain ⟨s0, s1⟩ := S_bounds h inp total hR0 hR1 hN hT _ hv0 hvT
  exact toInt_ofInt_small _ s0 (by omega)

private theorem arbs_sum (as : List Arb)
    (hb : ∀ a ∈ as, 0 ≤ votesOf inp.era a ∧ votesOf inp.era a ≤ toInt total) :
    sumZ (as.map (amount inp.era (ibcF fl inp.reward (arbitersCount inp)) (shareF fl inp.reward total))) =
      (as.length : ℤ) * ibcQ fl (toInt inp.reward) (arbitersCount inp : ℤ) +
      ((as.map (votesOf inp.era)).map (shareQ fl (toInt inp.reward) (toInt total))).sum := by
  induction as with
  | nil => simp [sumZ]
  | cons a as ih =>
    have ha := hb a (by simp)
    have := amount_exact h inp total hR0 hR1 hN hT a ha.1 ha.2
    have ih' := ih (fun b hb' => hb b (by simp [hb']))
    simp only [List.map_cons, sumZ, List.sum_cons, List.length_cons]
    rw [this, ih']
    push_cast
    ring

private theorem cands_sum (vs : List Fixed64)
    (hb : ∀ v ∈ vs, 0 ≤ toInt v ∧ toInt v ≤ toInt total) :
    sumZ (vs.map (shareF fl inp.reward total)) =
      ((vs.map toInt).map (shareQ fl (toInt inp.reward) (toInt total))).sum := by
  induction vs with
  | nil => simp [sumZ]
  | cons v vs ih =>
    have hv' := hb v (by simp)
    have := cand_exact h inp total hR0 hR1 hN hT v hv'.1 hv'.2
    have ih' := ih (fun b hb' => hb b (by simp [hb']))
    simp only [List.map_cons, sumZ, List.sum_cons]
    rw [this, ih']

include hv hsum in
/-- **With the float quantities of the standard model, the payments of a distribution are
    non-negative and add up to at most the reward.** -/
theorem payments_bounded (hn : inp.arbs.length ≤ arbitersCount inp) :
    (∀ p ∈ payments inp.era (ibcF fl inp.reward (arbitersCount inp)) (shareF fl inp.reward total) inp, 0 ≤ toInt p) ∧
    sumZ (payments inp.era (ibcF fl inp.reward (arbitersCount inp)) (shareF fl inp.reward total) inp) ≤ toInt inp.reward := by
  have hN' : (0 : ℤ) < (arbitersCount inp : ℤ) := by exact_mod_cast hN
  have hle : ∀ v ∈ countedVotes inp, v ≤ toInt total := fun v hm =>
    le_trans (mem_le_sum _ hv v hm) hsum
  have hA : ∀ a ∈ inp.arbs, 0 ≤ votesOf inp.era a ∧ votesOf inp.era a ≤ toInt total := by
    intro a ha
    have hm : votesOf inp.era a ∈ countedVotes inp := by
      unfold countedVotes; simp only [List.mem_append, List.mem_map]; exact Or.inl ⟨a, ha, rfl⟩
    exact ⟨hv _ hm, hle _ hm⟩
  have hC : ∀ v ∈ inp.cands, 0 ≤ toInt v ∧ toInt v ≤ toInt total := by
    intro v hvm
    have hm : toInt v ∈ countedVotes inp := by
      unfold countedVotes; simp only [List.mem_append, List.mem_map]; exact Or.inr ⟨v, hvm, rfl⟩
    exact ⟨hv _ hm, hle _ hm⟩
  obtain ⟨i0, _⟩ := I_bounds h inp total hR0 hR1 hN hT
  constructor
  · intro p hp
    unfold payments at hp
    rcases List.mem_append.mp hp with hp | hp
    · obtain ⟨a, ha, rfl⟩ := List.mem_map.mp hp
      have hb := hA a ha
      rw [amount_exact h inp total hR0 hR1 hN hT a hb.1 hb.2]
      have := (S_bounds h inp total hR0 hR1 hN hT _ hb.1 hb.2).1
      omega
    · obtain ⟨v, hvm, rfl⟩ := List.mem_map.mp hp
      have hb := hC v hvm
      rw [cand_exact h inp total hR0 hR1 hN hT v hb.1 hb.2]
      exact (S_bounds h inp total hR0 hR1 hN hT _ hb.1 hb.2).1
  · unfold payments
    rw [sumZ_append, arbs_sum h inp total hR0 hR1 hN hT inp.arbs hA, cands_sum h inp total hR0 hR1 hN hT inp.cands hC]
    have key := distribution_sum_le h hR0 hN' hT hR1 (inp.arbs.length : ℤ) (by omega) (by exact_mod_cast hn)
      (countedVotes inp) hv hsum
    unfold countedVotes at key
    rw [List.map_append, List.sum_append] at key
    omega

end

end ElaVerif.Distribute
