import ElaVerif.Model.WalletCodec
import ElaVerif.Lemmas.Digits
/-! Lemmas about the address codec (`Model/WalletCodec.lean`, property C37). Core Lean only. -/
namespace ElaVerif.WalletCodec
open ElaVerif.Digits ElaVerif.Script

theorem b58_roundtrip_char : ∀ d, d < 58 → b58Digit? (b58Char d) = some d := by decide

theorem b58Digits_map : ∀ (ds : List Nat), (∀ d ∈ ds, d < 58) → b58Digits? (ds.map b58Char) = some ds
  | [], _ => rfl
  | d :: ds, h => by
    simp only [List.map_cons, b58Digits?]
    rw [b58_roundtrip_char d (h d (by simp)), b58Digits_map ds (fun x hx => h x (by simp [hx]))]

theorem ofDigits_cons (b h : Nat) (t : List Nat) : ofDigits b (h :: t) = h * b ^ t.length + ofDigits b t := by
  have := ofDigits_append b [h] t
  simpa [ofDigits, ofDigitsLE] using this

theorem ofDigits_lt (b : Nat) (hb : 0 < b) (t : List Nat) (h : ∀ d ∈ t, d < b) : ofDigits b t < b ^ t.length := by
  have := ofDigitsLE_upper b hb t.reverse (by simpa using h)
  simpa [ofDigits] using this

theorem map_toNat_ofNat (bs : Bytes) : (bs.map (·.toNat)).map UInt8.ofNat = bs := by
  induction bs with
  | nil => rfl
  | cons x xs ih => simp [ih]

/-- **Address round trip** (repaired decoder): for a 21-byte program hash whose prefix byte is in
    3..143 — every issued prefix is — and any 4-byte checksum function. -/
theorem address_roundtrip (chk : Bytes → Bytes) (p : UInt8) (rest : Bytes)
    (hlen : rest.length = 20) (hc : (chk (p :: rest)).length = 4) (hp : 3 ≤ p.toNat ∧ p.toNat ≤ 143) :
    fromAddress true chk (toAddress chk (p :: rest)) = .val (.ok (p :: rest)) := by
  -- the 25 bytes and their value
  generalize hbs : (p :: rest) ++ chk (p :: rest) = bs
  have hbl : bs.length = 25 := by rw [← hbs]; simp [hlen, hc]
  have hN : bytesToNat bs = p.toNat * 256 ^ 24 + ofDigits 256 ((rest ++ chk (p :: rest)).map (·.toNat)) := by
    rw [← hbs]
    simp only [bytesToNat, List.cons_append, List.map_cons]
    rw [ofDigits_cons]
    simp [hlen, hc]
  have hlow : ofDigits 256 ((rest ++ chk (p :: rest)).map (·.toNat)) < 256 ^ 24 := by
    have := ofDigits_lt 256 (by omega) ((rest ++ chk (p :: rest)).map (·.toNat)) (by
      intro d hd
      simp only [List.mem_map] at hd
      obtain ⟨x, _, rfl⟩ := hd
      exact x.toNat_lt)
    simpa [hlen, hc] using this
  have h1 : (58 : Nat) ^ 33 ≤ 3 * 256 ^ 24 := by decide
  have h2 : 144 * (256 : Nat) ^ 24 ≤ 58 ^ 34 := by decide
  have hNlo : 58 ^ 33 ≤ bytesToNat bs := by
    rw [hN]
    have : 3 * 256 ^ 24 ≤ p.toNat * 256 ^ 24 := Nat.mul_le_mul_right _ hp.1
    omega
  have hNhi : bytesToNat bs < 58 ^ 34 := by
    rw [hN]
    have : (p.toNat + 1) * 256 ^ 24 ≤ 144 * 256 ^ 24 := Nat.mul_le_mul_right _ (by omega)
    rw [Nat.add_mul] at this
    omega
  have hN0 : bytesToNat bs ≠ 0 := by
    have : 0 < (58 : Nat) ^ 33 := by decide
    omega
  -- the address string
  have hAddr : toAddress chk (p :: rest) = (digits 58 (bytesToNat bs)).map b58Char := by
    unfold toAddress b58Encode
    rw [hbs, if_neg hN0]
  have hAlen : (digits 58 (bytesToNat bs)).length = 34 :=
    digits_length 58 (by omega) _ 34 (by omega) hNlo hNhi
  -- bytes of the decoded number
  have hbytes : natToBytes (bytesToNat bs) = bs := by
    unfold natToBytes bytesToNat
    rw [digits_ofDigits 256 (by omega) _ (by
        intro d hd
        simp only [List.mem_map] at hd
        obtain ⟨x, _, rfl⟩ := hd
        exact x.toNat_lt) (by
        rw [← hbs]
        simp only [List.cons_append, List.map_cons, List.head?_cons]
        intro h; injection h with h; omega)]
    exact map_toNat_ofNat bs
  unfold fromAddress
  rw [hAddr]
  rw [if_neg (by simp [hAlen])]
  rw [b58Digits_map _ (digits_lt 58 (by omega) _)]
  simp only []
  rw [ofDigits_digits 58 (by omega), hbytes]
  rw [if_neg (by rw [hbl]; omega), if_neg (by rw [hbl]; omega)]
  have htake : bs.take 21 = p :: rest := by
    rw [← hbs]
    rw [show (p :: rest ++ chk (p :: rest)) = (p :: rest) ++ chk (p :: rest) by rfl]
    exact List.take_left' (by simp [hlen])
  rw [htake, hAddr]
  simp

/-- the repaired decoder never panics -/
theorem fromAddress_total (chk : Bytes → Bytes) (s : List Char) : fromAddress true chk s ≠ .panic := by
  unfold fromAddress
  split
  · intro h; cases h
  · split
    · intro h; cases h
    · simp only []
      split
      · intro h; cases h
      · rename_i hg
        rename_i ds _
        have : ¬ (natToBytes (ofDigits 58 ds)).length < 21 := by
          intro hc; apply hg; exact ⟨trivial, hc⟩
        rw [if_neg this]
        split <;> intro h <;> cases h


end ElaVerif.WalletCodec

namespace ElaVerif.WalletCodec
open ElaVerif.Digits ElaVerif.Script

/-- the decoder accepts only the canonical encoding of what it returns: a string is accepted iff it is
    exactly `toAddress` of the 21 bytes it yields — in particular its last four bytes are the checksum of
    the first 21 (this is the checksum property in model terms: nothing else is ever accepted). -/
theorem fromAddress_sound (fixed : Bool) (chk : Bytes → Bytes) (s : List Char) (u : Bytes)
    (h : fromAddress fixed chk s = .val (.ok u)) : toAddress chk u = s ∧ u.length = 21 ∧ s.length = 34 := by
  unfold fromAddress at h
  split at h
  · cases h
  · rename_i hl
    split at h
    · cases h
    · rename_i ds hds
      simp only [] at h
      split at h
      · cases h
      · split at h
        · cases h
        · rename_i hlen
          split at h
          · cases h
          · rename_i heq
            injection h with h
            injection h with h
            subst h
            refine ⟨by simpa using heq, ?_, by omega⟩
            simp only [List.length_take]
            omega

end ElaVerif.WalletCodec
