import ElaVerif.Lemmas.ProposalInv
/-!
C29 helper lemmas: "the committee's used-amount counter never understates the budgets still owed".
`owed p` = what the committee still owes (or has made withdrawable) for proposal `p`; the invariant is
`base + Σ owed ≤ used`.  It needs at most one tracking per proposal per block (`isTrack`), because the amount a
tracking releases is computed on the pre-block proposal.
-/
namespace ElaVerif.Proposal
open ElaVerif.Deposit (AMap get upd mapKV get_upd get_cons get_mapKV)

def wSum (bs : List BEntry) : Int := bs.foldr (fun b acc => (if b.w then b.amount else 0) + acc) 0

/-- budgets the committee has committed to proposal `p` and not released. -/
def owed (p : Prop') : Int :=
  match p.status with
  | .registered | .crAgreed | .voterAgreed => total p.budgets
  | .terminated | .finished => wSum p.budgets
  | _ => 0

def sumOwed (l : AMap Prop') : Int := l.foldr (fun kv acc => owed kv.2 + acc) 0

/-- what the sums depend on: type, amount and withdrawable flag of every budget (not the withdrawn flag). -/
def core (bs : List BEntry) : List (BType × Int × Bool) := bs.map (fun b => (b.typ, b.amount, b.w))

def sumIf (q : BType × Int × Bool → Bool) (c : List (BType × Int × Bool)) : Int :=
  c.foldr (fun k acc => (if q k then k.2.1 else 0) + acc) 0

def totalC := sumIf (fun _ => true)
def wSumC := sumIf (fun k => k.2.2)
def notWC := sumIf (fun k => !k.2.2)
def notWNonFinalC := sumIf (fun k => (k.1 != BType.final) && !k.2.2)
def notWFinalC := sumIf (fun k => (k.1 == BType.final) && !k.2.2)

theorem sumIf_cons (q : BType × Int × Bool → Bool) (k) (t) :
    sumIf q (k :: t) = (if q k then k.2.1 else 0) + sumIf q t := rfl

theorem sumIf_split (q q1 q2 : BType × Int × Bool → Bool) (hor : ∀ k, q k = (q1 k || q2 k))
    (hdis : ∀ k, ¬ (q1 k = true ∧ q2 k = true)) : ∀ c, sumIf q c = sumIf q1 c + sumIf q2 c := by
  intro c
  induction c with
  | nil => rfl
  | cons k t ih =>
    rw [sumIf_cons, sumIf_cons, sumIf_cons, ih, hor k]
    have := hdis k
    cases h1 : q1 k <;> cases h2 : q2 k <;> simp_all <;> omega

theorem sumIf_nonneg (q : BType × Int × Bool → Bool) : ∀ c, (∀ k ∈ c, 0 ≤ k.2.1) → 0 ≤ sumIf q c := by
  intro c
  induction c with
  | nil => intro _; simp [sumIf]
  | cons k t ih =>
    intro h
    have := ih (fun k' hk' => h k' (by simp [hk']))
    have hk := h k (by simp)
    rw [sumIf_cons]; split <;> omega

theorem filter_sum_core (q : BEntry → Bool) (q' : BType × Int × Bool → Bool)
    (hq : ∀ b, q b = q' (b.typ, b.amount, b.w)) : ∀ bs,
    (bs.filter q).foldr (fun b acc => b.amount + acc) 0 = sumIf q' (core bs) := by
  intro bs
  induction bs with
  | nil => rfl
  | cons x t ih =>
    have e : core (x :: t) = (x.typ, x.amount, x.w) :: core t := rfl
    rw [e, sumIf_cons, ← hq x, ← ih]
    cases hx : q x <;> simp [List.filter, hx]

theorem total_core (bs : List BEntry) : total bs = totalC (core bs) := by
  induction bs with
  | nil => rfl
  | cons x t ih =>
    have e : core (x :: t) = (x.typ, x.amount, x.w) :: core t := rfl
    have e1 : total (x :: t) = x.amount + total t := by simp [total]
    rw [e1, totalC, e, sumIf_cons, ih]; rfl

theorem wSum_core (bs : List BEntry) : wSum bs = wSumC (core bs) := by
  induction bs with
  | nil => rfl
  | cons x t ih =>
    have e : core (x :: t) = (x.typ, x.amount, x.w) :: core t := rfl
    have e1 : wSum (x :: t) = (if x.w then x.amount else 0) + wSum t := by simp [wSum]
    rw [e1, wSumC, e, sumIf_cons, ih]; rfl

theorem unusedT_core (bs : List BEntry) :
    (bs.filter (fun b => ¬ b.w)).foldr (fun b acc => b.amount + acc) 0 = notWC (core bs) :=
  filter_sum_core _ _ (fun b => by cases b.w <;> simp) bs

theorem unusedF_core (bs : List BEntry) :
    (bs.filter (fun b => b.typ ≠ .final ∧ ¬ b.w)).foldr (fun b acc => b.amount + acc) 0 = notWNonFinalC (core bs) :=
  filter_sum_core _ _ (fun b => by cases b.w <;> by_cases hf : b.typ = .final <;> simp [hf]) bs

theorem totalC_split (c : List (BType × Int × Bool)) : totalC c = wSumC c + notWC c :=
  sumIf_split _ _ _ (fun k => by cases k.2.2 <;> simp) (fun k => by cases k.2.2 <;> simp) c

theorem notWC_split (c : List (BType × Int × Bool)) : notWC c = notWNonFinalC c + notWFinalC c :=
  sumIf_split _ _ _ (fun k => by cases k.2.2 <;> by_cases hf : k.1 = .final <;> simp [hf])
    (fun k => by cases k.2.2 <;> by_cases hf : k.1 = .final <;> simp [hf]) c

theorem core_markWn (S : List Nat) (l : List BEntry) : core (markWn S l) = core l := by
  induction l with
  | nil => rfl
  | cons x t ih =>
    simp only [markWn, core, List.map_cons] at ih ⊢
    rw [ih]; split <;> rfl

theorem total_setW (st : Nat) (l : List BEntry) : total (setW st l) = total l := grow_total (grow_setW st l)
theorem total_setWFirst (ty : BType) (l : List BEntry) : total (setWFirst ty l) = total l := grow_total (grow_setWFirst ty l)

/-- making the first final budget withdrawable adds at most the not-yet-withdrawable final budgets -/
theorem wSum_setWFirst_final : ∀ (l : List BEntry), (∀ b ∈ l, 0 ≤ b.amount) →
    wSum (setWFirst .final l) ≤ wSumC (core l) + notWFinalC (core l) := by
  intro l
  induction l with
  | nil => intro _; simp [setWFirst, wSum, wSumC, notWFinalC, core, sumIf]
  | cons x t ih =>
    intro hpos
    have hx := hpos x (by simp)
    have ht := ih (fun b hb => hpos b (by simp [hb]))
    have htn : 0 ≤ notWFinalC (core t) := sumIf_nonneg _ _ (by
      intro k hk; simp only [core, List.mem_map] at hk; obtain ⟨b, hb, rfl⟩ := hk; exact hpos b (by simp [hb]))
    have e : core (x :: t) = (x.typ, x.amount, x.w) :: core t := rfl
    have e2 : wSumC (core (x :: t)) = (if x.w then x.amount else 0) + wSumC (core t) := by rw [e]; rfl
    have e3 : notWFinalC (core (x :: t)) = (if ((x.typ == BType.final) && !x.w) then x.amount else 0) + notWFinalC (core t) := by
      rw [e]; rfl
    simp only [setWFirst]
    by_cases hf : x.typ = .final
    · rw [if_pos hf]
      have e1 : wSum ({ x with w := true } :: t) = x.amount + wSum t := by simp [wSum]
      rw [e1, e2, e3, wSum_core t]
      cases hw : x.w <;> simp [hf] <;> omega
    · rw [if_neg hf]
      have e1 : wSum (x :: setWFirst .final t) = (if x.w then x.amount else 0) + wSum (setWFirst .final t) := by simp [wSum]
      rw [e1, e2, e3]
      cases hw : x.w <;> simp [hf] <;> omega

/-! ### sums over the proposal map -/

theorem upd_of_not_mem {α : Type} (k : Nat) (f : α → α) : ∀ (l : AMap α), k ∉ keys l → upd k f l = l := by
  intro l
  induction l with
  | nil => intro _; rfl
  | cons p t ih =>
    obtain ⟨k', v⟩ := p
    intro h
    simp only [keys, List.map_cons, List.mem_cons, not_or] at h
    have hne : ¬ k' = k := fun e => h.1 e.symm
    simp only [upd, hne, if_false]
    rw [ih (by simpa [keys] using h.2)]

theorem sumOwed_upd (id : Nat) (f : Prop' → Prop') : ∀ (l : AMap Prop'), (keys l).Nodup → ∀ p, get id l = some p →
    sumOwed (upd id f l) = sumOwed l - owed p + owed (f p) := by
  intro l
  induction l with
  | nil => intro _ p h; simp [Deposit.get] at h
  | cons x t ih =>
    obtain ⟨k', v⟩ := x
    intro hnd p hg
    simp only [keys, List.map_cons, List.nodup_cons] at hnd
    by_cases hk : k' = id
    · subst hk
      have : v = p := by simpa [Deposit.get] using hg
      subst this
      simp only [upd, if_true]
      rw [upd_of_not_mem k' f t (by simpa [keys] using hnd.1)]
      simp [sumOwed]; omega
    · have hg' : get id t = some p := by simpa [Deposit.get, hk] using hg
      simp only [upd, hk, if_false]
      have := ih (by simpa [keys] using hnd.2) p hg'
      simp only [sumOwed, List.foldr_cons] at this ⊢; omega

/-- `updateProp` moves exactly what it releases out of `owed` -/
theorem owed_updateProp (P : Params) (h : Nat) (p : Prop') :
    owed (updateProp P h p).1 + (updateProp P h p).2 = owed p := by
  unfold updateProp
  split
  · rename_i hs
    split
    · split
      · simp [owed, hs]
      · simp [owed, hs]
    · simp
  · rename_i hs
    split
    · split
      · simp [owed, hs]
      · simp [owed, hs, total_setWFirst]
    · simp
  · simp

theorem sumOwed_endBlock (P : Params) (h : Nat) : ∀ (l : AMap Prop'),
    sumOwed (mapKV (fun _ p => (updateProp P h p).1) l) + l.foldr (fun kv acc => (updateProp P h kv.2).2 + acc) 0 = sumOwed l := by
  intro l
  induction l with
  | nil => rfl
  | cons x t ih =>
    obtain ⟨k, p⟩ := x
    have := owed_updateProp P h p
    simp only [mapKV, sumOwed, List.foldr_cons] at ih ⊢; omega

/-! ### one transaction -/

theorem owed_of_core (p p' : Prop') (hs : p'.status = p.status) (hc : core p'.budgets = core p.budgets) : owed p' = owed p := by
  unfold owed
  rw [hs, total_core, total_core, wSum_core, wSum_core, hc]

theorem amounts_of_core {l l0 : List BEntry} (hc : core l = core l0) (hp : ∀ b ∈ l0, 0 ≤ b.amount) : ∀ b ∈ l, 0 ≤ b.amount := by
  intro b hb
  have : (b.typ, b.amount, b.w) ∈ core l := List.mem_map.mpr ⟨b, hb, rfl⟩
  rw [hc] at this
  obtain ⟨b0, hb0, he⟩ := List.mem_map.mp this
  have : b0.amount = b.amount := by
    have := congrArg (fun k => k.2.1) he; simpa using this
  rw [← this]; exact hp b0 hb0

/-- the transaction's target proposal (none for a new proposal) -/
def target : Tx → Option Nat
  | .propose _ _ => none
  | .review id _ _ | .rejvotes id _ | .withdraw id _ | .withdraw0 id _ _ _ | .track id _ _ => some id

def isTrackTx : Tx → Bool
  | .track _ _ _ => true
  | _ => false

/-- a transaction that is not a tracking leaves status and core of its proposal alone -/
theorem core_step_nontrack (h : Nat) (p0 p : Prop') (tx : Tx) (hn : isTrackTx tx = false) :
    (propStep h p0 tx p).status = p.status ∧ core (propStep h p0 tx p).budgets = core p.budgets := by
  cases tx with
  | propose id bs => exact ⟨rfl, rfl⟩
  | review id m a => exact ⟨rfl, rfl⟩
  | rejvotes id a => exact ⟨rfl, rfl⟩
  | withdraw id a => exact ⟨rfl, core_markWn _ _⟩
  | withdraw0 id i o0 o1 => exact ⟨rfl, core_markWn _ _⟩
  | track id k st => simp [isTrackTx] at hn

def dU (p0 : Prop') : Tx → Int
  | .track _ k _ => - unusedOf p0 k
  | _ => 0

/-- the used amount moves at least as much as what is owed for the proposal -/
theorem step_owed (h : Nat) (p0 p : Prop') (tx : Tx) (hpos : ∀ b ∈ p0.budgets, 0 ≤ b.amount)
    (hcore : isTrackTx tx = true → p.status = p0.status ∧ core p.budgets = core p0.budgets ∧ p0.status = .voterAgreed) :
    owed (propStep h p0 tx p) - owed p ≤ dU p0 tx := by
  cases htx : isTrackTx tx with
  | false =>
    obtain ⟨h1, h2⟩ := core_step_nontrack h p0 p tx htx
    rw [owed_of_core p _ h1 h2]
    cases tx <;> simp [dU, isTrackTx] at htx ⊢
  | true =>
    obtain ⟨hst, hc, hva⟩ := hcore htx
    have hpv : p.status = .voterAgreed := hst.trans hva
    have hop : owed p = totalC (core p0.budgets) := by
      unfold owed; rw [hpv]; simp only; rw [total_core, hc]
    cases tx with
    | track id k st =>
      cases k with
      | progress =>
        have : owed (propStep h p0 (.track id .progress st) p) = owed p := by
          simp only [propStep, owed, hpv]; exact total_setW st p.budgets
        rw [this]; simp [dU, unusedOf]
      | terminated =>
        have hne : ¬ (p0.status = .terminated ∨ p0.status = .finished) := by rw [hva]; simp
        have e1 : owed (propStep h p0 (.track id .terminated st) p) = wSumC (core p0.budgets) := by
          simp only [propStep, if_neg hne, owed]; rw [wSum_core, hc]
        have e2 : dU p0 (.track id .terminated st) = - notWC (core p0.budgets) := by
          simp only [dU, unusedOf, if_neg hne]; rw [unusedT_core]
        rw [e1, e2, hop, totalC_split]; omega
      | finalized =>
        have hposp := amounts_of_core hc hpos
        have e1 : owed (propStep h p0 (.track id .finalized st) p) = wSum (setWFirst .final p.budgets) := by
          simp only [propStep, owed]
        have e2 : dU p0 (.track id .finalized st) = - notWNonFinalC (core p0.budgets) := by
          simp only [dU, unusedOf]; rw [unusedF_core]
        have hle := wSum_setWFirst_final p.budgets hposp
        rw [hc] at hle
        rw [e1, e2, hop, totalC_split, notWC_split]; omega
      | common => simp [propStep, dU, unusedOf]
      | rejected => simp [propStep, dU, unusedOf]
    | _ => simp [isTrackTx] at htx

/-! ### a block -/

theorem applyTx_target_none (h : Nat) (s0 s : State) (tx : Tx) (id : Nat) (ht : target tx = some id)
    (h0 : get id s0.props = none) : applyTx h s0 s tx = s := by
  cases tx with
  | propose id' bs => simp [target] at ht
  | review id' m a => simp only [target, Option.some.injEq] at ht; subst ht; simp [applyTx, h0]
  | rejvotes id' a => simp only [target, Option.some.injEq] at ht; subst ht; simp [applyTx, h0]
  | withdraw id' a => simp only [target, Option.some.injEq] at ht; subst ht; simp [applyTx, h0]
  | withdraw0 id' i o0 o1 => simp only [target, Option.some.injEq] at ht; subst ht; simp [applyTx, h0]
  | track id' k st => simp only [target, Option.some.injEq] at ht; subst ht; simp [applyTx, h0]

theorem applyTx_target_some (h : Nat) (s0 s : State) (tx : Tx) (id : Nat) (ht : target tx = some id)
    (p0 : Prop') (h0 : get id s0.props = some p0) :
    (applyTx h s0 s tx).props = upd id (propStep h p0 tx) s.props ∧ (applyTx h s0 s tx).used = s.used + dU p0 tx := by
  cases tx with
  | propose id' bs => simp [target] at ht
  | review id' m a => simp only [target, Option.some.injEq] at ht; subst ht; simp [applyTx, h0, dU]
  | rejvotes id' a => simp only [target, Option.some.injEq] at ht; subst ht; simp [applyTx, h0, dU]
  | withdraw id' a => simp only [target, Option.some.injEq] at ht; subst ht; simp [applyTx, h0, dU]
  | withdraw0 id' i o0 o1 => simp only [target, Option.some.injEq] at ht; subst ht; simp [applyTx, h0, dU]
  | track id' k st => simp only [target, Option.some.injEq] at ht; subst ht; simp [applyTx, h0, dU]; omega

theorem isTrack_of (id : Nat) (tx : Tx) : isTrack id tx = true ↔ (isTrackTx tx = true ∧ target tx = some id) := by
  cases tx <;> simp [isTrack, isTrackTx, target]

/-- what the context checks say about a tracking, relative to the pre-block proposal -/
def chkT (s0 : State) : Tx → Prop
  | .track id _ _ => ∀ p0, get id s0.props = some p0 → p0.status = .voterAgreed
  | .propose _ bs => 0 ≤ total bs
  | _ => True

theorem fold_owed (h : Nat) (s0 : State) (B : Int)
    (hs0 : ∀ id p0, get id s0.props = some p0 → ∀ b ∈ p0.budgets, 0 ≤ b.amount) :
    ∀ (txs : List Tx) (s : State),
      (∀ tx ∈ txs, chkT s0 tx) → (∀ id, (txs.filter (isTrack id)).length ≤ 1) →
      (keys s.props).Nodup → B + sumOwed s.props ≤ s.used →
      (∀ id p0, get id s0.props = some p0 → ∃ p, get id s.props = some p) →
      (∀ id, (txs.filter (isTrack id)).length = 1 → ∀ p0, get id s0.props = some p0 →
          ∃ p, get id s.props = some p ∧ p.status = p0.status ∧ core p.budgets = core p0.budgets) →
      (keys (txs.foldl (applyTx h s0) s).props).Nodup ∧
        B + sumOwed (txs.foldl (applyTx h s0) s).props ≤ (txs.foldl (applyTx h s0) s).used := by
  intro txs
  induction txs with
  | nil => intro s _ _ hnd hinv _ _; exact ⟨hnd, hinv⟩
  | cons tx rest ih =>
    intro s hchk hg hnd hinv hsub htrk
    simp only [List.foldl_cons]
    have hchk' : ∀ t ∈ rest, chkT s0 t := fun t ht => hchk t (by simp [ht])
    have hc := hchk tx (by simp)
    -- guard for the tail and the relation between the counts
    have hcount : ∀ id, (rest.filter (isTrack id)).length ≤ ((tx :: rest).filter (isTrack id)).length ∧
        (isTrack id tx = true → ((tx :: rest).filter (isTrack id)).length = (rest.filter (isTrack id)).length + 1) ∧
        (isTrack id tx = false → ((tx :: rest).filter (isTrack id)).length = (rest.filter (isTrack id)).length) := by
      intro id
      cases hb : isTrack id tx
      · rw [List.filter_cons_of_neg (by simp [hb])]; simp
      · rw [List.filter_cons_of_pos hb]; simp
    have hg' : ∀ id, (rest.filter (isTrack id)).length ≤ 1 := fun id => Nat.le_trans (hcount id).1 (hg id)
    have hnd' := keys_applyTx h s0 s tx hnd
    -- the three facts about the state after `tx`
    have key : B + sumOwed (applyTx h s0 s tx).props ≤ (applyTx h s0 s tx).used ∧
        (∀ id p0, get id s0.props = some p0 → ∃ p, get id (applyTx h s0 s tx).props = some p) ∧
        (∀ id, (rest.filter (isTrack id)).length = 1 → ∀ p0, get id s0.props = some p0 →
          ∃ p, get id (applyTx h s0 s tx).props = some p ∧ p.status = p0.status ∧ core p.budgets = core p0.budgets) := by
      cases htg : target tx with
      | none =>
        -- a new proposal
        cases tx with
        | propose id bs =>
          have htot : 0 ≤ total bs := hc
          have hnt : ∀ id', isTrack id' (.propose id bs) = false := fun id' => rfl
          refine ⟨?_, ?_, ?_⟩
          · simp only [applyTx]
            cases hgs : get id s.props with
            | some _ => simp only; omega
            | none =>
              have : sumOwed ((id, ({ budgets := bs, status := .registered, paid := 0, votes := [], regH := h, voteH := 0, reject := 0 } : Prop')) :: s.props)
                  = total bs + sumOwed s.props := by simp [sumOwed, owed]
              simp only; rw [this]; omega
          · intro id' p0 h0
            obtain ⟨p, hp⟩ := hsub id' p0 h0
            rw [get_applyTx_props]
            simp only [projP]
            split
            · rename_i he; subst he; rw [hp]; exact ⟨p, rfl⟩
            · exact ⟨p, hp⟩
          · intro id' hone p0 h0
            have := (hcount id').2.2 (hnt id')
            obtain ⟨p, hp, hst, hcr⟩ := htrk id' (by omega) p0 h0
            refine ⟨p, ?_, hst, hcr⟩
            rw [get_applyTx_props]
            simp only [projP]
            split
            · rename_i he; subst he; rw [hp]
            · exact hp
        | _ => simp [target] at htg
      | some id =>
        cases h0 : get id s0.props with
        | none =>
          rw [applyTx_target_none h s0 s tx id htg h0]
          refine ⟨hinv, hsub, ?_⟩
          intro id' hone p0 h0'
          have hne : isTrack id' tx = false := by
            cases hb : isTrack id' tx with
            | false => rfl
            | true =>
              have := ((isTrack_of id' tx).mp hb).2
              rw [htg] at this; cases this; rw [h0] at h0'; cases h0'
          exact htrk id' (by have := (hcount id').2.2 hne; omega) p0 h0'
        | some p0 =>
          obtain ⟨p, hp⟩ := hsub id p0 h0
          obtain ⟨hprops, hused⟩ := applyTx_target_some h s0 s tx id htg p0 h0
          have hstep : owed (propStep h p0 tx p) - owed p ≤ dU p0 tx := by
            apply step_owed h p0 p tx (hs0 id p0 h0)
            intro hit
            have hb : isTrack id tx = true := (isTrack_of id tx).mpr ⟨hit, htg⟩
            have hone : ((tx :: rest).filter (isTrack id)).length = 1 := by
              have := (hcount id).2.1 hb; have := hg id; omega
            obtain ⟨p', hp', hst, hcr⟩ := htrk id hone p0 h0
            rw [hp] at hp'; cases hp'
            refine ⟨hst, hcr, ?_⟩
            cases tx with
            | track id' k st =>
              have : id' = id := by simpa [target] using htg
              subst this
              exact hc p0 h0
            | _ => simp [isTrackTx] at hit
          refine ⟨?_, ?_, ?_⟩
          · rw [hprops, hused, sumOwed_upd id _ s.props hnd p hp]; omega
          · intro id' p0' h0'
            obtain ⟨q, hq⟩ := hsub id' p0' h0'
            rw [hprops, get_upd]
            split
            · rename_i he; subst he; rw [hq]; exact ⟨_, rfl⟩
            · exact ⟨q, hq⟩
          · intro id' hone p0' h0'
            have hne : isTrack id' tx = false := by
              cases hb : isTrack id' tx with
              | false => rfl
              | true => have := (hcount id').2.1 hb; have := hg id'; omega
            obtain ⟨q, hq, hst, hcr⟩ := htrk id' (by have := (hcount id').2.2 hne; omega) p0' h0'
            rw [hprops, get_upd]
            split
            · rename_i he; subst he
              rw [hq]
              have hnt : isTrackTx tx = false := by
                cases hb : isTrackTx tx with
                | false => rfl
                | true => have := (isTrack_of id tx).mpr ⟨hb, htg⟩; rw [this] at hne; cases hne
              obtain ⟨c1, c2⟩ := core_step_nontrack h p0 q tx hnt
              exact ⟨_, rfl, c1.trans hst, c2.trans hcr⟩
            · exact ⟨q, hq, hst, hcr⟩
    exact ih _ hchk' hg' hnd' key.1 key.2.1 key.2.2

end ElaVerif.Proposal
