import ElaVerif.Model.RunPrograms
import ElaVerif.Lemmas.Script
/-! Helper lemmas about `Model/RunPrograms.lean` (C03 totality, C05 soundness). Core Lean only. -/
namespace ElaVerif.RunPrograms
open ElaVerif.Script

theorem ok_np : ok ≠ .panic := val_np _
theorem fail_np (e : Err) : fail e ≠ .panic := val_np _

theorem slice_val {b : Bytes} {lo hi : Nat} (h1 : lo ≤ hi) (h2 : hi ≤ b.length) :
    slice b lo hi = .val ((b.drop lo).take (hi - lo)) := by
  simp [slice, h1, h2]

theorem sliceFrom_val {b : Bytes} {lo : Nat} (h : lo ≤ b.length) : sliceFrom b lo = .val (b.drop lo) := by
  simp [sliceFrom, h]

theorem isSchnorr_len {code : Bytes} (h : isSchnorr code = .val true) : code.length = 35 := by
  unfold isSchnorr at h
  split at h
  · cases h
  · omega

theorem isStandard_len {code : Bytes} (h : isStandard code = .val true) : code.length = 35 := by
  unfold isStandard at h
  split at h
  · cases h
  · omega

theorem checkSchnorr_total {D : Type} (O : Oracles D) (p : Program) (d : D) :
    checkSchnorr Fix.all O p d ≠ .panic := by
  unfold checkSchnorr
  apply ite_np (fun _ => fail_np _); intro hg
  have h1 : 2 ≤ p.code.length ∧ 64 ≤ p.param.length := by
    constructor <;> (apply Classical.byContradiction; intro hc; apply hg; simp [Fix.all]; omega)
  rw [sliceFrom_val h1.1, slice_val (by omega) h1.2]
  simp only [R.bind_val]
  exact ite_np (fun _ => ok_np) (fun _ => fail_np _)

theorem checkStandard_total {D : Type} (O : Oracles D) (p : Program) (d : D) (h : p.code.length = 35) :
    checkStandard O p d ≠ .panic := by
  unfold checkStandard
  apply ite_np (fun _ => fail_np _); intro hl
  have hl' : p.param.length = 65 := by omega
  rw [if_neg (by omega), slice_val (by omega) (by omega)]
  simp only [R.bind_val]
  apply ite_np (fun _ => fail_np _); intro _
  rw [sliceFrom_val (by omega)]
  simp only [R.bind_val]
  exact ite_np (fun _ => ok_np) (fun _ => fail_np _)

theorem keysLoop_spec (body : Bytes) (hb : body.length % 34 = 0) : ∀ (fuel i : Nat), i % 34 = 0 →
    body.length - i < fuel → ∃ ks, keysLoop body fuel i = .val ks ∧ ∀ k ∈ ks, k.length = 34 := by
  intro fuel
  induction fuel with
  | zero =>
    intro i _ h2
    omega
  | succ fuel ih =>
    intro i hi h2
    unfold keysLoop
    by_cases hlt : i < body.length
    · rw [if_pos hlt]
      have hle : i + 34 ≤ body.length := by omega
      rw [slice_val (by omega) hle]
      simp only [R.bind_val]
      obtain ⟨ks, hks, hall⟩ := ih (i + 34) (by omega) (by omega)
      rw [hks]
      refine ⟨_, rfl, ?_⟩
      intro k hk
      simp only [List.mem_cons] at hk
      rcases hk with hk | hk
      · subst hk; simp; omega
      · exact hall k hk
    · rw [if_neg hlt]
      exact ⟨[], rfl, by simp⟩


theorem parsePublicKeys_spec (code : Bytes) (h : 3 ≤ code.length) :
    (∃ e, parsePublicKeys code = .val (.error e)) ∨
    (∃ ks, parsePublicKeys code = .val (.ok ks) ∧ ∀ k ∈ ks, k.length = 34) := by
  unfold parsePublicKeys
  rw [if_neg (by omega), slice_val (by omega) (by omega)]
  simp only [R.bind_val]
  rw [sliceFrom_val (by simp; omega)]
  simp only [R.bind_val]
  rw [if_neg (by simp; omega), slice_val (by omega) (by simp)]
  simp only [R.bind_val]
  split
  · exact Or.inl ⟨_, rfl⟩
  · rename_i hm
    generalize hb : (List.take _ (List.drop 0 (List.drop 1 (List.take _ (List.drop 0 code))))) = body at *
    obtain ⟨ks, hks, hall⟩ := keysLoop_spec body (by omega) (body.length + 1) 0 (by omega) (by omega)
    rw [hks]
    exact Or.inr ⟨ks, rfl, hall⟩

theorem parseScript_spec (last : Nat) (code : Bytes) :
    (∃ e, parseScript last code = .val (.error e)) ∨
    (∃ ks, parseScript last code = .val (.ok ks) ∧ ∀ k ∈ ks, k.length = 34) := by
  unfold parseScript
  split
  · exact Or.inl ⟨_, rfl⟩
  · rw [idx_lt (by omega)]
    simp only [R.bind_val]
    split
    · exact Or.inl ⟨_, rfl⟩
    · exact parsePublicKeys_spec code (by omega)

theorem matchKey_spec {D : Type} (O : Oracles D) (d : D) (sg : Bytes) : ∀ (pks : List Bytes),
    (∀ k ∈ pks, 1 ≤ k.length) →
    (∃ e, matchKey O d sg pks = .val (.error e)) ∨ matchKey O d sg pks = .val (.ok none) ∨
    (∃ pk, matchKey O d sg pks = .val (.ok (some pk)) ∧ pk ∈ pks ∧ O.verify (pk.drop 1) d sg = true)
  | [], _ => Or.inr (Or.inl rfl)
  | pk :: rest, h => by
    unfold matchKey
    rw [sliceFrom_val (h pk (by simp))]
    simp only [R.bind_val]
    split
    · exact Or.inl ⟨_, rfl⟩
    · split
      · rename_i hv
        exact Or.inr (Or.inr ⟨pk, rfl, by simp, hv⟩)
      · rcases matchKey_spec O d sg rest (fun k hk => h k (by simp [hk])) with ⟨e, he⟩ | hn | ⟨q, hq, hm, hv⟩
        · exact Or.inl ⟨e, he⟩
        · exact Or.inr (Or.inl hn)
        · exact Or.inr (Or.inr ⟨q, hq, by simp [hm], hv⟩)


/-- the signature (without its length byte) found at byte offset `j` of the parameter -/
def sigAt (sigs : Bytes) (j : Nat) : Bytes := (((sigs.drop j).take 65).drop 1)

/-- what the `verified` set of VerifyMultisigSignatures guarantees -/
def Inv {D : Type} (O : Oracles D) (d : D) (pks : List Bytes) (sigs : Bytes) (v : List Bytes) : Prop :=
  v.Nodup ∧ ∀ pk ∈ v, pk ∈ pks ∧ ∃ j, j + 65 ≤ sigs.length ∧ O.verify (pk.drop 1) d (sigAt sigs j) = true

theorem sigLoop_spec {D : Type} (O : Oracles D) (d : D) (pks : List Bytes) (sigs : Bytes)
    (hs : sigs.length % 65 = 0) (hp : ∀ k ∈ pks, 1 ≤ k.length) :
    ∀ (fuel i : Nat) (v : List Bytes), i % 65 = 0 → sigs.length - i < fuel → Inv O d pks sigs v →
      (∃ e, sigLoop O d pks sigs fuel i v = .val (.error e)) ∨
      (∃ w, sigLoop O d pks sigs fuel i v = .val (.ok w) ∧ Inv O d pks sigs w) := by
  intro fuel
  induction fuel with
  | zero => intro i v _ h2; omega
  | succ fuel ih =>
    intro i v hi hf hinv
    unfold sigLoop
    by_cases hlt : i < sigs.length
    · rw [if_pos hlt]
      have hle : i + 65 ≤ sigs.length := by omega
      rw [slice_val (by omega) hle]
      simp only [R.bind_val]
      rw [sliceFrom_val (by simp; omega)]
      simp only [R.bind_val]
      have e65 : i + 65 - i = 65 := by omega
      rcases matchKey_spec O d (List.drop 1 (List.take (i + 65 - i) (List.drop i sigs))) pks hp with ⟨e, he⟩ | hn | ⟨q, hq, hm, hv⟩
      · rw [he]; exact Or.inl ⟨e, rfl⟩
      · rw [hn]; simp only [R.bind_val]
        exact ih (i + 65) v (by omega) (by omega) hinv
      · rw [hq]; simp only [R.bind_val]
        split
        · exact Or.inl ⟨_, rfl⟩
        · rename_i hc
          apply ih (i + 65) (q :: v) (by omega) (by omega)
          have hnot : q ∉ v := by
            intro hmem; apply hc; simp [hmem]
          refine ⟨List.nodup_cons.mpr ⟨hnot, hinv.1⟩, ?_⟩
          intro pk hpk
          simp only [List.mem_cons] at hpk
          rcases hpk with hpk | hpk
          · subst hpk
            refine ⟨hm, i, hle, ?_⟩
            rw [e65] at hv
            exact hv
          · exact hinv.2 pk hpk
    · rw [if_neg hlt]
      exact Or.inr ⟨v, rfl, hinv⟩

theorem verifyMultisig_total {D : Type} (O : Oracles D) (m n : Int) (pks : List Bytes) (sigs : Bytes) (d : D)
    (hp : ∀ k ∈ pks, 1 ≤ k.length) : verifyMultisig O m n pks sigs d ≠ .panic := by
  unfold verifyMultisig
  apply ite_np (fun _ => fail_np _); intro _
  apply ite_np (fun _ => fail_np _); intro hs
  apply ite_np (fun _ => fail_np _); intro _
  apply ite_np (fun _ => fail_np _); intro _
  rcases sigLoop_spec O d pks sigs (by omega) hp (sigs.length + 1) 0 [] (by omega) (by omega)
    ⟨List.nodup_nil, by intro _ h; cases h⟩ with ⟨e, he⟩ | ⟨w, hw, _⟩
  · rw [he]; exact fail_np _
  · rw [hw]; simp only [R.bind_val]
    exact ite_np (fun _ => fail_np _) (fun _ => ok_np)

/-- soundness of the m-of-n count: acceptance yields `m` distinct keys of the script,
    each with a signature in the parameter that verifies over the data. -/
theorem verifyMultisig_sound {D : Type} (O : Oracles D) (m n : Int) (pks : List Bytes) (sigs : Bytes) (d : D)
    (hp : ∀ k ∈ pks, 1 ≤ k.length) (h : verifyMultisig O m n pks sigs d = ok) :
    ∃ S : List Bytes, S.Nodup ∧ m ≤ (S.length : Int) ∧ (pks.length : Int) = n ∧
      ∀ pk ∈ S, pk ∈ pks ∧ ∃ j, j + 65 ≤ sigs.length ∧ O.verify (pk.drop 1) d (sigAt sigs j) = true := by
  unfold verifyMultisig at h
  split at h
  · cases h
  · rename_i hn
    split at h
    · cases h
    · rename_i hs
      split at h
      · cases h
      · split at h
        · cases h
        · rcases sigLoop_spec O d pks sigs (by omega) hp (sigs.length + 1) 0 [] (by omega) (by omega)
            ⟨List.nodup_nil, by intro _ h; cases h⟩ with ⟨e, he⟩ | ⟨w, hw, hinv⟩
          · rw [he] at h; cases h
          · rw [hw] at h
            simp only [R.bind_val] at h
            split at h
            · cases h
            · rename_i hm
              exact ⟨w, hinv.1, by omega, by omega, hinv.2⟩


theorem mnOf_val {code : Bytes} (h : 2 ≤ code.length) : ∃ m n, mnOf code = .val (m, n) := by
  unfold mnOf
  rw [if_neg (by omega), idx_lt (by omega), idx_lt (by omega)]
  exact ⟨_, _, rfl⟩

theorem keys_len_pos {ks : List Bytes} (h : ∀ k ∈ ks, k.length = 34) : ∀ k ∈ ks, 1 ≤ k.length := by
  intro k hk; have := h k hk; omega

theorem checkMultiSig_total {D : Type} (O : Oracles D) (p : Program) (d : D) :
    checkMultiSig Fix.all O p d ≠ .panic := by
  unfold checkMultiSig
  apply ite_np (fun _ => fail_np _); intro hg
  have h2 : 2 ≤ p.code.length := by
    apply Classical.byContradiction; intro hc; apply hg; simp [Fix.all]; omega
  obtain ⟨m, n, hmn⟩ := mnOf_val h2
  rw [hmn]; simp only [R.bind_val]
  apply ite_np (fun _ => fail_np _); intro _
  rcases parseScript_spec MULTISIG p.code with ⟨e, he⟩ | ⟨ks, hks, hall⟩
  · rw [he]; exact fail_np _
  · rw [hks]; simp only [R.bind_val]
    exact verifyMultisig_total O m n ks p.param d (keys_len_pos hall)

theorem checkCrossChain_total {D : Type} (O : Oracles D) (p : Program) (d : D) :
    checkCrossChain Fix.all O p d ≠ .panic := by
  unfold checkCrossChain
  apply ite_np (fun _ => fail_np _); intro hg
  have h2 : 2 ≤ p.code.length := by
    apply Classical.byContradiction; intro hc; apply hg; simp [Fix.all]; omega
  obtain ⟨m, n, hmn⟩ := mnOf_val h2
  rw [hmn]; simp only [R.bind_val]
  rcases parseScript_spec CROSSCHAIN p.code with ⟨e, he⟩ | ⟨ks, hks, hall⟩
  · rw [he]; exact fail_np _
  · rw [hks]; simp only [R.bind_val]
    exact verifyMultisig_total O m n ks p.param d (keys_len_pos hall)

theorem R_cases {α : Type} (x : R α) (h : x ≠ .panic) : ∃ a, x = .val a := by
  cases x with
  | val a => exact ⟨a, rfl⟩
  | panic => exact absurd rfl h

theorem runOne_total {D : Type} (O : Oracles D) (d : D) (h : PH) (p : Program) :
    runOne Fix.all O d h p ≠ .panic := by
  unfold runOne
  obtain ⟨bs, hbs⟩ := R_cases _ (isSchnorr_total p.code)
  obtain ⟨bt, hbt⟩ := R_cases _ (isStandard_total p.code)
  obtain ⟨bm, hbm⟩ := R_cases _ (isMultiSig_total p.code)
  have hbm' : isMultiSig Fix.all.multiSig p.code = .val bm := hbm
  apply ite_np
  · intro _
    rw [hbs]; simp only [R.bind_val]
    cases bs
    · exact checkCrossChain_total O p d
    · exact checkSchnorr_total O p d
  · intro _
    apply ite_np (fun _ => fail_np _); intro _
    apply ite_np
    · intro _
      rw [hbs]; simp only [R.bind_val]
      cases bs
      · simp only [Bool.false_eq_true, if_false]
        rw [hbt]; simp only [R.bind_val]
        cases bt
        · simp only [Bool.false_eq_true, if_false]
          rw [hbm']; simp only [R.bind_val]
          cases bm
          · exact ok_np
          · exact checkMultiSig_total O p d
        · exact checkStandard_total O p d (isStandard_len hbt)
      · exact checkSchnorr_total O p d
    · intro _
      exact ite_np (fun _ => checkMultiSig_total O p d) (fun _ => fail_np _)

theorem runLoop_total {D : Type} (O : Oracles D) (d : D) : ∀ (hs : List PH) (ps : List Program),
    runLoop Fix.all O d hs ps ≠ .panic
  | [], _ => by unfold runLoop; exact ok_np
  | _ :: _, [] => by unfold runLoop; exact ok_np
  | h :: hs, p :: ps => by
    unfold runLoop
    obtain ⟨r, hr⟩ := R_cases _ (runOne_total O d h p)
    rw [hr]; simp only [R.bind_val]
    cases r with
    | error e => exact fail_np _
    | ok u => cases u; exact runLoop_total O d hs ps

theorem runPrograms_total {D : Type} (O : Oracles D) (d : D) (hs : List PH) (ps : List Program) :
    runPrograms Fix.all O d hs ps ≠ .panic := by
  unfold runPrograms
  exact ite_np (fun _ => fail_np _) (fun _ => runLoop_total O d hs ps)


/-! ### specification predicates for C05 -/

/-- `m` distinct key scripts out of `pks`, each with a signature chunk of `param` that verifies over `d` -/
def SignedBy {D : Type} (O : Oracles D) (d : D) (pks : List Bytes) (param : Bytes) (m : Int) : Prop :=
  ∃ S : List Bytes, S.Nodup ∧ m ≤ (S.length : Int) ∧
    ∀ pk ∈ S, pk ∈ pks ∧ ∃ j, j + 65 ≤ param.length ∧ O.verify (pk.drop 1) d (sigAt param j) = true

/-- standard program: the key in the code verifies the signature in the parameter -/
def StdAuth {D : Type} (O : Oracles D) (d : D) (p : Program) : Prop :=
  isStandard p.code = .val true ∧ p.param.length = 65 ∧
    O.verify ((p.code.drop 1).take (p.code.length - 1 - 1)) d (p.param.drop 1) = true

/-- Schnorr program: the aggregate key in the code verifies the 64-byte signature -/
def SchnorrAuth {D : Type} (O : Oracles D) (d : D) (p : Program) : Prop :=
  isSchnorr p.code = .val true ∧ 64 ≤ p.param.length ∧
    O.schnorr (copyInto 33 (p.code.drop 2)) d (copyInto 64 (p.param.take 64)) = true

/-- m-of-n program ending in `last`: at least `m` distinct keys of the script signed; `m` and `n` are the script's -/
def MultiAuth {D : Type} (O : Oracles D) (d : D) (last : Nat) (p : Program) (mMin : Int) : Prop :=
  ∃ (m n : Int) (pks : List Bytes), mnOf p.code = .val (m, n) ∧ parseScript last p.code = .val (.ok pks) ∧
    (pks.length : Int) = n ∧ mMin ≤ m ∧ SignedBy O d pks p.param m

/-- the code is of a kind RunPrograms knows how to check under a standard/deposit prefix -/
def KnownKind (p : Program) : Prop :=
  isSchnorr p.code = .val true ∨ isStandard p.code = .val true ∨ isMultiSig true p.code = .val true

/-- what acceptance of one (hash, program) pair should mean (full strength) -/
def Authorised {D : Type} (O : Oracles D) (d : D) (h : PH) (p : Program) : Prop :=
  h.hash = O.codeHash p.code ∧
    (SchnorrAuth O d p ∨ StdAuth O d p ∨ MultiAuth O d MULTISIG p 1)

/-- what acceptance gives for a cross-chain prefixed hash: no hash binding, `m` unconstrained -/
def CrossAuth {D : Type} (O : Oracles D) (d : D) (p : Program) : Prop :=
  SchnorrAuth O d p ∨ ∃ mMin, MultiAuth O d CROSSCHAIN p mMin

theorem checkSchnorr_ok {D : Type} (O : Oracles D) (p : Program) (d : D) (hs : isSchnorr p.code = .val true)
    (h : checkSchnorr Fix.all O p d = ok) : SchnorrAuth O d p := by
  unfold checkSchnorr at h
  split at h
  · cases h
  · rename_i hg
    have h1 : 2 ≤ p.code.length ∧ 64 ≤ p.param.length := by
      constructor <;> (apply Classical.byContradiction; intro hc; apply hg; simp [Fix.all]; omega)
    rw [sliceFrom_val h1.1, slice_val (by omega) h1.2] at h
    simp only [R.bind_val] at h
    split at h
    · rename_i hv
      refine ⟨hs, h1.2, ?_⟩
      simpa using hv
    · cases h

theorem checkStandard_ok {D : Type} (O : Oracles D) (p : Program) (d : D) (hs : isStandard p.code = .val true)
    (h : checkStandard O p d = ok) : StdAuth O d p := by
  have hl := isStandard_len hs
  unfold checkStandard at h
  split at h
  · cases h
  · rename_i hp
    have hp' : p.param.length = 65 := by omega
    rw [if_neg (by omega), slice_val (by omega) (by omega)] at h
    simp only [R.bind_val] at h
    split at h
    · cases h
    · rw [sliceFrom_val (by omega)] at h
      simp only [R.bind_val] at h
      split at h
      · rename_i hv
        exact ⟨hs, hp', hv⟩
      · cases h

theorem checkMultiSig_ok {D : Type} (O : Oracles D) (p : Program) (d : D)
    (h : checkMultiSig Fix.all O p d = ok) : MultiAuth O d MULTISIG p 1 := by
  unfold checkMultiSig at h
  split at h
  · cases h
  · rename_i hg
    have h2 : 2 ≤ p.code.length := by
      apply Classical.byContradiction; intro hc; apply hg; simp [Fix.all]; omega
    obtain ⟨m, n, hmn⟩ := mnOf_val h2
    rw [hmn] at h; simp only [R.bind_val] at h
    split at h
    · cases h
    · rename_i hm
      rcases parseScript_spec MULTISIG p.code with ⟨e, he⟩ | ⟨ks, hks, hall⟩
      · rw [he] at h; cases h
      · rw [hks] at h; simp only [R.bind_val] at h
        obtain ⟨S, hnd, hlen, hn, hS⟩ := verifyMultisig_sound O m n ks p.param d (keys_len_pos hall) h
        exact ⟨m, n, ks, hmn, hks, hn, by omega, S, hnd, hlen, hS⟩

theorem checkCrossChain_ok {D : Type} (O : Oracles D) (p : Program) (d : D)
    (h : checkCrossChain Fix.all O p d = ok) : ∃ mMin, MultiAuth O d CROSSCHAIN p mMin := by
  unfold checkCrossChain at h
  split at h
  · cases h
  · rename_i hg
    have h2 : 2 ≤ p.code.length := by
      apply Classical.byContradiction; intro hc; apply hg; simp [Fix.all]; omega
    obtain ⟨m, n, hmn⟩ := mnOf_val h2
    rw [hmn] at h; simp only [R.bind_val] at h
    rcases parseScript_spec CROSSCHAIN p.code with ⟨e, he⟩ | ⟨ks, hks, hall⟩
    · rw [he] at h; cases h
    · rw [hks] at h; simp only [R.bind_val] at h
      obtain ⟨S, hnd, hlen, hn, hS⟩ := verifyMultisig_sound O m n ks p.param d (keys_len_pos hall) h
      exact ⟨m, m, n, ks, hmn, hks, hn, Int.le_refl _, S, hnd, hlen, hS⟩

/-- the branch of RunPrograms that checks nothing -/
def FallThrough (h : PH) (p : Program) : Prop :=
  (h.pfx = PrefixStandard ∨ h.pfx = PrefixDeposit) ∧ ¬ KnownKind p

theorem runOne_ok {D : Type} (O : Oracles D) (d : D) (h : PH) (p : Program)
    (hr : runOne Fix.all O d h p = ok) :
    (h.pfx = PrefixCrossChain ∧ CrossAuth O d p) ∨
    (h.pfx ≠ PrefixCrossChain ∧ Authorised O d h p) ∨
    (h.pfx ≠ PrefixCrossChain ∧ h.hash = O.codeHash p.code ∧ FallThrough h p) := by
  unfold runOne at hr
  obtain ⟨bs, hbs⟩ := R_cases _ (isSchnorr_total p.code)
  obtain ⟨bt, hbt⟩ := R_cases _ (isStandard_total p.code)
  obtain ⟨bm, hbm⟩ := R_cases _ (isMultiSig_total p.code)
  have hbm' : isMultiSig Fix.all.multiSig p.code = .val bm := hbm
  split at hr
  · rename_i hx
    left
    refine ⟨hx, ?_⟩
    rw [hbs] at hr; simp only [R.bind_val] at hr
    cases bs
    · exact Or.inr (checkCrossChain_ok O p d hr)
    · exact Or.inl (checkSchnorr_ok O p d hbs hr)
  · rename_i hx
    right
    split at hr
    · cases hr
    · rename_i hh
      have hh' : h.hash = O.codeHash p.code := by
        apply Classical.byContradiction; intro hc; exact hh hc
      split at hr
      · rename_i hpf
        rw [hbs] at hr; simp only [R.bind_val] at hr
        cases bs
        · simp only [Bool.false_eq_true, if_false] at hr
          rw [hbt] at hr; simp only [R.bind_val] at hr
          cases bt
          · simp only [Bool.false_eq_true, if_false] at hr
            rw [hbm'] at hr; simp only [R.bind_val] at hr
            cases bm
            · right
              refine ⟨hx, hh', hpf, ?_⟩
              intro hk
              rcases hk with hk | hk | hk
              · rw [hbs] at hk; cases hk
              · rw [hbt] at hk; cases hk
              · rw [hbm] at hk; cases hk
            · left
              exact ⟨hx, hh', Or.inr (Or.inr (checkMultiSig_ok O p d hr))⟩
          · left
            exact ⟨hx, hh', Or.inr (Or.inl (checkStandard_ok O p d hbt hr))⟩
        · left
          exact ⟨hx, hh', Or.inl (checkSchnorr_ok O p d hbs hr)⟩
      · split at hr
        · left
          exact ⟨hx, hh', Or.inr (Or.inr (checkMultiSig_ok O p d hr))⟩
        · cases hr


/-- what `runOne_ok` yields for one accepted pair -/
def Accepted {D : Type} (O : Oracles D) (d : D) (h : PH) (p : Program) : Prop :=
  (h.pfx = PrefixCrossChain ∧ CrossAuth O d p) ∨
  (h.pfx ≠ PrefixCrossChain ∧ Authorised O d h p) ∨
  (h.pfx ≠ PrefixCrossChain ∧ h.hash = O.codeHash p.code ∧ FallThrough h p)

theorem runLoop_ok {D : Type} (O : Oracles D) (d : D) : ∀ (hs : List PH) (ps : List Program),
    runLoop Fix.all O d hs ps = ok → ∀ hp ∈ hs.zip ps, Accepted O d hp.1 hp.2
  | [], _, _ => by intro hp hm; simp at hm
  | _ :: _, [], _ => by intro hp hm; simp at hm
  | h :: hs, p :: ps, hr => by
    unfold runLoop at hr
    obtain ⟨r, hr1⟩ := R_cases _ (runOne_total O d h p)
    rw [hr1] at hr; simp only [R.bind_val] at hr
    cases r with
    | error e => cases hr
    | ok u =>
      cases u
      simp only at hr
      intro hp hm
      simp only [List.zip_cons_cons, List.mem_cons] at hm
      rcases hm with hm | hm
      · subst hm
        exact runOne_ok O d h p hr1
      · exact runLoop_ok O d hs ps hr hp hm

theorem runPrograms_ok {D : Type} (O : Oracles D) (d : D) (hs : List PH) (ps : List Program)
    (hr : runPrograms Fix.all O d hs ps = ok) :
    hs.length = ps.length ∧ ∀ hp ∈ hs.zip ps, Accepted O d hp.1 hp.2 := by
  unfold runPrograms at hr
  split at hr
  · cases hr
  · rename_i hl
    exact ⟨by omega, runLoop_ok O d hs ps hr⟩

/-- every element of the first list has a partner in a zip of equal-length lists -/
theorem zip_partner {α β : Type} : ∀ (xs : List α) (ys : List β), xs.length = ys.length →
    ∀ x ∈ xs, ∃ y ∈ ys, (x, y) ∈ xs.zip ys
  | [], _, _, x, hx => by cases hx
  | a :: xs, [], hl, _, _ => by simp at hl
  | a :: xs, b :: ys, hl, x, hx => by
    simp only [List.mem_cons] at hx
    rcases hx with hx | hx
    · subst hx; exact ⟨b, by simp, by simp⟩
    · obtain ⟨y, hy, hz⟩ := zip_partner xs ys (by simpa using hl) x hx
      exact ⟨y, by simp [hy], by simp [hz]⟩

theorem signedBy_pos_has_sig {D : Type} (O : Oracles D) (d : D) (pks : List Bytes) (param : Bytes) (m : Int)
    (hm : 1 ≤ m) (h : SignedBy O d pks param m) : ∃ k s, O.verify k d s = true := by
  obtain ⟨S, _, hlen, hS⟩ := h
  match S, hlen, hS with
  | [], hlen, _ => simp at hlen; omega
  | pk :: _, _, hS =>
    obtain ⟨_, j, _, hv⟩ := hS pk (by simp)
    exact ⟨_, _, hv⟩


end ElaVerif.RunPrograms
