import ElaVerif.Model.Crash
import ElaVerif.Lemmas.BlockStore
/-!
Helper lemmas for C17: bytes below the write cursor survive appends (torn or
not) and the reconcile truncation; leveldb only moves by whole batches.
-/
namespace ElaVerif.Crash
open ElaVerif.BlockStore (Files Loc writeFile fileAt setFile truncateTo writeAt fileAt_setFile_same fileAt_setFile_other writeAt_end)
open ElaVerif.Ffldb (applyTo)

/-- the bytes of a location, if the file holds all of them -/
def regionOf (fs : Files) (loc : Loc) : Option Bytes :=
  (fileAt fs loc.file).bind fun f => if loc.off + loc.len ≤ f.length then some ((f.drop loc.off).take loc.len) else none

/-- `loc` lies entirely below the position (file `cf`, offset `co`) -/
def Below (cf co : Nat) (loc : Loc) : Prop :=
  loc.file < cf ∨ (loc.file = cf ∧ loc.off + loc.len ≤ co)

/-- the in-memory cursor sits at the end of its file (or the file does not exist yet) -/
def CurOK (fs : Files) (cf co : Nat) : Prop :=
  match fileAt fs cf with
  | some f => f.length = co
  | none => co = 0

/-- any write at the cursor — whole or torn — leaves every non-empty region below the cursor alone -/
theorem region_writeFile (fs : Files) (cf co : Nat) (data : Bytes) (loc : Loc)
    (hcur : CurOK fs cf co) (hb : Below cf co loc) (hlen : 0 < loc.len) :
    regionOf (writeFile fs cf co data) loc = regionOf fs loc := by
  unfold regionOf writeFile
  rcases hb with hb | ⟨hb1, hb2⟩
  · rw [fileAt_setFile_other _ _ _ _ (by omega)]
  · subst hb1
    rw [fileAt_setFile_same]
    unfold CurOK at hcur
    cases hf : fileAt fs loc.file with
    | none => rw [hf] at hcur; omega
    | some f =>
      rw [hf] at hcur
      simp only [Option.getD_some, Option.bind_some]
      rw [← hcur, writeAt_end]
      have h1 : loc.off + loc.len ≤ f.length := by omega
      simp only [h1, if_true, List.length_append]
      rw [if_pos (by omega), List.drop_append_of_le_length (by omega), List.take_append_of_le_length (by simp; omega)]

theorem fileAt_mapIdx (fs : Files) (g : Nat → Option Bytes → Option Bytes) (i : Nat) :
    fileAt (fs.mapIdx g) i = ((fs[i]?).map (g i)).join := by
  simp [fileAt, List.getElem?_mapIdx]

/-- the truncation done by `reconcileDB` leaves every region below the persisted cursor alone -/
theorem region_truncate (fs : Files) (wf wo hi : Nat) (loc : Loc) (f : Bytes)
    (hf : fileAt fs wf = some f) (hwo : wo ≤ f.length) (hb : Below wf wo loc) :
    regionOf (truncateTo fs wf wo hi) loc = regionOf fs loc := by
  unfold regionOf truncateTo
  simp only []
  have hkeep : ∀ i, i ≤ wf → fileAt (fs.mapIdx fun i f => if wf < i ∧ i ≤ hi then none else f) i = fileAt fs i := by
    intro i hi'
    rw [fileAt_mapIdx]
    simp only [fileAt]
    have : ¬ (wf < i ∧ i ≤ hi) := by omega
    cases fs[i]? <;> simp [this]
  rcases hb with hb | ⟨hb1, hb2⟩
  · rw [fileAt_setFile_other _ _ _ _ (by omega), hkeep _ (by omega)]
  · subst hb1
    rw [fileAt_setFile_same, hkeep _ (Nat.le_refl _), hf]
    simp only [Option.getD_some, Option.bind_some]
    have h0 : wo - f.length = 0 := by omega
    rw [h0]
    simp only [List.replicate_zero, List.append_nil, List.length_take]
    have h1 : loc.off + loc.len ≤ f.length := by omega
    rw [if_pos (by omega), if_pos h1, List.drop_take, List.take_take]
    rw [show min loc.len (wo - loc.off) = loc.len by omega]

/-! ### leveldb moves by whole batches only -/

theorem ldbBatch_spec (s : St) (p r : ElaVerif.OrdMap.Map) :
    ((ldbBatch s p r).2 = true → (ldbBatch s p r).1.db = s.db) ∧
    ((ldbBatch s p r).2 = false → (ldbBatch s p r).1.db = { s.db with ldb := applyTo s.db.ldb p r }) := by
  unfold ldbBatch
  rcases hit s.fs "commitTreaps.mid" with ⟨fs, dead⟩
  cases dead <;> simp

theorem flush_spec (s : St) :
    let L1 := applyTo s.db.ldb s.db.ckeys s.db.cremoves
    ((flush s).2 = true → (flush s).1.db = s.db ∨ (flush s).1.db = { s.db with ldb := L1 }) ∧
    ((flush s).2 = false → (flush s).1.db = { s.db with ldb := L1, ckeys := [], cremoves := [] }) := by
  unfold flush
  rcases hit s.fs "flush.afterSync" with ⟨fs, dead⟩
  cases dead with
  | true => simp
  | false =>
    simp only [Bool.false_eq_true, if_false]
    by_cases he : (s.db.ckeys.isEmpty && s.db.cremoves.isEmpty) = true
    · simp only [he, if_true]
      simp only [Bool.and_eq_true, List.isEmpty_iff] at he
      refine ⟨by simp, fun _ => ?_⟩
      simp only [he.1, he.2, applyTo, List.foldl_nil]
      cases hd : s.db with
      | mk ldb ck cr mx fa => simp [hd] at he ⊢; simp [he.1, he.2]
    · simp only [he, Bool.false_eq_true, if_false]
      have hb := ldbBatch_spec { s with fs := fs } s.db.ckeys s.db.cremoves
      rcases hlb : ldbBatch { s with fs := fs } s.db.ckeys s.db.cremoves with ⟨s2, dead2⟩
      rw [hlb] at hb
      cases dead2 with
      | true => simp at hb ⊢; left; exact hb
      | false =>
        simp only [Bool.false_eq_true, if_false] at hb ⊢
        have hdb : s2.db = { s.db with ldb := applyTo s.db.ldb s.db.ckeys s.db.cremoves } := by simpa using hb
        rcases hit s2.fs "flush.afterCommit" with ⟨fs3, dead3⟩
        cases dead3 with
        | true => simp [hdb]
        | false => simp [hdb]

/-! ### the reconciliation itself can be interrupted anywhere -/

theorem hit_files (fs : FS) (name : String) : (hit fs name).1.files = fs.files := by
  unfold hit
  cases fs.arm with
  | none => rfl
  | some a =>
    simp only []
    split
    · rfl
    · split <;> rfl

theorem rollbackDelete_fileAt (wf : Nat) : ∀ (n : Nat) (fs : FS) (i : Nat), i ≤ wf →
    fileAt (rollbackDelete wf n fs).1.files i = fileAt fs.files i := by
  intro n
  induction n with
  | zero => intro fs i _; rfl
  | succ n ih =>
    intro fs i hi
    simp only [rollbackDelete]
    rcases hh : hit { fs with files := setFile fs.files (wf + n + 1) none } "rollback.afterDelete" with ⟨fs1, dead⟩
    have hf1 : fs1.files = setFile fs.files (wf + n + 1) none := by
      have := hit_files { fs with files := setFile fs.files (wf + n + 1) none } "rollback.afterDelete"
      rw [hh] at this; exact this
    cases dead with
    | true => simp only [if_true]; rw [hf1, fileAt_setFile_other _ _ _ _ (by omega)]
    | false =>
      simp only [Bool.false_eq_true, if_false]
      rw [ih fs1 i hi, hf1, fileAt_setFile_other _ _ _ _ (by omega)]

theorem regionOf_congr (fs fs' : Files) (loc : Loc) (h : fileAt fs' loc.file = fileAt fs loc.file) :
    regionOf fs' loc = regionOf fs loc := by
  unfold regionOf; rw [h]

/-- **`handleRollback` can die at any of its crash points** (after each file deletion, before and
    after the truncation): at every such point, and when it completes, every byte range below the
    persisted cursor is what it was. -/
theorem rollback_keeps_records (fs : FS) (wf wo sf : Nat) (loc : Loc) (f : Bytes)
    (hf : fileAt fs.files wf = some f) (hwo : wo ≤ f.length) (hb : Below wf wo loc) :
    regionOf (rollback fs wf wo sf).1.files loc = regionOf fs.files loc := by
  have hle : loc.file ≤ wf := by rcases hb with h | h <;> omega
  unfold rollback
  rcases hd : rollbackDelete wf (sf - wf) fs with ⟨fs1, dead1⟩
  have h1 : ∀ i, i ≤ wf → fileAt fs1.files i = fileAt fs.files i := by
    intro i hi
    have := rollbackDelete_fileAt wf (sf - wf) fs i hi
    rw [hd] at this; exact this
  cases dead1 with
  | true => simp only [if_true]; exact regionOf_congr _ _ _ (h1 _ hle)
  | false =>
    simp only [Bool.false_eq_true, if_false]
    have hf1 : fileAt fs1.files wf = some f := by rw [h1 wf (Nat.le_refl _)]; exact hf
    simp only [hf1]
    rcases hh : hit fs1 "rollback.beforeTruncate" with ⟨fs2, dead2⟩
    have hf2 : fs2.files = fs1.files := by
      have := hit_files fs1 "rollback.beforeTruncate"; rw [hh] at this; exact this
    cases dead2 with
    | true => simp only [if_true]; rw [hf2]; exact regionOf_congr _ _ _ (h1 _ hle)
    | false =>
      simp only [Bool.false_eq_true, if_false]
      rw [hit_files]
      simp only [hf2, hf1, Option.getD_some]
      have h0 : wo - f.length = 0 := by omega
      rw [h0]
      simp only [List.replicate_zero, List.append_nil]
      rcases hb with hb | ⟨hb1, hb2⟩
      · rw [← regionOf_congr fs.files fs1.files loc (h1 _ hle)]
        exact regionOf_congr _ _ _ (fileAt_setFile_other _ _ _ _ (by omega))
      · unfold regionOf
        rw [hb1, fileAt_setFile_same, hf]
        simp only [Option.bind_some, List.length_take]
        have h2 : loc.off + loc.len ≤ f.length := by omega
        rw [if_pos (by omega), if_pos h2, List.drop_take, List.take_take]
        rw [show min loc.len (wo - loc.off) = loc.len by omega]


/-! ## reconcile is idempotent -/

open ElaVerif.BlockStore (scan u32 rdLe32 rd8) in
theorem scan_spec' : ∀ (fs : Files) (n i : Nat) (acc : Nat × Nat),
    (∀ j, j < n → ∃ f, fileAt fs j = some f) → fileAt fs n = none →
    scan fs i acc = if n = 0 then acc else (i + n - 1, u32 ((fileAt fs (n - 1)).getD []).length)
  | [], n, i, acc, hall, _ => by
    cases n with
    | zero => simp [scan]
    | succ n => obtain ⟨f, hf⟩ := hall 0 (by omega); simp [fileAt] at hf
  | none :: fs, n, i, acc, hall, _ => by
    cases n with
    | zero => simp [scan]
    | succ n => obtain ⟨f, hf⟩ := hall 0 (by omega); simp [fileAt] at hf
  | some f :: fs, n, i, acc, hall, hnone => by
    cases n with
    | zero => simp [fileAt] at hnone
    | succ n =>
      have hall' : ∀ j, j < n → ∃ g, fileAt fs j = some g := by
        intro j hj; have := hall (j + 1) (by omega); simpa [fileAt] using this
      have hnone' : fileAt fs n = none := by simpa [fileAt] using hnone
      have ih := scan_spec' fs n (i + 1) (i, u32 f.length) hall' hnone'
      simp only [scan, ih]
      cases n with
      | zero => simp [fileAt]
      | succ m =>
        simp only [Nat.add_one_ne_zero, if_false]
        have : fileAt (some f :: fs) (m + 1 + 1 - 1) = fileAt fs (m + 1 - 1) := by simp [fileAt]
        rw [this]
        congr 1
        omega

/-- every directory has a first missing file -/
theorem first_gap : ∀ (fs : Files), ∃ n, (∀ j, j < n → ∃ f, fileAt fs j = some f) ∧ fileAt fs n = none
  | [] => ⟨0, by intro j hj; omega, by simp [fileAt]⟩
  | none :: _ => ⟨0, by intro j hj; omega, by simp [fileAt]⟩
  | some f :: fs => by
    obtain ⟨n, hall, hnone⟩ := first_gap fs
    refine ⟨n + 1, ?_, by simpa [fileAt] using hnone⟩
    intro j hj
    cases j with
    | zero => exact ⟨f, by simp [fileAt]⟩
    | succ j => have := hall j (by omega); simpa [fileAt] using this

theorem rdLe32_lt (b : Bytes) : ElaVerif.BlockStore.rdLe32 b < 4294967296 := by
  have h : ∀ i, ElaVerif.BlockStore.rd8 b i < 256 := fun i => UInt8.toNat_lt _
  have h0 := h 0; have h1 := h 1; have h2 := h 2; have h3 := h 3
  unfold ElaVerif.BlockStore.rdLe32; omega

theorem hit_none (fs : FS) (name : String) (h : fs.arm = none) : hit fs name = (fs, false) := by
  unfold hit; rw [h]

/-- the files after the delete loop of `handleRollback` -/
def delFiles (wf : Nat) : Nat → Files → Files
  | 0, fs => fs
  | n + 1, fs => delFiles wf n (setFile fs (wf + n + 1) none)

theorem rollbackDelete_none (wf : Nat) : ∀ (n : Nat) (fs : FS), fs.arm = none →
    rollbackDelete wf n fs = ({ fs with files := delFiles wf n fs.files }, false) := by
  intro n
  induction n with
  | zero => intro fs _; rfl
  | succ n ih =>
    intro fs h
    simp only [rollbackDelete]
    rw [hit_none _ _ (by exact h)]
    simp only [Bool.false_eq_true, if_false]
    rw [ih _ (by exact h)]
    rfl

theorem fileAt_delFiles (wf : Nat) : ∀ (n : Nat) (fs : Files) (i : Nat),
    fileAt (delFiles wf n fs) i = if wf < i ∧ i ≤ wf + n then none else fileAt fs i := by
  intro n
  induction n with
  | zero => intro fs i; simp only [delFiles]; rw [if_neg (by omega)]
  | succ n ih =>
    intro fs i
    simp only [delFiles]
    rw [ih]
    by_cases hi : i = wf + n + 1
    · subst hi
      rw [fileAt_setFile_same]
      split <;> split <;> first | rfl | omega
    · rw [fileAt_setFile_other _ _ _ _ (by omega)]
      split <;> split <;> first | rfl | omega

/-- the files after a complete `handleRollback` -/
def rolledFiles (fs : Files) (wf wo sf : Nat) : Files :=
  let d := delFiles wf (sf - wf) fs
  let d := match fileAt d wf with
    | some _ => d
    | none => setFile d wf (some [])
  let f := (fileAt d wf).getD []
  setFile d wf (some ((f ++ List.replicate (wo - f.length) 0).take wo))

theorem rollback_none (fs : FS) (wf wo sf : Nat) (h : fs.arm = none) :
    rollback fs wf wo sf = ({ fs with files := rolledFiles fs.files wf wo sf, curFile := wf, curOff := wo }, false) := by
  unfold rollback
  rw [rollbackDelete_none _ _ _ h]
  simp only [Bool.false_eq_true, if_false]
  cases hf : fileAt (delFiles wf (sf - wf) fs.files) wf with
  | some f =>
    simp only []
    rw [hit_none _ _ (by exact h)]
    simp only [Bool.false_eq_true, if_false]
    rw [hit_none _ _ (by exact h)]
    simp only [rolledFiles, hf]
  | none =>
    simp only []
    rw [hit_none _ _ (by exact h)]
    simp only [Bool.false_eq_true, if_false]
    rw [hit_none _ _ (by exact h)]
    simp only [rolledFiles, hf]

open ElaVerif.BlockStore (scan u32) in
/-- after a complete rollback to `(wf, wo)` the directory scan finds exactly `(wf, wo)` -/
theorem scan_rolled (fs : Files) (wf wo : Nat) (hwo : wo < 4294967296)
    (h : let r := scan fs 0 (0, 0); r.1 > wf ∨ (r.1 = wf ∧ r.2 > wo)) :
    scan (rolledFiles fs wf wo (scan fs 0 (0, 0)).1) 0 (0, 0) = (wf, wo) := by
  obtain ⟨n, hall, hnone⟩ := first_gap fs
  have hs := scan_spec' fs n 0 (0, 0) hall hnone
  cases n with
  | zero =>
    simp only [if_true] at hs
    rw [hs] at h; simp only [] at h; omega
  | succ n =>
    simp only [Nat.add_one_ne_zero, if_false, Nat.zero_add, Nat.add_sub_cancel] at hs
    rw [hs] at h ⊢
    simp only [] at h ⊢
    have hwf : wf ≤ n := by omega
    obtain ⟨f, hf⟩ := hall wf (by omega)
    have hd : ∀ i, fileAt (delFiles wf (n - wf) fs) i = if wf < i ∧ i ≤ n then none else fileAt fs i := by
      intro i; rw [fileAt_delFiles]
      have : wf + (n - wf) = n := by omega
      rw [this]
    have hdw : fileAt (delFiles wf (n - wf) fs) wf = some f := by
      rw [hd]; rw [if_neg (by omega)]; exact hf
    have hR : rolledFiles fs wf wo n = setFile (delFiles wf (n - wf) fs) wf (some ((f ++ List.replicate (wo - f.length) 0).take wo)) := by
      simp only [rolledFiles, hdw, Option.getD_some]
    have hall' : ∀ j, j < wf + 1 → ∃ g, fileAt (rolledFiles fs wf wo n) j = some g := by
      intro j hj
      rw [hR]
      by_cases hjw : j = wf
      · subst hjw; rw [fileAt_setFile_same]; exact ⟨_, rfl⟩
      · rw [fileAt_setFile_other _ _ _ _ (by omega), hd, if_neg (by omega)]
        exact hall j (by omega)
    have hnone' : fileAt (rolledFiles fs wf wo n) (wf + 1) = none := by
      rw [hR, fileAt_setFile_other _ _ _ _ (by omega), hd]
      by_cases hlt : wf + 1 ≤ n
      · rw [if_pos ⟨by omega, hlt⟩]
      · rw [if_neg (by omega)]
        have : wf + 1 = n + 1 := by omega
        rw [this]; exact hnone
    rw [scan_spec' _ (wf + 1) 0 (0, 0) hall' hnone']
    simp only [Nat.add_one_ne_zero, if_false, Nat.zero_add, Nat.add_sub_cancel]
    rw [hR, fileAt_setFile_same]
    simp only [Option.getD_some, List.length_take, List.length_append, List.length_replicate]
    have : min wo (f.length + (wo - f.length)) = wo := by omega
    rw [this]
    unfold u32
    rw [Nat.mod_eq_of_lt hwo]

theorem DB_flush_flush (d : ElaVerif.Ffldb.DB) : d.flush.flush = d.flush := by
  unfold ElaVerif.Ffldb.DB.flush
  split
  · rfl
  · simp

end ElaVerif.Crash
