import ElaVerif.Model.Crash
import ElaVerif.Lemmas.BlockStore
/-!
Helper lemmas for C17: bytes below the write cursor survive appends (torn or
not) and the reconcile truncation; leveldb only moves by whole batches.
-/
namespace ElaVerif.Crash
open ElaVerif.BlockStore (Files Loc writeFile fileAt setFile truncateTo writeAt fileAt_setFile_same fileAt_setFile_other writeAt_end)
open ElaVerif.Ffldb (applyTo)

/-- the bytes of a location, if the file holds all of them -/
def regionOf (fs : Files) (loc : Loc) : Option Bytes :=
  (fileAt fs loc.file).bind fun f => if loc.off + loc.len ≤ f.length then some ((f.drop loc.off).take loc.len) else none

/-- `loc` lies entirely below the position (file `cf`, offset `co`) -/
def Below (cf co : Nat) (loc : Loc) : Prop :=
  loc.file < cf ∨ (loc.file = cf ∧ loc.off + loc.len ≤ co)

/-- the in-memory cursor sits at the end of its file (or the file does not exist yet) -/
def CurOK (fs : Files) (cf co : Nat) : Prop :=
  match fileAt fs cf with
  | some f => f.length = co
  | none => co = 0

/-- any write at the cursor — whole or torn — leaves every non-empty region below the cursor alone -/
theorem region_writeFile (fs : Files) (cf co : Nat) (data : Bytes) (loc : Loc)
    (hcur : CurOK fs cf co) (hb : Below cf co loc) (hlen : 0 < loc.len) :
    regionOf (writeFile fs cf co data) loc = regionOf fs loc := by
  unfold regionOf writeFile
  rcases hb with hb | ⟨hb1, hb2⟩
  · rw [fileAt_setFile_other _ _ _ _ (by omega)]
  · subst hb1
    rw [fileAt_setFile_same]
    unfold CurOK at hcur
    cases hf : fileAt fs loc.file with
    | none => rw [hf] at hcur; omega
    | some f =>
      rw [hf] at hcur
      simp only [Option.getD_some, Option.bind_some]
      rw [← hcur, writeAt_end]
      have h1 : loc.off + loc.len ≤ f.length := by omega
      simp only [h1, if_true, List.length_append]
      rw [if_pos (by omega), List.drop_append_of_le_length (by omega), List.take_append_of_le_length (by simp; omega)]

theorem fileAt_mapIdx (fs : Files) (g : Nat → Option Bytes → Option Bytes) (i : Nat) :
    fileAt (fs.mapIdx g) i = ((fs[i]?).map (g i)).join := by
  simp [fileAt, List.getElem?_mapIdx]

/-- the truncation done by `reconcileDB` leaves every region below the persisted cursor alone -/
theorem region_truncate (fs : Files) (wf wo hi : Nat) (loc : Loc) (f : Bytes)
    (hf : fileAt fs wf = some f) (hwo : wo ≤ f.length) (hb : Below wf wo loc) :
    regionOf (truncateTo fs wf wo hi) loc = regionOf fs loc := by
  unfold regionOf truncateTo
  simp only []
  have hkeep : ∀ i, i ≤ wf → fileAt (fs.mapIdx fun i f => if wf < i ∧ i ≤ hi then none else f) i = fileAt fs i := by
    intro i hi'
    rw [fileAt_mapIdx]
    simp only [fileAt]
    have : ¬ (wf < i ∧ i ≤ hi) := by omega
    cases fs[i]? <;> simp [this]
  rcases hb with hb | ⟨hb1, hb2⟩
  · rw [fileAt_setFile_other _ _ _ _ (by omega), hkeep _ (by omega)]
  · subst hb1
    rw [fileAt_setFile_same, hkeep _ (Nat.le_refl _), hf]
    simp only [Option.getD_some, Option.bind_some]
    have h0 : wo - f.length = 0 := by omega
    rw [h0]
    simp only [List.replicate_zero, List.append_nil, List.length_take]
    have h1 : loc.off + loc.len ≤ f.length := by omega
    rw [if_pos (by omega), if_pos h1, List.drop_take, List.take_take]
    rw [show min loc.len (wo - loc.off) = loc.len by omega]

/-! ### leveldb moves by whole batches only -/

theorem ldbBatch_spec (s : St) (p r : ElaVerif.OrdMap.Map) :
    ((ldbBatch s p r).2 = true → (ldbBatch s p r).1.db = s.db) ∧
    ((ldbBatch s p r).2 = false → (ldbBatch s p r).1.db = { s.db with ldb := applyTo s.db.ldb p r }) := by
  unfold ldbBatch
  rcases hit s.fs "commitTreaps.mid" with ⟨fs, dead⟩
  cases dead <;> simp

theorem flush_spec (s : St) :
    let L1 := applyTo s.db.ldb s.db.ckeys s.db.cremoves
    ((flush s).2 = true → (flush s).1.db = s.db ∨ (flush s).1.db = { s.db with ldb := L1 }) ∧
    ((flush s).2 = false → (flush s).1.db = { s.db with ldb := L1, ckeys := [], cremoves := [] }) := by
  unfold flush
  rcases hit s.fs "flush.afterSync" with ⟨fs, dead⟩
  cases dead with
  | true => simp
  | false =>
    simp only [Bool.false_eq_true, if_false]
    by_cases he : (s.db.ckeys.isEmpty && s.db.cremoves.isEmpty) = true
    · simp only [he, if_true]
      simp only [Bool.and_eq_true, List.isEmpty_iff] at he
      refine ⟨by simp, fun _ => ?_⟩
      simp only [he.1, he.2, applyTo, List.foldl_nil]
      cases hd : s.db with
      | mk ldb ck cr mx fa => simp [hd] at he ⊢; simp [he.1, he.2]
    · simp only [he, Bool.false_eq_true, if_false]
      have hb := ldbBatch_spec { s with fs := fs } s.db.ckeys s.db.cremoves
      rcases hlb : ldbBatch { s with fs := fs } s.db.ckeys s.db.cremoves with ⟨s2, dead2⟩
      rw [hlb] at hb
      cases dead2 with
      | true => simp at hb ⊢; left; exact hb
      | false =>
        simp only [Bool.false_eq_true, if_false] at hb ⊢
        have hdb : s2.db = { s.db with ldb := applyTo s.db.ldb s.db.ckeys s.db.cremoves } := by simpa using hb
        rcases hit s2.fs "flush.afterCommit" with ⟨fs3, dead3⟩
        cases dead3 with
        | true => simp [hdb]
        | false => simp [hdb]

/-! ### the reconciliation itself can be interrupted anywhere -/

theorem hit_files (fs : FS) (name : String) : (hit fs name).1.files = fs.files := by
  unfold hit
  cases fs.arm with
  | none => rfl
  | some a =>
    simp only []
    split
    · rfl
    · split <;> rfl

theorem rollbackDelete_fileAt (wf : Nat) : ∀ (n : Nat) (fs : FS) (i : Nat), i ≤ wf →
    fileAt (rollbackDelete wf n fs).1.files i = fileAt fs.files i := by
  intro n
  induction n with
  | zero => intro fs i _; rfl
  | succ n ih =>
    intro fs i hi
    simp only [rollbackDelete]
    rcases hh : hit { fs with files := setFile fs.files (wf + n + 1) none } "rollback.afterDelete" with ⟨fs1, dead⟩
    have hf1 : fs1.files = setFile fs.files (wf + n + 1) none := by
      have := hit_files { fs with files := setFile fs.files (wf + n + 1) none } "rollback.afterDelete"
      rw [hh] at this; exact this
    cases dead with
    | true => simp only [if_true]; rw [hf1, fileAt_setFile_other _ _ _ _ (by omega)]
    | false =>
      simp only [Bool.false_eq_true, if_false]
      rw [ih fs1 i hi, hf1, fileAt_setFile_other _ _ _ _ (by omega)]

theorem regionOf_congr (fs fs' : Files) (loc : Loc) (h : fileAt fs' loc.file = fileAt fs loc.file) :
    regionOf fs' loc = regionOf fs loc := by
  unfold regionOf; rw [h]

/-- **`handleRollback` can die at any of its crash points** (after each file deletion, before and
    after the truncation): at every such point, and when it completes, every byte range below the
    persisted cursor is what it was. -/
theorem rollback_keeps_records (fs : FS) (wf wo sf : Nat) (loc : Loc) (f : Bytes)
    (hf : fileAt fs.files wf = some f) (hwo : wo ≤ f.length) (hb : Below wf wo loc) :
    regionOf (rollback fs wf wo sf).1.files loc = regionOf fs.files loc := by
  have hle : loc.file ≤ wf := by rcases hb with h | h <;> omega
  unfold rollback
  rcases hd : rollbackDelete wf (sf - wf) fs with ⟨fs1, dead1⟩
  have h1 : ∀ i, i ≤ wf → fileAt fs1.files i = fileAt fs.files i := by
    intro i hi
    have := rollbackDelete_fileAt wf (sf - wf) fs i hi
    rw [hd] at this; exact this
  cases dead1 with
  | true => simp only [if_true]; exact regionOf_congr _ _ _ (h1 _ hle)
  | false =>
    simp only [Bool.false_eq_true, if_false]
    have hf1 : fileAt fs1.files wf = some f := by rw [h1 wf (Nat.le_refl _)]; exact hf
    simp only [hf1]
    rcases hh : hit fs1 "rollback.beforeTruncate" with ⟨fs2, dead2⟩
    have hf2 : fs2.files = fs1.files := by
      have := hit_files fs1 "rollback.beforeTruncate"; rw [hh] at this; exact this
    cases dead2 with
    | true => simp only [if_true]; rw [hf2]; exact regionOf_congr _ _ _ (h1 _ hle)
    | false =>
      simp only [Bool.false_eq_true, if_false]
      rw [hit_files]
      simp only [hf2, hf1, Option.getD_some]
      have h0 : wo - f.length = 0 := by omega
      rw [h0]
      simp only [List.replicate_zero, List.append_nil]
      rcases hb with hb | ⟨hb1, hb2⟩
      · rw [← regionOf_congr fs.files fs1.files loc (h1 _ hle)]
        exact regionOf_congr _ _ _ (fileAt_setFile_other _ _ _ _ (by omega))
      · unfold regionOf
        rw [hb1, fileAt_setFile_same, hf]
        simp only [Option.bind_some, List.length_take]
        have h2 : loc.off + loc.len ≤ f.length := by omega
        rw [if_pos (by omega), if_pos h2, List.drop_take, List.take_take]
        rw [show min loc.len (wo - loc.off) = loc.len by omega]

end ElaVerif.Crash
