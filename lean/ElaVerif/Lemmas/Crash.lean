import ElaVerif.Model.Crash
import ElaVerif.Lemmas.BlockStore
/-!
Helper lemmas for C17: bytes below the write cursor survive appends (torn or
not) and the reconcile truncation; leveldb only moves by whole batches.
-/
namespace ElaVerif.Crash
open ElaVerif.BlockStore (Files Loc writeFile fileAt setFile truncateTo writeAt fileAt_setFile_same fileAt_setFile_other writeAt_end)
open ElaVerif.Ffldb (applyTo)

/-- the bytes of a location, if the file holds all of them -/
def regionOf (fs : Files) (loc : Loc) : Option Bytes :=
  (fileAt fs loc.file).bind fun f => if loc.off + loc.len ≤ f.length then some ((f.drop loc.off).take loc.len) else none

/-- `loc` lies entirely below the position (file `cf`, offset `co`) -/
def Below (cf co : Nat) (loc : Loc) : Prop :=
  loc.file < cf ∨ (loc.file = cf ∧ loc.off + loc.len ≤ co)

/-- the in-memory cursor sits at the end of its file (or the file does not exist yet) -/
def CurOK (fs : Files) (cf co : Nat) : Prop :=
  match fileAt fs cf with
  | some f => f.length = co
  | none => co = 0

/-- any write at the cursor — whole or torn — leaves every non-empty region below the cursor alone -/
theorem region_writeFile (fs : Files) (cf co : Nat) (data : Bytes) (loc : Loc)
    (hcur : CurOK fs cf co) (hb : Below cf co loc) (hlen : 0 < loc.len) :
    regionOf (writeFile fs cf co data) loc = regionOf fs loc := by
  unfold regionOf writeFile
  rcases hb with hb | ⟨hb1, hb2⟩
  · rw [fileAt_setFile_other _ _ _ _ (by omega)]
  · subst hb1
    rw [fileAt_setFile_same]
    unfold CurOK at hcur
    cases hf : fileAt fs loc.file with
    | none => rw [hf] at hcur; omega
    | some f =>
      rw [hf] at hcur
      simp only [Option.getD_some, Option.bind_some]
      rw [← hcur, writeAt_end]
      have h1 : loc.off + loc.len ≤ f.length := by omega
      simp only [h1, if_true, List.length_append]
      rw [if_pos (by omega), List.drop_append_of_le_length (by omega), List.take_append_of_le_length (by simp; omega)]

theorem fileAt_mapIdx (fs : Files) (g : Nat → Option Bytes → Option Bytes) (i : Nat) :
    fileAt (fs.mapIdx g) i = ((fs[i]?).map (g i)).join := by
  simp [fileAt, List.getElem?_mapIdx]

/-- the truncation done by `reconcileDB` leaves every region below the persisted cursor alone -/
theorem region_truncate (fs : Files) (wf wo hi : Nat) (loc : Loc) (f : Bytes)
    (hf : fileAt fs wf = some f) (hwo : wo ≤ f.length) (hb : Below wf wo loc) :
    regionOf (truncateTo fs wf wo hi) loc = regionOf fs loc := by
  unfold regionOf truncateTo
  simp only []
  have hkeep : ∀ i, i ≤ wf → fileAt (fs.mapIdx fun i f => if wf < i ∧ i ≤ hi then none else f) i = fileAt fs i := by
    intro i hi'
    rw [fileAt_mapIdx]
    simp only [fileAt]
    have : ¬ (wf < i ∧ i ≤ hi) := by omega
    cases fs[i]? <;> simp [this]
  rcases hb with hb | ⟨hb1, hb2⟩
  · rw [fileAt_setFile_other _ _ _ _ (by omega), hkeep _ (by omega)]
  · subst hb1
    rw [fileAt_setFile_same, hkeep _ (Nat.le_refl _), hf]
    simp only [Option.getD_some, Option.bind_some]
    have h0 : wo - f.length = 0 := by omega
    rw [h0]
    simp only [List.replicate_zero, List.append_nil, List.length_take]
    have h1 : loc.off + loc.len ≤ f.length := by omega
    rw [if_pos (by omega), if_pos h1, List.drop_take, List.take_take]
    rw [show min loc.len (wo - loc.off) = loc.len by omega]

/-! ### leveldb moves by whole batches only -/

theorem ldbBatch_spec (s : St) (p r : ElaVerif.OrdMap.Map) :
    ((ldbBatch s p r).2 = true → (ldbBatch s p r).1.db = s.db) ∧
    ((ldbBatch s p r).2 = false → (ldbBatch s p r).1.db = { s.db with ldb := applyTo s.db.ldb p r }) := by
  unfold ldbBatch
  rcases hit s.fs "commitTreaps.mid" with ⟨fs, dead⟩
  cases dead <;> simp

theorem flush_spec (s : St) :
    let L1 := applyTo s.db.ldb s.db.ckeys s.db.cremoves
    ((flush s).2 = true → (flush s).1.db = s.db ∨ (flush s).1.db = { s.db with ldb := L1 }) ∧
    ((flush s).2 = false → (flush s).1.db = { s.db with ldb := L1, ckeys := [], cremoves := [] }) := by
  unfold flush
  rcases hit s.fs "flush.afterSync" with ⟨fs, dead⟩
  cases dead with
  | true => simp
  | false =>
    simp only [Bool.false_eq_true, if_false]
    by_cases he : (s.db.ckeys.isEmpty && s.db.cremoves.isEmpty) = true
    · simp only [he, if_true]
      simp only [Bool.and_eq_true, List.isEmpty_iff] at he
      refine ⟨by simp, fun _ => ?_⟩
      simp only [he.1, he.2, applyTo, List.foldl_nil]
      cases hd : s.db with
      | mk ldb ck cr mx fa => simp [hd] at he ⊢; simp [he.1, he.2]
    · simp only [he, Bool.false_eq_true, if_false]
      have hb := ldbBatch_spec { s with fs := fs } s.db.ckeys s.db.cremoves
      rcases hlb : ldbBatch { s with fs := fs } s.db.ckeys s.db.cremoves with ⟨s2, dead2⟩
      rw [hlb] at hb
      cases dead2 with
      | true => simp at hb ⊢; left; exact hb
      | false =>
        simp only [Bool.false_eq_true, if_false] at hb ⊢
        have hdb : s2.db = { s.db with ldb := applyTo s.db.ldb s.db.ckeys s.db.cremoves } := by simpa using hb
        rcases hit s2.fs "flush.afterCommit" with ⟨fs3, dead3⟩
        cases dead3 with
        | true => simp [hdb]
        | false => simp [hdb]

end ElaVerif.Crash
