import ElaVerif.Model.Ffldb
import ElaVerif.Lemmas.Treap
/-!
Helper lemmas for C16: lookups in folds of inserts / erases over sorted maps.
-/
namespace ElaVerif.Ffldb
open ElaVerif.OrdMap
open ElaVerif.Treap (cmp_cases cmp_eq cmp_trans cmp_gt_of_lt cmp_lt_of_gt cmp_self
  sorted_ins sorted_del find_ins_same find_ins_other find_del_same find_del_other)

theorem sorted_tail {a : Bytes × Bytes} {m : Map} (h : Sorted (a :: m)) : Sorted m := by
  unfold Sorted at h ⊢; exact (List.pairwise_cons.mp h).2

theorem find_none_of_le_head {k : Bytes} {a : Bytes × Bytes} {m : Map} (h : Sorted (a :: m))
    (hk : compare k a.1 = .lt ∨ compare k a.1 = .eq) : find k m = none := by
  unfold Sorted at h
  have h1 := (List.pairwise_cons.mp h).1
  cases m with
  | nil => rfl
  | cons b m =>
    obtain ⟨bk, bv⟩ := b
    have hab : compare a.1 bk = .lt := h1 (bk, bv) (by simp)
    have : compare k bk = .lt := by
      rcases hk with hk | hk
      · exact cmp_trans hk hab
      · rw [cmp_eq hk]; exact hab
    simp [find, this]

theorem sorted_foldl_ins (puts : Map) : ∀ m, Sorted m → Sorted (puts.foldl (fun m e => ins e.1 e.2 m) m) := by
  induction puts with
  | nil => intro m h; exact h
  | cons a puts ih => intro m h; exact ih _ (sorted_ins h)

theorem sorted_foldl_del (removes : Map) : ∀ m, Sorted m → Sorted (removes.foldl (fun m e => del e.1 m) m) := by
  induction removes with
  | nil => intro m h; exact h
  | cons a removes ih => intro m h; exact ih _ (sorted_del h)

/-- lookups after a batch of inserts -/
theorem find_foldl_ins (k : Bytes) (puts : Map) : ∀ m, Sorted m → Sorted puts →
    find k (puts.foldl (fun m e => ins e.1 e.2 m) m) =
      match find k puts with
      | some v => some v
      | none => find k m := by
  induction puts with
  | nil => intro m _ _; simp [find]
  | cons a puts ih =>
    obtain ⟨ak, av⟩ := a
    intro m hm hp
    simp only [List.foldl_cons]
    rw [ih _ (sorted_ins hm) (sorted_tail hp)]
    rcases cmp_cases k ak with hc | hc | hc
    · have hn := find_none_of_le_head hp (Or.inl hc)
      have hne : k ≠ ak := by intro e; rw [e, cmp_self] at hc; cases hc
      simp only [find, hc, hn]
      exact find_ins_other av hm hne
    · have hn := find_none_of_le_head hp (Or.inr hc)
      have := cmp_eq hc; subst this
      simp only [find, hc, hn]
      exact find_ins_same k av m
    · have hne : k ≠ ak := by intro e; rw [e, cmp_self] at hc; cases hc
      simp only [find, hc]
      cases find k puts with
      | some v => rfl
      | none => exact find_ins_other av hm hne

/-- lookups after a batch of erases -/
theorem find_foldl_del (k : Bytes) (removes : Map) : ∀ m, Sorted m → Sorted removes →
    find k (removes.foldl (fun m e => del e.1 m) m) = if has removes k then none else find k m := by
  induction removes with
  | nil => intro m _ _; simp [has, find]
  | cons a removes ih =>
    obtain ⟨ak, av⟩ := a
    intro m hm hr
    simp only [List.foldl_cons]
    rw [ih _ (sorted_del hm) (sorted_tail hr)]
    rcases cmp_cases k ak with hc | hc | hc
    · have hn := find_none_of_le_head hr (Or.inl hc)
      have hne : k ≠ ak := by intro e; rw [e, cmp_self] at hc; cases hc
      simp only [has, find, hc, hn, Option.isSome_none, Bool.false_eq_true, if_false]
      exact find_del_other hm hne
    · have hn := find_none_of_le_head hr (Or.inr hc)
      have := cmp_eq hc; subst this
      simp only [has, find, hc, hn, Option.isSome_none, Option.isSome_some, Bool.false_eq_true, if_false, if_true]
      exact find_del_same hm
    · have hne : k ≠ ak := by intro e; rw [e, cmp_self] at hc; cases hc
      simp only [has, find, hc]
      by_cases hh : (find k removes).isSome = true
      · simp [hh]
      · simp only [hh, Bool.false_eq_true, if_false]
        exact find_del_other hm hne

theorem sorted_applyTo {m puts removes : Map} (hm : Sorted m) : Sorted (applyTo m puts removes) :=
  sorted_foldl_del _ _ (sorted_foldl_ins _ _ hm)

/-- what a reader of `base` overlaid with `puts` and `removes` sees -/
theorem find_applyTo (k : Bytes) {m puts removes : Map} (hm : Sorted m) (hp : Sorted puts) (hr : Sorted removes) :
    find k (applyTo m puts removes) =
      if has removes k then none
      else match find k puts with
        | some v => some v
        | none => find k m := by
  unfold applyTo
  rw [find_foldl_del k removes _ (sorted_foldl_ins _ _ hm) hr, find_foldl_ins k puts m hm hp]

/-- the two folds of `commitTx` run independently -/
theorem fold_pairs_put (p : Map) : ∀ (cr ck : Map),
    p.foldl (fun (acc : Map × Map) e => (del e.1 acc.1, ins e.1 e.2 acc.2)) (cr, ck) =
      (p.foldl (fun m e => del e.1 m) cr, p.foldl (fun m e => ins e.1 e.2 m) ck) := by
  induction p with
  | nil => intro _ _; rfl
  | cons a p ih => intro cr ck; simp only [List.foldl_cons]; exact ih _ _

theorem fold_pairs_rem (p : Map) : ∀ (ck cr : Map),
    p.foldl (fun (acc : Map × Map) e => (del e.1 acc.1, ins e.1 [] acc.2)) (ck, cr) =
      (p.foldl (fun m e => del e.1 m) ck, p.foldl (fun m e => ins e.1 [] m) cr) := by
  induction p with
  | nil => intro _ _; rfl
  | cons a p ih => intro ck cr; simp only [List.foldl_cons]; exact ih _ _

/-- presence after a batch of inserts of keys with empty values -/
theorem has_foldl_insEmpty (k : Bytes) (p : Map) : ∀ m, Sorted m → Sorted p →
    has (p.foldl (fun m e => ins e.1 [] m) m) k = (has p k || has m k) := by
  induction p with
  | nil => intro m _ _; simp [has, find]
  | cons a p ih =>
    obtain ⟨ak, av⟩ := a
    intro m hm hp
    simp only [List.foldl_cons]
    rw [ih _ (sorted_ins hm) (sorted_tail hp)]
    rcases cmp_cases k ak with hc | hc | hc
    · have hn := find_none_of_le_head hp (Or.inl hc)
      have hne : k ≠ ak := by intro e; rw [e, cmp_self] at hc; cases hc
      simp only [has, find, hc, hn, find_ins_other [] hm hne]
    · have hn := find_none_of_le_head hp (Or.inr hc)
      have := cmp_eq hc; subst this
      simp [has, find, hc, hn, find_ins_same]
    · have hne : k ≠ ak := by intro e; rw [e, cmp_self] at hc; cases hc
      simp only [has, find, hc, find_ins_other [] hm hne]

end ElaVerif.Ffldb
