import ElaVerif.Model.PartialMerkle
import ElaVerif.Lemmas.Merkle
/-!
Helper lemmas for the partial-merkle-tree model (C08).
-/
namespace ElaVerif.PMT
open ElaVerif.Merkle

variable {α : Type}

/-! ### tree widths -/

theorem width_eq (n h : Nat) : width n h = (n + 2 ^ h - 1) / 2 ^ h := by
  simp [width, Nat.shiftRight_eq_div_pow]

theorem width_succ (n h : Nat) : width n (h + 1) = (width n h + 1) / 2 := by
  rw [width_eq, width_eq]
  have hp : 0 < 2 ^ h := Nat.two_pow_pos h
  have e1 : (n + 2 ^ h - 1) / 2 ^ h + 1 = (n + 2 ^ h - 1 + 2 ^ h) / 2 ^ h := by
    rw [Nat.add_div_right _ hp]
  rw [e1, Nat.div_div_eq_div_mul, Nat.pow_succ]
  congr 1
  omega

theorem width_zero (n : Nat) : width n 0 = n := by simp [width_eq]

theorem lt_width_iff (n h p : Nat) : p < width n h ↔ p * 2 ^ h < n := by
  rw [width_eq]
  have hp : 0 < 2 ^ h := Nat.two_pow_pos h
  rw [Nat.lt_div_iff_mul_lt hp]
  omega

/-! ### segments: the leaves below node (h, pos) -/

/-- the part of a leaf-indexed list that lies below node `(h, pos)` -/
def seg {β : Type} (l : List β) (h pos : Nat) : List β := (l.drop (pos * 2 ^ h)).take (2 ^ h)

theorem seg_succ {β : Type} (l : List β) (h pos : Nat) :
    seg l (h + 1) pos = seg l h (2 * pos) ++ seg l h (2 * pos + 1) := by
  unfold seg
  have e1 : pos * 2 ^ (h + 1) = 2 * pos * 2 ^ h := by rw [Nat.pow_succ]; ac_rfl
  have e2 : (2 * pos + 1) * 2 ^ h = 2 * pos * 2 ^ h + 2 ^ h := by rw [Nat.add_mul]; omega
  have e3 : 2 ^ (h + 1) = 2 ^ h + 2 ^ h := by rw [Nat.pow_succ]; omega
  rw [e1, e2, e3, List.take_add, List.drop_drop]

theorem seg_zero {β : Type} (l : List β) (pos : Nat) : seg l 0 pos = (l[pos]?).toList := by
  unfold seg
  simp only [Nat.pow_zero, Nat.mul_one]
  cases h : l[pos]? with
  | none =>
    have : l.length ≤ pos := by
      rcases Nat.lt_or_ge pos l.length with hlt | hge
      · rw [List.getElem?_eq_getElem hlt] at h; cases h
      · exact hge
    simp [List.drop_eq_nil_of_le this]
  | some x =>
    have hlt : pos < l.length := by
      rcases Nat.lt_or_ge pos l.length with hlt | hge
      · exact hlt
      · rw [List.getElem?_eq_none hge] at h; cases h
    rw [List.getElem?_eq_getElem hlt] at h
    cases h
    rw [List.drop_eq_getElem_cons hlt]
    simp [List.take]

/-! ### soundness of the recursive parser -/

theorem extract_sound [DecidableEq α] {H : α → α → α} (hinj : Injective2 H) (txs : List α) :
    ∀ (h pos : Nat) (bits : List Bool) (hashes : List α) (s : Sub α) (x : α),
      extract H txs.length h pos bits hashes = .ok s → calcHash H txs h pos = some x → s.hash = x →
      s.ids.Sublist (seg txs h pos)
  | 0, pos, bits, hashes, s, x, he, hc, hx => by
    cases hashes with
    | nil => simp [extract] at he
    | cons y hs =>
      cases bits with
      | nil => simp [extract] at he
      | cons b bs =>
        simp only [extract, Except.ok.injEq] at he
        subst he
        simp only [calcHash] at hc
        rw [seg_zero, hc]
        simp only at hx
        subst hx
        cases b <;> simp
  | h + 1, pos, bits, hashes, s, x, he, hc, hx => by
    cases hashes with
    | nil => simp [extract] at he
    | cons y hs =>
      cases bits with
      | nil => simp [extract] at he
      | cons b bs =>
        cases b with
        | false =>
          simp only [extract, Except.ok.injEq] at he
          subst he
          simp
        | true =>
          simp only [extract] at he
          cases hl : extract H txs.length h (2 * pos) bs (y :: hs) with
          | error e => simp [hl] at he
          | ok l =>
            simp only [hl] at he
            simp only [calcHash] at hc
            cases hcl : calcHash H txs h (2 * pos) with
            | none => simp [hcl] at hc
            | some cl =>
              simp only [hcl] at hc
              rw [seg_succ]
              by_cases hw : 2 * pos + 1 < width txs.length h
              · simp only [hw, if_true] at he hc
                cases hr : extract H txs.length h (2 * pos + 1) l.bits l.hashes with
                | error e => simp [hr] at he
                | ok r =>
                  simp only [hr] at he
                  cases hcr : calcHash H txs h (2 * pos + 1) with
                  | none => simp [hcr] at hc
                  | some cr =>
                    simp only [hcr, Option.some.injEq] at hc
                    by_cases hd : l.hash = r.hash
                    · simp [hd] at he
                    · simp only [hd, if_false, Except.ok.injEq] at he
                      subst he
                      simp only at hx
                      have := hinj _ _ _ _ (hx.trans hc.symm)
                      exact List.Sublist.append
                        (extract_sound hinj txs h (2 * pos) _ _ l cl hl hcl this.1)
                        (extract_sound hinj txs h (2 * pos + 1) _ _ r cr hr hcr this.2)
              · simp only [hw, if_false, Except.ok.injEq, Option.some.injEq] at he hc
                subst he
                simp only at hx
                have := hinj _ _ _ _ (hx.trans hc.symm)
                exact (extract_sound hinj txs h (2 * pos) _ _ l cl hl hcl this.1).trans
                  (List.sublist_append_left _ _)

/-! ### completeness: the recursive parser inverts the recursive builder -/

theorem calcHash_some (H : α → α → α) (txs : List α) : ∀ (h pos : Nat), pos < width txs.length h →
    ∃ x, calcHash H txs h pos = some x
  | 0, pos, hp => by
      rw [width_zero] at hp
      exact ⟨txs[pos], by simp [calcHash, List.getElem?_eq_getElem hp]⟩
  | h + 1, pos, hp => by
      have hw := width_succ txs.length h
      obtain ⟨l, hl⟩ := calcHash_some H txs h (2 * pos) (by omega)
      simp only [calcHash, hl]
      by_cases hr : 2 * pos + 1 < width txs.length h
      · obtain ⟨r, hr'⟩ := calcHash_some H txs h (2 * pos + 1) hr
        simp only [hr, if_true, hr']
        exact ⟨_, rfl⟩
      · simp only [hr, if_false]
        exact ⟨_, rfl⟩

/-- under an injective node hash the hash of node (h, p) determines its leftmost leaf -/
theorem calcHash_leftmost {H : α → α → α} (hinj : Injective2 H) (txs : List α) :
    ∀ (h p q : Nat) (x : α), calcHash H txs h p = some x → calcHash H txs h q = some x →
      ∃ v, txs[p * 2 ^ h]? = some v ∧ txs[q * 2 ^ h]? = some v
  | 0, p, q, x, hp, hq => by
      simp only [calcHash] at hp hq
      exact ⟨x, by simpa using hp, by simpa using hq⟩
  | h + 1, p, q, x, hp, hq => by
      simp only [calcHash] at hp hq
      cases hl : calcHash H txs h (2 * p) with
      | none => simp [hl] at hp
      | some l =>
        cases hl' : calcHash H txs h (2 * q) with
        | none => simp [hl'] at hq
        | some l' =>
          simp only [hl] at hp
          simp only [hl'] at hq
          have e : l = l' := by
            by_cases h1 : 2 * p + 1 < width txs.length h
            · simp only [h1, if_true] at hp
              cases hr : calcHash H txs h (2 * p + 1) with
              | none => simp [hr] at hp
              | some r =>
                simp only [hr, Option.some.injEq] at hp
                by_cases h2 : 2 * q + 1 < width txs.length h
                · simp only [h2, if_true] at hq
                  cases hr' : calcHash H txs h (2 * q + 1) with
                  | none => simp [hr'] at hq
                  | some r' =>
                    simp only [hr', Option.some.injEq] at hq
                    exact (hinj _ _ _ _ (hp.trans hq.symm)).1
                · simp only [h2, if_false, Option.some.injEq] at hq
                  exact (hinj _ _ _ _ (hp.trans hq.symm)).1
            · simp only [h1, if_false, Option.some.injEq] at hp
              by_cases h2 : 2 * q + 1 < width txs.length h
              · simp only [h2, if_true] at hq
                cases hr' : calcHash H txs h (2 * q + 1) with
                | none => simp [hr'] at hq
                | some r' =>
                  simp only [hr', Option.some.injEq] at hq
                  exact (hinj _ _ _ _ (hp.trans hq.symm)).1
              · simp only [h2, if_false, Option.some.injEq] at hq
                exact (hinj _ _ _ _ (hp.trans hq.symm)).1
          subst e
          obtain ⟨v, h1, h2⟩ := calcHash_leftmost hinj txs h (2 * p) (2 * q) l hl hl'
          refine ⟨v, ?_, ?_⟩
          · rw [show p * 2 ^ (h + 1) = 2 * p * 2 ^ h by rw [Nat.pow_succ]; ac_rfl]; exact h1
          · rw [show q * 2 ^ (h + 1) = 2 * q * 2 ^ h by rw [Nat.pow_succ]; ac_rfl]; exact h2

theorem calcHash_pos_inj {H : α → α → α} (hinj : Injective2 H) (txs : List α) (hnd : txs.Nodup)
    (h p q : Nat) (x : α) (hp : calcHash H txs h p = some x) (hq : calcHash H txs h q = some x) : p = q := by
  obtain ⟨v, h1, h2⟩ := calcHash_leftmost hinj txs h p q x hp hq
  have hlt : p * 2 ^ h < txs.length := by
    rcases Nat.lt_or_ge (p * 2 ^ h) txs.length with hlt | hge
    · exact hlt
    · rw [List.getElem?_eq_none hge] at h1; cases h1
  have := (List.getElem?_inj hlt hnd).mp (h1.trans h2.symm)
  exact Nat.eq_of_mul_eq_mul_right (Nat.two_pow_pos h) this

/-- the matched transaction ids below node (h, pos), in block order -/
def matchedIds (txs : List α) (matched : List Bool) : Nat → Nat → List α
  | 0, pos => if matched[pos]?.getD false then (txs[pos]?).toList else []
  | h + 1, pos => matchedIds txs matched h (2 * pos) ++ matchedIds txs matched h (2 * pos + 1)

theorem isParent_eq (matched : List Bool) (h pos : Nat) :
    isParent matched h pos = (seg matched h pos).any id := by
  simp [isParent, seg, Nat.shiftLeft_eq]

theorem isParent_succ (matched : List Bool) (h pos : Nat) :
    isParent matched (h + 1) pos = (isParent matched h (2 * pos) || isParent matched h (2 * pos + 1)) := by
  rw [isParent_eq, isParent_eq, isParent_eq, seg_succ, List.any_append]

theorem isParent_zero (matched : List Bool) (pos : Nat) :
    isParent matched 0 pos = matched[pos]?.getD false := by
  rw [isParent_eq, seg_zero]
  cases matched[pos]? <;> simp

theorem matchedIds_nil_of_not_parent (txs : List α) (matched : List Bool) : ∀ (h pos : Nat),
    isParent matched h pos = false → matchedIds txs matched h pos = []
  | 0, pos, hp => by
      rw [isParent_zero] at hp
      simp [matchedIds, hp]
  | h + 1, pos, hp => by
      rw [isParent_succ, Bool.or_eq_false_iff] at hp
      simp [matchedIds, matchedIds_nil_of_not_parent txs matched h _ hp.1,
        matchedIds_nil_of_not_parent txs matched h _ hp.2]

theorem matchedIds_nil_of_out (txs : List α) (matched : List Bool) : ∀ (h pos : Nat),
    txs.length ≤ pos * 2 ^ h → matchedIds txs matched h pos = []
  | 0, pos, hp => by
      simp only [Nat.pow_zero, Nat.mul_one] at hp
      simp [matchedIds, List.getElem?_eq_none hp]
  | h + 1, pos, hp => by
      have e : pos * 2 ^ (h + 1) = 2 * pos * 2 ^ h := by rw [Nat.pow_succ]; ac_rfl
      have e2 : (2 * pos + 1) * 2 ^ h = 2 * pos * 2 ^ h + 2 ^ h := by rw [Nat.add_mul]; omega
      have := Nat.two_pow_pos h
      simp [matchedIds, matchedIds_nil_of_out txs matched h (2 * pos) (by omega),
        matchedIds_nil_of_out txs matched h (2 * pos + 1) (by omega)]

theorem isParent_false_get (matched : List Bool) : ∀ (h pos i : Nat), isParent matched h pos = false →
    i / 2 ^ h = pos → matched[i]?.getD false = false
  | 0, pos, i, hp, hi => by
      simp only [Nat.pow_zero, Nat.div_one] at hi
      subst hi
      rw [isParent_zero] at hp; exact hp
  | h + 1, pos, i, hp, hi => by
      rw [isParent_succ, Bool.or_eq_false_iff] at hp
      have hc : i / 2 ^ h / 2 = pos := by rw [Nat.div_div_eq_div_mul, ← Nat.pow_succ]; exact hi
      rcases Nat.mod_two_eq_zero_or_one (i / 2 ^ h) with h0 | h1
      · exact isParent_false_get matched h (2 * pos) i hp.1 (by omega)
      · exact isParent_false_get matched h (2 * pos + 1) i hp.2 (by omega)

theorem build_hashes_ne_nil (H : α → α → α) (txs : List α) (matched : List Bool) : ∀ (h pos : Nat),
    (build H txs matched h pos).2 ≠ []
  | 0, pos => by simp [build]
  | h + 1, pos => by
      simp only [build]
      split
      · simp
      · have := build_hashes_ne_nil H txs matched h (2 * pos)
        split <;> simp [this]

/-- **completeness of the recursive pair**: parsing what `build` emitted for node (h, pos) — followed
    by anything — yields the node's hash and exactly the matched ids below it, and leaves the rest. -/
theorem extract_build [DecidableEq α] {H : α → α → α} (hinj : Injective2 H) (txs : List α)
    (matched : List Bool) (hnd : txs.Nodup) :
    ∀ (h pos : Nat), pos < width txs.length h →
      ∃ (x : α) (hs : List α), calcHash H txs h pos = some x ∧
        (build H txs matched h pos).2 = hs.map some ∧
        ∀ (B : List Bool) (Hs : List α), ∃ s,
          extract H txs.length h pos ((build H txs matched h pos).1 ++ B) (hs ++ Hs) = .ok s ∧
          s.hash = x ∧ s.ids = matchedIds txs matched h pos ∧ s.bits = B ∧ s.hashes = Hs ∧
          (∀ (i : Nat) (xi : α), i / 2 ^ h = pos → matched[i]?.getD false = true → txs[i]? = some xi →
            ((0, i), xi) ∈ s.nodes)
  | 0, pos, hp => by
      obtain ⟨x, hx⟩ := calcHash_some H txs 0 pos hp
      refine ⟨x, [x], hx, by simp [build, hx], ?_⟩
      intro B Hs
      have hx' : txs[pos]? = some x := by simpa [calcHash] using hx
      refine ⟨_, by simp only [build, List.cons_append, List.nil_append, extract]; rfl, rfl, ?_, rfl, rfl, ?_⟩
      · simp only [isParent_zero, matchedIds, hx', Option.toList_some]
      · intro i xi hi _ hxi
        simp only [Nat.pow_zero, Nat.div_one] at hi
        subst hi
        rw [hx'] at hxi
        cases hxi
        simp
  | h + 1, pos, hp => by
      obtain ⟨x, hx⟩ := calcHash_some H txs (h + 1) pos hp
      have hw := width_succ txs.length h
      by_cases hpar : isParent matched (h + 1) pos = true
      · -- descended node
        obtain ⟨xl, hsl, hcl, hbl, hel⟩ := extract_build hinj txs matched hnd h (2 * pos) (by omega)
        have hne_l : hsl ≠ [] := by
          intro e
          have := build_hashes_ne_nil H txs matched h (2 * pos)
          rw [hbl, e] at this
          exact this rfl
        obtain ⟨y, ys, hys⟩ : ∃ y ys, hsl = y :: ys := by
          cases hsl with
          | nil => exact absurd rfl hne_l
          | cons y ys => exact ⟨y, ys, rfl⟩
        by_cases hr : 2 * pos + 1 < width txs.length h
        · obtain ⟨xr, hsr, hcr, hbr, her⟩ := extract_build hinj txs matched hnd h (2 * pos + 1) hr
          have hxe : x = H xl xr := by
            simp only [calcHash, hcl, hr, if_true, hcr, Option.some.injEq] at hx
            exact hx.symm
          refine ⟨x, hsl ++ hsr, hx, by simp [build, hpar, hr, hbl, hbr], ?_⟩
          intro B Hs
          obtain ⟨sl, hel', hl1, hl2, hl3, hl4, hl5⟩ := hel ((build H txs matched h (2 * pos + 1)).1 ++ B) (hsr ++ Hs)
          obtain ⟨sr, her', hr1, hr2, hr3, hr4, hr5⟩ := her B Hs
          have hne : xl ≠ xr := by
            intro e
            have := calcHash_pos_inj hinj txs hnd h (2 * pos) (2 * pos + 1) xl hcl (e ▸ hcr)
            omega
          subst hys
          simp only [List.cons_append, List.append_assoc] at hel'
          refine ⟨⟨H sl.hash sr.hash, sl.ids ++ sr.ids,
            sl.nodes ++ sr.nodes ++ [((h + 1, pos), H sl.hash sr.hash)], sr.bits, sr.hashes⟩, ?_, ?_⟩
          · simp only [build, hpar, Bool.not_true, Bool.false_eq_true, if_false, hr, if_true,
              List.cons_append, List.append_assoc, extract]
            rw [hel']
            simp only [hl3, hl4, her', hl1, hr1, hne, if_false]
          · refine ⟨by simp only [hxe, hl1, hr1], by simp only [hl2, hr2, matchedIds], hr3, hr4, ?_⟩
            intro i xi hi hm hxi
            have hc : i / 2 ^ h / 2 = pos := by rw [Nat.div_div_eq_div_mul, ← Nat.pow_succ]; exact hi
            simp only [List.mem_append, List.mem_singleton]
            rcases Nat.mod_two_eq_zero_or_one (i / 2 ^ h) with h0 | h1
            · exact Or.inl (Or.inl (hl5 i xi (by omega) hm hxi))
            · exact Or.inl (Or.inr (hr5 i xi (by omega) hm hxi))
        · have hxe : x = H xl xl := by
            simp only [calcHash, hcl, hr, if_false, Option.some.injEq] at hx
            exact hx.symm
          refine ⟨x, hsl, hx, by simp [build, hpar, hr, hbl], ?_⟩
          intro B Hs
          obtain ⟨sl, hel', hl1, hl2, hl3, hl4, hl5⟩ := hel B Hs
          have hout : matchedIds txs matched h (2 * pos + 1) = [] :=
            matchedIds_nil_of_out txs matched h _ (by rw [lt_width_iff] at hr; omega)
          subst hys
          simp only [List.cons_append] at hel'
          refine ⟨⟨H sl.hash sl.hash, sl.ids, sl.nodes ++ [((h + 1, pos), H sl.hash sl.hash)],
            sl.bits, sl.hashes⟩, ?_, ?_⟩
          · simp only [build, hpar, Bool.not_true, Bool.false_eq_true, if_false, hr,
              List.cons_append, extract]
            rw [hel']
          · refine ⟨by simp only [hxe, hl1], by simp only [hl2, matchedIds, hout, List.append_nil], hl3, hl4, ?_⟩
            intro i xi hi hm hxi
            have hc : i / 2 ^ h / 2 = pos := by rw [Nat.div_div_eq_div_mul, ← Nat.pow_succ]; exact hi
            simp only [List.mem_append, List.mem_singleton]
            rcases Nat.mod_two_eq_zero_or_one (i / 2 ^ h) with h0 | h1
            · exact Or.inl (hl5 i xi (by omega) hm hxi)
            · exfalso
              have hlt : i < txs.length := by
                rcases Nat.lt_or_ge i txs.length with hlt | hge
                · exact hlt
                · rw [List.getElem?_eq_none hge] at hxi; cases hxi
              have h2 : ¬ (2 * pos + 1) * 2 ^ h < txs.length := fun hh => hr ((lt_width_iff _ _ _).mpr hh)
              have h3 : i / 2 ^ h * 2 ^ h ≤ i := Nat.div_mul_le_self i (2 ^ h)
              have h4 : i / 2 ^ h = 2 * pos + 1 := by omega
              rw [h4] at h3
              omega
      · -- pruned node: one bit, one hash
        have hpar' : isParent matched (h + 1) pos = false := by
          cases hq : isParent matched (h + 1) pos with
          | true => exact absurd hq hpar
          | false => rfl
        refine ⟨x, [x], hx, by simp [build, hpar', hx], ?_⟩
        intro B Hs
        refine ⟨_, by simp only [build, hpar', Bool.not_false, if_true, List.cons_append,
          List.nil_append, extract]; rfl, rfl, ?_, rfl, rfl, ?_⟩
        · simp only [matchedIds_nil_of_not_parent txs matched (h + 1) pos hpar']
        · intro i xi hi hm _
          rw [isParent_false_get matched (h + 1) pos i hpar' hi] at hm
          cases hm

/-! ### the stack machine (on (height, index) positions) refines the recursive parser -/

section loop
variable [DecidableEq α]

abbrev TP := Nat × Nat

/-- stacks on which neither "done" nor "combine" fires -/
def Quiet (S : List (TP × Option α)) : Prop :=
  (∀ p x, S ≠ [(p, some x)]) ∧ (∀ pb b pa a q rest, S ≠ (pb, some b) :: (pa, some a) :: q :: rest)

/-- where the machine stands after the subtree at `p` has been completed -/
def Post (n : Nat) (p p' : TP) : Prop :=
  if p.2 % 2 = 0 then p' = (p.1, p.2 + 1) else p'.2 < width n p'.1

theorem run_next (ops : PosOps TP) (H : α → α → α) (root : α) (st st' : St TP α)
    (h : step ops H root st = .next st') (f : Nat) :
    run ops H root (f + 1) st = run ops H root f st' := by
  simp [run, h]

theorem run_done (ops : PosOps TP) (H : α → α → α) (root : α) (st : St TP α) (r)
    (h : step ops H root st = .done r) (f : Nat) :
    run ops H root (f + 1) st = r := by
  simp [run, h]

theorem step_quiet (n : Nat) (H : α → α → α) (root : α) (st : St TP α)
    (hq : Quiet st.stack) (halive : st.pos.2 < width n st.pos.1) :
    step (treeOps n) H root st = pushStep (treeOps n) st := by
  obtain ⟨q1, q2⟩ := hq
  have hd : (treeOps n).dead st.pos = false := by simp [treeOps, halive]
  unfold step
  match hs : st.stack with
  | [] => simp [hd]
  | [(p, none)] => simp [hd]
  | [(p, some x)] => exact absurd hs (q1 p x)
  | (p, none) :: _ :: _ => simp [hd]
  | (p, some b) :: (q, none) :: _ => simp [hd]
  | [(p, some b), (q, some a)] => simp [hd]
  | (p, some b) :: (q, some a) :: r :: rest => exact absurd hs (q2 p b q a r rest)

omit [DecidableEq α] in
theorem quiet_push_none (S : List (TP × Option α)) (p : TP) : Quiet ((p, none) :: S) :=
  ⟨by intro q x h; simp at h, by intro pb b pa a q rest h; simp at h⟩

omit [DecidableEq α] in
theorem quiet_push_some_none (S : List (TP × Option α)) (p q : TP) (x : α) :
    Quiet ((p, some x) :: (q, none) :: S) :=
  ⟨by intro q x h; simp at h, by intro pb b pa a q rest h; simp at h⟩

/-- forward simulation: from a quiet stack and a live position the machine performs exactly the
    recursive parse of the subtree at that position. -/
theorem sim (n : Nat) (H : α → α → α) (root : α) :
    ∀ (h idx : Nat) (S : List (TP × Option α)) (bits : List Bool) (hashes ids : List α)
      (nodes : List (TP × α)), idx < width n h → Quiet S →
      (∀ e, extract H n h idx bits hashes = .error e →
        ∃ k, ∀ f, run (treeOps n) H root (k + f) ⟨S, (h, idx), bits, hashes, ids, nodes⟩ = .err e) ∧
      (∀ s, extract H n h idx bits hashes = .ok s →
        ∃ k p', Post n (h, idx) p' ∧ ∀ f,
          run (treeOps n) H root (k + f) ⟨S, (h, idx), bits, hashes, ids, nodes⟩ =
          run (treeOps n) H root f ⟨((h, idx), some s.hash) :: S, p', s.bits, s.hashes, ids ++ s.ids, nodes ++ s.nodes⟩)
  | 0, idx, S, bits, hashes, ids, nodes, halive, hq => by
      have hstep := step_quiet n H root ⟨S, (0, idx), bits, hashes, ids, nodes⟩ hq halive
      have hlo : (treeOps n).leafOut (0, idx) = false := by
        rw [width_zero] at halive
        simp [treeOps]; omega
      cases hashes with
      | nil =>
        refine ⟨?_, by intro s hs; simp [extract] at hs⟩
        intro e he
        simp only [extract] at he
        cases he
        exact ⟨1, fun f => by rw [Nat.add_comm]; exact run_done _ _ _ _ _ (by rw [hstep]; rfl) f⟩
      | cons x hs =>
        cases bits with
        | nil =>
          refine ⟨?_, by intro s hs; simp [extract] at hs⟩
          intro e he
          simp only [extract] at he
          cases he
          exact ⟨1, fun f => by rw [Nat.add_comm]; exact run_done _ _ _ _ _ (by rw [hstep]; rfl) f⟩
        | cons b bs =>
          refine ⟨by intro e he; simp [extract] at he, ?_⟩
          intro s hs'
          simp only [extract, Except.ok.injEq] at hs'
          subst hs'
          have hlo' : ¬ n ≤ idx := by rw [width_zero] at halive; omega
          have h1 : step (treeOps n) H root ⟨S, (0, idx), b :: bs, x :: hs, ids, nodes⟩ = .next
              ⟨((0, idx), some x) :: S, if idx % 2 = 0 then (0, idx + 1) else (0, idx), bs, hs,
               ids ++ (if b then [x] else []), nodes ++ [((0, idx), x)]⟩ := by
            rw [hstep]
            by_cases he : idx % 2 = 0 <;> cases b <;> simp [pushStep, treeOps, he, hlo']
          refine ⟨1, if idx % 2 = 0 then (0, idx + 1) else (0, idx), ?_, ?_⟩
          · unfold Post
            by_cases he : idx % 2 = 0
            · simp [he]
            · simp [he]; exact halive
          · intro f
            rw [Nat.add_comm]
            exact run_next _ _ _ _ _ h1 f
  | h + 1, idx, S, bits, hashes, ids, nodes, halive, hq => by
      have hstep := step_quiet n H root ⟨S, (h + 1, idx), bits, hashes, ids, nodes⟩ hq halive
      have hw := width_succ n h
      cases hashes with
      | nil =>
        refine ⟨?_, by intro s hs; simp [extract] at hs⟩
        intro e he
        simp only [extract] at he
        cases he
        exact ⟨1, fun f => by rw [Nat.add_comm]; exact run_done _ _ _ _ _ (by rw [hstep]; rfl) f⟩
      | cons x hs =>
        cases bits with
        | nil =>
          refine ⟨?_, by intro s hs; simp [extract] at hs⟩
          intro e he
          simp only [extract] at he
          cases he
          exact ⟨1, fun f => by rw [Nat.add_comm]; exact run_done _ _ _ _ _ (by rw [hstep]; rfl) f⟩
        | cons b bs =>
          cases b with
          | false =>
            refine ⟨by intro e he; simp [extract] at he, ?_⟩
            intro s hs'
            simp only [extract, Except.ok.injEq] at hs'
            subst hs'
            have h1 : step (treeOps n) H root ⟨S, (h + 1, idx), false :: bs, x :: hs, ids, nodes⟩ = .next
                ⟨((h + 1, idx), some x) :: S, if idx % 2 = 1 then (h + 2, idx / 2) else (h + 1, idx + 1), bs, hs,
                 ids ++ [], nodes ++ [((h + 1, idx), x)]⟩ := by
              rw [hstep]
              by_cases he : idx % 2 = 1
              · simp [pushStep, treeOps, he]
              · have : idx % 2 = 0 := by omega
                simp [pushStep, treeOps, he, this]
            refine ⟨1, if idx % 2 = 1 then (h + 2, idx / 2) else (h + 1, idx + 1), ?_, ?_⟩
            · unfold Post
              by_cases he : idx % 2 = 0
              · have : ¬ idx % 2 = 1 := by omega
                simp [he, this]
              · have : idx % 2 = 1 := by omega
                simp only [he, if_false, this, if_true]
                have := width_succ n (h + 1)
                show idx / 2 < width n (h + 1 + 1)
                omega
            · intro f
              rw [Nat.add_comm]
              exact run_next _ _ _ _ _ h1 f
          | true =>
            -- descend: push an empty node, go to the left child
            let st1 : St TP α := ⟨((h + 1, idx), none) :: S, (h, 2 * idx), bs, x :: hs, ids, nodes⟩
            have h1 : step (treeOps n) H root ⟨S, (h + 1, idx), true :: bs, x :: hs, ids, nodes⟩ = .next st1 := by
              rw [hstep]
              simp only [pushStep, treeOps]
              rfl
            have ihl := sim n H root h (2 * idx) (((h + 1, idx), none) :: S) bs (x :: hs) ids nodes
              (by omega) (quiet_push_none S _)
            cases hl : extract H n h (2 * idx) bs (x :: hs) with
            | error e =>
              refine ⟨?_, by intro s hs'; simp [extract, hl] at hs'⟩
              intro e' he'
              simp only [extract, hl] at he'
              cases he'
              obtain ⟨k, hk⟩ := ihl.1 e hl
              exact ⟨k + 1, fun f => by
                rw [show k + 1 + f = (k + f) + 1 by omega]
                exact (run_next _ _ _ _ _ h1 _).trans (hk f)⟩
            | ok l =>
              obtain ⟨k1, p1, hpost1, hk1⟩ := ihl.2 l hl
              have hp1 : p1 = (h, 2 * idx + 1) := by
                unfold Post at hpost1
                have : 2 * idx % 2 = 0 := by omega
                simpa [this] using hpost1
              subst hp1
              by_cases hr : 2 * idx + 1 < width n h
              · -- the right child exists
                have ihr := sim n H root h (2 * idx + 1)
                  (((h, 2 * idx), some l.hash) :: ((h + 1, idx), none) :: S) l.bits l.hashes (ids ++ l.ids) (nodes ++ l.nodes)
                  hr (quiet_push_some_none S _ _ _)
                cases hrr : extract H n h (2 * idx + 1) l.bits l.hashes with
                | error e =>
                  refine ⟨?_, by intro s hs'; simp [extract, hl, hr, hrr] at hs'⟩
                  intro e' he'
                  simp only [extract, hl, hr, if_true, hrr] at he'
                  cases he'
                  obtain ⟨k2, hk2⟩ := ihr.1 e hrr
                  exact ⟨k1 + k2 + 1, fun f => by
                    rw [show k1 + k2 + 1 + f = (k1 + (k2 + f)) + 1 by omega]
                    exact (run_next _ _ _ _ _ h1 _).trans ((hk1 _).trans (hk2 f))⟩
                | ok r =>
                  obtain ⟨k2, p2, hpost2, hk2⟩ := ihr.2 r hrr
                  have halive2 : p2.2 < width n p2.1 := by
                    unfold Post at hpost2
                    have : ¬ (2 * idx + 1) % 2 = 0 := by omega
                    simpa [this] using hpost2
                  -- the combine step
                  let st3 : St TP α := ⟨((h, 2 * idx + 1), some r.hash) :: ((h, 2 * idx), some l.hash) ::
                    ((h + 1, idx), none) :: S, p2, r.bits, r.hashes, ids ++ l.ids ++ r.ids, nodes ++ l.nodes ++ r.nodes⟩
                  have hd3 : (treeOps n).dead p2 = false := by simp [treeOps, halive2]
                  by_cases hdup : l.hash = r.hash
                  · refine ⟨?_, by intro s hs'; simp [extract, hl, hr, hrr, hdup] at hs'⟩
                    intro e' he'
                    simp only [extract, hl, hr, if_true, hrr, hdup] at he'
                    cases he'
                    have h3 : step (treeOps n) H root st3 = .done (.err .dup) := by
                      simp only [step, st3, hd3, hdup]
                      simp
                    exact ⟨k1 + k2 + 2, fun f => by
                      rw [show k1 + k2 + 2 + f = (k1 + (k2 + (f + 1))) + 1 by omega]
                      exact (run_next _ _ _ _ _ h1 _).trans ((hk1 _).trans ((hk2 _).trans
                        (run_done _ _ _ _ _ h3 f)))⟩
                  · refine ⟨by intro e' he'; simp [extract, hl, hr, hrr, hdup] at he', ?_⟩
                    intro s hs'
                    simp only [extract, hl, hr, if_true, hrr, hdup, if_false, Except.ok.injEq] at hs'
                    subst hs'
                    have h3 : step (treeOps n) H root st3 = .next
                        ⟨((h + 1, idx), some (H l.hash r.hash)) :: S, (treeOps n).sib (h + 1, idx), r.bits, r.hashes,
                         ids ++ l.ids ++ r.ids, nodes ++ l.nodes ++ r.nodes ++ [((h + 1, idx), H l.hash r.hash)]⟩ := by
                      simp only [step, st3, hd3, hdup]
                      simp
                    refine ⟨k1 + k2 + 2, (treeOps n).sib (h + 1, idx), ?_, fun f => by
                      rw [show k1 + k2 + 2 + f = (k1 + (k2 + (f + 1))) + 1 by omega]
                      refine (run_next _ _ _ _ _ h1 _).trans ((hk1 _).trans ((hk2 _).trans
                        ((run_next _ _ _ _ _ h3 f).trans ?_)))
                      simp only [List.append_assoc]⟩
                    unfold Post
                    by_cases he : idx % 2 = 0
                    · simp [treeOps, he]
                    · simp only [treeOps, he, if_false]; exact halive
              · -- dead zone: the left child is hashed with itself
                refine ⟨by intro e' he'; simp [extract, hl, hr] at he', ?_⟩
                intro s hs'
                simp only [extract, hl, hr, if_false, Except.ok.injEq] at hs'
                subst hs'
                let st2 : St TP α := ⟨((h, 2 * idx), some l.hash) :: ((h + 1, idx), none) :: S,
                  (h, 2 * idx + 1), l.bits, l.hashes, ids ++ l.ids, nodes ++ l.nodes⟩
                have hd2 : (treeOps n).dead (h, 2 * idx + 1) = true := by simp [treeOps, hr]
                have h2 : step (treeOps n) H root st2 = .next
                    ⟨((h + 1, idx), some (H l.hash l.hash)) :: S, (treeOps n).sib (h + 1, idx), l.bits, l.hashes,
                     ids ++ l.ids, nodes ++ l.nodes ++ [((h + 1, idx), H l.hash l.hash)]⟩ := by
                  simp only [step, st2, hd2]
                  simp
                refine ⟨k1 + 2, (treeOps n).sib (h + 1, idx), ?_, fun f => by
                  rw [show k1 + 2 + f = (k1 + (f + 1)) + 1 by omega]
                  refine (run_next _ _ _ _ _ h1 _).trans ((hk1 _).trans ((run_next _ _ _ _ _ h2 f).trans ?_))
                  simp only [List.append_assoc]⟩
                unfold Post
                by_cases he : idx % 2 = 0
                · simp [treeOps, he]
                · simp only [treeOps, he, if_false]; exact halive

end loop

/-! ### top level -/

theorem width_le_one (n h : Nat) (hn : n ≤ 2 ^ h) : width n h ≤ 1 := by
  have := lt_width_iff n h 1
  simp only [Nat.one_mul] at this
  have h2 : ¬ 1 < width n h := fun hh => by have := this.mp hh; omega
  omega

theorem heightLoop_spec (n : Nat) : ∀ (fuel h : Nat), n ≤ 2 ^ (h + fuel) → width n (heightLoop n fuel h) ≤ 1
  | 0, h, hn => by simpa [heightLoop] using width_le_one n h (by simpa using hn)
  | fuel + 1, h, hn => by
      unfold heightLoop
      by_cases hw : width n h > 1
      · simp only [hw, if_true]
        exact heightLoop_spec n fuel (h + 1) (by rw [show h + 1 + fuel = h + (fuel + 1) by omega]; exact hn)
      · simp only [hw, if_false]; omega

theorem treeHeight_spec (n : Nat) : n ≤ 2 ^ treeHeight n := by
  have h1 : width n (treeHeight n) ≤ 1 :=
    heightLoop_spec n n 0 (by rw [Nat.zero_add]; exact Nat.le_of_lt Nat.lt_two_pow_self)
  have := lt_width_iff n (treeHeight n) 1
  simp only [Nat.one_mul] at this
  have h2 : ¬ 2 ^ treeHeight n < n := fun hh => by have := this.mpr hh; omega
  omega

theorem root_alive (n h : Nat) (hn : 0 < n) : 0 < width n h := by
  rw [lt_width_iff]; omega

/-- the matched ids in block order -/
def matchedList (txs : List α) (matched : List Bool) : List α :=
  ((txs.zip matched).filter (·.2)).map (·.1)

theorem matchedIds_seg (txs : List α) (matched : List Bool) : ∀ (h pos : Nat),
    matchedIds txs matched h pos = ((seg (txs.zip matched) h pos).filter (·.2)).map (·.1)
  | 0, pos => by
      rw [seg_zero]
      simp only [matchedIds, List.zip_eq_zipWith, List.getElem?_zipWith]
      cases h1 : txs[pos]? <;> cases h2 : matched[pos]? <;> simp
      rename_i a b
      cases b <;> simp
  | h + 1, pos => by
      rw [seg_succ, List.filter_append, List.map_append, matchedIds,
        matchedIds_seg txs matched h, matchedIds_seg txs matched h]

theorem matchedIds_top (txs : List α) (matched : List Bool) :
    matchedIds txs matched (treeHeight txs.length) 0 = matchedList txs matched := by
  rw [matchedIds_seg]
  unfold seg matchedList
  simp only [Nat.zero_mul, List.drop_zero]
  rw [List.take_of_length_le]
  have := treeHeight_spec txs.length
  simp only [List.length_zip]
  omega

/-- forget the node table of a result -/
def PRes.ids {β : Type} : PRes (List α × β) → PRes (List α)
  | .ok v => .ok v.1
  | .err e => .err e
  | .panic => .panic

/-- **the stack machine (on tree positions) computes the recursive specification**, for every
    message, given enough fuel. -/
theorem machine_refines_full [DecidableEq α] (H : α → α → α) (maxTx n : Nat) (root : α) (bits : List Bool)
    (hashes : List α) :
    ∃ k, ∀ f, machine (treeOps n) H maxTx n root bits hashes (k + f) = extractTop H maxTx n root bits hashes := by
  unfold machine extractTop
  by_cases hn : n = 0
  · exact ⟨0, fun f => by simp [hn]⟩
  · by_cases hm : n > maxTx
    · exact ⟨0, fun f => by simp [hn, hm]⟩
    · by_cases hb : bits.isEmpty = true
      · exact ⟨0, fun f => by simp [hn, hm, hb]⟩
      · simp only [hn, if_false, hm, hb]
        have hs := sim n H root (treeHeight n) 0 [] bits hashes [] []
          (root_alive n _ (by omega)) ⟨by intro p x h; simp at h, by intro pb b pa a q rest h; simp at h⟩
        cases he : extract H n (treeHeight n) 0 bits hashes with
        | error e =>
          obtain ⟨k, hk⟩ := hs.1 e he
          exact ⟨k, fun f => by
            have := hk f
            simp only [treeOps] at this ⊢
            rw [this]⟩
        | ok s =>
          obtain ⟨k, p', _, hk⟩ := hs.2 s he
          refine ⟨k + 1, fun f => ?_⟩
          have := hk (f + 1)
          simp only [treeOps] at this ⊢
          rw [show k + 1 + f = k + (f + 1) by omega, this]
          simp only [run, step, List.nil_append]
          by_cases hr : s.hash = root <;> simp [hr]

theorem machine_refines [DecidableEq α] (H : α → α → α) (maxTx n : Nat) (root : α) (bits : List Bool)
    (hashes : List α) :
    ∃ k, ∀ f, (machine (treeOps n) H maxTx n root bits hashes (k + f)).ids =
      (extractTop H maxTx n root bits hashes).ids := by
  obtain ⟨k, hk⟩ := machine_refines_full H maxTx n root bits hashes
  exact ⟨k, fun f => by rw [hk f]⟩

/-! ### the node table of a successful parse -/

theorem extract_own [DecidableEq α] (H : α → α → α) (n : Nat) : ∀ (h pos : Nat) (bits : List Bool)
    (hashes : List α) (s : Sub α), extract H n h pos bits hashes = .ok s → ((h, pos), s.hash) ∈ s.nodes
  | 0, pos, bits, hashes, s, he => by
      cases hashes with
      | nil => simp [extract] at he
      | cons y hs => cases bits with
        | nil => simp [extract] at he
        | cons b bs => simp only [extract, Except.ok.injEq] at he; subst he; simp
  | h + 1, pos, bits, hashes, s, he => by
      cases hashes with
      | nil => simp [extract] at he
      | cons y hs => cases bits with
        | nil => simp [extract] at he
        | cons b bs =>
          cases b with
          | false => simp only [extract, Except.ok.injEq] at he; subst he; simp
          | true =>
            simp only [extract] at he
            cases hl : extract H n h (2 * pos) bs (y :: hs) with
            | error e => simp [hl] at he
            | ok l =>
              simp only [hl] at he
              by_cases hw : 2 * pos + 1 < width n h
              · simp only [hw, if_true] at he
                cases hr : extract H n h (2 * pos + 1) l.bits l.hashes with
                | error e => simp [hr] at he
                | ok r =>
                  simp only [hr] at he
                  by_cases hd : l.hash = r.hash
                  · simp [hd] at he
                  · simp only [hd, if_false, Except.ok.injEq] at he; subst he; simp
              · simp only [hw, if_false, Except.ok.injEq] at he; subst he; simp

/-- every table entry of the parse of (h, pos) lies in that subtree -/
theorem extract_subtree [DecidableEq α] (H : α → α → α) (n : Nat) : ∀ (h pos : Nat) (bits : List Bool)
    (hashes : List α) (s : Sub α), extract H n h pos bits hashes = .ok s →
      ∀ e ∈ s.nodes, e.1.1 ≤ h ∧ e.1.2 / 2 ^ (h - e.1.1) = pos
  | 0, pos, bits, hashes, s, he => by
      cases hashes with
      | nil => simp [extract] at he
      | cons y hs => cases bits with
        | nil => simp [extract] at he
        | cons b bs =>
          simp only [extract, Except.ok.injEq] at he; subst he
          intro e hm; simp at hm; subst hm; simp
  | h + 1, pos, bits, hashes, s, he => by
      have key : ∀ (c : Nat) (sub : Sub α) (bs' : List Bool) (hs' : List α), (c = 2 * pos ∨ c = 2 * pos + 1) →
          extract H n h c bs' hs' = .ok sub → ∀ e ∈ sub.nodes, e.1.1 ≤ h + 1 ∧ e.1.2 / 2 ^ (h + 1 - e.1.1) = pos := by
        intro c sub bs' hs' hc hsub e hm
        obtain ⟨h1, h2⟩ := extract_subtree H n h c bs' hs' sub hsub e hm
        refine ⟨by omega, ?_⟩
        rw [show h + 1 - e.1.1 = (h - e.1.1) + 1 by omega, Nat.pow_succ, ← Nat.div_div_eq_div_mul, h2]
        omega
      cases hashes with
      | nil => simp [extract] at he
      | cons y hs => cases bits with
        | nil => simp [extract] at he
        | cons b bs =>
          cases b with
          | false =>
            simp only [extract, Except.ok.injEq] at he; subst he
            intro e hm; simp at hm; subst hm; simp
          | true =>
            simp only [extract] at he
            cases hl : extract H n h (2 * pos) bs (y :: hs) with
            | error e => simp [hl] at he
            | ok l =>
              simp only [hl] at he
              by_cases hw : 2 * pos + 1 < width n h
              · simp only [hw, if_true] at he
                cases hr : extract H n h (2 * pos + 1) l.bits l.hashes with
                | error e => simp [hr] at he
                | ok r =>
                  simp only [hr] at he
                  by_cases hd : l.hash = r.hash
                  · simp [hd] at he
                  · simp only [hd, if_false, Except.ok.injEq] at he; subst he
                    intro e hm
                    simp only [List.mem_append, List.mem_singleton] at hm
                    rcases hm with (hm | hm) | hm
                    · exact key _ l _ _ (Or.inl rfl) hl e hm
                    · exact key _ r _ _ (Or.inr rfl) hr e hm
                    · subst hm; simp
              · simp only [hw, if_false, Except.ok.injEq] at he; subst he
                intro e hm
                simp only [List.mem_append, List.mem_singleton] at hm
                rcases hm with hm | hm
                · exact key _ l _ _ (Or.inl rfl) hl e hm
                · subst hm; simp

theorem calcHash_alive (H : α → α → α) (txs : List α) : ∀ (h pos : Nat) (x : α),
    calcHash H txs h pos = some x → pos < width txs.length h
  | 0, pos, x, hc => by
      rw [width_zero]
      simp only [calcHash] at hc
      rcases Nat.lt_or_ge pos txs.length with hlt | hge
      · exact hlt
      · rw [List.getElem?_eq_none hge] at hc; cases hc
  | h + 1, pos, x, hc => by
      simp only [calcHash] at hc
      cases hl : calcHash H txs h (2 * pos) with
      | none => simp [hl] at hc
      | some l =>
        have := calcHash_alive H txs h (2 * pos) l hl
        rw [width_succ]; omega

/-- every table entry of a parse whose root hash is the true one carries the true hash of its node -/
theorem extract_nodes_correct [DecidableEq α] {H : α → α → α} (hinj : Injective2 H) (txs : List α) :
    ∀ (h pos : Nat) (bits : List Bool) (hashes : List α) (s : Sub α) (x : α),
      extract H txs.length h pos bits hashes = .ok s → calcHash H txs h pos = some x → s.hash = x →
      ∀ e ∈ s.nodes, calcHash H txs e.1.1 e.1.2 = some e.2
  | 0, pos, bits, hashes, s, x, he, hc, hx => by
    cases hashes with
    | nil => simp [extract] at he
    | cons y hs =>
      cases bits with
      | nil => simp [extract] at he
      | cons b bs =>
        simp only [extract, Except.ok.injEq] at he
        subst he
        simp only at hx
        subst hx
        intro e hm; simp at hm; subst hm; exact hc
  | h + 1, pos, bits, hashes, s, x, he, hc, hx => by
    cases hashes with
    | nil => simp [extract] at he
    | cons y hs =>
      cases bits with
      | nil => simp [extract] at he
      | cons b bs =>
        cases b with
        | false =>
          simp only [extract, Except.ok.injEq] at he
          subst he
          simp only at hx
          subst hx
          intro e hm; simp at hm; subst hm; exact hc
        | true =>
          simp only [extract] at he
          cases hl : extract H txs.length h (2 * pos) bs (y :: hs) with
          | error e => simp [hl] at he
          | ok l =>
            simp only [hl] at he
            have hc0 := hc
            simp only [calcHash] at hc
            cases hcl : calcHash H txs h (2 * pos) with
            | none => simp [hcl] at hc
            | some cl =>
              simp only [hcl] at hc
              by_cases hw : 2 * pos + 1 < width txs.length h
              · simp only [hw, if_true] at he hc
                cases hr : extract H txs.length h (2 * pos + 1) l.bits l.hashes with
                | error e => simp [hr] at he
                | ok r =>
                  simp only [hr] at he
                  cases hcr : calcHash H txs h (2 * pos + 1) with
                  | none => simp [hcr] at hc
                  | some cr =>
                    simp only [hcr, Option.some.injEq] at hc
                    by_cases hd : l.hash = r.hash
                    · simp [hd] at he
                    · simp only [hd, if_false, Except.ok.injEq] at he
                      subst he
                      simp only at hx
                      have hh := hinj _ _ _ _ (hx.trans hc.symm)
                      intro e hm
                      simp only [List.mem_append, List.mem_singleton] at hm
                      rcases hm with (hm | hm) | hm
                      · exact extract_nodes_correct hinj txs h (2 * pos) _ _ l cl hl hcl hh.1 e hm
                      · exact extract_nodes_correct hinj txs h (2 * pos + 1) _ _ r cr hr hcr hh.2 e hm
                      · subst hm; simp only; rw [hc0, hx]
              · simp only [hw, if_false, Except.ok.injEq, Option.some.injEq] at he hc
                subst he
                simp only at hx
                have hh := hinj _ _ _ _ (hx.trans hc.symm)
                intro e hm
                simp only [List.mem_append, List.mem_singleton] at hm
                rcases hm with hm | hm
                · exact extract_nodes_correct hinj txs h (2 * pos) _ _ l cl hl hcl hh.1 e hm
                · subst hm; simp only; rw [hc0, hx]

/-- the position `calcBranchRoute` picks at level `k` for the ancestor with index `j` -/
def routeIdx (n k j : Nat) : Nat :=
  if j = width n k - 1 ∧ j % 2 = 0 then j else if j % 2 = 0 then j + 1 else j - 1

/-- if the parse of (h, pos) reached leaf `i`, its table has the route node of `i` on every level below `h` -/
theorem extract_route_present [DecidableEq α] (H : α → α → α) (n : Nat) : ∀ (h pos : Nat) (bits : List Bool)
    (hashes : List α) (s : Sub α) (i : Nat) (xi : α), pos < width n h → extract H n h pos bits hashes = .ok s →
      ((0, i), xi) ∈ s.nodes → ∀ k < h, ∃ x, ((k, routeIdx n k (i / 2 ^ k)), x) ∈ s.nodes
  | 0, _, _, _, _, _, _, _, _, _ => by intro k hk; omega
  | h + 1, pos, bits, hashes, s, i, xi, halive, he, hi => by
    have hws := width_succ n h
    cases hashes with
    | nil => simp [extract] at he
    | cons y hs =>
      cases bits with
      | nil => simp [extract] at he
      | cons b bs =>
        cases b with
        | false =>
          simp only [extract, Except.ok.injEq] at he
          subst he
          simp at hi
        | true =>
          simp only [extract] at he
          cases hl : extract H n h (2 * pos) bs (y :: hs) with
          | error e => simp [hl] at he
          | ok l =>
            simp only [hl] at he
            have ownl := extract_own H n h (2 * pos) _ _ l hl
            have subl := extract_subtree H n h (2 * pos) _ _ l hl
            by_cases hw : 2 * pos + 1 < width n h
            · simp only [hw, if_true] at he
              cases hr : extract H n h (2 * pos + 1) l.bits l.hashes with
              | error e => simp [hr] at he
              | ok r =>
                simp only [hr] at he
                have ownr := extract_own H n h (2 * pos + 1) _ _ r hr
                have subr := extract_subtree H n h (2 * pos + 1) _ _ r hr
                by_cases hd : l.hash = r.hash
                · simp [hd] at he
                · simp only [hd, if_false, Except.ok.injEq] at he
                  subst he
                  simp only [List.mem_append, List.mem_singleton] at hi
                  intro k hk
                  rcases hi with (hi | hi) | hi
                  · -- the leaf is in the left subtree
                    have hpos := (subl _ hi).2
                    simp only [Nat.sub_zero] at hpos
                    by_cases hkh : k < h
                    · obtain ⟨x, hx⟩ := extract_route_present H n h (2 * pos) _ _ l i xi (by omega) hl hi k hkh
                      exact ⟨x, by simp [hx]⟩
                    · have : k = h := by omega
                      subst this
                      refine ⟨r.hash, ?_⟩
                      have : routeIdx n k (i / 2 ^ k) = 2 * pos + 1 := by
                        rw [hpos]; unfold routeIdx
                        (repeat' split) <;> omega
                      rw [this]; simp [ownr]
                  · have hpos := (subr _ hi).2
                    simp only [Nat.sub_zero] at hpos
                    by_cases hkh : k < h
                    · obtain ⟨x, hx⟩ := extract_route_present H n h (2 * pos + 1) _ _ r i xi hw hr hi k hkh
                      exact ⟨x, by simp [hx]⟩
                    · have : k = h := by omega
                      subst this
                      refine ⟨l.hash, ?_⟩
                      have : routeIdx n k (i / 2 ^ k) = 2 * pos := by
                        rw [hpos]; unfold routeIdx
                        (repeat' split) <;> omega
                      rw [this]; simp [ownl]
                  · cases hi
            · simp only [hw, if_false, Except.ok.injEq] at he
              subst he
              simp only [List.mem_append, List.mem_singleton] at hi
              intro k hk
              rcases hi with hi | hi
              · have hpos := (subl _ hi).2
                simp only [Nat.sub_zero] at hpos
                by_cases hkh : k < h
                · obtain ⟨x, hx⟩ := extract_route_present H n h (2 * pos) _ _ l i xi (by omega) hl hi k hkh
                  exact ⟨x, by simp [hx]⟩
                · have : k = h := by omega
                  subst this
                  refine ⟨l.hash, ?_⟩
                  have : routeIdx n k (i / 2 ^ k) = 2 * pos := by
                    rw [hpos]; unfold routeIdx
                    have hlast : 2 * pos = width n k - 1 := by omega
                    (repeat' split) <;> omega
                  rw [this]; simp [ownl]
              · cases hi

end ElaVerif.PMT
