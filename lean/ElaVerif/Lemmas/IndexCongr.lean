import ElaVerif.Model.Index
import ElaVerif.Lemmas.Index
import ElaVerif.Lemmas.IndexHist
import ElaVerif.Props.C13
/-!
  Connect and disconnect of the index model respect observational equality (`C13.Equiv`), and
  disconnecting *any* state that is observationally a freshly connected one gives back the state
  before — the generalisation of `C13_inverse` that can be iterated over histories (C14).
-/
namespace ElaVerif.Index
open ElaVerif.C13

namespace Map
variable {K V : Type} [DecidableEq K]

/-- two maps that read the same -/
def Same (m m' : Map K V) : Prop := ∀ k, m.get k = m'.get k

theorem foldl_same {α : Type} (step : Map K V → α → Map K V)
    (hstep : ∀ m m' x, Same m m' → Same (step m x) (step m' x))
    (l : List α) (m m' : Map K V) (h : Same m m') : Same (l.foldl step m) (l.foldl step m') := by
  induction l generalizing m m' with
  | nil => exact h
  | cons x r ih => exact ih _ _ (hstep m m' x h)

theorem same_put (m m' : Map K V) (k : K) (v : V) (h : Same m m') : Same (m.put k v) (m'.put k v) := by
  intro k'; rw [get_put, get_put, h k']

theorem same_del (m m' : Map K V) (k : K) (h : Same m m') : Same (m.del k) (m'.del k) := by
  intro k'; rw [get_del, get_del, h k']

end Map

/-- destructuring a successful `connect` -/
theorem connect_inv {s s1 : State} {b : Block} (h : connect s b = .ok s1) :
    ¬ b.height ≤ s.height ∧ s.tip = b.prev ∧
    ∃ un ut, unspentConnect b s.unspent = .ok un ∧ utxoConnect s b = .ok ut ∧
      s1 = { (b.txs.foldl saveTx s) with
        tip := b.id, height := b.height, txs := txConnect b s.txs, unspent := un, utxo := ut,
        retdep := (rdHashes b).foldl (fun m h => m.put h ()) s.retdep } := by
  unfold connect at h
  by_cases hh : b.height ≤ s.height
  · simp [hh] at h
  · simp only [hh, if_false] at h
    unfold saveFFLDB at h
    by_cases ht : s.tip ≠ b.prev
    · simp [ht] at h
    · simp only [ht, if_false] at h
      cases hun : unspentConnect b s.unspent with
      | ok un =>
        cases hut : utxoConnect s b with
        | ok ut =>
          simp only [hun, hut, Res.bind] at h
          cases h
          exact ⟨hh, by simpa using ht, un, ut, rfl, rfl, rfl⟩
        | err => simp [hun, hut, Res.bind] at h
        | panic => simp [hun, hut, Res.bind] at h
      | err => simp [hun, Res.bind] at h
      | panic => simp [hun, Res.bind] at h

theorem disconnect_intro {s : State} {b : Block} {tx un ut}
    (ht : s.tip = b.id) (h1 : txDisconnect b s.txs = .ok tx) (h2 : unspentDisconnect b s.unspent = .ok un)
    (h3 : utxoDisconnect s b = .ok ut) :
    disconnect s b = .ok { (b.txs.foldl rollbackTx s) with
      tip := b.prev, height := b.height - 1, txs := tx, unspent := un, utxo := ut,
      retdep := (rdHashes b).foldl (fun m h => m.del h) s.retdep } := by
  unfold disconnect
  have : ¬ s.tip ≠ b.id := by simp [ht]
  simp only [this, if_false, h1, h2, h3, Res.bind]

/-- validity of a block only looks at observations -/
theorem validOn_of_equiv {s s' : State} {b : Block} (hv : ValidOn s b) (he : Equiv s' s) : ValidOn s' b where
  prev := by rw [hv.prev, he.tip]
  height := by rw [hv.height, he.height]
  reg := hv.reg
  ids_nodup := hv.ids_nodup
  ids_fresh := fun tx htx => ⟨by rw [he.txs]; exact (hv.ids_fresh tx htx).1, by
    have := he.unspent tx.id
    rw [(hv.ids_fresh tx htx).2] at this
    exact this.eq_nil⟩
  ins_nodup := hv.ins_nodup
  ins_not_own := hv.ins_not_own
  ins_unspent := fun p hp => ((he.unspent p.1).mem_iff).mpr (hv.ins_unspent p hp)
  ins_known := fun p hp => by
    obtain ⟨h, outs, o, h1, h2, h3, h4, h5⟩ := hv.ins_known p hp
    refine ⟨h, outs, o, by rw [he.txs]; exact h1, h2, h3, ?_, ?_⟩
    · intro hz; exact ((he.utxo (o.addr, h)).mem_iff).mpr (h4 hz)
    · intro hz u hu; exact h5 hz u (((he.utxo (o.addr, h)).mem_iff).mp hu)
  tx3_fresh := fun tx htx h hh => by rw [he.tx3]; exact hv.tx3_fresh tx htx h hh
  retdep_fresh := fun h hh => by rw [he.retdep]; exact hv.retdep_fresh h hh
  drafts_fresh := fun tx htx p hp => by rw [he.drafts]; exact hv.drafts_fresh tx htx p hp
  utxo_keys_nodup := fun κ => (((he.utxo κ).map ukey).nodup_iff).mpr (hv.utxo_keys_nodup κ)
  utxo_empty_at_height := fun a => by
    have := he.utxo (a, b.height)
    rw [hv.utxo_empty_at_height a] at this
    exact this.eq_nil

theorem Equiv.symm {a b : State} (h : Equiv a b) : Equiv b a :=
  ⟨h.tip.symm, h.height.symm, fun k => (h.txs k).symm, fun k => (h.unspent k).symm, fun κ => (h.utxo κ).symm,
   fun k => (h.tx3 k).symm, fun k => (h.retdep k).symm, fun k => (h.drafts k).symm⟩

theorem Equiv.trans {a b c : State} (h1 : Equiv a b) (h2 : Equiv b c) : Equiv a c :=
  ⟨h1.tip.trans h2.tip, h1.height.trans h2.height, fun k => (h1.txs k).trans (h2.txs k),
   fun k => (h1.unspent k).trans (h2.unspent k), fun κ => (h1.utxo κ).trans (h2.utxo κ),
   fun k => (h1.tx3 k).trans (h2.tx3 k), fun k => (h1.retdep k).trans (h2.retdep k),
   fun k => (h1.drafts k).trans (h2.drafts k)⟩

theorem Equiv.refl (a : State) : Equiv a a :=
  ⟨rfl, rfl, fun _ => rfl, fun _ => List.Perm.refl _, fun _ => List.Perm.refl _, fun _ => rfl, fun _ => rfl, fun _ => rfl⟩

theorem avalid_of_valid {s : State} {b : Block} (hv : ValidOn s b) : AValid s b (refOf s) := by
  have hown : ∀ p ∈ allIns b, p.1 ∉ b.txs.map (·.id) := by
    intro p hp hin
    obtain ⟨tx, htx, e⟩ := List.mem_map.mp hin
    exact hv.ins_not_own p hp tx htx e.symm
  have hres : ∀ p ∈ allIns b, resolve s.txs.get p = .ok (refOf s p) := by
    intro p hp
    obtain ⟨h, outs, o, h1, h2, _⟩ := hv.ins_known p hp
    simp [resolve, refOf, h1, h2]
  refine ⟨?_, ?_, ?_, hv.ins_nodup, hv.utxo_keys_nodup, ?_, ?_, hv.utxo_empty_at_height⟩
  · intro p hp
    have hf : fetchTxConn s b p.1 = s.txs.get p.1 := by
      unfold fetchTxConn
      have : b.txs.find? (fun tx => tx.id == p.1 && tx.kind != .registerAsset) = none := by
        apply List.find?_eq_none.mpr
        intro tx htx hh
        have : tx.id = p.1 := by
          have := (Bool.and_eq_true _ _ ▸ hh).1
          simpa using this
        exact hv.ins_not_own p hp tx htx this.symm
      rw [this]
    have := hres p hp
    unfold resolve at this ⊢
    rw [hf]; exact this
  · intro p hp
    have hf : (txConnect b s.txs).get p.1 = s.txs.get p.1 :=
      get_txConnect_not_mem b.txs b.height s.txs p.1 (hown p hp)
    have := hres p hp
    unfold resolve at this ⊢
    rw [hf]; exact this
  · intro p hp
    obtain ⟨h, outs, o, h1, h2, h3, _⟩ := hv.ins_known p hp
    simp [refOf, h1, h3]
  · intro p hp hnz
    obtain ⟨h, outs, o, h1, h2, _, h4, _⟩ := hv.ins_known p hp
    have hr : refOf s p = (h, o) := by simp [refOf, h1, h2]
    rw [hr] at hnz
    simp only [refKey, hr]
    exact h4 hnz
  · intro p hp hz
    obtain ⟨h, outs, o, h1, h2, _, _, h5⟩ := hv.ins_known p hp
    have hr : refOf s p = (h, o) := by simp [refOf, h1, h2]
    rw [hr] at hz
    simp only [refKey, hr]
    exact h5 hz

theorem jok_of_avalid {s : State} {b : Block} {ref : Nat × Nat → Nat × Out} (hv : AValid s b ref) (κ : Nat × Nat) :
    JOk ((s.utxo.get κ).getD []) (((b.txs.flatMap txIns).filter fun p => refKey ref p = κ).map (toRIn ref)) := by
  have hmem : ∀ j ∈ ((b.txs.flatMap txIns).filter fun p => refKey ref p = κ).map (toRIn ref),
      ∃ p ∈ allIns b, refKey ref p = κ ∧ j = toRIn ref p := by
    intro j hj
    obtain ⟨p, hp, rfl⟩ := List.mem_map.mp hj
    exact ⟨p, (List.mem_filter.mp hp).1, by simpa using (List.mem_filter.mp hp).2, rfl⟩
  refine ⟨?_, ?_, ?_⟩
  · rw [List.map_map]
    have : ((fun x : RIn => x.1) ∘ toRIn ref) = id := by funext p; rfl
    rw [this, List.map_id]
    exact hv.ins_nodup.filter _
  · intro j hj hnz
    obtain ⟨p, hp, hk, rfl⟩ := hmem j hj
    have := hv.present p hp hnz
    rwa [hk] at this
  · intro j hj hz u hu
    obtain ⟨p, hp, hk, rfl⟩ := hmem j hj
    exact hv.absent p hp hz u (by rw [hk]; exact hu)

/-- no output of the block pays the address ⇒ nothing is added to its bucket of the block's height -/
theorem addsAt_nil_of_discAt_nil {b : Block} {ref : Nat × Nat → Nat × Out} {κ : Nat × Nat}
    (hκ : κ.2 = b.height) (hh : ∀ p ∈ allIns b, (ref p).1 ≠ b.height) (hcl : discAt ref b κ = []) :
    addsAt ref b κ = [] := by
  unfold addsAt
  apply List.filter_eq_nil_iff.mpr
  intro op hop hk
  have hk' : op.key = κ := by simpa using hk
  obtain ⟨tx, htx, h⟩ := List.mem_flatMap.mp hop
  unfold pureConnOps at h
  rcases List.mem_append.mp h with h | h
  · obtain ⟨p, hp, rfl⟩ := List.mem_map.mp h
    have hpo : p.2 ∈ tx.outs := (List.of_mem_zip (List.mem_filter.mp hp).1).2
    have : aClear b.height p.2 ∈ discAt ref b κ := by
      unfold discAt
      apply List.mem_filter.mpr
      refine ⟨List.mem_flatMap.mpr ⟨tx, htx, ?_⟩, ?_⟩
      · unfold pureDiscOps
        exact List.mem_append_left _ (List.mem_map.mpr ⟨p.2, hpo, rfl⟩)
      · have : (aClear b.height p.2).key = κ := hk'
        simp [this]
    rw [hcl] at this
    cases this
  · obtain ⟨p, hp, rfl⟩ := List.mem_map.mp h
    have h1 : (ref p).1 = κ.2 := by rw [← hk']; rfl
    exact hh p (mem_allIns_of_txIns htx hp) (h1.trans hκ)

theorem resolve_congr {f g : Nat → Option (Nat × List Out)} (p : Nat × Nat) (h : f p.1 = g p.1) :
    resolve f p = resolve g p := by
  unfold resolve; rw [h]

/-- what a successful connect of a valid block leaves in the two list indexes -/
theorem connect_vals {d d1 : State} {b : Block} (hv : ValidOn d b) (hc : connect d b = .ok d1) :
    d1.tip = b.id ∧ d1.height = b.height ∧ d1.txs = txConnect b d.txs ∧
    (∀ k, getUnspent d1 k = if k ∈ createIds b then getUnspent d1 k else (insAt b k).foldl swapRemove (getUnspent d k)) ∧
    (∀ id ∈ createIds b, getUnspent d1 id ≠ []) ∧
    (∀ κ, (d1.utxo.get κ).getD [] = applyOps (addsAt (refOf d) b κ) ((d.utxo.get κ).getD [])) ∧
    d1.tx3 = (b.txs.foldl saveTx d).tx3 ∧ d1.drafts = (b.txs.foldl saveTx d).drafts ∧
    d1.retdep = (rdHashes b).foldl (fun m h => m.put h ()) d.retdep := by
  obtain ⟨_, _, un, ut, hun, hut, rfl⟩ := connect_inv hc
  have hav := avalid_of_valid hv
  obtain ⟨ut', hut', hval⟩ := utxoConnect_val d b (refOf d) hav.conn_refs
  have : ut' = ut := by rw [hut] at hut'; cases hut'; rfl
  subst this
  refine ⟨rfl, rfl, rfl, ?_, ?_, hval, rfl, rfl, rfl⟩
  · intro k
    by_cases hk : k ∈ createIds b
    · rw [if_pos hk]
    · rw [if_neg hk]
      exact getD_unspentConnect b d.unspent un k hun hv.reg
        (fun tx htx hcr e => hk (mem_createIds.mpr ⟨tx, htx, hcr, e⟩))
  · intro id hid
    obtain ⟨tx, htx, hcr, rfl⟩ := mem_createIds.mp hid
    show (un.get tx.id).getD [] ≠ []
    rw [getD_unspentConnect_created b d.unspent un tx hun hv.reg htx hcr hv.ids_nodup
      (fun p hp => hv.ins_not_own p hp tx htx) (hv.ids_fresh tx htx).2]
    have : tx.outs ≠ [] := by
      intro e; simp [creates, e] at hcr
    cases hl : tx.outs with
    | nil => exact absurd hl this
    | cons a r => simp [List.range_succ]

/-- **Generalised inverse.** Disconnecting `b` from *any* state that reads like "`d` with the valid block
    `b` connected" succeeds and reads like `d`. (`C13_inverse` is the case `s = d1`.) -/
theorem disconnect_of_equiv {d d1 s : State} {b : Block} (hv : ValidOn d b) (hc : connect d b = .ok d1)
    (he : Equiv s d1) : ∃ s', disconnect s b = .ok s' ∧ Equiv s' d := by
  obtain ⟨htip, hheight, htxs, hunv, hcre, hutv, htx3, hdr, hrd⟩ := connect_vals hv hc
  have hav := avalid_of_valid hv
  -- tx index
  have hsame : ∀ k, s.txs.get k = (txConnect b d.txs).get k := fun k => by rw [he.txs k, htxs]
  obtain ⟨tx2, htx2, htx2g⟩ := txDisconnect_ok b.txs s.txs hv.ids_nodup (fun tx htx => by
    rw [hsame]; exact get_txConnect_mem b.txs b.height d.txs tx.id (List.mem_map.mpr ⟨tx, htx, rfl⟩))
  -- unspent index
  have hdisj : ∀ p ∈ allIns b, p.1 ∉ createIds b := by
    intro p hp hin
    obtain ⟨tx, htx, _, e⟩ := mem_createIds.mp hin
    exact hv.ins_not_own p hp tx htx e.symm
  obtain ⟨un2, hun2, hun2v⟩ := unspentDisconnect_val b s.unspent hv.reg hv.ids_nodup
    (fun id hid hnil => by
      have hp := he.unspent id
      unfold getUnspent at hp
      rw [hnil] at hp
      exact hcre id hid hp.symm.eq_nil) hdisj
  -- per-address index
  obtain ⟨ut2, hut2, hut2v⟩ := utxoDisconnect_val s b (refOf d)
    (fun p hp => by
      rw [resolve_congr (g := (txConnect b d.txs).get) p (hsame p.1)]
      exact hav.disc_refs p hp) hav.ref_height
  refine ⟨_, disconnect_intro (he.tip.trans htip) htx2 hun2 hut2, ?_⟩
  obtain ⟨hs3, hsd, _⟩ := foldl_saveTx b.txs d
  obtain ⟨hr3, hrd'⟩ := foldl_rollbackTx b.txs s
  refine ⟨hv.prev, by show b.height - 1 = d.height; rw [hv.height]; omega, ?_, ?_, ?_, ?_, ?_, ?_⟩
  · intro k
    show tx2.get k = d.txs.get k
    rw [htx2g, hsame]
    by_cases hk : k ∈ b.txs.map (·.id)
    · rw [if_pos hk]
      obtain ⟨tx, htx, rfl⟩ := List.mem_map.mp hk
      exact ((hv.ids_fresh tx htx).1).symm
    · rw [if_neg hk]
      exact get_txConnect_not_mem b.txs b.height d.txs k hk
  · intro k
    show ((un2.get k).getD []).Perm (getUnspent d k)
    rw [hun2v]
    by_cases hk : k ∈ createIds b
    · rw [if_pos hk]
      obtain ⟨tx, htx, _, rfl⟩ := mem_createIds.mp hk
      rw [(hv.ids_fresh tx htx).2]
    · rw [if_neg hk]
      have h1 : ((s.unspent.get k).getD []).Perm ((insAt b k).foldl swapRemove (getUnspent d k)) := by
        have := he.unspent k
        rw [hunv k, if_neg hk] at this
        exact this
      exact (h1.append_right _).trans (foldl_swapRemove_append_perm (insAt b k) _ (insAt_nodup b k hv.ins_nodup)
        (fun i hi => hv.ins_unspent (k, i) (mem_insAt.mp hi)))
  · intro κ
    show ((ut2.get κ).getD []).Perm ((d.utxo.get κ).getD [])
    rw [hut2v]
    have hs1 : ((s.utxo.get κ).getD []).Perm (applyOps (addsAt (refOf d) b κ) ((d.utxo.get κ).getD [])) := by
      have := he.utxo κ
      rw [hutv κ] at this
      exact this
    by_cases hκ : κ.2 = b.height
    · rw [if_pos hκ]
      have hd0 : (d.utxo.get κ).getD [] = [] := by
        have := hv.utxo_empty_at_height κ.1
        rwa [← hκ] at this
      by_cases hcl : discAt (refOf d) b κ = []
      · rw [if_pos hcl]
        rw [addsAt_nil_of_discAt_nil hκ hav.ref_height hcl] at hs1
        exact hs1
      · rw [if_neg hcl, hd0]
    · rw [if_neg hκ]
      have h2 : applyOps (addsAt (refOf d) b κ) ((d.utxo.get κ).getD []) =
          (((b.txs.flatMap txIns).filter fun p => refKey (refOf d) p = κ).map (toRIn (refOf d))).foldl
            (fun l j => swapRemoveP (matchIn j.1) l) ((d.utxo.get κ).getD []) :=
        applyOps_conn_filter (refOf d) b.height b.txs κ hκ _
      rw [h2] at hs1
      exact (hs1.append_right _).trans
        (foldl_swapRemoveP_restore_perm _ _ (hv.utxo_keys_nodup κ) (jok_of_avalid hav κ))
  · intro k
    show (b.txs.foldl rollbackTx s).tx3.get k = d.tx3.get k
    rw [hr3, Map.get_foldl_del_keys]
    have hroll : b.txs.flatMap rolledTx3 = b.txs.flatMap savedTx3 := by congr 1
    rw [hroll]
    by_cases hk : k ∈ b.txs.flatMap savedTx3
    · rw [if_pos hk]
      obtain ⟨tx, htx, hin⟩ := List.mem_flatMap.mp hk
      exact (hv.tx3_fresh tx htx k hin).symm
    · rw [if_neg hk, he.tx3, htx3, hs3, Map.get_foldl_put_keys, if_neg hk]
  · intro k
    show ((rdHashes b).foldl (fun m h => m.del h) s.retdep).get k = d.retdep.get k
    rw [Map.get_foldl_del_keys]
    by_cases hk : k ∈ rdHashes b
    · rw [if_pos hk]; exact (hv.retdep_fresh k hk).symm
    · rw [if_neg hk, he.retdep, hrd, Map.get_foldl_put_keys, if_neg hk]
  · intro k
    show (b.txs.foldl rollbackTx s).drafts.get k = d.drafts.get k
    rw [hrd', Map.get_foldl_del_pairs]
    by_cases hk : k ∈ (b.txs.flatMap draftPairs).map (·.1)
    · rw [if_pos hk]
      obtain ⟨p, hp, rfl⟩ := List.mem_map.mp hk
      obtain ⟨tx, htx, hin⟩ := List.mem_flatMap.mp hp
      exact (hv.drafts_fresh tx htx p hin).symm
    · rw [if_neg hk, he.drafts, hdr, hsd, Map.get_foldl_put_pairs_of_not_mem _ _ _ hk]

theorem refOf_congr {s d : State} (h : ∀ k, s.txs.get k = d.txs.get k) : refOf s = refOf d := by
  funext p; unfold refOf; rw [h]

theorem connect_created_val {d d1 : State} {b : Block} (hv : ValidOn d b) (hc : connect d b = .ok d1)
    (tx : Tx) (htx : tx ∈ b.txs) (hcr : creates tx = true) : getUnspent d1 tx.id = List.range tx.outs.length := by
  obtain ⟨_, _, un, ut, hun, _, rfl⟩ := connect_inv hc
  exact getD_unspentConnect_created b d.unspent un tx hun hv.reg htx hcr hv.ids_nodup
    (fun p hp => hv.ins_not_own p hp tx htx) (hv.ids_fresh tx htx).2

/-- **Connect respects observational equality.** -/
theorem connect_congr {s d : State} {b : Block} (hv : ValidOn d b) (he : Equiv s d) :
    ∃ s1 d1, connect s b = .ok s1 ∧ connect d b = .ok d1 ∧ Equiv s1 d1 := by
  have hvs : ValidOn s b := validOn_of_equiv hv he
  obtain ⟨s1, _, hcs, _, _⟩ := C13_inverse s b hvs
  obtain ⟨d1, _, hcd, _, _⟩ := C13_inverse d b hv
  refine ⟨s1, d1, hcs, hcd, ?_⟩
  obtain ⟨stip, shei, stxs, sunv, _, sutv, stx3, sdr, srd⟩ := connect_vals hvs hcs
  obtain ⟨dtip, dhei, dtxs, dunv, _, dutv, dtx3, ddr, drd⟩ := connect_vals hv hcd
  have href : refOf s = refOf d := refOf_congr he.txs
  rw [href] at sutv
  refine ⟨stip.trans dtip.symm, shei.trans dhei.symm, ?_, ?_, ?_, ?_, ?_, ?_⟩
  · intro k
    rw [stxs, dtxs]
    exact Map.foldl_same (fun m (tx : Tx) => m.put tx.id (b.height, tx.outs))
      (fun m m' x h => Map.same_put m m' _ _ h) b.txs _ _ he.txs k
  · intro k
    by_cases hk : k ∈ createIds b
    · obtain ⟨tx, htx, hcr, rfl⟩ := mem_createIds.mp hk
      rw [connect_created_val hvs hcs tx htx hcr, connect_created_val hv hcd tx htx hcr]
    · rw [sunv k, dunv k, if_neg hk, if_neg hk]
      exact (foldl_swapRemove_perm (insAt b k) _ _ (he.unspent k)).trans
        (foldl_swapRemove_perm (insAt b k) _ _ (List.Perm.refl _)).symm
  · intro κ
    rw [sutv κ, dutv κ]
    by_cases hκ : κ.2 = b.height
    · have h1 : (s.utxo.get κ).getD [] = [] := by
        have := hvs.utxo_empty_at_height κ.1; rwa [← hκ] at this
      have h2 : (d.utxo.get κ).getD [] = [] := by
        have := hv.utxo_empty_at_height κ.1; rwa [← hκ] at this
      rw [h1, h2]
    · have e1 := applyOps_conn_filter (refOf d) b.height b.txs κ hκ ((s.utxo.get κ).getD [])
      have e2 := applyOps_conn_filter (refOf d) b.height b.txs κ hκ ((d.utxo.get κ).getD [])
      unfold addsAt
      rw [e1, e2]
      exact (foldl_swapRemoveP_perm _ _ _ (he.utxo κ) (hvs.utxo_keys_nodup κ)).trans
        (foldl_swapRemoveP_perm _ _ _ (List.Perm.refl _) (hv.utxo_keys_nodup κ)).symm
  · intro k
    rw [stx3, dtx3, (foldl_saveTx b.txs s).1, (foldl_saveTx b.txs d).1]
    exact Map.foldl_same (fun m (h : Nat) => m.put h ()) (fun m m' x h => Map.same_put m m' _ _ h) _ _ _ he.tx3 k
  · intro k
    rw [srd, drd]
    exact Map.foldl_same (fun m (h : Nat) => m.put h ()) (fun m m' x h => Map.same_put m m' _ _ h) _ _ _ he.retdep k
  · intro k
    rw [sdr, ddr, (foldl_saveTx b.txs s).2.1, (foldl_saveTx b.txs d).2.1]
    exact Map.foldl_same (fun m (p : Nat × String) => m.put p.1 p.2)
      (fun m m' x h => Map.same_put m m' _ _ h) _ _ _ he.drafts k

/-! ### histories -/

/-- states the index model can reach from `s0` by connecting valid blocks and disconnecting the tip
    block, with the stack of connected blocks (tip first) -/
inductive Reach (s0 : State) : State → List Block → Prop
  | base : Reach s0 s0 []
  | conn {s s' : State} {st : List Block} {b : Block} :
      Reach s0 s st → ValidOn s b → connect s b = .ok s' → Reach s0 s' (b :: st)
  | disc {s s' : State} {st : List Block} {b : Block} :
      Reach s0 s (b :: st) → disconnect s b = .ok s' → Reach s0 s' st

/-- the state built directly: the stack's blocks connected in order, nothing ever disconnected -/
inductive Direct (s0 : State) : List Block → State → Prop
  | nil : Direct s0 [] s0
  | cons {d d' : State} {st : List Block} {b : Block} :
      Direct s0 st d → ValidOn d b → connect d b = .ok d' → Direct s0 (b :: st) d'

theorem res_ok_inj {α : Type} {a b : α} (h : (Res.ok a : Res α) = Res.ok b) : a = b := by cases h; rfl

/-- **Rollback = direct build, over whole histories.** Whatever sequence of connects and disconnects led
    to a state, it reads exactly like the state obtained by connecting the blocks of the current stack
    directly. -/
theorem reach_equiv_direct {s0 s : State} {st : List Block} (h : Reach s0 s st) :
    ∃ d, Direct s0 st d ∧ Equiv s d := by
  induction h with
  | base => exact ⟨s0, .nil, Equiv.refl _⟩
  | conn hr hv hc ih =>
    obtain ⟨d, hd, he⟩ := ih
    have hvd := validOn_of_equiv hv (Equiv.symm he)
    obtain ⟨s1, d1, hcs, hcd, he1⟩ := connect_congr hvd he
    have : s1 = _ := res_ok_inj (hcs.symm.trans hc)
    subst this
    exact ⟨d1, .cons hd hvd hcd, he1⟩
  | disc hr hdisc ih =>
    obtain ⟨d1, hd1, he⟩ := ih
    cases hd1 with
    | cons hd hv hc =>
      obtain ⟨s', hs', he'⟩ := disconnect_of_equiv hv hc he
      have : s' = _ := res_ok_inj (hs'.symm.trans hdisc)
      subst this
      exact ⟨_, hd, he'⟩

/-- … and a disconnect of the tip block never fails on a reachable state -/
theorem reach_disconnect_ok {s0 s : State} {st : List Block} {b : Block} (h : Reach s0 s (b :: st)) :
    ∃ s', disconnect s b = .ok s' := by
  obtain ⟨d1, hd1, he⟩ := reach_equiv_direct h
  cases hd1 with
  | cons hd hv hc =>
    obtain ⟨s', hs', _⟩ := disconnect_of_equiv hv hc he
    exact ⟨s', hs'⟩

end ElaVerif.Index
