import ElaVerif.Model.P2PCodec
import ElaVerif.Lemmas.Wire
import ElaVerif.Lemmas.Tx
import ElaVerif.Lemmas.Bloom
/-! Round trip of every modelled P2P message codec. -/
namespace ElaVerif.P2PCodec
open ElaVerif.Wire ElaVerif.WireSchemas ElaVerif.Tx

theorem flags_at (f : Bloom.Filter) (flags : UInt8) :
    (Bloom.encodeFilterLoad f flags).getD (flagsOffset f) 0 = flags := by
  unfold Bloom.encodeFilterLoad flagsOffset
  have h : Bloom.writeVarUint f.bits.length ++ f.bits ++ Bloom.leBytes 4 f.hashFuncs.toNat ++ Bloom.leBytes 4 f.tweak.toNat ++
      [flags] ++ Bloom.writeVarUint f.txTypes.length ++ f.txTypes =
      (Bloom.writeVarUint f.bits.length ++ f.bits ++ Bloom.leBytes 4 f.hashFuncs.toNat ++ Bloom.leBytes 4 f.tweak.toNat) ++
      (flags :: (Bloom.writeVarUint f.txTypes.length ++ f.txTypes)) := by simp
  rw [h, List.getD_eq_getElem?_getD, List.getElem?_append_right (by simp [Bloom.leBytes_length]; omega)]
  simp [Bloom.leBytes_length]
  have : (Bloom.writeVarUint f.bits.length).length + f.bits.length + 8 -
      ((Bloom.writeVarUint f.bits.length).length + (f.bits.length + 8)) = 0 := by omega
  rw [this]; rfl

/-- `Deserialize (Serialize m) = m` for every modelled layout and every well-formed message. -/
theorem decodeMsg_encodeMsg (l : Layout) (m : Msg) (h : wfMsg l m = true) :
    decodeMsg l (encodeMsg l m) = some m := by
  cases l with
  | schema ty =>
    cases m <;> simp only [wfMsg] at h <;> try cases h
    rename_i v
    have := decode_encode ty v [] h
    rw [List.append_nil] at this
    simp [decodeMsg, encodeMsg, decode, this]
  | tx =>
    cases m <;> simp only [wfMsg] at h <;> try cases h
    rename_i t
    have := decodeTx_encodeTx t [] h
    rw [List.append_nil] at this
    simp [decodeMsg, encodeMsg, this]
  | block =>
    cases m <;> simp only [wfMsg] at h <;> try cases h
    rename_i b
    have := decodeBlock_encodeBlock b [] h
    rw [List.append_nil] at this
    simp [decodeMsg, encodeMsg, this]
  | dposBlock =>
    cases m <;> simp only [wfMsg] at h <;> try cases h
    rename_i b c
    simp only [Bool.and_eq_true] at h
    have h1 := decodeBlock_encodeBlock b (encode confirmTag c) h.1
    have h2 := decode_encode confirmTag c [] h.2
    rw [List.append_nil] at h2
    simp [decodeMsg, encodeMsg, decode, h1, h2]
  | version =>
    cases m <;> simp only [wfMsg] at h <;> try cases h
    rename_i fx nv
    simp only [Bool.and_eq_true] at h
    by_cases hv : versionNum fx ≥ crProposalVersion
    · rw [if_pos hv] at h
      have h1 := decode_encode versionFixed fx (encode varString nv) h.1
      have h2 := decode_encode varString nv [] h.2
      rw [List.append_nil] at h2
      simp [decodeMsg, encodeMsg, decode, hv, h1, h2]
    · rw [if_neg hv] at h
      have h1 := decode_encode versionFixed fx [] h.1
      rw [List.append_nil] at h1
      have hn : nv = .unit := by
        have := h.2
        cases nv <;> simp at this
        rfl
      simp [decodeMsg, encodeMsg, decode, hv, h1, hn]
  | filterLoad =>
    cases m <;> simp only [wfMsg] at h <;> try cases h
    rename_i f flags
    simp only [Bool.and_eq_true, decide_eq_true_eq] at h
    have h1 := Bloom.loadFilter_encode f flags h.1.1 h.1.2 h.2
    have hf := flags_at f flags
    rw [List.getD_eq_getElem?_getD] at hf
    simp [decodeMsg, encodeMsg, h1, hf]

end ElaVerif.P2PCodec
