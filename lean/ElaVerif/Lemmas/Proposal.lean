import ElaVerif.Model.Proposal
/-!
Helper lemmas and auxiliary definitions for C29.
-/
namespace ElaVerif.Proposal

theorem total_ins (b : BEntry) (l : List BEntry) : total (insByStage b l) = b.amount + total l := by
  induction l with
  | nil => simp [insByStage, total]
  | cons c t ih =>
    simp only [insByStage]
    split
    · simp [total]
    · have : total (c :: insByStage b t) = c.amount + total (insByStage b t) := by simp [total]
      rw [this, ih]; simp [total]; omega

theorem total_sort (bs : List BEntry) : total (sortByStage bs) = total bs := by
  induction bs with
  | nil => rfl
  | cons b t ih =>
    have : sortByStage (b :: t) = insByStage b (sortByStage t) := by simp [sortByStage]
    rw [this, total_ins, ih]; simp [total]

/-- an accepted proposal fits into what is left after the proposals accepted before it in the block -/
theorem checkPropose_none (s0 : State) (acc : Int) (bs : List BEntry)
    (h : checkPropose s0 acc bs = none) : 0 ≤ total bs ∧ total bs ≤ s0.stage - s0.used - acc := by
  unfold checkPropose at h
  split at h
  · cases h
  · rename_i b0 rest hs
    simp only at h
    repeat (first | (split at h; (first | cases h | skip)) )
    all_goals (try cases h)
    all_goals (rw [← total_sort bs, hs]; omega)

/-- all proposals of a block, each checked against the running block total. -/
def acceptAll (s0 : State) : Int → List (List BEntry) → Prop
  | _, [] => True
  | acc, bs :: t => checkPropose s0 acc bs = none ∧ acceptAll s0 (acc + total bs) t

def sumTotals : List (List BEntry) → Int
  | [] => 0
  | bs :: t => total bs + sumTotals t

theorem acceptAll_bound (s0 : State) : ∀ (bss : List (List BEntry)) (acc : Int),
    0 ≤ s0.stage - s0.used - acc → acceptAll s0 acc bss →
    0 ≤ sumTotals bss ∧ acc + sumTotals bss ≤ s0.stage - s0.used := by
  intro bss
  induction bss with
  | nil => intro acc h0 _; simp [sumTotals]; omega
  | cons bs t ih =>
    intro acc h0 h
    obtain ⟨h1, h2⟩ := h
    obtain ⟨ha, hb⟩ := checkPropose_none s0 acc bs h1
    obtain ⟨hc, hd⟩ := ih (acc + total bs) (by omega) h2
    simp only [sumTotals]; omega

/-- proposal record well-formed: stages distinct (enforced at registration), amounts ≥ 0,
    withdrawn ⊆ withdrawable, and everything recorded for payment is a withdrawn stage. -/
def PropOK (p : Prop') : Prop :=
  (p.budgets.map (·.stage)).Nodup ∧ (∀ b ∈ p.budgets, 0 ≤ b.amount) ∧
  (∀ b ∈ p.budgets, b.wn = true → b.w = true) ∧ p.paid = withdrawnSum p.budgets

theorem stage_inj : ∀ (l : List BEntry), (l.map (·.stage)).Nodup → ∀ a ∈ l, ∀ b ∈ l, a.stage = b.stage → a = b := by
  intro l
  induction l with
  | nil => intro _ a ha; cases ha
  | cons x t ih =>
    intro hnd a ha b hb hab
    simp only [List.map_cons, List.nodup_cons] at hnd
    obtain ⟨hx, ht⟩ := hnd
    rcases List.mem_cons.mp ha with rfl | ha' <;> rcases List.mem_cons.mp hb with rfl | hb'
    · rfl
    · exact absurd (List.mem_map.mpr ⟨b, hb', hab.symm⟩) hx
    · exact absurd (List.mem_map.mpr ⟨a, ha', hab⟩) hx
    · exact ih ht a ha' b hb' hab

theorem mem_withdrawing (bs : List BEntry) (hnd : (bs.map (·.stage)).Nodup) (b : BEntry) (hb : b ∈ bs) :
    b.stage ∈ withdrawing bs ↔ (b.w = true ∧ b.wn = false) := by
  simp only [withdrawing, List.mem_map, List.mem_filter]
  constructor
  · rintro ⟨b', ⟨hb', hf⟩, hst⟩
    have : b' = b := stage_inj bs hnd b' hb' b hb hst
    subst this
    simpa using hf
  · intro h
    exact ⟨b, ⟨hb, by simpa using h⟩, rfl⟩

theorem withdrawnSum_mark (S : List Nat) : ∀ (l : List BEntry),
    (∀ b ∈ l, (b.stage ∈ S ↔ (b.w = true ∧ b.wn = false))) →
    withdrawnSum (markWn S l) = withdrawnSum l + avail l := by
  intro l
  induction l with
  | nil => intro _; simp [markWn, withdrawnSum, avail]
  | cons x t ih =>
    intro h
    have hx := h x (by simp)
    have ht := ih (fun b hb => h b (by simp [hb]))
    have e1 : withdrawnSum (markWn S (x :: t)) =
        (if (if x.stage ∈ S then { x with wn := true } else x).wn then x.amount else 0) + withdrawnSum (markWn S t) := by
      simp only [markWn, List.map_cons, withdrawnSum, List.foldr_cons]
      split <;> rfl
    have e2 : withdrawnSum (x :: t) = (if x.wn then x.amount else 0) + withdrawnSum t := by simp [withdrawnSum]
    have e3 : avail (x :: t) = (if x.w ∧ ¬ x.wn then x.amount else 0) + avail t := by simp [avail]
    rw [e1, e2, e3, ht]
    by_cases hs : x.stage ∈ S
    · obtain ⟨hw, hn⟩ := hx.mp hs
      simp [hs, hw, hn]; omega
    · have hno : ¬ (x.w = true ∧ x.wn = false) := fun hh => hs (hx.mpr hh)
      cases hwn : x.wn <;> cases hw : x.w <;> simp [hs, hwn, hw] at hno ⊢ <;> omega

theorem withdrawnSum_le_total : ∀ (l : List BEntry), (∀ b ∈ l, 0 ≤ b.amount) → withdrawnSum l ≤ total l := by
  intro l
  induction l with
  | nil => intro _; simp [withdrawnSum, total]
  | cons x t ih =>
    intro h
    have hx := h x (by simp)
    have ht := ih (fun b hb => h b (by simp [hb]))
    have e2 : withdrawnSum (x :: t) = (if x.wn then x.amount else 0) + withdrawnSum t := by simp [withdrawnSum]
    have e3 : total (x :: t) = x.amount + total t := by simp [total]
    rw [e2, e3]; split <;> omega


end ElaVerif.Proposal
