import ElaVerif.Model.CoinbaseTotal
import ElaVerif.Lemmas.Script
/-! Helper lemmas about `Model/CoinbaseTotal.lean` (C03). Core Lean only. -/
namespace ElaVerif.CoinbaseTotal
open ElaVerif.Script

theorem outAt_lt {outs : List Out} {i : Nat} (h : i < outs.length) : outAt outs i = .val outs[i] := by
  simp [outAt, h]

theorem checkCtx_total (e : Env) (outs : List Out) (h : 2 ≤ outs.length) : checkCtx e outs ≠ .panic := by
  unfold checkCtx
  simp only []
  cases e.regime with
  | v2 =>
    simp only []
    rw [outAt_lt (by omega : 0 < outs.length), outAt_lt (by omega : 1 < outs.length)]
    simp only [R.bind_val]
    apply ite_np (fun _ => val_np _); intro _
    apply ite_np (fun _ => val_np _); intro _
    apply ite_np (fun _ => val_np _); intro h3
    have h3' : outs.length = 3 := by omega
    rw [outAt_lt (by omega : 2 < outs.length)]
    simp only [R.bind_val]
    apply ite_np (fun _ => val_np _); intro _
    cases e.pow
    · simp only [Bool.false_eq_true, if_false, R.bind_val]
      apply ite_np (fun _ => val_np _); intro _
      exact ite_np (fun _ => val_np _) (fun _ => val_np _)
    · simp only [if_true, R.bind_val]
      apply ite_np (fun _ => val_np _); intro _
      exact ite_np (fun _ => val_np _) (fun _ => val_np _)
  | pub =>
    simp only []
    rw [outAt_lt (by omega : 0 < outs.length), outAt_lt (by omega : 1 < outs.length)]
    simp only [R.bind_val]
    exact ite_np (fun _ => val_np _) (fun _ => val_np _)
  | old =>
    simp only []
    exact ite_np (fun _ => val_np _) (fun _ => val_np _)

theorem sanityThenCtx_total (e : Env) (outs : List Out) : sanityThenCtx e outs ≠ .panic := by
  unfold sanityThenCtx
  apply ite_np (fun _ => val_np _); intro hs
  have h2 : 2 ≤ outs.length := by
    simp [sanityRejects] at hs; omega
  cases hc : checkCtx e outs with
  | panic => exact absurd hc (checkCtx_total e outs h2)
  | val r => exact val_np _

theorem signerLoop_total (validate : Bool) (nArb : Nat) : ∀ (signers seen : List Nat),
    signerLoop true validate nArb signers seen ≠ .panic
  | [], _ => by unfold signerLoop; exact val_np _
  | i :: rest, seen => by
    unfold signerLoop
    apply ite_np (fun _ => val_np _); intro h1
    apply ite_np (fun _ => val_np _); intro _
    have : ¬ i ≥ nArb := by intro hge; apply h1; simp [hge]
    rw [if_neg this]
    exact signerLoop_total validate nArb rest _


end ElaVerif.CoinbaseTotal

namespace ElaVerif.CoinbaseTotal
open ElaVerif.Script

theorem blockSanityHead_total (b : BlockIn) : blockSanityHead false b ≠ .panic := by
  unfold blockSanityHead
  simp only [Bool.false_eq_true, if_false]
  apply ite_np (fun _ => val_np _); intro _
  apply ite_np (fun _ => val_np _); intro _
  apply ite_np (fun _ => val_np _); intro _
  apply ite_np (fun _ => val_np _); intro hl
  apply ite_np (fun _ => val_np _); intro _
  apply ite_np (fun _ => val_np _); intro _
  apply ite_np (fun _ => val_np _); intro _
  cases htx : b.txs with
  | nil => rw [htx] at hl; simp at hl
  | cons t0 rest =>
    simp only []
    apply ite_np (fun _ => val_np _); intro _
    exact ite_np (fun _ => val_np _) (fun _ => val_np _)

theorem rdLoop_total : ∀ (progs : List (Bytes × Bool)), (∀ x ∈ progs, 2 ≤ x.1.length) → rdLoop false progs ≠ .panic
  | [], _ => by unfold rdLoop; exact val_np _
  | (code, reg) :: rest, h => by
    unfold rdLoop
    have hc := h (code, reg) (by simp)
    cases hm : isMultiSig true code with
    | panic => exact absurd hm (isMultiSig_total code)
    | val ms =>
      simp only [R.bind_val]
      have ih := rdLoop_total rest (fun x hx => h x (by simp [hx]))
      cases ms
      · simp only [Bool.false_eq_true, if_false]
        rw [if_neg (by simp at hc; omega)]
        exact ite_np (fun _ => val_np _) (fun _ => ih)
      · simp only [if_true]
        apply ite_np
        · intro _; simp only [Bool.false_eq_true, if_false]; exact val_np _
        · intro _; exact ih

theorem returnDepositCheck_total (addrCount : Nat) (progs : List (Bytes × Bool)) (ov : Bool)
    (h : ∀ x ∈ progs, 2 ≤ x.1.length) : returnDepositCheck false addrCount progs ov ≠ .panic := by
  unfold returnDepositCheck
  apply ite_np (fun _ => val_np _); intro _
  cases hr : rdLoop false progs with
  | panic => exact absurd hr (rdLoop_total progs h)
  | val r =>
    simp only [R.bind_val]
    cases r with
    | some e => exact val_np _
    | none => exact ite_np (fun _ => val_np _) (fun _ => val_np _)

end ElaVerif.CoinbaseTotal

namespace ElaVerif.CoinbaseTotal
open ElaVerif.Script

theorem registerCRKey_total (code : Bytes) : registerCRKey true code ≠ .panic := by
  unfold registerCRKey
  apply ite_np (fun _ => val_np _); intro h0
  cases hs : isSchnorr code with
  | panic => exact absurd hs (isSchnorr_total code)
  | val sch =>
    simp only [R.bind_val]
    cases sch
    · simp only [Bool.false_eq_true, if_false]
      rw [idx_lt (by omega)]
      simp only [R.bind_val]
      apply ite_np
      · intro hc
        have : 2 ≤ code.length := by
          rcases hc.1 with h | h
          · simp at h
          · exact h
        exact ite_np (fun h => by omega) (fun _ => val_np _)
      · intro _; exact ite_np (fun _ => val_np _) (fun _ => val_np _)
    · simp only [if_true]
      have : code.length = 35 := by
        unfold isSchnorr at hs
        split at hs
        · cases hs
        · omega
      exact ite_np (fun h => by omega) (fun _ => val_np _)

theorem crcArbitersMN_total (code : Bytes) : crcArbitersMN true code ≠ .panic := by
  unfold crcArbitersMN
  apply ite_np (fun _ => val_np _); intro hg
  have h2 : 2 ≤ code.length := by
    apply Classical.byContradiction; intro hc; apply hg; exact ⟨rfl, by omega⟩
  rw [if_neg (by omega), idx_lt (by omega), idx_lt (by omega)]
  exact val_np _

end ElaVerif.CoinbaseTotal

namespace ElaVerif.CoinbaseTotal
open ElaVerif.Script

theorem crossChainIndex_total (nOut idx : Nat) : crossChainIndex true nOut idx ≠ .panic := by
  unfold crossChainIndex
  simp only [if_true]
  apply ite_np (fun _ => val_np _); intro h
  have : idx < nOut := by simp at h; omega
  rw [if_pos this]; exact val_np _

theorem revertToDPOSCheck_total (nPrograms : Nat) (code : Bytes) : revertToDPOSCheck true nPrograms code ≠ .panic := by
  unfold revertToDPOSCheck
  apply ite_np (fun _ => val_np _); intro h
  have : nPrograms ≠ 0 := by intro h0; apply h; exact ⟨rfl, h0⟩
  rw [if_neg this]
  exact crcArbitersMN_total code

end ElaVerif.CoinbaseTotal

namespace ElaVerif.CoinbaseTotal
open ElaVerif.Script

theorem keyAt_lt {l : List Nat} {i : Nat} (h : i < l.length) : ∃ k, keyAt l i = .val k := by
  simp [keyAt, h]

theorem nextSameLoop_total (cr dpos : List Nat) : ∀ (next : List NextArb) (ci di : Nat),
    nextSameLoop true cr dpos next ci di ≠ .panic
  | [], _, _ => by unfold nextSameLoop; exact val_np _
  | v :: rest, ci, di => by
    unfold nextSameLoop
    cases v.isCRC
    · simp only [Bool.false_eq_true, if_false]
      apply ite_np (fun _ => val_np _); intro h
      have hl : di < dpos.length := by
        apply Classical.byContradiction; intro hc; apply h; exact ⟨trivial, by omega⟩
      obtain ⟨k, hk⟩ := keyAt_lt hl
      rw [hk]; simp only [R.bind_val]
      exact ite_np (fun _ => nextSameLoop_total cr dpos rest _ _) (fun _ => val_np _)
    · simp only [if_true]
      apply ite_np (fun _ => val_np _); intro h
      have hl : ci < cr.length := by
        apply Classical.byContradiction; intro hc; apply h; exact ⟨trivial, by omega⟩
      obtain ⟨k, hk⟩ := keyAt_lt hl
      rw [hk]; simp only [R.bind_val]
      exact ite_np (fun _ => nextSameLoop_total cr dpos rest _ _) (fun _ => val_np _)

theorem nextSame_total (cr dpos : List Nat) (next : List NextArb) : nextSame true cr dpos next ≠ .panic := by
  unfold nextSame
  exact ite_np (fun _ => val_np _) (fun _ => nextSameLoop_total cr dpos next 0 0)

theorem v1Loop_total (keys : List Nat) : ∀ (l : List (Nat × Bool)) (i : Nat), i + l.length ≤ keys.length →
    v1Loop keys l i ≠ .panic
  | [], _, _ => by unfold v1Loop; exact val_np _
  | (id, e) :: rest, i, h => by
    unfold v1Loop
    obtain ⟨k, hk⟩ := keyAt_lt (l := keys) (i := i) (by simp at h; omega)
    rw [hk]; simp only [R.bind_val]
    exact ite_np (fun _ => v1Loop_total keys rest (i + 1) (by simp at h ⊢; omega)) (fun _ => val_np _)

theorem nextSameV1_total (cr dpos : List Nat) (next nextCRC : List (Nat × Bool)) :
    nextSameV1 true cr dpos next nextCRC ≠ .panic := by
  unfold nextSameV1
  apply ite_np (fun _ => val_np _); intro hl
  cases ha : v1Loop dpos next 0 with
  | panic => exact absurd ha (v1Loop_total dpos next 0 (by omega))
  | val a =>
    simp only [R.bind_val]
    apply ite_np (fun _ => val_np _); intro _
    apply ite_np (fun _ => val_np _); intro hg
    exact v1Loop_total cr nextCRC 0 (by
      have : ¬ cr.length < nextCRC.length := by intro hc; apply hg; exact ⟨trivial, hc⟩
      omega)

end ElaVerif.CoinbaseTotal
