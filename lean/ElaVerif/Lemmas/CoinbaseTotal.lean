import ElaVerif.Model.CoinbaseTotal
import ElaVerif.Lemmas.Script
/-! Helper lemmas about `Model/CoinbaseTotal.lean` (C03). Core Lean only. -/
namespace ElaVerif.CoinbaseTotal
open ElaVerif.Script

theorem outAt_lt {outs : List Out} {i : Nat} (h : i < outs.length) : outAt outs i = .val outs[i] := by
  simp [outAt, h]

theorem checkCtx_total (e : Env) (outs : List Out) (h : 2 ≤ outs.length) : checkCtx e outs ≠ .panic := by
  unfold checkCtx
  simp only []
  cases e.regime with
  | v2 =>
    simp only []
    rw [outAt_lt (by omega : 0 < outs.length), outAt_lt (by omega : 1 < outs.length)]
    simp only [R.bind_val]
    apply ite_np (fun _ => val_np _); intro _
    apply ite_np (fun _ => val_np _); intro _
    apply ite_np (fun _ => val_np _); intro h3
    have h3' : outs.length = 3 := by omega
    rw [outAt_lt (by omega : 2 < outs.length)]
    simp only [R.bind_val]
    apply ite_np (fun _ => val_np _); intro _
    cases e.pow
    · simp only [Bool.false_eq_true, if_false, R.bind_val]
      apply ite_np (fun _ => val_np _); intro _
      exact ite_np (fun _ => val_np _) (fun _ => val_np _)
    · simp only [if_true, R.bind_val]
      apply ite_np (fun _ => val_np _); intro _
      exact ite_np (fun _ => val_np _) (fun _ => val_np _)
  | pub =>
    simp only []
    rw [outAt_lt (by omega : 0 < outs.length), outAt_lt (by omega : 1 < outs.length)]
    simp only [R.bind_val]
    exact ite_np (fun _ => val_np _) (fun _ => val_np _)
  | old =>
    simp only []
    exact ite_np (fun _ => val_np _) (fun _ => val_np _)

theorem sanityThenCtx_total (e : Env) (outs : List Out) : sanityThenCtx e outs ≠ .panic := by
  unfold sanityThenCtx
  apply ite_np (fun _ => val_np _); intro hs
  have h2 : 2 ≤ outs.length := by
    simp [sanityRejects] at hs; omega
  cases hc : checkCtx e outs with
  | panic => exact absurd hc (checkCtx_total e outs h2)
  | val r => exact val_np _

theorem signerLoop_total (validate : Bool) (nArb : Nat) : ∀ (signers seen : List Nat),
    signerLoop true validate nArb signers seen ≠ .panic
  | [], _ => by unfold signerLoop; exact val_np _
  | i :: rest, seen => by
    unfold signerLoop
    apply ite_np (fun _ => val_np _); intro h1
    apply ite_np (fun _ => val_np _); intro _
    have : ¬ i ≥ nArb := by intro hge; apply h1; simp [hge]
    rw [if_neg this]
    exact signerLoop_total validate nArb rest _


end ElaVerif.CoinbaseTotal
