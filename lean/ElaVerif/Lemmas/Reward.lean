import ElaVerif.Model.Reward
import ElaVerif.Lemmas.Fixed64
/-!
  Helper lemmas for C11 (schedule arithmetic, coinbase check case analysis).
-/
namespace ElaVerif.Reward
open ElaVerif.Fixed64

theorem shiftRight_anti (b : Nat) {k1 k2 : Nat} (h : k1 ≤ k2) : b >>> k2 ≤ b >>> k1 := by
  rw [Nat.shiftRight_eq_div_pow, Nat.shiftRight_eq_div_pow]
  exact Nat.div_le_div_left (Nat.pow_le_pow_right (by decide) h) (Nat.two_pow_pos k1)

theorem halvings_small (f : Nat) (h1 : 1 ≤ f) (h2 : f < u32) : halvings f = f - 1 := by
  unfold halvings u32 at *
  omega

theorem reward_new (p : Params) (h : Nat) (hnew : p.newIssuanceHeight ≤ h) :
    blockReward p h = match factor p h with
      | none => none
      | some f => some (Int.ofNat (p.base >>> halvings f)) := by
  unfold blockReward
  have : ¬ h < p.newIssuanceHeight := by omega
  simp only [this, if_false]
  cases factor p h <;> rfl

theorem factor_halving (p : Params) (h : Nat) (hI : 2 ≤ p.halvingInterval)
    (hh : p.halvingHeight ≤ h) (hu : h < u32) :
    factor p h = some (2 + (h - p.halvingHeight) / p.halvingInterval) := by
  unfold factor
  have h1 : ¬ h < p.halvingHeight := by omega
  have h2 : ¬ p.halvingInterval = 0 := by omega
  simp only [h1, h2, if_false]
  have : (h - p.halvingHeight) / p.halvingInterval ≤ (h - p.halvingHeight) / 2 :=
    Nat.div_le_div_left hI (by omega)
  congr 1
  apply Nat.mod_eq_of_lt
  generalize (h - p.halvingHeight) / p.halvingInterval = q at *
  unfold u32 at *
  omega

/-- factor as a plain (unwrapped) number, monotone in the height -/
theorem factor_plain (p : Params) (h : Nat) (hI : 2 ≤ p.halvingInterval) (hu : h < u32) :
    ∃ f, factor p h = some f ∧ 1 ≤ f ∧ f < u32 ∧
      f = if h < p.halvingHeight then 1 else 2 + (h - p.halvingHeight) / p.halvingInterval := by
  by_cases hh : h < p.halvingHeight
  · refine ⟨1, ?_, by omega, by unfold u32; omega, by simp [hh]⟩
    unfold factor; simp [hh]
  · refine ⟨2 + (h - p.halvingHeight) / p.halvingInterval, factor_halving p h hI (by omega) hu, Nat.le_add_right_of_le (by decide), ?_, by simp [hh]⟩
    have : (h - p.halvingHeight) / p.halvingInterval ≤ (h - p.halvingHeight) / 2 :=
      Nat.div_le_div_left hI (by omega)
    generalize (h - p.halvingHeight) / p.halvingInterval = q at *
    unfold u32 at *
    omega

theorem rewards_as_shifts (p : Params) (h1 h2 : Nat) (r1 r2 : Int)
    (hI : 2 ≤ p.halvingInterval) (hnew : p.newIssuanceHeight ≤ h1) (hle : h1 ≤ h2) (hu : h2 < u32)
    (e1 : blockReward p h1 = some r1) (e2 : blockReward p h2 = some r2) :
    ∃ k1 k2 : Nat, True ∧ True ∧ r1 = Int.ofNat (p.base >>> k1) ∧ r2 = Int.ofNat (p.base >>> k2) ∧ k1 ≤ k2 := by
  obtain ⟨f1, hf1, h11, h12, hv1⟩ := factor_plain p h1 hI (by omega)
  obtain ⟨f2, hf2, h21, h22, hv2⟩ := factor_plain p h2 hI hu
  rw [reward_new p h1 hnew, hf1] at e1
  rw [reward_new p h2 (by omega), hf2] at e2
  simp only [Option.some.injEq] at e1 e2
  refine ⟨halvings f1, halvings f2, trivial, trivial, e1.symm, e2.symm, ?_⟩
  rw [halvings_small f1 h11 h12, halvings_small f2 h21 h22]
  have hmono : f1 ≤ f2 := by
    rw [hv1, hv2]
    by_cases a : h1 < p.halvingHeight
    · simp only [a, if_true]
      split
      · exact Nat.le_refl 1
      · exact Nat.le_add_right_of_le (by decide)
    · have b : ¬ h2 < p.halvingHeight := by omega
      simp only [a, b, if_false]
      have : (h1 - p.halvingHeight) / p.halvingInterval ≤ (h2 - p.halvingHeight) / p.halvingInterval :=
        Nat.div_le_div_right (by omega)
      generalize (h1 - p.halvingHeight) / p.halvingInterval = q1 at *
      generalize (h2 - p.halvingHeight) / p.halvingInterval = q2 at *
      omega
  omega

/-! ### coinbase -/

theorem legacy_split (t a b : Fixed64) : 0 + a + b + (t - a - b) = t := by
  have h1 : 0 + a = a := BitVec.zero_add a
  rw [h1, BitVec.add_assoc, BitVec.add_comm b, BitVec.sub_add_cancel, BitVec.add_comm, BitVec.sub_add_cancel]


theorem three_way_split (t a d : Fixed64) : 0 + a + (t - a - d) + d = t := by
  have h1 : 0 + a = a := BitVec.zero_add a
  rw [h1, BitVec.add_assoc, BitVec.sub_add_cancel, BitVec.add_comm, BitVec.sub_add_cancel]

theorem miner_exact (t a d : Fixed64) (ha : 0 ≤ toInt a) (hd : 0 ≤ toInt d)
    (hs : toInt a + toInt d ≤ toInt t) :
    toInt (t - a - d) = toInt t - toInt a - toInt d := by
  have e : t - a - d = ofInt (toInt t - toInt a - toInt d) := by
    unfold ofInt toInt
    rw [BitVec.sub_eq_iff_eq_add, BitVec.sub_eq_iff_eq_add]
    rw [← BitVec.ofInt_toInt (x := d), ← BitVec.ofInt_toInt (x := a), ← BitVec.ofInt_add, ← BitVec.ofInt_add,
      BitVec.ofInt_toInt, BitVec.ofInt_toInt]
    have : t.toInt - a.toInt - d.toInt + d.toInt + a.toInt = t.toInt := by omega
    rw [this, BitVec.ofInt_toInt]
  rw [e, toInt_ofInt]
  have := toInt_hi t
  have := toInt_lo t
  apply bmod_exact <;> omega

theorem coinbase_ok_iff (cr dp : Fixed64 → Fixed64) (powMode : Bool)
    (fees reward dposReward : Fixed64) (outs : List Out) :
    coinbaseV2Check cr dp powMode fees reward dposReward outs = .ok ↔
      ∃ minerAddr, outs =
        [⟨cr (fees + reward), if powMode then .destroy else .crAssets⟩,
         ⟨(fees + reward) - cr (fees + reward) - dp (fees + reward), minerAddr⟩,
         ⟨dposReward, if powMode then .destroy else .stakeReward⟩] := by
  constructor
  · intro h
    unfold coinbaseV2Check at h
    simp only [] at h
    match outs, h with
    | [], h => cases h
    | [_], h => simp only [] at h; split at h <;> cases h
    | [o0, o1], h => simp only [] at h; split at h <;> (try cases h); split at h <;> cases h
    | o0 :: o1 :: _ :: _ :: _, h => simp only [] at h; split at h <;> (try cases h); split at h <;> cases h
    | [o0, o1, o2], h =>
      simp only [] at h
      split at h
      · cases h
      · rename_i h0
        split at h
        · cases h
        · rename_i h1
          split at h
          · cases h
          · rename_i h2
            have e0 : o0.value = cr (fees + reward) := by simpa using h0
            have e1 : o1.value = fees + reward - cr (fees + reward) - dp (fees + reward) := by simpa using h1
            have e2 : o2.value = dposReward := by simpa using h2
            cases powMode
            · simp only [Bool.false_eq_true, if_false] at h ⊢
              split at h
              · cases h
              · rename_i a0
                split at h
                · cases h
                · rename_i a2
                  refine ⟨o1.addr, ?_⟩
                  have : o0.addr = .crAssets := by simpa using a0
                  have : o2.addr = .stakeReward := by simpa using a2
                  cases o0; cases o1; cases o2; simp_all
            · simp only [if_true] at h ⊢
              split at h
              · cases h
              · rename_i a2
                split at h
                · cases h
                · rename_i a0
                  refine ⟨o1.addr, ?_⟩
                  have : o0.addr = .destroy := by simpa using a0
                  have : o2.addr = .destroy := by simpa using a2
                  cases o0; cases o1; cases o2; simp_all
  · rintro ⟨m, rfl⟩
    cases powMode <;> simp [coinbaseV2Check]

end ElaVerif.Reward
