import ElaVerif.Model.Tx
import ElaVerif.Lemmas.Wire
/-
  Facts about the schema table (`Model/WireSchemas.lean`) needed by C04 / C02: every covered
  payload schema is canonical and bounded for every payload version, with allocation density at
  most `txDens` and slack at most `txSlack`; payload schemas do not change beyond version 4.
-/
namespace ElaVerif.WireSchemas
open ElaVerif.Wire ElaVerif.Tx

/-- `K` of the transaction / block reader: allocation per consumed byte. -/
def txDens : Nat := 548
/-- `C`: one buffer of the largest var-bytes limit (`MaxVarStringLength`, 16 MiB: buffer, size-class rounding and the `string(buf)` copy, 40 MiB). -/
def txSlack : Nat := 41943072

/-- the property of a schema that the table lemmas establish -/
def Nice (ty : Ty) : Prop :=
  canon ty = true ∧ bounded ty = true ∧ dens ty ≤ txDens ∧ slack ty ≤ txSlack

/-- the allocation part alone (for the payloads whose reader is not canonical) -/
def NiceB (ty : Ty) : Prop := bounded ty = true ∧ dens ty ≤ txDens ∧ slack ty ≤ txSlack

theorem Nice.toB {ty : Ty} (h : Nice ty) : NiceB ty := h.2

theorem niceB_crcProposal (pv : Nat) : NiceB (crcProposal pv) := by
  unfold crcProposal crcChangeOwner crcClose crcSecretary crcUpgrade crcSideChain crcReserveID crcReceiveID
    crcIDFee crcNormal crcHead NiceB
  by_cases h1 : 1 ≤ pv <;> simp only [h1, if_true, if_false] <;> decide

theorem nice_producerInfo (pv : Nat) : Nice (producerInfo pv) := by
  unfold producerInfo Nice
  by_cases h1 : 1 ≤ pv <;> by_cases h2 : pv < 2 <;> simp only [h1, h2, if_true, if_false] <;> decide

theorem nice_nextTurnDPOSInfo (pv : Nat) : Nice (nextTurnDPOSInfo pv) := by
  unfold nextTurnDPOSInfo Nice
  by_cases h1 : 1 ≤ pv <;> simp only [h1, if_true, if_false] <;> decide

theorem nice_crcProposalReview (pv : Nat) : Nice (crcProposalReview pv) := by
  unfold crcProposalReview Nice
  by_cases h1 : 1 ≤ pv <;> simp only [h1, if_true, if_false] <;> decide

theorem nice_voting (pv : Nat) : Nice (voting pv) := by
  unfold voting Nice
  by_cases h0 : pv = 0 <;> by_cases h1 : pv = 1 <;> simp only [h0, h1, if_true, if_false] <;> decide

theorem nice_processProducer (pv : Nat) : Nice (processProducer pv) := by
  unfold processProducer Nice
  by_cases h1 : pv < 1 <;> simp only [h1, if_true, if_false] <;> decide

theorem nice_returnVotes (pv : Nat) : Nice (returnVotes pv) := by
  unfold returnVotes Nice
  by_cases h1 : pv = 0 <;> simp only [h1, if_true, if_false] <;> decide

theorem nice_crcProposalWithdraw (pv : Nat) : Nice (crcProposalWithdraw pv) := by
  unfold crcProposalWithdraw Nice
  by_cases h1 : pv = 1 <;> simp only [h1, if_true, if_false] <;> decide

theorem nice_withdrawFromSideChain (pv : Nat) : Nice (withdrawFromSideChain pv) := by
  unfold withdrawFromSideChain Nice
  by_cases h0 : pv = 0 <;> by_cases h2 : pv = 2 <;> simp only [h0, h2, if_true, if_false] <;> decide

theorem nice_transferCrossChainAsset (pv : Nat) : Nice (transferCrossChainAsset pv) := by
  unfold transferCrossChainAsset Nice
  by_cases h1 : 1 ≤ pv <;> simp only [h1, if_true, if_false] <;> decide

theorem nice_crInfo (pv : Nat) : Nice (crInfo pv) := by
  unfold crInfo Nice
  by_cases h2 : pv ≠ 2 ∧ pv ≠ 3
  · rw [if_pos h2, if_pos h2]
    by_cases h1 : 1 ≤ pv <;> simp only [h1, if_true, if_false] <;> decide
  · rw [if_neg h2, if_neg h2]
    by_cases h1 : 1 ≤ pv <;> simp only [h1, if_true, if_false] <;> decide

theorem nice_unregisterCR (pv : Nat) : Nice (unregisterCR pv) := by
  unfold unregisterCR Nice
  by_cases h2 : pv ≠ 1 ∧ pv ≠ 2
  · rw [if_pos h2]; decide
  · rw [if_neg h2]; decide

theorem nice_crcProposalTracking (pv : Nat) : Nice (crcProposalTracking pv) := by
  unfold crcProposalTracking Nice
  by_cases h1 : 1 ≤ pv <;> simp only [h1, if_true, if_false] <;> decide

theorem nice_returnSideChainDepositCoin (pv : Nat) : Nice (returnSideChainDepositCoin pv) := by
  unfold returnSideChainDepositCoin Nice
  by_cases h1 : pv = 1 <;> simp only [h1, if_true, if_false] <;> decide

theorem nice_createNFT (pv : Nat) : Nice (createNFT pv) := by
  unfold createNFT Nice
  by_cases h1 : 1 ≤ pv <;> simp only [h1, if_true, if_false] <;> decide

theorem covered_cases {ty : Nat} {f : Nat → Ty} (h : payloadOf ty = .covered f) :
    f = (fun _ => coinBase) ∨
    f = (fun _ => transferAsset) ∨
    f = (fun _ => dposIllegalBlocks) ∨
    f = (fun _ => inactiveArbitrators) ∨
    f = (fun _ => record) ∨
    f = (fun _ => sideChainPow) ∨
    f = (fun _ => emptyPayload) ∨
    f = (fun _ => activateProducer) ∨
    f = (fun _ => updateVersion) ∨
    f = (fun _ => hashList) ∨
    f = (fun _ => crCouncilMemberClaimNode) ∨
    f = (fun _ => revertToPOW) ∨
    f = (fun _ => revertToDPOS) ∨
    f = (fun _ => recordSponsor) ∨
    f = (fun _ => registerAsset) ∨
    f = (fun _ => dposIllegalProposals) ∨
    f = (fun _ => sidechainIllegalData) ∨
    f = (fun _ => votesRealWithdraw) ∨
    f = (fun _ => nftDestroyFromSideChain) ∨
    f = producerInfo ∨
    f = nextTurnDPOSInfo ∨
    f = crcProposalReview ∨
    f = voting ∨
    f = processProducer ∨
    f = returnVotes ∨
    f = crcProposalWithdraw ∨
    f = withdrawFromSideChain ∨
    f = transferCrossChainAsset ∨
    f = crInfo ∨
    f = unregisterCR ∨
    f = crcProposalTracking ∨
    f = returnSideChainDepositCoin ∨
    f = createNFT ∨
    f = (fun _ => dposIllegalVotes) ∨ f = (fun _ => recordProposalResult) ∨ f = crcProposal := by
  unfold payloadOf at h
  split at h <;> simp_all

theorem niceB_covered {ty : Nat} {f : Nat → Ty} (h : payloadOf ty = .covered f) (pv : Nat) :
    NiceB (f pv) := by
  rcases covered_cases h with rfl | rfl | rfl | rfl | rfl | rfl | rfl | rfl | rfl | rfl | rfl | rfl | rfl | rfl | rfl | rfl | rfl | rfl | rfl | rfl | rfl | rfl | rfl | rfl | rfl | rfl | rfl | rfl | rfl | rfl | rfl | rfl | rfl | rfl | rfl | rfl
  · show NiceB coinBase; unfold NiceB; decide
  · show NiceB transferAsset; unfold NiceB; decide
  · show NiceB dposIllegalBlocks; unfold NiceB; decide
  · show NiceB inactiveArbitrators; unfold NiceB; decide
  · show NiceB record; unfold NiceB; decide
  · show NiceB sideChainPow; unfold NiceB; decide
  · show NiceB emptyPayload; unfold NiceB; decide
  · show NiceB activateProducer; unfold NiceB; decide
  · show NiceB updateVersion; unfold NiceB; decide
  · show NiceB hashList; unfold NiceB; decide
  · show NiceB crCouncilMemberClaimNode; unfold NiceB; decide
  · show NiceB revertToPOW; unfold NiceB; decide
  · show NiceB revertToDPOS; unfold NiceB; decide
  · show NiceB recordSponsor; unfold NiceB; decide
  · show NiceB registerAsset; unfold NiceB; decide
  · show NiceB dposIllegalProposals; unfold NiceB; decide
  · show NiceB sidechainIllegalData; unfold NiceB; decide
  · show NiceB votesRealWithdraw; unfold NiceB; decide
  · show NiceB nftDestroyFromSideChain; unfold NiceB; decide
  · exact (nice_producerInfo pv).toB
  · exact (nice_nextTurnDPOSInfo pv).toB
  · exact (nice_crcProposalReview pv).toB
  · exact (nice_voting pv).toB
  · exact (nice_processProducer pv).toB
  · exact (nice_returnVotes pv).toB
  · exact (nice_crcProposalWithdraw pv).toB
  · exact (nice_withdrawFromSideChain pv).toB
  · exact (nice_transferCrossChainAsset pv).toB
  · exact (nice_crInfo pv).toB
  · exact (nice_unregisterCR pv).toB
  · exact (nice_crcProposalTracking pv).toB
  · exact (nice_returnSideChainDepositCoin pv).toB
  · exact (nice_createNFT pv).toB
  · show NiceB dposIllegalVotes; unfold NiceB; decide
  · show NiceB recordProposalResult; unfold NiceB; decide
  · exact niceB_crcProposal pv

/-- beyond version 4 no covered payload changes its layout (so `txBody`'s default case is right) -/
theorem covered_stable {ty : Nat} {f : Nat → Ty} (h : payloadOf ty = .covered f) (pv : Nat)
    (hpv : 4 ≤ pv) : f pv = f 4 := by
  rcases covered_cases h with rfl | rfl | rfl | rfl | rfl | rfl | rfl | rfl | rfl | rfl | rfl | rfl | rfl | rfl | rfl | rfl | rfl | rfl | rfl | rfl | rfl | rfl | rfl | rfl | rfl | rfl | rfl | rfl | rfl | rfl | rfl | rfl | rfl | rfl | rfl | rfl
  · rfl
  · rfl
  · rfl
  · rfl
  · rfl
  · rfl
  · rfl
  · rfl
  · rfl
  · rfl
  · rfl
  · rfl
  · rfl
  · rfl
  · rfl
  · rfl
  · rfl
  · rfl
  · rfl
  · unfold producerInfo
    have h1 : 1 ≤ pv := by omega
    have h2 : ¬ pv < 2 := by omega
    simp [h1, h2]
  · unfold nextTurnDPOSInfo
    have h1 : 1 ≤ pv := by omega
    simp [h1]
  · unfold crcProposalReview
    have h1 : 1 ≤ pv := by omega
    simp [h1]
  · unfold voting
    have h0 : ¬ pv = 0 := by omega
    have h1 : ¬ pv = 1 := by omega
    simp [h0, h1]
  · unfold processProducer
    have h1 : ¬ pv < 1 := by omega
    simp [h1]
  · unfold returnVotes
    have h0 : ¬ pv = 0 := by omega
    simp [h0]
  · unfold crcProposalWithdraw
    have h1 : ¬ pv = 1 := by omega
    simp [h1]
  · unfold withdrawFromSideChain
    have h0 : ¬ pv = 0 := by omega
    have h2 : ¬ pv = 2 := by omega
    simp [h0, h2]
  · unfold transferCrossChainAsset
    have h1 : 1 ≤ pv := by omega
    simp [h1]
  · unfold crInfo
    have h1 : 1 ≤ pv := by omega
    have h2 : pv ≠ 2 ∧ pv ≠ 3 := by omega
    simp [h1, h2]
  · unfold unregisterCR
    have h2 : pv ≠ 1 ∧ pv ≠ 2 := by omega
    simp [h2]
  · unfold crcProposalTracking
    have h1 : 1 ≤ pv := by omega
    simp [h1]
  · unfold returnSideChainDepositCoin
    have h1 : ¬ pv = 1 := by omega
    simp [h1]
  · unfold createNFT
    have h1 : 1 ≤ pv := by omega
    simp [h1]
  · rfl
  · rfl
  · unfold crcProposal crcChangeOwner crcClose crcSecretary crcSideChain crcReserveID crcReceiveID
      crcIDFee crcNormal crcHead
    have h1 : 1 ≤ pv := by omega
    simp [h1]

/-- every covered payload except the three with a non-canonical reader is canonical at every version -/
theorem canon_covered (ty : Nat) (f : Nat → Ty) (pv : Nat) :
    payloadOf ty = .covered f → ty ≠ 0x0f → ty ≠ 0x15 → ty ≠ 0x25 → canon (f pv) = true := by
  unfold payloadOf
  split <;> intro h h1 h2 h3 <;>
    first
    | (simp only [Cover.covered.injEq] at h; subst h; try dsimp only
       first
        | decide
        | exact (nice_producerInfo pv).1 | exact (nice_nextTurnDPOSInfo pv).1
        | exact (nice_crcProposalReview pv).1 | exact (nice_voting pv).1
        | exact (nice_processProducer pv).1 | exact (nice_returnVotes pv).1
        | exact (nice_crcProposalWithdraw pv).1 | exact (nice_withdrawFromSideChain pv).1
        | exact (nice_transferCrossChainAsset pv).1 | exact (nice_crInfo pv).1
        | exact (nice_unregisterCR pv).1 | exact (nice_crcProposalTracking pv).1
        | exact (nice_returnSideChainDepositCoin pv).1 | exact (nice_createNFT pv).1
        | exact absurd rfl h1 | exact absurd rfl h2 | exact absurd rfl h3)
    | (simp at h)

theorem nice_output (v9 : Bool) : Nice (output v9) := by
  cases v9 <;> unfold Nice <;> decide

/-- the unsigned fields of every (type, version) pair of the table: allocation facts -/
theorem body_niceB {ty ver : Nat} {fs : List Ty} (h : bodyTy? ty ver = some fs) :
    boundedFields fs = true ∧ densFields fs ≤ txDens ∧ slackFields fs ≤ txSlack := by
  unfold bodyTy? at h
  cases hp : payloadOf ty with
  | covered f =>
    simp only [hp, Option.some.injEq] at h
    subst h
    obtain ⟨b0, c0, d0⟩ := niceB_covered hp 0
    obtain ⟨b1, c1, d1⟩ := niceB_covered hp 1
    obtain ⟨b2, c2, d2⟩ := niceB_covered hp 2
    obtain ⟨b3, c3, d3⟩ := niceB_covered hp 3
    obtain ⟨b4, c4, d4⟩ := niceB_covered hp 4
    obtain ⟨_, bo, co, do_⟩ := nice_output (decide (txVersion09 ≤ ver))
    have m1 : 1 ≤ minSize (output (decide (txVersion09 ≤ ver))) := by
      cases decide (txVersion09 ≤ ver) <;> decide
    unfold txDens txSlack at *
    refine ⟨?_, ?_, ?_⟩
    · have x1 : bounded attributeTy = true := by decide
      have x2 : bounded input = true := by decide
      have x3 : 1 ≤ minSize attributeTy := by decide
      have x4 : 1 ≤ minSize input := by decide
      simp [txBody, boundedFields, bounded, boundedCases, b0, b1, b2, b3, b4, bo, x1, x2, x3, x4, m1]
    · have x1 : dens attributeTy = 36 := by decide
      have x2 : dens input = 0 := by decide
      have x3 : dens (output (decide (txVersion09 ≤ ver))) ≤ 292 := by
        cases decide (txVersion09 ≤ ver) <;> decide
      simp only [txBody, densFields, dens, densCases, x1, x2]
      omega
    · have x1 : slack attributeTy = 41943072 := by decide
      have x2 : slack input = 0 := by decide
      simp only [txBody, slackFields, slack, slackCases, Option.getD_none, x1, x2]
      omega
  | uncovered => simp [hp] at h
  | invalid => simp [hp] at h

/-- … and canonicity, for every type except IllegalVoteEvidence (0x0f), ProposalResult (0x15), CRCProposal (0x25) -/
theorem body_canon {ty ver : Nat} {fs : List Ty} (h : bodyTy? ty ver = some fs)
    (h1 : ty ≠ 0x0f) (h2 : ty ≠ 0x15) (h3 : ty ≠ 0x25) : canonFields fs = true := by
  unfold bodyTy? at h
  cases hp : payloadOf ty with
  | covered f =>
    simp only [hp, Option.some.injEq] at h
    subst h
    have a0 := canon_covered ty f 0 hp h1 h2 h3
    have a1 := canon_covered ty f 1 hp h1 h2 h3
    have a2 := canon_covered ty f 2 hp h1 h2 h3
    have a3 := canon_covered ty f 3 hp h1 h2 h3
    have a4 := canon_covered ty f 4 hp h1 h2 h3
    obtain ⟨ao, _, _, _⟩ := nice_output (decide (txVersion09 ≤ ver))
    have x1 : canon attributeTy = true := by decide
    have x2 : canon input = true := by decide
    simp [txBody, canonFields, canon, canonCases, a0, a1, a2, a3, a4, ao, x1, x2]
  | uncovered => simp [hp] at h
  | invalid => simp [hp] at h

end ElaVerif.WireSchemas
