import ElaVerif.Model.Tx
import ElaVerif.Lemmas.Wire
/-
  Facts about the schema table (`Model/WireSchemas.lean`) needed by C04 / C02: every covered
  payload schema is canonical and bounded for every payload version, with allocation density at
  most `txDens` and slack at most `txSlack`; payload schemas do not change beyond version 4.
-/
namespace ElaVerif.WireSchemas
open ElaVerif.Wire ElaVerif.Tx

/-- `K` of the transaction / block reader: allocation per consumed byte. -/
def txDens : Nat := 548
/-- `C`: one buffer of the largest var-bytes limit (`MaxVarStringLength`, 16 MiB: buffer, size-class rounding and the `string(buf)` copy, 40 MiB). -/
def txSlack : Nat := 41943072

/-- the property of a schema that the table lemmas establish -/
def Nice (ty : Ty) : Prop :=
  canon ty = true ∧ bounded ty = true ∧ dens ty ≤ txDens ∧ slack ty ≤ txSlack

theorem nice_producerInfo (pv : Nat) : Nice (producerInfo pv) := by
  unfold producerInfo Nice
  by_cases h1 : 1 ≤ pv <;> by_cases h2 : pv < 2 <;> simp only [h1, h2, if_true, if_false] <;> decide

theorem nice_nextTurnDPOSInfo (pv : Nat) : Nice (nextTurnDPOSInfo pv) := by
  unfold nextTurnDPOSInfo Nice
  by_cases h1 : 1 ≤ pv <;> simp only [h1, if_true, if_false] <;> decide

theorem nice_crcProposalReview (pv : Nat) : Nice (crcProposalReview pv) := by
  unfold crcProposalReview Nice
  by_cases h1 : 1 ≤ pv <;> simp only [h1, if_true, if_false] <;> decide

theorem nice_voting (pv : Nat) : Nice (voting pv) := by
  unfold voting Nice
  by_cases h0 : pv = 0 <;> by_cases h1 : pv = 1 <;> simp only [h0, h1, if_true, if_false] <;> decide

theorem nice_processProducer (pv : Nat) : Nice (processProducer pv) := by
  unfold processProducer Nice
  by_cases h1 : pv < 1 <;> simp only [h1, if_true, if_false] <;> decide

theorem nice_returnVotes (pv : Nat) : Nice (returnVotes pv) := by
  unfold returnVotes Nice
  by_cases h1 : pv = 0 <;> simp only [h1, if_true, if_false] <;> decide

theorem nice_crcProposalWithdraw (pv : Nat) : Nice (crcProposalWithdraw pv) := by
  unfold crcProposalWithdraw Nice
  by_cases h1 : pv = 1 <;> simp only [h1, if_true, if_false] <;> decide

theorem nice_withdrawFromSideChain (pv : Nat) : Nice (withdrawFromSideChain pv) := by
  unfold withdrawFromSideChain Nice
  by_cases h0 : pv = 0 <;> by_cases h2 : pv = 2 <;> simp only [h0, h2, if_true, if_false] <;> decide

theorem nice_transferCrossChainAsset (pv : Nat) : Nice (transferCrossChainAsset pv) := by
  unfold transferCrossChainAsset Nice
  by_cases h1 : 1 ≤ pv <;> simp only [h1, if_true, if_false] <;> decide

theorem nice_crInfo (pv : Nat) : Nice (crInfo pv) := by
  unfold crInfo Nice
  by_cases h2 : pv ≠ 2 ∧ pv ≠ 3
  · rw [if_pos h2, if_pos h2]
    by_cases h1 : 1 ≤ pv <;> simp only [h1, if_true, if_false] <;> decide
  · rw [if_neg h2, if_neg h2]
    by_cases h1 : 1 ≤ pv <;> simp only [h1, if_true, if_false] <;> decide

theorem nice_unregisterCR (pv : Nat) : Nice (unregisterCR pv) := by
  unfold unregisterCR Nice
  by_cases h2 : pv ≠ 1 ∧ pv ≠ 2
  · rw [if_pos h2]; decide
  · rw [if_neg h2]; decide

theorem nice_crcProposalTracking (pv : Nat) : Nice (crcProposalTracking pv) := by
  unfold crcProposalTracking Nice
  by_cases h1 : 1 ≤ pv <;> simp only [h1, if_true, if_false] <;> decide

theorem nice_returnSideChainDepositCoin (pv : Nat) : Nice (returnSideChainDepositCoin pv) := by
  unfold returnSideChainDepositCoin Nice
  by_cases h1 : pv = 1 <;> simp only [h1, if_true, if_false] <;> decide

theorem nice_createNFT (pv : Nat) : Nice (createNFT pv) := by
  unfold createNFT Nice
  by_cases h1 : 1 ≤ pv <;> simp only [h1, if_true, if_false] <;> decide

theorem covered_cases {ty : Nat} {f : Nat → Ty} (h : payloadOf ty = .covered f) :
    f = (fun _ => coinBase) ∨
    f = (fun _ => transferAsset) ∨
    f = (fun _ => dposIllegalBlocks) ∨
    f = (fun _ => inactiveArbitrators) ∨
    f = (fun _ => record) ∨
    f = (fun _ => sideChainPow) ∨
    f = (fun _ => emptyPayload) ∨
    f = (fun _ => activateProducer) ∨
    f = (fun _ => updateVersion) ∨
    f = (fun _ => hashList) ∨
    f = (fun _ => crCouncilMemberClaimNode) ∨
    f = (fun _ => revertToPOW) ∨
    f = (fun _ => revertToDPOS) ∨
    f = (fun _ => recordSponsor) ∨
    f = (fun _ => registerAsset) ∨
    f = (fun _ => dposIllegalProposals) ∨
    f = (fun _ => sidechainIllegalData) ∨
    f = (fun _ => votesRealWithdraw) ∨
    f = (fun _ => nftDestroyFromSideChain) ∨
    f = producerInfo ∨
    f = nextTurnDPOSInfo ∨
    f = crcProposalReview ∨
    f = voting ∨
    f = processProducer ∨
    f = returnVotes ∨
    f = crcProposalWithdraw ∨
    f = withdrawFromSideChain ∨
    f = transferCrossChainAsset ∨
    f = crInfo ∨
    f = unregisterCR ∨
    f = crcProposalTracking ∨
    f = returnSideChainDepositCoin ∨
    f = createNFT := by
  unfold payloadOf at h
  split at h <;> simp_all

theorem nice_covered {ty : Nat} {f : Nat → Ty} (h : payloadOf ty = .covered f) (pv : Nat) :
    Nice (f pv) := by
  rcases covered_cases h with rfl | rfl | rfl | rfl | rfl | rfl | rfl | rfl | rfl | rfl | rfl | rfl | rfl | rfl | rfl | rfl | rfl | rfl | rfl | rfl | rfl | rfl | rfl | rfl | rfl | rfl | rfl | rfl | rfl | rfl | rfl | rfl | rfl
  · show Nice coinBase; unfold Nice; decide
  · show Nice transferAsset; unfold Nice; decide
  · show Nice dposIllegalBlocks; unfold Nice; decide
  · show Nice inactiveArbitrators; unfold Nice; decide
  · show Nice record; unfold Nice; decide
  · show Nice sideChainPow; unfold Nice; decide
  · show Nice emptyPayload; unfold Nice; decide
  · show Nice activateProducer; unfold Nice; decide
  · show Nice updateVersion; unfold Nice; decide
  · show Nice hashList; unfold Nice; decide
  · show Nice crCouncilMemberClaimNode; unfold Nice; decide
  · show Nice revertToPOW; unfold Nice; decide
  · show Nice revertToDPOS; unfold Nice; decide
  · show Nice recordSponsor; unfold Nice; decide
  · show Nice registerAsset; unfold Nice; decide
  · show Nice dposIllegalProposals; unfold Nice; decide
  · show Nice sidechainIllegalData; unfold Nice; decide
  · show Nice votesRealWithdraw; unfold Nice; decide
  · show Nice nftDestroyFromSideChain; unfold Nice; decide
  · exact nice_producerInfo pv
  · exact nice_nextTurnDPOSInfo pv
  · exact nice_crcProposalReview pv
  · exact nice_voting pv
  · exact nice_processProducer pv
  · exact nice_returnVotes pv
  · exact nice_crcProposalWithdraw pv
  · exact nice_withdrawFromSideChain pv
  · exact nice_transferCrossChainAsset pv
  · exact nice_crInfo pv
  · exact nice_unregisterCR pv
  · exact nice_crcProposalTracking pv
  · exact nice_returnSideChainDepositCoin pv
  · exact nice_createNFT pv

/-- beyond version 4 no covered payload changes its layout (so `txBody`'s default case is right) -/
theorem covered_stable {ty : Nat} {f : Nat → Ty} (h : payloadOf ty = .covered f) (pv : Nat)
    (hpv : 4 ≤ pv) : f pv = f 4 := by
  rcases covered_cases h with rfl | rfl | rfl | rfl | rfl | rfl | rfl | rfl | rfl | rfl | rfl | rfl | rfl | rfl | rfl | rfl | rfl | rfl | rfl | rfl | rfl | rfl | rfl | rfl | rfl | rfl | rfl | rfl | rfl | rfl | rfl | rfl | rfl
  · rfl
  · rfl
  · rfl
  · rfl
  · rfl
  · rfl
  · rfl
  · rfl
  · rfl
  · rfl
  · rfl
  · rfl
  · rfl
  · rfl
  · rfl
  · rfl
  · rfl
  · rfl
  · rfl
  · unfold producerInfo
    have h1 : 1 ≤ pv := by omega
    have h2 : ¬ pv < 2 := by omega
    simp [h1, h2]
  · unfold nextTurnDPOSInfo
    have h1 : 1 ≤ pv := by omega
    simp [h1]
  · unfold crcProposalReview
    have h1 : 1 ≤ pv := by omega
    simp [h1]
  · unfold voting
    have h0 : ¬ pv = 0 := by omega
    have h1 : ¬ pv = 1 := by omega
    simp [h0, h1]
  · unfold processProducer
    have h1 : ¬ pv < 1 := by omega
    simp [h1]
  · unfold returnVotes
    have h0 : ¬ pv = 0 := by omega
    simp [h0]
  · unfold crcProposalWithdraw
    have h1 : ¬ pv = 1 := by omega
    simp [h1]
  · unfold withdrawFromSideChain
    have h0 : ¬ pv = 0 := by omega
    have h2 : ¬ pv = 2 := by omega
    simp [h0, h2]
  · unfold transferCrossChainAsset
    have h1 : 1 ≤ pv := by omega
    simp [h1]
  · unfold crInfo
    have h1 : 1 ≤ pv := by omega
    have h2 : pv ≠ 2 ∧ pv ≠ 3 := by omega
    simp [h1, h2]
  · unfold unregisterCR
    have h2 : pv ≠ 1 ∧ pv ≠ 2 := by omega
    simp [h2]
  · unfold crcProposalTracking
    have h1 : 1 ≤ pv := by omega
    simp [h1]
  · unfold returnSideChainDepositCoin
    have h1 : ¬ pv = 1 := by omega
    simp [h1]
  · unfold createNFT
    have h1 : 1 ≤ pv := by omega
    simp [h1]

theorem nice_output (v9 : Bool) : Nice (output v9) := by
  cases v9 <;> unfold Nice <;> decide

/-- the unsigned fields of every covered (type, version) pair -/
theorem body_nice {ty ver : Nat} {fs : List Ty} (h : bodyTy? ty ver = some fs) :
    canonFields fs = true ∧ boundedFields fs = true ∧ densFields fs ≤ txDens ∧
    slackFields fs ≤ txSlack := by
  unfold bodyTy? at h
  cases hp : payloadOf ty with
  | covered f =>
    simp only [hp, Option.some.injEq] at h
    subst h
    obtain ⟨a0, b0, c0, d0⟩ := nice_covered hp 0
    obtain ⟨a1, b1, c1, d1⟩ := nice_covered hp 1
    obtain ⟨a2, b2, c2, d2⟩ := nice_covered hp 2
    obtain ⟨a3, b3, c3, d3⟩ := nice_covered hp 3
    obtain ⟨a4, b4, c4, d4⟩ := nice_covered hp 4
    obtain ⟨ao, bo, co, do_⟩ := nice_output (decide (txVersion09 ≤ ver))
    have hattr : Nice (lst 96 attributeTy) := by unfold Nice; decide
    have hin : Nice (lst 96 input) := by unfold Nice; decide
    obtain ⟨aa, ba, ca, da⟩ := hattr
    obtain ⟨ai, bi, ci, di⟩ := hin
    have m1 : 1 ≤ minSize (output (decide (txVersion09 ≤ ver))) := by
      cases decide (txVersion09 ≤ ver) <;> decide
    unfold txDens txSlack at *
    refine ⟨?_, ?_, ?_, ?_⟩
    · have x1 : canon attributeTy = true := by decide
      have x2 : canon input = true := by decide
      simp [txBody, canonFields, canon, canonCases, a0, a1, a2, a3, a4, ao, x1, x2]
    · have x1 : bounded attributeTy = true := by decide
      have x2 : bounded input = true := by decide
      have x3 : 1 ≤ minSize attributeTy := by decide
      have x4 : 1 ≤ minSize input := by decide
      simp [txBody, boundedFields, bounded, boundedCases, b0, b1, b2, b3, b4, bo, x1, x2, x3, x4, m1]
    · have x1 : dens attributeTy = 36 := by decide
      have x2 : dens input = 0 := by decide
      have x3 : dens (output (decide (txVersion09 ≤ ver))) ≤ 292 := by
        cases decide (txVersion09 ≤ ver) <;> decide
      simp only [txBody, densFields, dens, densCases, x1, x2]
      omega
    · have x1 : slack attributeTy = 41943072 := by decide
      have x2 : slack input = 0 := by decide
      simp only [txBody, slackFields, slack, slackCases, Option.getD_none, x1, x2]
      omega
  | uncovered => simp [hp] at h
  | invalid => simp [hp] at h

end ElaVerif.WireSchemas
