import ElaVerif.Model.Fee
import ElaVerif.Lemmas.Fixed64
/-!
  Helper lemmas for C01 about the `Fee` model (the property theorems are in Props/C01.lean).
-/
namespace ElaVerif.Fee
open ElaVerif.Fixed64


theorem len0 {α : Type} (l : List α) (h : (l.length == 0) = true) : l = [] := by
  cases l with
  | nil => rfl
  | cons a t => simp at h

theorem fee_ok (c : Class) (env : Env) (outs refs : List Fixed64)
    (hmin : 0 ≤ toInt env.minFee)
    (hfee : toInt (txFee outs refs) = sumZ refs - sumZ outs)
    (h : (feeCheck c env outs refs).accepted = true) : sumZ outs ≤ sumZ refs := by
  unfold feeCheck at h
  simp only [] at h
  split at h
  · split at h
    · cases h
    · rename_i hz
      have : txFee outs refs = 0 := by simpa using hz
      rw [this, toInt_zero] at hfee
      omega
  · split at h
    · cases h
    · rename_i hz
      have := (lt_false_iff _ _).mp (by simpa using hz)
      omega

/-- Everything except the output total: if the outputs are non-negative and their
    exact total fits in int64, input/output/context checks imply no value creation. -/
theorem core (c : Class) (env : Env) (sp : Special) (outs refs : List Fixed64)
    (hc : c ≠ .coinbase) (hpath : ¬ (c = .activate ∧ sp = .alt ∧ env.afterNFT = true))
    (hmin : 0 ≤ toInt env.minFee)
    (hout : outputOK c env refs.length outs = true)
    (hctx : (context c env sp outs refs).accepted = true)
    (hrn : ∀ r ∈ refs, 0 ≤ toInt r) (hrs : sumZ refs < 9223372036854775808)
    (hn : ∀ o ∈ outs, 0 ≤ toInt o) (hs : sumZ outs < 9223372036854775808) :
    sumZ outs ≤ sumZ refs := by
  have hr0 := sumZ_nonneg refs hrn
  have ho0 := sumZ_nonneg outs hn
  have hfee := txFee_exact outs refs ho0 hs hr0 hrs
  have hF : (feeCheck c env outs refs).accepted = true → sumZ outs ≤ sumZ refs :=
    fee_ok c env outs refs hmin hfee
  have hnil : outs = [] → sumZ outs ≤ sumZ refs := by
    intro h; subst h; simpa [sumZ] using hr0
  -- `context` by the three outcomes of SpecialContextCheck
  have hcont : specialStep c env sp outs refs = .continue → sumZ outs ≤ sumZ refs := by
    intro h; apply hF; simpa [context, h] using hctx
  have hrej : specialStep c env sp outs refs ≠ .reject := by
    intro h; unfold context at hctx; rw [h] at hctx; cases hctx
  cases sp with
  | rej => exact absurd (by simp [specialStep]) hrej
  | alt =>
    by_cases hca : c = .activate
    · subst hca
      have hnft : env.afterNFT = false := by
        cases h : env.afterNFT with
        | false => rfl
        | true => exact absurd ⟨rfl, rfl, h⟩ hpath
      simp [outputOK, hnft] at hout
      exact hnil hout
    · exact absurd (by cases c <;> simp_all [specialStep]) hrej
  | ok =>
    cases c with
    | coinbase => exact absurd rfl hc
    | refused => exact hcont (by simp [specialStep])
    | bare => exact hcont (by simp [specialStep])
    | plain => exact hcont (by simp [specialStep])
    | plainOut => exact hcont (by simp [specialStep])
    | exchange => exact hcont (by simp [specialStep])
    | zero =>
      simp [outputOK] at hout
      exact hnil hout
    | sidePow =>
      by_cases h0 : (refs.length == 0) = true
      · have hr : refs = [] := len0 refs h0
        subst hr
        match outs, hout with
        | [], hout => simp [outputOK] at hout
        | [v], hout =>
          have : v = 0 := by simpa [outputOK] using hout
          subst this
          decide
        | _ :: _ :: _, hout => simp [outputOK] at hout
      · exact hcont (by simp [specialStep, h0])
    | activate =>
      cases hnft : env.afterNFT with
      | true => exact hcont (by simp [specialStep, hnft])
      | false =>
        simp [outputOK, hnft] at hout
        exact hnil hout
    | approp =>
      by_cases heq : sumW refs = sumW outs
      · have := sumW_inj refs outs hr0 hrs ho0 hs heq
        omega
      · exact absurd (by simp [specialStep, heq]) hrej
    | rectify =>
      match outs, hcont, hrej with
      | [o], hcont, hrej =>
        by_cases heq : sumW refs = o + env.rectifyFee
        · exact hcont (by simp [specialStep, heq])
        · exact absurd (by simp [specialStep, heq]) hrej
      | [], _, hrej => exact absurd (by simp [specialStep]) hrej
      | _ :: _ :: _, _, hrej => exact absurd (by simp [specialStep]) hrej

theorem sanity_fixed (c : Class) (env : Env) (ins : List In) (outs : List Fixed64)
    (h : sanity .fixed c env ins outs = .ok) :
    inputOK .fixed c env ins = true ∧ outputOK c env ins.length outs = true ∧ totalOK outs = true := by
  unfold sanity at h
  split at h
  · cases h
  · rename_i h0
    split at h
    · cases h
    · split at h
      · cases h
      · rename_i h1 h2
        refine ⟨by simpa using h0, by simpa using h1, by simpa using h2⟩

theorem noDup_iff (l : List Nat) : noDup l = true ↔ l.Nodup := by
  induction l with
  | nil => simp [noDup]
  | cons x xs ih =>
    simp only [noDup, Bool.and_eq_true, Bool.not_eq_true', List.nodup_cons, ih]
    constructor
    · rintro ⟨h1, h2⟩
      exact ⟨by simpa using h1, h2⟩
    · rintro ⟨h1, h2⟩
      exact ⟨by simpa using h1, h2⟩

/-- whatever the class, inputs that pass the (fixed) input check reference pairwise distinct
    previous outputs -/
theorem inputOK_distinct (c : Class) (env : Env) (ins : List In)
    (h : inputOK .fixed c env ins = true) : (ins.map (·.op)).Nodup := by
  have hnil : ins.length = 0 → (ins.map (·.op)).Nodup := by
    intro h0
    have : ins = [] := List.eq_nil_of_length_eq_zero h0
    subst this; simp
  have hd : inputsDistinct ins = true → (ins.map (·.op)).Nodup := fun h => (noDup_iff _).mp h
  unfold inputOK at h
  cases c <;> simp only [] at h
  case coinbase =>
    match ins, h with
    | [i], _ => simp
  case refused => cases h
  case zero => exact hnil (by simpa using h)
  case sidePow =>
    rcases Bool.or_eq_true _ _ |>.mp h with h | h
    · exact hnil (by simpa using h)
    · exact hd h
  case activate =>
    split at h
    · exact hd (by simpa using h)
    · exact hnil (by simpa using h)
  all_goals exact hd (by simp only [Bool.and_eq_true] at h; exact h.2)

theorem sanity_pre (c : Class) (env : Env) (ins : List In) (outs : List Fixed64)
    (h : sanity .pre c env ins outs = .ok) : outputOK c env ins.length outs = true := by
  unfold sanity at h
  split at h
  · cases h
  · split at h
    · cases h
    · rename_i h1
      simpa using h1


end ElaVerif.Fee
