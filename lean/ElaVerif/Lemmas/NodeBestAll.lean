import ElaVerif.Model.Node
import ElaVerif.Lemmas.NodeBest
/-!
  The most-work invariant over ALL delivery orders (orphans included), for block universes in which the
  context check never fails (`AllValid`) and every height is at or below `CRCOnlyDPOSHeight`.
-/
namespace ElaVerif.Node
open ElaVerif.Index

/-- every block of the list passes its context check wherever the node tries to connect it -/
def AllValid (P : Params) (bs : List Block) : Prop :=
  ∀ (s : NState) (b : Block), s.P = P → b ∈ bs → connectTip s b ≠ none

structure GInv (P : Params) (bs : List Block) (s : NState) : Prop where
  w : WInv s
  par : s.P = P
  knownIn : ∀ k ∈ s.known, k ∈ bs
  orphIn : ∀ o ∈ s.orphans, o ∈ bs
  orphFresh : ∀ o ∈ s.orphans, Fresh s o
  orphNodup : (s.orphans.map (·.id)).Nodup
  low : s.genesis.height ≤ s.P.guardFrom ∧ ∀ b ∈ bs, b.height ≤ s.P.guardFrom

theorem tip_low {P : Params} {bs : List Block} {s : NState} (h : GInv P bs s) : s.tip.height ≤ s.P.guardFrom := by
  rcases tip_mem s with e | ⟨p, hp, e⟩
  · rw [e]; exact h.low.1
  · rw [← e]; exact h.low.2 _ (h.knownIn _ (h.w.actKnown p hp))

theorem attachStep_ok {P : Params} {bs : List Block} (hv : AllValid P bs) (att : List Block) (hatt : ∀ x ∈ att, x ∈ bs)
    (acc : NState × Bool) (h : acc.2 = true) (hP : acc.1.P = P) : (att.foldl attachStep acc).2 = true := by
  induction att generalizing acc with
  | nil => exact h
  | cons b r ih =>
    simp only [List.foldl_cons]
    cases hc : connectTip acc.1 b with
    | none => exact absurd hc (hv acc.1 b hP (hatt b (List.mem_cons_self ..)))
    | some s' =>
      have hs : attachStep acc b = (s', true) := by unfold attachStep; rw [if_pos h, hc]
      rw [hs]
      exact ih (fun x hx => hatt x (List.mem_cons_of_mem _ hx)) (s', true) rfl
        ((sameIdx_connectTip hc).1.P.trans hP)

theorem detach_P (n : List Nat) (s : NState) : (n.foldl (fun s _ => disconnectTip s) s).P = s.P := by
  induction n generalizing s with
  | nil => rfl
  | cons a r ih => simp only [List.foldl_cons]; rw [ih]; exact (sameIdx_disconnectTip s).1.P

/-- with `AllValid`, `acceptBlock` either leaves the state unchanged (reply `err`: unknown parent or wrong
    height) or succeeds; in both cases the invariant is kept and the index grows by at most the block -/
theorem ginv_acceptBlock {P : Params} {bs : List Block} (hv : AllValid P bs) (s : NState) (b : Block) (hb : b ∈ bs)
    (hi : GInv P bs s) (hf : Fresh s b) :
    WInv (acceptBlock s b).1 ∧
    ((acceptBlock s b).1.known = s.known ∨ (acceptBlock s b).1.known = b :: s.known) ∧
    (acceptBlock s b).1.orphans = s.orphans ∧ (acceptBlock s b).1.P = s.P ∧ (acceptBlock s b).1.genesis = s.genesis ∧
    ((acceptBlock s b).2 = .err → (acceptBlock s b).1 = s) := by
  obtain ⟨ho, hP, hg⟩ := acceptBlock_idx s b
  by_cases herr : (acceptBlock s b).2 = .err
  · -- only the two early exits can answer err
    have hsame : (acceptBlock s b).1 = s := by
      unfold acceptBlock at herr ⊢
      cases hfind : s.find b.prev with
      | none => rfl
      | some parent =>
        simp only [hfind] at herr ⊢
        by_cases hh : b.height ≠ parent.height + 1
        · simp [hh]
        · simp only [hh, if_false] at herr ⊢
          by_cases hp : (parent.id == s.tip.id) = true
          · simp only [hp, if_true] at herr ⊢
            unfold extendTip at herr ⊢
            cases hc : connectTip s b with
            | none => exact absurd hc (hv s b hi.par hb)
            | some s' => simp [hc] at herr
          · simp only [hp, Bool.false_eq_true, if_false] at herr ⊢
            unfold sideOrReorg at herr
            by_cases c1 : chainWork (addKnown s b) b ≤ chainWork (addKnown s b) (addKnown s b).tip
            · simp [c1] at herr
            · by_cases c2 : isIrreversible (addKnown s b) (addKnown s b).tip.height (reorgPlan (addKnown s b) b).1 = true
              · simp [c1, c2] at herr
              · simp only [c1, c2, if_false] at herr
                have hok : (reorganize (addKnown s b) (reorgPlan (addKnown s b) b).1 (reorgPlan (addKnown s b) b).2).2 = true := by
                  unfold reorganize
                  apply attachStep_ok hv
                  · intro x hx
                    have hbk : b ∈ (addKnown s b).known := List.mem_cons_self ..
                    rcases (attachPath_spec (addKnown s b) ((addKnown s b).known.length + 1) b [] hbk).1 x
                      (by unfold reorgPlan at hx; exact hx) with h' | h'
                    · cases h'
                    · rcases List.mem_cons.mp h' with e | e
                      · rw [e]; exact hb
                      · exact hi.knownIn x e
                  · rfl
                  · show (List.foldl (fun s _ => disconnectTip s) (addKnown s b) _).P = P
                    rw [detach_P]; exact hi.par
                simp [hok] at herr
    rw [hsame]
    exact ⟨hi.w, Or.inl rfl, rfl, rfl, rfl, fun _ => rfl⟩
  · refine ⟨winv_acceptBlock s b hi.w hf (tip_low hi) herr, ?_, ho, hP, hg, fun e => absurd e herr⟩
    -- the index is the old one plus the block
    unfold acceptBlock
    cases hfind : s.find b.prev with
    | none => exact Or.inl rfl
    | some parent =>
      simp only
      split
      · exact Or.inl rfl
      · split
        · unfold extendTip
          cases hc : connectTip s b with
          | none => exact Or.inl rfl
          | some s' =>
            obtain ⟨hs, _⟩ := sameIdx_connectTip hc
            right
            show b :: s'.known = b :: s.known
            rw [hs.known]
        · right
          unfold sideOrReorg
          split
          · rfl
          · split
            · rfl
            · obtain ⟨hs, _⟩ := reorganize_idx (addKnown s b) (reorgPlan (addKnown s b) b).1 (reorgPlan (addKnown s b) b).2
              simp only
              split
              · exact hs.known
              · exact hs.known

theorem nodup_filter_ids (l : List Block) (p : Block → Bool) (h : (l.map (·.id)).Nodup) :
    ((l.filter p).map (·.id)).Nodup :=
  List.Nodup.sublist (List.Sublist.map _ (List.filter_sublist (l := l))) h

/-- the orphan loop keeps the invariant -/
theorem ginv_orphanFold {P : Params} {bs : List Block} (hv : AllValid P bs) (os : List Block) (acc : NState × Bool × List Nat)
    (hi : GInv P bs acc.1) (hin : ∀ o ∈ os, o ∈ acc.1.orphans) (hnd : (os.map (·.id)).Nodup) :
    GInv P bs (os.foldl orphanStep acc).1 := by
  induction os generalizing acc with
  | nil => exact hi
  | cons o r ih =>
    simp only [List.foldl_cons]
    have hnd0 : (o.id :: r.map (·.id)).Nodup := hnd
    have hnd' : (r.map (·.id)).Nodup := (List.nodup_cons.mp hnd0).2
    have hne : ∀ o' ∈ r, o'.id ≠ o.id := by
      intro o' ho' e
      exact (List.nodup_cons.mp hnd0).1 (List.mem_map.mpr ⟨o', ho', e⟩)
    have hoIn : o ∈ acc.1.orphans := hin o (List.mem_cons_self ..)
    by_cases hgo : acc.2.1 = true
    · obtain ⟨hw, hk, ho, hP, hg, herr⟩ :=
        ginv_acceptBlock hv acc.1 o (hi.orphIn o hoIn) hi (hi.orphFresh o hoIn)
      by_cases he : (acceptBlock acc.1 o).2 = .err
      · have hs : orphanStep acc o = ((acceptBlock acc.1 o).1, false, acc.2.2) := by
          unfold orphanStep; simp [hgo, he]
        rw [hs]
        apply ih
        · show GInv P bs (acceptBlock acc.1 o).1
          rw [herr he]; exact hi
        · intro o' ho'
          show o' ∈ (acceptBlock acc.1 o).1.orphans
          rw [ho]; exact hin o' (List.mem_cons_of_mem _ ho')
        · exact hnd'
      · have hs : orphanStep acc o =
            ({ (acceptBlock acc.1 o).1 with orphans := (acceptBlock acc.1 o).1.orphans.filter (·.id != o.id) },
              true, acc.2.2 ++ [o.id]) := by
          unfold orphanStep; simp [hgo, he]
        rw [hs]
        apply ih
        · show GInv P bs { (acceptBlock acc.1 o).1 with orphans := (acceptBlock acc.1 o).1.orphans.filter (·.id != o.id) }
          refine ⟨⟨hw.best, hw.actKnown⟩, hP.trans hi.par, ?_, ?_, ?_, ?_, ?_⟩
          · intro k hk'
            change k ∈ (acceptBlock acc.1 o).1.known at hk'
            rcases hk with e | e
            · rw [e] at hk'; exact hi.knownIn k hk'
            · rw [e] at hk'
              rcases List.mem_cons.mp hk' with e' | e'
              · rw [e']; exact hi.orphIn o hoIn
              · exact hi.knownIn k e'
          · intro o' ho'
            change o' ∈ (acceptBlock acc.1 o).1.orphans.filter (·.id != o.id) at ho'
            rw [ho] at ho'
            exact hi.orphIn o' (List.mem_filter.mp ho').1
          · intro o' ho'
            change o' ∈ (acceptBlock acc.1 o).1.orphans.filter (·.id != o.id) at ho'
            rw [ho] at ho'
            obtain ⟨hm, hq⟩ := List.mem_filter.mp ho'
            have hq' : o'.id ≠ o.id := by simpa using hq
            obtain ⟨f1, f2⟩ := hi.orphFresh o' hm
            refine ⟨?_, ?_⟩
            · show o'.id ≠ (acceptBlock acc.1 o).1.genesis.id
              rw [hg]; exact f1
            · intro k hk'
              change k ∈ (acceptBlock acc.1 o).1.known at hk'
              rcases hk with e | e
              · rw [e] at hk'; exact f2 k hk'
              · rw [e] at hk'
                rcases List.mem_cons.mp hk' with e' | e'
                · rw [e']; exact fun x => hq' x.symm
                · exact f2 k e'
          · show (((acceptBlock acc.1 o).1.orphans.filter (·.id != o.id)).map (·.id)).Nodup
            rw [ho]; exact nodup_filter_ids _ _ hi.orphNodup
          · show (acceptBlock acc.1 o).1.genesis.height ≤ (acceptBlock acc.1 o).1.P.guardFrom ∧
              ∀ b ∈ bs, b.height ≤ (acceptBlock acc.1 o).1.P.guardFrom
            rw [hg, hP]; exact hi.low
        · intro o' ho'
          show o' ∈ (acceptBlock acc.1 o).1.orphans.filter (·.id != o.id)
          rw [ho]
          exact List.mem_filter.mpr ⟨hin o' (List.mem_cons_of_mem _ ho'), by simpa using hne o' ho'⟩
        · exact hnd'
    · have hs : orphanStep acc o = acc := by unfold orphanStep; simp [hgo]
      rw [hs]
      exact ih acc hi (fun o' ho' => hin o' (List.mem_cons_of_mem _ ho')) hnd'

theorem ginv_processOrphans {P : Params} {bs : List Block} (hv : AllValid P bs) (fuel : Nat) (s : NState) (q : List Nat)
    (hi : GInv P bs s) : GInv P bs (processOrphans fuel s q).1 := by
  induction fuel generalizing s q with
  | zero => unfold processOrphans; exact hi
  | succ n ih =>
    cases q with
    | nil => unfold processOrphans; exact hi
    | cons id r =>
      unfold processOrphans
      have hf := ginv_orphanFold hv (s.orphans.filter (·.prev == id)) (s, true, r) hi
        (fun o ho => (List.mem_filter.mp ho).1) (nodup_filter_ids _ _ hi.orphNodup)
      simp only
      split
      · exact ih _ _ hf
      · exact hf

/-- one delivery, in any order, keeps the invariant -/
theorem ginv_processBlock {P : Params} {bs : List Block} (hv : AllValid P bs) (s : NState) (b : Block) (hb : b ∈ bs)
    (hi : GInv P bs s) : GInv P bs (processBlock s b).1 := by
  unfold processBlock
  by_cases h1 : s.isKnown b.id = true
  · simp only [h1, if_true]; exact hi
  · simp only [h1, Bool.false_eq_true, if_false]
    have hfr : Fresh s b := fresh_of_not_known (by simpa using h1)
    by_cases h2 : (s.orphans.any (·.id == b.id)) = true
    · simp only [h2, if_true]; exact hi
    · simp only [h2, Bool.false_eq_true, if_false]
      by_cases h3 : (!blockSane b) = true
      · simp only [h3, if_true]; exact hi
      · simp only [h3, Bool.false_eq_true, if_false]
        by_cases h4 : (!s.isKnown b.prev) = true
        · simp only [h4, if_true]
          have hno : ∀ o ∈ s.orphans, o.id ≠ b.id := by
            intro o ho e
            apply h2
            exact List.any_eq_true.mpr ⟨o, ho, by simp [e]⟩
          refine ⟨⟨hi.w.best, hi.w.actKnown⟩, hi.par, hi.knownIn, ?_, ?_, ?_, hi.low⟩
          · intro o ho
            rcases List.mem_append.mp ho with e | e
            · exact hi.orphIn o e
            · rw [List.mem_singleton.mp e]; exact hb
          · intro o ho
            rcases List.mem_append.mp ho with e | e
            · exact hi.orphFresh o e
            · rw [List.mem_singleton.mp e]; exact hfr
          · show ((s.orphans ++ [b]).map (·.id)).Nodup
            rw [List.map_append, List.nodup_append]
            refine ⟨hi.orphNodup, by simp, ?_⟩
            intro x hx y hy
            obtain ⟨o, ho, rfl⟩ := List.mem_map.mp hx
            simp at hy
            rw [hy]; exact hno o ho
        · simp only [h4, Bool.false_eq_true, if_false]
          obtain ⟨hw, hk, ho, hP, hg, herr⟩ := ginv_acceptBlock hv s b hb hi hfr
          have ha : GInv P bs (acceptBlock s b).1 := by
            refine ⟨hw, hP.trans hi.par, ?_, ?_, ?_, ?_, ?_⟩
            · intro k hk'
              rcases hk with e | e
              · rw [e] at hk'; exact hi.knownIn k hk'
              · rw [e] at hk'
                rcases List.mem_cons.mp hk' with e' | e'
                · rw [e']; exact hb
                · exact hi.knownIn k e'
            · intro o ho'; rw [ho] at ho'; exact hi.orphIn o ho'
            · intro o ho'
              rw [ho] at ho'
              obtain ⟨f1, f2⟩ := hi.orphFresh o ho'
              refine ⟨by rw [hg]; exact f1, ?_⟩
              intro k hk'
              rcases hk with e | e
              · rw [e] at hk'; exact f2 k hk'
              · rw [e] at hk'
                rcases List.mem_cons.mp hk' with e' | e'
                · rw [e']
                  intro x
                  apply h2
                  exact List.any_eq_true.mpr ⟨o, ho', by simp [x]⟩
                · exact f2 k e'
            · rw [ho]; exact hi.orphNodup
            · rw [hg, hP]; exact hi.low
          split
          · exact ha
          · have := ginv_processOrphans hv ((acceptBlock s b).1.orphans.length + 1) (acceptBlock s b).1 [b.id] ha
            split
            · exact this
            · exact this

def deliverAll' (s : NState) (bs : List Block) : NState := bs.foldl (fun st b => (processBlock st b).1) s

theorem ginv_deliverAll {P : Params} {bs : List Block} (hv : AllValid P bs) (ds : List Block) (hd : ∀ d ∈ ds, d ∈ bs)
    (s : NState) (hi : GInv P bs s) : GInv P bs (deliverAll' s ds) := by
  induction ds generalizing s with
  | nil => exact hi
  | cons d r ih =>
    exact ih (fun x hx => hd x (List.mem_cons_of_mem _ hx)) _
      (ginv_processBlock hv s d (hd d (List.mem_cons_self ..)) hi)

theorem ginv_init (P : Params) (g : Block) (bs : List Block) (hg : g.height ≤ P.guardFrom)
    (hl : ∀ b ∈ bs, b.height ≤ P.guardFrom) : GInv P bs (initState P g) :=
  ⟨winv_init P g, rfl, fun k hk => by simp [initState] at hk, fun o ho => by simp [initState] at ho,
   fun o ho => by simp [initState] at ho, by simp [initState], ⟨hg, hl⟩⟩

/-- `AllValid` is inhabited: blocks that carry only their coinbase, below `CheckRewardHeight`, pass the
    context check on every ledger -/
theorem allValid_coinbaseOnly (P : Params) (bs : List Block)
    (h : ∀ b ∈ bs, (∃ cb, b.txs = [cb]) ∧ b.height < P.checkRewardFrom) : AllValid P bs := by
  intro s b hP hb
  obtain ⟨⟨cb, hcb⟩, hh⟩ := h b hb
  have : blockValid s.P s.ledger b = true := by
    unfold blockValid
    rw [hcb, hP]
    simp [hh]
  unfold connectTip
  simp [this]

end ElaVerif.Node
