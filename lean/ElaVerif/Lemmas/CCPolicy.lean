import ElaVerif.Model.CCPolicy
/-! helper lemmas for C31 (characterisations of the two Boolean list tests) -/
namespace ElaVerif.CCPolicy

theorem okWithdrawVer_iff (ver : Nat) :
    okWithdrawVer ver = true ↔ (ver = 0 ∨ ver = 1 ∨ ver = 2) := by
  simp [okWithdrawVer, withdrawVersions]

theorem allCC_iff (ps : List Nat) :
    allCC ps = true ↔ ∀ p ∈ ps, p = prefixCrossChain := by
  simp [allCC]

theorem hasCC_iff (ps : List Nat) :
    hasCC ps = true ↔ prefixCrossChain ∈ ps := by
  simp [hasCC]

end ElaVerif.CCPolicy
