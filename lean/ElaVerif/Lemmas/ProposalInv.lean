import ElaVerif.Lemmas.Proposal
import ElaVerif.Lemmas.Deposit
/-!
C29 helper lemmas for the whole-history induction: per-proposal projection of a block,
the `Grow` relation (budget lists that differ only by additional withdrawable flags),
and the per-proposal fold argument.
-/
namespace ElaVerif.Proposal
open ElaVerif.Deposit (AMap get upd mapKV get_upd get_cons get_mapKV)

/-! ### `Grow`: same budgets, same withdrawn flags, withdrawable flags only added -/

inductive Grow : List BEntry → List BEntry → Prop
  | nil : Grow [] []
  | cons {b b' : BEntry} {l l' : List BEntry} :
      b'.typ = b.typ → b'.stage = b.stage → b'.amount = b.amount → b'.wn = b.wn →
      (b.w = true → b'.w = true) → Grow l l' → Grow (b :: l) (b' :: l')

theorem Grow.refl : ∀ l, Grow l l
  | [] => .nil
  | _ :: t => .cons rfl rfl rfl rfl id (Grow.refl t)

theorem Grow.trans : ∀ {a b c}, Grow a b → Grow b c → Grow a c := by
  intro a b c h1
  induction h1 generalizing c with
  | nil => intro h2; cases h2; exact .nil
  | cons t1 s1 a1 n1 w1 _ ih =>
    intro h2
    cases h2 with
    | cons t2 s2 a2 n2 w2 r2 =>
      exact .cons (t2.trans t1) (s2.trans s1) (a2.trans a1) (n2.trans n1) (fun h => w2 (w1 h)) (ih r2)

theorem grow_setW (st : Nat) : ∀ l, Grow l (setW st l)
  | [] => .nil
  | b :: t => by
    have ih := grow_setW st t
    simp only [setW, List.map_cons]
    split
    · exact .cons rfl rfl rfl rfl (fun _ => rfl) ih
    · exact .cons rfl rfl rfl rfl id ih

theorem grow_setWFirst (ty : BType) : ∀ l, Grow l (setWFirst ty l)
  | [] => .nil
  | b :: t => by
    simp only [setWFirst]
    split
    · exact .cons rfl rfl rfl rfl (fun _ => rfl) (Grow.refl t)
    · exact .cons rfl rfl rfl rfl id (grow_setWFirst ty t)

theorem grow_stages {l l'} (h : Grow l l') : l'.map (·.stage) = l.map (·.stage) := by
  induction h with
  | nil => rfl
  | cons _ s _ _ _ _ ih => simp [s, ih]

theorem grow_withdrawnSum {l l'} (h : Grow l l') : withdrawnSum l' = withdrawnSum l := by
  induction h with
  | nil => rfl
  | @cons b b' t t' _ _ a n _ _ ih =>
    have e1 : withdrawnSum (b' :: t') = (if b'.wn then b'.amount else 0) + withdrawnSum t' := by simp [withdrawnSum]
    have e2 : withdrawnSum (b :: t) = (if b.wn then b.amount else 0) + withdrawnSum t := by simp [withdrawnSum]
    rw [e1, e2, ih, a, n]

theorem grow_total {l l'} (h : Grow l l') : total l' = total l := by
  induction h with
  | nil => rfl
  | @cons b b' t t' _ _ a _ _ _ ih =>
    have e1 : total (b' :: t') = b'.amount + total t' := by simp [total]
    have e2 : total (b :: t) = b.amount + total t := by simp [total]
    rw [e1, e2, ih, a]

/-- budget part of `PropOK` -/
def BudOK (bs : List BEntry) : Prop :=
  (bs.map (·.stage)).Nodup ∧ (∀ b ∈ bs, 0 ≤ b.amount) ∧ (∀ b ∈ bs, b.wn = true → b.w = true)

theorem grow_amounts {l l'} (h : Grow l l') (hp : ∀ b ∈ l, 0 ≤ b.amount) : ∀ b ∈ l', 0 ≤ b.amount := by
  induction h with
  | nil => intro b hb; cases hb
  | @cons b b' t t' _ _ a _ _ _ ih =>
    intro x hx
    rcases List.mem_cons.mp hx with rfl | hx
    · rw [a]; exact hp b (by simp)
    · exact ih (fun y hy => hp y (by simp [hy])) x hx

theorem grow_sub {l l'} (h : Grow l l') (hp : ∀ b ∈ l, b.wn = true → b.w = true) :
    ∀ b ∈ l', b.wn = true → b.w = true := by
  induction h with
  | nil => intro b hb; cases hb
  | @cons b b' t t' _ _ _ n w _ ih =>
    intro x hx
    rcases List.mem_cons.mp hx with rfl | hx
    · intro hwn; rw [n] at hwn; exact w (hp b (by simp) hwn)
    · exact ih (fun y hy => hp y (by simp [hy])) x hx

theorem grow_budOK {l l'} (h : Grow l l') (hok : BudOK l) : BudOK l' :=
  ⟨by rw [grow_stages h]; exact hok.1, grow_amounts h hok.2.1, grow_sub h hok.2.2⟩

theorem total_nonneg : ∀ (l : List BEntry), (∀ b ∈ l, 0 ≤ b.amount) → 0 ≤ total l := by
  intro l
  induction l with
  | nil => intro _; simp [total]
  | cons x t ih =>
    intro h
    have hx := h x (by simp)
    have ht := ih (fun b hb => h b (by simp [hb]))
    have e : total (x :: t) = x.amount + total t := by simp [total]
    rw [e]; omega

theorem markWn_stages (S : List Nat) (l : List BEntry) : (markWn S l).map (·.stage) = l.map (·.stage) := by
  induction l with
  | nil => rfl
  | cons x t ih =>
    simp only [markWn, List.map_cons] at ih ⊢
    rw [ih]; split <;> rfl

theorem markWn_amounts (S : List Nat) (l : List BEntry) (hp : ∀ b ∈ l, 0 ≤ b.amount) :
    ∀ b ∈ markWn S l, 0 ≤ b.amount := by
  intro b hb
  simp only [markWn, List.mem_map] at hb
  obtain ⟨b0, hb0, rfl⟩ := hb
  split <;> exact hp b0 hb0

/-- marking, in the current list `l`, the stages that were withdrawable-and-not-withdrawn in the
    pre-block list `l0` adds exactly `avail l0` to the withdrawn sum and keeps withdrawn ⊆ withdrawable. -/
theorem mark_after_grow (S : List Nat) : ∀ {l0 l}, Grow l0 l →
    (∀ b0 ∈ l0, (b0.stage ∈ S ↔ (b0.w = true ∧ b0.wn = false))) →
    (∀ b ∈ l, b.wn = true → b.w = true) →
    withdrawnSum (markWn S l) = withdrawnSum l + avail l0 ∧
    (∀ b ∈ markWn S l, b.wn = true → b.w = true) := by
  intro l0 l h
  induction h with
  | nil => intro _ _; exact ⟨by simp [markWn, withdrawnSum, avail], fun b hb => by simp [markWn] at hb⟩
  | @cons b0 b t0 t _ hs ha hn hw _ ih =>
    intro hS hsub
    have hb0 := hS b0 (by simp)
    obtain ⟨ih1, ih2⟩ := ih (fun x hx => hS x (by simp [hx])) (fun x hx => hsub x (by simp [hx]))
    have hsubb := hsub b (by simp)
    have e1 : withdrawnSum (markWn S (b :: t)) =
        (if (if b.stage ∈ S then { b with wn := true } else b).wn then b.amount else 0) + withdrawnSum (markWn S t) := by
      simp only [markWn, List.map_cons, withdrawnSum, List.foldr_cons]
      split <;> rfl
    have e2 : withdrawnSum (b :: t) = (if b.wn then b.amount else 0) + withdrawnSum t := by simp [withdrawnSum]
    have e3 : avail (b0 :: t0) = (if b0.w ∧ ¬ b0.wn then b0.amount else 0) + avail t0 := by simp [avail]
    constructor
    · rw [e1, e2, e3, ih1]
      by_cases hs' : b.stage ∈ S
      · obtain ⟨hw0, hn0⟩ := hb0.mp (hs ▸ hs')
        have : b.wn = false := by rw [hn]; exact hn0
        simp [hs', hw0, hn0, this, ha]; omega
      · have hno : ¬ (b0.w = true ∧ b0.wn = false) := fun hh => hs' (hs ▸ hb0.mpr hh)
        rw [← hn] at hno
        cases hwn : b.wn <;> cases hw0 : b0.w <;> simp [hs', hwn, hw0, hn ▸ hwn] at hno ⊢ <;> omega
    · intro x hx
      have : markWn S (b :: t) = (if b.stage ∈ S then { b with wn := true } else b) :: markWn S t := by
        simp [markWn]
      rw [this] at hx
      rcases List.mem_cons.mp hx with rfl | hx
      · by_cases hs' : b.stage ∈ S
        · obtain ⟨hw0, _⟩ := hb0.mp (hs ▸ hs')
          simp [hs']; exact hw hw0
        · simpa [hs'] using hsubb
      · exact ih2 x hx

/-! ### what an accepted CRCProposal says about its budgets -/

theorem budgetLoop_facts : ∀ (l : List BEntry) (st : Nat) (sum : Int), budgetLoop st sum l = none →
    (∀ b ∈ l, st ≤ b.stage ∧ 0 ≤ b.amount) ∧ (l.map (·.stage)).Nodup := by
  intro l
  induction l with
  | nil => intro _ _ _; exact ⟨fun b hb => (by cases hb), (by simp)⟩
  | cons x t ih =>
    intro st sum h
    simp only [budgetLoop] at h
    split at h
    · cases h
    · rename_i hst
      split at h
      · cases h
      · rename_i hamt
        split at h
        · cases h
        · obtain ⟨h1, h2⟩ := ih (st + 1) _ h
          have hxs : x.stage = st := by simpa using hst
          constructor
          · intro b hb
            rcases List.mem_cons.mp hb with rfl | hb
            · exact ⟨by omega, by omega⟩
            · have := h1 b hb; exact ⟨by omega, this.2⟩
          · simp only [List.map_cons, List.nodup_cons]
            refine ⟨?_, h2⟩
            intro hmem
            obtain ⟨b, hb, hbs⟩ := List.mem_map.mp hmem
            have := (h1 b hb).1
            omega

theorem perm_ins (b : BEntry) : ∀ l, (insByStage b l).Perm (b :: l)
  | [] => List.Perm.refl _
  | c :: t => by
    simp only [insByStage]
    split
    · exact List.Perm.refl _
    · exact ((perm_ins b t).cons c).trans (List.Perm.swap b c t)

theorem perm_sort : ∀ bs, (sortByStage bs).Perm bs
  | [] => List.Perm.refl _
  | b :: t => by
    have : sortByStage (b :: t) = insByStage b (sortByStage t) := by simp [sortByStage]
    rw [this]
    exact (perm_ins b _).trans ((perm_sort t).cons b)

theorem checkPropose_budgets (s0 : State) (acc : Int) (bs : List BEntry)
    (h : checkPropose s0 acc bs = none) : (bs.map (·.stage)).Nodup ∧ ∀ b ∈ bs, 0 ≤ b.amount := by
  have hp := perm_sort bs
  unfold checkPropose at h
  split at h
  · cases h
  · rename_i b0 rest hs
    simp only at h
    split at h
    · cases h
    · split at h
      · cases h
      · split at h
        · cases h
        · split at h
          · cases h
          · rename_i hloop
            rw [hs] at hp
            obtain ⟨h1, h2⟩ := budgetLoop_facts _ _ _ hloop
            constructor
            · exact ((hp.map (·.stage)).nodup_iff).mp h2
            · intro b hb
              exact (h1 b ((hp.mem_iff).mpr hb)).2

/-! ### per-proposal projection of a block -/

def newProp (h : Nat) (bs : List BEntry) : Prop' :=
  { budgets := bs, status := .registered, paid := 0, votes := [], regH := h, voteH := 0, reject := 0 }

def projP (h : Nat) (id : Nat) (p0? : Option Prop') (tx : Tx) (p? : Option Prop') : Option Prop' :=
  match tx with
  | .propose id' bs =>
    if id' = id then (match p? with | some p => some p | none => some (newProp h bs)) else p?
  | .review id' _ _ | .rejvotes id' _ | .withdraw id' _ | .withdraw0 id' _ _ _ | .track id' _ _ =>
    if id' = id then (match p0? with | none => p? | some p0 => p?.map (propStep h p0 tx)) else p?

/-- change of the committee's used amount caused by one transaction (decided on the pre-block state) -/
def dUsed (s0 : State) : Tx → Int
  | .propose _ bs => total bs
  | .track id k _ => match get id s0.props with
    | none => 0
    | some p0 => - unusedOf p0 k
  | _ => 0

theorem get_applyTx_props (h : Nat) (s0 s : State) (tx : Tx) (id : Nat) :
    get id (applyTx h s0 s tx).props = projP h id (get id s0.props) tx (get id s.props) := by
  cases tx with
  | propose id' bs =>
    simp only [applyTx, projP]
    by_cases ho : id' = id
    · subst ho
      cases hg : get id' s.props with
      | none => simp [get_cons, newProp]
      | some a => simp [hg]
    · cases hg : get id' s.props with
      | none => simp [get_cons, ho]
      | some a => simp [ho]
  | review id' m a =>
    simp only [applyTx, projP]
    cases h0 : get id' s0.props with
    | none => by_cases ho : id' = id <;> simp [ho]; subst ho; simp [h0]
    | some a0 => by_cases ho : id' = id
                 · subst ho; simp [get_upd, h0]
                 · simp [get_upd, ho]
  | rejvotes id' a =>
    simp only [applyTx, projP]
    cases h0 : get id' s0.props with
    | none => by_cases ho : id' = id <;> simp [ho]; subst ho; simp [h0]
    | some a0 => by_cases ho : id' = id
                 · subst ho; simp [get_upd, h0]
                 · simp [get_upd, ho]
  | withdraw id' a =>
    simp only [applyTx, projP]
    cases h0 : get id' s0.props with
    | none => by_cases ho : id' = id <;> simp [ho]; subst ho; simp [h0]
    | some a0 => by_cases ho : id' = id
                 · subst ho; simp [get_upd, h0]
                 · simp [get_upd, ho]
  | withdraw0 id' i o0 o1 =>
    simp only [applyTx, projP]
    cases h0 : get id' s0.props with
    | none => by_cases ho : id' = id <;> simp [ho]; subst ho; simp [h0]
    | some a0 => by_cases ho : id' = id
                 · subst ho; simp [get_upd, h0]
                 · simp [get_upd, ho]
  | track id' k st =>
    simp only [applyTx, projP]
    cases h0 : get id' s0.props with
    | none => by_cases ho : id' = id <;> simp [ho]; subst ho; simp [h0]
    | some a0 => by_cases ho : id' = id
                 · subst ho; simp [get_upd, h0]
                 · simp [get_upd, ho]

theorem used_applyTx (h : Nat) (s0 s : State) (tx : Tx) :
    (applyTx h s0 s tx).used = s.used + dUsed s0 tx ∧ (applyTx h s0 s tx).stage = s.stage := by
  cases tx with
  | propose id' bs => simp [applyTx, dUsed]
  | review id' m a => simp only [applyTx, dUsed]; cases get id' s0.props <;> simp
  | rejvotes id' a => simp only [applyTx, dUsed]; cases get id' s0.props <;> simp
  | withdraw id' a => simp only [applyTx, dUsed]; cases get id' s0.props <;> simp
  | withdraw0 id' i o0 o1 => simp only [applyTx, dUsed]; cases get id' s0.props <;> simp
  | track id' k st => simp only [applyTx, dUsed]; cases get id' s0.props <;> simp <;> omega

theorem get_foldl_props (h : Nat) (s0 : State) (id : Nat) (txs : List Tx) (s : State) :
    get id (txs.foldl (applyTx h s0) s).props =
      txs.foldl (fun p? tx => projP h id (get id s0.props) tx p?) (get id s.props) := by
  induction txs generalizing s with
  | nil => rfl
  | cons tx t ih => simp only [List.foldl_cons]; rw [ih, get_applyTx_props]

def sumD (s0 : State) : List Tx → Int
  | [] => 0
  | tx :: t => dUsed s0 tx + sumD s0 t

theorem used_foldl (h : Nat) (s0 : State) (txs : List Tx) (s : State) :
    (txs.foldl (applyTx h s0) s).used = s.used + sumD s0 txs ∧ (txs.foldl (applyTx h s0) s).stage = s.stage := by
  induction txs generalizing s with
  | nil => simp [sumD]
  | cons tx t ih =>
    simp only [List.foldl_cons, sumD]
    obtain ⟨h1, h2⟩ := ih (applyTx h s0 s tx)
    obtain ⟨h3, h4⟩ := used_applyTx h s0 s tx
    rw [h1, h2, h3, h4]; omega

/-! ### the per-proposal fold argument -/

def isWithdraw (id : Nat) : Tx → Bool
  | .withdraw id' _ => id' == id
  | .withdraw0 id' _ _ _ => id' == id
  | _ => false

def isTrack (id : Nat) : Tx → Bool
  | .track id' _ _ => id' == id
  | _ => false

/-- well-formedness of an op: a new proposal starts with no stage withdrawable or withdrawn. -/
def wfTx : Tx → Prop
  | .propose _ bs => ∀ b ∈ bs, b.w = false ∧ b.wn = false
  | _ => True

/-- what the accepted context checks say, relative to the PRE-BLOCK proposal `p0?` of `id`. -/
def chkP (id : Nat) (p0? : Option Prop') : Tx → Prop
  | .propose _ bs => (bs.map (·.stage)).Nodup ∧ ∀ b ∈ bs, 0 ≤ b.amount
  | .withdraw id' amount => id' = id → ∃ p0, p0? = some p0 ∧ amount = avail p0.budgets
  | .withdraw0 id' inp _ out1 => id' = id → ∃ p0, p0? = some p0 ∧ inp - out1Back out1 = avail p0.budgets
  | _ => True

def OKp : Option Prop' → Prop
  | none => True
  | some p => PropOK p

theorem withdrawnSum_zero : ∀ (l : List BEntry), (∀ b ∈ l, b.wn = false) → withdrawnSum l = 0 := by
  intro l
  induction l with
  | nil => intro _; rfl
  | cons x t ih =>
    intro h
    have hx := h x (by simp)
    have e : withdrawnSum (x :: t) = (if x.wn then x.amount else 0) + withdrawnSum t := by simp [withdrawnSum]
    rw [e, ih (fun b hb => h b (by simp [hb])), hx]; simp

theorem propOK_grow (p : Prop') (bs' : List BEntry) (hok : PropOK p) (hg : Grow p.budgets bs')
    (p' : Prop') (hb : p'.budgets = bs') (hpaid : p'.paid = p.paid) : PropOK p' := by
  obtain ⟨h1, h2, h3, h4⟩ := hok
  obtain ⟨g1, g2, g3⟩ := grow_budOK hg ⟨h1, h2, h3⟩
  refine ⟨by rw [hb]; exact g1, by rw [hb]; exact g2, by rw [hb]; exact g3, ?_⟩
  rw [hpaid, hb, grow_withdrawnSum hg]; exact h4

theorem fold_prop_ok (h id : Nat) (p0? : Option Prop') (hp0 : OKp p0?) :
    ∀ (txs : List Tx) (p? : Option Prop'),
      (∀ tx ∈ txs, wfTx tx) → (∀ tx ∈ txs, chkP id p0? tx) →
      (txs.filter (isWithdraw id)).length ≤ 1 → OKp p? →
      ((txs.filter (isWithdraw id)).length = 1 → ∀ p0, p0? = some p0 → ∃ p, p? = some p ∧ Grow p0.budgets p.budgets) →
      OKp (txs.foldl (fun p? tx => projP h id p0? tx p?) p?) := by
  intro txs
  induction txs with
  | nil => intro p? _ _ _ hok _; exact hok
  | cons tx rest ih =>
    intro p? hwf hchk hcnt hok htrack
    simp only [List.foldl_cons]
    have hwf' : ∀ t ∈ rest, wfTx t := fun t ht => hwf t (by simp [ht])
    have hchk' : ∀ t ∈ rest, chkP id p0? t := fun t ht => hchk t (by simp [ht])
    have hw := hwf tx (by simp)
    have hc := hchk tx (by simp)
    by_cases hd : isWithdraw id tx = true
    · have hf : (tx :: rest).filter (isWithdraw id) = tx :: rest.filter (isWithdraw id) := List.filter_cons_of_pos hd
      have hrest0 : (rest.filter (isWithdraw id)).length = 0 := by
        rw [hf] at hcnt; simp only [List.length_cons] at hcnt; omega
      have hnow : ((tx :: rest).filter (isWithdraw id)).length = 1 := by
        rw [hf]; simp only [List.length_cons]; omega
      apply ih _ hwf' hchk' (by omega)
      · cases tx with
        | withdraw id' amount =>
          have hid : id' = id := by simpa [isWithdraw] using hd
          subst hid
          obtain ⟨p0, hp0e, hamt⟩ := hc rfl
          obtain ⟨p, hpe, hgrow⟩ := htrack hnow p0 hp0e
          subst hpe; subst hp0e
          obtain ⟨n0, a0, s0', _⟩ := hp0
          obtain ⟨n1, a1, s1, paid1⟩ := hok
          have hm := mark_after_grow (withdrawing p0.budgets) hgrow
            (fun b hb => mem_withdrawing p0.budgets n0 b hb) s1
          simp only [projP, if_true, Option.map, OKp, propStep]
          refine ⟨?_, ?_, hm.2, ?_⟩
          · simp only; rw [markWn_stages]; exact n1
          · exact markWn_amounts _ _ a1
          · simp only; rw [hm.1, hamt, paid1]
        | withdraw0 id' inp out0 out1 =>
          have hid : id' = id := by simpa [isWithdraw] using hd
          subst hid
          obtain ⟨p0, hp0e, hamt⟩ := hc rfl
          obtain ⟨p, hpe, hgrow⟩ := htrack hnow p0 hp0e
          subst hpe; subst hp0e
          obtain ⟨n0, a0, s0', _⟩ := hp0
          obtain ⟨n1, a1, s1, paid1⟩ := hok
          have hm := mark_after_grow (withdrawing p0.budgets) hgrow
            (fun b hb => mem_withdrawing p0.budgets n0 b hb) s1
          simp only [projP, if_true, Option.map, OKp, propStep]
          refine ⟨?_, ?_, hm.2, ?_⟩
          · simp only; rw [markWn_stages]; exact n1
          · exact markWn_amounts _ _ a1
          · simp only; rw [hm.1, hamt, paid1]
        | _ => simp [isWithdraw] at hd
      · intro hone; omega
    · have hd' : isWithdraw id tx = false := by simpa using hd
      have hf : (tx :: rest).filter (isWithdraw id) = rest.filter (isWithdraw id) := List.filter_cons_of_neg (by simp [hd'])
      have hcnt' : (rest.filter (isWithdraw id)).length ≤ 1 := by rw [hf] at hcnt; exact hcnt
      have hsame : ((tx :: rest).filter (isWithdraw id)).length = (rest.filter (isWithdraw id)).length := by rw [hf]
      -- one lemma for both obligations: the step keeps PropOK and only grows the budgets
      have hstep : OKp (projP h id p0? tx p?) ∧
          (∀ p, p? = some p → ∃ p', projP h id p0? tx p? = some p' ∧ Grow p.budgets p'.budgets) := by
        cases tx with
        | propose id' bs =>
          simp only [projP]
          split
          · cases p? with
            | some p => exact ⟨hok, fun q hq => ⟨q, hq, Grow.refl _⟩⟩
            | none =>
              refine ⟨?_, fun q hq => by cases hq⟩
              simp only [OKp, PropOK, newProp]
              refine ⟨hc.1, hc.2, fun b hb hwn => ?_, ?_⟩
              · have := (hw b hb).2; rw [this] at hwn; cases hwn
              · exact (withdrawnSum_zero bs (fun b hb => (hw b hb).2)).symm
          · exact ⟨hok, fun q hq => ⟨q, hq, Grow.refl _⟩⟩
        | withdraw id' a =>
          have hid : ¬ id' = id := by simpa [isWithdraw] using hd'
          simp only [projP, hid, if_false]
          exact ⟨hok, fun q hq => ⟨q, hq, Grow.refl _⟩⟩
        | withdraw0 id' i o0 o1 =>
          have hid : ¬ id' = id := by simpa [isWithdraw] using hd'
          simp only [projP, hid, if_false]
          exact ⟨hok, fun q hq => ⟨q, hq, Grow.refl _⟩⟩
        | review id' m a =>
          simp only [projP]
          split
          · cases p0? with
            | none => exact ⟨hok, fun q hq => ⟨q, hq, Grow.refl _⟩⟩
            | some p0 =>
              cases p? with
              | none => exact ⟨trivial, fun q hq => by cases hq⟩
              | some p =>
                refine ⟨?_, fun q hq => ?_⟩
                · exact propOK_grow p _ hok (Grow.refl _) _ rfl rfl
                · cases hq; exact ⟨_, rfl, Grow.refl _⟩
          · exact ⟨hok, fun q hq => ⟨q, hq, Grow.refl _⟩⟩
        | rejvotes id' a =>
          simp only [projP]
          split
          · cases p0? with
            | none => exact ⟨hok, fun q hq => ⟨q, hq, Grow.refl _⟩⟩
            | some p0 =>
              cases p? with
              | none => exact ⟨trivial, fun q hq => by cases hq⟩
              | some p =>
                refine ⟨?_, fun q hq => ?_⟩
                · exact propOK_grow p _ hok (Grow.refl _) _ rfl rfl
                · cases hq; exact ⟨_, rfl, Grow.refl _⟩
          · exact ⟨hok, fun q hq => ⟨q, hq, Grow.refl _⟩⟩
        | track id' k st =>
          simp only [projP]
          split
          · cases p0? with
            | none => exact ⟨hok, fun q hq => ⟨q, hq, Grow.refl _⟩⟩
            | some p0 =>
              cases p? with
              | none => exact ⟨trivial, fun q hq => by cases hq⟩
              | some p =>
                cases k with
                | progress =>
                  refine ⟨?_, fun q hq => ?_⟩
                  · exact propOK_grow p _ hok (grow_setW st p.budgets) _ rfl rfl
                  · cases hq; exact ⟨_, rfl, grow_setW st _⟩
                | terminated =>
                  simp only [Option.map, propStep]
                  split
                  · exact ⟨hok, fun q hq => by cases hq; exact ⟨_, rfl, Grow.refl _⟩⟩
                  · refine ⟨?_, fun q hq => ?_⟩
                    · exact propOK_grow p _ hok (Grow.refl _) _ rfl rfl
                    · cases hq; exact ⟨_, rfl, Grow.refl _⟩
                | finalized =>
                  refine ⟨?_, fun q hq => ?_⟩
                  · exact propOK_grow p _ hok (grow_setWFirst .final p.budgets) _ rfl rfl
                  · cases hq; exact ⟨_, rfl, grow_setWFirst .final _⟩
                | common => exact ⟨hok, fun q hq => by cases hq; exact ⟨_, rfl, Grow.refl _⟩⟩
                | rejected => exact ⟨hok, fun q hq => by cases hq; exact ⟨_, rfl, Grow.refl _⟩⟩
          · exact ⟨hok, fun q hq => ⟨q, hq, Grow.refl _⟩⟩
      apply ih _ hwf' hchk' hcnt' hstep.1
      intro hone p0 hp0e
      obtain ⟨p, hpe, hgrow⟩ := htrack (by omega) p0 hp0e
      obtain ⟨p', hp'e, hg'⟩ := hstep.2 p hpe
      exact ⟨p', hp'e, hgrow.trans hg'⟩

theorem updateProp_ok (P : Params) (h : Nat) (p : Prop') (hok : PropOK p) : PropOK (updateProp P h p).1 := by
  unfold updateProp
  split
  · split
    · split
      · exact propOK_grow p _ hok (Grow.refl _) _ rfl rfl
      · exact propOK_grow p _ hok (Grow.refl _) _ rfl rfl
    · exact hok
  · split
    · split
      · exact propOK_grow p _ hok (Grow.refl _) _ rfl rfl
      · exact propOK_grow p _ hok (grow_setWFirst .imprest p.budgets) _ rfl rfl
    · exact hok
  · exact hok

theorem updateProp_release_nonneg (P : Params) (h : Nat) (p : Prop') (hok : PropOK p) : 0 ≤ (updateProp P h p).2 := by
  have ht := total_nonneg p.budgets hok.2.1
  unfold updateProp
  split
  · split
    · split <;> simp <;> omega
    · simp
  · split
    · split <;> simp <;> omega
    · simp
  · simp

/-! ### keys of the proposal map -/

def keys {α : Type} (l : AMap α) : List Nat := l.map (·.1)

theorem get_none_iff {α : Type} (k : Nat) (l : AMap α) : get k l = none ↔ k ∉ keys l := by
  induction l with
  | nil => simp [Deposit.get, keys]
  | cons p t ih =>
    obtain ⟨k', v⟩ := p
    by_cases hk : k' = k
    · subst hk; simp [Deposit.get, keys]
    · have hk' : ¬ k = k' := fun e => hk e.symm
      simp only [Deposit.get, hk, if_false, ih, keys, List.map_cons, List.mem_cons, hk', false_or]

theorem get_of_mem {α : Type} (l : AMap α) (hnd : (keys l).Nodup) (k : Nat) (v : α) (hm : (k, v) ∈ l) :
    get k l = some v := by
  induction l with
  | nil => cases hm
  | cons p t ih =>
    obtain ⟨k', v'⟩ := p
    simp only [keys, List.map_cons, List.nodup_cons] at hnd
    rcases List.mem_cons.mp hm with heq | hm'
    · cases heq; simp [Deposit.get]
    · have hne : ¬ k' = k := by
        intro e; subst e
        exact hnd.1 (List.mem_map.mpr ⟨(k', v), hm', rfl⟩)
      simp only [Deposit.get, hne, if_false]
      exact ih hnd.2 hm'

theorem keys_upd {α : Type} (k : Nat) (f : α → α) (l : AMap α) : keys (upd k f l) = keys l := by
  induction l with
  | nil => rfl
  | cons p t ih =>
    obtain ⟨k', v⟩ := p
    simp only [upd]
    split <;> simp [keys] at ih ⊢ <;> exact ih

theorem keys_mapKV {α : Type} (f : Nat → α → α) (l : AMap α) : keys (mapKV f l) = keys l := by
  induction l with
  | nil => rfl
  | cons p t ih =>
    obtain ⟨k', v⟩ := p
    simp [mapKV, keys] at ih ⊢; exact ih

theorem keys_applyTx (h : Nat) (s0 s : State) (tx : Tx) (hnd : (keys s.props).Nodup) :
    (keys (applyTx h s0 s tx).props).Nodup := by
  cases tx with
  | propose id bs =>
    simp only [applyTx]
    cases hg : get id s.props with
    | some _ => exact hnd
    | none =>
      simp only [keys, List.map_cons, List.nodup_cons]
      exact ⟨(get_none_iff id s.props).mp hg, hnd⟩
  | review id m a => simp only [applyTx]; cases get id s0.props <;> simp [keys_upd, hnd]
  | rejvotes id a => simp only [applyTx]; cases get id s0.props <;> simp [keys_upd, hnd]
  | withdraw id a => simp only [applyTx]; cases get id s0.props <;> simp [keys_upd, hnd]
  | withdraw0 id i o0 o1 => simp only [applyTx]; cases get id s0.props <;> simp [keys_upd, hnd]
  | track id k st => simp only [applyTx]; cases get id s0.props <;> simp [keys_upd, hnd]

theorem keys_foldl (h : Nat) (s0 : State) (txs : List Tx) (s : State) (hnd : (keys s.props).Nodup) :
    (keys (txs.foldl (applyTx h s0) s).props).Nodup := by
  induction txs generalizing s with
  | nil => exact hnd
  | cons tx t ih => exact ih _ (keys_applyTx h s0 s tx hnd)

/-! ### the committee counter -/

def proposedSum : List Tx → Int
  | [] => 0
  | .propose _ bs :: t => total bs + proposedSum t
  | _ :: t => proposedSum t

theorem unusedOf_nonneg (p0 : Prop') (hok : PropOK p0) (k : TKind) : 0 ≤ unusedOf p0 k := by
  have hf : ∀ (q : BEntry → Bool), 0 ≤ (p0.budgets.filter q).foldr (fun b acc => b.amount + acc) 0 :=
    fun q => total_nonneg _ (fun b hb => hok.2.1 b (List.mem_filter.mp hb).1)
  cases k with
  | progress => simp [unusedOf]
  | terminated =>
    simp only [unusedOf]
    split
    · omega
    · exact hf _
  | finalized => exact hf _
  | common => simp [unusedOf]
  | rejected => simp [unusedOf]

theorem sumD_le (s0 : State) (hok : ∀ id p0, get id s0.props = some p0 → PropOK p0) :
    ∀ txs, sumD s0 txs ≤ proposedSum txs := by
  intro txs
  induction txs with
  | nil => simp [sumD, proposedSum]
  | cons tx t ih =>
    cases tx with
    | propose id bs => simp only [sumD, dUsed, proposedSum]; omega
    | review id m a => simp only [sumD, dUsed, proposedSum]; omega
    | rejvotes id a => simp only [sumD, dUsed, proposedSum]; omega
    | withdraw id a => simp only [sumD, dUsed, proposedSum]; omega
    | withdraw0 id i o0 o1 => simp only [sumD, dUsed, proposedSum]; omega
    | track id k st =>
      simp only [sumD, dUsed, proposedSum]
      cases hg : get id s0.props with
      | none => simp; exact ih
      | some p0 =>
        have := unusedOf_nonneg p0 (hok id p0 hg) k
        simp; omega

theorem released_nonneg (P : Params) (h : Nat) : ∀ (l : AMap Prop'), (∀ kv ∈ l, PropOK kv.2) →
    0 ≤ l.foldr (fun kv acc => (updateProp P h kv.2).2 + acc) 0 := by
  intro l
  induction l with
  | nil => intro _; simp
  | cons x t ih =>
    intro hall
    have hx := updateProp_release_nonneg P h x.2 (hall x (by simp))
    have ht := ih (fun kv hkv => hall kv (by simp [hkv]))
    simp only [List.foldr_cons]; omega

end ElaVerif.Proposal
