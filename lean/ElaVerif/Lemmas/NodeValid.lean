import ElaVerif.Model.Node
import ElaVerif.Lemmas.Node
/-!
  The active chain of the node model is valid after every operation: each block on it passed the
  context check (`blockValid`) against the ledger of the chain below it.
-/
namespace ElaVerif.Node
open ElaVerif.Index

def StackValid (P : Params) (gl : Ledger) : List (Block × Ledger) → Prop
  | [] => True
  | (b, _) :: rest => blockValid P (ledgerBelow gl rest) b = true ∧ StackValid P gl rest

/-- the active chain is valid (and the parameters are the initial ones) -/
def Valid (P : Params) (s : NState) : Prop := s.P = P ∧ StackValid P s.gledger s.active

theorem valid_connectTip (P : Params) (s s' : NState) (b : Block) (h : Valid P s) (hc : connectTip s b = some s') :
    Valid P s' := by
  unfold connectTip at hc
  split at hc
  · next hv =>
    cases hc
    refine ⟨h.1, ?_, h.2⟩
    show blockValid P (ledgerBelow s.gledger s.active) b = true
    rw [← ledger_eq_below, ← h.1]; exact hv
  · cases hc

theorem valid_disconnectTip (P : Params) (s : NState) (h : Valid P s) : Valid P (disconnectTip s) := by
  unfold disconnectTip
  cases ha : s.active with
  | nil => simpa [ha] using h
  | cons a r =>
    obtain ⟨b, L⟩ := a
    have hst := h.2
    rw [ha] at hst
    exact ⟨h.1, hst.2⟩

theorem valid_attachStep (P : Params) (acc : NState × Bool) (b : Block) (h : Valid P acc.1) :
    Valid P (attachStep acc b).1 := by
  unfold attachStep
  split
  · cases hc : connectTip acc.1 b with
    | some s' => exact valid_connectTip P _ _ _ h hc
    | none => exact h
  · exact h

theorem valid_reorganize (P : Params) (s : NState) (d : Nat) (attach : List Block) (h : Valid P s) :
    Valid P (reorganize s d attach).1 := by
  unfold reorganize
  have h1 : ∀ (n : List Nat) (s : NState), Valid P s → Valid P (n.foldl (fun s _ => disconnectTip s) s) := by
    intro n
    induction n with
    | nil => intro s hs; exact hs
    | cons a r ih => intro s hs; exact ih _ (valid_disconnectTip P s hs)
  have h2 : ∀ (acc : NState × Bool), Valid P acc.1 → Valid P (attach.foldl attachStep acc).1 := by
    induction attach with
    | nil => intro acc ha; exact ha
    | cons b r ih => intro acc ha; simp only [List.foldl_cons]; exact ih _ (valid_attachStep P acc b ha)
  exact h2 _ (h1 _ s h)

theorem valid_cleanPool (P : Params) (s : NState) (h : Valid P s) : Valid P (cleanPool s) := h

theorem valid_acceptBlock (P : Params) (s : NState) (b : Block) (h : Valid P s) : Valid P (acceptBlock s b).1 := by
  unfold acceptBlock
  split
  · exact h
  · split
    · exact h
    · split
      · unfold extendTip
        cases hc : connectTip s b with
        | some s' =>
          have := valid_connectTip P s s' b h hc
          exact ⟨this.1, this.2⟩
        | none => exact h
      · unfold sideOrReorg
        have hk : Valid P (addKnown s b) := h
        split
        · exact hk
        · split
          · exact hk
          · have hg := valid_reorganize P (addKnown s b)
              (reorgPlan (addKnown s b) b).1 (reorgPlan (addKnown s b) b).2 hk
            simp only
            split
            · exact hg
            · exact hg

theorem valid_processOrphans (P : Params) (fuel : Nat) (s : NState) (q : List Nat) (h : Valid P s) :
    Valid P (processOrphans fuel s q).1 := by
  induction fuel generalizing s q with
  | zero => unfold processOrphans; exact h
  | succ n ih =>
    cases q with
    | nil => unfold processOrphans; exact h
    | cons id queue =>
      unfold processOrphans
      simp only
      have hstep : ∀ (kids : List Block) (acc : NState × Bool × List Nat), Valid P acc.1 →
          Valid P (kids.foldl orphanStep acc).1 := by
        intro kids
        induction kids with
        | nil => intro acc ha; exact ha
        | cons o r ihk =>
          intro acc ha
          simp only [List.foldl_cons]
          apply ihk
          unfold orphanStep
          split
          · have := valid_acceptBlock P acc.1 o ha
            simp only
            split
            · exact this
            · exact ⟨this.1, this.2⟩
          · exact ha
      have hg := hstep (s.orphans.filter (·.prev == id)) (s, true, queue) h
      split
      · exact ih _ _ hg
      · exact hg

theorem valid_processBlock (P : Params) (s : NState) (b : Block) (h : Valid P s) : Valid P (processBlock s b).1 := by
  unfold processBlock
  split
  · exact h
  · split
    · exact h
    · split
      · exact h
      · split
        · exact h
        · have h1 := valid_acceptBlock P s b h
          simp only
          split
          · exact h1
          · have h2 := valid_processOrphans P ((acceptBlock s b).1.orphans.length + 1) (acceptBlock s b).1 [b.id] h1
            split <;> exact h2

theorem valid_submit (P : Params) (s : NState) (tx : Tx) (h : Valid P s) : Valid P (submit s tx).1 := h

theorem valid_run (P : Params) (s : NState) (ops : List Op) (h : Valid P s) : Valid P (run s ops) := by
  induction ops generalizing s with
  | nil => exact h
  | cons op r ih =>
    cases op with
    | deliver b => exact ih _ (valid_processBlock P s b h)
    | submit tx => exact ih _ (valid_submit P s tx h)

theorem valid_init (P : Params) (g : Block) : Valid P (initState P g) := ⟨rfl, trivial⟩

end ElaVerif.Node
