import ElaVerif.Model.Script
/-! Helper lemmas about `Model/Script.lean` (used by Props/C03, C05). Core Lean only. -/
namespace ElaVerif.Script

theorem ite_np {α : Type} {c : Prop} [Decidable c] {x y : R α}
    (hx : c → x ≠ .panic) (hy : ¬c → y ≠ .panic) : (if c then x else y) ≠ .panic := by
  split
  · exact hx ‹_›
  · exact hy ‹_›

theorem val_np {α : Type} (a : α) : (R.val a) ≠ .panic := by intro h; cases h

theorem keyLoop_spec (code : Bytes) : ∀ (fuel i : Nat) (n : Int), i < code.length → code.length - i < fuel →
    ∃ r, keyLoop code fuel i n = .val r ∧ (∀ i' n', r = some (i', n') → i' < code.length) := by
  intro fuel
  induction fuel with
  | zero => intro i n h1 h2; omega
  | succ fuel ih =>
    intro i n h1 h2
    unfold keyLoop
    rw [idx_lt h1]
    simp only [R.bind_val]
    split
    · split
      · exact ⟨none, rfl, by intro _ _ h; cases h⟩
      · apply ih <;> omega
    · exact ⟨some (i, n), rfl, by intro i' n' h; cases h; exact h1⟩

theorem bytesToInt16From_val {code : Bytes} {i : Nat} (h : i ≤ code.length) :
    ∃ v, bytesToInt16From code i = .val v := by
  unfold bytesToInt16From
  rw [if_neg (by omega)]
  split <;> exact ⟨_, rfl⟩

theorem parseM_val {code : Bytes} (h : 37 ≤ code.length) (c0 : Nat) :
    ∃ m i, parseM code c0 = .val (m, i) ∧ i ≤ 3 := by
  unfold parseM
  split
  · rw [idx_lt (by omega : 1 < code.length)]
    exact ⟨_, 2, rfl, by omega⟩
  · split
    · obtain ⟨v, hv⟩ := bytesToInt16From_val (code := code) (i := 1) (by omega)
      rw [hv]; exact ⟨v, 3, rfl, by omega⟩
    · exact ⟨_, 1, rfl, by omega⟩

theorem lastOp_total (code : Bytes) (j : Nat) : lastOp true code j ≠ .panic := by
  unfold lastOp
  by_cases h : code.length ≤ j
  · simp [h]
  · rw [if_neg (by simp [h]), idx_lt (by omega)]
    simp only [R.bind_val]
    split
    · intro h; cases h
    · split <;> intro h <;> cases h

theorem parseN_val {code : Bytes} {i : Nat} (h : i < code.length) (n : Int) (c : Nat) :
    ∃ r, parseN true code i n c = .val r := by
  unfold parseN
  split
  · by_cases h1 : code.length ≤ i + 1
    · simp [h1]
    · rw [if_neg (by simp [h1]), idx_lt (by omega)]
      simp only [R.bind_val]
      split <;> exact ⟨_, rfl⟩
  · split
    · obtain ⟨v, hv⟩ := bytesToInt16From_val (code := code) (i := i + 1) (by omega)
      rw [hv]
      simp only [R.bind_val]
      split <;> exact ⟨_, rfl⟩
    · split <;> exact ⟨_, rfl⟩

theorem afterKeys_total (code : Bytes) (m : Int) (r : Option (Nat × Int))
    (hr : ∀ i n, r = some (i, n) → i < code.length) : afterKeys true code m r ≠ .panic := by
  match r with
  | none => intro h; cases h
  | some (i, n) =>
    have hi := hr i n rfl
    simp only [afterKeys]
    split
    · intro h; cases h
    · rw [idx_lt hi]
      simp only [R.bind_val]
      obtain ⟨q, hq⟩ := parseN_val hi n (code[i]).toNat
      rw [hq]
      simp only [R.bind_val]
      cases q with
      | none => intro h; cases h
      | some j => exact lastOp_total code j

theorem isMultiSig_total (code : Bytes) : isMultiSig true code ≠ .panic := by
  unfold isMultiSig
  split
  · intro h; cases h
  · rename_i hlen
    have hlen : 37 ≤ code.length := by omega
    rw [idx_lt (by omega : 0 < code.length)]
    simp only [R.bind_val]
    split
    · intro h; cases h
    · split
      · intro h; cases h
      · obtain ⟨m, i, hm, hi⟩ := parseM_val hlen (code[0]).toNat
        rw [hm]
        simp only [R.bind_val]
        split
        · intro h; cases h
        · obtain ⟨r, hr, hr2⟩ := keyLoop_spec code (code.length + 1) i 0 (by omega) (by omega)
          rw [hr]
          simp only [R.bind_val]
          exact afterKeys_total code m r hr2

theorem isStandard_total (code : Bytes) : isStandard code ≠ .panic := by
  unfold isStandard
  split
  · intro h; cases h
  · rename_i h
    have h' : code.length = 35 := by omega
    rw [idx_lt (by omega : 0 < code.length), idx_lt (by omega : 34 < code.length)]
    simp only [R.bind_val]
    split <;> intro h <;> cases h

theorem isSchnorr_total (code : Bytes) : isSchnorr code ≠ .panic := by
  unfold isSchnorr
  split
  · intro h; cases h
  · rename_i h
    have h' : code.length = 35 := by omega
    rw [idx_lt (by omega : 0 < code.length)]
    simp only [R.bind_val]
    split
    · intro h; cases h
    · rw [idx_lt (by omega : 1 < code.length)]
      simp only [R.bind_val]
      split <;> intro h <;> cases h

theorem lastOp_cons (code : Bytes) (j : Nat) (b : Bool) (h : lastOp false code j = .val b) :
    lastOp true code j = .val b := by
  unfold lastOp at *
  by_cases hj : code.length ≤ j
  · rw [if_neg (by simp), idx_ge hj] at h; cases h
  · rw [if_neg (by simp)] at h; rw [if_neg (by simp [hj])]; exact h

theorem parseN_cons (code : Bytes) (i : Nat) (n : Int) (c : Nat) (r : Option Nat)
    (h : parseN false code i n c = .val r) : parseN true code i n c = .val r := by
  unfold parseN at *
  split
  · rename_i hc
    rw [if_pos hc] at h
    by_cases hj : code.length ≤ i + 1
    · rw [if_neg (by simp), idx_ge hj] at h; cases h
    · rw [if_neg (by simp)] at h; rw [if_neg (by simp [hj])]; exact h
  · rename_i hc
    rw [if_neg hc] at h
    exact h

theorem afterKeys_cons (code : Bytes) (m : Int) (r : Option (Nat × Int)) (b : Bool)
    (h : afterKeys false code m r = .val b) : afterKeys true code m r = .val b := by
  match r with
  | none => exact h
  | some (i, n) =>
    simp only [afterKeys] at *
    split
    · rename_i hc; rw [if_pos hc] at h; exact h
    · rename_i hc; rw [if_neg hc] at h
      cases hi : idx code i with
      | panic => rw [hi] at h; cases h
      | val c =>
        rw [hi] at h
        simp only [R.bind_val] at *
        cases hp : parseN false code i n c with
        | panic => rw [hp] at h; cases h
        | val q =>
          rw [hp] at h; rw [parseN_cons code i n c q hp]
          simp only [R.bind_val] at *
          cases q with
          | none => exact h
          | some j => exact lastOp_cons code j b h

theorem isMultiSig_cons (code : Bytes) (b : Bool) (h : isMultiSig false code = .val b) :
    isMultiSig true code = .val b := by
  unfold isMultiSig at *
  split
  · rename_i hc; rw [if_pos hc] at h; exact h
  · rename_i hc; rw [if_neg hc] at h
    cases hi : idx code 0 with
    | panic => rw [hi] at h; cases h
    | val c0 =>
      rw [hi] at h
      simp only [R.bind_val] at *
      split
      · rename_i h1; rw [if_pos h1] at h; exact h
      · rename_i h1; rw [if_neg h1] at h
        split
        · rename_i h2; rw [if_pos h2] at h; exact h
        · rename_i h2; rw [if_neg h2] at h
          cases hp : parseM code c0 with
          | panic => rw [hp] at h; cases h
          | val mi =>
            obtain ⟨m, i⟩ := mi
            rw [hp] at h
            simp only [R.bind_val] at *
            split
            · rename_i h3; rw [if_pos h3] at h; exact h
            · rename_i h3; rw [if_neg h3] at h
              cases hk : keyLoop code (code.length + 1) i 0 with
              | panic => rw [hk] at h; cases h
              | val r =>
                rw [hk] at h
                simp only [R.bind_val] at *
                exact afterKeys_cons code m r b h

theorem isSchnorr_not_standard {code : Bytes} (h1 : isSchnorr code = .val true) (h2 : isStandard code = .val true) : False := by
  unfold isSchnorr at h1
  unfold isStandard at h2
  split at h1
  · cases h1
  · rename_i hl
    have hl' : code.length = 35 := by omega
    rw [if_neg (by omega)] at h2
    rw [idx_lt (by omega : 0 < code.length)] at h1 h2
    rw [idx_lt (by omega : 34 < code.length)] at h2
    simp only [R.bind_val] at h1 h2
    split at h1
    · cases h1
    · rename_i hc
      split at h2
      · cases h2
      · rename_i hc2
        simp [PUSH1] at hc
        omega

end ElaVerif.Script
