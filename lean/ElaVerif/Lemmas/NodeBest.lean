import ElaVerif.Model.Node
import ElaVerif.Lemmas.Node
/-!
  The most-work invariant of the node model: every block in the index carries at most the cumulative
  work of the tip — kept by every accepted block as long as no switch fails half-way and the
  irreversibility guard is off.
-/
namespace ElaVerif.Node
open ElaVerif.Index

structure WInv (s : NState) : Prop where
  /-- no known block has more cumulative work than the tip -/
  best : ∀ k ∈ s.known, workOf s k.id ≤ workOf s s.tip.id
  /-- the blocks of the active chain are in the index -/
  actKnown : ∀ p ∈ s.active, p.1 ∈ s.known

theorem blockWork_nonneg (b : Block) : 0 ≤ blockWork b := by
  unfold blockWork
  split
  · decide
  · unfold ElaVerif.Compact.calcWork
    simp only
    split
    · exact Int.le_refl 0
    · apply Int.ediv_nonneg
      · exact Int.le_of_lt (by decide)
      · omega

theorem workOf_addKnown (s : NState) (b : Block) (id : Nat) :
    workOf (addKnown s b) id = if b.id = id then workOf s b.prev + blockWork b else workOf s id := by
  by_cases h : b.id = id
  · have : (b.id == id) = true := by simp [h]
    simp [workOf, addKnown, List.find?_cons, this, h]
  · have : (b.id == id) = false := by simp [h]
    simp [workOf, addKnown, List.find?_cons, this, h]

theorem find_some_id {s : NState} {id : Nat} {p : Block} (h : s.find id = some p) : p.id = id := by
  unfold NState.find at h
  split at h
  · next hg => cases h; simpa using hg
  · have := List.find?_some h
    simpa using this

theorem find_some_mem {s : NState} {id : Nat} {p : Block} (h : s.find id = some p) :
    p = s.genesis ∨ p ∈ s.known := by
  unfold NState.find at h
  split at h
  · cases h; exact Or.inl rfl
  · exact Or.inr (List.mem_of_find?_eq_some h)

/-- a block not yet in the index (and not the genesis block) -/
def Fresh (s : NState) (b : Block) : Prop := b.id ≠ s.genesis.id ∧ ∀ k ∈ s.known, k.id ≠ b.id

theorem fresh_of_not_known {s : NState} {b : Block} (h : s.isKnown b.id = false) : Fresh s b := by
  unfold NState.isKnown at h
  simp only [Bool.or_eq_false_iff, beq_eq_false_iff_ne, List.any_eq_false] at h
  exact ⟨fun e => h.1 e.symm, fun k hk e => by have := h.2 k hk; simp [e] at this⟩

/-! reorganize touches neither the index nor the recorded work, and only puts known blocks on the chain -/

structure SameIdx (a b : NState) : Prop where
  known : a.known = b.known
  works : a.works = b.works
  genesis : a.genesis = b.genesis
  orphans : a.orphans = b.orphans
  P : a.P = b.P

theorem SameIdx.refl (a : NState) : SameIdx a a := ⟨rfl, rfl, rfl, rfl, rfl⟩
theorem SameIdx.trans {a b c : NState} (h1 : SameIdx a b) (h2 : SameIdx b c) : SameIdx a c :=
  ⟨h1.known.trans h2.known, h1.works.trans h2.works, h1.genesis.trans h2.genesis, h1.orphans.trans h2.orphans, h1.P.trans h2.P⟩

theorem sameIdx_connectTip {s s' : NState} {b : Block} (h : connectTip s b = some s') :
    SameIdx s' s ∧ s'.active = (b, applyBlock s.ledger b) :: s.active := by
  unfold connectTip at h
  split at h
  · cases h; exact ⟨⟨rfl, rfl, rfl, rfl, rfl⟩, rfl⟩
  · cases h

theorem sameIdx_disconnectTip (s : NState) :
    SameIdx (disconnectTip s) s ∧ ∀ p ∈ (disconnectTip s).active, p ∈ s.active := by
  unfold disconnectTip
  cases ha : s.active with
  | nil => exact ⟨⟨rfl, rfl, rfl, rfl, rfl⟩, fun p hp => by simpa [ha] using hp⟩
  | cons a r => exact ⟨⟨rfl, rfl, rfl, rfl, rfl⟩, fun p hp => List.mem_cons_of_mem _ hp⟩

theorem reorganize_idx (s : NState) (d : Nat) (attach : List Block) :
    SameIdx (reorganize s d attach).1 s ∧
      ∀ p ∈ (reorganize s d attach).1.active, p ∈ s.active ∨ p.1 ∈ attach := by
  unfold reorganize
  have h1 : ∀ (n : List Nat) (s : NState), SameIdx (n.foldl (fun s _ => disconnectTip s) s) s ∧
      ∀ p ∈ (n.foldl (fun s _ => disconnectTip s) s).active, p ∈ s.active := by
    intro n
    induction n with
    | nil => intro s; exact ⟨SameIdx.refl _, fun p hp => hp⟩
    | cons a r ih =>
      intro s
      obtain ⟨i1, i2⟩ := ih (disconnectTip s)
      obtain ⟨j1, j2⟩ := sameIdx_disconnectTip s
      exact ⟨i1.trans j1, fun p hp => j2 p (i2 p hp)⟩
  have h2 : ∀ (att : List Block) (acc : NState × Bool), SameIdx (att.foldl attachStep acc).1 acc.1 ∧
      ∀ p ∈ (att.foldl attachStep acc).1.active, p ∈ acc.1.active ∨ p.1 ∈ att := by
    intro att
    induction att with
    | nil => intro acc; exact ⟨SameIdx.refl _, fun p hp => Or.inl hp⟩
    | cons b r ih =>
      intro acc
      simp only [List.foldl_cons]
      obtain ⟨i1, i2⟩ := ih (attachStep acc b)
      have hstep : SameIdx (attachStep acc b).1 acc.1 ∧
          ∀ p ∈ (attachStep acc b).1.active, p ∈ acc.1.active ∨ p.1 = b := by
        unfold attachStep
        split
        · cases hc : connectTip acc.1 b with
          | some s' =>
            obtain ⟨j1, j2⟩ := sameIdx_connectTip hc
            refine ⟨j1, fun p hp => ?_⟩
            simp only at hp
            rw [j2] at hp
            rcases List.mem_cons.mp hp with h | h
            · exact Or.inr (by rw [h])
            · exact Or.inl h
          | none => exact ⟨SameIdx.refl _, fun p hp => Or.inl hp⟩
        · exact ⟨SameIdx.refl _, fun p hp => Or.inl hp⟩
      refine ⟨i1.trans hstep.1, fun p hp => ?_⟩
      rcases i2 p hp with h | h
      · rcases hstep.2 p h with h' | h'
        · exact Or.inl h'
        · exact Or.inr (by rw [h']; exact List.mem_cons_self ..)
      · exact Or.inr (List.mem_cons_of_mem _ h)
  obtain ⟨a1, a2⟩ := h1 (List.range d) s
  obtain ⟨b1, b2⟩ := h2 attach ((List.range d).foldl (fun s _ => disconnectTip s) s, true)
  refine ⟨b1.trans a1, fun p hp => ?_⟩
  rcases b2 p hp with h | h
  · exact Or.inl (a2 p h)
  · exact Or.inr h

/-- the blocks to attach are in the index, and the delivered block is the last of them -/
theorem attachPath_spec (s : NState) (fuel : Nat) (b : Block) (acc : List Block)
    (hb : b ∈ s.known) :
    (∀ x ∈ attachPath s fuel b acc, x ∈ acc ∨ x ∈ s.known) ∧
    (fuel ≠ 0 → s.inMain b.id = false → ∃ pre, attachPath s fuel b acc = pre ++ b :: acc) := by
  induction fuel generalizing b acc with
  | zero => exact ⟨fun x hx => Or.inl (by simpa [attachPath] using hx), fun h => absurd rfl h⟩
  | succ n ih =>
    unfold attachPath
    by_cases hm : s.inMain b.id = true
    · simp only [hm, if_true]
      exact ⟨fun x hx => Or.inl hx, fun _ h => by cases h⟩
    · simp only [hm, Bool.false_eq_true, if_false]
      cases hf : s.find b.prev with
      | none =>
        simp only
        exact ⟨fun x hx => by
          rcases List.mem_cons.mp hx with h | h
          · exact Or.inr (h ▸ hb)
          · exact Or.inl h, fun _ _ => ⟨[], rfl⟩⟩
      | some p =>
        simp only
        rcases find_some_mem hf with hg | hk
        · -- parent is genesis: in the main chain, the walk stops
          have hin : s.inMain p.id = true := by rw [hg]; simp [NState.inMain]
          cases n with
          | zero =>
            simp only [attachPath]
            exact ⟨fun x hx => by
              rcases List.mem_cons.mp hx with h | h
              · exact Or.inr (h ▸ hb)
              · exact Or.inl h, fun _ _ => ⟨[], rfl⟩⟩
          | succ m =>
            unfold attachPath
            simp only [hin, if_true]
            exact ⟨fun x hx => by
              rcases List.mem_cons.mp hx with h | h
              · exact Or.inr (h ▸ hb)
              · exact Or.inl h, fun _ _ => ⟨[], rfl⟩⟩
        · obtain ⟨i1, i2⟩ := ih p (b :: acc) hk
          refine ⟨fun x hx => ?_, fun _ _ => ?_⟩
          · rcases i1 x hx with h | h
            · rcases List.mem_cons.mp h with h' | h'
              · exact Or.inr (h' ▸ hb)
              · exact Or.inl h'
            · exact Or.inr h
          · by_cases hn : n = 0
            · subst hn; exact ⟨[], by simp [attachPath]⟩
            · by_cases hpm : s.inMain p.id = true
              · cases n with
                | zero => exact absurd rfl hn
                | succ m =>
                  unfold attachPath
                  simp only [hpm, if_true]
                  exact ⟨[], rfl⟩
              · obtain ⟨pre, hpre⟩ := i2 hn (by simpa using hpm)
                exact ⟨pre ++ [p], by rw [hpre]; simp⟩

theorem attach_last_tip (attach : List Block) (acc : NState × Bool)
    (h : (attach.foldl attachStep acc).2 = true) (hne : attach ≠ []) :
    (attach.foldl attachStep acc).1.tip = attach.getLast hne := by
  induction attach generalizing acc with
  | nil => exact absurd rfl hne
  | cons b r ih =>
    simp only [List.foldl_cons] at h ⊢
    by_cases hr : r = []
    · subst hr
      simp only [List.foldl_nil, List.getLast_singleton] at h ⊢
      by_cases h0 : acc.2 = true
      · cases hc : connectTip acc.1 b with
        | none => simp [attachStep, h0, hc] at h
        | some s' =>
          have hstep : attachStep acc b = (s', true) := by simp [attachStep, h0, hc]
          rw [hstep]
          unfold connectTip at hc
          split at hc
          · cases hc; rfl
          · cases hc
      · simp [attachStep, h0] at h
    · rw [List.getLast_cons hr]
      exact ih _ h hr

theorem winv_cleanPool {s : NState} (h : WInv s) : WInv (cleanPool s) := ⟨h.best, h.actKnown⟩

theorem tip_mem (s : NState) : s.tip = s.genesis ∨ ∃ p ∈ s.active, p.1 = s.tip := by
  unfold NState.tip
  cases ha : s.active with
  | nil => exact Or.inl rfl
  | cons a r => exact Or.inr ⟨a, List.mem_cons_self .., rfl⟩

theorem tip_id_ne_fresh {s : NState} {b : Block} (hi : WInv s) (hf : Fresh s b) : b.id ≠ s.tip.id := by
  rcases tip_mem s with h | ⟨p, hp, h⟩
  · rw [h]; exact hf.1
  · rw [← h]; exact fun e => hf.2 p.1 (hi.actKnown p hp) e.symm

/-- **One accepted block keeps the most-work invariant** (guard off; a failed switch is the known
    finding and is excluded by `hok`). -/
theorem winv_acceptBlock (s : NState) (b : Block) (hi : WInv s) (hf : Fresh s b)
    (hgu : s.tip.height ≤ s.P.guardFrom) (hok : (acceptBlock s b).2 ≠ .err) : WInv (acceptBlock s b).1 := by
  unfold acceptBlock at hok ⊢
  cases hfind : s.find b.prev with
  | none => simp [hfind] at hok
  | some parent =>
    simp only [hfind] at hok ⊢
    by_cases hh : b.height ≠ parent.height + 1
    · simp [hh] at hok
    · simp only [hh, if_false] at hok ⊢
      by_cases hp : (parent.id == s.tip.id) = true
      · -- the block extends the tip
        simp only [hp, if_true] at hok ⊢
        unfold extendTip at hok ⊢
        cases hc : connectTip s b with
        | none => simp [hc] at hok
        | some s' =>
          simp only [hc]
          obtain ⟨hsame, hact⟩ := sameIdx_connectTip hc
          have hprev : b.prev = s.tip.id := by
            have := find_some_id hfind
            rw [← this]; simpa using hp
          apply winv_cleanPool
          have htip : (addKnown s' b).tip = b := by
            show (match s'.active with | (x, _) :: _ => x | [] => s'.genesis) = b
            rw [hact]
          have hw : ∀ id, workOf s' id = workOf s id := fun id => by unfold workOf; rw [hsame.works]
          refine ⟨?_, ?_⟩
          · intro k hk
            rw [htip, workOf_addKnown, workOf_addKnown, if_pos rfl, hw, hprev]
            have hbw := blockWork_nonneg b
            rcases List.mem_cons.mp hk with h | h
            · rw [h, if_pos rfl]; exact Int.le_refl _
            · have hk' : k ∈ s.known := by rw [← hsame.known]; exact h
              rw [if_neg (fun e => hf.2 k hk' e.symm), hw]
              have := hi.best k hk'
              omega
          · intro p hpm
            have : (addKnown s' b).active = s'.active := rfl
            rw [this, hact] at hpm
            show p.1 ∈ b :: s'.known
            rcases List.mem_cons.mp hpm with h | h
            · rw [h]; exact List.mem_cons_self ..
            · rw [hsame.known]; exact List.mem_cons_of_mem _ (hi.actKnown p h)
      · -- side chain
        simp only [hp, Bool.false_eq_true, if_false] at hok ⊢
        have htipne := tip_id_ne_fresh hi hf
        have hwold : ∀ k ∈ s.known, workOf (addKnown s b) k.id = workOf s k.id := fun k hk => by
          rw [workOf_addKnown, if_neg (fun e => hf.2 k hk e.symm)]
        have hwtip : workOf (addKnown s b) s.tip.id = workOf s s.tip.id := by
          rw [workOf_addKnown, if_neg htipne]
        have htip1 : (addKnown s b).tip = s.tip := rfl
        have hbest1 : ∀ k ∈ s.known, workOf (addKnown s b) k.id ≤ workOf (addKnown s b) s.tip.id := fun k hk => by
          rw [hwold k hk, hwtip]; exact hi.best k hk
        unfold sideOrReorg at hok ⊢
        by_cases c1 : chainWork (addKnown s b) b ≤ chainWork (addKnown s b) (addKnown s b).tip
        · simp only [c1, if_true]
          apply winv_cleanPool
          refine ⟨fun k hk => ?_, fun p hpm => List.mem_cons_of_mem _ (hi.actKnown p hpm)⟩
          rw [htip1]
          rcases List.mem_cons.mp hk with h | h
          · rw [h]; exact c1
          · exact hbest1 k h
        · have hguard : isIrreversible (addKnown s b) (addKnown s b).tip.height (reorgPlan (addKnown s b) b).1 = false := by
            unfold isIrreversible
            have : (addKnown s b).tip.height ≤ (addKnown s b).P.guardFrom := hgu
            simp [this]
          simp only [c1, hguard, if_false, Bool.false_eq_true] at hok ⊢
          by_cases c3 : (reorganize (addKnown s b) (reorgPlan (addKnown s b) b).1 (reorgPlan (addKnown s b) b).2).2 = true
          · simp only [c3, if_true]
            apply winv_cleanPool
            obtain ⟨hsame, hactr⟩ := reorganize_idx (addKnown s b) (reorgPlan (addKnown s b) b).1 (reorgPlan (addKnown s b) b).2
            have hbk : b ∈ (addKnown s b).known := List.mem_cons_self ..
            have hnm : (addKnown s b).inMain b.id = false := by
              unfold NState.inMain
              simp only [Bool.or_eq_false_iff, beq_eq_false_iff_ne, List.any_eq_false]
              refine ⟨fun e => hf.1 e.symm, fun p hpm => ?_⟩
              have := hf.2 p.1 (hi.actKnown p hpm)
              simp [this]
            obtain ⟨hsub, hlast⟩ := attachPath_spec (addKnown s b) ((addKnown s b).known.length + 1) b [] hbk
            obtain ⟨pre, hpre⟩ := hlast (by omega) hnm
            have hplan : (reorgPlan (addKnown s b) b).2 = pre ++ [b] := by
              unfold reorgPlan; simpa using hpre
            have hne : (reorgPlan (addKnown s b) b).2 ≠ [] := by rw [hplan]; simp
            have htipb : (reorganize (addKnown s b) (reorgPlan (addKnown s b) b).1 (reorgPlan (addKnown s b) b).2).1.tip = b := by
              have := attach_last_tip (reorgPlan (addKnown s b) b).2 _ (by unfold reorganize at c3; exact c3) hne
              unfold reorganize
              rw [this]
              simp [hplan]
            have hw : ∀ id, workOf (reorganize (addKnown s b) (reorgPlan (addKnown s b) b).1 (reorgPlan (addKnown s b) b).2).1 id
                = workOf (addKnown s b) id := fun id => by unfold workOf; rw [hsame.works]
            have c1' : workOf (addKnown s b) s.tip.id < workOf (addKnown s b) b.id := by
              have : ¬ workOf (addKnown s b) b.id ≤ workOf (addKnown s b) s.tip.id := c1
              omega
            refine ⟨fun k hk => ?_, fun p hpm => ?_⟩
            · rw [htipb, hw, hw]
              rw [hsame.known] at hk
              rcases List.mem_cons.mp hk with h | h
              · rw [h]; exact Int.le_refl _
              · have := hbest1 k h
                omega
            · rw [hsame.known]
              rcases hactr p hpm with h | h
              · exact List.mem_cons_of_mem _ (hi.actKnown p h)
              · rw [hplan] at h
                rcases hsub p.1 (by unfold reorgPlan at hplan; simp only at hplan; rw [hplan]; exact h) with h' | h'
                · cases h'
                · exact h'
          · simp [c3] at hok

/-! ### histories delivered in order -/

theorem acceptBlock_idx (s : NState) (b : Block) :
    (acceptBlock s b).1.orphans = s.orphans ∧ (acceptBlock s b).1.P = s.P ∧ (acceptBlock s b).1.genesis = s.genesis := by
  unfold acceptBlock
  split
  · exact ⟨rfl, rfl, rfl⟩
  · split
    · exact ⟨rfl, rfl, rfl⟩
    · split
      · unfold extendTip
        cases hc : connectTip s b with
        | some s' =>
          obtain ⟨h, _⟩ := sameIdx_connectTip hc
          exact ⟨h.orphans, h.P, h.genesis⟩
        | none => exact ⟨rfl, rfl, rfl⟩
      · unfold sideOrReorg
        split
        · exact ⟨rfl, rfl, rfl⟩
        · split
          · exact ⟨rfl, rfl, rfl⟩
          · obtain ⟨h, _⟩ := reorganize_idx (addKnown s b) (reorgPlan (addKnown s b) b).1 (reorgPlan (addKnown s b) b).2
            simp only
            split
            · exact ⟨h.orphans, h.P, h.genesis⟩
            · exact ⟨h.orphans, h.P, h.genesis⟩

theorem processOrphans_nil (fuel : Nat) (s : NState) (q : List Nat) (h : s.orphans = []) :
    processOrphans fuel s q = (s, true) := by
  induction fuel generalizing q with
  | zero => unfold processOrphans; rfl
  | succ n ih =>
    cases q with
    | nil => unfold processOrphans; rfl
    | cons id r =>
      unfold processOrphans
      simp only [h, List.filter_nil, List.foldl_nil, if_true]
      exact ih r

/-- a delivery in an in-order history: nothing waits in the orphan pool, the parent is already known -/
theorem processBlock_inorder (s : NState) (b : Block) (ho : s.orphans = []) (hp : s.isKnown b.prev = true) :
    (processBlock s b).1 = s ∨
      (s.isKnown b.id = false ∧ (processBlock s b).1 = (acceptBlock s b).1 ∧
        ((processBlock s b).2 = .err ↔ (acceptBlock s b).2 = .err)) := by
  unfold processBlock
  by_cases h1 : s.isKnown b.id = true
  · simp [h1]
  · simp only [h1, Bool.false_eq_true, if_false]
    simp only [ho, List.any_nil, Bool.false_eq_true, if_false]
    by_cases h2 : blockSane b = true
    · simp only [h2, Bool.not_true, Bool.false_eq_true, if_false, hp]
      right
      refine ⟨by simpa using h1, ?_⟩
      by_cases h3 : (acceptBlock s b).2 = .err
      · simp [h3]
      · have ho' : (acceptBlock s b).1.orphans = [] := by rw [(acceptBlock_idx s b).1, ho]
        have h3' : ((acceptBlock s b).2 == Outcome.err) = false := by simpa using h3
        simp only [h3', Bool.false_eq_true, if_false, ho', List.length_nil, processOrphans_nil _ _ _ ho']
        refine ⟨by simp, ?_⟩
        constructor
        · intro h; simp at h; split at h <;> cases h
        · intro h; exact absurd h h3
    · simp [h2]

/-- a history in which blocks arrive after their parents (no orphans), every block is at or below
    `CRCOnlyDPOSHeight` (the irreversibility guard is off) and no switch fails half-way (the known
    finding C12-reorg-midway): an `err` reply leaves the state unchanged -/
inductive InOrderRun : NState → List Block → NState → Prop
  | nil (s : NState) : InOrderRun s [] s
  | step {s s' : NState} {b : Block} {r : List Block} :
      s.isKnown b.prev = true → s.tip.height ≤ s.P.guardFrom →
      ((processBlock s b).2 = .err → (processBlock s b).1 = s) →
      InOrderRun (processBlock s b).1 r s' → InOrderRun s (b :: r) s'

theorem winv_inOrderRun {s s' : NState} {bs : List Block} (h : InOrderRun s bs s')
    (hi : WInv s) (ho : s.orphans = []) : WInv s' ∧ s'.orphans = [] := by
  induction h with
  | nil => exact ⟨hi, ho⟩
  | @step s0 s1 b r hp hgu hok _ ih =>
    rcases processBlock_inorder s0 b ho hp with h | ⟨hnk, hst, herr⟩
    · rw [h] at ih; exact ih hi ho
    · by_cases he : (processBlock s0 b).2 = .err
      · rw [hok he] at ih; exact ih hi ho
      · have hne : (acceptBlock s0 b).2 ≠ .err := fun e => he (herr.mpr e)
        have := winv_acceptBlock s0 b hi (fresh_of_not_known hnk) hgu hne
        rw [hst] at ih
        exact ih this (by rw [(acceptBlock_idx s0 b).1, ho])

theorem winv_init (P : Params) (g : Block) : WInv (initState P g) :=
  ⟨fun k hk => by simp [initState] at hk, fun p hp => by simp [initState] at hp⟩

end ElaVerif.Node
