import ElaVerif.Model.Digits
/-! Lemmas about positional digits (`Model/Digits.lean`): value/digits round trips, bounds, length. Core Lean only. -/
namespace ElaVerif.Digits

theorem ofDigitsLE_digitsLE (b : Nat) (hb : 2 ≤ b) : ∀ (fuel n : Nat), n < fuel → ofDigitsLE b (digitsLE b fuel n) = n := by
  intro fuel
  induction fuel with
  | zero => intro n h; omega
  | succ fuel ih =>
    intro n h
    unfold digitsLE
    split
    · rename_i h0; simp [ofDigitsLE, h0]
    · rename_i h0
      have hlt : n / b < n := Nat.div_lt_self (by omega) (by omega)
      simp only [ofDigitsLE]
      rw [ih (n / b) (by omega)]
      have := Nat.mod_add_div n b
      omega

theorem ofDigits_digits (b : Nat) (hb : 2 ≤ b) (n : Nat) : ofDigits b (digits b n) = n := by
  simp [ofDigits, digits, ofDigitsLE_digitsLE b hb (n + 1) n (by omega)]

theorem digitsLE_lt (b : Nat) (hb : 0 < b) : ∀ (fuel n : Nat), ∀ d ∈ digitsLE b fuel n, d < b := by
  intro fuel
  induction fuel with
  | zero => intro n d h; simp [digitsLE] at h
  | succ fuel ih =>
    intro n d h
    unfold digitsLE at h
    split at h
    · simp at h
    · simp only [List.mem_cons] at h
      rcases h with h | h
      · subst h; exact Nat.mod_lt _ hb
      · exact ih _ d h

theorem digits_lt (b : Nat) (hb : 0 < b) (n : Nat) : ∀ d ∈ digits b n, d < b := by
  intro d h
  simp only [digits, List.mem_reverse] at h
  exact digitsLE_lt b hb _ _ d h

/-- a little-endian list whose last (most significant) digit is non-zero has value ≥ b^(len-1) -/
theorem ofDigitsLE_lower (b : Nat) : ∀ (ds : List Nat), ds ≠ [] → ds.getLast? ≠ some 0 →
    b ^ (ds.length - 1) ≤ ofDigitsLE b ds
  | [d], _, h => by
    simp at h
    simp [ofDigitsLE]; omega
  | d :: e :: ds, _, h => by
    have hl : (e :: ds).getLast? ≠ some 0 := by simpa [List.getLast?_cons_cons] using h
    have ih := ofDigitsLE_lower b (e :: ds) (by simp) hl
    simp only [ofDigitsLE, List.length_cons] at *
    have : b ^ (ds.length + 1 + 1 - 1) = b * b ^ (ds.length + 1 - 1) := by
      rw [show ds.length + 1 + 1 - 1 = (ds.length + 1 - 1) + 1 by omega, Nat.pow_succ, Nat.mul_comm]
    rw [this]
    calc b * b ^ (ds.length + 1 - 1) ≤ b * (e + b * ofDigitsLE b ds) := Nat.mul_le_mul_left _ ih
      _ ≤ d + b * (e + b * ofDigitsLE b ds) := Nat.le_add_left _ _

theorem ofDigitsLE_upper (b : Nat) (hb : 0 < b) : ∀ (ds : List Nat), (∀ d ∈ ds, d < b) → ofDigitsLE b ds < b ^ ds.length
  | [], _ => by simp [ofDigitsLE]
  | d :: ds, h => by
    have ih := ofDigitsLE_upper b hb ds (fun x hx => h x (by simp [hx]))
    have hd := h d (by simp)
    simp only [ofDigitsLE, List.length_cons, Nat.pow_succ]
    calc d + b * ofDigitsLE b ds < b + b * ofDigitsLE b ds := by omega
      _ = b * (ofDigitsLE b ds + 1) := by rw [Nat.mul_add]; omega
      _ ≤ b * b ^ ds.length := Nat.mul_le_mul_left _ ih
      _ = b ^ ds.length * b := Nat.mul_comm _ _

/-- digits of the value of a canonical little-endian list give the list back -/
theorem digitsLE_ofDigitsLE (b : Nat) (hb : 2 ≤ b) : ∀ (ds : List Nat) (fuel : Nat), (∀ d ∈ ds, d < b) →
    ds.getLast? ≠ some 0 → ofDigitsLE b ds < fuel → digitsLE b fuel (ofDigitsLE b ds) = ds
  | [], fuel, _, _, _ => by cases fuel <;> simp [digitsLE, ofDigitsLE]
  | [d], fuel, hlt, hl, hf => by
    simp at hl
    have hd := hlt d (by simp)
    simp only [ofDigitsLE, Nat.mul_zero, Nat.add_zero] at *
    match fuel, hf with
    | fuel + 1, _ =>
      unfold digitsLE
      rw [if_neg hl, Nat.mod_eq_of_lt hd, Nat.div_eq_of_lt hd]
      cases fuel <;> simp [digitsLE]
  | d :: e :: ds, fuel, hlt, hl, hf => by
    have hl' : (e :: ds).getLast? ≠ some 0 := by simpa [List.getLast?_cons_cons] using hl
    have hd := hlt d (by simp)
    have hpos : 1 ≤ ofDigitsLE b (e :: ds) := by
      have := ofDigitsLE_lower b (e :: ds) (by simp) hl'
      have : 1 ≤ b ^ ((e :: ds).length - 1) := Nat.le_trans Nat.one_le_two_pow (Nat.pow_le_pow_left hb _)
      omega
    match fuel, hf with
    | fuel + 1, hf =>
      have hv : ofDigitsLE b (d :: e :: ds) = d + b * ofDigitsLE b (e :: ds) := rfl
      rw [hv] at hf ⊢
      unfold digitsLE
      have hne : d + b * ofDigitsLE b (e :: ds) ≠ 0 := by
        have : b * 1 ≤ b * ofDigitsLE b (e :: ds) := Nat.mul_le_mul_left _ hpos
        omega
      rw [if_neg hne]
      have hm : (d + b * ofDigitsLE b (e :: ds)) % b = d := by
        rw [Nat.add_mul_mod_self_left, Nat.mod_eq_of_lt hd]
      have hq : (d + b * ofDigitsLE b (e :: ds)) / b = ofDigitsLE b (e :: ds) := by
        rw [Nat.add_mul_div_left _ _ (by omega : 0 < b), Nat.div_eq_of_lt hd, Nat.zero_add]
      rw [hm, hq]
      have hlt2 : ofDigitsLE b (e :: ds) < fuel := by
        have : 2 * ofDigitsLE b (e :: ds) ≤ b * ofDigitsLE b (e :: ds) := Nat.mul_le_mul_right _ hb
        omega
      rw [digitsLE_ofDigitsLE b hb (e :: ds) fuel (fun x hx => hlt x (by simp [hx])) hl' hlt2]


theorem digitsLE_last (b : Nat) (hb : 2 ≤ b) : ∀ (fuel n : Nat), n < fuel → (digitsLE b fuel n).getLast? ≠ some 0 := by
  intro fuel
  induction fuel with
  | zero => intro n h; omega
  | succ fuel ih =>
    intro n h
    unfold digitsLE
    split
    · simp
    · rename_i h0
      have hlt : n / b < n := Nat.div_lt_self (by omega) (by omega)
      by_cases hq : n / b = 0
      · have hnb : n < b := by
          apply Classical.byContradiction; intro hc
          have : 1 ≤ n / b := (Nat.le_div_iff_mul_le (by omega)).mpr (by omega)
          omega
        have : digitsLE b fuel (n / b) = [] := by
          rw [hq]; cases fuel <;> simp [digitsLE]
        rw [this, Nat.mod_eq_of_lt hnb]
        simp; exact h0
      · have ih' := ih (n / b) (by omega)
        have hne : digitsLE b fuel (n / b) ≠ [] := by
          match fuel, (by omega : n / b < fuel) with
          | fuel + 1, _ => unfold digitsLE; rw [if_neg hq]; simp
        match hd : digitsLE b fuel (n / b), hne with
        | x :: xs, _ =>
          rw [hd] at ih'
          simpa [List.getLast?_cons_cons] using ih'

theorem digits_ofDigits (b : Nat) (hb : 2 ≤ b) (ds : List Nat) (hlt : ∀ d ∈ ds, d < b) (hh : ds.head? ≠ some 0) :
    digits b (ofDigits b ds) = ds := by
  unfold digits ofDigits
  rw [digitsLE_ofDigitsLE b hb ds.reverse _ (by simpa using hlt) (by simpa using hh) (by omega)]
  simp

theorem digits_length (b : Nat) (hb : 2 ≤ b) (n k : Nat) (hk : 1 ≤ k) (hlo : b ^ (k - 1) ≤ n) (hhi : n < b ^ k) :
    (digits b n).length = k := by
  have hv := ofDigitsLE_digitsLE b hb (n + 1) n (by omega)
  have hlt := digitsLE_lt b (by omega) (n + 1) n
  have hlast := digitsLE_last b hb (n + 1) n (by omega)
  have hn0 : n ≠ 0 := by
    have : 1 ≤ b ^ (k - 1) := Nat.le_trans Nat.one_le_two_pow (Nat.pow_le_pow_left hb _)
    omega
  have hne : digitsLE b (n + 1) n ≠ [] := by unfold digitsLE; rw [if_neg hn0]; simp
  have hup := ofDigitsLE_upper b (by omega) _ hlt
  have hlow := ofDigitsLE_lower b _ hne hlast
  rw [hv] at hup hlow
  simp only [digits, List.length_reverse]
  generalize (digitsLE b (n + 1) n).length = L at *
  have h1 : k - 1 < L := (Nat.pow_lt_pow_iff_right (by omega)).mp (Nat.lt_of_le_of_lt hlo hup)
  have h2 : L - 1 < k := (Nat.pow_lt_pow_iff_right (by omega)).mp (Nat.lt_of_le_of_lt hlow hhi)
  omega

theorem ofDigitsLE_append (b : Nat) : ∀ (xs ys : List Nat),
    ofDigitsLE b (xs ++ ys) = ofDigitsLE b xs + b ^ xs.length * ofDigitsLE b ys
  | [], ys => by simp [ofDigitsLE]
  | x :: xs, ys => by
    simp only [List.cons_append, ofDigitsLE, List.length_cons, ofDigitsLE_append b xs ys, Nat.pow_succ]
    rw [Nat.mul_add, Nat.add_assoc, Nat.mul_assoc, Nat.mul_left_comm]

/-- MSB-first concatenation: value (hi ++ lo) = value hi · b^|lo| + value lo -/
theorem ofDigits_append (b : Nat) (hi lo : List Nat) :
    ofDigits b (hi ++ lo) = ofDigits b hi * b ^ lo.length + ofDigits b lo := by
  unfold ofDigits
  rw [List.reverse_append, ofDigitsLE_append]
  simp [Nat.mul_comm, Nat.add_comm]


end ElaVerif.Digits

namespace ElaVerif.Digits

theorem digits_length_le (b : Nat) (hb : 2 ≤ b) (n k : Nat) (h : n < b ^ k) : (digits b n).length ≤ k := by
  by_cases hn : n = 0
  · subst hn; simp [digits, digitsLE]
  · have hv := ofDigitsLE_digitsLE b hb (n + 1) n (by omega)
    have hlast := digitsLE_last b hb (n + 1) n (by omega)
    have hne : digitsLE b (n + 1) n ≠ [] := by unfold digitsLE; rw [if_neg hn]; simp
    have hlow := ofDigitsLE_lower b _ hne hlast
    rw [hv] at hlow
    simp only [digits, List.length_reverse]
    generalize (digitsLE b (n + 1) n).length = L at *
    have : L - 1 < k := (Nat.pow_lt_pow_iff_right (by omega)).mp (Nat.lt_of_le_of_lt hlow h)
    omega

end ElaVerif.Digits
