import ElaVerif.Model.ViewSched
/-!
Helper lemmas for C26 (view-change schedule).  Core Lean only.
-/
namespace ElaVerif.ViewSched

/-! ### fuel-free specification of the loop -/

/-- The `for duration >= offsetSeconds` loop as a relation (no fuel). -/
inductive Walk (nxt : Nat → Nat) (L : Nat → Int) : Nat → Int → Int → Nat × Int → Prop
  | stop {c : Nat} {d len : Int} : d < len → Walk nxt L c d len (c, d)
  | step {c : Nat} {d len : Int} {x : Nat × Int} :
      len ≤ d → Walk nxt L (nxt c) (d - len) (L (nxt c)) x → Walk nxt L c d len x

variable {nxt : Nat → Nat} {L : Nat → Int}

theorem walkO_sound : ∀ (f c : Nat) (d len : Int) (x : Nat × Int),
    walkO nxt L f c d len = some x → Walk nxt L c d len x := by
  intro f
  induction f with
  | zero => intro c d len x h; simp [walkO] at h
  | succ f ih =>
    intro c d len x h
    unfold walkO at h
    split at h
    · rename_i hle; exact Walk.step hle (ih _ _ _ _ h)
    · rename_i hlt
      injection h with h; subst h
      exact Walk.stop (by omega)

theorem Walk.det {c : Nat} {d len : Int} {x y : Nat × Int}
    (h1 : Walk nxt L c d len x) (h2 : Walk nxt L c d len y) : x = y := by
  induction h1 with
  | stop hlt => cases h2 with
    | stop _ => rfl
    | step hle _ => omega
  | step hle _ ih => cases h2 with
    | stop hlt => omega
    | step _ h2' => exact ih h2'

/-- enough fuel: every view lasts at least `m > 0`. -/
theorem walkO_complete {m : Int} (hm : 0 < m) (hL : ∀ c, m ≤ L c) :
    ∀ (f c : Nat) (d len : Int), m ≤ len → d < f * m → ∃ x, walkO nxt L (f + 1) c d len = some x := by
  intro f
  induction f with
  | zero =>
    intro c d len hlen hd
    refine ⟨(c, d), ?_⟩
    unfold walkO
    rw [if_neg (by omega)]
  | succ f ih =>
    intro c d len hlen hd
    unfold walkO
    by_cases hle : len ≤ d
    · rw [if_pos hle]
      apply ih _ _ _ (hL _)
      have : ((f + 1 : Nat) : Int) * m = f * m + m := by
        rw [Int.natCast_succ, Int.add_mul]; simp
      omega
    · rw [if_neg hle]; exact ⟨_, rfl⟩

/-- Evaluating once after `d1 + d2`, versus first after `d1` (reaching view `j` with
    remainder `r`) and then continuing: the one-shot result is what a walk from `j` with
    `r + d2` on the clock yields **when view `j` is charged with the loop length `L j`** —
    unless the first evaluation did not leave the starting view at all. -/
theorem Walk.compose {c : Nat} {d1 len : Int} {j : Nat} {r : Int}
    (h1 : Walk nxt L c d1 len (j, r)) :
    ∀ {d2 : Int} {y : Nat × Int}, 0 ≤ d2 → Walk nxt L c (d1 + d2) len y →
      (j = c ∧ r = d1 ∧ d1 < len) ∨ Walk nxt L j (r + d2) (L j) y := by
  generalize hx : (j, r) = x at h1
  induction h1 with
  | stop hlt =>
    intro d2 y _ _
    injection hx with hj hr
    left; exact ⟨hj, hr, hlt⟩
  | @step c d len x hle hsub ih =>
    intro d2 y hd2 h2
    right
    cases h2 with
    | stop hlt => omega
    | step _ h2' =>
      have e : d + d2 - len = d - len + d2 := by omega
      rw [e] at h2'
      rcases ih hx hd2 h2' with ⟨hj, hr, _⟩ | hw
      · subst hj; subst hr; exact h2'
      · exact hw

/-! ### with the plain successor: offsets only grow -/

theorem Walk.ge {c : Nat} {d len : Int} {x : Nat × Int}
    (h : Walk (· + 1) L c d len x) : c ≤ x.1 ∧ (x.1 = c → x.2 = d ∧ d < len) := by
  induction h with
  | stop hlt => exact ⟨Nat.le_refl _, fun _ => ⟨rfl, hlt⟩⟩
  | step hle _ ih =>
    obtain ⟨h1, _⟩ := ih
    constructor
    · omega
    · intro he; omega

theorem Walk.mono {c : Nat} {d len : Int} {x : Nat × Int}
    (h1 : Walk (· + 1) L c d len x) :
    ∀ {d' : Int} {y : Nat × Int}, d ≤ d' → Walk (· + 1) L c d' len y → x.1 ≤ y.1 := by
  induction h1 with
  | stop hlt => intro d' y _ h2; exact h2.ge.1
  | step hle _ ih =>
    intro d' y hdd h2
    cases h2 with
    | stop hlt => omega
    | step _ h2' => exact ih (by omega) h2'

/-- every completed view consumed at least a second. -/
theorem Walk.consumed (hL : ∀ c, sec ≤ L c) {c : Nat} {d len : Int} {x : Nat × Int}
    (h : Walk (· + 1) L c d len x) (hlen : sec ≤ len) :
    x.1 = c ∨ (0 ≤ x.2 ∧ x.2 + ((x.1 - c : Nat) : Int) * 1000000000 ≤ d) := by
  induction h with
  | stop hlt => left; rfl
  | @step c d len x hle hsub ih =>
    right
    have hg := hsub.ge
    have hs : sec = 1000000000 := rfl
    rcases ih (hL _) with h1 | ⟨h2, h3⟩
    · obtain ⟨hr, _⟩ := hg.2 h1
      have : x.1 - c = 1 := by omega
      rw [this]; omega
    · have h4 := hg.1
      have : ((x.1 - c : Nat) : Int) = ((x.1 - (c + 1) : Nat) : Int) + 1 := by omega
      rw [this]; omega

/-- below the `uint32` wrap the real successor is the plain one. -/
theorem walkO_succ32_eq : ∀ (f c : Nat) (d len : Int), c + f < 2 ^ 32 →
    walkO succ32 L f c d len = walkO (· + 1) L f c d len := by
  intro f
  induction f with
  | zero => intro c d len _; rfl
  | succ f ih =>
    intro c d len hb
    unfold walkO
    have hs : succ32 c = c + 1 := by unfold succ32; exact Nat.mod_eq_of_lt (by omega)
    rw [hs]
    split
    · exact ih _ _ _ (by omega)
    · rfl

/-! ### view lengths -/

theorem pow20u32_mod4 {k : Nat} (hk : 1 ≤ k) : pow20u32 k % 4 = 0 := by
  unfold pow20u32
  split
  · obtain ⟨k', rfl⟩ : ∃ k', k = k' + 1 := ⟨k - 1, by omega⟩
    rw [Nat.pow_succ]
    omega
  · rfl

theorem odd_len {x p : Nat} (hp : p % 4 = 0) : 1 ≤ (5 + x * 3 * p) % 2 ^ 32 := by
  obtain ⟨q, rfl⟩ : ∃ q, p = 4 * q := ⟨p / 4, by omega⟩
  have e : x * 3 * (4 * q) = 4 * (x * 3 * q) := by
    rw [Nat.mul_left_comm]
  rw [e]
  generalize x * 3 * q = z
  omega

theorem lenLoop_pos {n : Nat} (hn : n ≠ 0) (c : Nat) : 1 ≤ lenLoop n c := by
  unfold lenLoop
  split
  · omega
  · rename_i h
    have hk : 1 ≤ c / n := (Nat.le_div_iff_mul_le (by omega)).2 (by omega)
    exact odd_len (pow20u32_mod4 hk)

theorem lenFirst_pos {n : Nat} (hn : n ≠ 0) (c : Nat) : 1 ≤ lenFirst n c := by
  unfold lenFirst
  split
  · omega
  · rename_i h
    have hk : 1 ≤ c / n := (Nat.le_div_iff_mul_le (by omega)).2 (by omega)
    exact odd_len (pow20u32_mod4 hk)

theorem lenFirst_eq_lenLoop_of_lt {n c : Nat} (h : c < n) : lenFirst n c = lenLoop n c := by
  simp [lenFirst, lenLoop, h]

/-- length (ns) of every view the loop enters. -/
def LL (n : Nat) : Nat → Int := fun c => (lenLoop n c : Int) * sec

theorem fuelFor_enough (d : Int) : d < ((fuelFor d - 1 : Nat) : Int) * sec := by
  unfold fuelFor sec
  have : ((d / 1000000000).toNat + 2 - 1 : Nat) = (d / 1000000000).toNat + 1 := by omega
  rw [this]
  omega

/-- `offsetV1` never panics for `n ≠ 0` and never runs out of fuel; its result is the
    fuel-free walk. -/
theorem offsetV1_spec {n : Nat} (hn : n ≠ 0) (cur : Nat) (d : Int) :
    ∃ o r, offsetV1 n cur d = .ok o r ∧
      Walk succ32 (LL n) cur d ((lenFirst n cur : Int) * sec) (o, r) := by
  have hL : ∀ c, sec ≤ LL n c := by
    intro c; have := lenLoop_pos hn c; unfold LL sec; omega
  have hF : sec ≤ (lenFirst n cur : Int) * sec := by
    have := lenFirst_pos hn cur; unfold sec; omega
  have hfuel : fuelFor d = (fuelFor d - 1) + 1 := by unfold fuelFor; omega
  obtain ⟨x, hx⟩ := walkO_complete (nxt := succ32) (L := LL n) (m := sec) (by decide) hL
    (fuelFor d - 1) cur d _ hF (fuelFor_enough d)
  rw [← hfuel] at hx
  refine ⟨x.1, x.2, ?_, walkO_sound _ _ _ _ _ hx⟩
  unfold offsetV1
  rw [if_neg hn]
  change (match walkO succ32 (LL n) (fuelFor d) cur d ((lenFirst n cur : Int) * sec) with
    | some (o, r) => Out.ok o r | none => Out.nofuel) = _
  rw [hx]

/-- … and below the `uint32` wrap of the offset it is the walk with the plain successor. -/
theorem offsetV1_spec' {n : Nat} (hn : n ≠ 0) (cur : Nat) (d : Int) (hw : cur + fuelFor d < 2 ^ 32) :
    ∃ o r, offsetV1 n cur d = .ok o r ∧
      Walk (· + 1) (LL n) cur d ((lenFirst n cur : Int) * sec) (o, r) := by
  have hL : ∀ c, sec ≤ LL n c := by
    intro c; have := lenLoop_pos hn c; unfold LL sec; omega
  have hF : sec ≤ (lenFirst n cur : Int) * sec := by
    have := lenFirst_pos hn cur; unfold sec; omega
  have hfuel : fuelFor d = (fuelFor d - 1) + 1 := by unfold fuelFor; omega
  obtain ⟨x, hx⟩ := walkO_complete (nxt := succ32) (L := LL n) (m := sec) (by decide) hL
    (fuelFor d - 1) cur d _ hF (fuelFor_enough d)
  rw [← hfuel] at hx
  have hx' := hx
  rw [walkO_succ32_eq _ _ _ _ hw] at hx'
  refine ⟨x.1, x.2, ?_, walkO_sound _ _ _ _ _ hx'⟩
  unfold offsetV1
  rw [if_neg hn]
  change (match walkO succ32 (LL n) (fuelFor d) cur d ((lenFirst n cur : Int) * sec) with
    | some (o, r) => Out.ok o r | none => Out.nofuel) = _
  rw [hx]

/-! ### V0 -/

theorem offsetV0_nonneg {tol d : Int} (ht : 0 < tol) (hd : 0 ≤ d) (hq : d / tol < 2 ^ 32) :
    offsetV0 tol d = .ok (d / tol).toNat (d % tol) := by
  unfold offsetV0 toU32
  rw [if_neg (by omega), Int.tdiv_eq_ediv_of_nonneg hd, Int.tmod_eq_emod_of_nonneg hd]
  have h0 : 0 ≤ d / tol := Int.ediv_nonneg hd (by omega)
  have : d / tol % 2 ^ 32 = d / tol := Int.emod_eq_of_lt h0 hq
  rw [this]

/-- splitting a duration at an intermediate evaluation that carried the remainder. -/
theorem v0_split {tol : Int} (d1 e : Int) (ht : 0 < tol) :
    (d1 + e) / tol = d1 / tol + (e + d1 % tol) / tol ∧ (d1 + e) % tol = (e + d1 % tol) % tol := by
  have h := Int.ediv_mul_add_emod d1 tol
  have e1 : d1 + e = (e + d1 % tol) + (d1 / tol) * tol := by
    generalize d1 / tol * tol = z at h ⊢; omega
  constructor
  · rw [e1, Int.add_mul_ediv_right _ _ (by omega)]
    generalize (e + d1 % tol) / tol = a
    generalize hb : d1 / tol = b
    have : ((e + d1 % tol) + b * tol) % tol = (e + d1 % tol) % tol := Int.add_mul_emod_self_right _ _ _
    have h2 : (e + d1 % tol + b * tol) / tol = (e + d1 % tol) / tol + b := Int.add_mul_ediv_right _ _ (by omega)
    omega
  · rw [e1, Int.add_mul_emod_self_right]

/-- `ChangeView` succeeds and moves the start time forward, never past `now`. -/
theorem changeViewV0_some {tol : Int} (n me : Nat) (s : VState) {t : Int} (ht : 0 < tol)
    (h0 : s.start ≤ t) (hq : (t - s.start) / tol < 2 ^ 32) :
    ∃ s1, changeViewV0 tol n me s t = some s1 ∧ s.start ≤ s1.start ∧ s1.start ≤ t := by
  have hd : 0 ≤ t - s.start := by omega
  unfold changeViewV0
  rw [offsetV0_nonneg ht hd hq]
  refine ⟨_, rfl, ?_, ?_⟩
  · simp only
    have h := Int.ediv_mul_add_emod (t - s.start) tol
    have h2 : 0 ≤ (t - s.start) / tol * tol :=
      Int.mul_nonneg (Int.ediv_nonneg hd (by omega)) (by omega)
    generalize (t - s.start) / tol * tol = z at h h2
    omega
  · simp only
    have := Int.emod_nonneg (t - s.start) (b := tol) (by omega)
    omega

theorem fuelFor_mono {d d' : Int} (h : d ≤ d') : fuelFor d ≤ fuelFor d' := by
  unfold fuelFor sec
  have : d / 1000000000 ≤ d' / 1000000000 := Int.ediv_le_ediv (by decide) h
  omega

/-- after a `ChangeViewV1` evaluation the "no `uint32` wrap before `T`" bound still holds. -/
theorem changeViewV1_nowrap {n me : Nat} (hn : n ≠ 0) {s s1 : VState} {t T : Int} (htT : t ≤ T)
    (hw : s.off + fuelFor (T - s.start) < 2 ^ 32) (h1 : changeViewV1 n me s t = some s1) :
    s1.off + fuelFor (T - s1.start) < 2 ^ 32 := by
  have hle : t - s.start ≤ T - s.start := by omega
  have hw1 : s.off + fuelFor (t - s.start) < 2 ^ 32 := by have := fuelFor_mono hle; omega
  obtain ⟨j, r, e1, w1⟩ := offsetV1_spec' hn s.off (t - s.start) hw1
  unfold changeViewV1 at h1
  rw [e1] at h1
  simp only at h1
  by_cases hj : j = s.off
  · rw [if_pos hj] at h1
    injection h1 with h1; subst h1; exact hw
  · rw [if_neg hj] at h1
    injection h1 with h1
    subst h1
    simp only
    have hL : ∀ c, sec ≤ LL n c := by
      intro c; have := lenLoop_pos hn c; unfold LL sec; omega
    have hF : sec ≤ (lenFirst n s.off : Int) * sec := by
      have := lenFirst_pos hn s.off; unfold sec; omega
    have hge := w1.ge
    have hcons := w1.consumed hL hF
    simp only at hge hcons
    obtain ⟨hr0, hcon⟩ : 0 ≤ r ∧ r + ((j - s.off : Nat) : Int) * 1000000000 ≤ t - s.start := by
      rcases hcons with h | h
      · exact absurd h hj
      · exact h
    unfold fuelFor sec at hw ⊢
    have : (T - (t - r)) / 1000000000 + ((j - s.off : Nat) : Int) ≤ (T - s.start) / 1000000000 := by
      omega
    omega

/-- the offset `ChangeViewV1` leaves behind never decreases and the start time never
    passes `now` … (used for the schedule theorem) -/
theorem changeViewV1_some {n me : Nat} (hn : n ≠ 0) (s : VState) (t : Int) :
    ∃ s1, changeViewV1 n me s t = some s1 := by
  obtain ⟨o, r, e, _⟩ := offsetV1_spec hn s.off (t - s.start)
  unfold changeViewV1
  rw [e]
  simp only
  split <;> exact ⟨_, rfl⟩

end ElaVerif.ViewSched
