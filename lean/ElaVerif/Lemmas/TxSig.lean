import ElaVerif.Model.TxSig
import ElaVerif.Lemmas.RunPrograms
/-! Lemmas about `Model/TxSig.lean` (C05): the de-duplication keeps every address, sorting is a permutation. -/
namespace ElaVerif.TxSig
open ElaVerif.Script ElaVerif.RunPrograms

theorem mem_dedupe : ∀ (hs : List PH) (h : PH), h ∈ hs → h ∈ dedupe hs
  | [], _, hm => by cases hm
  | x :: xs, h, hm => by
    unfold dedupe
    simp only [List.mem_cons] at hm
    split
    · rename_i hc
      rcases hm with rfl | hm
      · exact mem_dedupe xs h (by simpa using hc)
      · exact mem_dedupe xs h hm
    · rcases hm with rfl | hm
      · simp
      · simp [mem_dedupe xs h hm]

theorem dedupe_sub : ∀ (hs : List PH) (h : PH), h ∈ dedupe hs → h ∈ hs
  | [], _, hm => by simp [dedupe] at hm
  | x :: xs, h, hm => by
    unfold dedupe at hm
    split at hm
    · simp [dedupe_sub xs h hm]
    · simp only [List.mem_cons] at hm
      rcases hm with rfl | hm
      · simp
      · simp [dedupe_sub xs h hm]

theorem insertBy_perm {α : Type} (key : α → Bytes) (x : α) : ∀ (l : List α), (insertBy key x l).Perm (x :: l)
  | [] => List.Perm.refl _
  | y :: ys => by
    unfold insertBy
    split
    · exact ((insertBy_perm key x ys).cons y).trans (List.Perm.swap x y ys)
    · exact List.Perm.refl _

theorem sortBy_perm {α : Type} (key : α → Bytes) : ∀ (l : List α), (sortBy key l).Perm l
  | [] => List.Perm.refl _
  | x :: xs => by
    unfold sortBy
    exact (insertBy_perm key x _).trans ((sortBy_perm key xs).cons x)

end ElaVerif.TxSig
